import CaoProofs.Props.C10
import CaoProofs.Lemmas.WfUpvalues
/-!
# C10b — the upvalue-count clause of the bytecode checker (`checkUp`), and `compile_wf`

`Props/C10.lean` proves every clause of `Bytecode.wfReason` for compiled programs except `checkUp`
(hypothesis `UpvaluesChecked` of `compile_wf_partial`).  This file proves that clause:

* compiler side (`Lemmas/WfUpvalues.lean`): the whole bytecode of a compiled unit is *level code*
  `UpT bc log 0 0 size` (`compileUnit_level`), the closure rule being `closure_region_upvalues`;
* checker side (here): `level_checked` — level code passes `checkUp`, provided the handles of the
  `Closure` instructions are not used by labels at other positions (`ClosureHandlesDistinct`).
-/
namespace Cao.C10b
open Cao Cao.Compiler Cao.Compiler.Wf Cao.Bytecode Cao.C10

/-! ## the label log of a compilation -/

/-- the label insertion log of the compilation (`[]` if it fails); the program's label table is
`resolveLog` of it (a later label with the same handle wins) -/
def labelLog (m std : Module) (limit : Nat) : List (UInt32 × Nat) :=
  match intoIrStream m std limit with
  | .error _ => []
  | .ok unit =>
    match (compileUnit unit).run {} with
    | .error _ => []
    | .ok (_, s) => s.labels

/-- **no-collision hypothesis**: the handle of a `Closure` instruction is not the handle of a label at
another position (all log entries with that handle agree on the position).  Handles are 32-bit hashes,
and the checker (like the interpreter) finds the body of a closure by looking its handle up in the label
table, where the last insertion wins. -/
def ClosureHandlesDistinct (m std : Module) (limit : Nat) (p : Program) : Prop :=
  ∀ c, IsInstr p c op.closure → ∀ l1 ∈ labelLog m std limit, ∀ l2 ∈ labelLog m std limit,
    l1.1 = UInt32.ofNat (rdU32 p.bytecode (c + 1)) → l2.1 = l1.1 → l2.2 = l1.2

/-- a simpler sufficient condition: the whole log is functional (same handle, same position).  It is
too strong for programs with `Repeat` cards, whose label is inserted three times at different
positions (by the card itself and by its two hidden `ScalarInt` cards). -/
def LabelHandlesDistinct (m std : Module) (limit : Nat) : Prop :=
  ∀ l1 ∈ labelLog m std limit, ∀ l2 ∈ labelLog m std limit, l2.1 = l1.1 → l2.2 = l1.2

theorem LabelHandlesDistinct.closure {m std : Module} {limit : Nat} (h : LabelHandlesDistinct m std limit)
    (p : Program) : ClosureHandlesDistinct m std limit p :=
  fun _ _ l1 h1 l2 h2 _ e => h l1 h1 l2 h2 e

theorem compile_run {m std : Module} {limit : Nat} {p : Program} (h : compile m std limit = .ok p) :
    ∃ unit s, intoIrStream m std limit = .ok unit ∧ (compileUnit unit).run {} = .ok ((), s) ∧
      p.bytecode = s.bytecode ∧ p.labels = resolveLog s.labels ∧ labelLog m std limit = s.labels := by
  unfold compile at h
  split at h
  · cases h
  · rename_i unit hu
    split at h
    · cases h
    · rename_i s hs
      simp only [Except.ok.injEq] at h
      subst h
      refine ⟨unit, s, hu, hs, rfl, rfl, ?_⟩
      unfold labelLog
      rw [hu]
      simp only [hs]

/-! ## the checker's view -/

abbrev Reg := Nat × Nat × Nat

/-- the region the checker computes for the `Closure` instruction at `pos` -/
def regionAt (p : Program) (pos : Nat) : Option Reg :=
  match p.labels.find? (fun l => l.1 == UInt32.ofNat (rdU32 p.bytecode (pos + 1))) with
  | some (_, start) => some (start, pos, wfReason.count p 256 (pos + 9) 0)
  | none => none

theorem regionAt_snd {p : Program} {pos : Nat} {r : Reg} (h : regionAt p pos = some r) : r.2.1 = pos := by
  unfold regionAt at h
  split at h
  · simp only [Option.some.injEq] at h; rw [← h]
  · cases h

theorem mem_regionsOf {p : Program} {instrs : List (Nat × UInt8)} {r : Reg} :
    r ∈ regionsOf p instrs ↔ ∃ pos, (pos, op.closure) ∈ instrs ∧ regionAt p pos = some r := by
  unfold regionsOf
  rw [List.mem_filterMap]
  constructor
  · rintro ⟨⟨pos, o⟩, hx, hr⟩
    dsimp only at hr
    split at hr
    · rename_i ho
      have ho' : o = op.closure := by simpa using ho
      subst ho'
      exact ⟨pos, hx, hr⟩
    · cases hr
  · rintro ⟨pos, hx, hr⟩
    refine ⟨(pos, op.closure), hx, ?_⟩
    dsimp only
    rw [if_pos (by simp)]
    exact hr

/-- the checker counts at least the pairs that are there -/
theorem count_ge (p : Program) (n : Nat) : ∀ (m fuel at_ k : Nat), Pairs p.bytecode n m at_ → m ≤ fuel →
    k + m ≤ wfReason.count p fuel at_ k
  | 0, fuel, at_, k, _, _ => by
    cases fuel with
    | zero => unfold wfReason.count; omega
    | succ f =>
      unfold wfReason.count
      split
      · have := count_ge p n 0 f (at_ + 4) (k + 1) trivial (Nat.zero_le _)
        omega
      · omega
  | m+1, fuel, at_, k, h, hf => by
    obtain ⟨h1, h2, _, h4⟩ := h
    cases fuel with
    | zero => omega
    | succ f =>
      unfold wfReason.count
      rw [if_pos (by simp [h1, h2])]
      have := count_ge p n m f (at_ + 4) (k + 1) h4 (by omega)
      omega

/-! ## the innermost region -/

def pick (best : Option Reg) (r : Reg) : Option Reg :=
  match best with
  | none => some r
  | some b => if r.2.1 - r.1 < b.2.1 - b.1 then some r else some b

theorem enclosingOf_eq (p : Program) (instrs : List (Nat × UInt8)) (pos : Nat) :
    enclosingOf p instrs pos =
      ((regionsOf p instrs).filter (fun r => r.1 ≤ pos && pos < r.2.1)).foldl pick none := rfl

theorem foldl_pick_some : ∀ (l : List Reg) (b : Reg), ∃ r0, l.foldl pick (some b) = some r0 ∧
    (r0 = b ∨ r0 ∈ l) ∧ r0.2.1 - r0.1 ≤ b.2.1 - b.1 ∧ ∀ x ∈ l, r0.2.1 - r0.1 ≤ x.2.1 - x.1
  | [], b => ⟨b, rfl, .inl rfl, Nat.le_refl _, fun _ h => by cases h⟩
  | y :: ys, b => by
    simp only [List.foldl_cons, pick]
    split
    · rename_i hlt
      obtain ⟨r0, h1, h2, h3, h4⟩ := foldl_pick_some ys y
      refine ⟨r0, h1, ?_, by omega, fun x hx => ?_⟩
      · rcases h2 with h2 | h2
        · exact .inr (by rw [h2]; exact List.mem_cons_self ..)
        · exact .inr (List.mem_cons_of_mem _ h2)
      · rcases List.mem_cons.1 hx with rfl | hx
        · exact h3
        · exact h4 x hx
    · rename_i hge
      obtain ⟨r0, h1, h2, h3, h4⟩ := foldl_pick_some ys b
      refine ⟨r0, h1, ?_, h3, fun x hx => ?_⟩
      · rcases h2 with h2 | h2
        · exact .inl h2
        · exact .inr (List.mem_cons_of_mem _ h2)
      · rcases List.mem_cons.1 hx with rfl | hx
        · omega
        · exact h4 x hx

/-- the fold picks a shortest candidate -/
theorem foldl_pick_none {l : List Reg} {q : Reg} (hq : q ∈ l) :
    ∃ r0, l.foldl pick none = some r0 ∧ r0 ∈ l ∧ ∀ x ∈ l, r0.2.1 - r0.1 ≤ x.2.1 - x.1 := by
  cases l with
  | nil => cases hq
  | cons y ys =>
    obtain ⟨r0, h1, h2, h3, h4⟩ := foldl_pick_some ys y
    refine ⟨r0, h1, ?_, fun x hx => ?_⟩
    · rcases h2 with h2 | h2
      · rw [h2]; exact List.mem_cons_self ..
      · exact List.mem_cons_of_mem _ h2
    · rcases List.mem_cons.1 hx with rfl | hx
      · exact h3
      · exact h4 x hx

/-! ## the three shapes of `checkUp` -/

theorem checkUp_other {p : Program} {instrs : List (Nat × UInt8)} {pos : Nat} {o : UInt8}
    (h1 : isUpAcc o = false) (h2 : o ≠ op.registerUpvalue) : checkUpOf p instrs (pos, o) = none := by
  simp only [isUpAcc] at h1
  simp only [checkUpOf, h1, Bool.false_eq_true, if_false]
  rw [if_neg]
  simp [h2]

theorem checkUp_acc {p : Program} {instrs : List (Nat × UInt8)} {pos : Nat} {o : UInt8} {q : Reg}
    (h1 : isUpAcc o = true) (hq : enclosingOf p instrs pos = some q)
    (hlt : rdU32 p.bytecode (pos + 1) < q.2.2) : checkUpOf p instrs (pos, o) = none := by
  simp only [isUpAcc] at h1
  simp only [checkUpOf, h1, if_true, hq, hlt]

theorem checkUp_reg {p : Program} {instrs : List (Nat × UInt8)} {pos : Nat}
    (h : p.bytecode.getD (pos + 2) 0 = 0 →
      ∃ q, enclosingOf p instrs pos = some q ∧ (p.bytecode.getD (pos + 1) 0).toNat < q.2.2) :
    checkUpOf p instrs (pos, op.registerUpvalue) = none := by
  have h1 : (op.registerUpvalue == op.setUpvalue || op.registerUpvalue == op.readUpvalue) = false := by decide
  simp only [checkUpOf, h1, Bool.false_eq_true, if_false]
  split
  · rename_i hc
    simp only [beq_self_eq_true, Bool.true_and, beq_iff_eq] at hc
    obtain ⟨q, hq, hlt⟩ := h hc
    simp only [hq, hlt, if_true]
  · rfl

/-! ## level code passes the check -/

/-- what connects the checker's tables to the compiler's label log -/
structure Setup (p : Program) (instrs : List (Nat × UInt8)) (L : List (UInt32 × Nat)) : Prop where
  mem : ∀ pos o, (pos, o) ∈ instrs ↔ IsInstr p pos o
  lab : ∀ c, IsInstr p c op.closure → ∀ st, (UInt32.ofNat (rdU32 p.bytecode (c + 1)), st) ∈ L →
    regionAt p c = some (st, c, wfReason.count p 256 (c + 9) 0)

/-- the enclosing closure of a range: `none` at top level (no upvalues), else a region of the checker
that contains the range and registers at least `n` upvalues -/
def ParOK (R : List Reg) (n a b : Nat) : Option Reg → Prop
  | none => n = 0
  | some q => q ∈ R ∧ q.1 ≤ a ∧ b ≤ q.2.1 ∧ n ≤ q.2.2

/-- every region whose `Closure` instruction is not in the range `[a, b)` is disjoint from the range,
or contains it and is the enclosing region or a longer one -/
def Ctx (R : List Reg) (bc : Array UInt8) (a b : Nat) (par : Option Reg) : Prop :=
  ∀ r ∈ R, ¬ (Tiled bc a r.2.1 ∧ r.2.1 < b) →
    (r.2.1 ≤ a ∨ b ≤ r.1) ∨ (r.1 ≤ a ∧ b ≤ r.2.1 ∧ ∃ q, par = some q ∧ (r = q ∨ q.2.1 - q.1 < r.2.1 - r.1))

section
variable {p : Program} {instrs : List (Nat × UInt8)} {L : List (UInt32 × Nat)}

/-- a region whose `Closure` instruction is in a level's range starts inside the range, after a `Goto` -/
theorem Setup.in_range (S : Setup p instrs L) {n a b : Nat} (T : UpT p.bytecode L n a b)
    {r : Reg} (hr : r ∈ regionsOf p instrs) (ht : Tiled p.bytecode a r.2.1) (hlt : r.2.1 < b) : a + 5 ≤ r.1 ∧ r.1 ≤ r.2.1 := by
  obtain ⟨c, hc, hrc⟩ := mem_regionsOf.1 hr
  have e := regionAt_snd hrc
  subst e
  have hi := (S.mem _ _).1 hc
  obtain ⟨a', h1, h2, h3⟩ := T.closure_label r.2.1 ht hlt hi.2.2.symm
  have := S.lab r.2.1 hi _ h3
  rw [hrc] at this
  simp only [Option.some.injEq] at this
  rw [this]
  exact ⟨by simp only; omega, by simp only; omega⟩

theorem Setup.region_instr (S : Setup p instrs L) {r : Reg} (hr : r ∈ regionsOf p instrs) :
    IsInstr p r.2.1 op.closure := by
  obtain ⟨c, hcm, hrc⟩ := mem_regionsOf.1 hr
  rw [regionAt_snd hrc]
  exact (S.mem _ _).1 hcm

theorem not_closure {x : Nat} {o : UInt8} (hi : IsInstr p x op.closure) (h : p.bytecode.getD x 0 = o)
    (hne : o ≠ op.closure) : False := hne (by rw [← h]; exact hi.2.2.symm)

/-- a region is determined by the position of its `Closure` instruction -/
theorem region_unique {r r' : Reg} (hr : r ∈ regionsOf p instrs) (hr' : r' ∈ regionsOf p instrs)
    (h : r.2.1 = r'.2.1) : r = r' := by
  obtain ⟨c, _, hrc⟩ := mem_regionsOf.1 hr
  obtain ⟨c', _, hrc'⟩ := mem_regionsOf.1 hr'
  have e := regionAt_snd hrc
  have e' := regionAt_snd hrc'
  rw [← e, h, e'] at hrc
  rw [hrc] at hrc'
  exact Option.some.inj hrc'

/-- a position at a level's own nesting depth: the innermost region around it is the enclosing one -/
theorem own_level {n a b pos : Nat} {par : Option Reg} (hp : ParOK (regionsOf p instrs) n a b par)
    (hc : Ctx (regionsOf p instrs) p.bytecode a b par) (h1 : a ≤ pos) (h2 : pos < b)
    (hin : ∀ r ∈ regionsOf p instrs, Tiled p.bytecode a r.2.1 → r.2.1 < b → ¬ (r.1 ≤ pos ∧ pos < r.2.1))
    {x : Nat} (hx : x < n) : ∃ q, enclosingOf p instrs pos = some q ∧ x < q.2.2 := by
  cases par with
  | none => simp only [ParOK] at hp; omega
  | some q =>
    obtain ⟨q1, q2, q3, q4⟩ := hp
    have hqc : q ∈ (regionsOf p instrs).filter (fun r => r.1 ≤ pos && pos < r.2.1) := by
      rw [List.mem_filter]
      refine ⟨q1, ?_⟩
      simp only [Bool.and_eq_true, decide_eq_true_eq]
      omega
    obtain ⟨r0, e0, m0, min0⟩ := foldl_pick_none hqc
    refine ⟨r0, by rw [enclosingOf_eq]; exact e0, ?_⟩
    have hle := min0 q hqc
    rw [List.mem_filter] at m0
    obtain ⟨m1, m2⟩ := m0
    simp only [Bool.and_eq_true, decide_eq_true_eq] at m2
    have : r0 = q := by
      by_cases hr : Tiled p.bytecode a r0.2.1 ∧ r0.2.1 < b
      · exact absurd m2 (hin r0 m1 hr.1 hr.2)
      · rcases hc r0 m1 hr with hd | ⟨_, _, q', hq', hor⟩
        · omega
        · cases hq'
          rcases hor with h | h
          · exact h
          · omega
    rw [this]; omega

/-- **level code passes `checkUp`** -/
theorem level_checked (S : Setup p instrs L) {n a b : Nat} (T : UpT p.bytecode L n a b) :
    Start p.bytecode a → b ≤ p.bytecode.size → ∀ par, ParOK (regionsOf p instrs) n a b par →
    Ctx (regionsOf p instrs) p.bytecode a b par →
    ∀ pos, Tiled p.bytecode a pos → pos < b → checkUpOf p instrs (pos, p.bytecode.getD pos 0) = none := by
  induction T with
  | nil n a => intro _ _ _ _ _ pos ht hlt; have := ht.le; omega
  | @plain n a k b hs hcp hu ht ih =>
    intro ha hb par hp hc pos htp hlt
    have T0 : UpT p.bytecode L n a b := .plain hs hcp hu ht
    have hk := span_pos hs
    have hle := ht.le
    cases htp with
    | nil =>
      -- the instruction itself
      cases hacc : isUpAcc (p.bytecode.getD a 0) with
      | false =>
        refine checkUp_other hacc ?_
        intro h; rw [h] at hcp; exact absurd hcp (by decide)
      | true =>
        obtain ⟨q, hq, hlt'⟩ := own_level hp hc (Nat.le_refl a) (by omega)
          (fun r hr ht' hl' => by have := S.in_range T0 hr ht' hl'; omega) (hu hacc)
        exact checkUp_acc hacc hq hlt'
    | @cons _ k' _ hs' ht' =>
      rw [hs] at hs'; cases hs'
      refine ih (ha.trans (.single hs)) hb par ?_ ?_ pos ht' hlt
      · cases par with
        | none => exact hp
        | some q => exact ⟨hp.1, by have := hp.2.1; omega, hp.2.2.1, hp.2.2.2⟩
      · intro r hr hnot
        by_cases h0 : Tiled p.bytecode a r.2.1 ∧ r.2.1 < b
        · -- the region of the instruction at `a` itself: impossible, it is not a `Closure`
          have : r.2.1 = a := by
            rcases h0.1 with _ | ⟨hs'', ht''⟩
            · rfl
            · rw [hs] at hs''; cases hs''
              exact absurd ⟨ht'', h0.2⟩ hnot
          have hi := S.region_instr hr
          rw [this] at hi
          rw [← hi.2.2] at hcp
          exact absurd hcp (by decide)
        · rcases hc r hr h0 with hd | ⟨c1, c2, c3⟩
          · exact .inl (by omega)
          · exact .inr ⟨by omega, c2, c3⟩
  | @clos n m a c b hg hbody hcl hl hm hpairs htail ihb iht =>
    intro ha hb par hp hc pos htp hlt
    have T0 : UpT p.bytecode L n a b := .clos hg hbody hcl hl hm hpairs htail
    have hble := hbody.le
    have htle := htail.le
    have tb := hbody.tiled
    have tp := hpairs.tiled
    have sg : Gen.spanOf (p.bytecode.getD a 0) = some 5 := by rw [hg]; decide
    have sc : Gen.spanOf (p.bytecode.getD c 0) = some 9 := by rw [hcl]; decide
    have ha5 : Start p.bytecode (a + 5) := ha.trans (.single sg)
    have hc0 : Start p.bytecode c := ha5.trans tb
    have he : Start p.bytecode (c + 9 + 4 * m) := (hc0.trans (.single sc)).trans tp
    -- the region of this closure
    have hic : IsInstr p c op.closure := ⟨hc0, by omega, hcl.symm⟩
    have hreg := S.lab c hic _ hl
    have hcnt : m ≤ wfReason.count p 256 (c + 9) 0 := by
      have := count_ge p n m 256 (c + 9) 0 hpairs (by omega); omega
    have hrm : (a + 5, c, wfReason.count p 256 (c + 9) 0) ∈ regionsOf p instrs :=
      mem_regionsOf.2 ⟨c, (S.mem _ _).2 hic, hreg⟩
    -- regions of closures in the tail start in the tail
    have tail_start : ∀ r ∈ regionsOf p instrs, Tiled p.bytecode (c + 9 + 4 * m) r.2.1 → r.2.1 < b →
        c + 9 + 4 * m + 5 ≤ r.1 := fun r hr ht' hl' => (S.in_range htail hr ht' hl').1
    -- where an instruction start of the range lies
    have locate : ∀ x, Tiled p.bytecode a x → x < b →
        x = a ∨ (Tiled p.bytecode (a + 5) x ∧ x < c) ∨ x = c ∨
        (Tiled p.bytecode (c + 9) x ∧ x < c + 9 + 4 * m) ∨ (Tiled p.bytecode (c + 9 + 4 * m) x) := by
      intro x hx hxb
      rcases hx with _ | ⟨hs', hx1⟩
      · exact .inl rfl
      · rw [sg] at hs'; cases hs'
        rcases Nat.lt_or_ge x c with h | h
        · exact .inr (.inl ⟨hx1, h⟩)
        · have hx2 := tb.split hx1 h
          rcases hx2 with _ | ⟨hs'', hx3⟩
          · exact .inr (.inr (.inl rfl))
          · rw [sc] at hs''; cases hs''
            rcases Nat.lt_or_ge x (c + 9 + 4 * m) with h' | h'
            · exact .inr (.inr (.inr (.inl ⟨hx3, h'⟩)))
            · exact .inr (.inr (.inr (.inr (tp.split hx3 h'))))
    rcases locate pos htp hlt with rfl | ⟨hpos, hposc⟩ | rfl | ⟨hpos, hpose⟩ | hpos
    · -- the `Goto`
      rw [hg]; exact checkUp_other (by decide) (by decide)
    · -- inside the body: one level deeper, enclosed by this closure's region
      refine ihb ha5 (by omega) (some (a + 5, c, wfReason.count p 256 (c + 9) 0))
        ⟨hrm, Nat.le_refl _, Nat.le_refl _, hcnt⟩ ?_ pos hpos hposc
      intro r hr hnot
      by_cases h0 : Tiled p.bytecode a r.2.1 ∧ r.2.1 < b
      · rcases locate r.2.1 h0.1 h0.2 with h | ⟨h, h'⟩ | h | ⟨h, h'⟩ | h
        · -- `r`'s closure instruction would be the `Goto`
          have hi := S.region_instr hr
          rw [h] at hi
          exact (not_closure hi hg (by decide)).elim
        · exact absurd ⟨h, h'⟩ hnot
        · -- this closure's own region
          have := region_unique hr hrm h
          refine .inr ⟨by rw [this]; exact Nat.le_refl _, by rw [this]; exact Nat.le_refl _, _, rfl, .inl this⟩
        · -- in the registrations: not a `Closure`
          have hi := S.region_instr hr
          rcases hpairs.starts h h' with h'' | ⟨h'', _⟩
          · exact (not_closure hi h'' (by decide)).elim
          · exact (not_closure hi h'' (by decide)).elim
        · -- a closure of the tail
          have := tail_start r hr h h0.2
          exact .inl (.inr (by omega))
      · rcases hc r hr h0 with hd | ⟨c1, c2, q, hq, hor⟩
        · exact .inl (by omega)
        · refine .inr ⟨by omega, by omega, _, rfl, .inr ?_⟩
          simp only
          omega
    · -- the `Closure` instruction
      rw [hcl]; exact checkUp_other (by decide) (by decide)
    · -- the registrations: this level's own depth
      rcases hpairs.starts hpos hpose with h | ⟨h, hnl⟩
      · rw [h]; exact checkUp_other (by decide) (by decide)
      · rw [h]
        refine checkUp_reg fun hz => ?_
        have hpa : a ≤ pos := by have := hpos.le; omega
        refine own_level hp hc hpa hlt (fun r hr ht' hl' => ?_) (hnl hz)
        rcases locate r.2.1 ht' hl' with h | ⟨h, h'⟩ | h | ⟨h, h'⟩ | h
        · omega
        · have := hpos.le; omega
        · have := hpos.le; omega
        · have hi := S.region_instr hr
          rcases hpairs.starts h h' with h'' | ⟨h'', _⟩
          · exact (not_closure hi h'' (by decide)).elim
          · exact (not_closure hi h'' (by decide)).elim
        · have := tail_start r hr h hl'
          omega
    · -- the tail: same level
      refine iht he hb par ?_ ?_ pos hpos hlt
      · cases par with
        | none => exact hp
        | some q => exact ⟨hp.1, by have := hp.2.1; omega, hp.2.2.1, hp.2.2.2⟩
      · intro r hr hnot
        by_cases h0 : Tiled p.bytecode a r.2.1 ∧ r.2.1 < b
        · rcases locate r.2.1 h0.1 h0.2 with h | ⟨h, h'⟩ | h | ⟨h, h'⟩ | h
          · exact .inl (.inl (by omega))
          · exact .inl (.inl (by omega))
          · exact .inl (.inl (by omega))
          · exact .inl (.inl (by omega))
          · exact absurd ⟨h, h0.2⟩ hnot
        · rcases hc r hr h0 with hd | ⟨c1, c2, c3⟩
          · exact .inl (by omega)
          · exact .inr ⟨by omega, c2, c3⟩
end

/-! ## the theorems -/

/-- the label table maps the handle of a closure to the start of its body, if the handle is not used
at another position -/
theorem find_label {log : List (UInt32 × Nat)} {h : UInt32} {st : Nat} (hm : (h, st) ∈ log)
    (hd : ∀ l2 ∈ log, l2.1 = h → l2.2 = st) :
    ∃ e, (resolveLog log).find? (fun l => l.1 == h) = some e ∧ e.2 = st := by
  obtain ⟨e0, he0, hk0⟩ := resolveLog_mem_key log h ⟨(h, st), hm, rfl⟩
  cases hf : (resolveLog log).find? (fun l => l.1 == h) with
  | none =>
    have := List.find?_eq_none.1 hf e0 he0
    simp [hk0] at this
  | some e =>
    refine ⟨e, rfl, ?_⟩
    have h1 := List.find?_some hf
    have h2 := resolveLog_subset log e (List.mem_of_find?_eq_some hf)
    exact hd e h2 (by simpa using h1)

/-- **the decomposition lemma**: the checker's upvalue clause follows from the level structure of the
bytecode — the per-closure facts packed in `UpT` — and the no-collision hypothesis on the closure
handles in the label log -/
theorem upvaluesChecked_of_level {p : Program} {log : List (UInt32 × Nat)}
    (hl : p.labels = resolveLog log) (T : UpT p.bytecode log 0 0 p.bytecode.size)
    (hd : ∀ c, IsInstr p c op.closure → ∀ l1 ∈ log, ∀ l2 ∈ log,
      l1.1 = UInt32.ofNat (rdU32 p.bytecode (c + 1)) → l2.1 = l1.1 → l2.2 = l1.2) :
    UpvaluesChecked p := by
  intro instrs hdec
  obtain ⟨_, hmem, _⟩ := decodeAll_tiles hdec
  have S : Setup p instrs log := by
    refine ⟨fun pos o => hmem (pos, o), fun c hc st hst => ?_⟩
    obtain ⟨e, he, hes⟩ := find_label hst (fun l2 h2 e2 => hd c hc _ hst l2 h2 rfl e2)
    unfold regionAt
    rw [hl, he]
    obtain ⟨e1, e2⟩ := e
    simp only at hes
    rw [hes]
  rw [List.findSome?_eq_none_iff]
  rintro ⟨pos, o⟩ hx
  obtain ⟨h1, h2, h3⟩ := (S.mem pos o).1 hx
  rw [h3]
  refine level_checked S T (.nil _) (Nat.le_refl _) none rfl ?_ pos h1 h2
  intro r hr hnot
  have hi := S.region_instr hr
  exact absurd ⟨hi.1, hi.2.1⟩ hnot

/-- **`compile_upvalues_checked`**: the `checkUp` clause of the checker holds for every compiled
program whose closure handles do not collide with other label handles -/
theorem compile_upvalues_checked {m std : Module} {limit : Nat} {p : Program}
    (h : compile m std limit = .ok p) (hd : ClosureHandlesDistinct m std limit p) : UpvaluesChecked p := by
  obtain ⟨unit, s, _, hrun, hbc, hlab, hlog⟩ := compile_run h
  have T := compileUnit_level hrun
  rw [← hbc] at T
  refine upvaluesChecked_of_level hlab T ?_
  rw [← hlog]
  exact hd

/-- **`compile_wf`**: every compiled program is accepted by the checker `Bytecode.wfReason` —
no `UpvaluesChecked` hypothesis.  Hypotheses: the sizes fit the 32-bit operands, no function pointer
refers to the (unlabelled) entry function (`C10.entry_ref_not_wf`), and the closure handles do not
collide with other label handles. -/
theorem compile_wf {m std : Module} {limit : Nat} {p : Program} (h : compile m std limit = .ok p)
    (hsz : p.bytecode.size < 2 ^ 31) (hdata : p.data.size < 2 ^ 32) (hentry : NoEntryRef m std limit p)
    (hd : ClosureHandlesDistinct m std limit p) : Bytecode.WF p :=
  compile_wf_partial h hsz hdata hentry (compile_upvalues_checked h hd)

/-- the statement without the collision hypothesis (not proved; it is false whenever two label
handles — 32-bit hashes — of a compilation collide at a closure, which the model cannot exclude) -/
def compile_upvalues_checked_Full : Prop :=
  ∀ (m std : Module) (limit : Nat) (p : Program), compile m std limit = .ok p → UpvaluesChecked p

/-! ## non-vacuity -/

/-- an executable sufficient condition for the hypotheses of `compile_wf` (with the empty standard
library): the program compiles, is small, contains no `FunctionPointer` instruction, and the handles of
its label log are pairwise different -/
def hypsOK (m : Module) : Bool :=
  match compile m (Module.mk [] [] []) with
  | .error _ => false
  | .ok p =>
    decide (p.bytecode.size < 2 ^ 31) && decide (p.data.size < 2 ^ 32) &&
    (match decodeAll p.bytecode (p.bytecode.size + 1) 0 [] with
     | .ok l => l.all (fun x => x.2 != op.functionPointer)
     | .error _ => false) &&
    decide (((labelLog m (Module.mk [] [] []) Gen.recursionLimit).map (·.1)).Pairwise (· ≠ ·))

theorem functional_of_pairwise : ∀ (log : List (UInt32 × Nat)), (log.map (·.1)).Pairwise (· ≠ ·) →
    ∀ l1 ∈ log, ∀ l2 ∈ log, l2.1 = l1.1 → l2.2 = l1.2
  | [], _, l1, h1, _, _, _ => by cases h1
  | x :: xs, hp, l1, h1, l2, h2, e => by
    rw [List.map_cons, List.pairwise_cons] at hp
    rcases List.mem_cons.1 h1 with g1 | g1 <;> rcases List.mem_cons.1 h2 with g2 | g2
    · rw [g1, g2]
    · rw [g1] at e; exact absurd e.symm (hp.1 _ (List.mem_map.2 ⟨l2, g2, rfl⟩))
    · rw [g2] at e; exact absurd e (hp.1 _ (List.mem_map.2 ⟨l1, g1, rfl⟩))
    · exact functional_of_pairwise xs hp.2 l1 g1 l2 g2 e

theorem hypsOK_sound {m : Module} (h : hypsOK m = true) :
    ∃ p, compile m (Module.mk [] [] []) = .ok p ∧ p.bytecode.size < 2 ^ 31 ∧ p.data.size < 2 ^ 32 ∧
      NoEntryRef m (Module.mk [] [] []) Gen.recursionLimit p ∧
      ClosureHandlesDistinct m (Module.mk [] [] []) Gen.recursionLimit p := by
  unfold hypsOK at h
  split at h
  · cases h
  · rename_i p hp
    simp only [Bool.and_eq_true, decide_eq_true_eq] at h
    obtain ⟨⟨⟨h1, h2⟩, h3⟩, h4⟩ := h
    refine ⟨p, hp, h1, h2, ?_, (LabelHandlesDistinct.closure (functional_of_pairwise _ h4) p)⟩
    intro unit _ pos hi
    exfalso
    obtain ⟨l, hl, hmem, _⟩ := compile_decodes hp
    rw [hl] at h3
    have := List.all_eq_true.1 h3 _ ((hmem _ _).2 hi)
    simp at this

/-! ### a compiled two-level closure

`String.splitOn` (used by `ReadVar`/`SetVar`) is defined by well-founded recursion and does not reduce
in the kernel; the compilation of the example is therefore first rewritten into a `splitOn`-free twin
(`unitT`, obtained by unfolding the compiler on the example's cards and rewriting with `splitOn_x`), which
`decide +kernel` then evaluates. -/

theorem splitOn_x : ("x" : String).splitOn "." = ["x"] := by
  simp (config := {decide := true}) [String.splitOn, String.splitOnAux]

/-- main sets a local `x`; a closure creates a closure that reads `x`: the inner closure captures
an upvalue of the outer one (`RegisterUpvalue 0 0`), which captures main's local (`RegisterUpvalue 0 1`) -/
def mainCards : List Card := [.setVar "x" (.scalarInt 1), .closure [] [.closure [] [.readVar "x"]]]
def twoLevel : Module := Module.mk [] [("main", ⟨[], mainCards⟩)] []
def stdE : Module := Module.mk [] [] []

def mainIr : FunctionIr :=
  { functionIndex := 0, name := "main", arguments := [], cards := mainCards, ns := [], imports := [],
    handle := Hash.handleFromU64 (UInt64.ofNat 0) }

theorem twoLevel_ir : intoIrStream twoLevel stdE Gen.recursionLimit = .ok #[mainIr] := by rfl

def readXT : {A : CM Unit // readVarCard "x" = A} := ⟨_, by unfold readVarCard; rw [splitOn_x]⟩
def setXT : {A : CM Unit // setVarTarget "x" = A} := ⟨_, by unfold setVarTarget; rw [splitOn_x]⟩

def mainT : {A : CM Unit // processFunctionCards 0 mainCards = A} :=
  ⟨_, by
    simp only [mainCards, processFunctionCards, processCard, compileSubexprFrom, setVarCode, readXT.2, setXT.2]
    rfl⟩

/-- the `splitOn`-free twin of the compilation of the example -/
def unitT : {A : CM Unit // compileUnit #[mainIr] = A} :=
  ⟨_, by
    have h0 : (#[mainIr])[0]! = mainIr := rfl
    have hc : mainIr.cards = mainCards := rfl
    simp only [compileUnit, h0, processFunction, hc, mainT.2]; rfl⟩

def finish (r : Except CErr (Unit × CState)) : Except CErr Program :=
  match r with
  | .error e => .error e
  | .ok ((), s) =>
    .ok { bytecode := s.bytecode, data := s.data, labels := resolveLog s.labels,
          varIds := s.varIds, varNames := s.varNames, trace := resolveLog s.trace }

def labelsOf (r : Except CErr (Unit × CState)) : List (UInt32 × Nat) :=
  match r with
  | .error _ => []
  | .ok (_, s) => s.labels

theorem compile_twin : compile twoLevel stdE = finish (unitT.1.run {}) := by
  rw [← unitT.2]
  unfold compile
  rw [twoLevel_ir]
  rfl

theorem labelLog_twin : labelLog twoLevel stdE Gen.recursionLimit = labelsOf (unitT.1.run {}) := by
  rw [← unitT.2]
  unfold labelLog
  rw [twoLevel_ir]
  rfl

/-- the compiled two-level closure: the inner body (level 2) reads upvalue 0 of its closure, which
registers one non-local upvalue (index 0 of the outer closure); the outer closure registers one local -/
theorem twoLevel_bytes : (match compile twoLevel stdE with
    | .ok p => p.bytecode.toList
    | .error _ => []) =
    [op.scalarInt, 1, 0, 0, 0, 0, 0, 0, 0, op.setLocalVar, 0, 0, 0, 0,
     op.goto, 46, 0, 0, 0,
       op.goto, 31, 0, 0, 0,
         op.readUpvalue, 0, 0, 0, 0, op.scalarNil, op.ret,
       op.closure, 146, 227, 129, 49, 0, 0, 0, 0, op.copyLast, op.registerUpvalue, 0, 0,
       op.scalarNil, op.ret,
     op.closure, 210, 71, 104, 244, 0, 0, 0, 0, op.copyLast, op.registerUpvalue, 0, 1,
     op.closeUpvalue, op.exit, op.exit] := by
  rw [compile_twin]
  decide +kernel

/-- the hypotheses of `compile_wf` hold for it -/
theorem twoLevel_hyps : hypsOK twoLevel = true := by
  unfold hypsOK
  rw [show Module.mk [] [] [] = stdE from rfl, compile_twin, labelLog_twin]
  decide +kernel

/-- `compile_wf` applies to the two-level closure -/
theorem twoLevel_wf : ∃ p, compile twoLevel stdE = .ok p ∧ Bytecode.WF p := by
  obtain ⟨p, h, h1, h2, h3, h4⟩ := hypsOK_sound twoLevel_hyps
  exact ⟨p, h, compile_wf h h1 h2 h3 h4⟩

/-- its whole bytecode is top-level code in the sense of `UpT` (`compileUnit_level`) -/
theorem twoLevel_level : ∃ s, (compileUnit #[mainIr]).run {} = .ok ((), s) ∧
    UpT s.bytecode s.labels 0 0 s.bytecode.size := by
  have h : (match unitT.1.run {} with | .ok _ => true | .error _ => false) = true := by decide +kernel
  rw [← unitT.2] at h
  split at h
  · rename_i x hx
    obtain ⟨⟨⟩, s⟩ := x
    exact ⟨s, hx, compileUnit_level hx⟩
  · cases h

/-- the checker accepts it (by evaluation, independently of the theorem) -/
example : okWF twoLevel = true := by
  unfold okWF
  rw [show Module.mk [] [] [] = stdE from rfl, compile_twin]
  decide +kernel

/-- a `Repeat` card inserts its label three times at different positions: the stronger hypothesis
`LabelHandlesDistinct` fails for such programs, `ClosureHandlesDistinct` holds (there is no closure) -/
def repeatProg : Module := Module.mk [] [("main", ⟨[], [.repeat none (.scalarInt 2) .scalarNil]⟩)] []

example : (labelLog repeatProg stdE Gen.recursionLimit).map (·.2) = [0, 0, 14, 44, 45, 72] ∧
    ((labelLog repeatProg stdE Gen.recursionLimit).map (·.1)).take 3 =
      [3787022137, 835574601, 3787022137] := by decide +kernel


/-! ## summary

* `compile_upvalues_checked : compile m std limit = .ok p → ClosureHandlesDistinct m std limit p →
  UpvaluesChecked p` — the missing clause of `C10.compile_wf_partial`;
* `compile_wf : compile … = .ok p → size < 2^31 → data.size < 2^32 → NoEntryRef … →
  ClosureHandlesDistinct … → Bytecode.WF p` — no `UpvaluesChecked` hypothesis;
* `upvaluesChecked_of_level` — the decomposition: `UpvaluesChecked p` from the level structure `UpT` of the
  bytecode (per-closure facts) and the collision hypothesis; `level_checked` is its induction;
* compiler side: `Compiler.closure_region_upvalues` (the closure rule), `Compiler.compileUnit_level`.

`ClosureHandlesDistinct` cannot be dropped with this method: the checker finds the body of a closure by
looking its 32-bit handle up in the resolved label table, where a later label with the same handle
wins (`compile_upvalues_checked_Full` is left as a `def`). -/

end Cao.C10b
