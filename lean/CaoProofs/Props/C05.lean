import CaoProofs.Props.C02
/-!
# C05 — the memory limit is enforced and garbage is reclaimed

* `Ledger`: the byte counter of the allocator equals the sum of the charges of the allocated
  objects. Preserved by `gc`, `initTable`, `initString`, `initSimple` (success *and* failure),
  `tableInsert` (for a rooted table in a heap with unique addresses) and `clear`.
* `alloc_le_limit`: `allocated ≤ limit` is an invariant of `allocBytes` and of the operations
  built from it.
* `oom_only_if_full` / `alloc_succeeds_if_fits` / `alloc_outcome_iff`: under `Ledger`, an
  allocation is refused **iff** the objects reachable from the roots plus the request exceed the
  limit — garbage never causes an out-of-memory error.
* `threshold_after_gc`, `nextGc_ge_initial`, `no_gc_below_threshold`.
-/
namespace Cao.C05
open Cao Cao.Vm Cao.Gc Cao.C02

/-! ## 1. the ledger -/

/-- total charge of the allocated objects -/
def charges (h : Heap) : Nat := (h.objs.map (fun p => Heap.chargeOf p.2)).sum

/-- accounted bytes = sum of the charges of the objects currently allocated -/
def Ledger (s : VmState) : Prop :=
  s.mem.allocated = (s.heap.objs.map (fun p => Heap.chargeOf p.2)).sum

/-- the ledger in the middle of an operation: `p` bytes are charged for storage that is not yet
    (or no longer) part of an object -/
def LedgerP (s : VmState) (p : Nat) : Prop := s.mem.allocated = charges s.heap + p

theorem ledger_iff (s : VmState) : Ledger s ↔ LedgerP s 0 := Iff.rfl

/-- charge of what survives a collection = charge of the reachable objects -/
def liveCharge (s : VmState) : Nat := charges (gc s).heap

/-- `liveCharge` spelled out with `Reach`: exactly the entries with a reachable address count -/
theorem liveCharge_eq (s : VmState) :
    liveCharge s = ((s.heap.objs.filter (fun p => decide (p.1 ∈ reachable s))).map
      (fun p => Heap.chargeOf p.2)).sum ∧
    ∀ p, p ∈ s.heap.objs.filter (fun p => decide (p.1 ∈ reachable s)) ↔
      p ∈ s.heap.objs ∧ Reach s.heap (rootAddrs s) p.1 := by
  constructor
  · unfold liveCharge charges
    rw [gc_heap_objs]
    simp only [List.contains_eq_mem]
  · intro p
    rw [List.mem_filter, ← mem_reachable]
    simp

theorem gc_charges (s : VmState) :
    charges (gc s).heap +
      ((s.heap.objs.filter (fun p => !(reachable s).contains p.1)).map
        (fun p => Heap.chargeOf p.2)).sum = charges s.heap := by
  unfold charges
  rw [gc_heap_objs]
  exact sum_filter_add_sum_filter_not _ _ _

theorem gc_ledgerP (s : VmState) (p : Nat) (h : LedgerP s p) : LedgerP (gc s) p := by
  unfold LedgerP at *
  have h1 := gc_charges s
  have h2 := gc_allocated s
  omega

/-- **the collection keeps the ledger balanced** -/
theorem gc_ledger (s : VmState) (h : Ledger s) : Ledger (gc s) := gc_ledgerP s 0 h

theorem liveCharge_le (s : VmState) : liveCharge s ≤ charges s.heap := by
  have := gc_charges s
  unfold liveCharge; omega

/-- **a fresh machine** -/
theorem fresh_ledger (c : Config) : Ledger (VmState.fresh c) := rfl

/-- **`clear`: every object is released and its charge returned** -/
theorem clear_zero (s : VmState) (h : Ledger s) : (clear s).mem.allocated = 0 := by
  have : (clear s).mem.allocated = s.mem.allocated - charges s.heap := by
    simp only [clear, foldl_add_eq_sum, Nat.zero_add]; rfl
  rw [this, h]; unfold charges; omega

theorem clear_ledger (s : VmState) (h : Ledger s) : Ledger (clear s) := by
  show (clear s).mem.allocated = 0
  exact clear_zero s h

/-- removing one object and releasing its charge (what `clear` does object by object) -/
theorem dealloc_remove_ledger (s : VmState) (pre post : List (Nat × Obj)) (a : Nat) (o : Obj)
    (hobjs : s.heap.objs = pre ++ (a, o) :: post) (h : Ledger s) :
    Ledger { refund (Heap.chargeOf o) s with heap := { s.heap with objs := pre ++ post } } := by
  unfold Ledger at *
  simp only [refund]
  rw [h, hobjs]
  simp only [List.map_append, List.map_cons, List.sum_append, List.sum_cons]
  omega

/-! ### `allocBytes` -/

theorem allocCharged_ledgerP (c : Nat) (s : VmState) (p : Nat) (h : LedgerP s p) :
    LedgerP (allocCharged c s) (p + c) := by
  unfold LedgerP at *
  show s.mem.allocated + c = charges s.heap + (p + c)
  omega

theorem collect_ledgerP (s : VmState) (p : Nat) (h : LedgerP s p) : LedgerP (collect s) p :=
  gc_ledgerP s p h

theorem allocCollected_ledgerP (c : Nat) (s : VmState) (p : Nat) (h : LedgerP s p) :
    LedgerP (allocCollected c s) (p + c) := by
  unfold allocCollected
  split
  · exact collect_ledgerP _ _ (allocCharged_ledgerP c s p h)
  · exact allocCharged_ledgerP c s p h

theorem refund_ledgerP (c : Nat) (s : VmState) (p : Nat) (h : LedgerP s (p + c)) :
    LedgerP (refund c s) p := by
  unfold LedgerP at *
  show s.mem.allocated - c = charges s.heap + p
  omega

/-- a successful allocation leaves `c` more bytes pending -/
theorem allocBytes_ok_ledgerP (c : Nat) (s s' : VmState) (p : Nat) (u : Unit)
    (hrun : (allocBytes c).run.run s = (.ok u, s')) (h : LedgerP s p) : LedgerP s' (p + c) := by
  rw [allocBytes_run] at hrun
  unfold allocPure at hrun
  dsimp only at hrun
  split at hrun
  · cases hrun
  · cases hrun; exact allocCollected_ledgerP c s p h

/-- **a refused allocation is refunded**, and the only possible error is `outOfMemory` -/
theorem allocBytes_err_ledgerP (c : Nat) (s s' : VmState) (p : Nat) (e : ErrKind)
    (hrun : (allocBytes c).run.run s = (.error e, s')) (h : LedgerP s p) :
    LedgerP s' p ∧ e = .outOfMemory := by
  rw [allocBytes_run] at hrun
  unfold allocPure at hrun
  dsimp only at hrun
  split at hrun
  · cases hrun; exact ⟨refund_ledgerP c _ p (allocCollected_ledgerP c s p h), rfl⟩
  · cases hrun

/-! ### object constructors -/

theorem withObject_ledger (o : Obj) (s : VmState) (h : LedgerP s (Heap.chargeOf o)) :
    Ledger (withObject o s) := by
  unfold Ledger LedgerP charges at *
  simp only [withObject, List.map_append, List.sum_append, List.map_cons, List.map_nil,
    List.sum_cons, List.sum_nil]
  omega

theorem alloc2Pure_ledger (c1 c2 : Nat) (o : Obj) (s : VmState) (hc : Heap.chargeOf o = c1 + c2)
    (h : Ledger s) : Ledger (alloc2Pure c1 c2 o s).2 := by
  unfold alloc2Pure
  rcases h1 : allocPure c1 s with ⟨r1, s1⟩
  rw [← allocBytes_run] at h1
  cases r1 with
  | error e => exact (allocBytes_err_ledgerP c1 s s1 0 e h1 h).1
  | ok u =>
    have l1 := allocBytes_ok_ledgerP c1 s s1 0 u h1 h
    dsimp only
    rcases h2 : allocPure c2 s1 with ⟨r2, s2⟩
    rw [← allocBytes_run] at h2
    cases r2 with
    | error e =>
      have l2 := (allocBytes_err_ledgerP c2 s1 s2 (0 + c1) e h2 l1).1
      exact refund_ledgerP c1 s2 0 l2
    | ok u =>
      have l2 := allocBytes_ok_ledgerP c2 s1 s2 (0 + c1) u h2 l1
      exact withObject_ledger o s2 (by rw [hc]; simpa [Nat.add_comm] using l2)

/-- **`initTable` keeps the ledger balanced, whether it succeeds or is refused** -/
theorem initTable_ledger (s : VmState) (h : Ledger s) : Ledger (initTable.run.run s).2 := by
  rw [initTable_run]; exact alloc2Pure_ledger _ _ _ s rfl h

theorem initString_ledger (bytes : List UInt8) (s : VmState) (h : Ledger s) :
    Ledger ((initString bytes).run.run s).2 := by
  rw [initString_run]; exact alloc2Pure_ledger _ _ _ s rfl h

/-- `initSimple` is used for functions, natives, closures and upvalues (header only); for these
    the charge is the header -/
theorem initSimple_ledger (o : Obj) (s : VmState) (ho : Heap.chargeOf o = Heap.objCharge)
    (h : Ledger s) : Ledger ((initSimple o).run.run s).2 := by
  rw [initSimple_run]
  unfold alloc1Pure
  rcases h1 : allocPure Heap.objCharge s with ⟨r1, s1⟩
  rw [← allocBytes_run] at h1
  cases r1 with
  | error e => exact (allocBytes_err_ledgerP _ s s1 0 e h1 h).1
  | ok u =>
    have l1 := allocBytes_ok_ledgerP _ s s1 0 u h1 h
    exact withObject_ledger o s1 (by rw [ho]; simpa using l1)

theorem initSimple_ledger_fn (hd ar : UInt32) (s : VmState) (h : Ledger s) :
    Ledger ((initSimple (.fn hd ar)).run.run s).2 := initSimple_ledger _ s rfl h
theorem initSimple_ledger_native (hd : UInt32) (s : VmState) (h : Ledger s) :
    Ledger ((initSimple (.native hd)).run.run s).2 := initSimple_ledger _ s rfl h
theorem initSimple_ledger_closure (hd ar : UInt32) (ups : List Nat) (s : VmState) (h : Ledger s) :
    Ledger ((initSimple (.closure hd ar ups)).run.run s).2 := initSimple_ledger _ s rfl h
theorem initSimple_ledger_upvalue (l : UpLoc) (s : VmState) (h : Ledger s) :
    Ledger ((initSimple (.upvalue l)).run.run s).2 := initSimple_ledger _ s rfl h

/-! ### unique addresses; `tableInsert` -/

/-- every address is allocated at most once -/
def UniqueAddrs (h : Heap) : Prop := (h.objs.map (fun p => p.1)).Nodup

/-- the next fresh address is above every allocated address -/
def FreshNext (h : Heap) : Prop := ∀ p ∈ h.objs, p.1 < h.next

theorem set_keys (h : Heap) (a : Nat) (o : Obj) :
    (h.set a o).objs.map (fun p => p.1) = h.objs.map (fun p => p.1) := by
  unfold Heap.set
  simp only [List.map_map]
  apply List.map_congr_left
  intro p _
  by_cases hp : (p.1 == a) = true
  · simp only [Function.comp, hp, if_true]; exact (by simpa using hp : p.1 = a).symm
  · simp only [Function.comp, hp]; rfl

theorem set_unique (h : Heap) (a : Nat) (o : Obj) (hu : UniqueAddrs h) : UniqueAddrs (h.set a o) := by
  unfold UniqueAddrs; rw [set_keys]; exact hu

theorem set_fresh (h : Heap) (a : Nat) (o : Obj) (hf : FreshNext h) : FreshNext (h.set a o) := by
  intro p hp
  have : p.1 ∈ (h.set a o).objs.map (fun p => p.1) := List.mem_map_of_mem hp
  rw [set_keys] at this
  obtain ⟨q, hq, hqp⟩ := List.mem_map.mp this
  rw [← hqp]; exact hf q hq

theorem gc_unique (s : VmState) (hu : UniqueAddrs s.heap) : UniqueAddrs (gc s).heap := by
  unfold UniqueAddrs at *
  rw [gc_heap_objs]
  exact List.Nodup.sublist (List.Sublist.map _ List.filter_sublist) hu

theorem gc_fresh (s : VmState) (hf : FreshNext s.heap) : FreshNext (gc s).heap := by
  intro p hp
  exact hf p ((gc_exact s p).mp hp).1

theorem withObject_unique (o : Obj) (s : VmState) (hu : UniqueAddrs s.heap) (hf : FreshNext s.heap) :
    UniqueAddrs (withObject o s).heap ∧ FreshNext (withObject o s).heap := by
  constructor
  · unfold UniqueAddrs at *
    simp only [withObject, List.map_append, List.map_cons, List.map_nil]
    rw [List.nodup_append]
    refine ⟨hu, by simp, ?_⟩
    intro x hx y hy
    obtain ⟨q, hq, hqx⟩ := List.mem_map.mp hx
    have := hf q hq
    rcases List.mem_singleton.mp hy with rfl
    omega
  · intro p hp
    simp only [withObject, List.mem_append, List.mem_singleton] at hp ⊢
    rcases hp with hp | rfl
    · exact Nat.lt_succ_of_lt (hf p hp)
    · exact Nat.lt_succ_self _

private theorem map_set_noop (l : List (Nat × Obj)) (a : Nat) (o' : Obj)
    (ha : a ∉ l.map (fun p => p.1)) :
    l.map (fun p => if p.1 == a then (a, o') else p) = l := by
  induction l with
  | nil => rfl
  | cons p l ih =>
    simp only [List.map_cons, List.mem_cons, not_or] at ha
    have hp : (p.1 == a) = false := by simpa using fun h => ha.1 h.symm
    simp only [List.map_cons, hp, Bool.false_eq_true, if_false, ih ha.2]

/-- replacing the object at a (unique) address changes the total charge accordingly -/
theorem charges_set (h : Heap) (a : Nat) (o o' : Obj) (hu : UniqueAddrs h)
    (hg : h.get a = some o) :
    charges (h.set a o') + Heap.chargeOf o = charges h + Heap.chargeOf o' := by
  unfold UniqueAddrs at hu
  unfold Heap.get at hg
  unfold charges Heap.set
  generalize h.objs = l at hu hg
  induction l with
  | nil => simp at hg
  | cons p l ih =>
    simp only [List.map_cons, List.nodup_cons] at hu
    by_cases hp : (p.1 == a) = true
    · have hpa : p.1 = a := by simpa using hp
      simp only [List.find?_cons, hp, Option.map_some, Option.some.injEq] at hg
      rw [hpa] at hu
      simp only [List.map_cons, hp, if_true, List.sum_cons, map_set_noop l a o' hu.1, ← hg]
      omega
    · have hp' : (p.1 == a) = false := by simpa using hp
      simp only [List.find?_cons, hp'] at hg
      have := ih hu.2 hg
      simp only [List.map_cons, hp', Bool.false_eq_true, if_false, List.sum_cons] at this ⊢
      omega

theorem set_ledgerP (s : VmState) (a : Nat) (o o' : Obj) (p : Nat) (hu : UniqueAddrs s.heap)
    (hg : s.heap.get a = some o) (hc : Heap.chargeOf o' = Heap.chargeOf o) (h : LedgerP s p) :
    LedgerP { s with heap := s.heap.set a o' } p := by
  have := charges_set s.heap a o o' hu hg
  unfold LedgerP at *
  show s.mem.allocated = charges (s.heap.set a o') + p
  omega

/-- the heap after an allocation has the same unique addresses and the same fresh address -/
theorem allocBytes_unique (c : Nat) (s : VmState) (hu : UniqueAddrs s.heap) (hf : FreshNext s.heap) :
    UniqueAddrs ((allocBytes c).run.run s).2.heap ∧ FreshNext ((allocBytes c).run.run s).2.heap := by
  rcases (allocBytes_vs_no_collection c s).2 with h | h
  · rw [h]; exact ⟨hu, hf⟩
  · rw [h]; exact ⟨gc_unique s hu, gc_fresh s hf⟩

/-- **`tableInsert` keeps the ledger balanced**: an overwrite or an append without growth does not
    allocate; a growth charges the new storage and releases the old one; a refused growth is
    refunded. Needed: addresses are unique, and the table is reachable from the roots (it is on
    the value stack or guarded whenever the VM calls `tableInsert`) — see the counter-example
    below for an unrooted table. -/
theorem tableInsert_ledger (a : Nat) (k v : Val) (s : VmState) (h : Ledger s)
    (hu : UniqueAddrs s.heap) (hr : Reach s.heap (rootAddrs s) a) :
    Ledger ((tableInsert a k v).run.run s).2 := by
  rw [tableInsert_run]
  unfold tableInsertPure
  cases hg : s.heap.get a with
  | none => exact h
  | some o =>
    cases o with
    | table cap es =>
      dsimp only
      split
      · exact set_ledgerP s a _ _ 0 hu hg rfl h
      · split
        · rcases h1 : allocPure (Heap.tableCharge (HMap.growCap cap)) s with ⟨r, s1⟩
          have hob := allocBytes_obs (Heap.tableCharge (HMap.growCap cap)) s
          have hvs := (allocBytes_vs_no_collection (Heap.tableCharge (HMap.growCap cap)) s).2
          rw [← allocBytes_run] at h1
          rw [h1] at hob hvs
          cases r with
          | error e => exact (allocBytes_err_ledgerP _ s s1 0 e h1 h).1
          | ok u =>
            have l1 := allocBytes_ok_ledgerP _ s s1 0 u h1 h
            have hg1 : s1.heap.get a = some (.table cap es) := by
              rw [hob.fwd a hr]; exact hg
            have hu1 : UniqueAddrs s1.heap := by
              rcases hvs with h' | h'
              · rw [h']; exact hu
              · rw [h']; exact gc_unique s hu
            have hcs := charges_set s1.heap a _ (.table (HMap.growCap cap) (es ++ [(k, v)])) hu1 hg1
            unfold LedgerP at l1
            show s1.mem.allocated - Heap.tableCharge cap = charges (s1.heap.set a _)
            simp only [Heap.chargeOf] at hcs
            omega
        · exact set_ledgerP s a _ _ 0 hu hg rfl h
    | _ => exact h

/-- the rootedness hypothesis of `tableInsert_ledger` is necessary: growing an *unreachable*
    table while a collection is forced frees the table in the middle of the operation, and the
    release of its old storage is then charged twice -/
def unrootedGrow : VmState :=
  { stack := VStack.new 4, frameCap := 4, sched := .every,
    mem := { allocated := Heap.chargeOf (.table 1 []), nextGc := 10000, limit := 10000 },
    heap := { objs := [(1, .table 1 [])], next := 2 } }

example : Ledger unrootedGrow ∧ UniqueAddrs unrootedGrow.heap ∧
    ¬ Ledger ((tableInsert 1 (.int 0) (.int 0)).run.run unrootedGrow).2 := by
  refine ⟨by unfold Ledger; decide, by unfold UniqueAddrs; decide, ?_⟩
  rw [tableInsert_run]
  unfold Ledger
  decide

theorem tableInsert_unique (a : Nat) (k v : Val) (s : VmState) (hu : UniqueAddrs s.heap)
    (hf : FreshNext s.heap) :
    UniqueAddrs ((tableInsert a k v).run.run s).2.heap ∧
    FreshNext ((tableInsert a k v).run.run s).2.heap := by
  rw [tableInsert_run]
  unfold tableInsertPure
  cases hg : s.heap.get a with
  | none => exact ⟨hu, hf⟩
  | some o =>
    cases o with
    | table cap es =>
      dsimp only
      split
      · exact ⟨set_unique _ _ _ hu, set_fresh _ _ _ hf⟩
      · split
        · have := allocBytes_unique (Heap.tableCharge (HMap.growCap cap)) s hu hf
          rw [allocBytes_run] at this
          rcases h1 : allocPure (Heap.tableCharge (HMap.growCap cap)) s with ⟨r, s1⟩
          rw [h1] at this
          cases r with
          | error e => exact this
          | ok u => exact ⟨set_unique _ _ _ this.1, set_fresh _ _ _ this.2⟩
        · exact ⟨set_unique _ _ _ hu, set_fresh _ _ _ hf⟩
    | _ => exact ⟨hu, hf⟩

/-! ## 2. the limit is an invariant -/

/-- `allocated ≤ limit` -/
def WithinLimit (s : VmState) : Prop := s.mem.allocated ≤ s.mem.limit

theorem gc_allocated_le (s : VmState) : (gc s).mem.allocated ≤ s.mem.allocated := by
  rw [gc_allocated]; omega

theorem allocCollected_mem (c : Nat) (s : VmState) :
    (allocCollected c s).mem.allocated ≤ s.mem.allocated + c ∧
    (allocCollected c s).mem.limit = s.mem.limit := by
  unfold allocCollected
  split
  · exact ⟨gc_allocated_le (allocCharged c s), rfl⟩
  · exact ⟨Nat.le_refl _, rfl⟩

/-- **the limit is enforced by every allocation**, successful or refused; no `Ledger` needed -/
theorem alloc_le_limit (c : Nat) (s : VmState) (h : WithinLimit s) :
    WithinLimit ((allocBytes c).run.run s).2 ∧
    ((allocBytes c).run.run s).2.mem.limit = s.mem.limit := by
  rw [allocBytes_run]
  unfold allocPure
  obtain ⟨h1, h2⟩ := allocCollected_mem c s
  unfold WithinLimit at *
  dsimp only
  split
  · refine ⟨?_, h2⟩
    show (allocCollected c s).mem.allocated - c ≤ (allocCollected c s).mem.limit
    omega
  · refine ⟨?_, h2⟩
    show (allocCollected c s).mem.allocated ≤ (allocCollected c s).mem.limit
    omega

/-- on success the limit holds even if it did not hold before -/
theorem alloc_ok_le_limit (c : Nat) (s s' : VmState) (u : Unit)
    (hrun : (allocBytes c).run.run s = (.ok u, s')) : WithinLimit s' := by
  rw [allocBytes_run] at hrun
  unfold allocPure at hrun
  dsimp only at hrun
  split at hrun
  · cases hrun
  · rename_i h; cases hrun; unfold WithinLimit; omega

theorem refund_withinLimit (c : Nat) (s : VmState) (h : WithinLimit s) : WithinLimit (refund c s) := by
  unfold WithinLimit at *
  show s.mem.allocated - c ≤ s.mem.limit
  omega

theorem alloc2Pure_withinLimit (c1 c2 : Nat) (o : Obj) (s : VmState) (h : WithinLimit s) :
    WithinLimit (alloc2Pure c1 c2 o s).2 := by
  unfold alloc2Pure
  have a1 := (alloc_le_limit c1 s h).1
  rw [allocBytes_run] at a1
  rcases h1 : allocPure c1 s with ⟨r1, s1⟩
  rw [h1] at a1
  cases r1 with
  | error e => exact a1
  | ok u =>
    dsimp only
    have a2 := (alloc_le_limit c2 s1 a1).1
    rw [allocBytes_run] at a2
    rcases h2 : allocPure c2 s1 with ⟨r2, s2⟩
    rw [h2] at a2
    cases r2 with
    | error e => exact refund_withinLimit c1 s2 a2
    | ok u => exact a2

theorem initTable_le_limit (s : VmState) (h : WithinLimit s) : WithinLimit (initTable.run.run s).2 := by
  rw [initTable_run]; exact alloc2Pure_withinLimit _ _ _ s h

theorem initString_le_limit (b : List UInt8) (s : VmState) (h : WithinLimit s) :
    WithinLimit ((initString b).run.run s).2 := by
  rw [initString_run]; exact alloc2Pure_withinLimit _ _ _ s h

theorem initSimple_le_limit (o : Obj) (s : VmState) (h : WithinLimit s) :
    WithinLimit ((initSimple o).run.run s).2 := by
  rw [initSimple_run]
  unfold alloc1Pure
  have a1 := (alloc_le_limit Heap.objCharge s h).1
  rw [allocBytes_run] at a1
  rcases h1 : allocPure Heap.objCharge s with ⟨r1, s1⟩
  rw [h1] at a1
  cases r1 with
  | error e => exact a1
  | ok u => exact a1

theorem tableInsert_le_limit (a : Nat) (k v : Val) (s : VmState) (h : WithinLimit s) :
    WithinLimit ((tableInsert a k v).run.run s).2 := by
  rw [tableInsert_run]
  unfold tableInsertPure
  cases hg : s.heap.get a with
  | none => exact h
  | some o =>
    cases o with
    | table cap es =>
      dsimp only
      split
      · exact h
      · split
        · have := (alloc_le_limit (Heap.tableCharge (HMap.growCap cap)) s h).1
          rw [allocBytes_run] at this
          rcases h1 : allocPure (Heap.tableCharge (HMap.growCap cap)) s with ⟨r, s1⟩
          rw [h1] at this
          cases r with
          | error e => exact this
          | ok u => exact refund_withinLimit (Heap.tableCharge cap) s1 this
        · exact h
    | _ => exact h

theorem gc_le_limit (s : VmState) (h : WithinLimit s) : WithinLimit (gc s) := by
  have := gc_allocated_le s
  unfold WithinLimit at *
  show (gc s).mem.allocated ≤ s.mem.limit
  omega

theorem fresh_le_limit (c : Config) : WithinLimit (VmState.fresh c) := Nat.zero_le _

/-! ## 3. out of memory only when the live data does not fit -/

theorem gc_allocCharged_heap (c : Nat) (s : VmState) : (gc (allocCharged c s)).heap = (gc s).heap := rfl

theorem allocCollected_trig (c : Nat) (s : VmState) (ht : allocTrig c s = true) (h : Ledger s) :
    (allocCollected c s).mem.allocated = liveCharge s + c := by
  have h1 : LedgerP (allocCollected c s) (0 + c) := allocCollected_ledgerP c s 0 h
  unfold LedgerP at h1
  have h2 : (allocCollected c s).heap = (gc s).heap := by
    unfold allocCollected; rw [if_pos ht]; rfl
  rw [h2] at h1
  unfold liveCharge; omega

theorem allocCollected_notrig (c : Nat) (s : VmState) (ht : allocTrig c s = false) :
    allocCollected c s = allocCharged c s ∧ s.mem.allocated + c ≤ s.mem.limit ∧
    s.mem.allocated + c ≤ s.mem.nextGc := by
  refine ⟨by unfold allocCollected; simp [ht], ?_, ?_⟩ <;>
  · unfold allocTrig at ht
    simp only [Bool.or_eq_false_iff, decide_eq_false_iff_not] at ht
    omega

/-- **an allocation is refused only if the reachable objects plus the request exceed the
    limit** (a collection has run before the refusal, so garbage does not count) -/
theorem oom_only_if_full (c : Nat) (s s' : VmState) (e : ErrKind) (h : Ledger s)
    (hrun : (allocBytes c).run.run s = (.error e, s')) :
    e = .outOfMemory ∧ liveCharge s + c > s.mem.limit := by
  refine ⟨(allocBytes_err_ledgerP c s s' 0 e hrun h).2, ?_⟩
  rw [allocBytes_run] at hrun
  unfold allocPure at hrun
  dsimp only at hrun
  split at hrun
  · rename_i hgt
    rw [(allocCollected_mem c s).2] at hgt
    cases ht : allocTrig c s with
    | true => rw [allocCollected_trig c s ht h] at hgt; exact hgt
    | false =>
      obtain ⟨h1, h2, _⟩ := allocCollected_notrig c s ht
      rw [h1] at hgt
      have : (allocCharged c s).mem.allocated = s.mem.allocated + c := rfl
      omega
  · cases hrun

/-- **if the reachable objects plus the request fit, the allocation succeeds** — a program whose
    live data stays bounded can allocate indefinitely -/
theorem alloc_succeeds_if_fits (c : Nat) (s : VmState) (h : Ledger s)
    (hfit : liveCharge s + c ≤ s.mem.limit) :
    ∃ s', (allocBytes c).run.run s = (.ok (), s') := by
  rw [allocBytes_run]
  unfold allocPure
  dsimp only
  have hle : (allocCollected c s).mem.allocated ≤ (allocCollected c s).mem.limit := by
    rw [(allocCollected_mem c s).2]
    cases ht : allocTrig c s with
    | true => rw [allocCollected_trig c s ht h]; exact hfit
    | false =>
      obtain ⟨h1, h2, _⟩ := allocCollected_notrig c s ht
      rw [h1]; exact h2
  rw [if_neg (by omega)]
  exact ⟨_, rfl⟩

/-- the outcome of an allocation depends only on the live size — not on the schedule, not on
    the amount of garbage, not on the threshold -/
theorem alloc_outcome_iff (c : Nat) (s : VmState) (h : Ledger s) :
    (∃ s', (allocBytes c).run.run s = (.ok (), s')) ↔ liveCharge s + c ≤ s.mem.limit := by
  constructor
  · rintro ⟨s', hs'⟩
    by_cases hfit : liveCharge s + c ≤ s.mem.limit
    · exact hfit
    · exfalso
      -- not fitting: the allocation cannot have succeeded
      rw [allocBytes_run] at hs'
      unfold allocPure at hs'
      dsimp only at hs'
      split at hs'
      · cases hs'
      · rename_i hng
        cases hs'
        rw [(allocCollected_mem c s).2] at hng
        cases ht : allocTrig c s with
        | true => rw [allocCollected_trig c s ht h] at hng; omega
        | false =>
          obtain ⟨h1, h2, _⟩ := allocCollected_notrig c s ht
          have := liveCharge_le s
          unfold Ledger at h
          unfold charges at this
          omega
  · exact alloc_succeeds_if_fits c s h

/-! ## 4. the collection threshold -/

/-- the threshold never drops below its initial value -/
def ThresholdOk (s : VmState) : Prop := Mem.initialGc s.mem.limit ≤ s.mem.nextGc

theorem fresh_threshold (c : Config) : ThresholdOk (VmState.fresh c) := Nat.le_refl _

theorem clear_threshold (s : VmState) : ThresholdOk (clear s) := Nat.le_refl _

theorem collect_threshold (s : VmState) : ThresholdOk (collect s) := Nat.le_max_right _ _

theorem nextGc_ge_initial (c : Nat) (s : VmState) (h : ThresholdOk s) :
    ThresholdOk ((allocBytes c).run.run s).2 := by
  rw [allocBytes_run]
  unfold allocPure
  have hc : ThresholdOk (allocCollected c s) := by
    unfold allocCollected
    split
    · exact collect_threshold _
    · exact h
  dsimp only
  split
  · exact hc
  · exact hc

/-- **after a collection triggered by an allocation the threshold is twice the surviving size**
    (or the initial threshold if that is larger) -/
theorem threshold_after_gc (c : Nat) (s s' : VmState) (u : Unit) (ht : allocTrig c s = true)
    (hrun : (allocBytes c).run.run s = (.ok u, s')) :
    s'.mem.nextGc = max (2 * s'.mem.allocated) (Mem.initialGc s'.mem.limit) ∧
    s'.gcRuns = s.gcRuns + 1 := by
  rw [allocBytes_run] at hrun
  unfold allocPure at hrun
  dsimp only at hrun
  split at hrun
  · cases hrun
  · cases hrun
    unfold allocCollected
    rw [if_pos ht]
    exact ⟨by show max _ _ = max _ _; rw [Nat.mul_comm]; rfl, rfl⟩

/-- an allocation that is not forced and stays below the threshold and the limit does not collect -/
theorem no_gc_below_threshold (c : Nat) (s : VmState) (hf : s.sched.forced s.allocIndex = false)
    (h1 : s.mem.allocated + c ≤ s.mem.nextGc) (h2 : s.mem.allocated + c ≤ s.mem.limit) :
    (allocBytes c).run.run s = (.ok (), allocCharged c s) := by
  have ht : allocTrig c s = false := by
    unfold allocTrig
    simp only [hf, Bool.false_or, Bool.or_eq_false_iff, decide_eq_false_iff_not]
    omega
  rw [allocBytes_run]
  unfold allocPure
  rw [(allocCollected_notrig c s ht).1]
  dsimp only
  rw [if_neg (by show ¬ (s.mem.allocated + c > s.mem.limit); omega)]

/-- so after a collection that left `n` bytes allocated, no (unforced) collection happens until
    the allocated size has doubled (or the initial threshold / the limit is reached) -/
theorem next_gc_after_doubling (c c' : Nat) (s s' : VmState) (u : Unit) (ht : allocTrig c s = true)
    (hrun : (allocBytes c).run.run s = (.ok u, s'))
    (hf : s'.sched.forced s'.allocIndex = false)
    (hsmall : s'.mem.allocated + c' ≤ 2 * s'.mem.allocated ∨
              s'.mem.allocated + c' ≤ Mem.initialGc s'.mem.limit)
    (hlim : s'.mem.allocated + c' ≤ s'.mem.limit) :
    (allocBytes c').run.run s' = (.ok (), allocCharged c' s') := by
  have hth := (threshold_after_gc c s s' u ht hrun).1
  apply no_gc_below_threshold c' s' hf _ hlim
  rw [hth]
  rcases hsmall with h | h
  · exact Nat.le_trans h (Nat.le_max_left _ _)
  · exact Nat.le_trans h (Nat.le_max_right _ _)

/-! ## the invariants together -/

theorem alloc2Pure_unique (c1 c2 : Nat) (o : Obj) (s : VmState) (hu : UniqueAddrs s.heap)
    (hf : FreshNext s.heap) :
    UniqueAddrs (alloc2Pure c1 c2 o s).2.heap ∧ FreshNext (alloc2Pure c1 c2 o s).2.heap := by
  unfold alloc2Pure
  have a1 := allocBytes_unique c1 s hu hf
  rw [allocBytes_run] at a1
  rcases h1 : allocPure c1 s with ⟨r1, s1⟩
  rw [h1] at a1
  cases r1 with
  | error e => exact a1
  | ok u =>
    dsimp only
    have a2 := allocBytes_unique c2 s1 a1.1 a1.2
    rw [allocBytes_run] at a2
    rcases h2 : allocPure c2 s1 with ⟨r2, s2⟩
    rw [h2] at a2
    cases r2 with
    | error e => exact a2
    | ok u => exact withObject_unique o s2 a2.1 a2.2

theorem initSimple_unique (o : Obj) (s : VmState) (hu : UniqueAddrs s.heap) (hf : FreshNext s.heap) :
    UniqueAddrs ((initSimple o).run.run s).2.heap ∧ FreshNext ((initSimple o).run.run s).2.heap := by
  rw [initSimple_run]
  unfold alloc1Pure
  have a1 := allocBytes_unique Heap.objCharge s hu hf
  rw [allocBytes_run] at a1
  rcases h1 : allocPure Heap.objCharge s with ⟨r1, s1⟩
  rw [h1] at a1
  cases r1 with
  | error e => exact a1
  | ok u => exact withObject_unique o s1 a1.1 a1.2

/-- the accounting invariant of the machine -/
structure Inv (s : VmState) : Prop where
  ledger : Ledger s
  within : WithinLimit s
  unique : UniqueAddrs s.heap
  fresh : FreshNext s.heap
  threshold : ThresholdOk s

theorem fresh_inv (c : Config) : Inv (VmState.fresh c) :=
  ⟨fresh_ledger c, fresh_le_limit c, List.nodup_nil, fun _ h => (by cases h), fresh_threshold c⟩

theorem gc_inv (s : VmState) (h : Inv s) : Inv (gc s) :=
  ⟨gc_ledger s h.ledger, gc_le_limit s h.within, gc_unique s h.unique, gc_fresh s h.fresh, h.threshold⟩

theorem clear_inv (s : VmState) (h : Inv s) : Inv (clear s) :=
  ⟨clear_ledger s h.ledger, by unfold WithinLimit; rw [clear_zero s h.ledger]; exact Nat.zero_le _,
   List.nodup_nil, fun _ hp => (by cases hp), clear_threshold s⟩

theorem alloc2Pure_threshold (c1 c2 : Nat) (o : Obj) (s : VmState) (h : ThresholdOk s) :
    ThresholdOk (alloc2Pure c1 c2 o s).2 := by
  unfold alloc2Pure
  have a1 := nextGc_ge_initial c1 s h
  rw [allocBytes_run] at a1
  rcases h1 : allocPure c1 s with ⟨r1, s1⟩
  rw [h1] at a1
  cases r1 with
  | error e => exact a1
  | ok u =>
    dsimp only
    have a2 := nextGc_ge_initial c2 s1 a1
    rw [allocBytes_run] at a2
    rcases h2 : allocPure c2 s1 with ⟨r2, s2⟩
    rw [h2] at a2
    cases r2 with
    | error e => exact a2
    | ok u => exact a2

/-- **`initTable` (success or failure) preserves all accounting invariants** -/
theorem initTable_inv (s : VmState) (h : Inv s) : Inv (initTable.run.run s).2 := by
  refine ⟨initTable_ledger s h.ledger, initTable_le_limit s h.within, ?_, ?_, ?_⟩
  · rw [initTable_run]; exact (alloc2Pure_unique _ _ _ s h.unique h.fresh).1
  · rw [initTable_run]; exact (alloc2Pure_unique _ _ _ s h.unique h.fresh).2
  · rw [initTable_run]; exact alloc2Pure_threshold _ _ _ s h.threshold

theorem initString_inv (b : List UInt8) (s : VmState) (h : Inv s) : Inv ((initString b).run.run s).2 := by
  refine ⟨initString_ledger b s h.ledger, initString_le_limit b s h.within, ?_, ?_, ?_⟩
  · rw [initString_run]; exact (alloc2Pure_unique _ _ _ s h.unique h.fresh).1
  · rw [initString_run]; exact (alloc2Pure_unique _ _ _ s h.unique h.fresh).2
  · rw [initString_run]; exact alloc2Pure_threshold _ _ _ s h.threshold

theorem initSimple_inv (o : Obj) (s : VmState) (ho : Heap.chargeOf o = Heap.objCharge) (h : Inv s) :
    Inv ((initSimple o).run.run s).2 := by
  refine ⟨initSimple_ledger o s ho h.ledger, initSimple_le_limit o s h.within,
    (initSimple_unique o s h.unique h.fresh).1, (initSimple_unique o s h.unique h.fresh).2, ?_⟩
  rw [initSimple_run]
  unfold alloc1Pure
  have a1 := nextGc_ge_initial Heap.objCharge s h.threshold
  rw [allocBytes_run] at a1
  rcases h1 : allocPure Heap.objCharge s with ⟨r1, s1⟩
  rw [h1] at a1
  cases r1 with
  | error e => exact a1
  | ok u => exact a1

/-- **`tableInsert` on a rooted table preserves all accounting invariants** -/
theorem tableInsert_inv (a : Nat) (k v : Val) (s : VmState) (h : Inv s)
    (hr : Reach s.heap (rootAddrs s) a) : Inv ((tableInsert a k v).run.run s).2 := by
  refine ⟨tableInsert_ledger a k v s h.ledger h.unique hr, tableInsert_le_limit a k v s h.within,
    (tableInsert_unique a k v s h.unique h.fresh).1, (tableInsert_unique a k v s h.unique h.fresh).2, ?_⟩
  rw [tableInsert_run]
  unfold tableInsertPure
  cases hg : s.heap.get a with
  | none => exact h.threshold
  | some o =>
    cases o with
    | table cap es =>
      dsimp only
      split
      · exact h.threshold
      · split
        · have := nextGc_ge_initial (Heap.tableCharge (HMap.growCap cap)) s h.threshold
          rw [allocBytes_run] at this
          rcases h1 : allocPure (Heap.tableCharge (HMap.growCap cap)) s with ⟨r, s1⟩
          rw [h1] at this
          cases r with
          | error e => exact this
          | ok u => exact this
        · exact h.threshold
    | _ => exact h.threshold

/-! ## 5. non-vacuity -/

private def okB {ε α : Type} : Except ε α → Bool | .ok _ => true | .error _ => false
private def isOom {α : Type} : Except ErrKind α → Bool | .error .outOfMemory => true | _ => false

/-- a machine with a 500 byte limit; one table costs 96 + 328 = 424 bytes -/
def m0 : VmState := VmState.fresh { memLimit := 500, stackSize := 4, callStackSize := 4, maxInstr := 10 }
/-- the first table fits (it stays guarded, i.e. live) -/
def m1 : VmState := (initTable.run.run m0).2
/-- a second one is refused: the first is still live -/
def m2 : VmState := (initTable.run.run m1).2
/-- the guard is dropped: the first table is garbage now -/
def m3 : VmState := ((dropGuard 1).run.run m2).2
/-- and the same request succeeds, because the collection reclaims the first table -/
def m4 : VmState := (initTable.run.run m3).2

example : okB (initTable.run.run m0).1 = true ∧ m1.mem.allocated = 424 ∧ m1.guards = [1] ∧
    m1.heap.objs.map (·.1) = [1] := by decide
example : isOom (initTable.run.run m1).1 = true ∧ m2.mem.allocated = 424 ∧ m2.gcRuns = 2 ∧
    m2.heap.objs.map (·.1) = [1] := by decide
example : liveCharge m1 + Heap.objCharge > m1.mem.limit := by decide
example : okB (initTable.run.run m3).1 = true ∧ m4.mem.allocated = 424 ∧
    m4.heap.objs.map (·.1) = [2] ∧ m4.mem.nextGc = 848 := by decide
example : Inv m0 := fresh_inv _
example : Inv m4 := by
  have h1 : Inv m1 := initTable_inv _ (fresh_inv _)
  have h2 : Inv m2 := initTable_inv _ h1
  have h3 : Inv m3 := ⟨h2.ledger, h2.within, h2.unique, h2.fresh, h2.threshold⟩
  exact initTable_inv _ h3

end Cao.C05
