import CaoProofs.Lemmas.CrossLemmas
import CaoProofs.Lemmas.CallSiteLemmas
import CaoProofs.Props.C08
import CaoProofs.Props.C06
/-!
# C08b — the run-time half of "a static call executes the designated function's body"

C08 (`Props/C08.lean`) proves the compile-time half: the operand of every static call is the handle
of the function the reference lookup designates, and the label table maps that handle to the
position where the body of that function starts (`compile_calls_resolve`,
`compile_call_target_labelled`). This file adds what the interpreter model does with it.

VM level (any program, any state; facts about `step`):
* `static_call_enters_body` — `FunctionPointer h a; CallFunction` at `src` transfers control to
  the position the label table gives for `h` (first match), in a new frame
  `{src := src+9, dst := src+10, stackOffset := count - a, closure := none}`; the caller's
  frame keeps everything but its return address; the value stack is back to what it was (the
  function object is popped again).
* `callee_sees_arguments`, `readLocal_reach`, `writeLocal_reach` — in the new frame, local index
  `i < a` is the `i`-th supplied argument; `readLocal off i` / `writeLocal off i` only ever
  address slot `off + i ≥ off`: nothing of the caller below the arguments is addressable through
  local indices.
* `return_restores_caller` — `Return` pops the frame, continues at the caller's return address,
  truncates the value stack to the frame's `stackOffset` (to `min stackOffset height`: it never
  raises the height) and pushes the return value: all slots below are untouched by it.
* `call_return_roundtrip`, `call_return_roundtrip_height` — when the callee returns from the frame
  the call created, the caller finds `min (count - a) height + 1` values (`count - a + 1` when the
  callee did not drop values of its callers): its own slots below the arguments, and the result.
* `exec_static_call` — the same as two iterations of the dispatch loop.

Compiled programs:
* `compiled_static_call_enters_body` — C08 + the above, for any address that holds a static-call
  sequence whose handle operand is the handle of the designated function;
* `compiled_call_card_enters_body` — … and every `Call` card (anywhere in a function body: nested in
  expressions, loops, conditionals, closures) does have such a sequence in the final program, inside
  the code of its function, with exactly the operands its name resolves to
  (`Lemmas/CallSiteLemmas.lean`: `BodyAt.call_sites`, by the mutual induction of `processCard`;
  later back-patches only touch jump placeholders outside the sequence).
-/
namespace Cao.C08b
open Cao Cao.Vm Cao.Compiler Cao.Cross Cao.C05
set_option linter.unusedVariables false
set_option linter.unusedSimpArgs false

/-! ## 1. the two instructions of a static call -/

/-- the handle operand of the `FunctionPointer` at `src` -/
def fpHandle (p : Prog) (src : Nat) : UInt32 := UInt32.ofNat (Vm.rdU32 p.bytecode (src + 1))
/-- the arity operand of the `FunctionPointer` at `src` -/
def fpArity (p : Prog) (src : Nat) : UInt32 := UInt32.ofNat (Vm.rdU32 p.bytecode (src + 1 + 4))

/-- the code of a static call sits at `src`: `FunctionPointer h a` (9 bytes), `CallFunction` -/
structure StaticCallAt (p : Prog) (src : Nat) : Prop where
  fp : p.bytecode.getD src 0 = op.functionPointer
  call : p.bytecode.getD (src + 9) 0 = op.callFunction

/-- the frame a static call at `src` pushes from a state with `count` values on the stack -/
def calleeFrame (p : Prog) (src count : Nat) : Frame :=
  { src := src + 9, dst := src + 10, stackOffset := count - (fpArity p src).toNat, closure := none }

/-- the caller's frame after the call: only the return address is updated -/
def callerFrame (s : VmState) (src : Nat) : Frame :=
  { (s.frames.getLast?.getD ⟨0, 0, 0, none⟩) with dst := src + 10 }

theorem callerFrame_eq {s : VmState} {fr : Frame} (src : Nat) (h : s.frames.getLast? = some fr) :
    callerFrame s src = { fr with dst := src + 10 } := by
  unfold callerFrame; rw [h]; rfl

/-- the first instruction: `FunctionPointer h a` pushes a fresh function object `fn h a` -/
theorem function_pointer_pushes (p : Prog) (re : Reenter) (src : Nat)
    (hop : p.bytecode.getD src 0 = op.functionPointer) (s : VmState) (hfresh : FreshNext s.heap)
    {ctl1 : Ctl} {s1 : VmState} (h1 : (step p re src).go s = (.ok ctl1, s1)) :
    ctl1 = { ip := src + 9 } ∧ s.stack.count + 1 < s.stack.data.length ∧ ∃ a,
      s1.stack = { count := s.stack.count + 1, data := s.stack.data.set s.stack.count (.obj a) } ∧
      s1.heap.get a = some (.fn (fpHandle p src) (fpArity p src)) ∧ s1.frames = s.frames ∧
      s1.frameCap = s.frameCap ∧ s1.openUpvalues = s.openUpvalues ∧ FreshNext s1.heap ∧
      s1.remaining = s.remaining ∧ s1.dispatches = s.dispatches := by
  rw [step_functionPointer p re src hop] at h1
  have hk := (functionPointer_keep (fpHandle p src) (fpArity p src) (src + 1)).rel s
  unfold fpHandle fpArity at hk
  rw [h1] at hk
  obtain ⟨h2, h3, a, h4, h5, h6, h7, h8, h9⟩ := functionPointer_ok hfresh h1
  exact ⟨h2, h3, a, h4, h5, h6, h7, h8, h9, hk.1, hk.2.1⟩

/-- the second instruction, from any state that looks like the one the first instruction left -/
theorem call_function_enters (p : Prog) (re : Reenter) (src : Nat) (hat : StaticCallAt p src)
    {hd : UInt32} {pos a : Nat}
    (hl : p.labels.find? (fun l => l.1 == fpHandle p src) = some (hd, pos))
    (s t : VmState) (hfr : s.frames ≠ [])
    (hargs : (fpArity p src).toNat ≤ s.stack.count) (hroom : s.frames.length < s.frameCap)
    (hst : t.stack = { count := s.stack.count + 1, data := s.stack.data.set s.stack.count (.obj a) })
    (hcap : s.stack.count + 1 < s.stack.data.length)
    (hget : t.heap.get a = some (.fn (fpHandle p src) (fpArity p src)))
    (hfrm : t.frames = s.frames) (hfc : t.frameCap = s.frameCap) :
    (step p re (src + 9)).go t = (.ok { ip := pos },
      { t with stack := { count := s.stack.count, data := s.stack.data.set s.stack.count .nil },
               frames := s.frames.dropLast ++ [callerFrame s src] ++ [calleeFrame p src s.stack.count] }) := by
  have hcount : t.stack.count = s.stack.count + 1 := by rw [hst]
  have hpos : t.stack.count ≠ 0 := by omega
  have htop : t.stack.data.getD (t.stack.count - 1) .nil = .obj a := by
    rw [hst]
    simp only [Nat.add_sub_cancel]
    rw [List.getD_eq_getElem?_getD, List.getElem?_set_self (by omega)]
    rfl
  rw [callFunction_enters p re (src + 9) hat.call t hpos htop hget hl (by rw [hfrm]; exact hfr)
    (by rw [hcount]; simpa using hargs) (by rw [hfrm, hfc]; exact hroom)]
  congr 2
  · rw [hst]
    simp only [Nat.add_sub_cancel, List.set_set]
  · rw [hfrm, hcount]
    rfl

/-- **`static_call_enters_body`**: if the first instruction (`FunctionPointer`) succeeds — it
    allocates — the second (`CallFunction`) succeeds as well and continues at the label of the
    handle operand (first match in the label table), in a new frame for exactly the `a` topmost
    values. Hypotheses: a call stack with a frame (every run has one) and room for one more, at
    least `a` values on the stack, a heap whose next address is fresh (an invariant of every run,
    `C05`). The two instructions may be given different re-entry callbacks (the dispatch loop
    does). -/
theorem static_call_enters_body (p : Prog) (re re' : Reenter) (src : Nat) (hat : StaticCallAt p src)
    {hd : UInt32} {pos : Nat}
    (hl : p.labels.find? (fun l => l.1 == fpHandle p src) = some (hd, pos))
    (s : VmState) (hfresh : FreshNext s.heap) (hfr : s.frames ≠ [])
    (hargs : (fpArity p src).toNat ≤ s.stack.count) (hroom : s.frames.length < s.frameCap)
    {ctl1 : Ctl} {s1 : VmState} (h1 : (step p re src).go s = (.ok ctl1, s1)) :
    ctl1 = { ip := src + 9 } ∧
    ∃ s2, (step p re' (src + 9)).go s1 = (.ok { ip := pos }, s2) ∧
      s2.frames = s.frames.dropLast ++ [callerFrame s src] ++ [calleeFrame p src s.stack.count] ∧
      s2.stack = { count := s.stack.count, data := s.stack.data.set s.stack.count .nil } ∧
      s2.frameCap = s.frameCap ∧ s2.openUpvalues = s.openUpvalues ∧ FreshNext s2.heap := by
  obtain ⟨hc1, hcap, a, hst, hget, hfrm, hfc, hou, hfresh1, _, _⟩ :=
    function_pointer_pushes p re src hat.fp s hfresh h1
  refine ⟨hc1, _, call_function_enters p re' src hat hl s s1 hfr hargs hroom hst hcap hget hfrm hfc,
    rfl, rfl, hfc, hou, hfresh1⟩

/-- the first instruction succeeds whenever the allocator grants the header of one object and the
    value stack has a free slot -/
theorem static_call_first_ok (p : Prog) (re : Reenter) (src : Nat) (hat : StaticCallAt p src) (s s0 : VmState)
    (halloc : (allocBytes Heap.objCharge).go s = (.ok (), s0))
    (hcap : s.stack.count + 1 < s.stack.data.length) :
    ∃ ctl1 s1, (step p re src).go s = (.ok ctl1, s1) := by
  rw [step_functionPointer p re src hat.fp, go_functionPointer]
  unfold Gc.alloc1Pure
  rw [Upv.go_allocBytes] at halloc
  have hrel := Upv.allocPure_rel Heap.objCharge s
  rw [halloc] at hrel ⊢
  dsimp only
  have hst : (Gc.withObject (.fn (UInt32.ofNat (Vm.rdU32 p.bytecode (src + 1)))
      (UInt32.ofNat (Vm.rdU32 p.bytecode (src + 1 + 4)))) s0).stack = s.stack := hrel.stack_eq
  rw [hst, if_pos hcap]
  exact ⟨_, _, rfl⟩

/-! ## 2. what the callee can address -/

theorem go_readLocal (off idx : Nat) (s : VmState) :
    (readLocal off idx).go s = (.ok (s.stack.get (off + idx)), s) := rfl

/-- **`readLocal off i` reads slot `off + i`** (or `nil` above the top): no slot below the frame's
    offset is addressable -/
theorem readLocal_reach (off idx : Nat) (s : VmState) :
    (readLocal off idx).go s =
      (.ok (if off + idx ≥ s.stack.count then .nil else s.stack.data.getD (off + idx) .nil), s) ∧
    off ≤ off + idx :=
  ⟨rfl, Nat.le_add_right _ _⟩

/-- **`writeLocal off i v` writes slot `off + i` and nothing else** (it may raise the height by one
    when `off + i` is the top): every slot below the frame's offset keeps its value -/
theorem writeLocal_reach (off idx : Nat) (v : Val) (s s' : VmState)
    (h : (writeLocal off idx v).go s = (.ok (), s')) :
    s'.stack.data = s.stack.data.set (off + idx) v ∧ s.stack.count ≤ s'.stack.count ∧
    (∀ j, j < off → s'.stack.data.getD j .nil = s.stack.data.getD j .nil) ∧
    s'.frames = s.frames := by
  unfold writeLocal at h
  simp only [go_bind, go_get, VStack.set, VStack.push] at h
  by_cases h1 : off + idx > s.stack.count
  · simp only [h1, if_true] at h
    cases h
  simp only [h1, if_false] at h
  by_cases h2 : off + idx = s.stack.count
  · simp only [h2, if_true] at h
    by_cases h3 : s.stack.count + 1 < s.stack.data.length
    · simp only [h3, if_true] at h
      simp only [go_set, Prod.mk.injEq, true_and] at h
      subst h
      refine ⟨by rw [h2], Nat.le_succ _, fun j hj => ?_, rfl⟩
      show (s.stack.data.set s.stack.count v).getD j .nil = _
      rw [List.getD_eq_getElem?_getD, List.getD_eq_getElem?_getD, List.getElem?_set_ne (by omega)]
    · simp only [h3, if_false] at h
      cases h
  · simp only [h2, if_false] at h
    simp only [go_set, Prod.mk.injEq, true_and] at h
    subst h
    refine ⟨rfl, Nat.le_refl _, fun j hj => ?_, rfl⟩
    show (s.stack.data.set (off + idx) v).getD j .nil = _
    rw [List.getD_eq_getElem?_getD, List.getD_eq_getElem?_getD, List.getElem?_set_ne (by omega)]

/-- **the callee sees exactly the supplied arguments**: in the frame a static call pushes from a
    stack of height `count`, local `i < a` is the value at `count - a + i` of the caller's stack,
    and every local index `≥ a` reads `nil` (until the callee pushes) -/
theorem callee_sees_arguments (p : Prog) (src : Nat) (s s2 : VmState)
    (hst : s2.stack = { count := s.stack.count, data := s.stack.data.set s.stack.count .nil })
    (hargs : (fpArity p src).toNat ≤ s.stack.count) (i : Nat) :
    (readLocal (calleeFrame p src s.stack.count).stackOffset i).go s2 =
      (.ok (if i < (fpArity p src).toNat
              then s.stack.data.getD (s.stack.count - (fpArity p src).toNat + i) .nil else .nil), s2) := by
  rw [go_readLocal]
  have : s2.stack.get ((calleeFrame p src s.stack.count).stackOffset + i) =
      (if i < (fpArity p src).toNat
        then s.stack.data.getD (s.stack.count - (fpArity p src).toNat + i) .nil else .nil) := by
    show VStack.get s2.stack (s.stack.count - (fpArity p src).toNat + i) = _
    rw [hst]
    unfold VStack.get
    dsimp only
    by_cases hi : i < (fpArity p src).toNat
    · rw [if_pos hi, if_neg (by omega)]
      rw [List.getD_eq_getElem?_getD, List.getD_eq_getElem?_getD, List.getElem?_set_ne (by omega)]
      rfl
    · rw [if_neg hi, if_pos (by omega)]
      rfl
  rw [this]

/-! ## 3. `Return` -/

/-- **`return_restores_caller`**: `Return` in a frame `callee` above a frame `caller` continues at
    the caller's return address with the callee's frame popped; the value stack is cut at the
    callee's `stackOffset` — at `c = min stackOffset height`: the repaired `clear_until` only
    truncates, a frame that starts above the height (a call with too few values left) leaves the
    height alone — and the return value (the top of the stack) is pushed there. No slot
    below `c` is written. (Open upvalues at or above `stackOffset` are closed: heap and
    `openUpvalues` change as `closeState` says.) -/
theorem return_restores_caller (p : Prog) (re : Reenter) (src : Nat)
    (hop : p.bytecode.getD src 0 = op.ret) (s : VmState) {fs : List Frame} {caller callee : Frame}
    (hfs : s.frames = fs ++ [caller, callee])
    (hroom : min callee.stackOffset s.stack.count + 1 < s.stack.data.length) :
    ∃ s', (step p re src).go s = (.ok { ip := caller.dst }, s') ∧
      s'.frames = fs ++ [caller] ∧
      s'.stack = { count := min callee.stackOffset s.stack.count + 1,
                   data := s.stack.data.set (min callee.stackOffset s.stack.count) s.stack.last } ∧
      s'.stack.last = s.stack.last ∧
      (∀ j, j < min callee.stackOffset s.stack.count →
        s'.stack.data.getD j .nil = s.stack.data.getD j .nil) ∧
      s'.globals = s.globals ∧ s'.frameCap = s.frameCap := by
  generalize hc : min callee.stackOffset s.stack.count = c at hroom ⊢
  rw [Upv.step_ret p re src hop, go_ret]
  have hl : s.frames.getLast? = some callee := by rw [hfs]; simp
  have hd : s.frames.dropLast = fs ++ [caller] := by
    rw [hfs, show fs ++ [caller, callee] = (fs ++ [caller]) ++ [callee] by simp, List.dropLast_concat]
  have hl2 : s.frames.dropLast.getLast? = some caller := by rw [hd]; simp
  rw [hl]
  dsimp only
  rw [hl2]
  dsimp only
  rw [hc, if_pos hroom]
  refine ⟨_, rfl, hd, rfl, ?_, fun j hj => ?_, rfl, rfl⟩
  · show VStack.last { count := c + 1, data := _ } = _
    unfold VStack.last
    dsimp only
    rw [if_pos (Nat.succ_pos _), Nat.add_sub_cancel, List.getD_eq_getElem?_getD,
      List.getElem?_set_self (by omega)]
    rfl
  · show (s.stack.data.set c s.stack.last).getD j .nil = _
    rw [List.getD_eq_getElem?_getD, List.getD_eq_getElem?_getD, List.getElem?_set_ne (by omega)]

/-- `Return` without a caller frame is `BadReturn` -/
theorem return_without_caller (p : Prog) (re : Reenter) (src : Nat)
    (hop : p.bytecode.getD src 0 = op.ret) (s : VmState) (h : s.frames.length ≤ 1) :
    ∃ s', (step p re src).go s = (.error .badReturn, s') := by
  rw [Upv.step_ret p re src hop, go_ret]
  cases hf : s.frames with
  | nil => exact ⟨_, rfl⟩
  | cons a t =>
    cases t with
    | nil => exact ⟨_, rfl⟩
    | cons b t' => rw [hf] at h; simp at h

/-- **round trip**: `t` is any later state in which the call stack is again the one the static call
    at `src` left (the callee is about to return). `Return` then gives the caller back its frame
    (with the return address `src + 10`, the instruction behind the call), and a value stack of
    height `min (count - a) height(t) + 1` — `count - a + 1` when the callee has not dropped values
    of its callers (`call_return_roundtrip_height`): the `a` arguments have been replaced by the
    result; the caller's slots below hold whatever `t` holds there (`Return` does not touch them). -/
theorem call_return_roundtrip (p : Prog) (re : Reenter) (src r : Nat) (hop : p.bytecode.getD r 0 = op.ret)
    (s t : VmState) {fr : Frame} (hlast : s.frames.getLast? = some fr)
    (ht : t.frames = s.frames.dropLast ++ [callerFrame s src] ++ [calleeFrame p src s.stack.count])
    (hroom : min (s.stack.count - (fpArity p src).toNat) t.stack.count + 1 < t.stack.data.length) :
    ∃ t', (step p re r).go t = (.ok { ip := src + 10 }, t') ∧
      t'.frames = s.frames.dropLast ++ [{ fr with dst := src + 10 }] ∧
      t'.stack.count = min (s.stack.count - (fpArity p src).toNat) t.stack.count + 1 ∧
      t'.stack.last = t.stack.last ∧
      ∀ j, j < min (s.stack.count - (fpArity p src).toNat) t.stack.count →
        t'.stack.data.getD j .nil = t.stack.data.getD j .nil := by
  have ht' : t.frames = s.frames.dropLast ++ [callerFrame s src, calleeFrame p src s.stack.count] := by
    rw [ht]; simp
  obtain ⟨t', h1, h2, h3, h4, h5, _⟩ := return_restores_caller p re r hop t ht' hroom
  refine ⟨t', h1, ?_, ?_, h4, h5⟩
  · rw [h2, callerFrame_eq src hlast]
  · rw [h3]; rfl

/-- the round trip as it was stated before the repair of `clear_until` (which could *raise* the
    height to the frame's offset): when the callee is at or above its own frame's offset at the
    `Return`, the height afterwards is `count - a + 1` -/
theorem call_return_roundtrip_height (p : Prog) (re : Reenter) (src r : Nat) (hop : p.bytecode.getD r 0 = op.ret)
    (s t : VmState) {fr : Frame} (hlast : s.frames.getLast? = some fr)
    (ht : t.frames = s.frames.dropLast ++ [callerFrame s src] ++ [calleeFrame p src s.stack.count])
    (hle : s.stack.count - (fpArity p src).toNat ≤ t.stack.count)
    (hroom : s.stack.count - (fpArity p src).toNat + 1 < t.stack.data.length) :
    ∃ t', (step p re r).go t = (.ok { ip := src + 10 }, t') ∧
      t'.frames = s.frames.dropLast ++ [{ fr with dst := src + 10 }] ∧
      t'.stack.count = s.stack.count - (fpArity p src).toNat + 1 ∧
      t'.stack.last = t.stack.last ∧
      ∀ j, j < s.stack.count - (fpArity p src).toNat →
        t'.stack.data.getD j .nil = t.stack.data.getD j .nil := by
  have hm : min (s.stack.count - (fpArity p src).toNat) t.stack.count
      = s.stack.count - (fpArity p src).toNat := Nat.min_eq_left hle
  have := call_return_roundtrip p re src r hop s t hlast ht (by rw [hm]; exact hroom)
  rw [hm] at this
  exact this

/-! ## 4. the dispatch loop -/

/-- **two iterations of the dispatch loop** at a static call continue the loop in the callee:
    with a budget of at least 3, code for both instructions, and the first instruction succeeding
    (see `static_call_first_ok`), the loop is at the label of the handle operand, two units of
    fuel and of budget later, in the new frame -/
theorem exec_static_call (p : Prog) (gas src : Nat) (hat : StaticCallAt p src)
    {hd : UInt32} {pos : Nat}
    (hl : p.labels.find? (fun l => l.1 == fpHandle p src) = some (hd, pos))
    (s : VmState) (hfresh : FreshNext s.heap) (hfr : s.frames ≠ [])
    (hargs : (fpArity p src).toNat ≤ s.stack.count) (hroom : s.frames.length < s.frameCap)
    (hsz : src + 9 < p.bytecode.size) (hbudget : 3 ≤ s.remaining)
    {ctl1 : Ctl} {s1 : VmState} (h1 : (step p (reenterOf p (gas + 1)) src).go s.tick = (.ok ctl1, s1)) :
    ∃ s2, exec p (gas + 2) (.loop src) s = exec p gas (.loop pos) s2 ∧
      s2.frames = s.frames.dropLast ++ [callerFrame s src] ++ [calleeFrame p src s.stack.count] ∧
      s2.stack = { count := s.stack.count, data := s.stack.data.set s.stack.count .nil } ∧
      s2.remaining = s.remaining - 2 ∧ s2.dispatches = s.dispatches + 2 := by
  have hfr' : s.tick.frames ≠ [] := hfr
  obtain ⟨hc1, hcap, a, hst, hget, hfrm, hfc, hou, hfresh1, hrem, hdis⟩ :=
    function_pointer_pushes p (reenterOf p (gas + 1)) src hat.fp s.tick hfresh h1
  have h2 := call_function_enters p (reenterOf p gas) src hat hl s.tick s1.tick hfr' hargs hroom hst hcap hget hfrm hfc
  refine ⟨{ s1.tick with
      stack := { count := s.stack.count, data := s.stack.data.set s.stack.count .nil }
      frames := s.frames.dropLast ++ [callerFrame s src] ++ [calleeFrame p src s.stack.count] },
    ?_, rfl, rfl, ?_, ?_⟩
  · subst hc1
    rw [exec_loop, if_neg (by omega), if_neg (by omega), h1]
    dsimp only
    rw [if_neg (by simp)]
    rw [exec_loop, if_neg (by omega), if_neg (by rw [hrem]; show s.remaining - 1 - 1 ≠ 0; omega), h2]
    dsimp only
    rw [if_neg (by simp)]
    rfl
  · show s1.remaining - 1 = _
    rw [hrem]
    show s.remaining - 1 - 1 = _
    omega
  · show s1.dispatches + 1 = _
    rw [hdis]
    rfl

/-! ## 5. compiled programs: C08 + the interpreter -/

/-- **(C08, both halves)** for a successful `compile`: every static call / function reference `n`
    in the body of a function `unit[i]` resolves to the handle and arity of the function `unit[j]`
    that the reference lookup `Sem.resolve` designates (`C08.compile_calls_resolve`; these are the
    two operands the compiler emits behind `FunctionPointer`: `C08.encodeJump_emits_target`), and
    for `j > 0` there is the position `pos` where the body of `unit[j]` was compiled (`BodyAt`: its
    cards were compiled from there, with its namespace and imports, and the bytes are still there
    in the final program) such that — if no other label was inserted under the same 32-bit handle —
    **executing a static-call sequence whose handle operand is that handle transfers control to
    `pos`**, in a new frame holding exactly the supplied arguments (`static_call_enters_body`).
    For `j = 0` (`main`) the compiler inserts no label (known finding K3): the call raises
    `ProcedureNotFound` unless another label collides with `main`'s handle. -/
theorem compiled_static_call_enters_body {m std : Module} {limit : Nat} {p : Program}
    (h : compile m std limit = .ok p) :
    ∃ unit sF, intoIrStream m std limit = .ok unit ∧ (compileUnit unit).run {} = .ok ((), sF) ∧
      p.bytecode = sF.bytecode ∧
      ∀ i (hi : i < unit.size), ∀ n ∈ callsList unit[i].cards,
        ∃ j, ∃ hj : j < unit.size,
          resolveSpec (jumpTableOf unit.toList) unit[i].ns unit[i].imports n =
            .ok (unit[j].handle, UInt32.ofNat unit[j].arguments.length) ∧
          Sem.resolve (unit.map toFnDef) i n = some j ∧
          (0 < j → ∃ pos, BodyAt (jumpTableOf unit.toList) unit[j] pos sF ∧
            ((∀ q ∈ sF.labels, q.1 = unit[j].handle → q.2 = pos) →
              ∀ (re re' : Reenter) (src : Nat), StaticCallAt (Prog.ofProgram p) src →
                fpHandle (Prog.ofProgram p) src = unit[j].handle →
                ∀ (s : VmState), FreshNext s.heap → s.frames ≠ [] →
                  (fpArity (Prog.ofProgram p) src).toNat ≤ s.stack.count → s.frames.length < s.frameCap →
                  ∀ ctl1 s1, (step (Prog.ofProgram p) re src).go s = (.ok ctl1, s1) →
                    ctl1 = { ip := src + 9 } ∧
                    ∃ s2, (step (Prog.ofProgram p) re' (src + 9)).go s1 = (.ok { ip := pos }, s2) ∧
                      s2.frames = s.frames.dropLast ++ [callerFrame s src] ++
                        [calleeFrame (Prog.ofProgram p) src s.stack.count] ∧
                      s2.stack = { count := s.stack.count, data := s.stack.data.set s.stack.count .nil })) := by
  obtain ⟨unit, hi, _, hres⟩ := C08.compile_calls_resolve h
  obtain ⟨unit', sF, hi', hc, hb, hfind, _, hrest⟩ := C08.compile_function_labels h
  have : unit' = unit := by rw [hi] at hi'; cases hi'; rfl
  subst this
  refine ⟨unit', sF, hi, hc, hb, fun i hlt n hn => ?_⟩
  obtain ⟨j, hj, hr, hsem, _⟩ := hres i hlt n hn
  refine ⟨j, hj, hr, hsem, fun h0 => ?_⟩
  obtain ⟨_, pos, _, hbody, hlabel⟩ := hrest j hj h0
  refine ⟨pos, hbody, fun huniq re re' src hat hh s hfresh hfr hargs hroom ctl1 s1 h1 => ?_⟩
  have hl : (Prog.ofProgram p).labels.find? (fun l => l.1 == fpHandle (Prog.ofProgram p) src) =
      some (unit'[j].handle, pos) := by
    rw [hh]; exact hlabel huniq
  obtain ⟨e1, s2, e2, e3, e4, _⟩ :=
    static_call_enters_body (Prog.ofProgram p) re re' src hat hl s hfresh hfr hargs hroom h1
  exact ⟨e1, s2, e2, e3, e4⟩

/-! ## 5b. every `Call` card has its call sequence in the program -/

theorem getD_of_getElem? {bc : Array UInt8} {i : Nat} {x : UInt8} (h : bc[i]? = some x) : bc.getD i 0 = x := by
  have hlt : i < bc.size := by
    rcases Nat.lt_or_ge i bc.size with h1 | h1
    · exact h1
    · rw [Array.getElem?_eq_none h1] at h; cases h
  rw [Array.getElem?_eq_getElem hlt] at h
  simp only [Option.some.injEq] at h
  simp [Array.getD, hlt, h]

/-- the ten bytes, read the way the interpreter reads them -/
theorem siteAt_static_call {p : Program} {src : Nat} {hd a : UInt32} (h : SiteAt p.bytecode src hd a) :
    StaticCallAt (Prog.ofProgram p) src ∧ fpHandle (Prog.ofProgram p) src = hd ∧
    fpArity (Prog.ofProgram p) src = a := by
  obtain ⟨_, hb⟩ := h
  have h0 := hb 0 (by omega)
  have h9 := hb 9 (by omega)
  have hl1 := le32_len hd
  have hl2 := le32_len a
  have hhd : ∀ j, j < 4 → p.bytecode[src + 1 + j]? = (le32 hd)[j]? := by
    intro j hj
    have := hb (1 + j) (by omega)
    rw [show src + (1 + j) = src + 1 + j by omega] at this
    rw [this]
    simp only [siteBytes, Nat.add_comm 1 j, List.getElem?_cons_succ, List.append_assoc]
    rw [List.getElem?_append_left (by omega)]
  have har : ∀ j, j < 4 → p.bytecode[src + 1 + 4 + j]? = (le32 a)[j]? := by
    intro j hj
    have := hb (5 + j) (by omega)
    rw [show src + (5 + j) = src + 1 + 4 + j by omega] at this
    rw [this]
    simp only [siteBytes, show 5 + j = (4 + j) + 1 by omega, List.getElem?_cons_succ, List.append_assoc]
    rw [List.getElem?_append_right (by omega), hl1, Nat.add_sub_cancel_left,
      List.getElem?_append_left (by omega)]
  refine ⟨⟨?_, ?_⟩, ?_, ?_⟩
  · show p.bytecode.getD src 0 = op.functionPointer
    exact getD_of_getElem? (by simpa [siteBytes] using h0)
  · show p.bytecode.getD (src + 9) 0 = op.callFunction
    refine getD_of_getElem? (x := op.callFunction) ?_
    rw [h9]
    simp only [siteBytes, show (9 : Nat) = 8 + 1 by rfl, List.getElem?_cons_succ, List.append_assoc]
    rw [List.getElem?_append_right (by omega), hl1, List.getElem?_append_right (by omega), hl2]
    rfl
  · show UInt32.ofNat (Vm.rdU32 p.bytecode (src + 1)) = hd
    rw [C06.rdU32_le32 _ _ _ hhd, UInt32.ofNat_toNat]
  · show UInt32.ofNat (Vm.rdU32 p.bytecode (src + 1 + 4)) = a
    rw [C06.rdU32_le32 _ _ _ har, UInt32.ofNat_toNat]

/-- **(C08, complete for `Call` cards)** for a successful `compile`: for every `Call` card (name
    `n`) anywhere in the body of a function `unit[i]` — nested in expressions, loops,
    conditionals, closures — there are the function `unit[j]` the reference lookup designates and
    an address `src` inside the code of `unit[i]` such that the final program has the static-call
    sequence at `src`, its handle operand is `unit[j].handle` and its arity operand is the number of
    parameters of `unit[j]`; and for `j > 0`, if no other label was inserted under the same 32-bit
    handle, executing the two instructions at `src` (from any state with a frame, room for
    another, enough arguments, a fresh heap address, and an allocation that succeeds) transfers
    control to the first instruction of the body of `unit[j]`, in a new frame whose slots are
    exactly the arguments. -/
theorem compiled_call_card_enters_body {m std : Module} {limit : Nat} {p : Program}
    (h : compile m std limit = .ok p) :
    ∃ unit sF, intoIrStream m std limit = .ok unit ∧ (compileUnit unit).run {} = .ok ((), sF) ∧
      p.bytecode = sF.bytecode ∧
      ∀ i (hi : i < unit.size), ∀ n ∈ callNamesList unit[i].cards,
        ∃ j, ∃ hj : j < unit.size, Sem.resolve (unit.map toFnDef) i n = some j ∧
          ∃ src bodyI, BodyAt (jumpTableOf unit.toList) unit[i] bodyI sF ∧ bodyI ≤ src ∧
            StaticCallAt (Prog.ofProgram p) src ∧
            fpHandle (Prog.ofProgram p) src = unit[j].handle ∧
            fpArity (Prog.ofProgram p) src = UInt32.ofNat unit[j].arguments.length ∧
            (0 < j → ∃ pos, BodyAt (jumpTableOf unit.toList) unit[j] pos sF ∧
              ((∀ q ∈ sF.labels, q.1 = unit[j].handle → q.2 = pos) →
                ∀ (re re' : Reenter) (s : VmState), FreshNext s.heap → s.frames ≠ [] →
                  (fpArity (Prog.ofProgram p) src).toNat ≤ s.stack.count → s.frames.length < s.frameCap →
                  ∀ ctl1 s1, (step (Prog.ofProgram p) re src).go s = (.ok ctl1, s1) →
                    ctl1 = { ip := src + 9 } ∧
                    ∃ s2, (step (Prog.ofProgram p) re' (src + 9)).go s1 = (.ok { ip := pos }, s2) ∧
                      s2.frames = s.frames.dropLast ++ [callerFrame s src] ++
                        [calleeFrame (Prog.ofProgram p) src s.stack.count] ∧
                      s2.stack = { count := s.stack.count, data := s.stack.data.set s.stack.count .nil })) := by
  obtain ⟨unit, hi, _, hres⟩ := C08.compile_calls_resolve h
  obtain ⟨unit', sF, hi', hc, hb, hfind, hmain, hrest⟩ := C08.compile_function_labels h
  have : unit' = unit := by rw [hi] at hi'; cases hi'; rfl
  subst this
  refine ⟨unit', sF, hi, hc, hb, fun i hlt n hn => ?_⟩
  obtain ⟨j, hj, hr, hsem, _⟩ := hres i hlt n (callNamesList_sub _ n hn)
  -- the body of `unit[i]` and the call sequence in it
  have hbody : ∃ bodyI, BodyAt (jumpTableOf unit'.toList) unit'[i] bodyI sF := by
    rcases Nat.eq_zero_or_pos i with rfl | h0
    · refine ⟨0, ?_⟩
      have : unit'[0]! = unit'[0] := getElem!_pos unit' 0 hlt
      rw [this] at hmain; exact hmain
    · obtain ⟨_, pos, _, hbd, _⟩ := hrest i hlt h0
      exact ⟨pos, hbd⟩
  obtain ⟨bodyI, hbI⟩ := hbody
  obtain ⟨hd, a, src, hr', hle, hsite⟩ := hbI.call_sites n hn
  rw [hr] at hr'
  simp only [Except.ok.injEq, Prod.mk.injEq] at hr'
  obtain ⟨rfl, rfl⟩ := hr'
  rw [← hb] at hsite
  obtain ⟨hat, hh, har⟩ := siteAt_static_call hsite
  refine ⟨j, hj, hsem, src, bodyI, hbI, hle, hat, hh, har, fun h0 => ?_⟩
  obtain ⟨_, pos, _, hbody, hlabel⟩ := hrest j hj h0
  refine ⟨pos, hbody, fun huniq re re' s hfresh hfr hargs hroom ctl1 s1 h1 => ?_⟩
  have hl : (Prog.ofProgram p).labels.find? (fun l => l.1 == fpHandle (Prog.ofProgram p) src) =
      some (unit'[j].handle, pos) := by
    rw [hh]; exact hlabel huniq
  obtain ⟨e1, s2, e2, e3, e4, _⟩ :=
    static_call_enters_body (Prog.ofProgram p) re re' src hat hl s hfresh hfr hargs hroom h1
  exact ⟨e1, s2, e2, e3, e4⟩

/-! ## 6. non-vacuity

`main` calls `f(7)`; `f(x)` calls the host function `fail`. The static call sits at address 9
(`FunctionPointer f 1`), `CallFunction` at 18, the body of `f` starts at 20. -/

def exM : Module :=
  Module.mk [] [("main", ⟨[], [.call "f" [.scalarInt 7]]⟩), ("f", ⟨["x"], [.callNative "fail" []]⟩)] []
def exStd : Module := Module.mk [] [] []

/-- the machine `run` starts the loop in, after `ScalarInt 7` -/
def exState : VmState :=
  let s0 := started 1000 (VmState.fresh {})
  { s0 with stack := (s0.stack.push (.int 7)).1 }

def noReenter : Reenter := fun _ => pure .nil

example : callNamesList [Card.call "f" [.scalarInt 7]] = ["f"] := by simp [callNamesList, callNames]

/-- everything that is claimed about the example, as one Boolean -/
def exCheck : Bool :=
  match compile exM exStd with
  | .error _ => false
  | .ok p =>
    let q := Prog.ofProgram p
    q.bytecode.getD 9 0 == op.functionPointer && q.bytecode.getD 18 0 == op.callFunction &&
    (match q.labels.find? (fun l => l.1 == fpHandle q 9) with | some (_, pos) => pos == 20 | none => false) &&
    (fpArity q 9).toNat == 1 && exState.stack.count == 1 && exState.frames.length == 1 &&
    decide (exState.frames.length < exState.frameCap) &&
    match (step q noReenter 9).go exState with
    | (.error _, _) => false
    | (.ok ctl1, s1) =>
      ctl1.ip == 18 &&
      match (step q noReenter 18).go s1 with
      | (.error _, _) => false
      | (.ok ctl2, s2) =>
        ctl2.ip == 20 && s2.stack.count == 1 &&
        s2.frames.map (fun f => (f.src, f.dst, f.stackOffset)) == [(0, 19, 0), (18, 19, 0)] &&
        -- the callee's local 0 is the argument
        (match (readLocal 0 0).go s2 with | (.ok (.int i), _) => i == 7 | _ => false)

theorem exCheck_true : exCheck = true := by decide +kernel

theorem exState_fresh : FreshNext exState.heap := fun q hq => nomatch hq

/-- the hypotheses of `static_call_enters_body` are satisfiable (and its conclusion is what the
    evaluation shows) -/
theorem example_static_call : ∃ p hd ctl1 s1, compile exM exStd = .ok p ∧
    StaticCallAt (Prog.ofProgram p) 9 ∧
    (Prog.ofProgram p).labels.find? (fun l => l.1 == fpHandle (Prog.ofProgram p) 9) = some (hd, 20) ∧
    FreshNext exState.heap ∧ exState.frames ≠ [] ∧
    (fpArity (Prog.ofProgram p) 9).toNat ≤ exState.stack.count ∧ exState.frames.length < exState.frameCap ∧
    (step (Prog.ofProgram p) noReenter 9).go exState = (.ok ctl1, s1) := by
  have h := exCheck_true
  unfold exCheck at h
  split at h
  · cases h
  next p hp =>
  simp only [Bool.and_eq_true, decide_eq_true_eq, beq_iff_eq] at h
  obtain ⟨⟨⟨⟨⟨⟨⟨h9, h18⟩, hl⟩, har⟩, hcount⟩, hlen⟩, hroom⟩, h⟩ := h
  split at h
  · cases h
  next ctl1 s1 h1 =>
  split at hl
  · next hd pos hfind =>
    have : pos = 20 := by simpa using hl
    subst this
    refine ⟨p, hd, ctl1, s1, hp, ⟨h9, h18⟩, hfind, exState_fresh, ?_, by rw [har, hcount]; exact Nat.le_refl _,
      hroom, h1⟩
    intro h0
    rw [h0] at hlen
    cases hlen
  · cases hl

/-- … and the theorem applies -/
example : ∃ (p : Program) (s2 : VmState), compile exM exStd = .ok p ∧
    s2.stack.count = exState.stack.count ∧
    s2.frames.getLast? = some (calleeFrame (Prog.ofProgram p) 9 exState.stack.count) := by
  obtain ⟨p, hd, ctl1, s1, hp, hat, hl, hf, hne, har, hroom, h1⟩ := example_static_call
  obtain ⟨_, s2, _, hfr, hst, _⟩ :=
    static_call_enters_body (Prog.ofProgram p) noReenter noReenter 9 hat hl exState hf hne har hroom h1
  refine ⟨p, s2, hp, by rw [hst], ?_⟩
  rw [hfr, List.getLast?_append, List.getLast?_singleton]
  rfl

end Cao.C08b
