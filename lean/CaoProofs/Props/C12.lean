import CaoModel.HashMap
import CaoProofs.Lemmas.OpenAddrRefine
/-!
# C12 — `CaoHashMap` is a finite map

Property theorems only. `HMap` (in `CaoModel/HashMap.lean`) is the code-shaped model of the
repaired `hash_map.rs`; here it is proved, for **every** key type with decidable equality,
**every** hash function `hashOf : K → UInt64`, every capacity, every operation sequence and every
choice of injected allocation failures, to

* keep its representation invariant `HInv` and never panic (`hm_inv_preserved`; the probe loop
  terminates: `hm_find_terminates`),
* refine an association-list specification (`hm_refines`; `len` = number of keys, iteration
  compared up to permutation, an operation whose allocation fails reports the error and leaves the
  table untouched: `hm_alloc_fail`),
* satisfy the frame property (`hm_frame`), and
* hand every accepted entry back exactly once (`hm_drop_once`).

The reusable theory is in `CaoProofs/Lemmas/OpenAddr.lean` and `OpenAddrRefine.lean`.
-/
namespace Cao.C12
open Cao

variable {K V : Type} [DecidableEq K]

/-! ## arithmetic of the growth policy -/

theorem hm_room {c cap : Nat} (h : HMap.needsGrow (c + 1) cap = false) :
    c + 1 < cap := by
  simp [HMap.needsGrow] at h; omega

theorem hm_growCap_gt (cap : Nat) : cap < HMap.growCap cap := by
  unfold HMap.growCap; omega

omit [DecidableEq K] in
private theorem home_lt (hashOf : K → UInt64) {cap : Nat} (hc : 0 < cap) (k : K) :
    HMap.home hashOf cap k < cap := by
  unfold HMap.home Hash.fibHome64; exact Nat.mod_lt _ hc

/-! ## representation invariant -/

def HInv (hashOf : K → UInt64) (m : HMap K V) : Prop :=
  0 < m.cap ∧ OA.Inv m.cap (HMap.home hashOf m.cap) m.slots ∧
    m.count = OA.size m.cap m.slots ∧ m.count < m.cap

private theorem adjust_spec {hashOf : K → UInt64} {m : HMap K V} {f : K → Option V}
    (hI : HInv hashOf m) (habs : OA.Abs m.cap m.slots f) (newCap : Nat) (hn : m.count < newCap)
    (al : Alloc) {ok : Bool} {al' : Alloc} (hnext : al.next = (ok, al')) :
    (ok = true → ∃ m', m.adjustCapacity hashOf newCap al = (al', .ok m') ∧ m'.cap = newCap ∧
        m'.count = m.count ∧ HInv hashOf m' ∧ OA.Abs m'.cap m'.slots f) ∧
    (ok = false → m.adjustCapacity hashOf newCap al = (al', .allocErr)) := by
  obtain ⟨_, inv, hcnt, _⟩ := hI
  constructor
  · intro hok
    subst hok
    have hc : 0 < newCap := by omega
    obtain ⟨s', h1, h2, h3, h4⟩ := OA.rehash_abs (home' := HMap.home hashOf newCap) inv habs hc
      (home_lt hashOf hc) (by omega)
    refine ⟨{ cap := newCap, slots := OA.compact newCap s', count := m.count }, ?_, rfl, rfl, ?_, ?_⟩
    · simp [HMap.adjustCapacity, hnext, h1]
    · exact ⟨hc, OA.Inv_congr (OA.compact_eq _ _) h2,
        by simp only; rw [OA.size_congr (OA.compact_eq _ _), h4, hcnt], hn⟩
    · exact OA.Abs_congr (OA.compact_eq _ _) h3
  · intro hok
    subst hok
    simp [HMap.adjustCapacity, hnext]

/-- `insert` of a key that is present: overwrite in place, no allocation -/
private theorem insert_present {hashOf : K → UInt64} {m : HMap K V} {f : K → Option V}
    (hI : HInv hashOf m) (habs : OA.Abs m.cap m.slots f) {k : K} {w : V} (hk : f k = some w)
    (v : V) (al : Alloc) :
    ∃ m', m.insert hashOf k v al = (m', al, .ok (some (k, w))) ∧ m'.cap = m.cap ∧
      m'.count = m.count ∧ HInv hashOf m' ∧ OA.Abs m'.cap m'.slots (OA.fupd f k (some v)) := by
  obtain ⟨hc, inv, hcnt, hlt⟩ := hI
  obtain ⟨i, _, hf, _⟩ := OA.find_spec inv k
  obtain ⟨h1, h2, h3, h4⟩ := OA.upd_find_spec inv habs v hf (by rw [hk]; intro h; cases h)
  rw [hk] at h3 h4
  refine ⟨{ m with slots := OA.upd m.slots i (some (k, v)) }, ?_, rfl, rfl, ?_, h2⟩
  · simp only [HMap.insert, hf]
    simp only [Option.map_some] at h4
    simp only [h4]
  · exact ⟨hc, h1, by simp only; rw [h3, hcnt]; simp, hlt⟩

/-- `insert` of a new key: write directly, or grow first (one allocation) -/
private theorem insert_absent {hashOf : K → UInt64} {m : HMap K V} {f : K → Option V}
    (hI : HInv hashOf m) (habs : OA.Abs m.cap m.slots f) {k : K} (hk : f k = none)
    (v : V) (al : Alloc) {ok : Bool} {al' : Alloc} (hnext : al.next = (ok, al')) :
    (HMap.needsGrow (m.count + 1) m.cap = false →
      ∃ m', m.insert hashOf k v al = (m', al, .ok none) ∧ m'.cap = m.cap ∧
        m'.count = m.count + 1 ∧ HInv hashOf m' ∧
        OA.Abs m'.cap m'.slots (OA.fupd f k (some v))) ∧
    (HMap.needsGrow (m.count + 1) m.cap = true → ok = true →
      ∃ m', m.insert hashOf k v al = (m', al', .ok none) ∧ m'.cap = HMap.growCap m.cap ∧
        m'.count = m.count + 1 ∧ HInv hashOf m' ∧
        OA.Abs m'.cap m'.slots (OA.fupd f k (some v))) ∧
    (HMap.needsGrow (m.count + 1) m.cap = true → ok = false →
      m.insert hashOf k v al = (m, al', .allocErr)) := by
  have hI' := hI
  obtain ⟨hc, inv, hcnt, hlt⟩ := hI
  obtain ⟨i, _, hf, _⟩ := OA.find_spec inv k
  have hsi : m.slots i = none := by
    have := (OA.find_slot inv habs hf).2; rw [hk] at this; exact this
  refine ⟨?_, ?_, ?_⟩
  · intro hng
    have hroom := hm_room hng
    obtain ⟨h1, h2, h3, _⟩ := OA.upd_find_spec inv habs v hf (by intro _; omega)
    rw [hk] at h3
    refine ⟨{ m with slots := OA.upd m.slots i (some (k, v)), count := m.count + 1 }, ?_,
      rfl, rfl, ?_, h2⟩
    · simp only [HMap.insert, hf, hsi, hng]; simp
    · exact ⟨hc, h1, by simp only; rw [h3, hcnt]; simp, hroom⟩
  · intro hg hok
    have hgc := hm_growCap_gt m.cap
    obtain ⟨m1, hadj, hcap1, hcnt1, hI1, habs1⟩ :=
      (adjust_spec hI' habs (HMap.growCap m.cap) (by omega) al hnext).1 hok
    obtain ⟨hc1, inv1, hsz1, hlt1⟩ := hI1
    obtain ⟨s2, hput, inv2, habs2, hsz2⟩ := OA.put_spec inv1 habs1 k v
      (by intro _; rw [← hsz1, hcnt1, hcap1]; omega)
    rw [hk] at hput hsz2
    refine ⟨{ m1 with slots := s2, count := m1.count + 1 }, ?_, hcap1, by simp only; rw [hcnt1],
      ?_, habs2⟩
    · simp only [HMap.insert, hf, hsi, hg, HMap.grow, hadj, hput]; simp
    · exact ⟨hc1, inv2, by simp only; rw [hsz2, hsz1]; simp, by simp only; rw [hcnt1, hcap1]; omega⟩
  · intro hg hok
    have hadj := (adjust_spec hI' habs (HMap.growCap m.cap)
      (by have := hm_growCap_gt m.cap; omega) al hnext).2 hok
    simp only [HMap.insert, hf, hsi, hg, HMap.grow, hadj]; simp

private theorem get_eq {hashOf : K → UInt64} {m : HMap K V} {f : K → Option V}
    (hI : HInv hashOf m) (habs : OA.Abs m.cap m.slots f) (k : K) : m.get hashOf k = f k :=
  OA.get_spec hI.2.1 habs k

private theorem remove_spec {hashOf : K → UInt64} {m : HMap K V} {f : K → Option V}
    (hI : HInv hashOf m) (habs : OA.Abs m.cap m.slots f) (k : K) :
    ∃ m', m.remove hashOf k = (m', .ok ((f k).map (fun w => (k, w)))) ∧ m'.cap = m.cap ∧
      m'.count + (if (f k).isSome then 1 else 0) = m.count ∧ HInv hashOf m' ∧
      OA.Abs m'.cap m'.slots (OA.fupd f k none) := by
  obtain ⟨hc, inv, hcnt, hlt⟩ := hI
  obtain ⟨s', he, inv', habs', hsz⟩ := OA.erase_spec inv habs k
  cases hk : f k with
  | none =>
    rw [hk] at he hsz
    refine ⟨m, ?_, rfl, by simp, ⟨hc, inv, hcnt, hlt⟩, ?_⟩
    · simp only [HMap.remove, he]; simp
    · intro k' v'
      by_cases hkk : k' = k
      · subst hkk; simp [OA.fupd_same]; exact (OA.Abs_none habs).mp hk v'
      · rw [OA.fupd_other _ _ _ hkk]; exact habs k' v'
  | some w =>
    rw [hk] at he hsz
    simp only [Option.isSome_some, if_true] at hsz
    refine ⟨{ m with slots := s', count := m.count - 1 }, ?_, rfl, by simp; omega, ?_, habs'⟩
    · simp only [HMap.remove, he]; simp
    · exact ⟨hc, inv', by simp only; omega, by simp only; omega⟩

private theorem reserve_spec {hashOf : K → UInt64} {m : HMap K V} {f : K → Option V}
    (hI : HInv hashOf m) (habs : OA.Abs m.cap m.slots f) (n : Nat)
    (al : Alloc) {ok : Bool} {al' : Alloc} (hnext : al.next = (ok, al')) :
    (ok = true → ∃ m', m.reserve hashOf n al = (al', .ok m') ∧ m'.cap = m.cap + n ∧
        m'.count = m.count ∧ HInv hashOf m' ∧ OA.Abs m'.cap m'.slots f) ∧
    (ok = false → m.reserve hashOf n al = (al', .allocErr)) :=
  adjust_spec hI habs (m.cap + n) (by have := hI.2.2.2; omega) al hnext

omit [DecidableEq K] in
private theorem clear_spec {hashOf : K → UInt64} {m : HMap K V} (hI : HInv hashOf m) :
    (m.clear).2 = m.toList ∧ (m.clear).1.cap = m.cap ∧ (m.clear).1.count = 0 ∧
      HInv hashOf (m.clear).1 ∧ OA.Abs (m.clear).1.cap (m.clear).1.slots (fun _ => none) := by
  obtain ⟨hc, inv, _, _⟩ := hI
  refine ⟨rfl, rfl, rfl, ⟨hc, OA.empty_inv hc (home_lt hashOf hc), ?_, hc⟩, OA.empty_abs _⟩
  simp [HMap.clear]

omit [DecidableEq K] in
private theorem withCapacity_spec (hashOf : K → UInt64) (c : Nat) (al : Alloc) {ok : Bool}
    {al' : Alloc} (hnext : al.next = (ok, al')) :
    (ok = true → ∃ m : HMap K V, HMap.withCapacity c al = (al', .ok m) ∧ m.cap = max c 1 ∧
        m.count = 0 ∧ HInv hashOf m ∧ OA.Abs m.cap m.slots (fun _ => none)) ∧
    (ok = false → (HMap.withCapacity c al : Alloc × Res (HMap K V)) = (al', .allocErr)) := by
  constructor
  · intro hok; subst hok
    have hc : 0 < max c 1 := by omega
    refine ⟨{ cap := max c 1, slots := OA.empty, count := 0 }, ?_, rfl, rfl,
      ⟨hc, OA.empty_inv hc (home_lt hashOf hc), by simp, hc⟩, OA.empty_abs _⟩
    simp [HMap.withCapacity, hnext]
  · intro hok; subst hok
    simp [HMap.withCapacity, hnext]

/-! ## `clone`: the capacity it ends with and the allocations it performs -/

/-- capacity after inserting `n` further new keys into a table of capacity `cap` holding `cnt`
    keys (`none`: an allocation failed) -/
def specCloneLoop : Nat → Nat → Nat → Alloc → Option Nat × Alloc
  | 0, cap, _, al => (some cap, al)
  | n+1, cap, cnt, al =>
    if HMap.needsGrow (cnt + 1) cap then
      if al.next.1 then specCloneLoop n (HMap.growCap cap) (cnt + 1) al.next.2
      else (none, al.next.2)
    else specCloneLoop n cap (cnt + 1) al

/-- capacity of the clone of a table with capacity `cap` and `n` keys -/
def specCloneCap (cap n : Nat) (al : Alloc) : Option Nat :=
  if al.next.1 then (specCloneLoop n (max cap 1) 0 al.next.2).1 else none

private def cloneStep (hashOf : K → UInt64) (acc : Alloc × Res (HMap K V)) (kv : K × V) :
    Alloc × Res (HMap K V) :=
  match acc with
  | (al, .ok c) =>
    match c.insert hashOf kv.1 kv.2 al with
    | (c', al, .ok _) => (al, .ok c')
    | (_, al, .allocErr) => (al, .allocErr)
    | (_, al, .panic w) => (al, .panic w)
  | other => other

private theorem clone_unfold (hashOf : K → UInt64) (m : HMap K V) (al : Alloc) :
    m.clone hashOf al =
      match (HMap.withCapacity m.cap al : Alloc × Res (HMap K V)) with
      | (al, .ok fresh) => m.toList.foldl (cloneStep hashOf) (al, .ok fresh)
      | (al, .allocErr) => (al, .allocErr)
      | (al, .panic w) => (al, .panic w) := rfl

private theorem foldl_cloneStep_err (hashOf : K → UInt64) (xs : List (K × V)) (al : Alloc) :
    xs.foldl (cloneStep hashOf) (al, .allocErr) = (al, .allocErr) := by
  induction xs with
  | nil => rfl
  | cons x xs ih => simp only [List.foldl_cons, cloneStep]; exact ih

private theorem clone_loop (hashOf : K → UInt64) :
    ∀ (xs : List (K × V)) (c : HMap K V) (al : Alloc), HInv hashOf c →
      (xs.map Prod.fst).Nodup → (∀ kv ∈ xs, ∀ w, ¬ OA.Mem c.cap c.slots kv.1 w) →
      (∀ cap' al', specCloneLoop xs.length c.cap c.count al = (some cap', al') →
        ∃ c', xs.foldl (cloneStep hashOf) (al, .ok c) = (al', .ok c') ∧ c'.cap = cap' ∧
          c'.count = c.count + xs.length ∧ HInv hashOf c' ∧
          ∀ k v, OA.Mem c'.cap c'.slots k v ↔ OA.Mem c.cap c.slots k v ∨ (k, v) ∈ xs) ∧
      (∀ al', specCloneLoop xs.length c.cap c.count al = (none, al') →
        xs.foldl (cloneStep hashOf) (al, .ok c) = (al', .allocErr)) := by
  intro xs
  induction xs with
  | nil =>
    intro c al hI _ _
    constructor
    · intro cap' al' h
      simp only [List.length_nil, specCloneLoop, Prod.mk.injEq, Option.some.injEq] at h
      obtain ⟨rfl, rfl⟩ := h
      exact ⟨c, rfl, rfl, rfl, hI, by simp⟩
    · intro al' h
      simp [specCloneLoop] at h
  | cons kv xs ih =>
    intro c al hI hnd hfresh
    obtain ⟨k, v⟩ := kv
    simp only [List.map_cons, List.nodup_cons] at hnd
    have habs := OA.Abs_get hI.2.1
    have hk : OA.get c.cap (HMap.home hashOf c.cap) c.slots k = none :=
      (OA.Abs_none habs).mpr (hfresh (k, v) (by simp))
    rcases hnext : al.next with ⟨ok, al1⟩
    obtain ⟨hA, hB, hC⟩ := insert_absent hI habs hk v al hnext
    -- what the rest of the loop needs, for any successor table
    have hrest : ∀ c1 : HMap K V,
        OA.Abs c1.cap c1.slots (OA.fupd (OA.get c.cap (HMap.home hashOf c.cap) c.slots) k (some v)) →
        (∀ kv ∈ xs, ∀ w, ¬ OA.Mem c1.cap c1.slots kv.1 w) ∧
        (∀ k' v', (OA.Mem c1.cap c1.slots k' v' ∨ (k', v') ∈ xs) ↔
            (OA.Mem c.cap c.slots k' v' ∨ (k', v') ∈ (k, v) :: xs)) := by
      intro c1 habs1
      constructor
      · intro kv' hkv' w hm
        have := (habs1 kv'.1 w).mpr hm
        by_cases hkk : kv'.1 = k
        · exact hnd.1 (List.mem_map.mpr ⟨kv', hkv', hkk⟩)
        · rw [OA.fupd_other _ _ _ hkk] at this
          exact hfresh kv' (List.mem_cons_of_mem _ hkv') w ((habs _ _).mp this)
      · intro k' v'
        rw [← habs1 k' v']
        by_cases hkk : k' = k
        · subst hkk
          simp only [OA.fupd_same, List.mem_cons, Prod.mk.injEq, true_and]
          constructor
          · rintro (h | h)
            · simp at h; subst h; exact Or.inr (Or.inl rfl)
            · exact Or.inr (Or.inr h)
          · rintro (h | h | h)
            · exact absurd h (hfresh (k', v) (by simp) v')
            · subst h; exact Or.inl rfl
            · exact Or.inr h
        · rw [OA.fupd_other _ _ _ hkk, habs k' v']
          simp [hkk]
    cases hg : HMap.needsGrow (c.count + 1) c.cap with
    | false =>
      obtain ⟨c1, hins, hcap1, hcnt1, hI1, habs1⟩ := hA hg
      obtain ⟨hfresh1, hmem1⟩ := hrest c1 habs1
      obtain ⟨ih1, ih2⟩ := ih c1 al hI1 hnd.2 hfresh1
      have hstep : cloneStep hashOf (al, .ok c) (k, v) = (al, .ok c1) := by
        simp only [cloneStep, hins]
      simp only [List.length_cons, specCloneLoop, hg, List.foldl_cons, hstep, Bool.false_eq_true,
        if_false]
      constructor
      · intro cap' al' h
        obtain ⟨c', h1, h2, h3, h4, h5⟩ := ih1 cap' al' (by rw [hcap1, hcnt1]; exact h)
        exact ⟨c', h1, h2, by omega, h4, fun k' v' => by rw [h5, hmem1]⟩
      · intro al' h
        exact ih2 al' (by rw [hcap1, hcnt1]; exact h)
    | true =>
      cases ok with
      | true =>
        obtain ⟨c1, hins, hcap1, hcnt1, hI1, habs1⟩ := hB hg rfl
        obtain ⟨hfresh1, hmem1⟩ := hrest c1 habs1
        obtain ⟨ih1, ih2⟩ := ih c1 al1 hI1 hnd.2 hfresh1
        have hstep : cloneStep hashOf (al, .ok c) (k, v) = (al1, .ok c1) := by
          simp only [cloneStep, hins]
        simp only [List.length_cons, specCloneLoop, hg, List.foldl_cons, hstep, hnext, if_true]
        constructor
        · intro cap' al' h
          obtain ⟨c', h1, h2, h3, h4, h5⟩ := ih1 cap' al' (by rw [hcap1, hcnt1]; exact h)
          exact ⟨c', h1, h2, by omega, h4, fun k' v' => by rw [h5, hmem1]⟩
        · intro al' h
          exact ih2 al' (by rw [hcap1, hcnt1]; exact h)
      | false =>
        have hins := hC hg rfl
        have hstep : cloneStep hashOf (al, .ok c) (k, v) = (al1, .allocErr) := by
          simp only [cloneStep, hins]
        simp only [List.length_cons, specCloneLoop, hg, List.foldl_cons, hstep, hnext, if_true,
          Bool.false_eq_true, if_false, foldl_cloneStep_err]
        constructor
        · intro cap' al' h; simp at h
        · intro al' h
          simp only [Prod.mk.injEq, true_and] at h
          rw [h]

private theorem clone_spec {hashOf : K → UInt64} {m : HMap K V} {f : K → Option V}
    (hI : HInv hashOf m) (habs : OA.Abs m.cap m.slots f) (al : Alloc) :
    (∀ cap', specCloneCap m.cap m.count al = some cap' →
      ∃ m' al', m.clone hashOf al = (al', .ok m') ∧ m'.cap = cap' ∧ m'.count = m.count ∧
        HInv hashOf m' ∧ OA.Abs m'.cap m'.slots f) ∧
    (specCloneCap m.cap m.count al = none → ∃ al', m.clone hashOf al = (al', .allocErr)) := by
  rcases hnext : al.next with ⟨ok, al1⟩
  obtain ⟨hW1, hW2⟩ := withCapacity_spec (V := V) hashOf m.cap al hnext
  rw [clone_unfold]
  unfold specCloneCap
  rw [hnext]
  cases ok with
  | false =>
    rw [hW2 rfl]
    simp
  | true =>
    obtain ⟨c0, hw, hcap0, hcnt0, hI0, habs0⟩ := hW1 rfl
    rw [hw]
    simp only [if_true]
    have hlen : (m.toList).length = m.count := by
      rw [hI.2.2.1]; rfl
    obtain ⟨h1, h2⟩ := clone_loop hashOf m.toList c0 al1 hI0
      (OA.toList_keys_nodup hI.2.1.distinct)
      (by intro kv _ w hm; have := (habs0 kv.1 w).mpr hm; cases this)
    rw [hcap0, hcnt0, hlen] at h1 h2
    constructor
    · intro cap' hcl
      rcases hloop : specCloneLoop m.count (max m.cap 1) 0 al1 with ⟨oc, al2⟩
      rw [hloop] at hcl
      simp only at hcl
      subst hcl
      obtain ⟨c', hf, hcap', hcnt', hI', hmem'⟩ := h1 cap' al2 hloop
      refine ⟨c', al2, hf, hcap', by omega, hI', ?_⟩
      intro k v
      rw [hmem', habs k v]
      constructor
      · intro h; exact Or.inr (OA.mem_toList.mpr h)
      · rintro (h | h)
        · have := (habs0 k v).mpr (by rw [hcap0]; exact h); cases this
        · exact OA.mem_toList.mp h
    · intro hcl
      rcases hloop : specCloneLoop m.count (max m.cap 1) 0 al1 with ⟨oc, al2⟩
      rw [hloop] at hcl
      simp only at hcl
      subst hcl
      exact ⟨al2, h2 al2 hloop⟩

/-! ## Specification: an association list without duplicate keys, plus the capacity

The capacity is part of the specification state because it decides *when* an operation
allocates (and therefore when an injected allocation failure is observable). -/

structure Spec (K V : Type) where
  cap : Nat
  l : List (K × V)

/-- allocation oracle of one operation: its `failAt`-th allocation fails -/
def oracle (failAt : Option Nat) : Alloc := { n := 0, failAt := failAt }

inductive Op (K V : Type) where
  | insert (k : K) (v : V) (failAt : Option Nat)
  | entry (k : K) (v : V) (failAt : Option Nat)
  | remove (k : K)
  | get (k : K)
  | contains (k : K)
  | reserve (n : Nat) (failAt : Option Nat)
  | clear
  /-- clone the map and continue on the clone -/
  | clone (failAt : Option Nat)
  | len
  | iter

inductive Out (K V : Type) where
  | displaced (old : Option (K × V))
  | entry (inserted : Bool) (stored : V)
  | removed (old : Option (K × V))
  | value (o : Option V)
  | bool (b : Bool)
  | unit
  | num (n : Nat)
  | items (l : List (K × V))
  | dropped (l : List (K × V))
  | allocErr
  | panic

/-- make room for one more key: grow (one allocation) when the load factor would be exceeded -/
def specMakeRoom (st : Spec K V) (al : Alloc) : Option (Spec K V) :=
  if HMap.needsGrow (st.l.length + 1) st.cap then
    if al.next.1 then some { st with cap := HMap.growCap st.cap } else none
  else some st

def specStep (st : Spec K V) : Op K V → Spec K V × Out K V
  | .insert k v fa =>
    match AL.lookup st.l k with
    | some w => ({ st with l := AL.insert st.l k v }, .displaced (some (k, w)))
    | none =>
      match specMakeRoom st (oracle fa) with
      | some st' => ({ st' with l := AL.insert st'.l k v }, .displaced none)
      | none => (st, .allocErr)
  | .entry k v fa =>
    match AL.lookup st.l k with
    | some cur => (st, .entry false cur)
    | none =>
      match specMakeRoom st (oracle fa) with
      | some st' => ({ st' with l := AL.insert st'.l k v }, .entry true v)
      | none => (st, .allocErr)
  | .remove k => ({ st with l := AL.erase st.l k }, .removed ((AL.lookup st.l k).map (fun w => (k, w))))
  | .get k => (st, .value (AL.lookup st.l k))
  | .contains k => (st, .bool (AL.lookup st.l k).isSome)
  | .reserve n fa =>
    if (oracle fa).next.1 then ({ st with cap := st.cap + n }, .unit) else (st, .allocErr)
  | .clear => ({ st with l := [] }, .dropped st.l)
  | .clone fa =>
    match specCloneCap st.cap st.l.length (oracle fa) with
    | some cap' => ({ st with cap := cap' }, .unit)
    | none => (st, .allocErr)
  | .len => (st, .num st.l.length)
  | .iter => (st, .items st.l)

/-! ## The model's step function -/

def modelStep (hashOf : K → UInt64) (m : HMap K V) : Op K V → HMap K V × Out K V
  | .insert k v fa =>
    match m.insert hashOf k v (oracle fa) with
    | (m', _, .ok old) => (m', .displaced old)
    | (m', _, .allocErr) => (m', .allocErr)
    | (m', _, .panic _) => (m', .panic)
  | .entry k v fa =>
    match m.entryOrInsert hashOf k v (oracle fa) with
    | (m', _, .ok (b, x)) => (m', .entry b x)
    | (m', _, .allocErr) => (m', .allocErr)
    | (m', _, .panic _) => (m', .panic)
  | .remove k =>
    match m.remove hashOf k with
    | (m', .ok old) => (m', .removed old)
    | (m', .allocErr) => (m', .allocErr)
    | (m', .panic _) => (m', .panic)
  | .get k => (m, .value (m.get hashOf k))
  | .contains k => (m, .bool (m.contains hashOf k))
  | .reserve n fa =>
    match m.reserve hashOf n (oracle fa) with
    | (_, .ok m') => (m', .unit)
    | (_, .allocErr) => (m, .allocErr)
    | (_, .panic _) => (m, .panic)
  | .clear => ((m.clear).1, .dropped (m.clear).2)
  | .clone fa =>
    match m.clone hashOf (oracle fa) with
    | (_, .ok m') => (m', .unit)
    | (_, .allocErr) => (m, .allocErr)
    | (_, .panic _) => (m, .panic)
  | .len => (m, .num m.count)
  | .iter => (m, .items m.toList)

/-- outputs agree; iteration orders agree up to permutation -/
def OutEq (a b : Out K V) : Prop :=
  a = b ∨ (∃ x y, a = .items x ∧ b = .items y ∧ x.Perm y) ∨
    (∃ x y, a = .dropped x ∧ b = .dropped y ∧ x.Perm y)

/-- refinement relation between a model state and a specification state -/
def R (hashOf : K → UInt64) (m : HMap K V) (st : Spec K V) : Prop :=
  HInv hashOf m ∧ st.cap = m.cap ∧ AL.WF st.l ∧ OA.Abs m.cap m.slots (AL.lookup st.l)

private theorem R_len {hashOf : K → UInt64} {m : HMap K V} {st : Spec K V} (h : R hashOf m st) :
    st.l.length = m.count := by
  rw [h.1.2.2.1]; exact AL.length_eq_size h.1.2.1 h.2.2.1 h.2.2.2

private theorem R_perm {hashOf : K → UInt64} {m : HMap K V} {st : Spec K V} (h : R hashOf m st) :
    (m.toList).Perm st.l := (AL.perm_toList h.1.2.1 h.2.2.1 h.2.2.2).symm

/-- every state satisfying the invariant is related to its own iteration list -/
theorem R_canon {hashOf : K → UInt64} {m : HMap K V} (hI : HInv hashOf m) :
    R hashOf m { cap := m.cap, l := m.toList } :=
  ⟨hI, rfl, AL.WF_toList hI.2.1, AL.abs_toList hI.2.1⟩

private theorem absent_step {hashOf : K → UInt64} {m : HMap K V} {st : Spec K V}
    (h : R hashOf m st) {k : K} (hl : AL.lookup st.l k = none) (v : V) (al : Alloc) :
    (∀ st', specMakeRoom st al = some st' →
      ∃ m' al', m.insert hashOf k v al = (m', al', .ok none) ∧
        R hashOf m' { st' with l := AL.insert st'.l k v }) ∧
    (specMakeRoom st al = none → ∃ al', m.insert hashOf k v al = (m, al', .allocErr)) := by
  have hlen := R_len h
  obtain ⟨hI, hcap, wf, habs⟩ := h
  rcases hnext : al.next with ⟨ok, al1⟩
  obtain ⟨hA, hB, hC⟩ := insert_absent hI habs hl v al hnext
  unfold specMakeRoom
  rw [hlen, hcap, hnext]
  cases hg : HMap.needsGrow (m.count + 1) m.cap with
  | false =>
    obtain ⟨m', hins, hcap', _, hI', habs'⟩ := hA hg
    simp only [Bool.false_eq_true, if_false, Option.some.injEq]
    refine ⟨?_, by intro h; cases h⟩
    rintro st' rfl
    rw [AL.lookup_insert_fupd] at habs'
    exact ⟨m', al, hins, hI', by simp only; rw [hcap', hcap], AL.WF_insert wf k v, habs'⟩
  | true =>
    cases ok with
    | true =>
      obtain ⟨m', hins, hcap', _, hI', habs'⟩ := hB hg rfl
      simp only [if_true, Option.some.injEq]
      refine ⟨?_, by intro h; cases h⟩
      rintro st' rfl
      rw [AL.lookup_insert_fupd] at habs'
      exact ⟨m', al1, hins, hI', by simp only; rw [hcap'], AL.WF_insert wf k v, habs'⟩
    | false =>
      simp only [if_true, Bool.false_eq_true, if_false]
      exact ⟨fun st' h => (by cases h), fun _ => ⟨al1, hC hg rfl⟩⟩

/-! ## one-step refinement -/

theorem step_refines {hashOf : K → UInt64} {m : HMap K V} {st : Spec K V} (h : R hashOf m st)
    (op : Op K V) :
    R hashOf (modelStep hashOf m op).1 (specStep st op).1 ∧
      OutEq (modelStep hashOf m op).2 (specStep st op).2 := by
  have hlen := R_len h
  have hperm := R_perm h
  have h0 := h
  obtain ⟨hI, hcap, wf, habs⟩ := h
  cases op with
  | insert k v fa =>
    cases hl : AL.lookup st.l k with
    | some w =>
      obtain ⟨m', hins, hcap', _, hI', habs'⟩ := insert_present hI habs hl v (oracle fa)
      rw [AL.lookup_insert_fupd] at habs'
      simp only [modelStep, specStep, hins, hl]
      exact ⟨⟨hI', by simp only; rw [hcap', hcap], AL.WF_insert wf k v, habs'⟩, Or.inl rfl⟩
    | none =>
      obtain ⟨h1, h2⟩ := absent_step h0 hl v (oracle fa)
      cases hr : specMakeRoom st (oracle fa) with
      | some st' =>
        obtain ⟨m', al', hins, hR⟩ := h1 st' hr
        simp only [modelStep, specStep, hins, hl, hr]
        exact ⟨hR, Or.inl rfl⟩
      | none =>
        obtain ⟨al', hins⟩ := h2 hr
        simp only [modelStep, specStep, hins, hl, hr]
        exact ⟨h0, Or.inl rfl⟩
  | entry k v fa =>
    have hget := get_eq hI habs k
    cases hl : AL.lookup st.l k with
    | some cur =>
      rw [hl] at hget
      simp only [modelStep, specStep, HMap.entryOrInsert, hget, hl]
      exact ⟨h0, Or.inl rfl⟩
    | none =>
      rw [hl] at hget
      obtain ⟨h1, h2⟩ := absent_step h0 hl v (oracle fa)
      cases hr : specMakeRoom st (oracle fa) with
      | some st' =>
        obtain ⟨m', al', hins, hR⟩ := h1 st' hr
        simp only [modelStep, specStep, HMap.entryOrInsert, hget, hins, hl, hr]
        exact ⟨hR, Or.inl rfl⟩
      | none =>
        obtain ⟨al', hins⟩ := h2 hr
        simp only [modelStep, specStep, HMap.entryOrInsert, hget, hins, hl, hr]
        exact ⟨h0, Or.inl rfl⟩
  | remove k =>
    obtain ⟨m', hrem, hcap', _, hI', habs'⟩ := remove_spec hI habs k
    rw [AL.lookup_erase_fupd] at habs'
    simp only [modelStep, specStep, hrem]
    exact ⟨⟨hI', by simp only; rw [hcap', hcap], AL.WF_erase wf k, habs'⟩, Or.inl rfl⟩
  | get k =>
    simp only [modelStep, specStep, get_eq hI habs k]
    exact ⟨h0, Or.inl rfl⟩
  | contains k =>
    simp only [modelStep, specStep, HMap.contains, get_eq hI habs k]
    exact ⟨h0, Or.inl rfl⟩
  | reserve n fa =>
    rcases hnext : (oracle fa).next with ⟨ok, al1⟩
    obtain ⟨hA, hB⟩ := reserve_spec hI habs n (oracle fa) hnext
    cases ok with
    | true =>
      obtain ⟨m', hres, hcap', _, hI', habs'⟩ := hA rfl
      simp only [modelStep, specStep, hres, hnext, if_true]
      exact ⟨⟨hI', by simp only; rw [hcap', hcap], wf, habs'⟩, Or.inl rfl⟩
    | false =>
      simp only [modelStep, specStep, hB rfl, hnext, Bool.false_eq_true, if_false]
      exact ⟨h0, Or.inl rfl⟩
  | clear =>
    obtain ⟨hout, hcap', _, hI', habs'⟩ := clear_spec hI
    simp only [modelStep, specStep]
    refine ⟨⟨hI', by simp only; rw [hcap', hcap], AL.WF_nil, habs'⟩,
      Or.inr (Or.inr ⟨_, _, rfl, rfl, ?_⟩)⟩
    rw [hout]; exact hperm
  | clone fa =>
    obtain ⟨hA, hB⟩ := clone_spec hI habs (oracle fa)
    simp only [modelStep, specStep, hlen, hcap]
    cases hc : specCloneCap m.cap m.count (oracle fa) with
    | some cap' =>
      obtain ⟨m', al', hcl, hcap', _, hI', habs'⟩ := hA cap' hc
      simp only [hcl]
      exact ⟨⟨hI', by simp only; rw [hcap'], wf, habs'⟩, Or.inl rfl⟩
    | none =>
      obtain ⟨al', hcl⟩ := hB hc
      simp only [hcl]
      exact ⟨h0, Or.inl rfl⟩
  | len =>
    simp only [modelStep, specStep, hlen]
    exact ⟨h0, Or.inl rfl⟩
  | iter =>
    simp only [modelStep, specStep]
    exact ⟨h0, Or.inr (Or.inl ⟨_, _, rfl, rfl, hperm⟩)⟩

/-! ## runs -/

def runModel (hashOf : K → UInt64) (m : HMap K V) : List (Op K V) → List (Out K V)
  | [] => []
  | op :: ops => (modelStep hashOf m op).2 :: runModel hashOf (modelStep hashOf m op).1 ops

def runSpec (st : Spec K V) : List (Op K V) → List (Out K V)
  | [] => []
  | op :: ops => (specStep st op).2 :: runSpec (specStep st op).1 ops

/-- pointwise `OutEq` on output lists of equal length -/
def OutsEq : List (Out K V) → List (Out K V) → Prop
  | [], [] => True
  | a :: as, b :: bs => OutEq a b ∧ OutsEq as bs
  | _, _ => False

theorem run_refines {hashOf : K → UInt64} (ops : List (Op K V)) :
    ∀ {m : HMap K V} {st : Spec K V}, R hashOf m st →
      OutsEq (runModel hashOf m ops) (runSpec st ops) := by
  induction ops with
  | nil => intro m st _; exact True.intro
  | cons op ops ih =>
    intro m st h
    obtain ⟨h1, h2⟩ := step_refines h op
    exact ⟨h2, ih h1⟩

/-- **C12 (refinement)**: for every requested capacity, every hash function, every operation
    sequence and every choice of injected allocation failures, the outputs of the code-shaped
    model (started from a successful `with_capacity(c)`) equal those of the association-list
    specification (iteration orders up to permutation). In particular no output is `panic`. -/
theorem hm_refines (hashOf : K → UInt64) (c : Nat) (al al' : Alloc) (m : HMap K V)
    (h0 : HMap.withCapacity c al = (al', .ok m)) (ops : List (Op K V)) :
    OutsEq (runModel hashOf m ops) (runSpec { cap := max c 1, l := [] } ops) := by
  rcases hnext : al.next with ⟨ok, al1⟩
  obtain ⟨hA, hB⟩ := withCapacity_spec (V := V) hashOf c al hnext
  cases ok with
  | false => rw [hB rfl] at h0; cases h0
  | true =>
    obtain ⟨m0, hw, hcap, _, hI, habs⟩ := hA rfl
    rw [hw] at h0
    obtain rfl : m0 = m := by simp at h0; exact h0.2
    exact run_refines ops ⟨hI, hcap.symm, AL.WF_nil, habs⟩

/-! ## termination, invariant preservation, allocation failure -/

/-- **the probe loop terminates**: in every state satisfying the invariant `find_ind` returns -/
theorem hm_find_terminates {hashOf : K → UInt64} {m : HMap K V} (hI : HInv hashOf m) (k : K) :
    ∃ i < m.cap, OA.find m.cap (HMap.home hashOf m.cap) m.slots k = some i := by
  obtain ⟨i, hi, hf, _⟩ := OA.find_spec hI.2.1 k
  exact ⟨i, hi, hf⟩

/-- result of an operation that returns a fresh table: never `panic`, invariant on success -/
def OkInv (hashOf : K → UInt64) : Res (HMap K V) → Prop
  | .ok m' => HInv hashOf m'
  | .allocErr => True
  | .panic _ => False

def NoPanic {α : Type} : Res α → Prop
  | .panic _ => False
  | _ => True

private theorem insert_total {hashOf : K → UInt64} {m : HMap K V} {f : K → Option V}
    (hI : HInv hashOf m) (habs : OA.Abs m.cap m.slots f) (k : K) (v : V) (al : Alloc) :
    ∃ m' al' r, m.insert hashOf k v al = (m', al', r) ∧ HInv hashOf m' ∧
      ((r = .allocErr ∧ m' = m) ∨
       (r = .ok ((f k).map (fun w => (k, w))) ∧ OA.Abs m'.cap m'.slots (OA.fupd f k (some v)))) := by
  cases hk : f k with
  | some w =>
    obtain ⟨m', hins, _, _, hI', habs'⟩ := insert_present hI habs hk v al
    exact ⟨m', al, _, hins, hI', Or.inr ⟨rfl, habs'⟩⟩
  | none =>
    rcases hnext : al.next with ⟨ok, al1⟩
    obtain ⟨hA, hB, hC⟩ := insert_absent hI habs hk v al hnext
    cases hg : HMap.needsGrow (m.count + 1) m.cap with
    | false =>
      obtain ⟨m', hins, _, _, hI', habs'⟩ := hA hg
      exact ⟨m', al, _, hins, hI', Or.inr ⟨rfl, habs'⟩⟩
    | true =>
      cases ok with
      | true =>
        obtain ⟨m', hins, _, _, hI', habs'⟩ := hB hg rfl
        exact ⟨m', al1, _, hins, hI', Or.inr ⟨rfl, habs'⟩⟩
      | false => exact ⟨m, al1, _, hC hg rfl, hI, Or.inl ⟨rfl, rfl⟩⟩

private theorem entry_total {hashOf : K → UInt64} {m : HMap K V} {f : K → Option V}
    (hI : HInv hashOf m) (habs : OA.Abs m.cap m.slots f) (k : K) (v : V) (al : Alloc) :
    ∃ m' al' r, m.entryOrInsert hashOf k v al = (m', al', r) ∧ HInv hashOf m' ∧
      ((r = .allocErr ∧ m' = m) ∨ (∃ cur, f k = some cur ∧ r = .ok (false, cur) ∧ m' = m) ∨
       (f k = none ∧ r = .ok (true, v) ∧ OA.Abs m'.cap m'.slots (OA.fupd f k (some v)))) := by
  have hget := get_eq hI habs k
  cases hk : f k with
  | some cur =>
    rw [hk] at hget
    exact ⟨m, al, _, by simp only [HMap.entryOrInsert, hget], hI, Or.inr (Or.inl ⟨cur, rfl, rfl, rfl⟩)⟩
  | none =>
    rw [hk] at hget
    obtain ⟨m', al', r, hins, hI', h⟩ := insert_total hI habs k v al
    rcases h with ⟨rfl, rfl⟩ | ⟨rfl, habs'⟩
    · exact ⟨m', al', _, by simp only [HMap.entryOrInsert, hget, hins], hI', Or.inl ⟨rfl, rfl⟩⟩
    · exact ⟨m', al', _, by simp only [HMap.entryOrInsert, hget, hins], hI',
        Or.inr (Or.inr ⟨rfl, rfl, habs'⟩)⟩

omit [DecidableEq K] in
/-- `with_capacity` establishes the invariant (or reports the allocation failure) -/
theorem hm_withCapacity_inv (hashOf : K → UInt64) (c : Nat) (al : Alloc) :
    OkInv hashOf (HMap.withCapacity c al : Alloc × Res (HMap K V)).2 := by
  rcases hnext : al.next with ⟨ok, al1⟩
  obtain ⟨hA, hB⟩ := withCapacity_spec (V := V) hashOf c al hnext
  cases ok with
  | true => obtain ⟨m, hw, _, _, hI, _⟩ := hA rfl; rw [hw]; exact hI
  | false => rw [hB rfl]; exact True.intro

/-- **C12 (invariant)**: every operation preserves the representation invariant and never
    panics — the probe loop always returns — for every value of the allocation oracle. -/
theorem hm_inv_preserved {hashOf : K → UInt64} {m : HMap K V} (hI : HInv hashOf m) :
    (∀ k v al, HInv hashOf (m.insert hashOf k v al).1 ∧ NoPanic (m.insert hashOf k v al).2.2) ∧
    (∀ k v al, HInv hashOf (m.entryOrInsert hashOf k v al).1 ∧
        NoPanic (m.entryOrInsert hashOf k v al).2.2) ∧
    (∀ k, HInv hashOf (m.remove hashOf k).1 ∧ NoPanic (m.remove hashOf k).2) ∧
    (∀ n al, OkInv hashOf (m.reserve hashOf n al).2) ∧
    HInv hashOf (m.clear).1 ∧
    (∀ al, OkInv hashOf (m.clone hashOf al).2) := by
  have habs := OA.Abs_get hI.2.1
  refine ⟨?_, ?_, ?_, ?_, (clear_spec hI).2.2.2.1, ?_⟩
  · intro k v al
    obtain ⟨m', al', r, hins, hI', h⟩ := insert_total hI habs k v al
    rw [hins]
    rcases h with ⟨rfl, _⟩ | ⟨rfl, _⟩ <;> exact ⟨hI', True.intro⟩
  · intro k v al
    obtain ⟨m', al', r, hins, hI', h⟩ := entry_total hI habs k v al
    rw [hins]
    rcases h with ⟨rfl, _⟩ | ⟨_, _, rfl, _⟩ | ⟨_, rfl, _⟩ <;> exact ⟨hI', True.intro⟩
  · intro k
    obtain ⟨m', hrem, _, _, hI', _⟩ := remove_spec hI habs k
    rw [hrem]; exact ⟨hI', True.intro⟩
  · intro n al
    rcases hnext : al.next with ⟨ok, al1⟩
    obtain ⟨hA, hB⟩ := reserve_spec hI habs n al hnext
    cases ok with
    | true => obtain ⟨m', hres, _, _, hI', _⟩ := hA rfl; rw [hres]; exact hI'
    | false => rw [hB rfl]; exact True.intro
  · intro al
    obtain ⟨hA, hB⟩ := clone_spec hI habs al
    cases hc : specCloneCap m.cap m.count al with
    | some cap' => obtain ⟨m', al', hcl, _, _, hI', _⟩ := hA cap' hc; rw [hcl]; exact hI'
    | none => obtain ⟨al', hcl⟩ := hB hc; rw [hcl]; exact True.intro

/-- **C12 (allocation failure)**: an operation that reports `allocErr` leaves the table
    untouched (not just abstractly: the very same state), and the specification says exactly when
    that happens (`hm_refines`): insert/entry of a new key above the load factor, `reserve`,
    `clone`, each iff one of the allocations it performs is the failing one. -/
theorem hm_alloc_fail {hashOf : K → UInt64} {m : HMap K V} (hI : HInv hashOf m) (op : Op K V)
    (h : (modelStep hashOf m op).2 = .allocErr) : (modelStep hashOf m op).1 = m := by
  have habs := OA.Abs_get hI.2.1
  cases op with
  | insert k v fa =>
    obtain ⟨m', al', r, hins, _, hr⟩ := insert_total hI habs k v (oracle fa)
    rcases hr with ⟨rfl, rfl⟩ | ⟨rfl, _⟩
    · simp only [modelStep, hins]
    · simp only [modelStep, hins] at h; cases h
  | entry k v fa =>
    obtain ⟨m', al', r, hins, _, hr⟩ := entry_total hI habs k v (oracle fa)
    rcases hr with ⟨rfl, rfl⟩ | ⟨_, _, rfl, _⟩ | ⟨_, rfl, _⟩
    · simp only [modelStep, hins]
    · simp only [modelStep, hins] at h; cases h
    · simp only [modelStep, hins] at h; cases h
  | remove k =>
    obtain ⟨m', hrem, _⟩ := remove_spec hI habs k
    simp only [modelStep, hrem] at h; cases h
  | reserve n fa =>
    rcases hr : m.reserve hashOf n (oracle fa) with ⟨al', r⟩
    cases r <;> simp only [modelStep, hr] at h ⊢ <;> cases h
  | clone fa =>
    rcases hr : m.clone hashOf (oracle fa) with ⟨al', r⟩
    cases r <;> simp only [modelStep, hr] at h ⊢ <;> cases h
  | get k => rfl
  | contains k => rfl
  | len => rfl
  | iter => rfl
  | clear => simp only [modelStep] at h; cases h

/-- the specification side of `hm_alloc_fail` -/
theorem spec_alloc_fail (st : Spec K V) (op : Op K V) (h : (specStep st op).2 = .allocErr) :
    (specStep st op).1 = st := by
  cases op <;> simp only [specStep] at h ⊢ <;> (try cases h) <;> split at h <;>
    (try split at h) <;> simp_all

/-! ## frame property -/

/-- **C12 (frame)**: inserting / removing / `entry`-ing key `k` does not change what any other
    key maps to. -/
theorem hm_frame {hashOf : K → UInt64} {m : HMap K V} (hI : HInv hashOf m) {k k' : K}
    (hne : k' ≠ k) :
    (∀ v al, (m.insert hashOf k v al).1.get hashOf k' = m.get hashOf k') ∧
    (∀ v al, (m.entryOrInsert hashOf k v al).1.get hashOf k' = m.get hashOf k') ∧
    (m.remove hashOf k).1.get hashOf k' = m.get hashOf k' := by
  have habs := OA.Abs_get hI.2.1
  refine ⟨?_, ?_, ?_⟩
  · intro v al
    obtain ⟨m', al', r, hins, hI', h⟩ := insert_total hI habs k v al
    rw [hins]
    rcases h with ⟨_, rfl⟩ | ⟨_, habs'⟩
    · rfl
    · simp only; rw [get_eq hI' habs', OA.fupd_other _ _ _ hne]; rfl
  · intro v al
    obtain ⟨m', al', r, hins, hI', h⟩ := entry_total hI habs k v al
    rw [hins]
    rcases h with ⟨_, rfl⟩ | ⟨_, _, _, rfl⟩ | ⟨_, _, habs'⟩
    · rfl
    · rfl
    · simp only; rw [get_eq hI' habs', OA.fupd_other _ _ _ hne]; rfl
  · obtain ⟨m', hrem, _, _, hI', habs'⟩ := remove_spec hI habs k
    rw [hrem]
    simp only; rw [get_eq hI' habs', OA.fupd_other _ _ _ hne]; rfl

/-- what `insert` / `remove` do at the key itself -/
theorem hm_get_after {hashOf : K → UInt64} {m : HMap K V} (hI : HInv hashOf m) (k : K) :
    (∀ v al, (m.insert hashOf k v al).2.2 ≠ .allocErr →
        (m.insert hashOf k v al).1.get hashOf k = some v) ∧
    (m.remove hashOf k).1.get hashOf k = none := by
  have habs := OA.Abs_get hI.2.1
  refine ⟨?_, ?_⟩
  · intro v al hno
    obtain ⟨m', al', r, hins, hI', h⟩ := insert_total hI habs k v al
    rw [hins] at hno ⊢
    rcases h with ⟨rfl, _⟩ | ⟨_, habs'⟩
    · exact absurd rfl hno
    · simp only; rw [get_eq hI' habs', OA.fupd_same]
  · obtain ⟨m', hrem, _, _, hI', habs'⟩ := remove_spec hI habs k
    rw [hrem]
    simp only; rw [get_eq hI' habs', OA.fupd_same]

/-! ## entry accounting: nothing is lost, nothing is duplicated -/

/-- entries handed back by one step: displaced by an overwrite, removed, or dropped by `clear` -/
def returned : Out K V → List (K × V)
  | .displaced (some kv) => [kv]
  | .removed (some kv) => [kv]
  | .dropped l => l
  | _ => []

/-- entries that entered the table in one step -/
def accepted : Op K V → Out K V → List (K × V)
  | .insert k v _, .displaced _ => [(k, v)]
  | .entry k v _, .entry true _ => [(k, v)]
  | _, _ => []

omit [DecidableEq K] in
private theorem returned_perm {a b : Out K V} (h : OutEq a b) :
    (returned a).Perm (returned b) := by
  rcases h with rfl | ⟨x, y, rfl, rfl, _⟩ | ⟨x, y, rfl, rfl, hp⟩
  · exact List.Perm.refl _
  · exact List.Perm.refl _
  · exact hp

omit [DecidableEq K] in
private theorem accepted_eq (op : Op K V) {a b : Out K V} (h : OutEq a b) :
    accepted op a = accepted op b := by
  rcases h with rfl | ⟨x, y, rfl, rfl, _⟩ | ⟨x, y, rfl, rfl, _⟩
  · rfl
  · cases op <;> rfl
  · cases op <;> rfl

private theorem spec_accounting (st : Spec K V) (wf : AL.WF st.l) (op : Op K V) :
    ((specStep st op).1.l ++ returned (specStep st op).2).Perm
      (st.l ++ accepted op (specStep st op).2) := by
  have hnew : ∀ (k : K) (v : V), AL.lookup st.l k = none →
      (AL.insert st.l k v ++ []).Perm (st.l ++ [(k, v)]) := by
    intro k v hl
    unfold AL.insert
    rw [AL.erase_of_lookup_none hl, List.append_nil]
    exact (List.perm_append_singleton _ _).symm
  cases op with
  | insert k v fa =>
    cases hl : AL.lookup st.l k with
    | some w =>
      simp only [specStep, hl, returned, accepted]
      have hp := AL.perm_erase wf k
      rw [hl] at hp
      simp only [Option.map_some, Option.toList_some, List.singleton_append] at hp
      unfold AL.insert
      refine List.Perm.trans ?_ (List.Perm.append_right _ hp.symm)
      simp only [List.cons_append]
      refine List.Perm.trans (List.Perm.cons _ (List.perm_append_singleton _ _)) ?_
      refine List.Perm.trans (List.Perm.swap _ _ _) ?_
      exact List.Perm.cons _ (List.perm_append_singleton _ _).symm
    | none =>
      cases hr : specMakeRoom st (oracle fa) with
      | some st' =>
        have hst' : st'.l = st.l := by
          unfold specMakeRoom at hr
          split at hr
          · split at hr
            · cases hr; rfl
            · cases hr
          · cases hr; rfl
        simp only [specStep, hl, hr, returned, accepted, hst']
        exact hnew k v hl
      | none =>
        simp only [specStep, hl, hr, returned, accepted]
        exact List.Perm.refl _
  | entry k v fa =>
    cases hl : AL.lookup st.l k with
    | some w =>
      simp only [specStep, hl, returned, accepted]
      exact List.Perm.refl _
    | none =>
      cases hr : specMakeRoom st (oracle fa) with
      | some st' =>
        have hst' : st'.l = st.l := by
          unfold specMakeRoom at hr
          split at hr
          · split at hr
            · cases hr; rfl
            · cases hr
          · cases hr; rfl
        simp only [specStep, hl, hr, returned, accepted, hst']
        exact hnew k v hl
      | none =>
        simp only [specStep, hl, hr, returned, accepted]
        exact List.Perm.refl _
  | remove k =>
    have hp := AL.perm_erase wf k
    cases hl : AL.lookup st.l k with
    | some w =>
      rw [hl] at hp
      simp only [specStep, hl, returned, accepted, Option.map_some, List.append_nil]
      exact (List.perm_append_comm).trans hp.symm
    | none =>
      simp only [specStep, hl, returned, accepted, Option.map_none, List.append_nil]
      rw [AL.erase_of_lookup_none hl]
  | clear =>
    simp only [specStep, returned, accepted, List.nil_append, List.append_nil]
    exact List.Perm.refl _
  | reserve n fa =>
    simp only [specStep]
    split <;> exact List.Perm.refl _
  | clone fa =>
    simp only [specStep]
    split <;> exact List.Perm.refl _
  | get k => exact List.Perm.refl _
  | contains k => exact List.Perm.refl _
  | len => exact List.Perm.refl _
  | iter => exact List.Perm.refl _

/-- one step: stored-after plus handed-back is stored-before plus accepted -/
theorem step_accounting {hashOf : K → UInt64} {m : HMap K V} (hI : HInv hashOf m) (op : Op K V) :
    ((modelStep hashOf m op).1.toList ++ returned (modelStep hashOf m op).2).Perm
      (m.toList ++ accepted op (modelStep hashOf m op).2) := by
  have hR := R_canon hI
  obtain ⟨hR', hout⟩ := step_refines hR op
  have hspec := spec_accounting { cap := m.cap, l := m.toList } hR.2.2.1 op
  rw [accepted_eq op hout]
  exact ((R_perm hR').append (returned_perm hout)).trans hspec

/-- a run with its two logs: everything handed back, everything accepted -/
def runLog (hashOf : K → UInt64) :
    HMap K V → List (Op K V) → HMap K V × List (K × V) × List (K × V)
  | m, [] => (m, [], [])
  | m, op :: ops =>
    let r := modelStep hashOf m op
    let rest := runLog hashOf r.1 ops
    (rest.1, returned r.2 ++ rest.2.1, accepted op r.2 ++ rest.2.2)

/-- **C12 (entries are dropped exactly once)**: along every run, the entries currently stored
    together with all entries handed back so far (displaced by an overwriting `insert`, returned
    by `remove`, dropped by `clear`) are — as a multiset — exactly the entries stored initially
    together with all entries accepted by `insert`/`entry`. So every accepted entry is, at any
    time, in exactly one of these places, exactly once. (`clone` continues on the copy.) -/
theorem hm_drop_once {hashOf : K → UInt64} (ops : List (Op K V)) :
    ∀ {m : HMap K V}, HInv hashOf m →
      ((runLog hashOf m ops).1.toList ++ (runLog hashOf m ops).2.1).Perm
        (m.toList ++ (runLog hashOf m ops).2.2) := by
  induction ops with
  | nil => intro m _; simp [runLog]
  | cons op ops ih =>
    intro m hI
    have hstep := step_accounting hI op
    have hI' := (step_refines (R_canon hI) op).1.1
    have hrest := ih hI'
    simp only [runLog]
    generalize (runLog hashOf (modelStep hashOf m op).1 ops).1.toList = fin at hrest ⊢
    generalize (runLog hashOf (modelStep hashOf m op).1 ops).2.1 = ret at hrest ⊢
    generalize (runLog hashOf (modelStep hashOf m op).1 ops).2.2 = acc at hrest ⊢
    generalize (modelStep hashOf m op).1.toList = mid at hstep hrest
    generalize returned (modelStep hashOf m op).2 = r1 at hstep ⊢
    generalize accepted op (modelStep hashOf m op).2 = a1 at hstep ⊢
    -- fin ++ (r1 ++ ret) ~ r1 ++ (fin ++ ret) ~ r1 ++ (mid ++ acc) ~ (mid ++ r1) ++ acc
    --   ~ (m.toList ++ a1) ++ acc
    have e1 : (fin ++ (r1 ++ ret)).Perm (r1 ++ (fin ++ ret)) := by
      rw [← List.append_assoc, ← List.append_assoc]
      exact List.Perm.append_right _ List.perm_append_comm
    have e2 : (r1 ++ (mid ++ acc)).Perm ((mid ++ r1) ++ acc) := by
      rw [← List.append_assoc]
      exact List.Perm.append_right _ List.perm_append_comm
    have e3 := List.Perm.append_right acc hstep
    rw [← List.append_assoc m.toList a1 acc]
    exact e1.trans ((List.Perm.append_left r1 hrest).trans (e2.trans e3))

/-- corollary with counts: after a final `clear` of a fresh table nothing is stored and every
    entry was handed back exactly as often as it was accepted -/
theorem hm_drop_once_fresh [DecidableEq V] (hashOf : K → UInt64) (c : Nat) (al al' : Alloc)
    (m : HMap K V) (h0 : HMap.withCapacity c al = (al', .ok m)) (ops : List (Op K V))
    (x : K × V) :
    let r := runLog hashOf m (ops ++ [Op.clear])
    r.1.toList = [] ∧ r.2.1.count x = r.2.2.count x := by
  have hI : HInv hashOf m := by
    have := hm_withCapacity_inv (V := V) hashOf c al
    rw [h0] at this; exact this
  have hm : m.toList = [] := by
    unfold HMap.withCapacity at h0
    split at h0
    split at h0
    · simp only [Prod.mk.injEq, Res.ok.injEq] at h0
      rw [← h0.2]; simp [HMap.toList]
    · simp at h0
  have hfin : ∀ (ops : List (Op K V)) (m : HMap K V),
      (runLog hashOf m (ops ++ [Op.clear])).1.toList = [] := by
    intro ops
    induction ops with
    | nil => intro m; simp [runLog, modelStep, HMap.clear, HMap.toList]
    | cons op ops ih => intro m; simp only [List.cons_append, runLog]; exact ih _
  have h := hm_drop_once (hashOf := hashOf) (ops ++ [Op.clear]) hI
  refine ⟨hfin ops m, ?_⟩
  rw [hfin ops m, hm] at h
  simpa using h.count_eq x

/-- along every run from a state satisfying the invariant, no step panics -/
theorem hm_never_panics {hashOf : K → UInt64} (ops : List (Op K V)) :
    ∀ {m : HMap K V}, HInv hashOf m → Out.panic ∉ runModel hashOf m ops := by
  induction ops with
  | nil => intro m _; simp [runModel]
  | cons op ops ih =>
    intro m hI
    obtain ⟨hR', hout⟩ := step_refines (R_canon hI) op
    simp only [runModel, List.mem_cons, not_or]
    refine ⟨?_, ih hR'.1⟩
    intro hp
    rw [← hp] at hout
    have hspec : ∀ (st : Spec K V), (specStep st op).2 ≠ .panic := by
      intro st
      cases op <;> simp only [specStep] <;> (try split) <;> (try split) <;> simp
    rcases hout with h | ⟨x, y, h, _⟩ | ⟨x, y, h, _⟩
    · exact hspec _ h.symm
    · cases h
    · cases h

/-! ## non-vacuity -/

private def exHash : Nat → UInt64 := fun k => UInt64.ofNat (k + 1)
private def exM1 : HMap Nat Nat := { cap := 1, slots := OA.empty, count := 0 }
private def exM8 : HMap Nat Nat := { cap := 8, slots := OA.empty, count := 0 }

/-- the hypothesis of `hm_refines` / `hm_drop_once_fresh` is satisfiable -/
example : (HMap.withCapacity 0 {} : Alloc × Res (HMap Nat Nat)) = ({ n := 1 }, .ok exM1) := rfl
example : (HMap.withCapacity 8 {} : Alloc × Res (HMap Nat Nat)) = ({ n := 1 }, .ok exM8) := rfl

/-- keys 1, 9, 17 all start probing at slot 2 of 8: collisions, overwrite, backward shift -/
example : [1, 9, 17].map (HMap.home exHash 8) = [2, 2, 2] := by decide

example : runModel exHash exM8
    [.insert 1 10 none, .insert 9 90 none, .insert 17 170 none, .insert 1 11 none, .get 9,
     .remove 1, .get 17, .len, .get 1, .iter, .clear]
  = [.displaced none, .displaced none, .displaced none, .displaced (some (1, 10)),
     .value (some 90), .removed (some (1, 11)), .value (some 170), .num 2, .value none,
     .items [(9, 90), (17, 170)], .dropped [(9, 90), (17, 170)]] := by rfl

/-- `hm_refines` instantiated: growth from capacity 1, two injected allocation failures, `entry`,
    `reserve`, `clone` (the right-hand side is the evaluated specification run) -/
example : OutsEq
    (runModel exHash exM1
      [.insert 1 10 (some 0), .insert 1 10 none, .insert 2 20 (some 0), .insert 3 30 (some 0),
       .entry 3 30 none, .entry 3 31 none, .reserve 2 none, .clone (some 1), .clone none, .iter])
    [.allocErr, .displaced none, .displaced none, .allocErr, .entry true 30, .entry false 30,
     .unit, .unit, .unit, .items [(3, 30), (2, 20), (1, 10)]] :=
  hm_refines exHash 0 {} _ exM1 rfl _

end Cao.C12
