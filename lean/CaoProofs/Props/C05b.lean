import CaoProofs.Lemmas.RunInv
import CaoProofs.Lemmas.SchedOps
/-!
# C05 (continued) — the memory accounting invariant holds along whole runs

`Props/C05.lean` proves that `Inv` (ledger exact ∧ within the limit ∧ unique addresses ∧ fresh
`next` ∧ threshold ok) is preserved by the single allocation primitives. Here it is lifted to

* one instruction `step` (success *and* failure), for every program, every instruction address
  and every re-entry callback that preserves it (`step_inv`);
* host functions (`callNative_inv`), the dispatch loop / `run_function` for every amount of fuel
  (`exec_inv` — since `exec p gas` with a smaller `gas` is a prefix of the run with a larger one,
  this covers every instruction boundary inside a run, including nested runs started by natives),
  and `Vm::run` (`run_inv`), whatever the outcome (exit, error, timeout);
* every state the host can reach from a fresh VM by running programs, clearing the VM and
  installing forced-collection schedules (`Reachable`): `accounted_exact_always`,
  `never_above_limit_always` (against the *configured* limit: `run_limit` shows that no run
  changes it), `clear_returns_to_zero`.

The proofs are in `Lemmas/RunInv.lean`; no hypothesis on the program is needed (it need not be
well-formed bytecode). The table operand of every `tableInsert` the interpreter performs is on
the value stack or guarded at that moment, which is what `C05.tableInsert_inv` needs.
-/
namespace Cao.C05b
open Cao Cao.Vm Cao.Gc Cao.C02 Cao.C05 Cao.RunInv Cao.SchedSim

/-! ## 1. one instruction, natives, the loop, `run` -/

/-- a callback preserves the invariant -/
def ReenterInv (reenter : Reenter) : Prop :=
  ∀ (f : Val) (s : VmState), Inv s → Inv ((reenter f).run.run s).2

theorem reenterInv_iff (reenter : Reenter) : ReenterInv reenter ↔ ∀ f, Pres InvR (reenter f) :=
  ⟨fun h f => Pres.intro (fun s hi => h f s hi), fun h f s hi => (h f).rel s hi⟩

/-- **every instruction preserves the accounting invariant** — for every program, address and
    invariant-preserving callback, whether the instruction succeeds or raises an error -/
theorem step_inv (p : Prog) (reenter : Reenter) (hre : ReenterInv reenter) (src : Nat) (s : VmState)
    (h : Inv s) : Inv ((step p reenter src).run.run s).2 :=
  (ipres_step p reenter ((reenterInv_iff reenter).mp hre) src).rel s h

/-- every host function (stdlib natives and the test family) preserves it, on success and on
    failure -/
theorem callNative_inv (reenter : Reenter) (hre : ReenterInv reenter) (hd : UInt32) (s : VmState)
    (h : Inv s) : Inv ((callNative reenter hd).run.run s).2 :=
  (ipres_callNative reenter ((reenterInv_iff reenter).mp hre) hd).rel s h

/-- **the dispatch loop and `run_function` preserve it**, for every amount of fuel and every
    outcome -/
theorem exec_inv (p : Prog) (gas : Nat) (t : Task) (s : VmState) (h : Inv s) :
    Inv (exec p gas t s).1 := exec_invR p gas t s h

/-- the callback that `exec` hands to `step` is invariant-preserving -/
theorem reenterOf_inv (p : Prog) (gas : Nat) : ReenterInv (reenterOf p gas) :=
  (reenterInv_iff _).mpr (fun f => pres_liftRun (fun s => exec_invR p gas (.call f) s))

/-- **`Vm::run` preserves it**, whether the program exits, fails or times out -/
theorem run_inv (p : Prog) (n : Nat) (s : VmState) (h : Inv s) : Inv (run p n s).1 :=
  run_invR p n s h

/-- no run changes the configured limit -/
theorem run_limit (p : Prog) (n : Nat) (s : VmState) : (run p n s).1.mem.limit = s.mem.limit :=
  RunInv.run_limit p n s

theorem exec_limit (p : Prog) (gas : Nat) (t : Task) (s : VmState) :
    (exec p gas t s).1.mem.limit = s.mem.limit :=
  exec_mem (R := SameLimit) p (lpres_step p) (fun re hre h => lpres_callNative re hre h) gas t s

/-! ## 2. the property, in its own words -/

/-- the states a host can bring a VM with configuration `c` into: create it, run programs
    (with any budget; the run may fail), clear it, install a forced-collection schedule -/
inductive Reachable (c : Config) : VmState → Prop
  | fresh : Reachable c (VmState.fresh c)
  | run {s : VmState} (p : Prog) (n : Nat) : Reachable c s → Reachable c (Vm.run p n s).1
  | clear {s : VmState} : Reachable c s → Reachable c (Vm.clear s)
  | sched {s : VmState} (sch : Sched) (i : Nat) :
      Reachable c s → Reachable c { s with sched := sch, allocIndex := i }

theorem reachable_inv {c : Config} {s : VmState} (h : Reachable c s) :
    Inv s ∧ s.mem.limit = c.memLimit := by
  induction h with
  | fresh => exact ⟨fresh_inv c, rfl⟩
  | run p n _ ih => exact ⟨run_inv p n _ ih.1, (run_limit p n _).trans ih.2⟩
  | clear _ ih => exact ⟨clear_inv _ ih.1, ih.2⟩
  | @sched s0 sch i _ ih => exact ⟨inv_of_same (s := s0) rfl rfl ih.1, ih.2⟩

/-- **the accounted heap usage equals the memory of the objects currently allocated**, in every
    reachable state -/
theorem accounted_exact_always {c : Config} {s : VmState} (h : Reachable c s) :
    s.mem.allocated = (s.heap.objs.map (fun q => Heap.chargeOf q.2)).sum :=
  (reachable_inv h).1.ledger

/-- **and never exceeds the configured limit** -/
theorem never_above_limit_always {c : Config} {s : VmState} (h : Reachable c s) :
    s.mem.allocated ≤ c.memLimit := by
  have := reachable_inv h
  rw [← this.2]; exact this.1.within

/-- so the objects currently allocated fit into the configured limit -/
theorem outstanding_le_limit {c : Config} {s : VmState} (h : Reachable c s) :
    (s.heap.objs.map (fun q => Heap.chargeOf q.2)).sum ≤ c.memLimit := by
  rw [← accounted_exact_always h]; exact never_above_limit_always h

/-- **clearing the VM returns the accounted usage to zero** (and releases every object) -/
theorem clear_returns_to_zero {c : Config} {s : VmState} (h : Reachable c s) :
    (clear s).mem.allocated = 0 ∧ (clear s).heap.objs = [] :=
  ⟨clear_zero s (reachable_inv h).1.ledger, rfl⟩

/-- also in the middle of a run: after any number of dispatched instructions (fuel `gas`), from
    a reachable state in which the run was started -/
theorem accounted_exact_during_run {c : Config} {s : VmState} (h : Reachable c s) (p : Prog)
    (gas : Nat) (t : Task) :
    let s' := (exec p gas t s).1
    s'.mem.allocated = (s'.heap.objs.map (fun q => Heap.chargeOf q.2)).sum ∧
    s'.mem.allocated ≤ c.memLimit := by
  have hi := exec_inv p gas t s (reachable_inv h).1
  have hl := exec_limit p gas t s
  refine ⟨hi.ledger, ?_⟩
  rw [← (reachable_inv h).2, ← hl]; exact hi.within

/-! ## 3. non-vacuity -/

/-- `t = {}; G0 = t; {} ; pop; exit` -/
def prog1 : Prog :=
  { bytecode := #[31, 17, 0, 0, 0, 0, 31, 16, 10], data := #[], labels := [], varNames := [], trace := [] }

def small : Config := { memLimit := 1000, stackSize := 4, callStackSize := 4, maxInstr := 10 }
/-- one table costs 424 bytes: the second one does not fit while the first is a global -/
def tight : Config := { memLimit := 500, stackSize := 4, callStackSize := 4, maxInstr := 10 }

private def errName (r : VmState × Option RunErr) : Option String := r.2.map (·.kind.name)

example : errName (run prog1 10 (VmState.fresh small)) = none ∧
    (run prog1 10 (VmState.fresh small)).1.mem.allocated = 848 ∧
    (run prog1 10 (VmState.fresh small)).1.heap.objs.map (·.1) = [1, 2] := by decide +kernel

example : errName (run prog1 10 (VmState.fresh tight)) = some "OutOfMemory" ∧
    (run prog1 10 (VmState.fresh tight)).1.mem.allocated = 424 ∧
    (run prog1 10 (VmState.fresh tight)).1.heap.objs.map (·.1) = [1] := by decide +kernel

/-- a second run on the same VM, under a schedule that forces a collection at every allocation:
    the garbage table of the first run is reclaimed -/
example : (run prog1 10 { (run prog1 10 (VmState.fresh small)).1 with sched := .every, allocIndex := 0 }).1.mem.allocated = 848 ∧
    (run prog1 10 { (run prog1 10 (VmState.fresh small)).1 with sched := .every, allocIndex := 0 }).1.heap.objs.map (·.1) = [3, 4] := by
  decide +kernel

example : Reachable small (clear (run prog1 10 (VmState.fresh small)).1) :=
  .clear (.run prog1 10 .fresh)

example : (clear (run prog1 10 (VmState.fresh small)).1).mem.allocated = 0 :=
  (clear_returns_to_zero (.run prog1 10 .fresh)).1

example : ReenterInv (reenterOf prog1 5) := reenterOf_inv prog1 5


/-! ## 4. C02 — schedule independence of whole runs

`C02.schedule_independence_Full` (every program, every start state with a balanced ledger) is
**false**; what is proved instead:

* `schedule_independence_Full_false` — a kernel-checked counter-example (ill-formed bytecode that
  drops a captured slot with `AppendTable` — `pop_n` keeps the slot — and then reads the stale slot
  through the still open upvalue; the former witness, which moved the stack pointer back up with
  `ClearStack`, is gone with the repair of `clear_until`: `clearStack_witness_repaired`);
* `alloc_outcome_schedule_independent`, `initTable_schedule_independent`, … — the allocation layer
  at full strength (same address / same `OutOfMemory` outcome, related states);
* `schedule_independence_of_stepSim` — whole runs are schedule independent as soon as every
  instruction (`StepSim p`) and every host function (`NatSim`) respects the relation `SchedEq`;
* `schedule_independence_simple` — unconditional for programs over the instruction fragment
  `simpleOps` (tables are created, shared, dropped, collected; allocations may fail).
-/

/-- the witness used before the repair of `clear_until`: `X = {}; T = {}; 7; f = fn@22/0; f()`
    where `f` is `T[7] = X` (pops three values, the slots keep them) `; {} ; pop ; ClearStack ; pop ;
    len`: inside `f` the frame starts at slot 3 but only 0 values are left, so the old `ClearStack`
    moved the stack pointer *up* to 3 and resurrected the stale reference to `T` in slot 1, which a
    collection forced by the allocation in between had freed (`len` saw 0 entries) or not (1 entry) -/
def clearStackProg : Prog :=
  { bytecode := #[31, 31, 5, 7,0,0,0,0,0,0,0, 37, 9,0,0,0, 0,0,0,0, 11, 10,
                  33, 31, 16, 21, 16, 34, 10],
    data := #[], labels := [(9, 22)], varNames := [], trace := [] }

def staleCfg : Config := { memLimit := 100000, stackSize := 8, callStackSize := 8, maxInstr := 100 }

/-- with the repaired `clear_until` (`ClearStack` only truncates) that program does not see the
    stale slot any more: the same result under both schedules (`len` of `nil`) -/
theorem clearStack_witness_repaired :
    (run clearStackProg 100 { VmState.fresh staleCfg with sched := .every }).1.stack.contents =
    (run clearStackProg 100 { VmState.fresh staleCfg with sched := .none }).1.stack.contents ∧
    (run clearStackProg 100 { VmState.fresh staleCfg with sched := .none }).1.stack.contents = [.int 0] := by
  decide +kernel

/-- `7; T = {}; c = closure@36/0; dup; RegisterUpvalue 1 local` (the closure captures slot 1, which
    holds `T`) `; G0 = c; T.append(7)` (`AppendTable` pops two values with `pop_n`: the slots keep
    them, slot 1 is now above the height and still captured) `; G0()` where the closure is
    `{} ; pop ; ReadUpvalue 0 ; len`: the open upvalue reads the stale slot 1 and brings back the
    reference to `T`, which the collection forced by the allocation in between has freed (`len`
    sees 0 entries) or not (1 entry) -/
def staleProg : Prog :=
  { bytecode := #[5, 7,0,0,0,0,0,0,0, 31, 42, 9,0,0,0, 0,0,0,0, 9, 45, 1, 1, 17, 0,0,0,0, 40,
                  18, 0,0,0,0, 11, 10,
                  31, 16, 44, 0,0,0,0, 34, 10],
    data := #[], labels := [(9, 36)], varNames := [], trace := [] }

example : (run staleProg 100 { VmState.fresh staleCfg with sched := .every }).1.stack.contents = [.int 0] ∧
    (run staleProg 100 { VmState.fresh staleCfg with sched := .none }).1.stack.contents = [.int 1] := by
  decide +kernel

/-- **the statement at the end of `Props/C02.lean` does not hold for arbitrary bytecode** -/
theorem schedule_independence_Full_false : ¬ C02.schedule_independence_Full := by
  intro h
  have h1 := (h staleProg 100 (VmState.fresh staleCfg) .every .none rfl List.nodup_nil
    (fun _ hq => by cases hq)).1.stack
  have h2 := congrArg VStack.contents h1
  revert h2
  decide +kernel

/-- the outcome of one allocation does not depend on the schedule (nor on garbage, nor on the
    threshold): with `p` bytes pending it succeeds iff live size + pending + request fit -/
theorem alloc_outcome_schedule_independent (c p : Nat) {s t : VmState} (h : SchedEq s t)
    (l₁ : LedgerP s p) (l₂ : LedgerP t p) :
    ((allocBytes c).run.run t).1 = ((allocBytes c).run.run s).1 := by
  rw [allocBytes_run, allocBytes_run]
  exact (allocPure_sim c p h.core l₁ l₂).1

/-- **`initTable` / `initString` / `initSimple` under two schedules**: the same address or the
    same error, and `SchedEq` states afterwards -/
theorem initTable_schedule_independent {s t : VmState} (h : SchedEq s t) :
    (initTable.run.run t).1 = (initTable.run.run s).1 ∧
    SchedEq (initTable.run.run s).2 (initTable.run.run t).2 := initTable_sim h

theorem initString_schedule_independent (b : List UInt8) {s t : VmState} (h : SchedEq s t) :
    ((initString b).run.run t).1 = ((initString b).run.run s).1 ∧
    SchedEq ((initString b).run.run s).2 ((initString b).run.run t).2 := initString_sim b h

theorem initSimple_schedule_independent (o : Obj) (hk : Heap.children o = [])
    (ho : Heap.chargeOf o = Heap.objCharge) {s t : VmState} (h : SchedEq s t) :
    ((initSimple o).run.run t).1 = ((initSimple o).run.run s).1 ∧
    SchedEq ((initSimple o).run.run s).2 ((initSimple o).run.run t).2 := initSimple_sim o hk ho h

/-- the conclusion of `C02.schedule_independence_Full` for one program, budget and start state -/
def ScheduleIndependent (p : Prog) (n : Nat) (s : VmState) : Prop :=
  ∀ (sch₁ sch₂ : Sched),
    ObsEq (run p n { s with sched := sch₁ }).1 (run p n { s with sched := sch₂ }).1 ∧
    ((run p n { s with sched := sch₁ }).2.map (fun e => (e.kind.name, e.at_))) =
      ((run p n { s with sched := sch₂ }).2.map (fun e => (e.kind.name, e.at_))) ∧
    (run p n { s with sched := sch₁ }).1.hostLog = (run p n { s with sched := sch₂ }).1.hostLog

theorem scheduleIndependent_of_run_sim (p : Prog) (n : Nat) (s : VmState) (hi : Inv s)
    (hrun : ∀ {s t : VmState}, SchedEq s t → s.guards = [] →
      (run p n t).2 = (run p n s).2 ∧ SchedEq (run p n s).1 (run p n t).1)
    (hg : s.guards = []) : ScheduleIndependent p n s := by
  intro sch₁ sch₂
  have h0 : SchedEq { s with sched := sch₁ } { s with sched := sch₂ } := by
    have := schedEq_sched s hi sch₁ sch₂ s.allocIndex s.allocIndex
    exact this
  obtain ⟨e, hs⟩ := hrun h0 hg
  exact ⟨hs.obsEq, by rw [e], hs.core.hostLog.symm⟩

/-- **schedule independence of whole runs, reduced to single instructions**: if every instruction
    of `p` and every host function maps `SchedEq` states to `SchedEq` states with equal results
    (given callbacks that do), then every run of `p` from a state that satisfies the accounting
    invariant (no guard outstanding) has the same outcome, the same host log and observationally
    equal final states under any two schedules -/
theorem schedule_independence_of_stepSim (p : Prog) (hstep : StepSim p) (hnat : NatSim) (n : Nat)
    (s : VmState) (hi : Inv s) (hg : s.guards = []) : ScheduleIndependent p n s :=
  scheduleIndependent_of_run_sim p n s hi (fun h hg => run_sim p hstep hnat n h hg) hg

/-- **unconditional for programs over the simple fragment** -/
theorem schedule_independence_simple (p : Prog) (hp : SimpleProg p) (n : Nat) (s : VmState)
    (hi : Inv s) (hg : s.guards = []) : ScheduleIndependent p n s :=
  scheduleIndependent_of_run_sim p n s hi
    (fun h hg => run_sim_any p (stepSimAny_simple p hp) n h hg) hg

/-- in particular from every state the host can reach -/
theorem reachable_guards {c : Config} {s : VmState} (h : Reachable c s) : s.guards = [] := by
  induction h with
  | fresh => rfl
  | @run s0 p n _ ih =>
    unfold Vm.run
    split
    · exact ih
    · dsimp only
      split <;> exact ih
  | clear _ _ => rfl
  | sched _ _ _ ih => exact ih

theorem schedule_independence_simple_reachable (p : Prog) (hp : SimpleProg p) (n : Nat)
    {c : Config} {s : VmState} (h : Reachable c s) : ScheduleIndependent p n s :=
  schedule_independence_simple p hp n s (reachable_inv h).1 (reachable_guards h)

/-- the handles of the host functions that iterate over a table while calling back into the
    script (they keep the entries of the table as they were when the iteration started) -/
def iterHandles : List UInt32 := [hName "__min", hName "__max", hName "__sort"]

/-- the program cannot name these host functions: not as a `CallNative` operand, not through a
    string of its data section, not through a function value that is already in the heap -/
def NoIterNatives (p : Prog) (s : VmState) : Prop :=
  (∀ i, UInt32.ofNat (rdU32 p.bytecode i) ∉ iterHandles) ∧
  (∀ i name, readStr p.data i = some name → Hash.handleFromBytes name ∉ iterHandles) ∧
  (∀ a h, s.heap.get a = some (.native h) → h ∉ iterHandles)

/-- at every instruction boundary of the run (the prefixes of the run by fuel, under any
    schedule), no call frame starts above the stack height and no open upvalue points above it —
    so upvalues never read stale slots (true for compiler output; `staleProg` violates the second
    part).  The first part was needed for the old `clear_until`, with which `ClearStack` / `Return`
    moved the stack pointer upwards over stale slots; it is kept (it is harmless). -/
def StackSafeRun (p : Prog) (n : Nat) (s : VmState) : Prop :=
  ∀ (sch : Sched) (gas : Nat),
    let s' := (exec p gas (.loop 0) (started n { s with sched := sch })).1
    (∀ f ∈ s'.frames, f.stackOffset ≤ s'.stack.count) ∧
    (∀ a i, s'.heap.get a = some (.upvalue (.stack i)) → i < s'.stack.count)

/-- the instruction at `src` does not read or expose a stale stack slot in state `s` -/
def StepOk (p : Prog) (src : Nat) (s : VmState) : Prop :=
  ((p.bytecode.getD src 0 = Compiler.op.clearStack ∨ p.bytecode.getD src 0 = Compiler.op.ret) →
    ∀ f, s.frames.getLast? = some f → f.stackOffset ≤ s.stack.count) ∧
  (∀ a i, s.heap.get a = some (.upvalue (.stack i)) → i < s.stack.count)

/-- **The simulation step at full strength — not proved** (proved for the fragment:
    `step_obsEq_partial`). For every program, related callbacks and host functions that respect
    the relation: an instruction that does not touch stale stack slots maps `SchedEq` states to
    `SchedEq` states with equal results. Missing: the instructions outside `simpleOps`; those that
    use `ownD` need fuel-independence of `own` (see below). -/
def step_obsEq_Full : Prop :=
  ∀ (p : Prog) (re₁ re₂ : Reenter), ReSim re₁ re₂ →
    (∀ (hd : UInt32) (s t : VmState), SchedEq s t →
      ResEq ((callNative re₁ hd).go s) ((callNative re₂ hd).go t)) →
    ∀ (src : Nat), src < p.bytecode.size → ∀ (s t : VmState), SchedEq s t → StepOk p src s →
      ResEq ((step p re₁ src).go s) ((step p re₂ src).go t)

/-- **the simulation step for the fragment**: for a program over `simpleOps`, any two callbacks,
    any instruction address and `SchedEq` (in particular `ObsEq`) states — possibly under
    different forcing schedules — the instruction returns the same next address / exit flag or
    raises the same error, and the final states are `SchedEq` (in particular `ObsEq`) again -/
theorem step_obsEq_partial (p : Prog) (hp : SimpleProg p) (re₁ re₂ : Reenter) (src : Nat)
    (hsrc : src < p.bytecode.size) {s₁ s₂ : VmState} (h : SchedEq s₁ s₂) :
    ((step p re₂ src).run.run s₂).1 = ((step p re₁ src).run.run s₁).1 ∧
    SchedEq ((step p re₁ src).run.run s₁).2 ((step p re₂ src).run.run s₂).2 ∧
    ObsEq ((step p re₁ src).run.run s₁).2 ((step p re₂ src).run.run s₂).2 :=
  have h := stepSimAny_simple p hp re₁ re₂ src hsrc s₁ s₂ h
  ⟨h.1, h.2, h.2.obsEq⟩

/-- **The corrected full statement — not proved.** Missing: `StepSim p` for the instructions
    outside `simpleOps` and `NatSim` for the host functions, under the two side conditions that
    exclude the ways in which the model (like the Rust) lets an unrooted reference come back:
    (a) moving the stack pointer upwards over stale slots (`StackSafeRun`), (b) a callback that
    shrinks the table a host function is iterating over (`NoIterNatives` excludes these host
    functions altogether). The instructions that compare or hash deep values (`ownD`: arithmetic,
    comparisons, truthiness, table keys) additionally need that `own` does not depend on its fuel
    once the fuel exceeds the number of live objects (the fuel is `heap.objs.length + 1`, which
    counts garbage and therefore depends on the schedule). The lifting from instructions to runs
    (`schedule_independence_of_stepSim`), the allocation layer and the relational calculus
    (`Lemmas/SchedStep.lean`: `Agree`, `W2`) are in place. -/
def schedule_independence_Corrected_Full : Prop :=
  ∀ (p : Prog) (n : Nat) (s : VmState), Inv s → s.guards = [] → StackSafeRun p n s →
    NoIterNatives p s → ScheduleIndependent p n s

/-! ### non-vacuity -/

/-- `{} ; pop ; {} ; dup ; pop ; len ; exit` -/
def simpleProg : Prog :=
  { bytecode := #[31, 16, 31, 9, 16, 34, 10], data := #[], labels := [], varNames := [], trace := [] }

example : SimpleProg simpleProg := by
  intro i hi
  have : i < 7 := hi
  have h : ∀ j, j < 7 → simpleProg.bytecode.getD j 0 ∈ simpleOps := by decide
  exact h i this

example : ScheduleIndependent simpleProg 20 (VmState.fresh tight) :=
  schedule_independence_simple_reachable simpleProg (by
    intro i hi
    have h : ∀ j, j < 7 → simpleProg.bytecode.getD j 0 ∈ simpleOps := by decide
    exact h i hi) 20 (c := tight) .fresh

/-- under the tight limit the second table only fits because the first one is collected: the run
    succeeds under every schedule, with different numbers of collections -/
example : errName (run simpleProg 20 { VmState.fresh tight with sched := .every }) = none ∧
    errName (run simpleProg 20 { VmState.fresh tight with sched := .none }) = none ∧
    (run simpleProg 20 { VmState.fresh tight with sched := .none }).1.gcRuns = 3 ∧
    (run simpleProg 20 { VmState.fresh tight with sched := .every }).1.gcRuns = 4 ∧
    (run simpleProg 20 { VmState.fresh tight with sched := .every }).1.stack.contents = [.int 0] := by
  decide +kernel

end Cao.C05b
