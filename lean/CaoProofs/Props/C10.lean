import CaoProofs.Lemmas.WfFinal
import CaoProofs.Lemmas.HashInj
/-!
# C10 — structural validity of compiled programs

Every program the (model of the) compiler returns satisfies the conditions of the executable
checker `Bytecode.wfReason`, component by component.  See the summary at the end of the file for
what is proved, under which hypotheses, and what is missing.
-/
namespace Cao.C10
open Cao Cao.Compiler Cao.Compiler.Wf Cao.Bytecode

/-! ## from `compile` to the final compiler state -/

/-- the program `p` is the output for the final compiler state `s` of the unit `unit` -/
structure Out (unit : Array FunctionIr) (s : CState) (p : Program) : Prop where
  spec : UnitSpec unit s
  bc : p.bytecode = s.bytecode
  data : p.data = s.data
  labels : p.labels = resolveLog s.labels
  varIds : p.varIds = s.varIds
  varNames : p.varNames = s.varNames
  trace : p.trace = resolveLog s.trace

theorem compile_out {m std : Module} {limit : Nat} {p : Program} (h : compile m std limit = .ok p) :
    ∃ unit s, intoIrStream m std limit = .ok unit ∧ Out unit s p := by
  unfold compile at h
  split at h
  · cases h
  · rename_i unit hu
    split at h
    · cases h
    · rename_i s hs
      simp only [Except.ok.injEq] at h
      subst h
      exact ⟨unit, s, hu, compileUnit_spec hs, rfl, rfl, rfl, rfl, rfl, rfl⟩

/-- `(pos, o)` is an instruction of `p`: `pos` is reached by decoding from 0 and holds opcode `o` -/
def IsInstr (p : Program) (pos : Nat) (o : UInt8) : Prop :=
  Start p.bytecode pos ∧ pos < p.bytecode.size ∧ o = p.bytecode.getD pos 0

/-- `a` is the first byte of an instruction of `p` -/
def IsStartPos (p : Program) (a : Nat) : Prop := Start p.bytecode a ∧ a < p.bytecode.size

theorem Out.instr_ok {unit : Array FunctionIr} {s : CState} {p : Program} (h : Out unit s p) {pos : Nat}
    {o : UInt8} (hi : IsInstr p pos o) :
    ∃ n, Gen.spanOf o = some n ∧ pos + n ≤ p.bytecode.size ∧
      OperOK (fun _ => False) s pos o (opBytes p.bytecode pos (n - 1)) := by
  obtain ⟨h1, h2, h3⟩ := hi
  rw [h.bc] at h1 h2 h3 ⊢
  obtain ⟨n, hn, hle, _⟩ := h1.start_lt h.spec.inv.tiled h2
  rw [h3]
  exact ⟨n, hn, hle, h.spec.inv.instr pos n h1 h2 hn⟩

/-! ## 1. the bytecode decodes front to back -/

/-- (1) decoding succeeds and lists exactly the instructions of the unique tiling -/
theorem compile_decodes {m std : Module} {limit : Nat} {p : Program} (h : compile m std limit = .ok p) :
    ∃ l, decodeAll p.bytecode (p.bytecode.size + 1) 0 [] = .ok l ∧
      (∀ pos o, (pos, o) ∈ l ↔ IsInstr p pos o) ∧
      (∀ x, l.getLast? = some x → ∃ n, Gen.spanOf x.2 = some n ∧ x.1 + n = p.bytecode.size) := by
  obtain ⟨unit, s, _, out⟩ := compile_out h
  have ht : Tiled p.bytecode 0 p.bytecode.size := by rw [out.bc]; exact out.spec.inv.tiled
  obtain ⟨l, hl, hmem, hlast⟩ := decodeAll_of_tiled ht (p.bytecode.size + 1) [] (by omega)
  exact ⟨l, by simpa using hl, fun pos o => hmem (pos, o), hlast⟩

/-- the whole bytecode is a concatenation of table instructions -/
theorem compile_tiled {m std : Module} {limit : Nat} {p : Program} (h : compile m std limit = .ok p) :
    Tiled p.bytecode 0 p.bytecode.size := by
  obtain ⟨unit, s, _, out⟩ := compile_out h
  rw [out.bc]; exact out.spec.inv.tiled

/-! ## 2. the last instruction is `Exit` -/

theorem Out.last_exit {unit : Array FunctionIr} {s : CState} {p : Program} (h : Out unit s p) :
    IsInstr p (p.bytecode.size - 1) op.exit := by
  obtain ⟨sB, iB, e⟩ := h.spec.before
  have hb : p.bytecode = sB.bytecode ++ [op.exit].toArray := by rw [h.bc, e]; rfl
  have hsz : p.bytecode.size = sB.bytecode.size + 1 := by rw [hb]; simp
  refine ⟨?_, by omega, ?_⟩
  · rw [hsz, Nat.add_sub_cancel]
    exact iB.tiled.congr fun i _ hi => by rw [hb]; exact getD_append_left hi
  · rw [hsz, Nat.add_sub_cancel, hb, getD_append_right (Nat.le_refl _), Nat.sub_self]; rfl

/-- (2) the last decoded instruction is `Exit` -/
theorem compile_ends_with_exit {m std : Module} {limit : Nat} {p : Program} {l : List (Nat × UInt8)}
    (h : compile m std limit = .ok p) (hl : decodeAll p.bytecode (p.bytecode.size + 1) 0 [] = .ok l) :
    l.getLast? = some (p.bytecode.size - 1, op.exit) := by
  obtain ⟨unit, s, _, out⟩ := compile_out h
  obtain ⟨l', hl', hmem, hlast⟩ := compile_decodes h
  rw [hl] at hl'; cases hl'
  obtain ⟨e1, e2, e3⟩ := out.last_exit
  have hin : (p.bytecode.size - 1, op.exit) ∈ l := (hmem _ _).2 ⟨e1, e2, e3⟩
  cases hg : l.getLast? with
  | none => rw [List.getLast?_eq_none_iff] at hg; rw [hg] at hin; cases hin
  | some x =>
    obtain ⟨n, hn, hx⟩ := hlast x hg
    obtain ⟨x1, x2⟩ := x
    obtain ⟨f1, f2, f3⟩ := (hmem x1 x2).1 (List.mem_of_getLast? hg)
    have hnp := span_pos hn
    simp only at hx hn
    have hpos : x1 = p.bytecode.size - 1 := by
      rcases Nat.lt_trichotomy x1 (p.bytecode.size - 1) with hlt | heq | hgt
      · have := f1.no_overlap e1 hlt (by rw [← f3]; exact hn)
        have hs1 : Gen.spanOf (p.bytecode.getD (p.bytecode.size - 1) 0) = some 1 := by rw [← e3]; decide
        obtain ⟨n', hn', hle', _⟩ := e1.start_lt (compile_tiled h) e2
        omega
      · exact heq
      · omega
    subst hpos
    rw [f3, ← e3]

/-! ## 3./4. jumps and labels land on instruction starts -/

theorem Out.before_start {unit : Array FunctionIr} {s : CState} {p : Program} (h : Out unit s p) :
    ∃ sB, Inv (fun _ => False) sB ∧ p.bytecode = sB.bytecode ++ [op.exit].toArray ∧ s.labels = sB.labels ∧
      Grow sB s := by
  obtain ⟨sB, iB, e⟩ := h.spec.before
  refine ⟨sB, iB, by rw [h.bc, e]; rfl, by rw [e]; rfl, ?_⟩
  rw [e]
  exact ⟨by simp [afterInstr], fun i hi => getD_append_left hi, ⟨#[], by simp [afterInstr]⟩, fun _ h => h,
    fun t ht => by simp [afterInstr, ht], Nat.le_refl _, fun _ h => h⟩

/-- (3) every jump operand is the first byte of an instruction of the program -/
theorem compile_jumps_land {m std : Module} {limit : Nat} {p : Program} (h : compile m std limit = .ok p)
    (hsz : p.bytecode.size < 2 ^ 32) {pos : Nat} {o : UInt8} (hi : IsInstr p pos o)
    (hj : o = op.goto ∨ o = op.gotoIfTrue ∨ o = op.gotoIfFalse) :
    IsStartPos p (rdU32 p.bytecode (pos + 1)) := by
  obtain ⟨unit, s, _, out⟩ := compile_out h
  obtain ⟨sB, iB, hb, _, hg⟩ := out.before_start
  have hjo : isJump o = true := by
    rcases hj with rfl | rfl | rfl <;> decide
  have hszB : p.bytecode.size = sB.bytecode.size + 1 := by rw [hb]; simp
  obtain ⟨h1, h2, h3⟩ := hi
  have hpos : pos < sB.bytecode.size := by
    rcases Nat.lt_or_ge pos sB.bytecode.size with h | h
    · exact h
    · exfalso
      have : pos = sB.bytecode.size := by omega
      rw [this, hb, getD_append_right (Nat.le_refl _), Nat.sub_self] at h3
      have : o = op.exit := h3
      rw [this] at hjo
      exact absurd hjo (by decide)
  have hpre : ∀ i, i < sB.bytecode.size → p.bytecode.getD i 0 = sB.bytecode.getD i 0 := by
    intro i hi; rw [hb]; exact getD_append_left hi
  have h1B : Start sB.bytecode pos := h1.congr fun i _ hi => (hpre i (by omega)).symm
  obtain ⟨n, hn, hle, _⟩ := h1B.start_lt iB.tiled hpos
  rw [← hpre pos hpos, ← h3] at hn
  have hn5 := isJump_span hjo
  rw [hn] at hn5; cases hn5
  have hok := iB.instr pos 5 h1B hpos (by rw [← hpre pos hpos, ← h3]; exact hn)
  rw [← hpre pos hpos, ← h3] at hok
  rcases hok.jump hjo with hf | ⟨t, ht1, ht2, ht3⟩
  · exact hf.elim
  · have hrd : rdU32 p.bytecode (pos + 1) = t := by
      have := rdU32_opBytes p.bytecode pos 4 0 (by omega)
      rw [Nat.add_zero] at this
      rw [this, opBytes_congr (bc := sB.bytecode) (fun i h1 h2 => hpre i (by omega)), ht1, u32L_ofNat]
      exact Nat.mod_eq_of_lt (by omega)
    rw [hrd]
    exact ⟨ht2.congr fun i _ hi => hpre i (by omega), by omega⟩

/-- (4) every label lands on the first byte of an instruction of the program -/
theorem compile_labels_land {m std : Module} {limit : Nat} {p : Program} (h : compile m std limit = .ok p)
    {l : UInt32 × Nat} (hl : l ∈ p.labels) : IsStartPos p l.2 := by
  obtain ⟨unit, s, _, out⟩ := compile_out h
  obtain ⟨sB, iB, hb, hlab, hg⟩ := out.before_start
  rw [out.labels] at hl
  have hl' := resolveLog_subset _ l hl
  rw [hlab] at hl'
  obtain ⟨h1, h2⟩ := iB.labels l hl'
  refine ⟨h1.congr fun i _ hi => by rw [hb]; exact getD_append_left (by omega), ?_⟩
  rw [hb]; simp; omega

/-! ## 5. the source trace -/

/-- (5a) every trace key is the first byte of an instruction -/
theorem compile_trace_starts {m std : Module} {limit : Nat} {p : Program} (h : compile m std limit = .ok p)
    {t : Nat × Trace} (ht : t ∈ p.trace) : IsStartPos p t.1 := by
  obtain ⟨unit, s, _, out⟩ := compile_out h
  rw [out.trace] at ht
  have := out.spec.inv.trace t (resolveLog_subset _ t ht)
  rw [← out.bc] at this
  exact this

/-- (5b) every instruction other than the raw `Pop`/`CloseUpvalue` of `scope_end` has a trace entry -/
theorem compile_trace_complete {m std : Module} {limit : Nat} {p : Program} (h : compile m std limit = .ok p)
    {pos : Nat} {o : UInt8} (hi : IsInstr p pos o) (hn : needsTrace o = true) :
    ∃ t ∈ p.trace, t.1 = pos := by
  obtain ⟨unit, s, _, out⟩ := compile_out h
  obtain ⟨n, _, _, hok⟩ := out.instr_ok hi
  rw [out.trace]
  exact resolveLog_mem_key _ _ (hok.trace hn)


/-! ## 6. string operands -/

/-- the `u32` operand at offset `off` of the instruction at `pos`, read from its operand bytes -/
theorem rd_operand (bc : Array UInt8) (pos n off : Nat) (h : off + 4 ≤ n - 1) :
    rdU32 bc (pos + 1 + off) = u32L (opBytes bc pos (n - 1)) off := rdU32_opBytes bc pos (n - 1) off h

/-- (6) every `StringLiteral` / `NativeFunctionPointer` operand is the offset of a complete valid
length-prefixed UTF-8 string in the data section -/
theorem compile_strings_valid {m std : Module} {limit : Nat} {p : Program} (h : compile m std limit = .ok p)
    (hd : p.data.size < 2 ^ 32) {pos : Nat} {o : UInt8} (hi : IsInstr p pos o)
    (ho : o = op.stringLiteral ∨ o = op.nativeFunctionPointer) :
    validStr p.data (rdU32 p.bytecode (pos + 1)) = true := by
  obtain ⟨unit, s, _, out⟩ := compile_out h
  obtain ⟨n, hn, _, hok⟩ := out.instr_ok hi
  have hso : isStr o = true := by rcases ho with rfl | rfl <;> decide
  have hn5 : n = 5 := by
    rcases ho with rfl | rfl
    · have : Gen.spanOf op.stringLiteral = some 5 := by decide
      rw [this] at hn; cases hn; rfl
    · have : Gen.spanOf op.nativeFunctionPointer = some 5 := by decide
      rw [this] at hn; cases hn; rfl
  subst hn5
  obtain ⟨off, h1, h2⟩ := hok.str hso
  rw [← out.data] at h2
  have hoff : off < 2 ^ 32 := by
    obtain ⟨str, pre, post, e1, e2⟩ := h2
    have : p.data.size = (pre ++ (le32 (UInt32.ofNat str.toUTF8.toList.length) ++ str.toUTF8.toList) ++ post).length := by
      rw [← e1, Array.length_toList]
    simp only [List.length_append] at this
    omega
  have hrd : rdU32 p.bytecode (pos + 1) = off := by
    have := rd_operand p.bytecode pos 5 0 (by omega)
    rw [Nat.add_zero] at this
    rw [this, h1, u32L_ofNat]
    exact Nat.mod_eq_of_lt hoff
  rw [hrd]
  exact validStr_of_StrAt h2 hd

/-! ## 7. global variables -/

/-- (7a) ids are `0 … n-1` in order, handles are distinct, and every id has a name keyed by its hash -/
theorem compile_globals_dense {m std : Module} {limit : Nat} {p : Program} (h : compile m std limit = .ok p) :
    p.varIds.map (·.2) = List.range p.varIds.length ∧
    (p.varIds.map (·.1)).Pairwise (· ≠ ·) ∧
    ∀ i, i < p.varIds.length → ∃ n ∈ p.varNames, n.1 = Hash.handleFromU32 (UInt32.ofNat i) := by
  obtain ⟨unit, s, _, out⟩ := compile_out h
  have ha := out.spec.inv.aux
  have hlen : s.varIds.length = s.nextVar := ha.gaux.len
  rw [out.varIds, out.varNames, hlen]
  exact ⟨ha.ids, ha.nodup, ha.names⟩

/-- (7b) names and ids correspond one to one, provided the id hash does not collide below the number
of globals (see `idHash_collision` for why the hypothesis is needed in general) -/
theorem compile_names_count {m std : Module} {limit : Nat} {p : Program} (h : compile m std limit = .ok p)
    (hinj : HInj p.varIds.length) :
    p.varNames.map (·.1) = (List.range p.varIds.length).map idHash ∧ p.varNames.length = p.varIds.length := by
  obtain ⟨unit, s, _, out⟩ := compile_out h
  have ha := out.spec.inv.aux
  have hlen : s.varIds.length = s.nextVar := ha.gaux.len
  rw [out.varIds, hlen] at hinj
  have := ha.namesEq hinj
  rw [out.varIds, out.varNames, hlen]
  refine ⟨this, ?_⟩
  have := congrArg List.length this
  simpa using this

/-- every global costs at least one instruction: there are at most `bytecode.size` globals -/
theorem compile_globals_bound {m std : Module} {limit : Nat} {p : Program} (h : compile m std limit = .ok p) :
    p.varIds.length ≤ p.bytecode.size := by
  obtain ⟨unit, s, _, out⟩ := compile_out h
  have ha := out.spec.inv.aux
  rw [out.varIds, out.bc, ha.gaux.len]
  exact ha.nv

/-- (7b') names and ids correspond one to one: the name keys are exactly the hashes of `0 … n-1`, in
order (`Handle::from_u32` is injective below `2^32 - 1`, see `idHash_inj`) -/
theorem compile_names_one_to_one {m std : Module} {limit : Nat} {p : Program}
    (h : compile m std limit = .ok p) (hsz : p.bytecode.size < 2 ^ 31) :
    p.varNames.map (·.1) = (List.range p.varIds.length).map idHash ∧ p.varNames.length = p.varIds.length :=
  compile_names_count h (idHash_inj (by have := compile_globals_bound h; omega))

/-- (7c) every global-variable operand is a declared id -/
theorem compile_global_operands {m std : Module} {limit : Nat} {p : Program} (h : compile m std limit = .ok p)
    {pos : Nat} {o : UInt8} (hi : IsInstr p pos o) (ho : o = op.setGlobalVar ∨ o = op.readGlobalVar) :
    rdU32 p.bytecode (pos + 1) < p.varIds.length := by
  obtain ⟨unit, s, _, out⟩ := compile_out h
  obtain ⟨n, hn, _, hok⟩ := out.instr_ok hi
  have hso : isGlob o = true := by rcases ho with rfl | rfl <;> decide
  have hn5 : n = 5 := by
    rcases ho with rfl | rfl
    · have : Gen.spanOf op.setGlobalVar = some 5 := by decide
      rw [this] at hn; cases hn; rfl
    · have : Gen.spanOf op.readGlobalVar = some 5 := by decide
      rw [this] at hn; cases hn; rfl
  subst hn5
  obtain ⟨x, h1, h2⟩ := hok.glob hso
  have := rd_operand p.bytecode pos 5 0 (by omega)
  rw [Nat.add_zero] at this
  rw [this, h2, u32L_ofNat, out.varIds]
  exact Nat.lt_of_le_of_lt (Nat.mod_le _ _) h1

/-! ## 8. local, for-each and upvalue slots (ranges only) -/

/-- (8a) local-variable and upvalue indices are below the declared limit of 255 slots -/
theorem compile_slot_ranges {m std : Module} {limit : Nat} {p : Program} (h : compile m std limit = .ok p)
    {pos : Nat} {o : UInt8} (hi : IsInstr p pos o)
    (ho : o = op.setLocalVar ∨ o = op.readLocalVar ∨ o = op.setUpvalue ∨ o = op.readUpvalue) :
    rdU32 p.bytecode (pos + 1) < maxSlots := by
  obtain ⟨unit, s, _, out⟩ := compile_out h
  obtain ⟨n, hn, _, hok⟩ := out.instr_ok hi
  have hso : isSlot o = true := by rcases ho with rfl | rfl | rfl | rfl <;> decide
  have hn5 : n = 5 := by
    have : Gen.spanOf o = some 5 := by rcases ho with rfl | rfl | rfl | rfl <;> decide
    rw [this] at hn; cases hn; rfl
  subst hn5
  obtain ⟨x, h1, h2⟩ := hok.slot hso
  have := rd_operand p.bytecode pos 5 0 (by omega)
  rw [Nat.add_zero] at this
  rw [this, h2, u32L_ofNat]
  exact Nat.lt_of_le_of_lt (Nat.mod_le _ _) h1

/-- (8b) the five slots of `BeginForEach` / `ForEach` are below the limit -/
theorem compile_foreach_slots {m std : Module} {limit : Nat} {p : Program} (h : compile m std limit = .ok p)
    {pos : Nat} {o : UInt8} (hi : IsInstr p pos o) (ho : o = op.beginForEach ∨ o = op.forEach)
    {i : Nat} (hi5 : i < 5) : rdU32 p.bytecode (pos + 1 + 4 * i) < maxSlots := by
  obtain ⟨unit, s, _, out⟩ := compile_out h
  obtain ⟨n, hn, _, hok⟩ := out.instr_ok hi
  have hso : isEach o = true := by rcases ho with rfl | rfl <;> decide
  have hn5 : n = 21 := by
    have : Gen.spanOf o = some 21 := by rcases ho with rfl | rfl <;> decide
    rw [this] at hn; cases hn; rfl
  subst hn5
  obtain ⟨a, b, c, d, e, ha, hb, hc, hd, he, hbs⟩ := hok.each hso
  rw [rd_operand p.bytecode pos 21 (4 * i) (by omega), hbs]
  have hm : ∀ x, x < 255 → x % 2 ^ 32 < maxSlots := fun x hx => Nat.lt_of_le_of_lt (Nat.mod_le _ _) hx
  have la := le32_length (UInt32.ofNat a)
  have lb := le32_length (UInt32.ofNat b)
  have lc := le32_length (UInt32.ofNat c)
  have ld := le32_length (UInt32.ofNat d)
  rcases (by omega : i = 0 ∨ i = 1 ∨ i = 2 ∨ i = 3 ∨ i = 4) with rfl | rfl | rfl | rfl | rfl
  · rw [u32L_append_left _ _ _ (by omega), u32L_ofNat]; exact hm a ha
  · rw [u32L_append_right _ _ _ (by omega), la, u32L_append_left _ _ _ (by omega), u32L_ofNat]
    exact hm b hb
  · rw [u32L_append_right _ _ _ (by omega), la, u32L_append_right _ _ _ (by omega), lb,
      u32L_append_left _ _ _ (by omega), u32L_ofNat]
    exact hm c hc
  · rw [u32L_append_right _ _ _ (by omega), la, u32L_append_right _ _ _ (by omega), lb,
      u32L_append_right _ _ _ (by omega), lc, u32L_append_left _ _ _ (by omega), u32L_ofNat]
    exact hm d hd
  · rw [u32L_append_right _ _ _ (by omega), la, u32L_append_right _ _ _ (by omega), lb,
      u32L_append_right _ _ _ (by omega), lc, u32L_append_right _ _ _ (by omega), ld,
      u32L_ofNat]
    exact hm e he

/-- (8c) the "is local" flag of `RegisterUpvalue` is a boolean -/
theorem compile_register_flag {m std : Module} {limit : Nat} {p : Program} (h : compile m std limit = .ok p)
    {pos : Nat} (hi : IsInstr p pos op.registerUpvalue) : (p.bytecode.getD (pos + 1 + 1) 0).toNat ≤ 1 := by
  obtain ⟨unit, s, _, out⟩ := compile_out h
  obtain ⟨n, hn, _, hok⟩ := out.instr_ok hi
  have : Gen.spanOf op.registerUpvalue = some 3 := by decide
  rw [this] at hn; cases hn
  obtain ⟨i, f, hf, hbs⟩ := hok.reg (by decide)
  rw [← opBytes_getD p.bytecode pos 2 1 (by omega), hbs]
  exact hf


/-! ## function pointers and closures -/

theorem handle_operand {bc : Array UInt8} {pos : Nat} {h : UInt32}
    (hb : (opBytes bc pos (9 - 1)).take 4 = le32 h) : UInt32.ofNat (rdU32 bc (pos + 1)) = h := by
  have := rd_operand bc pos 9 0 (by omega)
  rw [Nat.add_zero] at this
  rw [this, ← u32L_take _ (by rw [opBytes_length]; omega), hb, u32L_le32, UInt32.ofNat_toNat]

/-- every `Closure` handle operand has a label (landing on an instruction start by
`compile_labels_land`) -/
theorem compile_closure_labels {m std : Module} {limit : Nat} {p : Program} (h : compile m std limit = .ok p)
    {pos : Nat} (hi : IsInstr p pos op.closure) :
    ∃ l ∈ p.labels, l.1 = UInt32.ofNat (rdU32 p.bytecode (pos + 1)) := by
  obtain ⟨unit, s, _, out⟩ := compile_out h
  obtain ⟨n, hn, _, hok⟩ := out.instr_ok hi
  have : Gen.spanOf op.closure = some 9 := by decide
  rw [this] at hn; cases hn
  obtain ⟨l, hl, hb⟩ := hok.clos (by decide)
  rw [handle_operand hb, out.labels]
  exact resolveLog_mem_key _ _ ⟨l, hl, rfl⟩

/-- every `FunctionPointer` handle operand is the handle of a function of the compilation unit, and it
has a label unless it is the handle of the entry function `unit[0]` (`main`), which `compile` never
labels (finding: a program that refers to `main` compiles to a function pointer without label) -/
theorem compile_function_pointers {m std : Module} {limit : Nat} {p : Program}
    (h : compile m std limit = .ok p) {pos : Nat} (hi : IsInstr p pos op.functionPointer) :
    ∃ unit, intoIrStream m std limit = .ok unit ∧
      (∃ f ∈ unit.toList, f.handle = UInt32.ofNat (rdU32 p.bytecode (pos + 1))) ∧
      (UInt32.ofNat (rdU32 p.bytecode (pos + 1)) ≠ unit[0]!.handle →
        ∃ l ∈ p.labels, l.1 = UInt32.ofNat (rdU32 p.bytecode (pos + 1))) := by
  obtain ⟨unit, s, hu, out⟩ := compile_out h
  obtain ⟨n, hn, _, hok⟩ := out.instr_ok hi
  have : Gen.spanOf op.functionPointer = some 9 := by decide
  rw [this] at hn; cases hn
  obtain ⟨e, he, hb⟩ := hok.fnp (by decide)
  rw [out.spec.jt] at he
  obtain ⟨f, hf, rfl⟩ := List.mem_map.1 he
  rw [handle_operand hb]
  refine ⟨unit, hu, ⟨f, hf, rfl⟩, ?_⟩
  intro hne
  simp only at hne
  have hd : f ∈ unit.toList.drop 1 := by
    obtain ⟨l⟩ := unit
    cases l with
    | nil => cases hf
    | cons x xs =>
      simp only [List.drop_succ_cons, List.drop_zero]
      rcases List.mem_cons.1 hf with rfl | hf'
      · exact absurd rfl hne
      · exact hf'
  obtain ⟨l, hl, e⟩ := out.spec.fnLabels f hd
  rw [out.labels]
  exact resolveLog_mem_key _ _ ⟨l, hl, e⟩

/-- no `FunctionPointer` operand is the handle of the entry function -/
def NoEntryRef (m std : Module) (limit : Nat) (p : Program) : Prop :=
  ∀ unit, intoIrStream m std limit = .ok unit → ∀ pos, IsInstr p pos op.functionPointer →
    UInt32.ofNat (rdU32 p.bytecode (pos + 1)) ≠ unit[0]!.handle

/-- the result of the checker on the output of `compile` (`none` also if compilation fails) -/
def wfOf (m : Module) : Option String :=
  match compile m (Module.mk [] [] []) with
  | .ok p => wfReason p
  | .error _ => none

/-- **counter-example to the unconditional `compile_wf`**: a `main` that calls itself compiles, but the
emitted function pointer has no label (the compiler never labels the entry function). -/
theorem entry_ref_not_wf :
    wfOf (Module.mk [] [("main", ⟨[], [.call "main" []]⟩)] []) = some "function handle at 0 has no label" := by
  decide


/-! ## assembling the checker's verdict -/

/-- the closure regions `[label h, L)` the checker computes (copy of the local definition in
`Bytecode.wfReason`) -/
def regionsOf (p : Program) (instrs : List (Nat × UInt8)) : List (Nat × Nat × Nat) :=
  instrs.filterMap (fun (pos, o) =>
    if o == op.closure then
      let h := UInt32.ofNat (rdU32 p.bytecode (pos + 1))
      match p.labels.find? (fun l => l.1 == h) with
      | some (_, start) => some (start, pos, wfReason.count p 256 (pos + 9) 0)
      | none => none
    else none)

def enclosingOf (p : Program) (instrs : List (Nat × UInt8)) (pos : Nat) : Option (Nat × Nat × Nat) :=
  ((regionsOf p instrs).filter (fun r => r.1 ≤ pos && pos < r.2.1)).foldl
    (fun (best : Option (Nat × Nat × Nat)) r =>
      match best with
      | none => some r
      | some b => if r.2.1 - r.1 < b.2.1 - b.1 then some r else some b) none

/-- the upvalue-count check of `Bytecode.wfReason` (copy of its local `checkUp`) -/
def checkUpOf (p : Program) (instrs : List (Nat × UInt8)) : Nat × UInt8 → Option String := fun (pos, o) =>
  if o == op.setUpvalue || o == op.readUpvalue then
    match enclosingOf p instrs pos with
    | none => some s!"upvalue access at {pos} outside of any closure body"
    | some (_, _, n) =>
      if rdU32 p.bytecode (pos + 1) < n then none
      else some s!"upvalue index at {pos} is not below the {n} upvalue(s) its closure registers"
  else if o == op.registerUpvalue && p.bytecode.getD (pos + 2) 0 == 0 then
    match enclosingOf p instrs pos with
    | none => some s!"non-local capture at {pos} outside of any closure body"
    | some (_, _, n) =>
      if (p.bytecode.getD (pos + 1) 0).toNat < n then none
      else some s!"non-local capture at {pos} refers to an upvalue its enclosing closure does not have"
  else none

/-- the one component of the checker that is **not** proved here (item 8, second half): upvalue
indices are below the number of `RegisterUpvalue` pairs of their closure -/
def UpvaluesChecked (p : Program) : Prop :=
  ∀ instrs, decodeAll p.bytecode (p.bytecode.size + 1) 0 [] = .ok instrs →
    instrs.findSome? (checkUpOf p instrs) = none

theorem contains_start {p : Program} {l : List (Nat × UInt8)}
    (hmem : ∀ pos o, (pos, o) ∈ l ↔ IsInstr p pos o) (a : Nat) :
    (l.map (·.1)).contains a = true ↔ IsStartPos p a := by
  rw [List.contains_iff_mem, List.mem_map]
  constructor
  · rintro ⟨⟨pos, o⟩, hx, rfl⟩
    have := (hmem pos o).1 hx
    exact ⟨this.1, this.2.1⟩
  · rintro ⟨h1, h2⟩
    exact ⟨(a, p.bytecode.getD a 0), (hmem _ _).2 ⟨h1, h2, rfl⟩, rfl⟩

/-- **WF, all components but the upvalue counts.**  Hypotheses: sizes fit the 32-bit operands; no
function pointer refers to the entry function (`entry_ref_not_wf`); and the upvalue-count check (not
proved) passes. -/
theorem compile_wf_partial {m std : Module} {limit : Nat} {p : Program} (h : compile m std limit = .ok p)
    (hsz : p.bytecode.size < 2 ^ 31) (hd : p.data.size < 2 ^ 32) (hentry : NoEntryRef m std limit p)
    (hup : UpvaluesChecked p) : Bytecode.WF p := by
  obtain ⟨l, hl, hmem, _⟩ := compile_decodes h
  have hlast := compile_ends_with_exit h hl
  have hst := contains_start hmem
  have hup' := hup l hl
  have hsz32 : p.bytecode.size < 2 ^ 32 := by omega
  obtain ⟨g1, g2, g3⟩ := compile_globals_dense h
  obtain ⟨g4, g5⟩ := compile_names_one_to_one h hsz
  unfold WF wfReason
  rw [hl]
  dsimp only
  rw [hlast]
  dsimp only
  rw [if_neg (by decide)]
  split
  · -- operand checks
    rename_i r hr
    exfalso
    obtain ⟨⟨pos, o⟩, hx, hc⟩ := List.exists_of_findSome?_eq_some hr
    have hi := (hmem pos o).1 hx
    dsimp only at hc
    split at hc
    · rename_i hj
      simp only [Bool.or_eq_true, beq_iff_eq] at hj
      split at hc
      · cases hc
      · rename_i hns
        exact hns ((hst _).2 (compile_jumps_land h hsz32 hi (by
          rcases hj with (hj | hj) | hj
          · exact .inl hj
          · exact .inr (.inl hj)
          · exact .inr (.inr hj))))
    · split at hc
      · rename_i hj
        simp only [Bool.or_eq_true, beq_iff_eq] at hj
        split at hc
        · cases hc
        · rename_i hns
          exact hns (compile_strings_valid h hd hi hj)
      · split at hc
        · rename_i hj
          simp only [Bool.or_eq_true, beq_iff_eq] at hj
          split at hc
          · cases hc
          · rename_i hns
            apply hns
            rcases hj with rfl | rfl
            · obtain ⟨unit, hu, _, hlab⟩ := compile_function_pointers h hi
              obtain ⟨lb, hlb, e⟩ := hlab (hentry unit hu pos hi)
              exact List.any_eq_true.2 ⟨lb, hlb, by simp [e]⟩
            · obtain ⟨lb, hlb, e⟩ := compile_closure_labels h hi
              exact List.any_eq_true.2 ⟨lb, hlb, by simp [e]⟩
        · split at hc
          · rename_i hj
            simp only [Bool.or_eq_true, beq_iff_eq] at hj
            split at hc
            · cases hc
            · rename_i hns
              exact hns (compile_slot_ranges h hi (by
                rcases hj with ((hj | hj) | hj) | hj
                · exact .inl hj
                · exact .inr (.inl hj)
                · exact .inr (.inr (.inl hj))
                · exact .inr (.inr (.inr hj))))
          · split at hc
            · rename_i hj
              simp only [Bool.or_eq_true, beq_iff_eq] at hj
              split at hc
              · cases hc
              · rename_i hns
                exact hns (compile_global_operands h hi hj)
            · split at hc
              · rename_i hj
                simp only [Bool.or_eq_true, beq_iff_eq] at hj
                split at hc
                · cases hc
                · rename_i hns
                  apply hns
                  exact List.all_eq_true.2 fun i hi5 =>
                    decide_eq_true (compile_foreach_slots h hi hj (List.mem_range.1 hi5))
              · split at hc
                · rename_i hj
                  simp only [beq_iff_eq] at hj
                  subst hj
                  split at hc
                  · cases hc
                  · rename_i hns
                    exact hns (compile_register_flag h hi)
                · cases hc
  · split
    · rename_i r hr
      exact absurd (hup'.symm.trans hr) (by simp)
    · split
      · -- labels
        rename_i hh pos hf
        exfalso
        have hm := List.mem_of_find?_eq_some hf
        have hp := List.find?_some hf
        simp only [Bool.not_eq_true', ] at hp
        have := (hst pos).2 (compile_labels_land h hm)
        rw [this] at hp
        cases hp
      · split
        · -- trace keys
          rename_i pos tr hf
          exfalso
          have hm := List.mem_of_find?_eq_some hf
          have hp := List.find?_some hf
          simp only [Bool.not_eq_true'] at hp
          have := (hst pos).2 (compile_trace_starts h hm)
          rw [this] at hp
          cases hp
        · split
          · -- trace completeness
            rename_i pos o hf
            exfalso
            have hm := List.mem_of_find?_eq_some hf
            have hp := List.find?_some hf
            simp only [Bool.and_eq_true, Bool.not_eq_true'] at hp
            obtain ⟨t, ht, e⟩ := compile_trace_complete h ((hmem pos o).1 hm) hp.1
            have : p.trace.any (fun t => t.1 == pos) = true := List.any_eq_true.2 ⟨t, ht, by simp [e]⟩
            rw [this] at hp
            cases hp.2
          · -- globals
            have c1 : ((List.range p.varIds.length).all fun i => (p.varIds.map (·.2)).contains i) = true := by
              rw [List.all_eq_true]
              intro i hi
              rw [g1, List.contains_iff_mem]
              exact hi
            have c2 : ((p.varIds.map (·.2)).length == p.varIds.length) = true := by simp
            have c3 : wfReason.dupH (p.varIds.map (·.1)) = false := dupH_false_of_pairwise _ g2
            have c4 : ((List.range p.varIds.length).all fun i =>
                p.varNames.any fun n => n.1 == Hash.handleFromU32 (UInt32.ofNat i)) = true := by
              rw [List.all_eq_true]
              intro i hi
              obtain ⟨n, hn, e⟩ := g3 i (List.mem_range.1 hi)
              exact List.any_eq_true.2 ⟨n, hn, by simp [e]⟩
            have c5 : (p.varNames.length != p.varIds.length) = false := by simp [g5]
            simp only [c1, c2, c3, c4, c5, Bool.not_true, Bool.false_eq_true, if_false]


/-! ## the full statement, and what is missing

`compile_wf_Full` is the property as literally stated.  It is **false** for the model (and, by the
same mechanism, for the Rust compiler): `entry_ref_not_wf`.  What is proved is
`compile_wf_partial`: `WF p` follows from `compile … = .ok p` under

* `p.bytecode.size < 2^31` (as in the statement) and `p.data.size < 2^32` (string offsets are emitted
  as `u32`; every literal adds ≥ 5 bytes of code but an unbounded number of data bytes, so the bound on
  the code does not bound the data),
* `NoEntryRef`: no `FunctionPointer` operand is the entry function's handle,
* `UpvaluesChecked p`: the checker's upvalue-count clause (`checkUp`), **not proved here** — the missing
  component (item 8, second half: upvalue indices are below the number of `RegisterUpvalue` pairs of
  the innermost enclosing closure region).  That clause looks closures up by label *handle*; it can
  only hold under a no-collision hypothesis on the 32-bit label handles (a later label with the same
  handle wins in `resolveLog`).

Everything else (decoding, final `Exit`, jump targets, labels, trace keys and completeness, string
records incl. UTF-8 validity, closure labels, slot ranges, for-each slots, `RegisterUpvalue` flags,
global ids dense / handles distinct / every id named / names and ids equal in number) is proved for
all modules, component by component (`compile_decodes`, `compile_ends_with_exit`, …).  -/

/-- the property as stated (false in general: `entry_ref_not_wf`) -/
def compile_wf_Full : Prop :=
  ∀ (m std : Module) (limit : Nat) (p : Program),
    compile m std limit = .ok p → p.bytecode.size < 2 ^ 31 → Bytecode.WF p

/-- the counter-example program is small and its checker verdict is a violation -/
theorem entry_ref_not_wf' :
    (match compile (Module.mk [] [("main", ⟨[], [.call "main" []]⟩)] []) (Module.mk [] [] []) with
     | .ok p => decide (p.bytecode.size < 2 ^ 31) && (wfReason p).isSome
     | .error _ => false) = true := by
  decide

/-- the property as stated does not hold -/
theorem not_compile_wf_Full : ¬ compile_wf_Full := by
  intro h
  have e := entry_ref_not_wf'
  split at e
  · rename_i p hp
    simp only [Bool.and_eq_true, decide_eq_true_eq] at e
    have hw : wfReason p = none := h _ _ _ p hp e.1
    rw [hw] at e
    exact absurd e.2 (by decide)
  · cases e

/-- the smallest program: `main = [ScalarNil]` compiles and is well-formed -/
def okWF (m : Module) : Bool :=
  match compile m (Module.mk [] [] []) with
  | .ok p => (wfReason p).isNone
  | .error _ => false

example : okWF (Module.mk [] [("main", ⟨[], [.scalarNil]⟩)] []) = true := by decide

end Cao.C10
