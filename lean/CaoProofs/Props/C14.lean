import CaoModel.Stack
/-!
# C14 — the value stack and the bounded stack are bounded LIFO stacks

Property theorems only. `VStack`/`BStack` (in `CaoModel/Stack.lean`) are the code-shaped
models tied to `value_stack.rs` / `bounded_stack.rs` by the `stack` / `bstack` correspondence
engines; here they are proved to refine a plain `List` specification for **every** capacity
and **every** operation sequence.
-/
namespace Cao.C14
open Cao

variable {α : Type} [Inhabited α]

/-! ## Specification: a `List` (bottom first) with a capacity -/

inductive Op (α : Type) where
  | push (v : α) | pop | popN (n : Nat) | popOff (o : Nat) | set (i : Nat) (v : α)
  | get (i : Nat) | last | peek (n : Nat) | clear | clearUntil (h : Nat) | contents | len

inductive Out (α : Type) where
  | unit | val (v : α) | vals (l : List α) | err (e : StackErr) | num (n : Nat)

/-- the value stack keeps one slot free: a push succeeds iff two slots are free -/
def specPush (cap : Nat) (l : List α) (v : α) : List α × Out α :=
  if l.length + 2 ≤ cap then (l ++ [v], .unit) else (l, .err .full)

def specPop (l : List α) : List α × α :=
  match l.getLast? with
  | some v => (l.dropLast, v)
  | none => (l, default)

/-- top first; missing values are `default` (nil) -/
def specPopN (l : List α) (n : Nat) : List α × List α :=
  (l.take (l.length - n), (l.reverse.take n) ++ List.replicate (n - l.length) default)

def specStep (cap : Nat) (l : List α) : Op α → List α × Out α
  | .push v => specPush cap l v
  | .pop => let (l', v) := specPop l; (l', .val v)
  | .popN n => let (l', vs) := specPopN l n; (l', .vals vs)
  | .popOff o => if l.length ≤ o then (l, .val default) else let (l', v) := specPop l; (l', .val v)
  | .set i v =>
      if i > l.length then (l, .err .outOfBounds)
      else if i = l.length then
        (if l.length + 2 ≤ cap then (l ++ [v], .val default) else (l, .err .full))
      else (l.set i v, .val (l.getD i default))
  | .get i => (l, .val (l.getD i default))
  | .last => (l, .val (l.getLast?.getD default))
  | .peek n => (l, .val (if l.length > n then l.getD (l.length - n - 1) default else default))
  | .clear => ([], .unit)
  | .clearUntil h => (l.take (min h l.length), .val (l.getLast?.getD default))
  | .contents => (l, .vals l)
  | .len => (l, .num l.length)

/-- The property's sentence only speaks about truncation to a height at or below the current
    one; the repaired `clear_until` only ever truncates (to `min h height`), so the refinement
    below holds for **every** `h` and no guard on the operation sequence is needed any more.
    (`l.take (min h l.length) = l.take h`: see `spec_clearUntil_eq_take`.) -/
theorem spec_clearUntil_eq_take (cap : Nat) (l : List α) (h : Nat) :
    (specStep cap l (.clearUntil h)).1 = l.take h := by
  simp only [specStep]
  by_cases hh : h ≤ l.length
  · rw [Nat.min_eq_left hh]
  · rw [Nat.min_eq_right (by omega), List.take_length, List.take_of_length_le (by omega)]

/-! ## The model's step function (composition of the functions of `CaoModel/Stack.lean`) -/

def modelStep (s : VStack α) : Op α → VStack α × Out α
  | .push v => match s.push v with
      | (s', .ok ()) => (s', .unit)
      | (s', .error e) => (s', .err e)
  | .pop => let (s', v) := s.pop; (s', .val v)
  | .popN n => let (s', vs) := s.popN n; (s', .vals vs)
  | .popOff o => let (s', v) := s.popWOffset o; (s', .val v)
  | .set i v => match s.set i v with
      | (s', .ok old) => (s', .val old)
      | (s', .error e) => (s', .err e)
  | .get i => (s, .val (s.get i))
  | .last => (s, .val s.last)
  | .peek n => (s, .val (s.peekLast n))
  | .clear => (s.clear, .unit)
  | .clearUntil h => let (s', v) := s.clearUntil h; (s', .val v)
  | .contents => (s, .vals s.contents)
  | .len => (s, .num s.count)

/-- abstraction: the live prefix of the backing array -/
def abs (s : VStack α) : List α := s.data.take s.count

/-- representation invariant: `count ≤ cap - 1` (in particular `cap ≥ 1`) -/
def Inv (s : VStack α) : Prop := s.count < s.data.length

/-! ## helper facts about `List` (local, so the file stands alone) -/

private theorem take_set_ge (l : List α) (i n : Nat) (v : α) (h : n ≤ i) :
    (l.set i v).take n = l.take n := by
  induction l generalizing i n with
  | nil => simp
  | cons x xs ih =>
    cases n with
    | zero => simp
    | succ n =>
      cases i with
      | zero => omega
      | succ i => simp [List.set, ih i n (by omega)]

private theorem take_succ_set (l : List α) (n : Nat) (v : α) (h : n < l.length) :
    (l.set n v).take (n + 1) = l.take n ++ [v] := by
  induction l generalizing n with
  | nil => simp at h
  | cons x xs ih =>
    cases n with
    | zero => simp
    | succ n => simp [List.set, ih n (by simpa using h)]

private theorem length_abs (s : VStack α) (h : Inv s) : (abs s).length = s.count := by
  unfold abs Inv at *; simp; omega

private theorem getD_take (l : List α) (n i : Nat) (h : i < n) :
    (l.take n).getD i default = l.getD i default := by
  simp [List.getD, List.getElem?_take, h]

private theorem getLast?_take (l : List α) (n : Nat) (h0 : 0 < n) (h : n ≤ l.length) :
    (l.take n).getLast? = some (l.getD (n - 1) default) := by
  rw [List.getLast?_eq_getElem?]
  have : (l.take n).length = n := by simp; omega
  rw [this, List.getElem?_take]
  simp [show n - 1 < n by omega, List.getD]
  have : n - 1 < l.length := by omega
  simp [List.getElem?_eq_getElem this]

private theorem dropLast_take (l : List α) (n : Nat) (h : n ≤ l.length) (h0 : 0 < n) :
    (l.take n).dropLast = l.take (n - 1) := by
  rw [List.dropLast_eq_take]
  have : (l.take n).length = n := by simp; omega
  rw [this, List.take_take]
  congr 1; omega

private theorem push_ok (s : VStack α) (v : α) (h : s.count + 1 < s.data.length) :
    s.push v = ({ count := s.count + 1, data := s.data.set s.count v }, .ok ()) := by
  simp [VStack.push, h]

private theorem push_full (s : VStack α) (v : α) (h : ¬ s.count + 1 < s.data.length) :
    s.push v = (s, .error .full) := by
  simp [VStack.push, h]

/-! ## one-step refinement -/

theorem step_refines (s : VStack α) (op : Op α) (hI : Inv s) :
    (modelStep s op).2 = (specStep s.data.length (abs s) op).2 ∧
    abs (modelStep s op).1 = (specStep s.data.length (abs s) op).1 ∧
    Inv (modelStep s op).1 ∧ (modelStep s op).1.data.length = s.data.length := by
  have hlen := length_abs s hI
  have hI' : s.count < s.data.length := hI
  cases op with
  | push v =>
    by_cases h : s.count + 1 < s.data.length
    · have h2 : s.count + 2 ≤ s.data.length := by omega
      simp only [modelStep, specStep, specPush, push_ok s v h, hlen, h2, if_true]
      refine ⟨trivial, ?_, ?_, ?_⟩
      · exact take_succ_set _ _ _ (by omega)
      · simp only [Inv, List.length_set]; omega
      · simp
    · have h2 : ¬ (s.count + 2 ≤ s.data.length) := by omega
      simp only [modelStep, specStep, specPush, push_full s v h, hlen, h2, if_false]
      exact ⟨trivial, trivial, hI, trivial⟩
  | pop =>
    by_cases h : s.count = 0
    · have ha : abs s = [] := by simp [abs, h]
      refine ⟨?_, ?_, ?_, ?_⟩ <;>
        simp [modelStep, specStep, specPop, VStack.pop, h, ha, hI]
    · have hgl : (abs s).getLast? = some (s.data.getD (s.count - 1) default) :=
        getLast?_take s.data s.count (by omega) (by omega)
      refine ⟨?_, ?_, ?_, ?_⟩
      · simp [modelStep, specStep, specPop, VStack.pop, h, hgl]
      · simp only [modelStep, specStep, specPop, VStack.pop, h, hgl, if_false]
        simp only [abs]
        rw [take_set_ge _ _ _ _ (Nat.le_refl _), dropLast_take _ _ (by omega) (by omega)]
      · simp only [modelStep, VStack.pop, h, if_false, Inv, List.length_set]; omega
      · simp [modelStep, VStack.pop, h]
  | popN n =>
    refine ⟨?_, ?_, ?_, ?_⟩
    · simp only [modelStep, specStep, specPopN, VStack.popN, hlen]
      congr 1
      congr 1
      · apply List.ext_getElem
        · simp [abs]; omega
        · intro i h1 h2
          simp only [List.length_map, List.length_range] at h1
          simp only [List.getElem_map, List.getElem_range]
          rw [List.getElem_take, List.getElem_reverse]
          simp only [abs, List.getElem_take, List.length_take]
          have hmin : min s.count s.data.length = s.count := by omega
          simp only [hmin]
          have hlt : s.count - 1 - i < s.data.length := by omega
          simp [List.getD, List.getElem?_eq_getElem, hlt,
            show s.count - i - 1 = s.count - 1 - i by omega]
      · congr 1; omega
    · simp only [modelStep, specStep, specPopN, VStack.popN, hlen]
      simp only [abs, List.take_take]
      congr 1; omega
    · simp only [modelStep, VStack.popN, Inv]; omega
    · simp [modelStep, VStack.popN]
  | popOff o =>
    by_cases h : s.count ≤ o
    · refine ⟨?_, ?_, ?_, ?_⟩ <;>
        simp [modelStep, specStep, VStack.popWOffset, hlen, h, hI]
    · have h0 : s.count ≠ 0 := by omega
      have hgl : (abs s).getLast? = some (s.data.getD (s.count - 1) default) :=
        getLast?_take s.data s.count (by omega) (by omega)
      refine ⟨?_, ?_, ?_, ?_⟩
      · simp [modelStep, specStep, specPop, VStack.popWOffset, VStack.pop, hlen, h, h0, hgl]
      · simp only [modelStep, specStep, specPop, VStack.popWOffset, VStack.pop, hlen, h, h0, hgl,
          if_false]
        simp only [abs]
        rw [take_set_ge _ _ _ _ (Nat.le_refl _), dropLast_take _ _ (by omega) (by omega)]
      · simp only [modelStep, VStack.popWOffset, VStack.pop, h, h0, if_false, Inv,
          List.length_set]; omega
      · simp [modelStep, VStack.popWOffset, VStack.pop, h, h0]
  | set i v =>
    by_cases h1 : i > s.count
    · refine ⟨?_, ?_, ?_, ?_⟩ <;> simp [modelStep, specStep, VStack.set, hlen, h1, hI]
    · by_cases h2 : i = s.count
      · by_cases h : s.count + 1 < s.data.length
        · have h3 : s.count + 2 ≤ s.data.length := by omega
          simp only [modelStep, specStep, VStack.set, h1, h2, if_true, if_false, push_ok s v h,
            hlen, h3, Nat.lt_irrefl, gt_iff_lt]
          refine ⟨trivial, ?_, ?_, ?_⟩
          · exact take_succ_set _ _ _ (by omega)
          · simp only [Inv, List.length_set]; omega
          · simp
        · have h3 : ¬ (s.count + 2 ≤ s.data.length) := by omega
          simp only [modelStep, specStep, VStack.set, h1, h2, if_true, if_false, push_full s v h,
            hlen, h3, Nat.lt_irrefl, gt_iff_lt]
          exact ⟨trivial, trivial, hI, trivial⟩
      · have hlt : i < s.count := by omega
        refine ⟨?_, ?_, ?_, ?_⟩
        · simp only [modelStep, specStep, VStack.set, hlen, h1, h2, if_false]
          simp only [abs]
          rw [getD_take _ _ _ hlt]
        · simp only [modelStep, specStep, VStack.set, hlen, h1, h2, if_false]
          simp only [abs]
          rw [List.take_set]
        · simp only [modelStep, VStack.set, h1, h2, if_false, Inv, List.length_set]; omega
        · simp [modelStep, VStack.set, h1, h2]
  | get i =>
    refine ⟨?_, rfl, hI, rfl⟩
    simp only [modelStep, specStep, VStack.get]
    by_cases h : i ≥ s.count
    · simp only [h, if_true, abs]
      simp [List.getD, List.getElem?_take, show ¬ i < s.count by omega]
    · simp only [h, if_false, abs]
      rw [getD_take _ _ _ (by omega)]
  | last =>
    refine ⟨?_, rfl, hI, rfl⟩
    simp only [modelStep, specStep, VStack.last]
    by_cases h : s.count > 0
    · simp only [h, if_true, abs]
      rw [getLast?_take _ _ h (by omega)]; rfl
    · have : s.count = 0 := by omega
      simp [abs, this]
  | peek n =>
    refine ⟨?_, rfl, hI, rfl⟩
    simp only [modelStep, specStep, VStack.peekLast, hlen]
    by_cases h : s.count > n
    · simp only [h, if_true, abs]
      rw [getD_take _ _ _ (by omega)]
    · simp only [h, if_false]
  | clear =>
    refine ⟨rfl, by simp [modelStep, specStep, VStack.clear, abs], ?_, by simp [modelStep, VStack.clear]⟩
    simp only [modelStep, VStack.clear, Inv, List.length_set]; omega
  | clearUntil h =>
    refine ⟨?_, ?_, ?_, rfl⟩
    · simp only [modelStep, specStep, VStack.clearUntil, VStack.last]
      by_cases h0 : s.count > 0
      · simp only [h0, if_true, abs]
        rw [getLast?_take _ _ h0 (by omega)]; rfl
      · have : s.count = 0 := by omega
        simp [abs, this]
    · simp only [modelStep, specStep, VStack.clearUntil, hlen]
      simp only [abs, List.take_take]
      congr 1; split <;> omega
    · simp only [modelStep, VStack.clearUntil, Inv]; split <;> omega
  | contents => exact ⟨rfl, rfl, hI, rfl⟩
  | len =>
    refine ⟨?_, rfl, hI, rfl⟩
    simp [modelStep, specStep, hlen]

/-! ## runs -/

def runModel (s : VStack α) : List (Op α) → List (Out α)
  | [] => []
  | op :: ops => let (s', o) := modelStep s op; o :: runModel s' ops

def runSpec (cap : Nat) (l : List α) : List (Op α) → List (Out α)
  | [] => []
  | op :: ops => let (l', o) := specStep cap l op; o :: runSpec cap l' ops

theorem run_refines (s : VStack α) (ops : List (Op α)) (hI : Inv s) :
    runModel s ops = runSpec s.data.length (abs s) ops := by
  induction ops generalizing s with
  | nil => rfl
  | cons op ops ih =>
    obtain ⟨h1, h2, h3, h4⟩ := step_refines s op hI
    simp only [runModel, runSpec]
    rw [h1]
    congr 1
    have := ih (modelStep s op).1 h3
    rw [this, h4, h2]

/-- **C14 (value stack)**: for every capacity `≥ 1` and every operation sequence (every
    `clear_until h`, also with `h` above the height: it truncates to `min h height`) the
    outputs of the code-shaped model equal those of the `List`-based bounded stack. -/
theorem vs_refines (cap : Nat) (hcap : 1 ≤ cap) (ops : List (Op α)) :
    runModel (VStack.new cap : VStack α) ops = runSpec cap [] ops := by
  have hI : Inv (VStack.new cap : VStack α) := by simp [Inv, VStack.new]; omega
  have hl : (VStack.new cap : VStack α).data.length = cap := by simp [VStack.new]
  have ha : abs (VStack.new cap : VStack α) = [] := by simp [abs, VStack.new]
  have := run_refines (VStack.new cap : VStack α) ops hI
  rw [this, hl, ha]

/-- the height never exceeds `cap - 1`, for every reachable state -/
theorem vs_bounded (s : VStack α) (ops : List (Op α)) (hI : Inv s) :
    ∀ s', s' = ops.foldl (fun s op => (modelStep s op).1) s → s'.count < s'.data.length := by
  induction ops generalizing s with
  | nil => intro s' h; subst h; exact hI
  | cons op ops ih =>
    intro s' h
    obtain ⟨_, h2, h3, h4⟩ := step_refines s op hI
    exact ih (modelStep s op).1 h3 s' h

/-- Spec-level sanity: pushes are returned in reverse order by pops. -/
theorem spec_lifo (cap : Nat) (l : List α) (v : α) (h : l.length + 2 ≤ cap) :
    specPop (specPush cap l v).1 = (l, v) := by
  simp [specPush, h, specPop]

/-- Counter-example kept as the record of F1: the *old* `pop` exposed a stale slot. -/
theorem old_pop_exposes_stale_slot :
    let s0 : VStack Nat := VStack.new 4
    let s1 := (s0.push 42).1
    let s2 := (s1.popN 1).1
    (s2.popOld).2 = 42 ∧ (s2.pop).2 = 0 := by decide

/-- `clear_until` never raises the height (the repaired defect): whatever the index. -/
theorem clearUntil_count_le (s : VStack α) (h : Nat) :
    (s.clearUntil h).1.count ≤ s.count ∧ (s.clearUntil h).1.count ≤ h ∧
    (s.clearUntil h).1.count = min h s.count := by
  simp only [VStack.clearUntil]; split <;> omega

/-- Non-vacuity / regression record: a concrete run with a `clear_until` **above** the height
    (`clearUntil 5` at height 2: the stack is unchanged, nothing stale becomes visible) and one
    below it. -/
example : runModel (VStack.new 4 : VStack Nat)
    [.push 1, .push 2, .push 3, .popN 1, .clearUntil 5, .contents, .clearUntil 1, .contents,
     .pop, .pop, .set 0 9, .contents] =
    [.unit, .unit, .unit, .vals [3], .val 2, .vals [1, 2], .val 2, .vals [1],
     .val 1, .val 0, .val 0, .vals [9]] := by rfl

/-! ## bounded stack: LIFO + every element dropped exactly once -/

inductive BOp (τ : Type) where
  | push (v : τ) | pop | clear

/-- log of everything that left the stack towards the caller (`pop` results) -/
structure BRun (τ : Type) where
  st : BStack τ
  popped : List τ

def bStep {τ : Type} (r : BRun τ) : BOp τ → BRun τ
  | .push v => { r with st := (r.st.push v).1 }
  | .pop => match r.st.pop with
      | (s', some v) => { st := s', popped := r.popped ++ [v] }
      | (s', none) => { r with st := s' }
  | .clear => { r with st := r.st.clear }

def pushed {τ : Type} : List (BOp τ) → List τ
  | [] => []
  | .push v :: ops => v :: pushed ops
  | _ :: ops => pushed ops

private theorem dropLast_concat_getLast {τ : Type} (l : List τ) (v : τ)
    (h : l.getLast? = some v) : l = l.dropLast ++ [v] := by
  induction l with
  | nil => simp at h
  | cons x xs ih =>
    cases xs with
    | nil => simp at h; simp [h]
    | cons y ys =>
      have : (y :: ys).getLast? = some v := by simpa [List.getLast?_cons_cons] using h
      have := ih this
      simp only [List.dropLast_cons₂, List.cons_append]
      rw [← this]

/-- **C14 (bounded stack)**: along every run and for every element `x`, the number of times
    `x` was pushed so far equals the number of copies still stored, plus those handed back
    by `pop`, plus those dropped — and the stack never holds more than `cap` elements.
    With pairwise distinct elements (the harness uses unique ids) this is "each element is in
    exactly one of: the stack, the caller's hands, the drop log — exactly once". -/
theorem bs_accounting {τ : Type} [DecidableEq τ] (r : BRun τ) (ops : List (BOp τ))
    (hcap : r.st.items.length ≤ r.st.cap) (x : τ) :
    let r' := ops.foldl bStep r
    (r'.st.items.count x + r'.popped.count x + r'.st.dropped.count x =
      r.st.items.count x + r.popped.count x + r.st.dropped.count x + (pushed ops).count x)
    ∧ r'.st.items.length ≤ r'.st.cap := by
  induction ops generalizing r with
  | nil => simpa [pushed] using hcap
  | cons op ops ih =>
    simp only [List.foldl_cons]
    cases op with
    | push v =>
      have hc : ((r.st.push v).1).items.length ≤ ((r.st.push v).1).cap := by
        unfold BStack.push; split <;> simp <;> omega
      obtain ⟨h1, h2⟩ := ih { r with st := (r.st.push v).1 } hc
      refine ⟨?_, h2⟩
      simp only [bStep] at h1 ⊢
      rw [h1]
      simp only [pushed, BStack.push]
      split <;> simp only [List.count_append, List.count_cons, List.count_nil] <;> omega
    | pop =>
      simp only [bStep, pushed]
      cases hgl : r.st.items.getLast? with
      | none =>
        have : r.st.pop = (r.st, none) := by simp [BStack.pop, hgl]
        rw [this]
        exact ih _ hcap
      | some v =>
        have hp : r.st.pop = ({ r.st with items := r.st.items.dropLast }, some v) := by
          simp [BStack.pop, hgl]
        rw [hp]
        have hc : (r.st.items.dropLast).length ≤ r.st.cap := by simp; omega
        obtain ⟨h1, h2⟩ := ih { st := { r.st with items := r.st.items.dropLast },
                                 popped := r.popped ++ [v] } hc
        refine ⟨?_, h2⟩
        simp only [] at h1 ⊢
        rw [h1]
        have e := dropLast_concat_getLast r.st.items v hgl
        have e2 : r.st.items.count x = r.st.items.dropLast.count x + [v].count x := by
          conv => lhs; rw [e]
          simp [List.count_append]
        simp only [List.count_append] 
        omega
    | clear =>
      simp only [bStep, pushed]
      obtain ⟨h1, h2⟩ := ih { r with st := r.st.clear } (by simp [BStack.clear])
      refine ⟨?_, h2⟩
      simp only [] at h1 ⊢
      rw [h1]
      simp only [BStack.clear, List.count_append, List.count_nil]
      omega

private theorem pushed_append_clear {τ : Type} (ops : List (BOp τ)) :
    pushed (ops ++ [BOp.clear]) = pushed ops := by
  induction ops with
  | nil => simp [pushed]
  | cons op ops ih => cases op <;> simp [pushed, ih]

/-- corollary: a fresh stack, any run, then `clear` (what `Drop` calls): nothing is kept and
    every pushed element was either handed back by `pop` or dropped — never both, never twice -/
theorem bs_drop_once {τ : Type} [DecidableEq τ] (cap : Nat) (ops : List (BOp τ)) (x : τ) :
    let r' := (ops ++ [BOp.clear]).foldl bStep { st := BStack.new cap, popped := [] }
    r'.st.items = [] ∧ r'.popped.count x + r'.st.dropped.count x = (pushed ops).count x := by
  have h := (bs_accounting { st := (BStack.new cap : BStack τ), popped := [] }
    (ops ++ [BOp.clear]) (by simp [BStack.new]) x).1
  rw [pushed_append_clear] at h
  have hi : ((ops ++ [BOp.clear]).foldl bStep
      { st := (BStack.new cap : BStack τ), popped := [] }).st.items = [] := by
    simp [List.foldl_append, bStep, BStack.clear]
  refine ⟨hi, ?_⟩
  simp only [] at h
  rw [hi] at h
  simp only [BStack.new, List.count_nil] at h ⊢
  omega

/-- LIFO: a successful push followed by pop returns the pushed element and restores the items -/
theorem bs_lifo {τ : Type} (s : BStack τ) (v : τ) (h : s.items.length < s.cap) :
    ((s.push v).1.pop) = ({ s with items := s.items }, some v) := by
  have : ¬ (s.items.length ≥ s.cap) := by omega
  simp [BStack.push, this, BStack.pop]

example : (([BOp.push 1, .push 2, .push 3, .pop, .clear] : List (BOp Nat)).foldl bStep
    { st := BStack.new 2, popped := [] }).st.dropped = [3, 1] := by decide

end Cao.C14
