import CaoProofs.Props.C09
import CaoProofs.Lemmas.RowValue
import CaoProofs.Lemmas.RowValueCompile
/-!
# C09b — `std.min`, `std.max`, `std.sorted` with the key function the library really uses

`Props/C09.lean` proves the contracts of `__min`, `__max`, `__sort` for an abstract callback
satisfying `PureCallback re f φ`. Here the hypothesis is discharged for the REAL callback
`reenterOf p gas = fun f => liftRun (exec p gas (.call f))` — the model of `Vm::run_function` —
and the key function `row_to_value(_key, val) = val` the wrappers `std.min`, `std.max`,
`std.sorted` pass (`Lemmas/RowValue.lean` evaluates the dispatch loop on its code).

`PureCallback` quantifies over ALL machine states, which the real callback cannot satisfy (the
function object has to be in the heap, no open upvalue may point into the argument slots). The
specifications are therefore re-proved for `PureCallbackAt s₀` (`Lemmas/RowValue.lean`): the
contract relative to the state `s₀` in which the native was entered; `pureCallbackAt_of_pure` shows that
they subsume the ones of C09.

* `minmaxBody_specAt`, `min_spec_at`, `max_spec_at`, `sort_spec_at` — C09 (b), (c) for
  `PureCallbackAt`;
* `std_min_contract`, `std_max_contract`, `std_sorted_contract` — the natives with the real
  callback on `row_to_value`; `std_min_ints`, `std_max_ints`, `std_sorted_ints` — integer values,
  no order hypothesis left;
* `rowToValue_code` — route (b): `RowToValueAt` and the label of `std.row_to_value`, DERIVED for every
  `compile m Gen.stdlib limit = .ok p` (`Lemmas/RowValueCompile.lean`); `keyFn_of_compile`,
  `std_min_ints_compiled`;
* non-vacuity: `demoProg` (hand-assembled), `demo_rowToValueAt`, kernel-evaluated runs of `__min`,
  `__max` (and of the bare call, with one unit of fuel / budget too few) through the real `exec`
  callback, `#guard`-evaluated `__sort`; a state showing that `UpvaluesBelow` is necessary;
  `demoModule`: a module compiled by the model compiler and run end to end.

Hypotheses of the contracts: `FreshNext s.heap`; `KeyFnIsRowToValue p s` (for compiled programs:
`keyFn_of_compile`); `UpvaluesBelow s s.stack.count` (from `UpInv`); the table below the key
function. They are statements about a run of the native that RETURNS (`callNativeBody … = (.ok r, s')`);
the exact conditions under which the callback itself returns are `rowToValue_ok_iff`.
Not composed here: that the card-level wrapper `std.min` (a `Call` of `min_by_key` with a
`Function` card) pushes exactly the function object `.fn hd 2` — C08 (`compile_calls_resolve`)
plus the `FunctionPointer` instruction; and the `callNative` wrapper around `callNativeBody`
(argument popping), which is C09/C10 material.
-/
namespace Cao.C09b
open Cao Cao.Vm Cao.Gc Cao.C02 Cao.C05 Cao.Native Cao.C09 Cao.RowValue
set_option linter.unusedVariables false

/-! ## C09 (b), (c) for callbacks that are pure relative to the entry state -/

/-- the contract relative to the entry state does not look at the guards of the entry state -/
theorem pureCallbackAt_withGuards {s : VmState} {re : Reenter} {f : Val} {φ : Val → Val → Val}
    (h : PureCallbackAt s re f φ) (g : List Nat) : PureCallbackAt { s with guards := g } re f φ :=
  ⟨fun t r t' hc hl hh ho hfr hgl hok => h.ok t r t' hc hl hh ho hfr hgl hok⟩

/-- `C09.minmaxCore_spec` for `PureCallbackAt s` -/
theorem minmaxCore_specAt (isMin : Bool) {re : Reenter} {φ : Val → Val → Val} {s s' : VmState}
    {r keyFn : Val} {a cap : Nat} {e₀ : Val × Val} {rest : List (Val × Val)}
    (hf : FreshNext s.heap) (hkf : s.stack.peekLast 0 = keyFn) (hit : s.stack.peekLast 1 = .obj a)
    (ha : s.heap.get a = some (.table cap (e₀ :: rest))) (hcb : PureCallbackAt s re keyFn φ)
    (hok : (minmaxCore isMin re).go s = (.ok r, s')) :
    let i := argBest (better isMin s.heap) (keysOf φ (e₀ :: rest))
    let e := (e₀ :: rest).getD i (.nil, .nil)
    i < (e₀ :: rest).length ∧ r = .obj s.heap.next ∧ s.heap.get s.heap.next = none ∧
    (∃ cap', s'.heap.get s.heap.next =
      some (.table cap' [(.obj (s.heap.next + 1), e.1), (.obj (s.heap.next + 2), e.2)])) ∧
    s'.heap.get (s.heap.next + 1) = some (.str "key".toUTF8.toList) ∧
    s'.heap.get (s.heap.next + 2) = some (.str "value".toUTF8.toList) ∧
    s'.heap.get a = some (.table cap (e₀ :: rest)) ∧ Grown s s' ∧ s'.guards = s.guards := by
  intro i e
  obtain ⟨k0, v0⟩ := e₀
  unfold minmaxCore at hok
  rw [go_bind_ok (go_get s), go_bind_ok (go_peek 0 s), go_bind_ok (go_peek 1 s), hit, hkf] at hok
  simp only [isTable_of_get ha] at hok
  rw [go_callKV_bind] at hok
  obtain ⟨best, t0, hcall, hok⟩ := ok_bind hok
  rw [go_bind_ok (go_guardVal best t0)] at hok
  obtain ⟨st, t1, hloop, hok⟩ := ok_bind hok
  obtain ⟨hbest, hst0, hheap0, hgu0, hfr0, hgl0, hup0⟩ := callKV_okAt hcb (Grown.refl s hf) rfl hcall
  have G0 : Grown s t0 := (Grown.refl s hf).same_heap hst0 hheap0 hgu0 hfr0 hgl0 hup0
  -- the scan
  have hI := forIn_inv' rest
    (fun i st t => st = scan (better isMin s.heap) ((keysOf φ rest).take i) (φ k0 v0, 0, 1) ∧
      Grown s t ∧ t.heap = s.heap ∧ t.guards = guardOf st.1 ++ s.guards)
    (scanStep isMin re keyFn) (b := (best, 0, 1)) (s := { t0 with guards := guardOf best ++ t0.guards }) ?_
    ⟨by rw [hbest]; rfl, G0.setGuards _ (fun g hg => List.mem_append_right _ (G0.guards g hg)), hheap0,
      by show guardOf best ++ t0.guards = _; rw [hgu0]⟩ hloop
  · obtain ⟨hst, G1, hheap1, hgu1⟩ := hI
    have hlen : (keysOf φ rest).length = rest.length := by simp [keysOf]
    rw [← hlen, List.take_length] at hst
    have hi : st.2.1 = i := by rw [hst]; rfl
    obtain ⟨bk, hbk, -⟩ := argBest_spec (better isMin s.heap) (φ k0 v0) (keysOf φ rest)
    have hilt : i < ((k0, v0) :: rest).length := by
      have : i < (keysOf φ ((k0, v0) :: rest)).length := by
        rcases Nat.lt_or_ge i (keysOf φ ((k0, v0) :: rest)).length with h | h
        · exact h
        · have hbk' : (keysOf φ ((k0, v0) :: rest))[i]? = some bk := hbk
          rw [List.getElem?_eq_none h] at hbk'; cases hbk'
      simpa [keysOf] using this
    rw [hi] at hok
    obtain ⟨hr, hnone, -, G2, hgu2, hrow, hks, hvs⟩ := mkRow_ok G1
      (fun g hg => by rw [hgu1, unguard_guardOf]; exact hg) hok
    rw [hheap1] at hr hnone hrow hks hvs
    refine ⟨hilt, hr, hnone, hrow, hks, hvs, G2.keep a _ (reach_peek hit) ha, G2, ?_⟩
    rw [hgu2, hgu1, unguard_guardOf]
  · intro j x st t r' t' hx ⟨hst, G, hheap, hgu⟩ hstep
    unfold scanStep at hstep
    rw [go_callKV_bind] at hstep
    obtain ⟨key, t₁, hcall', hstep⟩ := ok_bind hstep
    obtain ⟨hkey, hst', hheap', hgu', hfr', hgl', hup'⟩ := callKV_okAt hcb G hheap hcall'
    rw [go_bind_ok (go_get t₁)] at hstep
    have hG' : Grown s t₁ := G.same_heap hst' hheap' hgu' hfr' hgl' hup'
    have hk : (keysOf φ rest)[j]? = some key := by
      rw [hkey]; simp [keysOf, hx]
    have htake : (keysOf φ rest).take (j + 1) = (keysOf φ rest).take j ++ [key] := by
      rw [List.take_add_one, hk]; rfl
    have hh : t₁.heap = s.heap := hheap'.trans hheap
    rw [hh] at hstep
    by_cases hb : better isMin s.heap key st.1 = true
    · rw [if_pos hb, go_bind_ok (go_unguardVal st.1 t₁), go_bind_ok (go_guardVal key _)] at hstep
      simp only [go_pure, Prod.mk.injEq, Except.ok.injEq] at hstep
      have hgu1 : unguard st.1 t₁.guards = s.guards := by rw [hgu', hgu, unguard_guardOf]
      refine ⟨_, hstep.1.symm, ?_, ?_, hstep.2 ▸ hh, ?_⟩
      · rw [htake, scan_snoc, ← hst, if_pos hb]
      · rw [← hstep.2]
        exact (hG'.setGuards _ (fun g hg => by
          show g ∈ guardOf key ++ unguard st.1 t₁.guards
          rw [hgu1]; exact List.mem_append_right _ hg))
      · rw [← hstep.2]
        show guardOf key ++ unguard st.1 t₁.guards = guardOf key ++ s.guards
        rw [hgu1]
    · rw [if_neg hb] at hstep
      simp only [go_pure, Prod.mk.injEq, Except.ok.injEq] at hstep
      refine ⟨_, hstep.1.symm, ?_, hstep.2 ▸ hG', hstep.2 ▸ hh, hstep.2 ▸ (hgu'.trans hgu)⟩
      rw [htake, scan_snoc, ← hst, if_neg hb]

/-- `C09.minmaxBody_spec` for `PureCallbackAt s` -/
theorem minmaxBody_specAt (isMin : Bool) {re : Reenter} {φ : Val → Val → Val} {s s' : VmState}
    {r keyFn : Val} {a cap : Nat} {e₀ : Val × Val} {rest : List (Val × Val)}
    (hf : FreshNext s.heap) (hkf : s.stack.peekLast 0 = keyFn) (hit : s.stack.peekLast 1 = .obj a)
    (ha : s.heap.get a = some (.table cap (e₀ :: rest))) (hcb : PureCallbackAt s re keyFn φ)
    (hok : (minmaxBody isMin re).go s = (.ok r, s')) :
    let i := argBest (better isMin s.heap) (keysOf φ (e₀ :: rest))
    let e := (e₀ :: rest).getD i (.nil, .nil)
    i < (e₀ :: rest).length ∧ r = .obj s.heap.next ∧ s.heap.get s.heap.next = none ∧
    (∃ cap', s'.heap.get s.heap.next =
      some (.table cap' [(.obj (s.heap.next + 1), e.1), (.obj (s.heap.next + 2), e.2)])) ∧
    s'.heap.get (s.heap.next + 1) = some (.str "key".toUTF8.toList) ∧
    s'.heap.get (s.heap.next + 2) = some (.str "value".toUTF8.toList) ∧
    s'.heap.get a = some (.table cap (e₀ :: rest)) ∧ Grown s s' ∧ s'.guards = s.guards := by
  intro i e
  obtain ⟨s₁, hcore, rfl⟩ := minmaxBody_ok hit ha hok
  obtain ⟨h1, h2, h3, h4, h5, h6, h7, hG, hgu⟩ :=
    minmaxCore_specAt isMin (s := { s with guards := rowGuards (e₀ :: rest) ++ s.guards }) hf hkf hit ha
      (pureCallbackAt_withGuards hcb _) hcore
  obtain ⟨hG', hgu'⟩ := Grown.unrow hf hG hgu
  exact ⟨h1, h2, h3, h4, h5, h6, h7, hG', hgu'⟩

/-- `C09.min_spec` for `PureCallbackAt s` -/
theorem min_spec_at (re : Reenter) {φ : Val → Val → Val} {s s' : VmState} {r keyFn : Val}
    {a cap : Nat} {e₀ : Val × Val} {rest : List (Val × Val)}
    (hf : FreshNext s.heap) (hkf : s.stack.peekLast 0 = keyFn) (hit : s.stack.peekLast 1 = .obj a)
    (ha : s.heap.get a = some (.table cap (e₀ :: rest))) (hcb : PureCallbackAt s re keyFn φ)
    (hok : (callNativeBody re "__min").go s = (.ok r, s')) :
    ∃ (i : Nat) (e : Val × Val), (e₀ :: rest)[i]? = some e ∧ RowResult s s' r e ∧
      s'.heap.get a = some (.table cap (e₀ :: rest)) ∧
      (∀ (m : Nat) (e' : Val × Val), i < m → (e₀ :: rest)[m]? = some e' → keyLt s.heap (φ e'.1 e'.2) (φ e.1 e.2) = false) ∧
      (SWO (keyLt s.heap) (keysOf φ (e₀ :: rest)) →
        (∀ (m : Nat) (e' : Val × Val), (e₀ :: rest)[m]? = some e' → keyLt s.heap (φ e'.1 e'.2) (φ e.1 e.2) = false) ∧
        (∀ (m : Nat) (e' : Val × Val), m < i → (e₀ :: rest)[m]? = some e' → keyLt s.heap (φ e.1 e.2) (φ e'.1 e'.2) = true)) := by
  rw [callNativeBody_min] at hok
  obtain ⟨-, hr, hnew, hrow, hks, hvs, hin, hG, hgu⟩ := minmaxBody_specAt true hf hkf hit ha hcb hok
  obtain ⟨e, he, hget, hlater, hswo⟩ := argBest_entries (better true s.heap) φ e₀ rest
  rw [hget] at hrow
  exact ⟨_, e, he, ⟨hr, hnew, hrow, hks, hvs, hG, hgu⟩, hin, hlater, hswo⟩

/-- `C09.max_spec` for `PureCallbackAt s` -/
theorem max_spec_at (re : Reenter) {φ : Val → Val → Val} {s s' : VmState} {r keyFn : Val}
    {a cap : Nat} {e₀ : Val × Val} {rest : List (Val × Val)}
    (hf : FreshNext s.heap) (hkf : s.stack.peekLast 0 = keyFn) (hit : s.stack.peekLast 1 = .obj a)
    (ha : s.heap.get a = some (.table cap (e₀ :: rest))) (hcb : PureCallbackAt s re keyFn φ)
    (hok : (callNativeBody re "__max").go s = (.ok r, s')) :
    ∃ (i : Nat) (e : Val × Val), (e₀ :: rest)[i]? = some e ∧ RowResult s s' r e ∧
      s'.heap.get a = some (.table cap (e₀ :: rest)) ∧
      (∀ (m : Nat) (e' : Val × Val), i < m → (e₀ :: rest)[m]? = some e' → keyLt s.heap (φ e.1 e.2) (φ e'.1 e'.2) = false) ∧
      (SWO (keyLt s.heap) (keysOf φ (e₀ :: rest)) →
        (∀ (m : Nat) (e' : Val × Val), (e₀ :: rest)[m]? = some e' → keyLt s.heap (φ e.1 e.2) (φ e'.1 e'.2) = false) ∧
        (∀ (m : Nat) (e' : Val × Val), m < i → (e₀ :: rest)[m]? = some e' → keyLt s.heap (φ e'.1 e'.2) (φ e.1 e.2) = true)) := by
  rw [callNativeBody_max] at hok
  obtain ⟨-, hr, hnew, hrow, hks, hvs, hin, hG, hgu⟩ := minmaxBody_specAt false hf hkf hit ha hcb hok
  obtain ⟨e, he, hget, hlater, hswo⟩ := argBest_entries (better false s.heap) φ e₀ rest
  rw [hget] at hrow
  exact ⟨_, e, he, ⟨hr, hnew, hrow, hks, hvs, hG, hgu⟩, hin, hlater, fun h => hswo h.flip⟩

/-- `C09.sortCore_spec` for `PureCallbackAt s` -/
theorem sortCore_spec_at (re : Reenter) {φ : Val → Val → Val} {s s' : VmState} {r keyFn : Val}
    {a cap : Nat} {es : List (Val × Val)}
    (hf : FreshNext s.heap) (hkf : s.stack.peekLast 0 = keyFn) (hit : s.stack.peekLast 1 = .obj a)
    (ha : s.heap.get a = some (.table cap es)) (hcb : PureCallbackAt s re keyFn φ)
    (hflat : ∀ e ∈ es, FlatKey s.heap e.1) (hdist : (es.map (fun e => ownD s.heap e.1)).Nodup)
    (hok : (sortCore re).go s = (.ok r, s')) :
    r = .obj s.heap.next ∧ s.heap.get s.heap.next = none ∧
    (∃ cap', s'.heap.get s.heap.next = some (.table cap' (sortedEntries φ s.heap es))) ∧
    s'.heap.get a = some (.table cap es) ∧ Grown s s' ∧ s'.guards = s.guards := by
  unfold sortCore at hok
  rw [go_bind_ok (go_get s), go_bind_ok (go_peek 0 s), go_bind_ok (go_peek 1 s), hit, hkf] at hok
  simp only [isTable_of_get ha] at hok
  obtain ⟨kd, t1, hloop1, hok⟩ := ok_bind hok
  rw [go_bind_ok (go_get t1)] at hok
  have hra : Reach s.heap (rootAddrs s) a := reach_peek hit
  -- phase 1: the keys
  have h1 := forIn_inv' es
    (fun i kd t => kd = keyed φ (es.take i) ∧ Grown s t ∧ t.heap = s.heap ∧
      t.guards = (keysOf φ (es.take i)).reverse.flatMap guardOf ++ s.guards)
    (sortKeyStep re keyFn) (b := []) (s := s) ?_ ⟨rfl, Grown.refl s hf, rfl, rfl⟩ hloop1
  rotate_left
  · intro i x kd t r' t' hx ⟨hkd, hG, hheap, hgu⟩ hstep
    unfold sortKeyStep at hstep
    rw [callKV_bind_eq] at hstep
    obtain ⟨key, t₁, hcall, hstep⟩ := ok_bind hstep
    obtain ⟨hkey, hst', hheap', hgu', hfr', hgl', hup'⟩ := callKV_okAt hcb hG hheap hcall
    rw [go_bind_ok (go_modify _ t₁), go_pure] at hstep
    simp only [Prod.mk.injEq, Except.ok.injEq] at hstep
    have hG' : Grown s t₁ := hG.same_heap hst' hheap' hgu' hfr' hgl' hup'
    have htake : es.take (i + 1) = es.take i ++ [x] := by rw [List.take_add_one, hx]; rfl
    refine ⟨_, hstep.1.symm, ?_, ?_, ?_, ?_⟩
    · rw [hkd, htake, hkey]; simp [keyed]
    · rw [← hstep.2]
      exact hG'.setGuards _ (fun g hg => List.mem_append_right _ (hG'.guards g hg))
    · rw [← hstep.2]; exact hheap'.trans hheap
    · rw [← hstep.2]
      show guardOf key ++ t₁.guards = _
      rw [hgu', hgu, htake, hkey]
      simp [keysOf]
  rw [List.take_length] at h1
  obtain ⟨hkd, G1, hheap1, hgu1⟩ := h1
  obtain ⟨hr, hnone, -, hout, hin, hG, hgu⟩ := sort_tail hra ha hflat hdist hkd G1 hgu1
    (by rw [hheap1]) hok
  rw [hheap1] at hr hnone hout
  exact ⟨hr, hnone, hout, hin, hG, hgu⟩

/-- `C09.sort_spec` for `PureCallbackAt s` -/
theorem sort_spec_at (re : Reenter) {φ : Val → Val → Val} {s s' : VmState} {r keyFn : Val}
    {a cap : Nat} {es : List (Val × Val)}
    (hf : FreshNext s.heap) (hkf : s.stack.peekLast 0 = keyFn) (hit : s.stack.peekLast 1 = .obj a)
    (ha : s.heap.get a = some (.table cap es)) (hcb : PureCallbackAt s re keyFn φ)
    (hflat : ∀ e ∈ es, FlatKey s.heap e.1) (hdist : (es.map (fun e => ownD s.heap e.1)).Nodup)
    (hok : (callNativeBody re "__sort").go s = (.ok r, s')) :
    r = .obj s.heap.next ∧ s.heap.get s.heap.next = none ∧
    (∃ cap', s'.heap.get s.heap.next = some (.table cap' (sortedEntries φ s.heap es))) ∧
    s'.heap.get a = some (.table cap es) ∧ Grown s s' ∧ s'.guards = s.guards := by
  rw [callNativeBody_sort] at hok
  obtain ⟨s₁, hcore, rfl⟩ := sortBody_ok hit ha hok
  obtain ⟨h1, h2, h3, h4, hG, hgu⟩ :=
    sortCore_spec_at re (s := { s with guards := rowGuards es ++ s.guards }) hf hkf hit ha
      (pureCallbackAt_withGuards hcb _) hflat hdist hcore
  obtain ⟨hG', hgu'⟩ := Grown.unrow hf hG hgu
  exact ⟨h1, h2, h3, h4, hG', hgu'⟩

/-- the specifications of C09 are instances: a callback that is pure everywhere is pure relative
    to every entry state (`pureCallbackAt_of_pure`) -/
example (re : Reenter) {φ : Val → Val → Val} {s s' : VmState} {r keyFn : Val}
    {a cap : Nat} {es : List (Val × Val)}
    (hf : FreshNext s.heap) (hkf : s.stack.peekLast 0 = keyFn) (hit : s.stack.peekLast 1 = .obj a)
    (ha : s.heap.get a = some (.table cap es)) (hcb : PureCallback re keyFn φ)
    (hflat : ∀ e ∈ es, FlatKey s.heap e.1) (hdist : (es.map (fun e => ownD s.heap e.1)).Nodup)
    (hok : (callNativeBody re "__sort").go s = (.ok r, s')) :
    r = .obj s.heap.next ∧ s.heap.get s.heap.next = none ∧
    (∃ cap', s'.heap.get s.heap.next = some (.table cap' (sortedEntries φ s.heap es))) ∧
    s'.heap.get a = some (.table cap es) ∧ Grown s s' ∧ s'.guards = s.guards :=
  sort_spec_at re hf hkf hit ha (pureCallbackAt_of_pure hcb s) hflat hdist hok

/-! ## the real callback on `row_to_value` -/

/-- the key function on top of the stack is a function object (arity 2) whose label resolves to a
    position where the code of `row_to_value` is -/
def KeyFnIsRowToValue (p : Prog) (s : VmState) : Prop :=
  ∃ (f pos : Nat) (h h' ar : UInt32), s.stack.peekLast 0 = .obj f ∧
    s.heap.get f = some (.fn h ar) ∧ ar.toNat = 2 ∧
    p.labels.find? (fun l => l.1 == h) = some (h', pos) ∧ RowToValueAt p pos

/-- **the callback hypothesis of C09, discharged**: the real `run_function` on `row_to_value` is a
    pure callback with `φ key value = value` relative to the entry state of the native -/
theorem keyFn_pure {p : Prog} {s : VmState} (hk : KeyFnIsRowToValue p s)
    (hup : UpvaluesBelow s s.stack.count) (gas : Nat) :
    PureCallbackAt s (reenterOf p gas) (s.stack.peekLast 0) (fun _ v => v) := by
  obtain ⟨f, pos, h, h', ar, hkf, hfn, har, hlab, hc⟩ := hk
  rw [hkf]
  exact rowToValue_pure hc gas s hfn har hlab hup

/-- **`std.min`** = `__min(iterable, row_to_value)` through the real dispatch loop. For a table with
    entries `es = e₀ :: rest` the result is a NEW row `{"key": e.1, "value": e.2}` for an entry
    `e = es[i]` such that no LATER entry has a strictly smaller VALUE and — when `<` is a strict
    weak order on the values — no entry at all has, and every EARLIER entry has a strictly larger
    one: the FIRST entry whose value is minimal. The input table and every object reachable
    before the call are unchanged, no guard is leaked (`RowResult`).
    Hypotheses: the heap is well-formed (`FreshNext`), the key function on top of the stack is
    `row_to_value` (`KeyFnIsRowToValue`), no open upvalue points at or above the top of the stack
    (`UpvaluesBelow`, implied by the invariant `UpInv`), the table is below it. Partial
    correctness: the statement is about a run that returns (lack of fuel, budget, call-stack or
    stack room makes it fail, `rowToValue_inv`). -/
theorem std_min_contract {p : Prog} (gas : Nat) {s s' : VmState} {r : Val} {a cap : Nat}
    {e₀ : Val × Val} {rest : List (Val × Val)}
    (hf : FreshNext s.heap) (hk : KeyFnIsRowToValue p s) (hup : UpvaluesBelow s s.stack.count)
    (hit : s.stack.peekLast 1 = .obj a) (ha : s.heap.get a = some (.table cap (e₀ :: rest)))
    (hok : (callNativeBody (reenterOf p gas) "__min").go s = (.ok r, s')) :
    ∃ (i : Nat) (e : Val × Val), (e₀ :: rest)[i]? = some e ∧ RowResult s s' r e ∧
      s'.heap.get a = some (.table cap (e₀ :: rest)) ∧
      (∀ (m : Nat) (e' : Val × Val), i < m → (e₀ :: rest)[m]? = some e' → keyLt s.heap e'.2 e.2 = false) ∧
      (SWO (keyLt s.heap) ((e₀ :: rest).map (·.2)) →
        (∀ (m : Nat) (e' : Val × Val), (e₀ :: rest)[m]? = some e' → keyLt s.heap e'.2 e.2 = false) ∧
        (∀ (m : Nat) (e' : Val × Val), m < i → (e₀ :: rest)[m]? = some e' → keyLt s.heap e.2 e'.2 = true)) :=
  min_spec_at (reenterOf p gas) (φ := fun _ v => v) hf rfl hit ha (keyFn_pure hk hup gas) hok

/-- **`std.max`** = `__max(iterable, row_to_value)`: as `std_min_contract` with the order reversed —
    the FIRST entry whose value is maximal -/
theorem std_max_contract {p : Prog} (gas : Nat) {s s' : VmState} {r : Val} {a cap : Nat}
    {e₀ : Val × Val} {rest : List (Val × Val)}
    (hf : FreshNext s.heap) (hk : KeyFnIsRowToValue p s) (hup : UpvaluesBelow s s.stack.count)
    (hit : s.stack.peekLast 1 = .obj a) (ha : s.heap.get a = some (.table cap (e₀ :: rest)))
    (hok : (callNativeBody (reenterOf p gas) "__max").go s = (.ok r, s')) :
    ∃ (i : Nat) (e : Val × Val), (e₀ :: rest)[i]? = some e ∧ RowResult s s' r e ∧
      s'.heap.get a = some (.table cap (e₀ :: rest)) ∧
      (∀ (m : Nat) (e' : Val × Val), i < m → (e₀ :: rest)[m]? = some e' → keyLt s.heap e.2 e'.2 = false) ∧
      (SWO (keyLt s.heap) ((e₀ :: rest).map (·.2)) →
        (∀ (m : Nat) (e' : Val × Val), (e₀ :: rest)[m]? = some e' → keyLt s.heap e.2 e'.2 = false) ∧
        (∀ (m : Nat) (e' : Val × Val), m < i → (e₀ :: rest)[m]? = some e' → keyLt s.heap e'.2 e.2 = true)) :=
  max_spec_at (reenterOf p gas) (φ := fun _ v => v) hf rfl hit ha (keyFn_pure hk hup gas) hok

/-- the entries of a table sorted by value, as `std.sorted` produces them: a stable merge sort by
    "not greater" on the deep values -/
def sortedByValue (h : Heap) (es : List (Val × Val)) : List (Val × Val) :=
  sortedEntries (fun _ v => v) h es

/-- **`std.sorted`** = `__sort(iterable, row_to_value)` through the real dispatch loop: the result
    is a NEW table whose entry list is `sortedByValue s.heap es`, which is a permutation of `es`
    and — when "not greater" is a total preorder on the values — ordered by value and STABLE
    (every sublist of the input whose values are in order is a sublist of the output); the input
    table and everything reachable before are unchanged, no guard is leaked. Besides the
    hypotheses of `std_min_contract`: the table invariant (`FlatKey`, distinct keys). -/
theorem std_sorted_contract {p : Prog} (gas : Nat) {s s' : VmState} {r : Val} {a cap : Nat}
    {es : List (Val × Val)}
    (hf : FreshNext s.heap) (hk : KeyFnIsRowToValue p s) (hup : UpvaluesBelow s s.stack.count)
    (hit : s.stack.peekLast 1 = .obj a) (ha : s.heap.get a = some (.table cap es))
    (hflat : ∀ e ∈ es, FlatKey s.heap e.1) (hdist : (es.map (fun e => ownD s.heap e.1)).Nodup)
    (hok : (callNativeBody (reenterOf p gas) "__sort").go s = (.ok r, s')) :
    r = .obj s.heap.next ∧ s.heap.get s.heap.next = none ∧
    (∃ cap', s'.heap.get s.heap.next = some (.table cap' (sortedByValue s.heap es))) ∧
    s'.heap.get a = some (.table cap es) ∧ Grown s s' ∧ s'.guards = s.guards ∧
    (sortedByValue s.heap es).Perm es ∧
    (TotalPreorderOn (keyLe s.heap) (es.map (·.2)) →
      (sortedByValue s.heap es).Pairwise (fun e₁ e₂ => keyLe s.heap e₁.2 e₂.2 = true) ∧
      ∀ c : List (Val × Val), c.Sublist es →
        c.Pairwise (fun e₁ e₂ => keyLe s.heap e₁.2 e₂.2 = true) →
        c.Sublist (sortedByValue s.heap es)) := by
  obtain ⟨h1, h2, h3, h4, h5, h6⟩ := sort_spec_at (reenterOf p gas) (φ := fun _ v => v) hf rfl hit ha
    (keyFn_pure hk hup gas) hflat hdist hok
  exact ⟨h1, h2, h3, h4, h5, h6, sortedEntries_perm _ _ _, fun hto =>
    ⟨sortedEntries_sorted (fun _ v => v) s.heap es hto,
     fun c hsub hc => sortedEntries_stable (fun _ v => v) s.heap es hto hc hsub⟩⟩

/-! ### integer values: no hypothesis on the order left -/

theorem keyLt_int (h : Heap) (i j : Int64) : keyLt h (.int i) (.int j) = decide (i.toInt < j.toInt) := by
  simp only [keyLt, ownD_int, C19.vlt_int_int]

theorem keyLe_int (h : Heap) (i j : Int64) : keyLe h (.int i) (.int j) = decide (i.toInt ≤ j.toInt) := by
  unfold keyLe
  rw [ownD_int, ownD_int, C19.vcmp_int_int]
  rcases Int.lt_trichotomy i.toInt j.toInt with hlt | heq | hgt
  · rw [Int.compare_eq_lt.2 hlt]; simp; omega
  · rw [heq]; simp
  · rw [Int.compare_eq_gt.2 hgt]; simp; omega

/-- **`std.min` on a table of integers**: the row of the FIRST entry with the smallest value -/
theorem std_min_ints {p : Prog} (gas : Nat) {s s' : VmState} {r : Val} {a cap : Nat}
    {e₀ : Val × Val} {rest : List (Val × Val)}
    (hf : FreshNext s.heap) (hk : KeyFnIsRowToValue p s) (hup : UpvaluesBelow s s.stack.count)
    (hit : s.stack.peekLast 1 = .obj a) (ha : s.heap.get a = some (.table cap (e₀ :: rest)))
    (hints : ∀ e ∈ e₀ :: rest, ∃ v : Int64, e.2 = .int v)
    (hok : (callNativeBody (reenterOf p gas) "__min").go s = (.ok r, s')) :
    ∃ (i : Nat) (k : Val) (v : Int64), (e₀ :: rest)[i]? = some (k, .int v) ∧
      RowResult s s' r (k, .int v) ∧ s'.heap.get a = some (.table cap (e₀ :: rest)) ∧
      (∀ (m : Nat) (k' : Val) (v' : Int64), (e₀ :: rest)[m]? = some (k', .int v') → v.toInt ≤ v'.toInt) ∧
      (∀ (m : Nat) (k' : Val) (v' : Int64), m < i → (e₀ :: rest)[m]? = some (k', .int v') → v.toInt < v'.toInt) := by
  obtain ⟨i, ⟨k, x⟩, he, hrow, hin, -, hswo⟩ := std_min_contract gas hf hk hup hit ha hok
  obtain ⟨v, hv⟩ := hints (k, x) (List.mem_of_getElem? he)
  dsimp only at hv
  subst hv
  obtain ⟨hall, hearlier⟩ := hswo (swo_int_keys s.heap _ (fun key hkey => by
    obtain ⟨e, hem, rfl⟩ := List.mem_map.mp hkey
    exact hints e hem))
  refine ⟨i, k, v, he, hrow, hin, fun m k' v' hm => ?_, fun m k' v' hlt hm => ?_⟩
  · have := hall m _ hm
    rw [keyLt_int] at this
    simpa using this
  · have := hearlier m _ hlt hm
    rw [keyLt_int] at this
    simpa using this

/-- **`std.max` on a table of integers**: the row of the FIRST entry with the largest value -/
theorem std_max_ints {p : Prog} (gas : Nat) {s s' : VmState} {r : Val} {a cap : Nat}
    {e₀ : Val × Val} {rest : List (Val × Val)}
    (hf : FreshNext s.heap) (hk : KeyFnIsRowToValue p s) (hup : UpvaluesBelow s s.stack.count)
    (hit : s.stack.peekLast 1 = .obj a) (ha : s.heap.get a = some (.table cap (e₀ :: rest)))
    (hints : ∀ e ∈ e₀ :: rest, ∃ v : Int64, e.2 = .int v)
    (hok : (callNativeBody (reenterOf p gas) "__max").go s = (.ok r, s')) :
    ∃ (i : Nat) (k : Val) (v : Int64), (e₀ :: rest)[i]? = some (k, .int v) ∧
      RowResult s s' r (k, .int v) ∧ s'.heap.get a = some (.table cap (e₀ :: rest)) ∧
      (∀ (m : Nat) (k' : Val) (v' : Int64), (e₀ :: rest)[m]? = some (k', .int v') → v'.toInt ≤ v.toInt) ∧
      (∀ (m : Nat) (k' : Val) (v' : Int64), m < i → (e₀ :: rest)[m]? = some (k', .int v') → v'.toInt < v.toInt) := by
  obtain ⟨i, ⟨k, x⟩, he, hrow, hin, -, hswo⟩ := std_max_contract gas hf hk hup hit ha hok
  obtain ⟨v, hv⟩ := hints (k, x) (List.mem_of_getElem? he)
  dsimp only at hv
  subst hv
  obtain ⟨hall, hearlier⟩ := hswo (swo_int_keys s.heap _ (fun key hkey => by
    obtain ⟨e, hem, rfl⟩ := List.mem_map.mp hkey
    exact hints e hem))
  refine ⟨i, k, v, he, hrow, hin, fun m k' v' hm => ?_, fun m k' v' hlt hm => ?_⟩
  · have := hall m _ hm
    rw [keyLt_int] at this
    simpa using this
  · have := hearlier m _ hlt hm
    rw [keyLt_int] at this
    simpa using this

/-- "not greater" on integer values -/
def intLe (e₁ e₂ : Val × Val) : Prop :=
  ∀ v₁ v₂ : Int64, e₁.2 = .int v₁ → e₂.2 = .int v₂ → v₁.toInt ≤ v₂.toInt

/-- **`std.sorted` on a table of integers**: a new table with the same entries, in ascending
    order of the values, entries with equal values in their original order (stated for arbitrary
    ordered sublists); input untouched -/
theorem std_sorted_ints {p : Prog} (gas : Nat) {s s' : VmState} {r : Val} {a cap : Nat}
    {es : List (Val × Val)}
    (hf : FreshNext s.heap) (hk : KeyFnIsRowToValue p s) (hup : UpvaluesBelow s s.stack.count)
    (hit : s.stack.peekLast 1 = .obj a) (ha : s.heap.get a = some (.table cap es))
    (hflat : ∀ e ∈ es, FlatKey s.heap e.1) (hdist : (es.map (fun e => ownD s.heap e.1)).Nodup)
    (hints : ∀ e ∈ es, ∃ v : Int64, e.2 = .int v)
    (hok : (callNativeBody (reenterOf p gas) "__sort").go s = (.ok r, s')) :
    ∃ out : List (Val × Val), r = .obj s.heap.next ∧ s.heap.get s.heap.next = none ∧
      (∃ cap', s'.heap.get s.heap.next = some (.table cap' out)) ∧
      s'.heap.get a = some (.table cap es) ∧ Grown s s' ∧ s'.guards = s.guards ∧
      out.Perm es ∧ out.Pairwise intLe ∧
      ∀ c : List (Val × Val), c.Sublist es → c.Pairwise intLe → c.Sublist out := by
  obtain ⟨h1, h2, h3, h4, h5, h6, hperm, hto⟩ :=
    std_sorted_contract gas hf hk hup hit ha hflat hdist hok
  obtain ⟨hsorted, hstable⟩ := hto (totalPreorder_int_keys s.heap _ (fun key hkey => by
    obtain ⟨e, hem, rfl⟩ := List.mem_map.mp hkey
    exact hints e hem))
  have hconv : ∀ e₁ ∈ es, ∀ e₂ ∈ es, (keyLe s.heap e₁.2 e₂.2 = true ↔ intLe e₁ e₂) := by
    intro e₁ h₁ e₂ h₂
    obtain ⟨v₁, hv₁⟩ := hints e₁ h₁
    obtain ⟨v₂, hv₂⟩ := hints e₂ h₂
    unfold intLe
    rw [hv₁, hv₂, keyLe_int]
    constructor
    · intro h w₁ w₂ e1 e2
      cases e1; cases e2
      simpa using h
    · intro h
      simpa using h v₁ v₂ rfl rfl
  refine ⟨_, h1, h2, h3, h4, h5, h6, hperm, ?_, fun c hsub hc => hstable c hsub ?_⟩
  · exact hsorted.imp_of_mem (fun {e₁ e₂} m₁ m₂ h =>
      (hconv e₁ (hperm.subset m₁) e₂ (hperm.subset m₂)).mp h)
  · exact hc.imp_of_mem (fun {e₁ e₂} m₁ m₂ h =>
      (hconv e₁ (hsub.subset m₁) e₂ (hsub.subset m₂)).mpr h)

/-! ## the code of `row_to_value` in every compiled program -/

/-- the bytes of a program that ends with the code of `row_to_value` and the final `Exit` -/
theorem rowToValueAt_of_layout {p : Prog} {B : Array UInt8}
    (h : p.bytecode = (B ++ Compiler.rtvBytes.toArray).push Compiler.op.exit) :
    RowToValueAt p B.size := by
  have hl : p.bytecode.toList = B.toList ++ (Compiler.rtvBytes ++ [Compiler.op.exit]) := by
    rw [h]; simp
  constructor
  · intro i hi
    rw [← Array.getElem?_toList, hl, List.getElem?_append_right (by simp),
      show B.toList.length = B.size from Array.length_toList, Nat.add_sub_cancel_left,
      List.getElem?_append_left (by rw [rowToValueCode_eq] at hi; exact hi), rowToValueCode_eq]
    rfl
  · rw [h, Array.back?_push]

/-- **`rowToValue_code`, route (b): derived for EVERY program compiled with the generated standard
    library.** If `compile m Gen.stdlib limit = .ok p` then the function stream ends with
    `std.row_to_value` (arguments `_key`, `val`), its handle `f.handle` is mapped by the label table
    of `p` to a position `pos` (first match — no hash-collision hypothesis: the function is
    compiled last), and `RowToValueAt p pos` holds: the bytes at `pos` are
    `ReadLocalVar 0; Return; Pop; Pop; ScalarNil; Return`, and the program ends with `Exit`. -/
theorem rowToValue_code {m : Module} {limit : Nat} {p : Compiler.Program}
    (h : Compiler.compile m Gen.stdlib limit = .ok p) :
    ∃ (unit : Array Compiler.FunctionIr) (f : Compiler.FunctionIr) (pos : Nat),
      Compiler.intoIrStream m Gen.stdlib limit = .ok unit ∧ unit.toList.getLast? = some f ∧
      f.name = "row_to_value" ∧ f.ns = ["std"] ∧ f.arguments = ["_key", "val"] ∧
      (Prog.ofProgram p).labels.find? (fun l => l.1 == f.handle) = some (f.handle, pos) ∧
      RowToValueAt (Prog.ofProgram p) pos := by
  obtain ⟨unit, pre, f, B, hunit, hu, -, hn, hns, hargs, -, hb, hl⟩ :=
    Compiler.compile_rowToValue_layout h
  exact ⟨unit, f, B.size, hunit, by rw [hu]; simp, hn, hns, hargs, hl,
    rowToValueAt_of_layout (p := Prog.ofProgram p) hb⟩

/-- for a compiled program: a function object with the handle of `std.row_to_value` and arity 2 on
    top of the stack is the key function the contracts above are about -/
theorem keyFn_of_compile {m : Module} {limit : Nat} {p : Compiler.Program}
    (h : Compiler.compile m Gen.stdlib limit = .ok p) :
    ∃ hd : UInt32, ∀ (s : VmState) (a : Nat), s.stack.peekLast 0 = .obj a →
      s.heap.get a = some (.fn hd 2) → KeyFnIsRowToValue (Prog.ofProgram p) s := by
  obtain ⟨unit, f, pos, -, -, -, -, -, hl, hc⟩ := rowToValue_code h
  exact ⟨f.handle, fun s a hk hg => ⟨a, pos, f.handle, f.handle, 2, hk, hg, by decide, hl, hc⟩⟩

/-- **`std.min` on a table of integers, in any program compiled with the generated standard
    library**: `__min` with the function value of `std.row_to_value` as key function returns the
    row of the FIRST entry with the smallest value. (`hd` is the handle of `std.row_to_value`; that
    the wrapper `std.min` pushes the function object `.fn hd 2` is the business of C08 — the
    reference `row_to_value` resolves to `std.row_to_value` — and of the `FunctionPointer`
    instruction; it is not composed here.) -/
theorem std_min_ints_compiled {m : Module} {limit : Nat} {p : Compiler.Program}
    (h : Compiler.compile m Gen.stdlib limit = .ok p) :
    ∃ hd : UInt32, ∀ (gas : Nat) (s s' : VmState) (r : Val) (fa a cap : Nat) (e₀ : Val × Val)
      (rest : List (Val × Val)),
      FreshNext s.heap → s.stack.peekLast 0 = .obj fa → s.heap.get fa = some (.fn hd 2) →
      UpvaluesBelow s s.stack.count → s.stack.peekLast 1 = .obj a →
      s.heap.get a = some (.table cap (e₀ :: rest)) →
      (∀ e ∈ e₀ :: rest, ∃ v : Int64, e.2 = .int v) →
      (callNativeBody (reenterOf (Prog.ofProgram p) gas) "__min").go s = (.ok r, s') →
      ∃ (i : Nat) (k : Val) (v : Int64), (e₀ :: rest)[i]? = some (k, .int v) ∧
        RowResult s s' r (k, .int v) ∧ s'.heap.get a = some (.table cap (e₀ :: rest)) ∧
        (∀ (m : Nat) (k' : Val) (v' : Int64), (e₀ :: rest)[m]? = some (k', .int v') → v.toInt ≤ v'.toInt) ∧
        (∀ (m : Nat) (k' : Val) (v' : Int64), m < i → (e₀ :: rest)[m]? = some (k', .int v') →
          v.toInt < v'.toInt) := by
  obtain ⟨hd, hk⟩ := keyFn_of_compile h
  exact ⟨hd, fun gas s s' r fa a cap e₀ rest hf hkf hfn hup hit ha hints hok =>
    std_min_ints gas hf (hk s fa hkf hfn) hup hit ha hints hok⟩

/-- `std.max` on integers, in any program compiled with the generated standard library -/
theorem std_max_ints_compiled {m : Module} {limit : Nat} {p : Compiler.Program}
    (h : Compiler.compile m Gen.stdlib limit = .ok p) :
    ∃ hd : UInt32, ∀ (gas : Nat) (s s' : VmState) (r : Val) (fa a cap : Nat) (e₀ : Val × Val)
      (rest : List (Val × Val)),
      FreshNext s.heap → s.stack.peekLast 0 = .obj fa → s.heap.get fa = some (.fn hd 2) →
      UpvaluesBelow s s.stack.count → s.stack.peekLast 1 = .obj a →
      s.heap.get a = some (.table cap (e₀ :: rest)) →
      (∀ e ∈ e₀ :: rest, ∃ v : Int64, e.2 = .int v) →
      (callNativeBody (reenterOf (Prog.ofProgram p) gas) "__max").go s = (.ok r, s') →
      ∃ (i : Nat) (k : Val) (v : Int64), (e₀ :: rest)[i]? = some (k, .int v) ∧
        RowResult s s' r (k, .int v) ∧ s'.heap.get a = some (.table cap (e₀ :: rest)) ∧
        (∀ (m : Nat) (k' : Val) (v' : Int64), (e₀ :: rest)[m]? = some (k', .int v') → v'.toInt ≤ v.toInt) ∧
        (∀ (m : Nat) (k' : Val) (v' : Int64), m < i → (e₀ :: rest)[m]? = some (k', .int v') →
          v'.toInt < v.toInt) := by
  obtain ⟨hd, hk⟩ := keyFn_of_compile h
  exact ⟨hd, fun gas s s' r fa a cap e₀ rest hf hkf hfn hup hit ha hints hok =>
    std_max_ints gas hf (hk s fa hkf hfn) hup hit ha hints hok⟩

/-- `std.sorted` on integers, in any program compiled with the generated standard library -/
theorem std_sorted_ints_compiled {m : Module} {limit : Nat} {p : Compiler.Program}
    (h : Compiler.compile m Gen.stdlib limit = .ok p) :
    ∃ hd : UInt32, ∀ (gas : Nat) (s s' : VmState) (r : Val) (fa a cap : Nat) (es : List (Val × Val)),
      FreshNext s.heap → s.stack.peekLast 0 = .obj fa → s.heap.get fa = some (.fn hd 2) →
      UpvaluesBelow s s.stack.count → s.stack.peekLast 1 = .obj a →
      s.heap.get a = some (.table cap es) →
      (∀ e ∈ es, FlatKey s.heap e.1) → (es.map (fun e => ownD s.heap e.1)).Nodup →
      (∀ e ∈ es, ∃ v : Int64, e.2 = .int v) →
      (callNativeBody (reenterOf (Prog.ofProgram p) gas) "__sort").go s = (.ok r, s') →
      ∃ out : List (Val × Val), r = .obj s.heap.next ∧ s.heap.get s.heap.next = none ∧
        (∃ cap', s'.heap.get s.heap.next = some (.table cap' out)) ∧
        s'.heap.get a = some (.table cap es) ∧ Grown s s' ∧ s'.guards = s.guards ∧
        out.Perm es ∧ out.Pairwise intLe ∧
        ∀ c : List (Val × Val), c.Sublist es → c.Pairwise intLe → c.Sublist out := by
  obtain ⟨hd, hk⟩ := keyFn_of_compile h
  exact ⟨hd, fun gas s s' r fa a cap es hf hkf hfn hup hit ha hflat hdist hints hok =>
    std_sorted_ints gas hf (hk s fa hkf hfn) hup hit ha hflat hdist hints hok⟩

/-! ## non-vacuity: a concrete program, and runs through the real `exec` callback -/

/-- a hand-assembled program: the code of `row_to_value` at address 3 (behind three `Exit`
    instructions standing in for `main`), labelled 77, and the final `Exit` -/
def demoProg : Prog :=
  { bytecode := ([10, 10, 10] ++ rowToValueCode ++ [10]).toArray, data := #[], labels := [(5, 0), (77, 3)],
    varNames := [], trace := [] }

theorem demo_rowToValueAt : RowToValueAt demoProg 3 := rowToValueAt_of_B (by decide)

/-- the table `{10: 30, 11: 10, 12: 20, 13: 10}` at address 1 and the function object
    `row_to_value` at address 2 -/
def demoHeap : Heap :=
  { objs := [(1, .table 8 [(.int 10, .int 30), (.int 11, .int 10), (.int 12, .int 20), (.int 13, .int 10)]),
             (2, .fn 77 2)],
    next := 3 }

/-- inside a run (one frame, a budget of 100 instructions), the table below the key function -/
def demoState : VmState :=
  { VmState.fresh { stackSize := 16 } with
    stack := ⟨2, [.obj 1, .obj 2] ++ List.replicate 14 .nil⟩, heap := demoHeap,
    frames := [⟨0, 0, 0, none⟩], remaining := 100 }

example : FreshNext demoState.heap ∧ KeyFnIsRowToValue demoProg demoState ∧
    UpvaluesBelow demoState demoState.stack.count ∧ demoState.stack.peekLast 1 = .obj 1 ∧
    (∃ cap es, demoState.heap.get 1 = some (.table cap es) ∧
      (∀ e ∈ es, FlatKey demoState.heap e.1) ∧ (es.map (fun e => ownD demoState.heap e.1)).Nodup ∧
      (∀ e ∈ es, ∃ v : Int64, e.2 = .int v)) := by
  refine ⟨by unfold FreshNext; decide, ?_, ?_, by decide, ⟨8, _, rfl, ?_, ?_, ?_⟩⟩
  · exact ⟨2, 3, 77, 77, 2, by decide, rfl, by decide, by decide, demo_rowToValueAt⟩
  · intro a ha; cases ha
  · intro e he b hb
    simp only [List.mem_cons, List.not_mem_nil, or_false] at he
    rcases he with rfl | rfl | rfl | rfl <;> cases hb
  · simp only [List.map_cons, List.map_nil, ownD_int]
    decide
  · intro e he
    simp only [List.mem_cons, List.not_mem_nil, or_false] at he
    rcases he with rfl | rfl | rfl | rfl <;> exact ⟨_, rfl⟩

set_option maxRecDepth 100000 in
example : (match (callNativeBody (reenterOf demoProg 8) "__min").go demoState with
    | (.ok (.obj 3), s') => rowIs s' 3 (.int 11) (.int 10) &&
        entriesAre s' 1 [(.int 10, .int 30), (.int 11, .int 10), (.int 12, .int 20), (.int 13, .int 10)] &&
        s'.remaining == 88 && s'.frames.length == 1 && s'.stack.count == 2
    | _ => false) = true := by decide +kernel

set_option maxRecDepth 100000 in
example : (match (callNativeBody (reenterOf demoProg 8) "__max").go demoState with
    | (.ok (.obj 3), s') => rowIs s' 3 (.int 10) (.int 30) && s'.remaining == 88
    | _ => false) = true := by decide +kernel

/-- the call of the key function alone, as `rowToValue_run` computes it: value `30` below key `10` -/
example : (match exec demoProg 4 (.call (.obj 2))
      { demoState with stack := ⟨4, [.obj 1, .obj 2, .int 30, .int 10] ++ List.replicate 12 .nil⟩ } with
    | (s', .ok (some (.int 30))) => s'.stack.count == 2 && s'.remaining == 97 && s'.dispatches == 3 &&
        s'.frames.length == 1
    | _ => false) = true := by decide +kernel

/-- one unit of fuel or of budget less and the call fails (`rowToValue_inv`) -/
example : (match exec demoProg 3 (.call (.obj 2))
      { demoState with stack := ⟨4, [.obj 1, .obj 2, .int 30, .int 10] ++ List.replicate 12 .nil⟩ } with
    | (_, .error e) => e.kind.name == "panic:gas exhausted"
    | _ => false) = true := by decide +kernel
example : (match exec demoProg 4 (.call (.obj 2))
      { demoState with stack := ⟨4, [.obj 1, .obj 2, .int 30, .int 10] ++ List.replicate 12 .nil⟩,
                       remaining := 3 } with
    | (_, .error e) => e.kind.name == "Timeout"
    | _ => false) = true := by decide +kernel

/- `List.mergeSort` does not reduce in the kernel: the run of `__sort` is checked by evaluation at
   build time (stable: `11` before `13`) -/
#guard (match (callNativeBody (reenterOf demoProg 8) "__sort").go demoState with
    | (.ok (.obj 3), s') =>
        entriesAre s' 3 [(.int 11, .int 10), (.int 13, .int 10), (.int 12, .int 20), (.int 10, .int 30)] &&
        entriesAre s' 1 [(.int 10, .int 30), (.int 11, .int 10), (.int 12, .int 20), (.int 13, .int 10)]
    | _ => false)

/-- the hypothesis `UpvaluesBelow` is NECESSARY: with an open upvalue pointing at the slot of the
    value, the `Return` of the callee closes it — the callback writes to the heap, which no pure
    callback does (such a state is not reachable: `UpInv` keeps open upvalues below the top of
    the stack, and the natives push the arguments above it) -/
example :
    let s : VmState := { demoState with
      stack := ⟨4, [.obj 1, .obj 2, .int 30, .int 10] ++ List.replicate 12 .nil⟩,
      heap := { objs := demoHeap.objs ++ [(3, .upvalue (.stack 2))], next := 4 },
      openUpvalues := [3] }
    (match exec demoProg 4 (.call (.obj 2)) s with
     | (s', .ok (some (.int 30))) =>
        (match s'.heap.get 3 with | some (.upvalue (.closed (.int 30))) => true | _ => false) &&
        s'.openUpvalues.isEmpty
     | _ => false) = true := by decide +kernel

/-! ### a program compiled by the model compiler, run end to end

`String.splitOn` (used by the compiler for dotted names) does not reduce in the kernel: these are
checked by evaluation at build time. `main` stores `std.min([30, 10, 20, 10])` in a global. -/

def demoModule : Module :=
  Module.mk [] [("main", { arguments := [], cards := [
    .setGlobalVar "g" (.call "std.min" [.array [.scalarInt 30, .scalarInt 10, .scalarInt 20, .scalarInt 10]])] })] []

/- the hypothesis of `rowToValue_code` is satisfiable, and its conclusion is what evaluation shows:
   the code of `row_to_value` sits right before the final `Exit` -/
#guard (match Compiler.compile demoModule Gen.stdlib with
    | .ok p => rowToValueAtB (Prog.ofProgram p) (p.bytecode.size - 11)
    | .error _ => false)

/- the whole chain `std.min → min_by_key → __min → run_function(row_to_value)`: the result is the
   row `{"key": 1, "value": 10}` of the FIRST of the two smallest values -/
#guard (match Compiler.compile demoModule Gen.stdlib with
    | .ok p =>
      let (s, e) := run (Prog.ofProgram p) 10000 (VmState.fresh {})
      e.isNone && s.globals.map (fun v => (ownD s.heap v).toTok) == ["t[s6b6579:i1,s76616c7565:i10]"]
    | .error _ => false)

end Cao.C09b
