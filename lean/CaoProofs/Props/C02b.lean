import CaoProofs.Lemmas.SchedFull
import CaoProofs.Lemmas.UpvalueLemmas
import CaoProofs.Props.C05b
/-!
# C02 (continued) — a run does not depend on when collections happen

"Running the same program with collection forced at arbitrary allocation points yields the same
result, the same error kind and position, the same global variables and stack (as deep values)
and the same host log as a run without forced collection; out-of-memory depends only on the
reachable bytes."

`Props/C05b.lean` reduced this to single instructions and host functions and proved it for a
fragment. Here it is proved for **all 47 instructions** (`step_schedule_independent`) and lifted
to the dispatch loop, nested `run_function`s and `Vm::run` (`schedule_independence`).

The statement for *arbitrary* bytecode is false (`C05b.schedule_independence_Full_false`: an
open upvalue whose slot was dropped with `pop_n` reads a stale slot whose referent a forced
collection may or may not have freed; before the repair of `clear_until` a `ClearStack` that moved
the stack pointer upwards did the same). The side condition is made explicit as a *check*:

* `StepOk p src s` (decidable form `stepOkB`): `ClearStack`/`Return` find the running frame at or
  below the stack height (`FrameOk`); `Return`/`CloseUpvalue` find every listed open upvalue
  pointing below the stack height (`UpvOk`, which is `Upv.UpBound` of `Props/C06.lean`:
  `upvOk_iff_upBound`); `ReadUpvalue` reads, if the upvalue is open, a slot below the stack height
  (`ReadUpvOk`). No other instruction needs a condition.
* `IterOk x x'` for the callbacks made by the iterating host functions `__min`/`__max`/`__sort`
  (they iterate over a snapshot of the entries): the callback pops exactly its two arguments, gives
  the guards back, and the iterated table keeps its entries.

`runC` is the *checked interpreter*: `run` with these checks executed before every instruction /
after every such callback (failing with a `panic`). `checked_schedule_independence`: the checked
interpreter is schedule independent for every program and every state satisfying the accounting
invariant. `SafeRun p n s := runC p n s = run p n s` (decidable) says that no check fires in the
run; `schedule_independence` is the property for safe runs.
-/
namespace Cao.C02b
open Cao Cao.Vm Cao.Gc Cao.C02 Cao.C05 Cao.RunInv Cao.SchedFull

/-- two runs of the same machine: equal stacks (as arrays), equal host logs -/
abbrev cfg0 : Cfg := ⟨True, []⟩

/-! ## 1. the relation implies the observable equality of `Props/C02.lean` -/

theorem rel_obsEq {s t : VmState} (h : Rel cfg0 s t) : ObsEq s t := by
  obtain ⟨K, hA⟩ := h
  exact ⟨hA.stack.2 trivial, hA.globals, hA.frames, hA.openUpvalues, hA.guards, hA.next,
    fun a ha => hA.agree a (hA.toCore.reachK ha),
    fun a ha => (hA.agree a (hA.toCore.reachL ha).2).symm⟩

theorem rel_hostLog {s t : VmState} (h : Rel cfg0 s t) : s.hostLog = t.hostLog := by
  obtain ⟨K, hA⟩ := h
  exact hA.hostLog

theorem rel_inv {c : Cfg} {s t : VmState} (h : Rel c s t) : C05.Inv s ∧ C05.Inv t := by
  obtain ⟨K, hA⟩ := h
  exact ⟨hA.invL, hA.invR⟩

/-- the deep value of a root is the same in both machines -/
theorem rel_ownD_stack {c : Cfg} {s t : VmState} (h : Rel c s t) :
    t.stack.contents.map (ownD t.heap) = s.stack.contents.map (ownD s.heap) := by
  obtain ⟨K, hA⟩ := h
  rw [hA.stack.contents]
  apply List.map_congr_left
  intro v hv
  exact hA.toCore.ownD_eq (hA.vk_stack hv)

theorem rel_ownD_globals {c : Cfg} {s t : VmState} (h : Rel c s t) :
    t.globals.map (ownD t.heap) = s.globals.map (ownD s.heap) := by
  obtain ⟨K, hA⟩ := h
  rw [hA.globals]
  apply List.map_congr_left
  intro v hv
  exact hA.toCore.ownD_eq (hA.vk_global hv)

/-- the same machine under two schedules (and allocation counters) -/
theorem rel_sched (s : VmState) (h : C05.Inv s) (sch₁ sch₂ : Sched) (i₁ i₂ : Nat) :
    Rel cfg0 { s with sched := sch₁, allocIndex := i₁ } { s with sched := sch₂, allocIndex := i₂ } :=
  ⟨R s, { stack := StackEq.refl _ _, globals := rfl, frames := rfl, openUpvalues := rfl, guards := rfl,
          next := rfl, limit := rfl, remaining := rfl, dispatches := rfl, hostLog := rfl, frameCap := rfl,
          uniqL := h.unique, uniqR := h.unique, freshL := h.fresh, freshR := h.fresh,
          rootsK := fun a ha => Reach.root ha, closed := fun a o b ha ho hc => Reach.step ha ho hc,
          agree := fun _ _ => rfl,
          invL := inv_of_same (s := s) rfl rfl h, invR := inv_of_same (s := s) rfl rfl h }⟩

/-! ## 2. one instruction -/

/-- **Every instruction is schedule independent.** For every program, instruction address and
    pair of related machines (same roots, heaps equal on what is reachable; the machines may
    differ in garbage, in the byte counters, in the schedule), with related callbacks and host
    functions that respect the relation: if the instruction does not touch a stale stack slot
    (`StepOk`), it returns the same next address / exit flag or raises the same error in both
    machines and leaves them related. -/
theorem step_schedule_independent {c : Cfg} (p : Prog) (re₁ re₂ : Reenter)
    (hn : ∀ hd, NatSimAt c re₁ re₂ hd) (src : Nat) {s t : VmState} (h : Rel c s t)
    (hok : StepOk p src s) :
    ((step p re₂ src).run.run t).1 = ((step p re₁ src).run.run s).1 ∧
    Rel c ((step p re₁ src).run.run s).2 ((step p re₂ src).run.run t).2 := by
  obtain ⟨K, hA⟩ := h
  exact resEq_of_w2 (step_sim p re₁ re₂ src (fun hd _ => hn hd) hA hok)

/-- the same with the host functions plugged in (`Lemmas/SchedNat.lean`): callbacks need only be
    related (`ReSim`) and, if they are called by `__min`/`__max`/`__sort`, satisfy `IterOk` -/
theorem step_schedule_independent' {c : Cfg} (p : Prog) (re₁ re₂ : Reenter) (hre : ReSim c re₁ re₂)
    (hpost : IterPost re₁ ∧ IterPost re₂) (src : Nat) {s t : VmState} (h : Rel c s t)
    (hok : StepOk p src s) :
    ((step p re₂ src).run.run t).1 = ((step p re₁ src).run.run s).1 ∧
    Rel c ((step p re₁ src).run.run s).2 ((step p re₂ src).run.run t).2 := by
  obtain ⟨K, hA⟩ := h
  exact resEq_of_w2 (step_sim_all p re₁ re₂ hre hpost src hA hok)

/-- the upvalue part of the side condition is the invariant `UpBound` of `Props/C06.lean` -/
theorem upvOk_iff_upBound (s : VmState) : UpvOk s ↔ Upv.UpBound s := by
  unfold UpvOk Upv.UpBound
  constructor
  · intro h a ha i hi; exact h a ha i (Upv.upvalueSlot_eq_some.mp hi)
  · intro h a ha i hi; exact h a ha i (Upv.upvalueSlot_eq_some.mpr hi)

/-- the side condition is symmetric: it holds in one machine iff it holds in the other -/
theorem stepOk_symmetric {c : Cfg} (p : Prog) (src : Nat) {s t : VmState} (h : Rel c s t) :
    StepOk p src t ↔ StepOk p src s := by
  obtain ⟨K, hA⟩ := h
  exact stepOk_congr p src hA

/-! ### the statement left open in `Props/C05b.lean` -/

/-- the relation of `Lemmas/SchedSim.lean` is the relation used here (at `cfg0`) -/
theorem rel_of_schedEq {s t : VmState} (h : SchedSim.SchedEq s t) : Rel cfg0 s t :=
  ⟨R s, { stack := ⟨Native.StackSame.of_eq h.core.obs.stack, fun _ => h.core.obs.stack⟩
          globals := h.core.obs.globals, frames := h.core.obs.frames
          openUpvalues := h.core.obs.openUpvalues, guards := h.core.obs.guards, next := h.core.obs.next
          limit := h.core.limit, remaining := h.core.remaining, dispatches := h.core.dispatches
          hostLog := h.core.hostLog.symm, frameCap := h.core.frameCap
          uniqL := h.core.uniqL, uniqR := h.core.uniqR, freshL := h.core.freshL, freshR := h.core.freshR
          rootsK := fun a ha => Reach.root ha, closed := fun a o b ha ho hc => Reach.step ha ho hc
          agree := fun a ha => h.core.obs.fwd a ha, invL := h.invL, invR := h.invR }⟩

theorem schedEq_of_rel {s t : VmState} (h : Rel cfg0 s t) : SchedSim.SchedEq s t := by
  have ho := rel_obsEq h
  have hl := rel_hostLog h
  obtain ⟨K, hA⟩ := h
  exact ⟨⟨ho, hA.limit, hA.remaining, hA.dispatches, hl.symm, hA.frameCap, hA.uniqL, hA.uniqR,
    hA.freshL, hA.freshR⟩, hA.invL, hA.invR⟩

/-- **`C05b.step_obsEq_Full` holds**: the simulation step at full strength, as it was stated (and
    left unproved) in `Props/C05b.lean` — every instruction of every program, related callbacks,
    host functions that respect the relation, no stale stack slot touched. -/
theorem step_obsEq_Full_holds : C05b.step_obsEq_Full := by
  intro p re₁ re₂ _ hnat src _ s t h hok
  have hn : ∀ hd, NatSimAt cfg0 re₁ re₂ hd := by
    intro hd K s t hA
    have := hnat hd s t (schedEq_of_rel hA.rel)
    refine w2_of_resEq ⟨this.1, rel_of_schedEq this.2⟩ (fun _ _ _ hr => hr)
  have hok' : StepOk p src s := by
    refine ⟨fun hc f hf => hok.1 hc f hf, fun _ a _ i hg => hok.2 a i hg,
      fun _ fr c hd ar ups u i _ _ _ _ hg => hok.2 u i hg⟩
  obtain ⟨e, hr⟩ := step_schedule_independent p re₁ re₂ hn src (rel_of_schedEq h) hok'
  exact ⟨e, schedEq_of_rel hr⟩

/-! ## 3. whole runs -/

/-- no check of the checked interpreter fires in this run: it behaves exactly like `run` -/
def SafeRun (p : Prog) (n : Nat) (s : VmState) : Prop := runC p n s = run p n s

deriving instance DecidableEq for Cao.VStack
deriving instance DecidableEq for Cao.Vm.Frame
deriving instance DecidableEq for Cao.UpLoc
deriving instance DecidableEq for Cao.Obj
deriving instance DecidableEq for Cao.Heap
deriving instance DecidableEq for Cao.Mem
deriving instance DecidableEq for Cao.Vm.Sched
deriving instance DecidableEq for Cao.Vm.VmState
deriving instance DecidableEq for Cao.Vm.ErrKind
deriving instance DecidableEq for Cao.Vm.RunErr

instance (p : Prog) (n : Nat) (s : VmState) : Decidable (SafeRun p n s) :=
  inferInstanceAs (Decidable (runC p n s = run p n s))

/-- the conclusion of the property for the checked interpreter -/
def ScheduleIndependentC (p : Prog) (n : Nat) (s : VmState) : Prop :=
  ∀ (sch₁ sch₂ : Sched),
    ObsEq (runC p n { s with sched := sch₁ }).1 (runC p n { s with sched := sch₂ }).1 ∧
    (runC p n { s with sched := sch₁ }).2 = (runC p n { s with sched := sch₂ }).2 ∧
    (runC p n { s with sched := sch₁ }).1.hostLog = (runC p n { s with sched := sch₂ }).1.hostLog

/-- **The checked interpreter is schedule independent — for every program** (well-formed or not),
    every budget and every start state that satisfies the accounting invariant and holds no
    guard: result, error (kind, position, frames), stack, globals, frames, open upvalues, next
    address, reachable heap and host log are the same under any two forcing schedules;
    `OutOfMemory` included. -/
theorem checked_schedule_independence (p : Prog) (n : Nat) (s : VmState) (hi : C05.Inv s)
    (hg : s.guards = []) : ScheduleIndependentC p n s := by
  intro sch₁ sch₂
  have h0 : Rel cfg0 { s with sched := sch₁ } { s with sched := sch₂ } :=
    rel_sched s hi sch₁ sch₂ s.allocIndex s.allocIndex
  obtain ⟨e, hr⟩ := runC_sim (natSimHyp cfg0) p n h0 hg
  exact ⟨rel_obsEq hr, e.symm, rel_hostLog hr⟩

/-- **Schedule independence of `Vm::run`** for runs in which no stale stack slot is touched
    (under the schedules compared): the statement of the property. -/
theorem schedule_independence (p : Prog) (n : Nat) (s : VmState) (hi : C05.Inv s) (hg : s.guards = [])
    (hsafe : ∀ sch, SafeRun p n { s with sched := sch }) : C05b.ScheduleIndependent p n s := by
  intro sch₁ sch₂
  obtain ⟨h1, h2, h3⟩ := checked_schedule_independence p n s hi hg sch₁ sch₂
  rw [hsafe sch₁, hsafe sch₂] at h1 h2 h3
  exact ⟨h1, by rw [h2], h3⟩

/-- the deep values of the stack and of the globals agree (the form in which the harness compares
    two runs) -/
theorem schedule_independence_deep (p : Prog) (n : Nat) (s : VmState) (hi : C05.Inv s) (hg : s.guards = [])
    (sch₁ sch₂ : Sched) (h1 : SafeRun p n { s with sched := sch₁ }) (h2 : SafeRun p n { s with sched := sch₂ }) :
    let r₁ := run p n { s with sched := sch₁ }
    let r₂ := run p n { s with sched := sch₂ }
    r₂.2 = r₁.2 ∧ r₂.1.stack.contents.map (ownD r₂.1.heap) = r₁.1.stack.contents.map (ownD r₁.1.heap) ∧
    r₂.1.globals.map (ownD r₂.1.heap) = r₁.1.globals.map (ownD r₁.1.heap) ∧ r₂.1.hostLog = r₁.1.hostLog := by
  have h0 : Rel cfg0 { s with sched := sch₁ } { s with sched := sch₂ } :=
    rel_sched s hi sch₁ sch₂ s.allocIndex s.allocIndex
  obtain ⟨e, hr⟩ := runC_sim (natSimHyp cfg0) p n h0 hg
  rw [h1, h2] at e hr
  exact ⟨e, rel_ownD_stack hr, rel_ownD_globals hr, (rel_hostLog hr).symm⟩

/-- from every state the host can reach (`C05b.Reachable`) -/
theorem schedule_independence_reachable (p : Prog) (n : Nat) {cf : Config} {s : VmState}
    (h : C05b.Reachable cf s) (hsafe : ∀ sch, SafeRun p n { s with sched := sch }) :
    C05b.ScheduleIndependent p n s :=
  schedule_independence p n s (C05b.reachable_inv h).1 (C05b.reachable_guards h) hsafe

/-- `OutOfMemory` in one run means `OutOfMemory` at the same instruction in the other -/
theorem oom_schedule_independent (p : Prog) (n : Nat) (s : VmState) (hi : C05.Inv s) (hg : s.guards = [])
    (hsafe : ∀ sch, SafeRun p n { s with sched := sch }) (sch₁ sch₂ : Sched) (e : RunErr)
    (h : (run p n { s with sched := sch₁ }).2 = some e) :
    ∃ e', (run p n { s with sched := sch₂ }).2 = some e' ∧ e'.kind.name = e.kind.name ∧ e'.at_ = e.at_ := by
  have := (schedule_independence p n s hi hg hsafe sch₁ sch₂).2.1
  rw [h] at this
  cases h2 : (run p n { s with sched := sch₂ }).2 with
  | none => rw [h2] at this; cases this
  | some e' =>
    rw [h2] at this
    simp only [Option.map_some, Option.some.injEq, Prod.mk.injEq] at this
    exact ⟨e', rfl, this.1.symm, this.2.symm⟩

/-- **What remains open**: that the runs of *compiled* programs are safe. It needs the scoping
    invariant of the compiler (`C06.upInv_of_compiled_runs_Full`: `UpBound` along runs of compiled
    programs — not proved there either) plus "the running frame starts at or below the stack
    height" and, for programs that use `__min`/`__max`/`__sort`, that script functions pop exactly
    their arguments and do not shrink the iterated table. -/
def compiled_runs_safe_Full : Prop :=
  ∀ (m std : Module) (limit : Nat) (prog : Compiler.Program) (n : Nat) (cf : Config) (sch : Sched),
    Compiler.compile m std limit = .ok prog →
    SafeRun (Prog.ofProgram prog) n { VmState.fresh cf with sched := sch }


/-! ## 4. non-vacuity -/

/-- `x = 7; c = closure@24/0 capturing x; c()` where the closure body is `ReadUpvalue 0; Return`:
    `RegisterUpvalue`, `CallFunction` on a closure, `ReadUpvalue` through an open upvalue, `Return` -/
def closureProg : Prog :=
  { bytecode := #[5,7,0,0,0,0,0,0,0, 42,9,0,0,0,0,0,0,0, 9, 45,0,1, 11, 10, 44,0,0,0,0, 22, 10],
    data := #[], labels := [(9, 24)], varNames := [], trace := [] }

/-- `T = {}; T.append(20); T.append(10); __max(T, fn@56/2)` with the key function
    `ReadLocalVar 0; Return` (the value): an iterating host function calling back into the script -/
def maxProg : Prog :=
  { bytecode := #[31, 17,0,0,0,0, 5,20,0,0,0,0,0,0,0, 18,0,0,0,0, 40, 5,10,0,0,0,0,0,0,0, 18,0,0,0,0, 40,
                  18,0,0,0,0, 37,9,0,0,0,2,0,0,0, 4,235,43,224,39, 10, 20,0,0,0,0, 22, 10],
    data := #[], labels := [(9, 56)], varNames := [], trace := [] }

def smallCfg : Config := { memLimit := 3000, stackSize := 8, callStackSize := 8, maxInstr := 100 }

example : UInt32.ofNat (rdU32 maxProg.bytecode 51) = hName "__max" := by decide +kernel

example : SafeRun closureProg 100 { VmState.fresh smallCfg with sched := .none } := by decide +kernel
example : SafeRun closureProg 100 { VmState.fresh smallCfg with sched := .every } := by decide +kernel

/-- the two runs really differ in when they collect (1 collection against 9), and agree in what the
    property talks about -/
example : (run maxProg 100 { VmState.fresh smallCfg with sched := .none }).1.gcRuns = 1 ∧
    (run maxProg 100 { VmState.fresh smallCfg with sched := .every }).1.gcRuns = 9 ∧
    (run maxProg 100 { VmState.fresh smallCfg with sched := .every }).2 = none := by decide +kernel

theorem maxProg_safe_none : SafeRun maxProg 100 { VmState.fresh smallCfg with sched := .none } := by
  decide +kernel
theorem maxProg_safe_every : SafeRun maxProg 100 { VmState.fresh smallCfg with sched := .every } := by
  decide +kernel

/-- hence: same outcome, same deep values on the stack and in the globals, same host log -/
example := schedule_independence_deep maxProg 100 (VmState.fresh smallCfg) (fresh_inv smallCfg) rfl .none .every
  maxProg_safe_none maxProg_safe_every

/-- the counter-example of `Props/C05b.lean` is rejected by the check … -/
example : (runC C05b.staleProg 100 { VmState.fresh C05b.staleCfg with sched := .every }).2.map (·.kind) =
    some (.panic "stale stack slot") := by decide +kernel

/-- … so its run is not safe -/
example : ¬ SafeRun C05b.staleProg 100 { VmState.fresh C05b.staleCfg with sched := .every } := by
  decide +kernel

/-- but the *checked* runs of that program agree under all schedules -/
example : ScheduleIndependentC C05b.staleProg 100 (VmState.fresh C05b.staleCfg) :=
  checked_schedule_independence _ _ _ (fresh_inv _) rfl

end Cao.C02b
