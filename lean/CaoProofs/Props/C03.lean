import CaoProofs.Lemmas.VmFrame
/-!
# C03 — the instruction budget

"A run started with instruction budget N executes at most N instructions in total — including
all instructions executed by script functions that host/native functions call back into during
that run — and reports Timeout instead of continuing when the budget is exhausted."

`VmState.dispatches` is a ghost counter that the dispatch loop of the model (`exec`, task `.loop`)
increments once per executed instruction, in *every* nesting level (the loops that natives re-enter
through `run_function` are the same `exec`). `VmState.remaining` is the interpreter's
`remaining_iters`. The frame lemma `pres_step` (`Lemmas/VmFrame.lean`) shows that one instruction
changes the two counters only through re-entry, so the potential `dispatches + remaining` never
grows (`exec_potential`); `run` starts it at `N`.
-/
namespace Cao.C03
open Cao Cao.Vm

/-! ## 1. the potential -/

/-- **the potential `dispatches + remaining` never grows, `dispatches` never shrinks** — for the
    loop and for `run_function`, with any amount of fuel, nested re-entries included -/
theorem exec_potential (p : Prog) (gas : Nat) (t : Task) (s : VmState) :
    let r := exec p gas t s
    r.1.dispatches + r.1.remaining ≤ s.dispatches + s.remaining ∧ s.dispatches ≤ r.1.dispatches :=
  exec_pres (R := Budget) p gas t s

/-- the budget itself never grows -/
theorem exec_remaining_le (p : Prog) (gas : Nat) (t : Task) (s : VmState) :
    (exec p gas t s).1.remaining ≤ s.remaining := by
  have := exec_potential p gas t s
  simp only at this
  omega

/-- a sharper potential: a budget of `0` is as good as a budget of `1` (the loop decrements
    before it checks, so the last unit is never spent on an instruction) -/
def Budget1 (s s' : VmState) : Prop :=
  s'.dispatches + max s'.remaining 1 ≤ s.dispatches + max s.remaining 1

instance : LoopFrame Budget1 where
  refl _ := Nat.le_refl _
  trans h1 h2 := Nat.le_trans h2 h1
  of_keep h := by unfold Budget1; rw [h.1, h.2.1]; exact Nat.le_refl _
  tick s h := by simp only [Budget1, VmState.tick]; omega
  timeout s := by simp only [Budget1]; omega

theorem exec_potential1 (p : Prog) (gas : Nat) (t : Task) (s : VmState) :
    (exec p gas t s).1.dispatches + max (exec p gas t s).1.remaining 1
      ≤ s.dispatches + max s.remaining 1 :=
  exec_pres (R := Budget1) p gas t s

/-! ## `run` -/

/-- **C03, the bound**: a run with budget `n` dispatches at most `n` instructions, nested
    re-entries included; what is left of the budget and what was dispatched add up to at most `n` -/
theorem budget_bound_sharp (p : Prog) (n : Nat) (s : VmState) (h : s.frames.length < s.frameCap) :
    (run p n s).1.dispatches + (run p n s).1.remaining ≤ n := by
  rw [run_room p n s h]
  have := exec_potential p (gasFor (started n s) n) (.loop 0) (started n s)
  simp only [started] at this ⊢
  omega

theorem budget_bound (p : Prog) (n : Nat) (s : VmState) (h : s.frames.length < s.frameCap) :
    (run p n s).1.dispatches ≤ n := by
  have := budget_bound_sharp p n s h
  omega

/-- without the side condition: either nothing ran at all, or the bound holds -/
theorem budget_bound' (p : Prog) (n : Nat) (s : VmState) :
    (run p n s).1 = s ∨ (run p n s).1.dispatches + (run p n s).1.remaining ≤ n := by
  by_cases h : s.frames.length < s.frameCap
  · exact .inr (budget_bound_sharp p n s h)
  · exact .inl (by rw [run_no_room p n s (Nat.not_lt.1 h)])

/-- the loop decrements before it checks: at most `n - 1` instructions run (none for `n ≤ 1`) -/
theorem budget_bound_strict (p : Prog) (n : Nat) (s : VmState) (h : s.frames.length < s.frameCap) :
    (run p n s).1.dispatches ≤ n - 1 := by
  rw [run_room p n s h]
  have := exec_potential1 p (gasFor (started n s) n) (.loop 0) (started n s)
  simp only [started] at this ⊢
  omega

/-! ## 3. Timeout -/

/-- **the loop reports `Timeout` instead of continuing** when at most one unit is left -/
theorem exec_loop_exhausted (p : Prog) (gas ip : Nat) (s : VmState) (hip : ip < p.bytecode.size)
    (h : s.remaining ≤ 1) :
    exec p (gas+1) (.loop ip) s = ({ s with remaining := 0 }, .error ⟨.timeout, ip, s.frames⟩) := by
  rw [exec_loop]
  have h0 : s.remaining - 1 = 0 := by omega
  simp only [ge_iff_le, Nat.not_le.2 hip, if_false, h0, if_true]

/-- … and it never dispatches in that situation, whatever the fuel -/
theorem no_dispatch_when_exhausted (p : Prog) (gas ip : Nat) (s : VmState) (h : s.remaining ≤ 1) :
    (exec p gas (.loop ip) s).1.dispatches = s.dispatches := by
  cases gas with
  | zero => rw [exec_zero]
  | succ gas =>
    rw [exec_loop]
    have h0 : s.remaining - 1 = 0 := by omega
    split
    · rfl
    · rfl

/-- an instruction is dispatched only in a state with `remaining ≥ 1` *after* the decrement:
    the state `step` runs in is `s.tick`, and the loop got there only because `s.remaining ≥ 2` -/
theorem dispatch_needs_budget (p : Prog) (gas ip : Nat) (s : VmState)
    (h : (exec p gas (.loop ip) s).1.dispatches ≠ s.dispatches) : 2 ≤ s.remaining := by
  apply Classical.byContradiction
  intro hn
  exact h (no_dispatch_when_exhausted p gas ip s (by omega))

/-- a `Timeout` of the loop (as opposed to one wrapped into a `TaskFailure` by a native) leaves
    `remaining = 0` -/
theorem loop_timeout (p : Prog) : ∀ (gas ip : Nat) (s : VmState) (e : RunErr),
    (exec p gas (.loop ip) s).2 = .error e → e.kind = .timeout →
    (exec p gas (.loop ip) s).1.remaining = 0 := by
  intro gas
  induction gas with
  | zero =>
    intro ip s e h hk
    rw [exec_zero] at h
    simp only [Except.error.injEq] at h
    subst h
    cases hk
  | succ gas ih =>
    intro ip s e
    rw [exec_loop]
    split
    · intro h hk
      simp only [Except.error.injEq] at h
      subst h
      cases hk
    split
    · next h0 => intro _ _; exact h0
    split
    · next e' s' heq =>
      intro h hk
      simp only [Except.error.injEq] at h
      subst h
      have := (throws_step p (reenterOf p gas) ip).err s.tick e' (by rw [heq])
      exact absurd hk this.1
    · next ctl s' heq =>
      split
      · intro h; cases h
      · exact ih _ _ _

/-- **C03, Timeout**: if a run ends with `Timeout`, the budget is exhausted -/
theorem timeout_only_when_exhausted (p : Prog) (n : Nat) (s : VmState) (e : RunErr)
    (h : (run p n s).2 = some e) (hk : e.kind = .timeout) : (run p n s).1.remaining = 0 := by
  by_cases hr : s.frames.length < s.frameCap
  · rw [run_room p n s hr] at h ⊢
    simp only at h ⊢
    apply loop_timeout p _ _ _ e _ hk
    split at h
    · cases h
    · next e' heq => simp only [Option.some.injEq] at h; rw [heq, h]
  · rw [run_no_room p n s (Nat.not_lt.1 hr)] at h
    simp only [Option.some.injEq] at h
    subst h
    cases hk

/-- conversely, a run that still has budget left did not time out -/
theorem no_timeout_with_budget_left (p : Prog) (n : Nat) (s : VmState) (e : RunErr)
    (h : (run p n s).2 = some e) (hrem : (run p n s).1.remaining ≠ 0) : e.kind ≠ .timeout :=
  fun hk => hrem (timeout_only_when_exhausted p n s e h hk)

/-! ## 4. fuel

`exec` is total because it recurses on a fuel argument; `run` supplies `gasFor`. The fuel is a
device of the model, so "the fuel never runs out" is an adequacy statement about the model. -/

/-- the top-level loop never runs out of fuel: each of its iterations costs one unit of fuel and one
    unit of budget, and `gasFor` exceeds the budget -/
theorem loop_fuel (p : Prog) : ∀ (gas ip : Nat) (s : VmState) (e : RunErr),
    s.remaining + 1 ≤ gas → (exec p gas (.loop ip) s).2 = .error e →
    e.kind ≠ .panic "gas exhausted" := by
  intro gas
  induction gas with
  | zero => intro ip s e h; omega
  | succ gas ih =>
    intro ip s e hg
    rw [exec_loop]
    split
    · intro h; simp only [Except.error.injEq] at h; subst h; simp
    split
    · intro h; simp only [Except.error.injEq] at h; subst h; simp
    next _ hrem =>
    have hre : ∀ f, Pres Budget (reenterOf p gas f) :=
      fun f => pres_liftRun (fun s => exec_pres (R := Budget) p gas (.call f) s)
    have hb := (pres_step p _ hre ip).rel s.tick
    split
    · next e' s' heq =>
      intro h
      simp only [Except.error.injEq] at h
      subst h
      exact ((throws_step p (reenterOf p gas) ip).err s.tick e' (by rw [heq])).2
    · next ctl s' heq =>
      rw [heq] at hb
      split
      · intro h; cases h
      · apply ih
        simp only [Budget, VmState.tick] at hb
        omega

/-- **`run` itself never reports the fuel panic** (but see below: a *nested* loop can) -/
theorem gas_suffices_toplevel (p : Prog) (n : Nat) (s : VmState) (e : RunErr)
    (h : (run p n s).2 = some e) : e.kind ≠ .panic "gas exhausted" := by
  by_cases hr : s.frames.length < s.frameCap
  · rw [run_room p n s hr] at h
    simp only at h
    split at h
    · cases h
    · next e' heq =>
      simp only [Option.some.injEq] at h
      subst h
      exact loop_fuel p _ _ _ _ (by simp only [started, gasFor]; omega) heq
  · rw [run_no_room p n s (Nat.not_lt.1 hr)] at h
    simp only [Option.some.injEq] at h
    subst h
    simp

/-- (`rootCause`, in `Lemmas/VmFrame.lean`, strips the `TaskFailure` wrappers natives put around
    the errors of their callees) -/
def isFuelPanic : ErrKind → Bool
  | .panic w => w == "gas exhausted"
  | _ => false

/-- the statement one would like: no run ever hits the fuel limit, at any nesting depth.
    **It is false for arbitrary start states and host functions** (`not_gas_suffices_Full`):
    natives can re-enter natives without dispatching an instruction (`run_function` on a native
    callee calls it directly, also in the Rust), so no bound that depends only on `maxInstr`,
    `frameCap` and the stack size is enough when a host function pops more than it pushes
    (`__min` with a native key function on a table that contains itself recurses without consuming
    budget — in the model until the fuel is gone, in the Rust until the native stack overflows).
    For script-level nesting `gasFor = 2·maxInstr + …` is enough: every level is entered by a
    dispatched call instruction. A full adequacy theorem needs the hypothesis that host functions
    are stack-neutral (they leave the value stack at least as high as they found it, which bounds
    native→native recursion by the value stack); that is recorded as an assumption in DESIGN.md. -/
def gas_suffices_Full : Prop :=
  ∀ (p : Prog) (n : Nat) (s : VmState) (e : RunErr),
    (run p n s).2 = some e → isFuelPanic (rootCause e.kind) = false

private def le32 (n : Nat) : List UInt8 :=
  [UInt8.ofNat (n % 256), UInt8.ofNat (n / 256 % 256), UInt8.ofNat (n / 65536 % 256),
   UInt8.ofNat (n / 16777216 % 256)]

/-! ### natives re-entering natives do not consume budget

`run_function` on a *native* callee calls it directly (also in the Rust: `Vm::run_function`,
`NativeFunction` arm), without touching `remaining_iters`. With the table `it = {three ↦ T, __min ↦ it}`
(`T` any table with a few rows) on the stack below the native `__min`, the instruction
`callNative __min` recurses for ever: level `k` first maps `three` over `T` — which pops more than
was pushed and so empties the value stack —, then calls `__min(it, __min)` again. One instruction
is dispatched; the model stops when the fuel is gone, whatever the fuel (checked here for the fuel
`run` supplies on a tiny machine: 46 units). -/

/-- 1036830421 = handle of `__min`, 2290484163 = handle of the test native `three` -/
def cycProg : Prog :=
  { bytecode := ([Compiler.op.callNative] ++ le32 1036830421 ++ [Compiler.op.exit]).toArray,
    data := #[], labels := [], varNames := [], trace := [] }

def tinyVm : VmState := VmState.fresh { stackSize := 7, callStackSize := 1 }

def cycVm : VmState :=
  { tinyVm with
    heap := { objs := [(1, .native 1036830421), (2, .native 2290484163),
                       (3, .table 8 ([(.int 0, .nil), (.int 1, .nil)])),
                       (4, .table 8 [(.obj 2, .obj 3), (.obj 1, .obj 4)])], next := 5 },
    globals := [.obj 4, .obj 1, .obj 2, .obj 3],      -- keeps the four objects alive
    stack := { count := 2, data := (tinyVm.stack.data.set 0 (.obj 4)).set 1 (.obj 1) } }

private def cycCheck : Bool :=
  match run cycProg 3 cycVm with
  | (s', some e) => isFuelPanic (rootCause e.kind) && s'.dispatches == 1 && s'.remaining == 2
  | _ => false

private theorem cycCheck_true : cycCheck = true := by decide +kernel

/-- budget 3, one instruction dispatched, 2 units left, fuel gone -/
theorem native_recursion_ignores_budget :
    ∃ e, (run cycProg 3 cycVm).2 = some e ∧ isFuelPanic (rootCause e.kind) = true ∧
      (run cycProg 3 cycVm).1.dispatches = 1 ∧ (run cycProg 3 cycVm).1.remaining = 2 := by
  have h := cycCheck_true
  unfold cycCheck at h
  split at h
  · next s' e heq =>
    simp only [Bool.and_eq_true, beq_iff_eq] at h
    exact ⟨e, by rw [heq], h.1.1, by rw [heq]; exact h.1.2, by rw [heq]; exact h.2⟩
  · cases h

theorem not_gas_suffices_Full : ¬ gas_suffices_Full := by
  intro h
  obtain ⟨e, he, hp, _⟩ := native_recursion_ignores_budget
  have := h cycProg 3 cycVm e he
  rw [hp] at this
  cases this

/-! ## 5. more budget changes nothing but what is left

`Fatal e` (`Lemmas/VmFrame.lean`): the innermost cause of `e` is `Timeout` or the fuel panic. Both
have to be excluded: a nested `Timeout` reaches the top wrapped in `TaskFailure`s, and the fuel
`run` supplies grows with the budget, so a run that hit the fuel limit (see section 4) may get
further with a larger budget. -/

/-- **budget monotonicity**: a run that neither timed out nor ran out of fuel (at any nesting
    depth) is reproduced exactly by every larger budget — same outcome, same final machine, except
    that the additional units are still there. (`dispatches` is part of the machine: the same
    number of instructions is executed.) -/
theorem budget_monotone (p : Prog) (n δ : Nat) (s : VmState) (h : s.frames.length < s.frameCap)
    (hnf : ∀ e, (run p n s).2 = some e → ¬ Fatal e.kind) :
    run p (n + δ) s =
      ({ (run p n s).1 with remaining := (run p n s).1.remaining + δ }, (run p n s).2) := by
  rw [run_room p n s h] at hnf ⊢
  rw [run_room p (n + δ) s h]
  have hst : started (n + δ) s = (started n s).shift δ := rfl
  have hgas : gasFor (started n s) n ≤ gasFor (started (n + δ) s) (n + δ) := by
    simp only [gasFor, started]; omega
  have key := exec_shift p δ _ _ (.loop 0) (started n s) hgas (by
    intro e he
    apply hnf e
    simp only [he])
  simp only [hst] at key ⊢
  rw [key]
  rfl

/-- the same, for an arbitrary larger budget -/
theorem budget_monotone' (p : Prog) (n n' : Nat) (s : VmState) (hn : n ≤ n')
    (h : s.frames.length < s.frameCap) (hnf : ∀ e, (run p n s).2 = some e → ¬ Fatal e.kind) :
    (run p n' s).2 = (run p n s).2 ∧
    (run p n' s).1 = { (run p n s).1 with remaining := (run p n s).1.remaining + (n' - n) } := by
  obtain ⟨δ, rfl⟩ : ∃ δ, n' = n + δ := ⟨n' - n, by omega⟩
  rw [budget_monotone p n δ s h hnf]
  have : n + δ - n = δ := by omega
  simp only [this, and_self]

/-- in particular a run without error is reproduced -/
theorem budget_monotone_ok (p : Prog) (n n' : Nat) (s : VmState) (hn : n ≤ n')
    (h : s.frames.length < s.frameCap) (hok : (run p n s).2 = none) :
    (run p n' s).2 = none ∧ (run p n' s).1.dispatches = (run p n s).1.dispatches := by
  have := budget_monotone' p n n' s hn h (fun e he => by rw [hok] at he; cases he)
  rw [this.1, this.2]
  exact ⟨hok, rfl⟩

/-! ## 6. non-vacuity -/

def tinyProg : Prog :=
  { bytecode := #[Compiler.op.scalarNil, Compiler.op.pop, Compiler.op.exit], data := #[],
    labels := [], varNames := [], trace := [] }

/-- `nil; pop; exit` with budget 10 on a fresh default machine: no error, three dispatches,
    seven units left -/
example : (run tinyProg 10 (VmState.fresh {})).2.isNone = true ∧
    (run tinyProg 10 (VmState.fresh {})).1.dispatches = 3 ∧
    (run tinyProg 10 (VmState.fresh {})).1.remaining = 7 := by decide +kernel

/-- the same program with budget 3 times out after two instructions: the bound `n - 1` is tight -/
example : ((run tinyProg 3 (VmState.fresh {})).2.map (fun e => e.kind.name)) = some "Timeout" ∧
    (run tinyProg 3 (VmState.fresh {})).1.dispatches = 2 ∧
    (run tinyProg 3 (VmState.fresh {})).1.remaining = 0 := by decide +kernel

end Cao.C03
