import CaoModel.OVal
/-!
# C19 — equality, hashing and ordering of runtime values

Property theorems only. The operations (`veq`, `vhash`, `vcmp`, `vlt`, `asBool`, in
`CaoModel/OVal.lean`) are the code-shaped models of `Value::eq`, `Hash for Value`,
`Value::partial_cmp` and `Value::as_bool`, tied to `value.rs` / `cao_lang_object.rs` by the
`val` correspondence engine. They are defined on `OVal`, the tree obtained by unfolding the heap
graph below an acyclic runtime value. Everything about reals is stated for an arbitrary
`F : F64Ops` under the explicit IEEE-754 laws `LawfulF64 F`.

Contents
* `eqDom` — nil, integers, non-NaN reals, strings, tables of such (no function values);
  `noZero` — no real that compares equal to zero (the "signed zero" exception of hashing).
* `veq_refl` (on `eqDom`), `veq_symm`, `veq_trans` (all values) — `==` is an equivalence.
* `veq_eq_of_noZero`, `veq_iff_eq`, `veq_iff_eq_on_keys` — `==` is structural equality off ±0.
* `veq_hash` (and `veq_hashInto`, `veq_hashIntoL`) — equal values hash equally.
* `veq_vcmp`, `veq_not_lt`, `veq_vle`, `vlt_irrefl`, `vlt_asymm` — the ordering is consistent
  with `==` and asymmetric.
* `vcmp_*`, `realCmp_*`, `vlt_eq` — what the ordering is on each combination of kinds.
* `toyF64`, `toyF64_lawful` and the `example`s — the hypotheses are satisfiable.

## Totality (termination without error on acyclic values)
`veq`, `hashInto`/`vhash`, `vcmp`, `vlt`, `vle`, `asBool`, `toF64`, `toI64` are Lean functions
defined by structural recursion on the finite tree `OVal` with plain (non-`Option`, non-`Except`)
result types: they return a value for every input and depend on nothing but their arguments
(and `F`), so there is nothing to prove at this level — it is definitional. The substantive part
of "comparing, hashing or testing the truthiness of any acyclic value terminates without error"
is that the heap graph below an acyclic `Val` unfolds into such a finite tree (and that the
Rust recursion follows it); that is proved with the heap model (`Val`-to-`OVal` unfolding of
acyclic heaps, see the table/heap property files) and checked differentially by the `val`
engine, not here.
-/
namespace Cao.C19
open Cao Cao.OVal

variable {F : F64Ops}

/-! ## domains -/

mutual
  /-- the values on which `==` is reflexive: no NaN, no function values, recursively -/
  def eqDom (F : F64Ops) : OVal → Bool
    | .nil => true
    | .int _ => true
    | .real r => !F.isNaN r
    | .str _ => true
    | .table es => eqDomL F es
    | .fn _ _ => false
    | .native _ => false
    | .closure _ _ => false
  def eqDomL (F : F64Ops) : List (OVal × OVal) → Bool
    | [] => true
    | (k, v) :: r => eqDom F k && eqDom F v && eqDomL F r
end

mutual
  /-- no real that compares equal to zero anywhere inside (signed zeros are `==` but have
      different bit patterns, hence different hashes) -/
  def noZero (F : F64Ops) : OVal → Bool
    | .real r => !F.eq r (F.ofNat 0)
    | .table es => noZeroL F es
    | _ => true
  def noZeroL (F : F64Ops) : List (OVal × OVal) → Bool
    | [] => true
    | (k, v) :: r => noZero F k && noZero F v && noZeroL F r
end

/-! ## `==` is an equivalence relation -/

mutual
  theorem veq_refl (hF : LawfulF64 F) : ∀ (a : OVal), eqDom F a = true → veq F a a = true
    | .nil, _ => by simp [veq]
    | .int _, _ => by simp [veq]
    | .real r, h => by
        simp only [eqDom, Bool.not_eq_true'] at h
        simp only [veq]; exact hF.eq_refl r h
    | .str _, _ => by simp [veq]
    | .table es, h => by
        simp only [eqDom] at h
        simp only [veq, BEq.rfl, Bool.true_and]; exact veqL_refl hF es h
    | .fn _ _, h => by simp [eqDom] at h
    | .native _, h => by simp [eqDom] at h
    | .closure _ _, h => by simp [eqDom] at h
  theorem veqL_refl (hF : LawfulF64 F) : ∀ (es : List (OVal × OVal)), eqDomL F es = true → veqL F es es = true
    | [], _ => by simp [veqL]
    | (k, v) :: r, h => by
        simp only [eqDomL, Bool.and_eq_true] at h
        simp only [veqL, Bool.and_eq_true]
        exact ⟨⟨veq_refl hF k h.1.1, veq_refl hF v h.1.2⟩, veqL_refl hF r h.2⟩
end

mutual
  theorem veq_symm (hF : LawfulF64 F) : ∀ (a b : OVal), veq F a b = veq F b a
    | .nil, b => by cases b <;> simp [veq]
    | .int x, b => by cases b <;> simp [veq, Bool.beq_comm]
    | .real x, b => by cases b <;> simp [veq, hF.eq_symm x]
    | .str x, b => by cases b <;> simp [veq, Bool.beq_comm]
    | .table x, b => by
        cases b <;> simp [veq]
        rename_i y
        rw [veqL_symm hF x y, Bool.beq_comm]
    | .fn _ _, b => by cases b <;> simp [veq]
    | .native _, b => by cases b <;> simp [veq]
    | .closure _ _, b => by cases b <;> simp [veq]
  theorem veqL_symm (hF : LawfulF64 F) : ∀ (a b : List (OVal × OVal)), veqL F a b = veqL F b a
    | [], [] => by simp [veqL]
    | [], _ :: _ => by simp [veqL]
    | _ :: _, [] => by simp [veqL]
    | (k, v) :: r, (k', v') :: r' => by
        simp only [veqL]
        rw [veq_symm hF k k', veq_symm hF v v', veqL_symm hF r r']
end


mutual
  theorem veq_trans (hF : LawfulF64 F) : ∀ (a b c : OVal), veq F a b = true → veq F b c = true → veq F a c = true
    | .nil, b, c, h1, h2 => by cases b <;> cases c <;> simp_all [veq]
    | .int x, b, c, h1, h2 => by cases b <;> cases c <;> simp_all [veq]
    | .real x, b, c, h1, h2 => by
        cases b <;> cases c <;> (try (simp [veq] at h1 h2; done))
        simp only [veq] at h1 h2 ⊢
        exact hF.eq_trans _ _ _ h1 h2
    | .str x, b, c, h1, h2 => by cases b <;> cases c <;> simp_all [veq]
    | .table x, b, c, h1, h2 => by
        cases b <;> cases c <;> (try (simp [veq] at h1 h2; done))
        all_goals (try (simp [veq]; done))
        rename_i y z
        simp only [veq, Bool.and_eq_true, beq_iff_eq] at h1 h2 ⊢
        exact ⟨h1.1.trans h2.1, veqL_trans hF x y z h1.1 h1.2 h2.2⟩
    | .fn _ _, b, c, h1, h2 => by cases b <;> simp [veq] at h1
    | .native _, b, c, h1, h2 => by cases b <;> simp [veq] at h1
    | .closure _ _, b, c, h1, h2 => by cases b <;> simp [veq] at h1
  theorem veqL_trans (hF : LawfulF64 F) : ∀ (a b c : List (OVal × OVal)), a.length = b.length →
      veqL F a b = true → veqL F b c = true → veqL F a c = true
    | [], _, _, _, _, _ => by simp [veqL]
    | _ :: _, [], _, hl, _, _ => by simp at hl
    | _ :: _, _ :: _, [], _, _, _ => by simp [veqL]
    | (k, v) :: r, (k', v') :: r', (k'', v'') :: r'', hl, h1, h2 => by
        simp only [veqL, Bool.and_eq_true] at h1 h2 ⊢
        simp only [List.length_cons, Nat.add_right_cancel_iff] at hl
        exact ⟨⟨veq_trans hF k k' k'' h1.1.1 h2.1.1, veq_trans hF v v' v'' h1.1.2 h2.1.2⟩,
          veqL_trans hF r r' r'' hl h1.2 h2.2⟩
end


/-- **C19 (equivalence)**: on nil, integers, non-NaN reals, strings and tables of such, `==` is
    an equivalence relation (symmetry and transitivity hold on all values). -/
theorem veq_equivalence (hF : LawfulF64 F) :
    (∀ a, eqDom F a = true → veq F a a = true) ∧
    (∀ a b, veq F a b = true → veq F b a = true) ∧
    (∀ a b c, veq F a b = true → veq F b c = true → veq F a c = true) :=
  ⟨veq_refl hF, fun a b h => by rw [veq_symm hF]; exact h, veq_trans hF⟩

/-! ## `==` implies structural equality when no ±0 is involved -/

mutual
  theorem veq_eq_of_noZero (hF : LawfulF64 F) : ∀ (a b : OVal), noZero F a = true → veq F a b = true → a = b
    | .nil, b, _, h => by cases b <;> simp [veq] at h ⊢
    | .int x, b, _, h => by cases b <;> simp [veq] at h ⊢; exact h
    | .real x, b, hz, h => by
        cases b <;> simp [veq] at h ⊢
        simp only [noZero, Bool.not_eq_true'] at hz
        exact hF.eq_bits _ _ h hz
    | .str x, b, _, h => by cases b <;> simp [veq] at h ⊢; exact h
    | .table x, b, hz, h => by
        cases b <;> simp [veq] at h ⊢
        simp only [noZero] at hz
        exact veqL_eq_of_noZero hF x _ hz h.1 h.2
    | .fn _ _, b, _, h => by cases b <;> simp [veq] at h
    | .native _, b, _, h => by cases b <;> simp [veq] at h
    | .closure _ _, b, _, h => by cases b <;> simp [veq] at h
  theorem veqL_eq_of_noZero (hF : LawfulF64 F) : ∀ (a b : List (OVal × OVal)), noZeroL F a = true →
      a.length = b.length → veqL F a b = true → a = b
    | [], [], _, _, _ => rfl
    | [], _ :: _, _, hl, _ => by simp at hl
    | _ :: _, [], _, hl, _ => by simp at hl
    | (k, v) :: r, (k', v') :: r', hz, hl, h => by
        simp only [veqL, Bool.and_eq_true] at h
        simp only [noZeroL, Bool.and_eq_true] at hz
        simp only [List.length_cons, Nat.add_right_cancel_iff] at hl
        rw [veq_eq_of_noZero hF k k' hz.1.1 h.1.1, veq_eq_of_noZero hF v v' hz.1.2 h.1.2,
          veqL_eq_of_noZero hF r r' hz.2 hl h.2]
end


/-! ## ordering -/

private def Cast.swap : Cast → Cast
  | .reals a b => .reals b a
  | .ints a b => .ints b a
  | .other => .other

private theorem castMatch_swap (a b : OVal) : castMatch F b a = Cast.swap (castMatch F a b) := by
  unfold castMatch
  rw [Bool.or_comm (isFloat b), Bool.or_comm (isInt b)]
  split
  · rfl
  · split <;> rfl

/-- `<` spelled out per coercion class -/
theorem vlt_eq (a b : OVal) : vlt F a b = match castMatch F a b with
    | .reals x y => F.lt x y
    | .ints x y => decide (x.toInt < y.toInt)
    | .other => isObj a && isObj b && !veq F a b && decide (a.len < b.len) := by
  unfold vlt vcmp
  cases castMatch F a b with
  | reals x y =>
    simp only
    cases F.lt x y <;> cases F.eq x y <;> cases F.lt y x <;> rfl
  | ints x y =>
    simp only
    rcases Int.lt_trichotomy x.toInt y.toInt with h | h | h
    · simp [Int.compare_eq_lt.2 h, h]
    · simp [h]
    · simp [Int.compare_eq_gt.2 h, Int.lt_asymm h]
  | other =>
    simp only
    cases isObj a <;> cases isObj b <;> cases veq F a b <;> simp
    rcases Nat.lt_trichotomy a.len b.len with h | h | h
    · simp [Nat.compare_eq_lt.2 h, h]
    · simp [h]
    · simp [Nat.compare_eq_gt.2 h, Nat.lt_asymm h]


theorem vlt_asymm (hF : LawfulF64 F) (a b : OVal) (h : vlt F a b = true) : vlt F b a = false := by
  rw [vlt_eq] at h ⊢
  rw [castMatch_swap]
  cases hc : castMatch F a b with
  | reals x y =>
    simp only [hc, Cast.swap] at h ⊢
    exact hF.lt_asymm _ _ h
  | ints x y =>
    simp only [hc, Cast.swap, decide_eq_true_eq, decide_eq_false_iff_not] at h ⊢
    omega
  | other =>
    simp only [hc, Cast.swap, Bool.and_eq_true, decide_eq_true_eq] at h ⊢
    have : ¬ b.len < a.len := by omega
    simp [this]

theorem vlt_irrefl (hF : LawfulF64 F) (a : OVal) : vlt F a a = false := by
  cases h : vlt F a a with
  | false => rfl
  | true => have := vlt_asymm hF a a h; rw [h] at this; exact this

/-! ## numeric order facts -/

/-- the comparison of two doubles -/
def realCmp (F : F64Ops) (x y : UInt64) : Option Ordering :=
  if F.lt x y then some .lt else if F.eq x y then some .eq else if F.lt y x then some .gt else none

theorem vcmp_real_real (x y : UInt64) : vcmp F (.real x) (.real y) = realCmp F x y := rfl

theorem vcmp_int_int (a b : Int64) : vcmp F (.int a) (.int b) = some (compare a.toInt b.toInt) := rfl

/-- if either side is a real, both are coerced to reals -/
theorem vcmp_coerce_real (a b : OVal) (h : (isFloat a || isFloat b) = true) :
    vcmp F a b = realCmp F (toF64 F a) (toF64 F b) := by
  simp only [vcmp, castMatch, h, if_true, realCmp]

/-- else if either side is an integer, both are coerced to integers -/
theorem vcmp_coerce_int (a b : OVal) (hf : (isFloat a || isFloat b) = false)
    (h : (isInt a || isInt b) = true) :
    vcmp F a b = some (compare (toI64 F a).toInt (toI64 F b).toInt) := by
  simp [vcmp, castMatch, h, hf]

/-- else two objects: equal, or ordered by length -/
theorem vcmp_obj_obj (a b : OVal) (ha : isObj a = true) (hb : isObj b = true) :
    vcmp F a b = if veq F a b then some .eq
      else if a.len = b.len then none else some (compare a.len b.len) := by
  have hf : (isFloat a || isFloat b) = false := by
    cases a <;> cases b <;> simp [isObj] at ha hb <;> rfl
  have hi : (isInt a || isInt b) = false := by
    cases a <;> cases b <;> simp [isObj] at ha hb <;> rfl
  simp only [vcmp, castMatch, hf, hi, ha, hb]
  simp only [Bool.false_eq_true, if_false, Bool.and_self, if_true]
  split
  · rfl
  · rcases Nat.lt_trichotomy a.len b.len with h | h | h
    · simp [Nat.compare_eq_lt.2 h, Nat.ne_of_lt h]
    · simp [h]
    · simp [Nat.compare_eq_gt.2 h, Nat.ne_of_gt h]

/-- everything else (nil or a function against nil/an object …) is unordered -/
theorem vcmp_other (a b : OVal) (hf : (isFloat a || isFloat b) = false)
    (hi : (isInt a || isInt b) = false) (ho : (isObj a && isObj b) = false) :
    vcmp F a b = none := by
  simp [vcmp, castMatch, hf, hi, ho]


/-! ### two reals: `lt / eq / gt / none` exactly according to `F.lt` / `F.eq` -/

theorem realCmp_lt (x y : UInt64) : realCmp F x y = some .lt ↔ F.lt x y = true := by
  unfold realCmp
  cases F.lt x y <;> cases F.eq x y <;> cases F.lt y x <;> simp

theorem realCmp_eq (hF : LawfulF64 F) (x y : UInt64) : realCmp F x y = some .eq ↔ F.eq x y = true := by
  unfold realCmp
  have := hF.eq_not_lt x y
  cases h1 : F.lt x y <;> cases h2 : F.eq x y <;> cases F.lt y x <;> simp_all

theorem realCmp_gt (hF : LawfulF64 F) (x y : UInt64) : realCmp F x y = some .gt ↔ F.lt y x = true := by
  unfold realCmp
  have h1 := hF.lt_asymm x y
  have h2 := hF.eq_not_lt y x
  have h3 := hF.eq_symm x y
  cases h4 : F.lt x y <;> cases h5 : F.eq x y <;> cases h6 : F.lt y x <;> simp_all

/-- unordered exactly when one side is NaN -/
theorem realCmp_none (hF : LawfulF64 F) (x y : UInt64) :
    realCmp F x y = none ↔ (F.isNaN x = true ∨ F.isNaN y = true) := by
  unfold realCmp
  constructor
  · intro h
    cases hx : F.isNaN x
    · cases hy : F.isNaN y
      · rcases hF.total x y hx hy with h1 | h1 | h1
        · simp [h1] at h
        · simp [h1] at h; split at h <;> simp at h
        · simp [h1] at h; split at h <;> (try split at h) <;> simp at h
      · simp
    · simp
  · rintro (h | h)
    · simp [hF.lt_nan_l x y h, hF.eq_nan x y h, hF.lt_nan_r y x h]
    · simp [hF.lt_nan_r x y h, hF.eq_symm x y, hF.eq_nan y x h, hF.lt_nan_l y x h]

/-! ### integers and reals mix freely; nil counts as 0, a string / table as its length -/

theorem vcmp_int_real (i : Int64) (r : UInt64) :
    vcmp F (.int i) (.real r) = vcmp F (.real (F.ofInt i)) (.real r) := rfl
theorem vcmp_real_int (r : UInt64) (i : Int64) :
    vcmp F (.real r) (.int i) = vcmp F (.real r) (.real (F.ofInt i)) := rfl
theorem vcmp_nil_int (i : Int64) : vcmp F .nil (.int i) = vcmp F (.int 0) (.int i) := rfl
theorem vcmp_int_nil (i : Int64) : vcmp F (.int i) .nil = vcmp F (.int i) (.int 0) := rfl
theorem vcmp_nil_real (r : UInt64) : vcmp F .nil (.real r) = vcmp F (.real (F.ofNat 0)) (.real r) := rfl
theorem vcmp_real_nil (r : UInt64) : vcmp F (.real r) .nil = vcmp F (.real r) (.real (F.ofNat 0)) := rfl
theorem vcmp_str_int (s : List UInt8) (i : Int64) :
    vcmp F (.str s) (.int i) = vcmp F (.int (Int64.ofNat s.length)) (.int i) := rfl
theorem vcmp_int_str (i : Int64) (s : List UInt8) :
    vcmp F (.int i) (.str s) = vcmp F (.int i) (.int (Int64.ofNat s.length)) := rfl
theorem vcmp_table_int (es : List (OVal × OVal)) (i : Int64) :
    vcmp F (.table es) (.int i) = vcmp F (.int (Int64.ofNat es.length)) (.int i) := rfl
theorem vcmp_int_table (i : Int64) (es : List (OVal × OVal)) :
    vcmp F (.int i) (.table es) = vcmp F (.int i) (.int (Int64.ofNat es.length)) := rfl
theorem vcmp_str_real (s : List UInt8) (r : UInt64) :
    vcmp F (.str s) (.real r) = vcmp F (.real (F.ofNat s.length)) (.real r) := rfl
theorem vcmp_real_str (r : UInt64) (s : List UInt8) :
    vcmp F (.real r) (.str s) = vcmp F (.real r) (.real (F.ofNat s.length)) := rfl
theorem vcmp_table_real (es : List (OVal × OVal)) (r : UInt64) :
    vcmp F (.table es) (.real r) = vcmp F (.real (F.ofNat es.length)) (.real r) := rfl
theorem vcmp_real_table (r : UInt64) (es : List (OVal × OVal)) :
    vcmp F (.real r) (.table es) = vcmp F (.real r) (.real (F.ofNat es.length)) := rfl

/-- two strings: equal by content, else ordered by length, else unordered -/
theorem vcmp_str_str (s t : List UInt8) :
    vcmp F (.str s) (.str t) = if s = t then some .eq
      else if s.length = t.length then none else some (compare s.length t.length) := by
  rw [vcmp_obj_obj _ _ rfl rfl]
  by_cases h : s = t <;> simp [h, veq, len] <;> rfl

/-- two tables: equal by content (`veq`), else ordered by length, else unordered -/
theorem vcmp_table_table (s t : List (OVal × OVal)) :
    vcmp F (.table s) (.table t) = if veq F (.table s) (.table t) then some .eq
      else if s.length = t.length then none else some (compare s.length t.length) := by
  rw [vcmp_obj_obj _ _ rfl rfl]
  cases h : veq F (.table s) (.table t) <;> simp [len] <;> rfl

theorem vlt_int_int (a b : Int64) : vlt F (.int a) (.int b) = decide (a.toInt < b.toInt) := by
  rw [vlt_eq]; rfl

theorem vlt_real_real (x y : UInt64) : vlt F (.real x) (.real y) = F.lt x y := by
  rw [vlt_eq]; rfl

theorem vcmp_nil_nil : vcmp F .nil .nil = none := rfl

/-! ## the ordering never contradicts equality -/

/-- equal values compare `eq` (two nils are equal but unordered) -/
theorem veq_vcmp (hF : LawfulF64 F) (a b : OVal) (h : veq F a b = true) :
    (a = .nil ∧ b = .nil ∧ vcmp F a b = none) ∨ vcmp F a b = some .eq := by
  cases a <;> cases b <;> (try (simp [veq] at h; done))
  · exact .inl ⟨rfl, rfl, rfl⟩
  · right
    simp only [veq, beq_iff_eq] at h
    rw [vcmp_int_int, h, Int.compare_eq_eq.2 rfl]
  · right
    simp only [veq] at h
    rw [vcmp_real_real]; exact (realCmp_eq hF _ _).2 h
  · right
    simp only [veq, beq_iff_eq] at h
    rw [vcmp_str_str]; simp [h]
  · right
    rw [vcmp_table_table]; simp [h]

theorem veq_not_lt (hF : LawfulF64 F) (a b : OVal) (h : veq F a b = true) :
    vlt F a b = false ∧ vlt F b a = false := by
  have key : ∀ a b, veq F a b = true → vlt F a b = false := by
    intro a b h
    unfold vlt
    rcases veq_vcmp hF a b h with ⟨_, _, h'⟩ | h' <;> rw [h'] <;> rfl
  exact ⟨key a b h, key b a (by rw [veq_symm hF]; exact h)⟩

/-- equal non-nil values are `<=` both ways -/
theorem veq_vle (hF : LawfulF64 F) (a b : OVal) (h : veq F a b = true) (hn : a ≠ .nil) :
    vle F a b = true ∧ vle F b a = true := by
  have key : ∀ a b, veq F a b = true → a ≠ .nil → vle F a b = true := by
    intro a b h hn
    unfold vle
    rcases veq_vcmp hF a b h with ⟨h', _, _⟩ | h'
    · exact absurd h' hn
    · rw [h']
  refine ⟨key a b h hn, key b a (by rw [veq_symm hF]; exact h) ?_⟩
  intro hb; subst hb
  cases a <;> simp [veq] at h
  exact hn rfl

/-! ## equal values hash equally (signed zero excepted) -/

theorem veq_hashInto (hF : LawfulF64 F) (a b : OVal) (hz : noZero F a = true)
    (h : veq F a b = true) (s : UInt64) : hashInto s a = hashInto s b := by
  rw [veq_eq_of_noZero hF a b hz h]

theorem veq_hashIntoL (hF : LawfulF64 F) (a b : List (OVal × OVal)) (hz : noZeroL F a = true)
    (hl : a.length = b.length) (h : veqL F a b = true) (s : UInt64) :
    hashIntoL s a = hashIntoL s b := by
  rw [veqL_eq_of_noZero hF a b hz hl h]

theorem veq_hash (hF : LawfulF64 F) (a b : OVal) (hz : noZero F a = true)
    (h : veq F a b = true) : vhash a = vhash b := by
  unfold vhash; rw [veq_hashInto hF a b hz h]

/-! ## `==` versus structural equality (table keys) -/

theorem veq_iff_eq (hF : LawfulF64 F) (a b : OVal) (hd : eqDom F a = true) (hz : noZero F a = true) :
    veq F a b = true ↔ a = b :=
  ⟨veq_eq_of_noZero hF a b hz, fun e => e ▸ veq_refl hF a hd⟩

/-- plain keys: nil, integers, strings, and reals that are neither NaN nor zero -/
def plainKey (F : F64Ops) : OVal → Bool
  | .nil | .int _ | .str _ => true
  | .real r => !F.isNaN r && !F.eq r (F.ofNat 0)
  | _ => false

theorem veq_iff_eq_on_keys (hF : LawfulF64 F) (a b : OVal) (hk : plainKey F a = true) :
    veq F a b = true ↔ a = b := by
  apply veq_iff_eq hF a b <;> cases a <;> simp_all [plainKey, eqDom, noZero]


/-! ## non-vacuity: a small lawful `F64Ops` with one NaN and two zeros -/

/-- value denoted by a toy "double": the bit patterns `0` and `1` are the two zeros
    (`+0.0`, `-0.0`), every other pattern `n` denotes the number `n` -/
def toyVal (b : UInt64) : Nat := if b.toNat = 1 then 0 else b.toNat

/-- the single NaN pattern of the toy instance -/
def toyNaN (b : UInt64) : Bool := decide (b.toNat = 18446744073709551615)

def toyOfNat (n : Nat) : UInt64 := UInt64.ofNat (if n = 0 then 0 else min (n + 1) 1000)

/-- toy doubles: naturals (clamped at 1000) with a NaN and a signed zero; the arithmetic
    operations are irrelevant to C19 -/
def toyF64 : F64Ops where
  add a _ := a
  sub a _ := a
  mul a _ := a
  div a _ := a
  lt a b := !toyNaN a && !toyNaN b && decide (toyVal a < toyVal b)
  eq a b := !toyNaN a && !toyNaN b && decide (toyVal a = toyVal b)
  isNaN := toyNaN
  ofInt i := toyOfNat i.toInt.toNat
  ofNat := toyOfNat
  toInt _ := 0

private theorem toyOfNat_toNat (n : Nat) :
    (toyOfNat n).toNat = if n = 0 then 0 else min (n + 1) 1000 := by
  unfold toyOfNat
  rw [UInt64.toNat_ofNat']
  apply Nat.mod_eq_of_lt
  split <;> omega

private theorem toyVal_ofNat (n : Nat) :
    toyVal (toyOfNat n) = if n = 0 then 0 else min (n + 1) 1000 := by
  unfold toyVal
  rw [toyOfNat_toNat]
  split <;> split <;> omega

private theorem toyNaN_ofNat (n : Nat) : toyNaN (toyOfNat n) = false := by
  unfold toyNaN
  rw [toyOfNat_toNat]
  simp only [decide_eq_false_iff_not]
  split <;> omega

theorem toyF64_lawful : LawfulF64 toyF64 where
  eq_refl a h := by simp_all [toyF64]
  eq_symm a b := by
    simp only [toyF64]
    cases toyNaN a <;> cases toyNaN b <;> simp [eq_comm]
  eq_trans a b c h1 h2 := by
    simp only [toyF64, Bool.and_eq_true, Bool.not_eq_true', decide_eq_true_eq] at *
    exact ⟨⟨h1.1.1, h2.1.2⟩, h1.2.trans h2.2⟩
  eq_nan a b h := by simp_all [toyF64]
  lt_nan_l a b h := by simp_all [toyF64]
  lt_nan_r a b h := by simp_all [toyF64]
  lt_irrefl a := by simp [toyF64]
  lt_asymm a b h := by
    simp only [toyF64, Bool.and_eq_true, Bool.not_eq_true', decide_eq_true_eq,
      Bool.and_eq_false_iff, Bool.not_eq_false', decide_eq_false_iff_not] at *
    right; omega
  lt_trans a b c h1 h2 := by
    simp only [toyF64, Bool.and_eq_true, Bool.not_eq_true', decide_eq_true_eq] at *
    exact ⟨⟨h1.1.1, h2.1.2⟩, by omega⟩
  eq_not_lt a b h := by
    simp only [toyF64, Bool.and_eq_true, Bool.not_eq_true', decide_eq_true_eq,
      Bool.and_eq_false_iff, Bool.not_eq_false', decide_eq_false_iff_not] at *
    right; omega
  total a b ha hb := by
    simp only [toyF64] at ha hb
    simp only [toyF64, ha, hb, Bool.not_false, Bool.true_and, decide_eq_true_eq]
    omega
  lt_eq_l a b c h := by
    simp only [toyF64, Bool.and_eq_true, Bool.not_eq_true', decide_eq_true_eq] at h
    simp only [toyF64, h.1.1, h.1.2, h.2]
  lt_eq_r a b c h := by
    simp only [toyF64, Bool.and_eq_true, Bool.not_eq_true', decide_eq_true_eq] at h
    simp only [toyF64, h.1.1, h.1.2, h.2]
  eq_bits a b h hz := by
    simp only [toyF64, Bool.and_eq_true, Bool.not_eq_true', decide_eq_true_eq] at h
    simp only [toyF64, h.1.1, toyNaN_ofNat, toyVal_ofNat, Bool.not_false, Bool.true_and,
      if_true, decide_eq_false_iff_not] at hz
    apply UInt64.toNat_inj.1
    have h2 := h.2
    unfold toyVal at h2 hz
    split at h2 <;> split at h2 <;> split at hz <;> omega
  ofInt_notNaN i := toyNaN_ofNat _
  ofNat_notNaN n := toyNaN_ofNat _
  ofInt_mono i j h := by
    simp only [toyF64, toyNaN_ofNat, toyVal_ofNat, Bool.not_false, Bool.true_and,
      decide_eq_false_iff_not]
    split <;> split <;> omega
  ofNat_mono m n h := by
    simp only [toyF64, toyNaN_ofNat, toyVal_ofNat, Bool.not_false, Bool.true_and,
      decide_eq_false_iff_not]
    split <;> split <;> omega


/-- a nested table with a real, strings, integers and nil inside -/
def sampleTable : OVal :=
  .table [(.int 1, .str [104, 105]), (.real 5, .table [(.nil, .int (-2))]), (.str [], .nil)]

/-- the same content, built independently (a different heap object in the runtime) -/
def sampleTable' : OVal :=
  .table ([(.int (3 - 2), .str ([104] ++ [105]))] ++
    [(.real (2 + 3), .table [(.nil, .int (0 - 2))]), (.str [], .nil)])

example : eqDom toyF64 sampleTable = true ∧ noZero toyF64 sampleTable = true := by decide
example : veq toyF64 sampleTable sampleTable' = true := by decide
example : vhash sampleTable = vhash sampleTable' :=
  veq_hash toyF64_lawful _ _ (by decide) (by decide)
example : sampleTable = sampleTable' :=
  (veq_iff_eq toyF64_lawful _ _ (by decide) (by decide)).1 (by decide)


/-! ## further concrete facts (for every `F`) -/

/-- function values are never equal, not even to themselves -/
example : veq F (.fn 1 0) (.fn 1 0) = false ∧ veq F (.native 3) (.native 3) = false ∧
    veq F (.closure 1 0) (.closure 1 0) = false := ⟨rfl, rfl, rfl⟩
/-- mixed kinds are never equal -/
example (r : UInt64) : veq F (.int 1) (.real r) = false := rfl
/-- two nils are equal, unordered, and not even `<=` -/
example : veq F .nil .nil = true ∧ vcmp F .nil .nil = none ∧ vle F .nil .nil = false :=
  ⟨rfl, rfl, rfl⟩
/-- two different strings of the same length are unordered -/
example : vcmp F (.str [1]) (.str [2]) = none := by rw [vcmp_str_str]; decide
/-- the `zip` loop alone accepts a proper prefix: the length test in `veq` is needed -/
example (x : OVal × OVal) : veqL F [x] [] = true := by cases x; rfl

/-- the signed-zero exception of `veq_hash` is necessary: the two zeros of `toyF64` are `==`
    but hash differently; NaN is outside `eqDom` and not `==` to itself -/
example : veq toyF64 (.real 0) (.real 1) = true ∧ vhash (.real 0) ≠ vhash (.real 1) := by decide
example : eqDom toyF64 (.real 18446744073709551615) = false ∧
    veq toyF64 (.real 18446744073709551615) (.real 18446744073709551615) = false := by decide

/-- kinds mix freely in the ordering: `2 < 5.0`, `nil < 1`, `"abc" < 4`, `{…3 entries…} > 2.0` -/
example : vlt toyF64 (.int 2) (.real 5) = true ∧ vlt toyF64 .nil (.int 1) = true ∧
    vlt toyF64 (.str [97, 98, 99]) (.int 4) = true ∧
    vcmp toyF64 sampleTable (.real 2) = some .gt := by decide

end Cao.C19
