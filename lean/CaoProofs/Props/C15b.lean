import CaoProofs.Lemmas.CrossLemmas
import CaoProofs.Props.C04
import CaoProofs.Props.C15
/-!
# C15b — where a run-time error is located, and what its trace consists of

Connects C04 (control-flow integrity of well-formed programs), the trace clauses of
`Bytecode.WF` (every trace key is an instruction start; every instruction start other than the raw
`Pop` / `CloseUpvalue` of `scope_end` has a trace entry — proved for compiled programs in C10:
`compile_trace_starts`, `compile_trace_complete`, `compile_wf_partial`) and C15 (every trace entry
of a compiled program resolves to a source card or is an epilogue entry; a trace entry keyed by a
`CallFunction` resolves to a `Call` / `DynamicCall` card).

The theorems here take `Bytecode.WF p` as a hypothesis; `C10b.compile_wf` provides it for
`compile m std limit = .ok p` under its four hypotheses, and `Props/C15c.lean` composes the two
(`compiled_error_located`, `compiled_error_trace'`, `compiled_sites_classified`: no `WF` hypothesis).
(`Props/C10.lean` and `Props/C15.lean` used to be not co-importable: `Lemmas/WfLemmas.lean` and
`Lemmas/TraceLemmas.lean` both defined `Cao.Compiler.Pre`; the former now lives in `Cao.Compiler.Wf`.)

* `run_error_located` — for a well-formed program and a run from a machine without call frames
  (fresh, cleared, or after any earlier run): the reported address `e.at_` is an instruction start;
  the error is `Timeout` or was raised by the instruction at `e.at_` (or the run did not start:
  `frameCap = 0`); the trace table has an entry keyed `e.at_` unless the opcode there is `Pop`
  (then the error is `Timeout`) or `CloseUpvalue` (`Timeout`, or `InvalidArgument` on an empty
  stack); every frame of `e.frames` has an instruction start as return address and a call site
  that is (a) the address of a `CallFunction` instruction, which has a trace entry, (b) `0` — the
  entry frame `run` pushes, or (c) the position of a label — the two trap frames `run_function`
  pushes (`src := pos`).
* `compiled_error_trace` — for compiled programs: the head of `errTrace` resolves (C15); the
  entry of a `CallFunction` call site resolves to a `Call` / `DynamicCall` card.
* `errTrace_sites` — `errTrace` is the entry of the failing address followed by the entries of the
  call sites, innermost first; call sites of kind (a) contribute exactly one entry each.
-/
namespace Cao.C15b
open Cao Cao.Vm Cao.Compiler Cao.Bytecode Cao.Cross
set_option linter.unusedVariables false
set_option linter.unusedSimpArgs false

/-! ## 1. what `WF` says about the trace table -/

/-- an instruction start is an entry of the decoding, with the opcode that is there, inside the code -/
theorem start_mem {p : Program} {a : Nat} (h : C04.Start p a) :
    (a, p.bytecode.getD a 0) ∈ C04.instrs p ∧ a < p.bytecode.size := by
  unfold C04.Start at h
  obtain ⟨⟨a', o⟩, hm, rfl⟩ := List.mem_map.1 h
  unfold C04.instrs at hm ⊢
  split at hm
  · next l hl =>
    obtain ⟨ch, hch0, hchain⟩ := C04.decodeAll_chain _ _ _ _ _ hl
    simp only [List.reverse_nil, List.nil_append] at hch0
    subst hch0
    obtain ⟨ho, hlt, _⟩ := hchain.mem _ _ hm
    subst ho
    exact ⟨hm, hlt⟩
  · cases hm

/-- the two trace clauses of the checker -/
theorem wf_trace_facts {p : Program} (h : WF p) :
    (∀ t ∈ p.trace, C04.Start p t.1) ∧
    (∀ a o, (a, o) ∈ C04.instrs p → needsTrace o = true → ∃ t ∈ p.trace, t.1 = a) := by
  unfold WF wfReason at h
  split at h
  · cases h
  next l hl =>
  have hinstrs : C04.instrs p = l := by unfold C04.instrs; rw [hl]
  dsimp only at h
  split at h
  · cases h
  split at h
  · cases h
  split at h
  · cases h
  split at h
  · cases h
  split at h
  · cases h
  split at h
  · cases h
  next htr =>
  split at h
  · cases h
  next hcomp =>
  clear h
  constructor
  · intro t ht
    rw [List.find?_eq_none] at htr
    have := htr t ht
    simp only [Bool.not_eq_true', Bool.not_eq_false] at this
    unfold C04.Start
    rw [hinstrs]
    exact List.contains_iff_mem.1 (by simpa using this)
  · intro a o hm hn
    rw [hinstrs] at hm
    rw [List.find?_eq_none] at hcomp
    have := hcomp (a, o) hm
    simp only [hn, Bool.true_and, Bool.not_eq_true', Bool.not_eq_false] at this
    have hany : p.trace.any (fun t => t.1 == a) = true := by simpa using this
    obtain ⟨t, ht, e⟩ := List.any_eq_true.1 hany
    exact ⟨t, ht, by simpa using e⟩

theorem lookup_of_mem {p : Prog} {a : Nat} (h : ∃ t ∈ p.trace, t.1 = a) : ∃ t, C15.lookup p a = some t := by
  obtain ⟨t, ht, e⟩ := h
  unfold C15.lookup
  cases hf : p.trace.find? (fun t => t.1 == a) with
  | some x => exact ⟨x.2, rfl⟩
  | none =>
    rw [List.find?_eq_none] at hf
    exact absurd (by simpa using e) (hf t ht)

/-- **every instruction start of a well-formed program whose opcode is not a raw `Pop` /
    `CloseUpvalue` has a trace entry** -/
theorem wf_lookup {p : Program} (h : WF p) {a : Nat} (ha : C04.Start p a)
    (hn : needsTrace (p.bytecode.getD a 0) = true) : ∃ t, C15.lookup (Prog.ofProgram p) a = some t :=
  lookup_of_mem ((wf_trace_facts h).2 a _ (start_mem ha).1 hn)

/-! ## 2. the two untraced opcodes -/

/-- `Pop` cannot fail -/
theorem step_pop_ok (p : Prog) (re : Reenter) (src : Nat) (h : p.bytecode.getD src 0 = op.pop) (s : VmState) :
    ∃ s', (step p re src).go s = (.ok { ip := src + 1 }, s') := by
  rw [Upv.step_pop p re src h]
  exact ⟨_, rfl⟩

/-- `CloseUpvalue` fails only on an empty value stack, with `InvalidArgument` -/
theorem step_closeUpvalue_err (p : Prog) (re : Reenter) (src : Nat) (h : p.bytecode.getD src 0 = op.closeUpvalue)
    (s s' : VmState) (e : ErrKind) (he : (step p re src).go s = (.error e, s')) :
    e = .invalidArgument ∧ s.stack.count = 0 := by
  rw [Upv.step_closeUpvalue p re src h] at he
  unfold Upv.Instr.closeUpvalue at he
  simp only [go_bind, go_get] at he
  by_cases hc : (s.stack.count == 0) = true
  · simp only [hc, if_true, go_bind, go_throwE, Prod.mk.injEq, Except.error.injEq] at he
    exact ⟨he.1.symm, by simpa using hc⟩
  · simp only [hc, Bool.false_eq_true, if_false, go_pure, Upv.go_closeUpvalues] at he
    cases he

theorem needsTrace_false {o : UInt8} (h : needsTrace o = false) : o = op.pop ∨ o = op.closeUpvalue := by
  unfold needsTrace at h
  by_cases h1 : o = op.pop
  · exact .inl h1
  · right
    have h1' : (o == op.pop) = false := by simpa using h1
    simpa [h1'] using h

/-! ## 3. the located error -/

/-- the kinds of call site recorded in a frame: (a) the address of a `CallFunction` instruction
    (`push_call_frame`), (b) `0` (the frame `run` pushes), (c) the position of a label (the two
    frames `run_function` pushes: it records the callee's entry, not a call instruction) -/
def SiteOK (p : Program) (a : Nat) : Prop :=
  (C04.Start p a ∧ p.bytecode.getD a 0 = op.callFunction) ∨ a = 0 ∨ ∃ l ∈ p.labels, l.2 = a

/-- **`run_error_located`** (VM side, any well-formed program) -/
theorem run_error_located {p : Program} (hwf : WF p) (n : Nat) (s : VmState) (hs : s.frames = [])
    (e : RunErr) (he : (run (Prog.ofProgram p) n s).2 = some e) :
    -- (1) the failing address is an instruction start …
    C04.Start p e.at_ ∧
    -- … the error is the budget's, or the instruction there raised it (or the run did not start)
    (e.kind = .timeout ∨
      (∃ (re : Reenter) (s0 s1 : VmState), (step (Prog.ofProgram p) re e.at_).go s0 = (.error e.kind, s1)) ∨
      (e = ⟨.callStackOverflow, 0, []⟩ ∧ s.frameCap = 0)) ∧
    -- … and it has a trace entry, except at the two raw opcodes of `scope_end`
    ((∃ t, C15.lookup (Prog.ofProgram p) e.at_ = some t) ∨
      (p.bytecode.getD e.at_ 0 = op.pop ∧ (e.kind = .timeout ∨ s.frameCap = 0)) ∨
      (p.bytecode.getD e.at_ 0 = op.closeUpvalue ∧
        (e.kind = .timeout ∨ e.kind = .invalidArgument ∨ s.frameCap = 0))) ∧
    -- (2) the frames of the moment of failure
    (∀ f ∈ e.frames, C04.Start p f.dst ∧ SiteOK p f.src) ∧
    (∀ f ∈ e.frames, p.bytecode.getD f.src 0 = op.callFunction → C04.Start p f.src →
      ∃ t, C15.lookup (Prog.ofProgram p) f.src = some t) := by
  obtain ⟨hcfi, h0⟩ := C04.wf_cfi hwf
  have hinv : FInv (C04.Start p) (SiteOK p) s.frames := by rw [hs]; exact FInv.nil _ _
  obtain ⟨hat, hfr, hsrc⟩ := run_located (G := C04.Start p) (P := SiteOK p) (Prog.ofProgram p) hcfi h0
    (fun l hl => .inr (.inr ⟨l, hl, rfl⟩)) (fun a ha ho => .inl ⟨ha, ho⟩) (.inr (.inl rfl)) n s hinv e he
  have hgas : e.kind ≠ .panic "gas exhausted" := C03.gas_suffices_toplevel _ n s e he
  have hlt : e.at_ < p.bytecode.size := (start_mem hat).2
  -- the source of the error
  have hsource : e.kind = .timeout ∨
      (∃ (re : Reenter) (s0 s1 : VmState), (step (Prog.ofProgram p) re e.at_).go s0 = (.error e.kind, s1)) ∨
      (e = ⟨.callStackOverflow, 0, []⟩ ∧ s.frameCap = 0) := by
    rcases hsrc with (h | h | ⟨_, h⟩ | h) | ⟨h1, h2⟩
    · exact .inl h
    · exact absurd h hgas
    · exact absurd h (Nat.not_le.2 hlt)
    · exact .inr (.inl h)
    · refine .inr (.inr ⟨h1, ?_⟩)
      rw [hs] at h2
      simpa using h2
  refine ⟨hat, hsource, ?_, hfr, fun f hf ho hst => wf_lookup hwf hst (by rw [ho]; decide)⟩
  cases hn : needsTrace (p.bytecode.getD e.at_ 0) with
  | true => exact .inl (wf_lookup hwf hat hn)
  | false =>
    right
    rcases needsTrace_false hn with hop | hop
    · refine .inl ⟨hop, ?_⟩
      rcases hsource with h | ⟨re, s0, s1, h⟩ | ⟨_, h⟩
      · exact .inl h
      · obtain ⟨s', hok⟩ := step_pop_ok (Prog.ofProgram p) re e.at_ hop s0
        rw [hok] at h
        cases h
      · exact .inr h
    · refine .inr ⟨hop, ?_⟩
      rcases hsource with h | ⟨re, s0, s1, h⟩ | ⟨_, h⟩
      · exact .inl h
      · exact .inr (.inl (step_closeUpvalue_err (Prog.ofProgram p) re e.at_ hop s0 s1 _ h).1)
      · exact .inr (.inr h)

/-- `run_error_located` for a fresh machine … -/
theorem run_error_located_fresh {p : Program} (hwf : WF p) (n : Nat) (c : Config) (e : RunErr)
    (he : (run (Prog.ofProgram p) n (VmState.fresh c)).2 = some e) :
    C04.Start p e.at_ ∧ (∀ f ∈ e.frames, C04.Start p f.dst ∧ SiteOK p f.src) :=
  let h := run_error_located hwf n (VmState.fresh c) rfl e he
  ⟨h.1, h.2.2.2.1⟩

/-- … for a cleared one, and for the machine any earlier `run` from such a machine left -/
theorem run_error_located_cleared {p : Program} (hwf : WF p) (n : Nat) (s : VmState) (e : RunErr)
    (he : (run (Prog.ofProgram p) n (clear s)).2 = some e) :
    C04.Start p e.at_ ∧ (∀ f ∈ e.frames, C04.Start p f.dst ∧ SiteOK p f.src) :=
  let h := run_error_located hwf n (clear s) rfl e he
  ⟨h.1, h.2.2.2.1⟩

theorem run_error_located_again {p : Program} (hwf : WF p) (q : Prog) (n k : Nat) (s : VmState)
    (hs : s.frames = []) (e : RunErr) (he : (run (Prog.ofProgram p) n (run q k s).1).2 = some e) :
    C04.Start p e.at_ ∧ (∀ f ∈ e.frames, C04.Start p f.dst ∧ SiteOK p f.src) :=
  let h := run_error_located hwf n (run q k s).1 (C17.run_frames_nil q k s hs) e he
  ⟨h.1, h.2.2.2.1⟩

/-! ## 4. the shape of the error trace -/

/-- the recorded call sites of the frames of the moment of failure, innermost first -/
def sites (e : RunErr) : List Nat := e.frames.reverse.map (·.src)

/-- **`errTrace` = entry of the failing address, then the entries of the call sites, innermost
    first** (sites without an entry are skipped) -/
theorem errTrace_sites (p : Prog) (e : RunErr) :
    errTrace p e = (C15.lookup p e.at_).toList ++ (sites e).filterMap (C15.lookup p) := by
  rw [C15.errTrace_shape, sites, List.filterMap_map]
  rfl

/-- … for a run of a well-formed program from a machine without frames: every site is of one of the
    three kinds, and the `CallFunction` sites have an entry -/
theorem sites_classified {p : Program} (hwf : WF p) (n : Nat) (s : VmState) (hs : s.frames = [])
    (e : RunErr) (he : (run (Prog.ofProgram p) n s).2 = some e) :
    ∀ a ∈ sites e, SiteOK p a ∧
      (C04.Start p a → p.bytecode.getD a 0 = op.callFunction →
        ∃ t, C15.lookup (Prog.ofProgram p) a = some t) := by
  obtain ⟨_, _, _, h1, h2⟩ := run_error_located hwf n s hs e he
  intro a ha
  unfold sites at ha
  obtain ⟨f, hf, rfl⟩ := List.mem_map.1 ha
  have hf' : f ∈ e.frames := List.mem_reverse.1 hf
  exact ⟨(h1 f hf').2, fun hst ho => h2 f hf' ho hst⟩

/-! ## 5. compiled programs -/

/-- **`compiled_error_trace`**: for a program compiled from `m` (and well-formed: see
    `C10.compile_wf_partial`), a failing run from a machine without call frames:
    * if the trace table has an entry `t` keyed by the failing address (always, except at a raw
      `Pop` / `CloseUpvalue`: `run_error_located`), `t` is the head of `errTrace` and designates a
      card of the source module that emitted the opcode at `e.at_`, or is an epilogue entry;
    * for every frame whose call site is a `CallFunction` instruction, the trace table has an
      entry keyed by it, and that entry resolves to a `Call` / `DynamicCall` card of the source. -/
theorem compiled_error_trace {m std : Module} {limit : Nat} {p : Program}
    (hc : compile m std limit = .ok p) (hwf : WF p) (n : Nat) (s : VmState) (hs : s.frames = [])
    (e : RunErr) (he : (run (Prog.ofProgram p) n s).2 = some e) :
    (∀ t, C15.lookup (Prog.ofProgram p) e.at_ = some t →
      errTrace (Prog.ofProgram p) e = t :: (sites e).filterMap (C15.lookup (Prog.ofProgram p)) ∧
      ∃ o, p.bytecode[e.at_]? = some o ∧
        (C15.CardEntry (withStd m std) t o ∨ C15.EpilogueEntry (withStd m std) t o)) ∧
    (∀ f ∈ e.frames, C04.Start p f.src → p.bytecode.getD f.src 0 = op.callFunction →
      ∃ t, C15.lookup (Prog.ofProgram p) f.src = some t ∧
        ∃ sub d, (withStd m std).descend t.ns = some sub ∧
          sub.getCard { function := t.function, indices := t.indices } = .ok d ∧ C15.IsCallCard d) := by
  obtain ⟨_, _, _, h1, h2⟩ := run_error_located hwf n s hs e he
  constructor
  · intro t ht
    refine ⟨by rw [errTrace_sites, ht]; rfl, ?_⟩
    exact C15.compile_trace_resolves hc _ (C15.lookup_mem ht)
  · intro f hf hst ho
    obtain ⟨t, ht⟩ := h2 f hf ho hst
    refine ⟨t, ht, ?_⟩
    have hmem := C15.lookup_mem ht
    have hlt := (start_mem hst).2
    have hbyte : p.bytecode[f.src]? = some op.callFunction := by
      rw [Array.getElem?_eq_getElem hlt]
      have : p.bytecode.getD f.src 0 = p.bytecode[f.src] := by simp [Array.getD, hlt]
      rw [← this, ho]
    exact C15.call_site_is_call_card hc (f.src, t) hmem hbyte

/-! ## 6. non-vacuity, and the entry frame's entry

`main` calls `f(7)`; `f(x)` calls the host function `fail`, which raises `InvalidArgument`.

```
 0: ScalarInt 7        [main, card 0.0]      20 (label f): CallNative "fail"   [f, card 0]
 9: FunctionPointer f 1 [main, card 0]       25: Pop … 27: ScalarNil; 28: Return (epilogue of f)
18: CallFunction       [main, card 0]
19: Exit
```
The run fails at 20 with the frames `[⟨src 0, dst 19⟩, ⟨src 18, dst 19⟩]`; the error trace is
`[f/[0], main/[0], main/[0,0]]`: the failing card, the `Call` card — and, as outermost entry, the
entry of **address 0** contributed by the frame `run` pushes (`src := 0`): the card `ScalarInt 7`,
which is not a call card. The Rust `payload_to_error` does the same (`trace.get(&t.src_instr_ptr)`
for every frame, including the one `run` pushes with `src_instr_ptr: 0`). -/

def exM : Module :=
  Module.mk [] [("main", ⟨[], [.call "f" [.scalarInt 7]]⟩), ("f", ⟨["x"], [.callNative "fail" []]⟩)] []
def exStd : Module := Module.mk [] [] []

/-- everything that is claimed about the example, as one Boolean -/
def exCheck : Bool :=
  match compile exM exStd with
  | .error _ => false
  | .ok p =>
    decide (WF p) && p.bytecode.getD 18 0 == op.callFunction && p.bytecode.getD 0 0 == op.scalarInt &&
    match (run (Prog.ofProgram p) 1000 (VmState.fresh {})).2 with
    | none => false
    | some e =>
      (match e.kind with | .taskFailure _ .invalidArgument => true | _ => false) &&
      e.at_ == 20 && e.frames.map (fun f => (f.src, f.dst)) == [(0, 19), (18, 19)] &&
      (errTrace (Prog.ofProgram p) e).map (fun t => (t.function, t.indices)) == [(1, [0]), (0, [0]), (0, [0, 0])]

theorem exCheck_true : exCheck = true := by decide +kernel

/-- the hypotheses of `run_error_located` / `compiled_error_trace` are satisfiable, with a
    `CallFunction` frame on the stack at the moment of failure -/
theorem example_located : ∃ p e, compile exM exStd = .ok p ∧ WF p ∧
    (run (Prog.ofProgram p) 1000 (VmState.fresh {})).2 = some e ∧ e.at_ = 20 ∧
    e.frames.map (fun f => (f.src, f.dst)) = [(0, 19), (18, 19)] ∧
    p.bytecode.getD 18 0 = op.callFunction ∧ p.bytecode.getD 0 0 = op.scalarInt ∧
    (errTrace (Prog.ofProgram p) e).map (fun t => (t.function, t.indices)) = [(1, [0]), (0, [0]), (0, [0, 0])] := by
  have h := exCheck_true
  unfold exCheck at h
  split at h
  · cases h
  next p hp =>
  simp only [Bool.and_eq_true, decide_eq_true_eq, beq_iff_eq] at h
  obtain ⟨⟨⟨hwf, h18⟩, h0⟩, h⟩ := h
  split at h
  · cases h
  next e he =>
  simp only [Bool.and_eq_true, beq_iff_eq] at h
  exact ⟨p, e, hp, hwf, he, h.1.1.2, h.1.2, h18, h0, h.2⟩

/-- **the outermost entry of the error trace is not a call card in general**: it is the entry of
    the program's first instruction, contributed by the frame `run` pushes. Here: `ScalarInt 7`. -/
theorem entry_frame_entry_not_a_call_card :
    ∃ p e t, compile exM exStd = .ok p ∧ (run (Prog.ofProgram p) 1000 (VmState.fresh {})).2 = some e ∧
      (errTrace (Prog.ofProgram p) e).getLast? = some t ∧ (t.function, t.indices) = (0, [0, 0]) ∧
      ((withStd exM exStd).descend []).map (fun sub => sub.getCard { function := 0, indices := [0, 0] }) =
        some (.ok (.scalarInt 7)) := by
  obtain ⟨p, e, hc, _, he, _, _, _, _, htr⟩ := example_located
  cases hl : (errTrace (Prog.ofProgram p) e).getLast? with
  | none =>
    rw [List.getLast?_eq_none_iff] at hl
    rw [hl] at htr
    cases htr
  | some t =>
    refine ⟨p, e, t, hc, he, hl, ?_, rfl⟩
    have := congrArg List.getLast? htr
    rw [List.getLast?_map, hl] at this
    simpa using this


end Cao.C15b
