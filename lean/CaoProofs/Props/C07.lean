import CaoModel.Table
import CaoProofs.Props.C12
import CaoProofs.Lemmas.TableLemmas
/-!
# C07 — a table is an associative array that remembers insertion order

Property theorems only. `TableM` (in `CaoModel/Table.lean`) is the code-shaped model of the
repaired `cao_lang_table.rs`: a hash part (`HMap`, proved to be a finite map in C12) storing
`(original key, value)` under the canonical key `ck k`, plus the list `keys` of keys in insertion
order. Here it is proved — for **every** value type `W`, every canonical-key function `ck`, every
key equality `weq` that is equality of canonical keys, every capacity, every operation sequence and
every choice of injected allocation failures — to

* keep its representation invariant `TInv` and never panic (`tbl_inv_preserved`); an operation
  that reports `allocErr` leaves the table untouched,
* refine an insertion-ordered association list (`tbl_step_refines`, `tbl_refines`; outputs are
  compared exactly, iteration as an *ordered* list),
* and the sentences of the property are restated as corollaries (`get_after_insert`,
  `get_missing`, `len_counts_keys`, `append_key_min`, `pop_spec`, `nth_iter_order`).

Helper lemmas are in `CaoProofs/Lemmas/TableLemmas.lean`; the facts about the hash part are the
public theorems of `CaoProofs/Props/C12.lean`.
-/
namespace Cao.C07
open Cao Cao.TL

variable {W : Type}

/-! ## Specification: an insertion-ordered list of `(key, value)` entries

At most one entry per canonical key; the position of an entry is the time its key was first
inserted. This is what a user of tables relies on. -/

section Spec
variable (ck : W → OVal) (nilW : W) (ofInt : Int64 → W)

/-- the entry whose key equals `k` (keys are compared through their canonical form) -/
def specFind (l : List (W × W)) (k : W) : Option (W × W) :=
  l.find? (fun e => decide (ck e.1 = ck k))

def specGet (l : List (W × W)) (k : W) : Option W := (specFind ck l k).map (·.2)

def specContains (l : List (W × W)) (k : W) : Bool := (specFind ck l k).isSome

def specLen (l : List (W × W)) : Nat := l.length

/-- overwrite in place: the stored key object and the position are kept -/
def specSet (l : List (W × W)) (k v : W) : List (W × W) :=
  l.map (fun e => if ck e.1 = ck k then (e.1, v) else e)

/-- `t[k] = v`: overwrite in place, or append a new entry at the end -/
def specInsert (l : List (W × W)) (k v : W) : List (W × W) :=
  if specContains ck l k then specSet ck l k v else l ++ [(k, v)]

def specRemove (l : List (W × W)) (k : W) : List (W × W) :=
  l.filter (fun e => !decide (ck e.1 = ck k))

/-- try the integer keys `i, i+1, …` (at most `fuel` of them): the first one that is unused -/
def firstFree (l : List (W × W)) : Nat → Int64 → Int64
  | 0, i => i
  | f+1, i => if specContains ck l (ofInt i) then firstFree l f (i + 1) else i

/-- the key `append` uses: the first of `len, len+1, …, len+len` that is not a key of the table.
    One of these `len+1` candidates is free because the table has only `len` keys, so this is the
    least unused integer key `≥ len` (`specAppendKey_least`). -/
def specAppendKey (l : List (W × W)) : Int64 :=
  firstFree ck ofInt l (l.length + 1) (Int64.ofNat l.length)

def specAppend (l : List (W × W)) (v : W) : List (W × W) :=
  specInsert ck l (ofInt (specAppendKey ck ofInt l)) v

/-- remove the most recently inserted entry and return its value (`nil` when empty) -/
def specPop (l : List (W × W)) : List (W × W) × W :=
  match l.getLast? with
  | none => (l, nilW)
  | some e => (l.dropLast, e.2)

/-- key of the `i`-th row (`nil` when out of range) -/
def specNth (l : List (W × W)) (i : Nat) : W := (l.map Prod.fst).getD i nilW

def specIter (l : List (W × W)) : List (W × W) := l

/-! ### operations, outputs, and the specification's step function

The specification state carries the capacity of the hash part (exactly as `C12.Spec` does):
the capacity decides *when* inserting a new key allocates, and therefore when an injected
allocation failure is observable. Allocating operations carry `failAt`: their `failAt`-th
allocation fails (`C12.oracle`). An operation whose allocation fails outputs `allocErr` and
leaves the state unchanged. -/

structure Spec (W : Type) where
  cap : Nat
  l : List (W × W)

inductive Op (W : Type) where
  | insert (k v : W) (failAt : Option Nat)
  | get (k : W)
  | contains (k : W)
  | remove (k : W)
  | append (v : W) (failAt : Option Nat)
  | pop
  | nth (i : Nat)
  | len
  | iter

inductive Out (W : Type) where
  | unit
  | value (o : Option W)
  | bool (b : Bool)
  | popped (v : W)
  | key (k : W)
  | num (n : Nat)
  | items (l : List (W × W))
  | allocErr
  | panic

/-- insert with the allocation behaviour: a *new* key needs room in the hash part
    (`TL.roomCap`: growth by one allocation when the load factor 0.7 would be exceeded) -/
def specPut (st : Spec W) (k v : W) (failAt : Option Nat) : Spec W × Out W :=
  if specContains ck st.l k then ({ st with l := specSet ck st.l k v }, .unit)
  else
    match roomCap st.cap st.l.length failAt with
    | some cap' => ({ cap := cap', l := st.l ++ [(k, v)] }, .unit)
    | none => (st, .allocErr)

def specStep (st : Spec W) : Op W → Spec W × Out W
  | .insert k v fa => specPut ck st k v fa
  | .get k => (st, .value (specGet ck st.l k))
  | .contains k => (st, .bool (specContains ck st.l k))
  | .remove k => ({ st with l := specRemove ck st.l k }, .unit)
  | .append v fa => specPut ck st (ofInt (specAppendKey ck ofInt st.l)) v fa
  | .pop => ({ st with l := (specPop nilW st.l).1 }, .popped (specPop nilW st.l).2)
  | .nth i => (st, .key (specNth nilW st.l i))
  | .len => (st, .num (specLen st.l))
  | .iter => (st, .items (specIter st.l))

/-- `specPut` is `specInsert` unless the allocation fails -/
theorem specPut_list (st : Spec W) (k v : W) (fa : Option Nat) :
    ((specPut ck st k v fa).2 = .unit ∧ (specPut ck st k v fa).1.l = specInsert ck st.l k v) ∨
    ((specPut ck st k v fa).2 = .allocErr ∧ (specPut ck st k v fa).1 = st) := by
  unfold specPut specInsert
  cases hc : specContains ck st.l k with
  | true => left; simp
  | false =>
    cases hr : roomCap st.cap st.l.length fa with
    | some cap' => left; simp
    | none => right; simp

end Spec

/-! ## The model's step function -/

section Model
variable (ck : W → OVal) (weq : W → W → Bool) (nilW : W) (ofInt : Int64 → W)

/-- output of an operation that returns no value -/
def unitOut : Res Unit → Out W
  | .ok _ => .unit
  | .allocErr => .allocErr
  | .panic _ => .panic

def poppedOut : Res W → Out W
  | .ok v => .popped v
  | .allocErr => .allocErr
  | .panic _ => .panic

def modelStep (t : TableM W) : Op W → TableM W × Out W
  | .insert k v fa =>
    ((t.insert ck k v (C12.oracle fa)).1, unitOut (t.insert ck k v (C12.oracle fa)).2.2)
  | .get k => (t, .value (t.get ck k))
  | .contains k => (t, .bool (t.contains ck k))
  | .remove k => ((t.remove ck weq k).1, unitOut (t.remove ck weq k).2)
  | .append v fa =>
    ((t.append ck ofInt v (C12.oracle fa)).1, unitOut (t.append ck ofInt v (C12.oracle fa)).2.2)
  | .pop => ((t.pop ck nilW).1, poppedOut (t.pop ck nilW).2)
  | .nth i => (t, .key (t.nthKey nilW i))
  | .len => (t, .num t.len)
  | .iter => (t, .items (t.iter ck))

end Model

/-! ## Representation invariant and abstraction -/

section Inv
variable (ck : W → OVal)

/-- the hash part is a well-formed `HMap`; the canonical keys of `keys` are pairwise distinct;
    `keys` and the hash part describe the same key set and the key object stored in the hash part
    is the one in `keys`; the hash part's entry count is the number of keys -/
def TInv (t : TableM W) : Prop :=
  C12.HInv TableM.hashOf t.map ∧ (t.keys.map ck).Nodup ∧
  (∀ c k0, (∃ v, t.map.get TableM.hashOf c = some (k0, v)) ↔ (k0 ∈ t.keys ∧ ck k0 = c)) ∧
  t.map.count = t.keys.length

/-- abstraction: the entries in insertion order -/
def abs (t : TableM W) : List (W × W) := t.iter ck

/-- working form of the invariant, relative to an explicit entry list `l`: `keys` are the keys of
    `l`, no canonical key occurs twice, and the hash part maps a canonical key to the entry of `l`
    stored under it. (`TInv ck t ↔ Rel ck t (abs ck t)`, see `TInv_iff_Rel`.) -/
def Rel (t : TableM W) (l : List (W × W)) : Prop :=
  C12.HInv TableM.hashOf t.map ∧ t.keys = l.map Prod.fst ∧ (ckeys ck l).Nodup ∧
  ∀ c, t.map.get TableM.hashOf c = findC ck l c

variable {ck}

theorem ckeys_eq (l : List (W × W)) : ckeys ck l = (l.map Prod.fst).map ck := by
  unfold ckeys; rw [List.map_map]; rfl

theorem rel_get {t : TableM W} {l : List (W × W)} (h : Rel ck t l) (k : W) :
    t.get ck k = specGet ck l k := by
  unfold TableM.get specGet
  rw [h.2.2.2]; rfl

theorem rel_contains {t : TableM W} {l : List (W × W)} (h : Rel ck t l) (k : W) :
    t.contains ck k = specContains ck l k := by
  unfold TableM.contains HMap.contains specContains
  rw [h.2.2.2]; rfl

theorem rel_len {t : TableM W} {l : List (W × W)} (h : Rel ck t l) : t.len = l.length := by
  unfold TableM.len; rw [h.2.1, List.length_map]

theorem rel_nth {t : TableM W} {l : List (W × W)} (h : Rel ck t l) (nilW : W) (i : Nat) :
    t.nthKey nilW i = specNth nilW l i := by
  unfold TableM.nthKey specNth; rw [h.2.1]

theorem rel_iter {t : TableM W} {l : List (W × W)} (h : Rel ck t l) : t.iter ck = l := by
  obtain ⟨_, hk, nd, hg⟩ := h
  unfold TableM.iter
  rw [hk, List.filterMap_map]
  have : ∀ e ∈ l, ((fun k => (t.get ck k).map (fun v => (k, v))) ∘ Prod.fst) e = some e := by
    intro e he
    simp only [Function.comp, TableM.get]
    rw [hg, findC_of_mem nd he]
    rfl
  exact filterMap_eq_self _ l this

theorem rel_count {t : TableM W} {l : List (W × W)} (h : Rel ck t l) :
    t.map.count = l.length := by
  obtain ⟨hI, _, nd, hg⟩ := h
  have := hm_count_eq hI (l.map (fun e => (ck e.1, e)))
    (by unfold AL.WF AL.keys; rw [List.map_map]; exact nd)
    (fun c => by rw [lookup_canon, hg])
  rw [this, List.length_map]

theorem Rel_TInv {t : TableM W} {l : List (W × W)} (h : Rel ck t l) : TInv ck t := by
  have hcnt := rel_count h
  obtain ⟨hI, hk, nd, hg⟩ := h
  refine ⟨hI, by rw [hk, ← ckeys_eq]; exact nd, ?_, by rw [hcnt, hk, List.length_map]⟩
  intro c k0
  rw [hk]
  constructor
  · rintro ⟨v, hv⟩
    rw [hg] at hv
    obtain ⟨hm, hc⟩ := findC_some hv
    exact ⟨List.mem_map.mpr ⟨_, hm, rfl⟩, hc⟩
  · rintro ⟨hm, hc⟩
    obtain ⟨e, he, rfl⟩ := List.mem_map.mp hm
    refine ⟨e.2, ?_⟩
    rw [hg, ← hc]
    exact findC_of_mem nd he

theorem TInv_Rel {t : TableM W} (h : TInv ck t) : Rel ck t (abs ck t) := by
  obtain ⟨hI, nd, hiff, _⟩ := h
  have hf : ∀ k ∈ t.keys, ∃ v, (fun k => (t.get ck k).map (fun v => (k, v))) k = some (k, v) := by
    intro k hk
    obtain ⟨v, hv⟩ := (hiff (ck k) k).mpr ⟨hk, rfl⟩
    exact ⟨v, by simp only [TableM.get, hv]; rfl⟩
  have hfst : (abs ck t).map Prod.fst = t.keys := filterMap_fst _ t.keys hf
  have hnd : (ckeys ck (abs ck t)).Nodup := by rw [ckeys_eq, hfst]; exact nd
  refine ⟨hI, hfst.symm, hnd, ?_⟩
  intro c
  cases hg : t.map.get TableM.hashOf c with
  | none =>
    symm
    rw [findC_none]
    intro e he hc
    have hk : e.1 ∈ t.keys := by rw [← hfst]; exact List.mem_map.mpr ⟨e, he, rfl⟩
    obtain ⟨v, hv⟩ := (hiff c e.1).mpr ⟨hk, hc⟩
    rw [hg] at hv; cases hv
  | some e0 =>
    obtain ⟨k0, v0⟩ := e0
    obtain ⟨hk0, hc⟩ := (hiff c k0).mp ⟨v0, hg⟩
    have hmem : (k0, v0) ∈ abs ck t := by
      unfold abs TableM.iter
      rw [List.mem_filterMap]
      refine ⟨k0, hk0, ?_⟩
      simp only [TableM.get, hc, hg]; rfl
    have := findC_of_mem hnd hmem
    simp only at this
    rw [hc] at this
    exact this.symm

/-- the invariant, stated through the explicit entry list -/
theorem TInv_iff_Rel {t : TableM W} : TInv ck t ↔ Rel ck t (abs ck t) := ⟨TInv_Rel, Rel_TInv⟩

end Inv

/-! ## What each operation does, on `Rel` -/

section Ops
variable {ck : W → OVal}

/-- `insert`, any allocation oracle -/
theorem rel_insert {t : TableM W} {l : List (W × W)} (h : Rel ck t l) (k v : W) (al : Alloc) :
    ((t.insert ck k v al).2.2 = .ok () ∧ Rel ck (t.insert ck k v al).1 (specInsert ck l k v)) ∨
    ((t.insert ck k v al).2.2 = .allocErr ∧ (t.insert ck k v al).1 = t) := by
  obtain ⟨hI, hk, nd, hg⟩ := h
  have hgk := hg (ck k)
  cases hf : findC ck l (ck k) with
  | some e0 =>
    obtain ⟨k0, v0⟩ := e0
    rw [hf] at hgk
    have hc : specContains ck l k = true := by
      unfold specContains specFind; exact (by rw [show l.find? _ = findC ck l (ck k) from rfl, hf]; rfl)
    obtain ⟨hI', hnp, hupd⟩ := hm_insert_gen hI (ck k) (k0, v) al
    rcases hins : t.map.insert TableM.hashOf (ck k) (k0, v) al with ⟨m', al', r⟩
    rw [hins] at hI' hnp hupd
    cases r with
    | ok old =>
      left
      simp only [TableM.insert, hgk, hins, specInsert, hc, if_true, true_and]
      refine ⟨hI', ?_, ?_, ?_⟩
      · exact hk.trans (setVal_fst (ck := ck) (ck k) v l).symm
      · exact (setVal_ckeys (ck := ck) (ck k) v l).symm ▸ nd
      · intro c
        have := hupd (by intro h; cases h) c
        simp only at this
        rw [this, hg c]
        exact (findC_setVal_present hf v c).symm
    | allocErr => right; simp only [TableM.insert, hgk, hins, and_self]
    | panic w => exact absurd rfl (hnp w)
  | none =>
    rw [hf] at hgk
    have hc : specContains ck l k = false := by
      unfold specContains specFind; exact (by rw [show l.find? _ = findC ck l (ck k) from rfl, hf]; rfl)
    obtain ⟨hI', hnp, hupd⟩ := hm_insert_gen hI (ck k) (k, v) al
    rcases hins : t.map.insert TableM.hashOf (ck k) (k, v) al with ⟨m', al', r⟩
    rw [hins] at hI' hnp hupd
    cases r with
    | ok old =>
      left
      simp only [TableM.insert, hgk, hins, specInsert, hc, Bool.false_eq_true, if_false, true_and]
      refine ⟨hI', ?_, ?_, ?_⟩
      · simp [hk]
      · unfold ckeys at nd ⊢
        rw [List.map_append, List.nodup_append]
        refine ⟨nd, by simp, ?_⟩
        intro a ha b hb
        simp only [List.map_cons, List.map_nil, List.mem_singleton] at hb
        subst hb
        intro hab
        subst hab
        exact (findC_none_iff_ckeys.mp hf) ha
      · intro c
        have := hupd (by intro h; cases h) c
        simp only at this
        rw [this, hg c]
        exact (findC_concat_new (e := (k, v)) hf c).symm
    | allocErr => right; simp only [TableM.insert, hgk, hins, and_self]
    | panic w => exact absurd rfl (hnp w)

/-- `insert` under the per-operation oracle: which result it reports, and the capacity of the
    hash part afterwards -/
theorem rel_insert_oracle {t : TableM W} {l : List (W × W)} (h : Rel ck t l) (k v : W)
    (fa : Option Nat) :
    (specContains ck l k = true →
      (t.insert ck k v (C12.oracle fa)).2.2 = .ok () ∧
        (t.insert ck k v (C12.oracle fa)).1.map.cap = t.map.cap) ∧
    (specContains ck l k = false →
      (∀ cap', roomCap t.map.cap l.length fa = some cap' →
        (t.insert ck k v (C12.oracle fa)).2.2 = .ok () ∧
          (t.insert ck k v (C12.oracle fa)).1.map.cap = cap') ∧
      (roomCap t.map.cap l.length fa = none →
        (t.insert ck k v (C12.oracle fa)).2.2 = .allocErr)) := by
  have hcnt := rel_count h
  obtain ⟨hI, hk, nd, hg⟩ := h
  have hgk := hg (ck k)
  have hcf : specContains ck l k = (findC ck l (ck k)).isSome := rfl
  cases hf : findC ck l (ck k) with
  | some e0 =>
    obtain ⟨k0, v0⟩ := e0
    rw [hf] at hgk hcf
    obtain ⟨m', al', hins, hcap⟩ := (hm_insert_oracle hI (ck k) (k0, v) fa).1 _ hgk
    refine ⟨fun _ => ?_, fun hc => (by rw [hcf] at hc; cases hc)⟩
    simp only [TableM.insert, hgk, hins, true_and]
    exact hcap
  | none =>
    rw [hf] at hgk hcf
    obtain ⟨hA, hB⟩ := (hm_insert_oracle hI (ck k) (k, v) fa).2 hgk
    rw [hcnt] at hA hB
    refine ⟨fun hc => (by rw [hcf] at hc; cases hc), fun _ => ⟨?_, ?_⟩⟩
    · intro cap' hr
      obtain ⟨m', al', hins, hcap⟩ := hA cap' hr
      simp only [TableM.insert, hgk, hins, true_and]
      exact hcap
    · intro hr
      obtain ⟨m', al', hins⟩ := hB hr
      simp only [TableM.insert, hgk, hins]

/-- the bounded search loop of `append` computes the specification's key -/
theorem rel_appendKey {t : TableM W} {l : List (W × W)} (h : Rel ck t l) (ofInt : Int64 → W) :
    t.appendKey ck ofInt = specAppendKey ck ofInt l := by
  have hgo : ∀ fuel i, TableM.appendKey.go ck ofInt t fuel i = firstFree ck ofInt l fuel i := by
    intro fuel
    induction fuel with
    | zero => intro i; rfl
    | succ f ih =>
      intro i
      simp only [TableM.appendKey.go, firstFree]
      rw [show t.map.contains TableM.hashOf (ck (ofInt i)) = t.contains ck (ofInt i) from rfl,
        rel_contains h, ih]
  unfold TableM.appendKey specAppendKey
  rw [hgo, h.2.1, List.length_map]

/-- `pop` -/
theorem rel_pop {t : TableM W} {l : List (W × W)} (h : Rel ck t l) (nilW : W) :
    ∃ t', t.pop ck nilW = (t', .ok (specPop nilW l).2) ∧ Rel ck t' (specPop nilW l).1 ∧
      t'.map.cap = t.map.cap := by
  have h0 := h
  obtain ⟨hI, hk, nd, hg⟩ := h
  cases hl : l.getLast? with
  | none =>
    have hnil : l = [] := List.getLast?_eq_none_iff.mp hl
    subst hnil
    have hkn : t.keys.getLast? = none := by rw [hk]; rfl
    refine ⟨t, ?_, ?_, rfl⟩
    · simp only [TableM.pop, hkn, specPop, List.getLast?_nil]
    · simp only [specPop, List.getLast?_nil]; exact h0
  | some e =>
    obtain ⟨l0, rfl⟩ := List.getLast?_eq_some_iff.mp hl
    have hkl : t.keys.getLast? = some e.1 := by rw [hk, List.getLast?_map, hl]; rfl
    have hge : t.map.get TableM.hashOf (ck e.1) = some e := by
      rw [hg]; exact findC_of_mem nd (by simp)
    obtain ⟨m', old, hrem, hI', hcap, hget⟩ := hm_remove_gen hI (ck e.1)
    have hspec : specPop nilW (l0 ++ [e]) = (l0, e.2) := by
      simp only [specPop, hl, List.dropLast_concat]
    refine ⟨{ map := m', keys := t.keys.dropLast }, ?_, ?_, hcap⟩
    · simp only [TableM.pop, hkl, hrem, TableM.get, hge, hspec, Option.map_some, Option.getD_some]
    · rw [hspec]
      refine ⟨hI', ?_, ?_, ?_⟩
      · simp only [hk, List.map_append, List.map_cons, List.map_nil, List.dropLast_concat]
      · unfold ckeys at nd ⊢
        rw [List.map_append, List.nodup_append] at nd
        exact nd.1
      · intro c
        rw [hget, hg, findC_dropLast nd]

end Ops

/-! ### `remove` -/

section Remove
variable {ck : W → OVal}

private def rmStep (ck : W → OVal) (acc : HMap OVal (W × W) × Option String) (k' : W) :
    HMap OVal (W × W) × Option String :=
  match acc with
  | (m, some w) => (m, some w)
  | (m, none) => match m.remove TableM.hashOf (ck k') with
    | (m', .ok _) => (m', none)
    | (m', .allocErr) => (m', some "alloc")
    | (m', .panic w) => (m', some w)

private theorem remove_unfold (weq : W → W → Bool) (t : TableM W) (k : W) :
    t.remove ck weq k =
      match (t.keys.filter (fun k' => weq k' k)).foldl (rmStep ck) (t.map, none) with
      | (m, none) => ({ map := m, keys := t.keys.filter (fun k' => !weq k' k) }, .ok ())
      | (_, some w) => (t, .panic w) := by
  unfold TableM.remove
  rw [List.partition_eq_filter_filter]
  rfl

private theorem rm_fold : ∀ (gone : List W) (m : HMap OVal (W × W)), C12.HInv TableM.hashOf m →
    ∃ m', gone.foldl (rmStep ck) (m, none) = (m', none) ∧ C12.HInv TableM.hashOf m' ∧
      m'.cap = m.cap ∧
      ∀ c, m'.get TableM.hashOf c = if c ∈ gone.map ck then none else m.get TableM.hashOf c := by
  intro gone
  induction gone with
  | nil => intro m hI; exact ⟨m, rfl, hI, rfl, by simp⟩
  | cons k' gone ih =>
    intro m hI
    obtain ⟨m1, old, hrem, hI1, hcap1, hget1⟩ := hm_remove_gen hI (ck k')
    have hstep : rmStep ck (m, none) k' = (m1, none) := by simp only [rmStep, hrem]
    obtain ⟨m', hf, hI', hcap', hget'⟩ := ih m1 hI1
    refine ⟨m', by rw [List.foldl_cons, hstep, hf], hI', by rw [hcap', hcap1], ?_⟩
    intro c
    rw [hget', hget1]
    by_cases h1 : c = ck k'
    · simp [h1]
    · by_cases h2 : c ∈ gone.map ck
      · simp [h2]
      · have : c ∉ (k' :: gone).map ck := by
          simp only [List.map_cons, List.mem_cons, not_or]; exact ⟨h1, h2⟩
        rw [if_neg h2, if_neg h1, if_neg this]

/-- `remove` -/
theorem rel_remove {weq : W → W → Bool} (hweq : ∀ a b, weq a b = true ↔ ck a = ck b)
    {t : TableM W} {l : List (W × W)} (h : Rel ck t l) (k : W) :
    ∃ t', t.remove ck weq k = (t', .ok ()) ∧ Rel ck t' (specRemove ck l k) ∧
      t'.map.cap = t.map.cap := by
  obtain ⟨hI, hk, nd, hg⟩ := h
  obtain ⟨m', hf, hI', hcap, hget⟩ := rm_fold (ck := ck) (t.keys.filter (fun k' => weq k' k)) t.map hI
  refine ⟨{ map := m', keys := t.keys.filter (fun k' => !weq k' k) }, ?_, ?_, hcap⟩
  · rw [remove_unfold, hf]
  · refine ⟨hI', ?_, ckeys_filter_nodup nd _, ?_⟩
    · simp only [hk, specRemove, List.filter_map]
      congr 1
      apply List.filter_congr
      intro e _
      simp only [Function.comp]
      cases hw : weq e.1 k with
      | true => have := (hweq e.1 k).mp hw; simp [this]
      | false =>
        have : ¬ ck e.1 = ck k := fun hc => by rw [(hweq e.1 k).mpr hc] at hw; cases hw
        simp [this]
    · intro c
      rw [hget, hg]
      unfold specRemove
      rw [findC_filter]
      by_cases hc : c = ck k
      · subst hc
        rw [if_pos rfl]
        split
        · rfl
        · rename_i hnot
          -- no key equal to `k` was in `keys`, so the key was absent anyway
          rw [findC_none]
          intro e he hce
          apply hnot
          rw [List.mem_map]
          refine ⟨e.1, ?_, hce⟩
          rw [List.mem_filter]
          exact ⟨by rw [hk]; exact List.mem_map.mpr ⟨e, he, rfl⟩, (hweq e.1 k).mpr hce⟩
      · rw [if_neg hc]
        split
        · rename_i hin
          exfalso
          obtain ⟨k', hk', hck'⟩ := List.mem_map.mp hin
          rw [List.mem_filter] at hk'
          exact hc (by rw [← hck']; exact (hweq k' k).mp hk'.2)
        · rfl

end Remove

/-! ## C07 (invariant): `TInv` is established by `with_capacity`, preserved by every operation,
no operation panics, a failed allocation leaves the table unchanged -/

section Preserved
variable {ck : W → OVal}

private theorem withCapacity_rel (c : Nat) (al al' : Alloc) (t : TableM W)
    (h : TableM.withCapacity c al = (al', .ok t)) :
    Rel ck t [] ∧ t.map.cap = max c 1 := by
  unfold TableM.withCapacity HMap.withCapacity at h
  cases hn : al.next.1 with
  | false => simp [hn] at h
  | true =>
    simp only [hn, if_true, Prod.mk.injEq, Res.ok.injEq] at h
    obtain ⟨_, rfl⟩ := h
    have hinv := C12.hm_withCapacity_inv (V := W × W) TableM.hashOf c al
    unfold HMap.withCapacity at hinv
    simp only [hn, if_true] at hinv
    refine ⟨⟨hinv, rfl, by simp [ckeys], ?_⟩, rfl⟩
    intro k
    exact OA.get_spec hinv.2.1 (OA.empty_abs _) k

/-- `with_capacity` establishes the invariant (or reports the allocation failure) and the
    fresh table is empty -/
theorem tbl_withCapacity_inv (c : Nat) (al : Alloc) :
    match (TableM.withCapacity c al : Alloc × Res (TableM W)).2 with
    | .ok t => TInv ck t ∧ abs ck t = []
    | .allocErr => True
    | .panic _ => False := by
  rcases hw : (TableM.withCapacity c al : Alloc × Res (TableM W)) with ⟨al', r⟩
  cases r with
  | ok t =>
    obtain ⟨hR, _⟩ := withCapacity_rel (ck := ck) c al al' t hw
    exact ⟨Rel_TInv hR, rel_iter hR⟩
  | allocErr => trivial
  | panic w =>
    exfalso
    unfold TableM.withCapacity HMap.withCapacity at hw
    cases hn : al.next.1 <;> simp [hn] at hw

/-- **C07 (invariant)**: every mutating operation preserves the representation invariant and
    never panics, for every value of the allocation oracle; an operation that reports `allocErr`
    leaves the table unchanged (the very same state). `remove` and `pop` always succeed. -/
theorem tbl_inv_preserved {weq : W → W → Bool} (hweq : ∀ a b, weq a b = true ↔ ck a = ck b)
    (nilW : W) (ofInt : Int64 → W) {t : TableM W} (h : TInv ck t) :
    (∀ k v al, TInv ck (t.insert ck k v al).1 ∧ C12.NoPanic (t.insert ck k v al).2.2 ∧
        ((t.insert ck k v al).2.2 = .allocErr → (t.insert ck k v al).1 = t)) ∧
    (∀ k, TInv ck (t.remove ck weq k).1 ∧ (t.remove ck weq k).2 = .ok ()) ∧
    (∀ v al, TInv ck (t.append ck ofInt v al).1 ∧ C12.NoPanic (t.append ck ofInt v al).2.2 ∧
        ((t.append ck ofInt v al).2.2 = .allocErr → (t.append ck ofInt v al).1 = t)) ∧
    (TInv ck (t.pop ck nilW).1 ∧ ∃ v, (t.pop ck nilW).2 = .ok v) := by
  have hR := TInv_Rel h
  have hins : ∀ k v al, TInv ck (t.insert ck k v al).1 ∧ C12.NoPanic (t.insert ck k v al).2.2 ∧
      ((t.insert ck k v al).2.2 = .allocErr → (t.insert ck k v al).1 = t) := by
    intro k v al
    rcases rel_insert hR k v al with ⟨h1, h2⟩ | ⟨h1, h2⟩
    · refine ⟨Rel_TInv h2, by rw [h1]; trivial, fun he => ?_⟩
      rw [h1] at he; cases he
    · refine ⟨by rw [h2]; exact h, by rw [h1]; trivial, fun _ => h2⟩
  refine ⟨hins, ?_, fun v al => hins _ v al, ?_⟩
  · intro k
    obtain ⟨t', hrem, hR', _⟩ := rel_remove hweq hR k
    rw [hrem]; exact ⟨Rel_TInv hR', rfl⟩
  · obtain ⟨t', hpop, hR', _⟩ := rel_pop hR nilW
    rw [hpop]; exact ⟨Rel_TInv hR', _, rfl⟩

end Preserved

/-! ## C07 (refinement) -/

section Refines
variable {ck : W → OVal} {weq : W → W → Bool} (nilW : W) (ofInt : Int64 → W)

/-- refinement relation: the invariant holds, the specification's list is the abstraction of the
    table, and the specification tracks the capacity of the hash part -/
def TR (ck : W → OVal) (t : TableM W) (st : Spec W) : Prop :=
  TInv ck t ∧ abs ck t = st.l ∧ st.cap = t.map.cap

theorem TR_rel {t : TableM W} {st : Spec W} (h : TR ck t st) : Rel ck t st.l := by
  obtain ⟨h1, h2, _⟩ := h
  rw [← h2]; exact TInv_Rel h1

theorem rel_TR {t : TableM W} {st : Spec W} (h : Rel ck t st.l) (hc : st.cap = t.map.cap) :
    TR ck t st := ⟨Rel_TInv h, rel_iter h, hc⟩

private theorem put_refines {t : TableM W} {st : Spec W} (h : TR ck t st) (k v : W)
    (fa : Option Nat) :
    TR ck (t.insert ck k v (C12.oracle fa)).1 (specPut ck st k v fa).1 ∧
      (unitOut (t.insert ck k v (C12.oracle fa)).2.2 : Out W) = (specPut ck st k v fa).2 := by
  have hR := TR_rel h
  have hcap := h.2.2
  obtain ⟨hA, hB⟩ := rel_insert_oracle hR k v fa
  have hgen := rel_insert hR k v (C12.oracle fa)
  cases hc : specContains ck st.l k with
  | true =>
    obtain ⟨hr, hcap'⟩ := hA hc
    have hsp : specPut ck st k v fa = ({ st with l := specSet ck st.l k v }, .unit) := by
      unfold specPut; rw [if_pos hc]
    rw [hsp, hr]
    rcases hgen with ⟨_, hR'⟩ | ⟨he, _⟩
    · simp only [specInsert, hc, if_true] at hR'
      exact ⟨rel_TR hR' (by simp only; rw [hcap', hcap]), rfl⟩
    · rw [hr] at he; cases he
  | false =>
    obtain ⟨hB1, hB2⟩ := hB hc
    rw [← hcap] at hB1 hB2
    cases hroom : roomCap st.cap st.l.length fa with
    | some cap' =>
      obtain ⟨hr, hcap'⟩ := hB1 cap' hroom
      have hsp : specPut ck st k v fa = ({ cap := cap', l := st.l ++ [(k, v)] }, .unit) := by
        unfold specPut; rw [if_neg (by rw [hc]; exact Bool.false_ne_true), hroom]
      rw [hsp, hr]
      rcases hgen with ⟨_, hR'⟩ | ⟨he, _⟩
      · simp only [specInsert, hc, Bool.false_eq_true, if_false] at hR'
        exact ⟨rel_TR hR' (by simp only; rw [hcap']), rfl⟩
      · rw [hr] at he; cases he
    | none =>
      have hr := hB2 hroom
      have hsp : specPut ck st k v fa = (st, .allocErr) := by
        unfold specPut; rw [if_neg (by rw [hc]; exact Bool.false_ne_true), hroom]
      rw [hsp, hr]
      rcases hgen with ⟨he, _⟩ | ⟨_, ht⟩
      · rw [hr] at he; cases he
      · rw [ht]; exact ⟨h, rfl⟩

/-- **C07 (one step)**: from related states, every operation produces the same output in the
    model and in the specification (iteration as an ordered list) and leads to related states. -/
theorem tbl_step_refines (hweq : ∀ a b, weq a b = true ↔ ck a = ck b)
    {t : TableM W} {st : Spec W} (h : TR ck t st) (op : Op W) :
    TR ck (modelStep ck weq nilW ofInt t op).1 (specStep ck nilW ofInt st op).1 ∧
      (modelStep ck weq nilW ofInt t op).2 = (specStep ck nilW ofInt st op).2 := by
  have hR := TR_rel h
  have hcap := h.2.2
  cases op with
  | insert k v fa => exact put_refines h k v fa
  | get k => exact ⟨h, by simp only [modelStep, specStep, rel_get hR]⟩
  | contains k => exact ⟨h, by simp only [modelStep, specStep, rel_contains hR]⟩
  | remove k =>
    obtain ⟨t', hrem, hR', hcap'⟩ := rel_remove hweq hR k
    simp only [modelStep, specStep, hrem]
    exact ⟨rel_TR hR' (by simp only; rw [hcap', hcap]), rfl⟩
  | append v fa =>
    have e := rel_appendKey hR ofInt
    simp only [modelStep, specStep, TableM.append, ← e]
    exact put_refines h (ofInt (t.appendKey ck ofInt)) v fa
  | pop =>
    obtain ⟨t', hpop, hR', hcap'⟩ := rel_pop hR nilW
    simp only [modelStep, specStep, hpop]
    exact ⟨rel_TR hR' (by simp only; rw [hcap', hcap]), rfl⟩
  | nth i => exact ⟨h, by simp only [modelStep, specStep, rel_nth hR]⟩
  | len => exact ⟨h, by simp only [modelStep, specStep, rel_len hR, specLen]⟩
  | iter => exact ⟨h, by simp only [modelStep, specStep, rel_iter hR, specIter]⟩

def runModel (ck : W → OVal) (weq : W → W → Bool) (t : TableM W) : List (Op W) → List (Out W)
  | [] => []
  | op :: ops => (modelStep ck weq nilW ofInt t op).2 ::
      runModel ck weq (modelStep ck weq nilW ofInt t op).1 ops

def runSpec (ck : W → OVal) (st : Spec W) : List (Op W) → List (Out W)
  | [] => []
  | op :: ops => (specStep ck nilW ofInt st op).2 :: runSpec ck (specStep ck nilW ofInt st op).1 ops

theorem run_refines (hweq : ∀ a b, weq a b = true ↔ ck a = ck b) (ops : List (Op W)) :
    ∀ {t : TableM W} {st : Spec W}, TR ck t st →
      runModel nilW ofInt ck weq t ops = runSpec nilW ofInt ck st ops := by
  induction ops with
  | nil => intro t st _; rfl
  | cons op ops ih =>
    intro t st h
    obtain ⟨h1, h2⟩ := tbl_step_refines nilW ofInt hweq h op
    simp only [runModel, runSpec, h2, ih h1]

/-- **C07 (refinement)**: for every requested capacity, every operation sequence and every choice
    of injected allocation failures, the outputs of the code-shaped model (started from a
    successful `with_capacity(c)`) are *equal* to those of the insertion-ordered association-list
    specification started from the empty list. In particular no output is `panic`, and `iter`
    lists the entries in insertion order. -/
theorem tbl_refines (hweq : ∀ a b, weq a b = true ↔ ck a = ck b) (c : Nat) (al al' : Alloc)
    (t : TableM W) (h0 : TableM.withCapacity c al = (al', .ok t)) (ops : List (Op W)) :
    runModel nilW ofInt ck weq t ops = runSpec nilW ofInt ck { cap := max c 1, l := [] } ops := by
  obtain ⟨hR, hcap⟩ := withCapacity_rel (ck := ck) c al al' t h0
  exact run_refines nilW ofInt hweq ops (rel_TR (st := { cap := max c 1, l := [] }) hR hcap.symm)

/-- the specification never outputs `panic` … -/
theorem spec_no_panic (st : Spec W) (op : Op W) : (specStep ck nilW ofInt st op).2 ≠ .panic := by
  cases op <;> simp only [specStep, ne_eq] <;> try (intro h; cases h)
  all_goals
    rcases specPut_list ck st _ _ _ with ⟨h, _⟩ | ⟨h, _⟩ <;> rw [h] <;> intro h' <;> cases h'

/-- … and an operation that outputs `allocErr` leaves the specification state unchanged -/
theorem spec_alloc_fail (st : Spec W) (op : Op W)
    (h : (specStep ck nilW ofInt st op).2 = .allocErr) : (specStep ck nilW ofInt st op).1 = st := by
  cases op <;> simp only [specStep] at h ⊢ <;> try (cases h)
  all_goals
    rcases specPut_list ck st _ _ _ with ⟨h1, _⟩ | ⟨_, h2⟩
    · rw [h1] at h; cases h
    · exact h2

/-- every state satisfying the invariant is related to its own abstraction -/
theorem TR_canon {t : TableM W} (h : TInv ck t) : TR ck t { cap := t.map.cap, l := abs ck t } :=
  ⟨h, rfl, rfl⟩

/-- **no operation panics**, whatever the allocation oracle does -/
theorem tbl_never_panics (hweq : ∀ a b, weq a b = true ↔ ck a = ck b) {t : TableM W}
    (h : TInv ck t) (op : Op W) : (modelStep ck weq nilW ofInt t op).2 ≠ .panic := by
  rw [(tbl_step_refines nilW ofInt hweq (TR_canon h) op).2]
  exact spec_no_panic nilW ofInt _ op

/-- **allocation failure**: an operation that outputs `allocErr` leaves the table untouched (the
    very same state); the specification says exactly when that happens (`specPut`): inserting or
    appending a *new* key above the load factor when the growth allocation is the failing one. -/
theorem tbl_alloc_fail (hweq : ∀ a b, weq a b = true ↔ ck a = ck b) {t : TableM W}
    (h : TInv ck t) (op : Op W) (he : (modelStep ck weq nilW ofInt t op).2 = .allocErr) :
    (modelStep ck weq nilW ofInt t op).1 = t := by
  obtain ⟨hins, hrem, happ, hpop⟩ := tbl_inv_preserved hweq nilW ofInt h
  have hunit : ∀ r : Res Unit, (unitOut r : Out W) = .allocErr → r = .allocErr := by
    intro r hr; cases r <;> first | rfl | cases hr
  cases op with
  | insert k v fa => exact (hins k v _).2.2 (hunit _ he)
  | append v fa => exact (happ v _).2.2 (hunit _ he)
  | remove k =>
    simp only [modelStep, (hrem k).2] at he
    cases he
  | pop =>
    obtain ⟨v, hv⟩ := hpop.2
    simp only [modelStep, hv] at he
    cases he
  | get k => rfl
  | contains k => rfl
  | nth i => rfl
  | len => rfl
  | iter => rfl

end Refines

/-! ## The key used by `append` -/

section AppendKey
variable {ck : W → OVal} {ofInt : Int64 → W}

private theorem ofNat_succ (a : Nat) : Int64.ofNat a + 1 = Int64.ofNat (a + 1) := by
  rw [Int64.ofNat_add]; rfl

private theorem ofNat_inj_small {a b : Nat} (ha : a < 2 ^ 63) (hb : b < 2 ^ 63)
    (h : Int64.ofNat a = Int64.ofNat b) : a = b := by
  have := congrArg Int64.toInt h
  rw [Int64.toInt_ofNat_of_lt ha, Int64.toInt_ofNat_of_lt hb] at this
  exact Int.ofNat.inj this

theorem specContains_iff (l : List (W × W)) (k : W) :
    specContains ck l k = true ↔ ck k ∈ ckeys ck l := by
  have h1 : specContains ck l k = (findC ck l (ck k)).isSome := rfl
  have h2 := findC_none_iff_ckeys (ck := ck) (l := l) (c := ck k)
  rw [h1]
  cases hf : findC ck l (ck k) with
  | none => rw [hf] at h2; simp only [Option.isSome_none, Bool.false_eq_true, false_iff]; exact h2.mp rfl
  | some e =>
    rw [hf] at h2
    simp only [Option.isSome_some, true_iff]
    apply Classical.byContradiction
    intro hn
    have := h2.mpr hn
    cases this

/-- the search loop returns the first unused candidate, provided there is one within `fuel` -/
theorem firstFree_spec (l : List (W × W)) : ∀ (fuel a : Nat),
    (∃ j, j < fuel ∧ specContains ck l (ofInt (Int64.ofNat (a + j))) = false) →
    ∃ j, j < fuel ∧ firstFree ck ofInt l fuel (Int64.ofNat a) = Int64.ofNat (a + j) ∧
      specContains ck l (ofInt (Int64.ofNat (a + j))) = false ∧
      ∀ j', j' < j → specContains ck l (ofInt (Int64.ofNat (a + j'))) = true := by
  intro fuel
  induction fuel with
  | zero => rintro a ⟨j, hj, _⟩; omega
  | succ f ih =>
    rintro a ⟨j, hj, hfree⟩
    cases hc : specContains ck l (ofInt (Int64.ofNat a)) with
    | false =>
      refine ⟨0, by omega, ?_, by simpa using hc, by intro j' hj'; omega⟩
      simp only [firstFree, hc, Bool.false_eq_true, if_false, Nat.add_zero]
    | true =>
      have hj0 : j ≠ 0 := by
        intro e; subst e
        rw [Nat.add_zero, hc] at hfree; cases hfree
      obtain ⟨j1, hj1, hff, hfr, hall⟩ := ih (a + 1) ⟨j - 1, by omega, by
        rw [show a + 1 + (j - 1) = a + j by omega]; exact hfree⟩
      refine ⟨j1 + 1, by omega, ?_, ?_, ?_⟩
      · simp only [firstFree, hc, if_true]
        rw [ofNat_succ, hff, show a + 1 + j1 = a + (j1 + 1) by omega]
      · rw [show a + (j1 + 1) = a + 1 + j1 by omega]; exact hfr
      · intro j' hj'
        cases j' with
        | zero => exact hc
        | succ j'' =>
          rw [show a + (j'' + 1) = a + 1 + j'' by omega]
          exact hall j'' (by omega)

/-- pigeonhole: a table with `len` keys cannot contain all of the `len + 1` integer keys
    `len, …, len + len` -/
theorem exists_free_candidate (hofInt : ∀ i, ck (ofInt i) = OVal.int i) (l : List (W × W))
    (hb : 2 * l.length + 1 < 2 ^ 63) :
    ∃ j, j < l.length + 1 ∧ specContains ck l (ofInt (Int64.ofNat (l.length + j))) = false := by
  apply Classical.byContradiction
  intro hno
  have hall : ∀ j, j < l.length + 1 →
      specContains ck l (ofInt (Int64.ofNat (l.length + j))) = true := by
    intro j hj
    cases hc : specContains ck l (ofInt (Int64.ofNat (l.length + j))) with
    | true => rfl
    | false => exact absurd ⟨j, hj, hc⟩ hno
  let cand : List OVal :=
    (List.range (l.length + 1)).map (fun j => OVal.int (Int64.ofNat (l.length + j)))
  have hnd : cand.Nodup := by
    show ((List.range (l.length + 1)).map _).Nodup
    rw [List.nodup_iff_pairwise_ne, List.pairwise_map]
    refine List.Pairwise.imp_of_mem ?_ (List.pairwise_lt_range (n := l.length + 1))
    intro a b ha hb' hab heq
    rw [List.mem_range] at ha hb'
    have := ofNat_inj_small (by omega) (by omega) (OVal.int.inj heq)
    omega
  have hsub : cand ⊆ ckeys ck l := by
    intro c hc
    obtain ⟨j, hj, rfl⟩ := List.mem_map.mp hc
    rw [List.mem_range] at hj
    have := (specContains_iff l _).mp (hall j hj)
    rw [hofInt] at this
    exact this
  have hlen := nodup_subset_length hnd hsub
  have h1 : cand.length = l.length + 1 := by
    show ((List.range (l.length + 1)).map _).length = _
    rw [List.length_map, List.length_range]
  have h2 : (ckeys ck l).length = l.length := by unfold ckeys; rw [List.length_map]
  omega

/-- **the key of `append`** (specification level): it is `n` for the least natural number
    `n ≥ len` such that the integer key `n` is unused; `n ≤ 2·len`, so the bounded search of
    `len + 1` probes always suffices. -/
theorem specAppendKey_least (hofInt : ∀ i, ck (ofInt i) = OVal.int i) (l : List (W × W))
    (hb : 2 * l.length + 1 < 2 ^ 63) :
    ∃ n, specAppendKey ck ofInt l = Int64.ofNat n ∧ l.length ≤ n ∧ n ≤ 2 * l.length ∧
      specContains ck l (ofInt (Int64.ofNat n)) = false ∧
      ∀ j, l.length ≤ j → j < n → specContains ck l (ofInt (Int64.ofNat j)) = true := by
  obtain ⟨j, hj, hff, hfr, hall⟩ :=
    firstFree_spec (ck := ck) (ofInt := ofInt) l (l.length + 1) l.length
      (exists_free_candidate hofInt l hb)
  refine ⟨l.length + j, hff, by omega, by omega, hfr, ?_⟩
  intro j' h1 h2
  have := hall (j' - l.length) (by omega)
  rw [show l.length + (j' - l.length) = j' by omega] at this
  exact this

/-- the same, in terms of the (signed) order of `Int64`: the key of `append` is the least
    `i ≥ len` such that the integer key `i` is unused -/
theorem specAppendKey_least_int (hofInt : ∀ i, ck (ofInt i) = OVal.int i) (l : List (W × W))
    (hb : 2 * l.length + 1 < 2 ^ 63) :
    Int64.ofNat l.length ≤ specAppendKey ck ofInt l ∧
    specContains ck l (ofInt (specAppendKey ck ofInt l)) = false ∧
    ∀ i : Int64, Int64.ofNat l.length ≤ i → i < specAppendKey ck ofInt l →
      specContains ck l (ofInt i) = true := by
  obtain ⟨n, hn, h1, h2, hfree, hall⟩ := specAppendKey_least hofInt l hb
  rw [hn]
  have hln : (Int64.ofNat l.length).toInt = l.length := Int64.toInt_ofNat_of_lt (by omega)
  have hnn : (Int64.ofNat n).toInt = n := Int64.toInt_ofNat_of_lt (by omega)
  refine ⟨?_, hfree, ?_⟩
  · rw [Int64.le_iff_toInt_le, hln, hnn]; omega
  · intro i hi1 hi2
    rw [Int64.le_iff_toInt_le, hln] at hi1
    rw [Int64.lt_iff_toInt_lt, hnn] at hi2
    have hi : i = Int64.ofNat i.toInt.toNat := by
      rw [← Int64.ofInt_eq_ofNat, Int.toNat_of_nonneg (by omega), Int64.ofInt_toInt]
    rw [hi]
    exact hall _ (by omega) (by omega)

end AppendKey

/-! ## The sentences of the property -/

section Corollaries
variable {ck : W → OVal} {weq : W → W → Bool}

/-- `specGet` after `specInsert` -/
theorem specGet_insert (l : List (W × W)) (k v k' : W) :
    specGet ck (specInsert ck l k v) k' = if ck k' = ck k then some v else specGet ck l k' := by
  have hg : ∀ (x : List (W × W)), specGet ck x k' = (findC ck x (ck k')).map (·.2) := fun _ => rfl
  have hcf : specContains ck l k = (findC ck l (ck k)).isSome := rfl
  unfold specInsert
  rw [hcf, hg, hg]
  cases hf : findC ck l (ck k) with
  | some e0 =>
    simp only [Option.isSome_some, if_true]
    rw [show specSet ck l k v = setVal (ck := ck) (ck k) v l from rfl,
      findC_setVal_present hf v (ck k')]
    by_cases hc : ck k' = ck k <;> simp [hc]
  | none =>
    simp only [Option.isSome_none, Bool.false_eq_true, if_false]
    rw [findC_concat_new (e := (k, v)) hf (ck k')]
    by_cases hc : ck k' = ck k <;> simp [hc]

/-- **set then get**: after a successful `t[k] = v`, reading through *any* key equal to `k`
    returns `v`, and every other key reads as before. -/
theorem get_after_insert (hweq : ∀ a b, weq a b = true ↔ ck a = ck b) {t : TableM W}
    (h : TInv ck t) (k v : W) (al : Alloc) (hok : (t.insert ck k v al).2.2 ≠ .allocErr) :
    (∀ k', weq k' k = true → (t.insert ck k v al).1.get ck k' = some v) ∧
    (∀ k', weq k' k = false → (t.insert ck k v al).1.get ck k' = t.get ck k') := by
  have hR := TInv_Rel h
  rcases rel_insert hR k v al with ⟨_, hR'⟩ | ⟨he, _⟩
  · constructor
    · intro k' hk'
      rw [rel_get hR', specGet_insert, if_pos ((hweq k' k).mp hk')]
    · intro k' hk'
      have : ¬ ck k' = ck k := fun hc => by rw [(hweq k' k).mpr hc] at hk'; cases hk'
      rw [rel_get hR', specGet_insert, if_neg this, rel_get hR]
  · exact absurd he hok

/-- **a missing key reads as nil**: `get` returns `none` (and `contains` is false) exactly when no
    key of the table equals `k` -/
theorem get_missing {t : TableM W} (h : TInv ck t) (k : W) :
    (t.get ck k = none ↔ ∀ k0 ∈ t.keys, ck k0 ≠ ck k) ∧
    (t.contains ck k = false ↔ ∀ k0 ∈ t.keys, ck k0 ≠ ck k) := by
  have hR := TInv_Rel h
  have hiff : findC ck (abs ck t) (ck k) = none ↔ ∀ k0 ∈ t.keys, ck k0 ≠ ck k := by
    rw [findC_none, hR.2.1]
    constructor
    · intro hh k0 hk0
      obtain ⟨e, he, rfl⟩ := List.mem_map.mp hk0
      exact hh e he
    · intro hh e he
      exact hh e.1 (List.mem_map.mpr ⟨e, he, rfl⟩)
  rw [← hiff]
  constructor
  · rw [rel_get hR]
    show (findC ck (abs ck t) (ck k)).map (·.2) = none ↔ _
    cases findC ck (abs ck t) (ck k) <;> simp
  · rw [rel_contains hR]
    show (findC ck (abs ck t) (ck k)).isSome = false ↔ _
    cases findC ck (abs ck t) (ck k) <;> simp

/-- after `remove k` the key (and every key equal to it) is absent, other keys are unaffected -/
theorem get_after_remove (hweq : ∀ a b, weq a b = true ↔ ck a = ck b) {t : TableM W}
    (h : TInv ck t) (k k' : W) :
    (t.remove ck weq k).1.get ck k' = if weq k' k then none else t.get ck k' := by
  have hR := TInv_Rel h
  obtain ⟨t', hrem, hR', _⟩ := rel_remove hweq hR k
  rw [hrem]
  simp only
  rw [rel_get hR', rel_get hR]
  show (findC ck (specRemove ck (abs ck t) k) (ck k')).map (·.2) =
    if weq k' k = true then none else (findC ck (abs ck t) (ck k')).map (·.2)
  unfold specRemove
  rw [findC_filter]
  cases hw : weq k' k with
  | true => rw [if_pos ((hweq k' k).mp hw)]; rfl
  | false =>
    have : ¬ ck k' = ck k := fun hc => by rw [(hweq k' k).mpr hc] at hw; cases hw
    rw [if_neg this]; rfl

/-- **length counts distinct keys**: the canonical keys of `keys` enumerate, without repetition,
    exactly the keys the table contains, and `len` is their number (which is also the entry count
    of the hash part and the length of the iteration). -/
theorem len_counts_keys {t : TableM W} (h : TInv ck t) :
    (t.keys.map ck).Nodup ∧ (∀ k, t.contains ck k = true ↔ ck k ∈ t.keys.map ck) ∧
    t.len = (t.keys.map ck).length ∧ t.len = t.map.count ∧ t.len = (t.iter ck).length := by
  have hR := TInv_Rel h
  refine ⟨h.2.1, ?_, by rw [List.length_map]; rfl, h.2.2.2.symm, rel_len hR⟩
  intro k
  rw [rel_contains hR, specContains_iff, ckeys_eq, ← hR.2.1]

/-- a successful insert adds one to the length iff the key was not present -/
theorem len_after_insert {t : TableM W} (h : TInv ck t) (k v : W) (al : Alloc)
    (hok : (t.insert ck k v al).2.2 ≠ .allocErr) :
    (t.insert ck k v al).1.len = if t.contains ck k then t.len else t.len + 1 := by
  have hR := TInv_Rel h
  rcases rel_insert hR k v al with ⟨_, hR'⟩ | ⟨he, _⟩
  · rw [rel_len hR', rel_len hR, rel_contains hR]
    unfold specInsert
    cases specContains ck (abs ck t) k with
    | true =>
      simp only [if_true]
      show (List.map _ _).length = _
      rw [List.length_map]
    | false => simp
  · exact absurd he hok

/-- **append**: `append v` is `t[i] = v` for the key `i = appendKey`, which is the least integer
    `≥ len` (in the order of `Int64`) that is not a key of the table. The bounded search loop of
    `len + 1` probes suffices by pigeonhole (`TL.nodup_subset_length`); the side condition excludes
    `Int64` wrap-around of the candidates `len … 2·len`. -/
theorem append_key_min {ofInt : Int64 → W} (hofInt : ∀ i, ck (ofInt i) = OVal.int i)
    {t : TableM W} (h : TInv ck t) (hb : 2 * t.keys.length + 1 < 2 ^ 63) :
    (∀ v al, t.append ck ofInt v al = t.insert ck (ofInt (t.appendKey ck ofInt)) v al) ∧
    Int64.ofNat t.len ≤ t.appendKey ck ofInt ∧
    t.contains ck (ofInt (t.appendKey ck ofInt)) = false ∧
    (∀ i : Int64, Int64.ofNat t.len ≤ i → i < t.appendKey ck ofInt →
      t.contains ck (ofInt i) = true) ∧
    (∃ n, t.appendKey ck ofInt = Int64.ofNat n ∧ t.len ≤ n ∧ n ≤ 2 * t.len) := by
  have hR := TInv_Rel h
  have hlen := rel_len hR
  have hb' : 2 * (abs ck t).length + 1 < 2 ^ 63 := by
    rw [← hlen]; exact hb
  obtain ⟨h1, h2, h3⟩ := specAppendKey_least_int (ofInt := ofInt) hofInt (abs ck t) hb'
  obtain ⟨n, hn, hn1, hn2, _⟩ := specAppendKey_least (ofInt := ofInt) hofInt (abs ck t) hb'
  refine ⟨fun _ _ => rfl, ?_⟩
  rw [rel_appendKey hR, hlen]
  refine ⟨h1, by rw [rel_contains hR]; exact h2, ?_, n, hn, hn1, hn2⟩
  intro i hi1 hi2
  rw [rel_contains hR]; exact h3 i hi1 hi2

/-- a successful `append v` stores `v` under the new key and makes the table one longer -/
theorem append_stores {ofInt : Int64 → W} (hofInt : ∀ i, ck (ofInt i) = OVal.int i)
    (hweq : ∀ a b, weq a b = true ↔ ck a = ck b)
    {t : TableM W} (h : TInv ck t) (hb : 2 * t.keys.length + 1 < 2 ^ 63) (v : W) (al : Alloc)
    (hok : (t.append ck ofInt v al).2.2 ≠ .allocErr) :
    (t.append ck ofInt v al).1.get ck (ofInt (t.appendKey ck ofInt)) = some v ∧
    (t.append ck ofInt v al).1.len = t.len + 1 ∧
    (t.append ck ofInt v al).1.iter ck = t.iter ck ++ [(ofInt (t.appendKey ck ofInt), v)] := by
  obtain ⟨_, _, hfree, _⟩ := append_key_min hofInt h hb
  have hR := TInv_Rel h
  refine ⟨?_, ?_, ?_⟩
  · exact (get_after_insert hweq h _ v al hok).1 _ ((hweq _ _).mpr rfl)
  · have := len_after_insert h (ofInt (t.appendKey ck ofInt)) v al hok
    rw [hfree] at this
    exact this
  · rcases rel_insert hR (ofInt (t.appendKey ck ofInt)) v al with ⟨_, hR'⟩ | ⟨he, _⟩
    · have := rel_iter hR'
      rw [rel_contains hR] at hfree
      simp only [specInsert, hfree, Bool.false_eq_true, if_false] at this
      exact this
    · exact absurd he hok

/-- **pop** removes and returns the most recently inserted entry's value (`nil` when the table is
    empty); afterwards that key is absent, and the remaining entries, their values and their order
    are unchanged. -/
theorem pop_spec (nilW : W) {t : TableM W} (h : TInv ck t) :
    (t.iter ck = [] → t.pop ck nilW = (t, .ok nilW)) ∧
    (∀ l0 k v, t.iter ck = l0 ++ [(k, v)] →
      ∃ t', t.pop ck nilW = (t', .ok v) ∧ TInv ck t' ∧ t'.iter ck = l0 ∧
        t'.get ck k = none ∧ t'.contains ck k = false ∧ t'.len + 1 = t.len ∧
        ∀ k', ck k' ≠ ck k → t'.get ck k' = t.get ck k') := by
  have hR := TInv_Rel h
  constructor
  · intro hnil
    have hk : t.keys = [] := by rw [hR.2.1]; show (t.iter ck).map _ = _; rw [hnil]; rfl
    simp only [TableM.pop, hk, List.getLast?_nil]
  · intro l0 k v hl
    obtain ⟨t', hpop, hR', _⟩ := rel_pop hR nilW
    have habs : abs ck t = l0 ++ [(k, v)] := hl
    have hsp : specPop nilW (abs ck t) = (l0, v) := by
      rw [habs]; simp only [specPop, List.getLast?_concat, List.dropLast_concat]
    rw [hsp] at hpop hR'
    have hnd := hR.2.2.1
    rw [habs] at hnd
    have hfd := fun c => findC_dropLast (ck := ck) (l := l0) (e := (k, v)) hnd c
    have hgk : findC ck l0 (ck k) = none := by rw [hfd]; simp
    refine ⟨t', hpop, Rel_TInv hR', rel_iter hR', ?_, ?_, ?_, ?_⟩
    · rw [rel_get hR']; show (findC ck l0 (ck k)).map (·.2) = none; rw [hgk]; rfl
    · rw [rel_contains hR']; show (findC ck l0 (ck k)).isSome = false; rw [hgk]; rfl
    · rw [rel_len hR', rel_len hR, habs]; simp
    · intro k' hk'
      rw [rel_get hR', rel_get hR, habs]
      show (findC ck l0 (ck k')).map (·.2) = (findC ck (l0 ++ [(k, v)]) (ck k')).map (·.2)
      rw [hfd, if_neg hk']

/-- **row-by-index and for-each visit every entry exactly once in insertion order**: the keys of
    `iter` are `keys` (insertion order), `nthKey i` is the key of the `i`-th element of `iter`,
    `iter` has no duplicate canonical keys and lists exactly the present entries. -/
theorem nth_iter_order (nilW : W) {t : TableM W} (h : TInv ck t) :
    (t.iter ck).map Prod.fst = t.keys ∧
    (∀ i, t.nthKey nilW i = ((t.iter ck).map Prod.fst).getD i nilW) ∧
    ((t.iter ck).map (fun e => ck e.1)).Nodup ∧
    (∀ k v, t.get ck k = some v ↔ ∃ k0, (k0, v) ∈ t.iter ck ∧ ck k0 = ck k) ∧
    (t.iter ck).length = t.len := by
  have hR := TInv_Rel h
  refine ⟨hR.2.1.symm, fun i => rel_nth hR nilW i, hR.2.2.1, ?_, (rel_len hR).symm⟩
  intro k v
  rw [rel_get hR]
  show (findC ck (abs ck t) (ck k)).map (·.2) = some v ↔ _
  constructor
  · intro hg
    cases hf : findC ck (abs ck t) (ck k) with
    | none => rw [hf] at hg; cases hg
    | some e =>
      rw [hf] at hg
      simp only [Option.map_some, Option.some.injEq] at hg
      obtain ⟨he, hc⟩ := findC_some hf
      exact ⟨e.1, by rw [← hg]; exact he, hc⟩
  · rintro ⟨k0, hm, hc⟩
    have := findC_of_mem hR.2.2.1 hm
    simp only at this
    rw [← hc, this]; rfl

/-- `nthKey i` for an index in range is the key of the `i`-th iterated entry -/
theorem nth_in_range (nilW : W) {t : TableM W} (h : TInv ck t) (i : Nat)
    (hi : i < (t.iter ck).length) : t.nthKey nilW i = ((t.iter ck)[i]).1 := by
  rw [(nth_iter_order nilW h).2.1 i, List.getD_eq_getElem?_getD, List.getElem?_map,
    List.getElem?_eq_getElem hi]
  rfl

end Corollaries

/-! ## Non-vacuity -/

section Example

/-- the instantiation used by the interpreter model: keys are their own canonical form -/
example :
    (∀ a b : OVal, (fun a b => decide (a = b)) a b = true ↔ id a = id b) ∧
    (∀ i : Int64, id (OVal.int i) = OVal.int i) ∧
    (∃ t : TableM OVal, TInv id t ∧ abs id t = [] ∧ t.len = 0) := by
  refine ⟨by intro a b; simp, fun _ => rfl, ?_⟩
  have hw : (TableM.withCapacity 4 {} : Alloc × Res (TableM OVal)) =
      ({ n := 1 }, .ok { map := { cap := 4, slots := OA.empty, count := 0 }, keys := [] }) := rfl
  have := tbl_withCapacity_inv (W := OVal) (ck := id) 4 {}
  rw [hw] at this
  exact ⟨_, this.1, this.2, rfl⟩

/-- a concrete run: a failed allocation, inserts, appends (the second `append` skips the used key
    `1`), an overwrite that keeps the position, ordered iteration, `pop`, `nth`, `remove`. The
    expected outputs are computed from the specification (`rfl`); `tbl_refines` transfers them to
    the code-shaped model (whose growth step `OA.compact` does not reduce in the kernel). -/
private def exOps : List (Op OVal) :=
  [.insert (.str [97]) (.int 1) (some 0), .len,
   .insert (.str [97]) (.int 1) none, .append (.int 10) none, .insert (.int 1) (.int 11) none,
   .append (.int 12) none, .insert (.str [97]) (.int 2) none, .get (.str [97]), .len, .iter,
   .pop, .nth 0, .remove (.str [97]), .iter, .append (.int 13) none, .iter, .get (.nil),
   .pop, .pop, .pop, .len]

private def exOuts : List (Out OVal) :=
  [.allocErr, .num 0,
   .unit, .unit, .unit, .unit, .unit, .value (some (.int 2)), .num 3,
   .items [(.str [97], .int 2), (.int 1, .int 11), (.int 2, .int 12)],
   .popped (.int 12), .key (.str [97]), .unit, .items [(.int 1, .int 11)], .unit,
   .items [(.int 1, .int 11), (.int 2, .int 13)], .value none,
   .popped (.int 13), .popped (.int 11), .popped .nil, .num 0]

example : ∃ (t : TableM OVal) (al' : Alloc), TableM.withCapacity 0 {} = (al', .ok t) ∧
    runModel OVal.nil OVal.int id (fun a b => decide (a = b)) t exOps = exOuts := by
  refine ⟨{ map := { cap := 1, slots := OA.empty, count := 0 }, keys := [] }, { n := 1 }, rfl, ?_⟩
  exact (tbl_refines (ck := id) (weq := fun a b => decide (a = b)) OVal.nil OVal.int
    (by intro a b; simp) 0 {} { n := 1 } _ rfl exOps).trans rfl

end Example

end Cao.C07
