import CaoProofs.Props.C01L
import CaoProofs.Lemmas.SimScopes
/-!
# C01, continued: scoped locals (`While` bodies that declare locals, `Repeat`)

The value stack holds one *slot* per compile-time local: a named slot shows the cell of a local of
the reference semantics, a hidden slot (the counters of `Repeat`) holds a value of its own. The
cells of the reference semantics are never freed, so slots and cells are related by an injective
map instead of coinciding.
-/
namespace Cao.C01
open Cao Cao.Vm Cao.Sim Cao.Compiler

inductive Slot where
  | named (n : String) (d : Int) (c : Nat)
  | hidden (d : Int) (v : Val)

def Slot.ctx : Slot → String × Int
  | .named n d _ => (n, d)
  | .hidden d _ => ("", d)

def ctxOf (S : List Slot) : LCtx := S.map Slot.ctx

def Slot.val (σ : Sem.St) : Slot → Val
  | .named _ _ c => σ.cells[c]?.getD .nil
  | .hidden _ v => v

def Slot.cell : Slot → Option Nat
  | .named _ _ c => some c
  | .hidden _ _ => none

/-- the bottom of the value stack (top first) -/
def baseOf (S : List Slot) (σ : Sem.St) : List Val := (S.map (Slot.val σ)).reverse

structure SRel (S : List Slot) (σ : Sem.St) : Prop where
  lt : ∀ s ∈ S, ∀ c, s.cell = some c → c < σ.cells.size
  inj : (S.filterMap Slot.cell).Nodup
  scalar : ∀ (i : Nat) (v : Val), σ.cells[i]? = some v → Scalar v
  gscalar : ∀ (n : String) (v : Val), glookup σ.globals n = some v → Scalar v
  hscalar : ∀ d v, Slot.hidden d v ∈ S → Scalar v

/-- name lookup in the environment of the reference semantics finds the cell of the slot that the
    compiler resolves the name to -/
def LookRel (env : Sem.Env) (S : List Slot) : Prop :=
  ∀ n, n.isEmpty = false →
    Sem.lookupEnv env n = (lidx (ctxOf S) n).bind (fun j => (S[j]?).bind Slot.cell)

theorem slot_of_lidx {S : List Slot} {n : String} {j : Nat} (h : lidx (ctxOf S) n = some j)
    (hn : n.isEmpty = false) : ∃ d c, S[j]? = some (.named n d c) := by
  have hj := lidx_lt h
  have hp := List.find?_some h
  simp only [ctxOf, List.length_map] at hj
  simp only [ctxOf, List.getD_eq_getElem?_getD, List.getElem?_map, List.getElem?_eq_getElem hj, Option.map_some,
    Option.getD_some, beq_iff_eq] at hp
  rcases hs : S[j] with ⟨n', d, c⟩ | ⟨d, v⟩
  · rw [hs] at hp
    simp only [Slot.ctx] at hp
    subst hp
    exact ⟨d, c, by rw [List.getElem?_eq_getElem hj, hs]⟩
  · rw [hs] at hp
    simp only [Slot.ctx] at hp
    rw [← hp] at hn
    exact absurd hn (by decide)

theorem readVar_env {cx : Sem.Ctx} (hout : cx.outer = []) {n : String} (hn : simpleName n = true)
    (env : Sem.Env) (s : Sem.St) :
    Sem.readVar cx env s n = (s, env, match Sem.lookupEnv env n with
      | some c => .ok (s.cells[c]?.getD .nil)
      | none => match glookup s.globals n with
        | some x => .ok x
        | none => .unspecified "read of a global that was never written") := by
  simp only [simpleName, Bool.and_eq_true, decide_eq_true_eq, Bool.not_eq_true'] at hn
  obtain ⟨hsplit, hne⟩ := hn
  have hnone : Sem.lookupEnv [] n = none := rfl
  unfold Sem.readVar
  simp only [hsplit, List.filter_nil, hne, Bool.false_eq_true, if_false, hout, hnone, List.foldl_nil]
  rcases Sem.lookupEnv env n with _ | c
  · unfold glookup
    rcases hfind : List.find? (fun p => p.fst == n) s.globals with _ | ⟨a, b⟩ <;> simp only [hfind] <;> rfl
  · rfl

/-! ## frames: the locals of the current function start at the stack offset of the innermost frame -/

/-- the innermost call frame has stack offset `off` -/
def FrameAt (vs : VmState) (off : Nat) : Prop := ∃ f, vs.frames.getLast? = some f ∧ f.stackOffset = off

theorem SameRest.frameAt {a b : VmState} (h : SameRest a b) {off : Nat} (hf : FrameAt a off) : FrameAt b off := by
  unfold SameRest at h
  unfold FrameAt
  rw [h]; exact hf

theorem _root_.Cao.Sim.StackIs.popW {st : VStack Val} {cap : Nat} {l : List Val} {v : Val} (h : StackIs st cap (v :: l))
    {off : Nat} (hoff : off ≤ l.length) :
    (st.popWOffset off).2 = v ∧ StackIs (st.popWOffset off).1 cap l := by
  unfold VStack.popWOffset
  rw [if_neg (by rw [h.count]; simp; omega)]
  exact h.pop

section instrAt
variable {P : Prog}

theorem reach_readLocalAt {ip i off : Nat} {vs : VmState} {cap : Nat} {stk : List Val}
    (hin : ip < P.bytecode.size) (hop : P.bytecode.getD ip 0 = Compiler.op.readLocalVar)
    (hi : rdU32 P.bytecode (ip + 1) = i) (hf : FrameAt vs off)
    (hst : StackIs vs.stack cap stk) (hlt : off + i < stk.length) (hroom : stk.length + 1 < cap) :
    ∃ vs', Reach P 1 ip vs (ip + 5) vs' ∧ StackIs vs'.stack cap (stk.reverse.getD (off + i) .nil :: stk) ∧
      SameRest vs vs' ∧ vs'.globals = vs.globals := by
  obtain ⟨f, hf1, hf2⟩ := hf
  refine reach_push (P := P) (stk.reverse.getD (off + i) .nil) hin hst hroom fun re st' hp => ?_
  exact step_readLocalVar (s := tick vs) (f := f) hop hf1 (by
    rw [hf2, hi]
    show vs.stack.push (vs.stack.get (off + i)) = _
    rw [hst.get hlt]; exact hp)

theorem reach_setLocalAt_old {ip i off : Nat} {vs : VmState} {cap : Nat} {stk : List Val} {x : Val}
    (hin : ip < P.bytecode.size) (hop : P.bytecode.getD ip 0 = Compiler.op.setLocalVar)
    (hi : rdU32 P.bytecode (ip + 1) = i) (hf : FrameAt vs off)
    (hst : StackIs vs.stack cap (x :: stk)) (hlt : off + i < stk.length) :
    ∃ vs', Reach P 1 ip vs (ip + 5) vs' ∧ StackIs vs'.stack cap ((stk.reverse.set (off + i) x).reverse) ∧
      SameRest vs vs' ∧ vs'.globals = vs.globals := by
  obtain ⟨f, hf1, hf2⟩ := hf
  obtain ⟨hv, hst1⟩ := hst.popW (off := off) (by omega)
  obtain ⟨old, hset, hst2⟩ := hst1.setAt x hlt
  refine ⟨{ tick vs with stack := { (vs.stack.popWOffset off).1 with
      data := (vs.stack.popWOffset off).1.data.set (off + i) x } },
    Reach.one ⟨hin, rfl, fun re => ?_⟩, hst2, rfl, rfl⟩
  exact step_setLocalVar (s := tick vs) (f := f) (old := old) hop hf1 (by
    rw [hf2, hi]
    show (vs.stack.popWOffset off).1.set (off + i) (vs.stack.popWOffset off).2 = _
    rw [hv]; exact hset)

theorem reach_setLocalAt_new {ip i off : Nat} {vs : VmState} {cap : Nat} {stk : List Val} {x : Val}
    (hin : ip < P.bytecode.size) (hop : P.bytecode.getD ip 0 = Compiler.op.setLocalVar)
    (hi : rdU32 P.bytecode (ip + 1) = i) (hoff : off + i = stk.length) (hf : FrameAt vs off)
    (hst : StackIs vs.stack cap (x :: stk)) (hroom : stk.length + 1 < cap) :
    ∃ vs', Reach P 1 ip vs (ip + 5) vs' ∧ StackIs vs'.stack cap (x :: stk) ∧
      SameRest vs vs' ∧ vs'.globals = vs.globals := by
  obtain ⟨f, hf1, hf2⟩ := hf
  obtain ⟨hv, hst1⟩ := hst.popW (off := off) (by omega)
  obtain ⟨st', hset, hst2⟩ := hst1.setTop x hroom
  refine ⟨{ tick vs with stack := st' }, Reach.one ⟨hin, rfl, fun re => ?_⟩, hst2, rfl, rfl⟩
  exact step_setLocalVar (s := tick vs) (f := f) (old := default) hop hf1 (by
    rw [hf2, hi, hoff]
    show (vs.stack.popWOffset off).1.set stk.length (vs.stack.popWOffset off).2 = _
    rw [hv]; exact hset)

end instrAt

/-! ### the slots of the current function above the rest of the stack -/

theorem getD_above (top rest : List Val) (i : Nat) :
    (top ++ rest).reverse.getD (rest.length + i) .nil = top.reverse.getD i .nil := by
  rw [List.reverse_append, List.getD_eq_getElem?_getD, List.getD_eq_getElem?_getD,
    List.getElem?_append_right (by simp)]
  simp

theorem set_above (top rest : List Val) (i : Nat) (x : Val) :
    ((top ++ rest).reverse.set (rest.length + i) x).reverse = (top.reverse.set i x).reverse ++ rest := by
  rw [List.reverse_append, List.set_append_right _ _ (by simp)]
  simp


section simS
variable {P : Prog} {F : List (UInt32 × Nat)} {N : String → Prop} {cx : Sem.Ctx} (hout : cx.outer = [])
include hout

theorem eval_simS (S : List Slot) (env : Sem.Env) (henv : LookRel env S) :
    ∀ (e : Card), isExpr e = true → ∀ (fuel : Nat) (σ σ' : Sem.St) (env' : Sem.Env) (v : Val) (pc pc' : Nat),
      Sem.eval cx fuel env σ e = (σ', env', .ok v) → ECodeL P.bytecode F (ctxOf S) e pc pc' → pc' ≤ P.bytecode.size →
      σ' = σ ∧ env = env' ∧ ∃ n, n ≤ pc' - pc ∧
        ∀ (vs : VmState) (cap : Nat) (stk : List Val) (off : Nat), StackIs vs.stack cap stk → stk.length + edepth e < cap →
          GRel F N σ.globals vs.globals → FrameAt vs off → SRel S σ →
          (∃ temps rest, stk = temps ++ (baseOf S σ ++ rest) ∧ rest.length = off) →
          Scalar v ∧ ∃ vs', Reach P n pc vs pc' vs' ∧ StackIs vs'.stack cap (v :: stk) ∧ SameRest vs vs' ∧
            vs'.globals = vs.globals
  | .scalarInt i => by
    intro _ fuel σ σ' env' v pc pc' hev hcode hsz
    cases fuel with
    | zero => rw [eval_zero] at hev; cases hev
    | succ f =>
      rw [eval_scalarInt] at hev
      simp only [Prod.mk.injEq, Sem.Res.ok.injEq] at hev
      obtain ⟨rfl, rfl, rfl⟩ := hev
      simp only [ECodeL] at hcode
      obtain ⟨h1, h2, rfl⟩ := hcode
      refine ⟨rfl, rfl, 1, by omega, fun vs cap stk off hst hroom _ _ _ _ => ?_⟩
      simp only [edepth] at hroom
      obtain ⟨vs', hr, hs', hsame, hg⟩ := reach_push (P := P) (ip := pc) (ip' := pc + 9) (.int i) (by omega) hst hroom
        (fun re st' hp => by
          have := step_scalarInt (re := re) h1 (s := tick vs) (st' := st')
            (by rw [h2, Int64.toInt64_toUInt64]; exact hp)
          exact this)
      exact ⟨trivial, vs', hr, hs', hsame, hg⟩
  | .scalarFloat b => by
    intro _ fuel σ σ' env' v pc pc' hev hcode hsz
    cases fuel with
    | zero => rw [eval_zero] at hev; cases hev
    | succ f =>
      rw [eval_scalarFloat] at hev
      simp only [Prod.mk.injEq, Sem.Res.ok.injEq] at hev
      obtain ⟨rfl, rfl, rfl⟩ := hev
      simp only [ECodeL] at hcode
      obtain ⟨h1, h2, rfl⟩ := hcode
      refine ⟨rfl, rfl, 1, by omega, fun vs cap stk off hst hroom _ _ _ _ => ?_⟩
      simp only [edepth] at hroom
      obtain ⟨vs', hr, hs', hsame, hg⟩ := reach_push (P := P) (ip := pc) (ip' := pc + 9) (.real b) (by omega) hst hroom
        (fun re st' hp => by
          have := step_scalarFloat (re := re) h1 (s := tick vs) (st' := st') (by rw [h2]; exact hp)
          exact this)
      exact ⟨trivial, vs', hr, hs', hsame, hg⟩
  | .scalarNil => by
    intro _ fuel σ σ' env' v pc pc' hev hcode hsz
    cases fuel with
    | zero => rw [eval_zero] at hev; cases hev
    | succ f =>
      rw [eval_scalarNil] at hev
      simp only [Prod.mk.injEq, Sem.Res.ok.injEq] at hev
      obtain ⟨rfl, rfl, rfl⟩ := hev
      simp only [ECodeL] at hcode
      obtain ⟨h1, rfl⟩ := hcode
      refine ⟨rfl, rfl, 1, by omega, fun vs cap stk off hst hroom _ _ _ _ => ?_⟩
      simp only [edepth] at hroom
      obtain ⟨vs', hr, hs', hsame, hg⟩ := reach_push (P := P) (ip := pc) (ip' := pc + 1) .nil (by omega) hst hroom
        (fun re st' hp => step_scalarNil (re := re) h1 (s := tick vs) (st' := st') hp)
      exact ⟨trivial, vs', hr, hs', hsame, hg⟩
  | .un .not c => by
    intro he fuel σ σ' env' v pc pc' hev hcode hsz
    simp only [isExpr] at he
    cases fuel with
    | zero => rw [eval_zero] at hev; cases hev
    | succ f =>
      rw [eval_not] at hev
      simp only [ECodeL] at hcode
      obtain ⟨m, hc1, hop, rfl⟩ := hcode
      rcases hc : Sem.eval cx f env σ c with ⟨σ1, env1, r1⟩
      rw [hc] at hev
      cases r1 with
      | ok v1 =>
        simp only [Prod.mk.injEq, Sem.Res.ok.injEq] at hev
        obtain ⟨rfl, rfl, rfl⟩ := hev
        obtain ⟨rfl, rfl, n1, hn1, hsim1⟩ := eval_simS S env henv c he f σ σ1 env1 v1 pc m hc hc1 (by omega)
        have hlt := ecodeL_lt hc1
        refine ⟨rfl, rfl, n1 + 1, by omega, fun vs cap stk off hst hroom hg hfr hlr hbase => ?_⟩
        simp only [edepth] at hroom
        obtain ⟨hs1, vs1, hr1, hst1, hsame1, hg1⟩ := hsim1 vs cap stk off hst hroom hg hfr hlr hbase
        have hpos := edepth_pos c
        obtain ⟨vs2, hr2, hst2, hsame2, hg2⟩ := reach_not (P := P) (ip := m) (by omega) hop hst1 (by omega)
        rw [ownD_scalar hs1 vs1.heap σ1] at hst2
        exact ⟨trivial, vs2, hr1.trans hr2 rfl, hst2, hsame1.trans hsame2, hg2.trans hg1⟩
      | outOfFuel | ret _ | exit | err _ | unspecified _ =>
        simp only [Prod.mk.injEq] at hev
        obtain ⟨_, _, h⟩ := hev
        cases h
  | .bin k a b => by
    intro he fuel σ σ' env' v pc pc' hev hcode hsz
    simp only [isExpr, Bool.and_eq_true] at he
    obtain ⟨⟨hk, hea⟩, heb⟩ := he
    cases fuel with
    | zero => rw [eval_zero] at hev; cases hev
    | succ f =>
      rw [eval_bin _ _ _ _ k hk] at hev
      simp only [ECodeL] at hcode
      obtain ⟨m1, m2, hc1, hc2, hop, rfl⟩ := hcode
      have hlt1 := ecodeL_lt hc1
      have hlt2 := ecodeL_lt hc2
      rcases hca : Sem.eval cx f env σ a with ⟨σ1, env1, r1⟩
      rw [hca] at hev
      cases r1 with
      | ok va =>
        simp only at hev
        obtain ⟨rfl, rfl, n1, hn1, hsim1⟩ := eval_simS S env henv a hea f σ σ1 env1 va pc m1 hca hc1 (by omega)
        rcases hcb : Sem.eval cx f env σ1 b with ⟨σ2, env2, r2⟩
        rw [hcb] at hev
        cases r2 with
        | ok vb =>
          simp only [Prod.mk.injEq, Sem.Res.ok.injEq] at hev
          obtain ⟨rfl, rfl, rfl⟩ := hev
          obtain ⟨rfl, rfl, n2, hn2, hsim2⟩ := eval_simS S env henv b heb f σ1 σ2 env2 vb m1 m2 hcb hc2 (by omega)
          refine ⟨rfl, rfl, n1 + n2 + 1, by omega, fun vs cap stk off hst hroom hg hfr hlr hbase => ?_⟩
          simp only [edepth] at hroom
          obtain ⟨hsa, vs1, hr1, hst1, hsame1, hg1⟩ := hsim1 vs cap stk off hst (by omega) hg hfr hlr hbase
          obtain ⟨hsb, vs2, hr2, hst2, hsame2, hg2⟩ := hsim2 vs1 cap (va :: stk) off hst1
            (by simp only [List.length_cons]; omega) (by rw [hg1]; exact hg) (hsame1.frameAt hfr) hlr
            (by obtain ⟨temps, rest, ht, ho⟩ := hbase; exact ⟨va :: temps, rest, by rw [ht]; rfl, ho⟩)
          obtain ⟨vs3, hr3, hst3, hsame3, hg3⟩ := reach_bin (P := P) (ip := m2) k hk (by omega) hop hst2 (by omega)
          rw [ownD_scalar hsa vs2.heap σ2, ownD_scalar hsb vs2.heap σ2] at hst3
          exact ⟨scalar_binVal _ _ _, vs3, (hr1.trans hr2 rfl).trans hr3 rfl, hst3,
            (hsame1.trans hsame2).trans hsame3, (hg3.trans hg2).trans hg1⟩
        | outOfFuel | ret _ | exit | err _ | unspecified _ =>
          simp only [Prod.mk.injEq] at hev
          obtain ⟨_, _, h⟩ := hev
          cases h
      | outOfFuel | ret _ | exit | err _ | unspecified _ =>
        simp only [Prod.mk.injEq] at hev
        obtain ⟨_, _, h⟩ := hev
        cases h
  | .readVar n => by
    intro he fuel σ σ' env' v pc pc' hev hcode hsz
    simp only [isExpr] at he
    have hne : n.isEmpty = false := by
      simp only [simpleName, Bool.and_eq_true, Bool.not_eq_true'] at he; exact he.2
    cases fuel with
    | zero => rw [eval_zero] at hev; cases hev
    | succ f =>
      rw [eval_readVar, readVar_env hout he, henv n hne] at hev
      simp only [ECodeL] at hcode
      rcases hli : lidx (ctxOf S) n with _ | i
      · rw [hli] at hev hcode
        simp only [Option.bind_none] at hev hcode
        obtain ⟨id, hid, hop, hrd, rfl⟩ := hcode
        rcases hl : glookup σ.globals n with _ | x
        · rw [hl] at hev
          simp only [Prod.mk.injEq] at hev
          obtain ⟨_, _, h⟩ := hev
          cases h
        · rw [hl] at hev
          simp only [Prod.mk.injEq, Sem.Res.ok.injEq] at hev
          obtain ⟨rfl, rfl, rfl⟩ := hev
          refine ⟨rfl, rfl, 1, by omega, fun vs cap stk off hst hroom hg _ _ _ => ?_⟩
          simp only [edepth] at hroom
          obtain ⟨_, hsx, id', hid', hv⟩ := hg.sem_vm n x hl
          rw [hid] at hid'
          cases hid'
          obtain ⟨vs', hr, hs', hsame, hg'⟩ := reach_push (P := P) (ip := pc) (ip' := pc + 5) x (by omega) hst hroom
            (fun re st' hp => step_readGlobalVar (re := re) hop (s := tick vs) (st' := st') (v := x)
              (by rw [hrd]; exact hv) hp)
          exact ⟨hsx, vs', hr, hs', hsame, hg'⟩
      · obtain ⟨d, c, hsj⟩ := slot_of_lidx hli hne
        rw [hli] at hev hcode
        simp only [Option.bind_some, hsj, Slot.cell, Prod.mk.injEq, Sem.Res.ok.injEq] at hev hcode
        obtain ⟨rfl, rfl, rfl⟩ := hev
        obtain ⟨hop, hrd, rfl⟩ := hcode
        refine ⟨rfl, rfl, 1, by omega, fun vs cap stk off hst hroom hg hfr hlr hbase => ?_⟩
        simp only [edepth] at hroom
        obtain ⟨temps, rest, rfl, rfl⟩ := hbase
        have hi : i < S.length := by
          have := lidx_lt hli; simpa [ctxOf] using this
        have hlen : rest.length + i < (temps ++ (baseOf S σ ++ rest)).length := by
          simp only [List.length_append, baseOf, List.length_reverse, List.length_map]; omega
        obtain ⟨vs', hr, hs', hsame, hg'⟩ := reach_readLocalAt (P := P) (ip := pc) (by omega) hop hrd hfr hst hlen hroom
        have hval : (temps ++ (baseOf S σ ++ rest)).reverse.getD (rest.length + i) .nil = σ.cells[c]?.getD .nil := by
          rw [← List.append_assoc, getD_above, List.reverse_append, baseOf, List.reverse_reverse,
            List.getD_eq_getElem?_getD,
            List.getElem?_append_left (by rw [List.length_map]; exact hi), List.getElem?_map, hsj]
          rfl
        rw [hval] at hs'
        have hsc : Scalar (σ.cells[c]?.getD .nil) := by
          rcases hc : σ.cells[c]? with _ | v
          · trivial
          · exact hlr.scalar c v hc
        exact ⟨hsc, vs', hr, hs', hsame, hg'⟩
  | .un .ret _ | .un .len _ | .un .popTable _ | .tri _ _ _ _ | .createTable | .abort | .stringLiteral _
  | .comment _ | .function _ | .nativeFunction _ | .setVar _ _ | .setGlobalVar _ _ | .callNative _ _
  | .call _ _ | .repeat _ _ _ | .forEach _ _ _ _ _ | .composite _ _ | .dynamicCall _ _ | .array _
  | .closure _ _ => by
    intro he
    simp [isExpr] at he
end simS
theorem baseOf_append (S T : List Slot) (σ : Sem.St) : baseOf (S ++ T) σ = baseOf T σ ++ baseOf S σ := by
  simp [baseOf]

theorem baseOf_length (S : List Slot) (σ : Sem.St) : (baseOf S σ).length = S.length := by
  simp [baseOf]

theorem SRel.pre {S T : List Slot} {σ : Sem.St} (h : SRel (S ++ T) σ) : SRel S σ :=
  ⟨fun s hs c hc => h.lt s (List.mem_append_left _ hs) c hc,
   by have := h.inj; rw [List.filterMap_append] at this; exact (List.nodup_append.1 this).1,
   h.scalar, h.gscalar, fun d v hm => h.hscalar d v (List.mem_append_left _ hm)⟩

/-- slots keep their value when the store only grows or changes at cells they do not show -/
theorem baseOf_congr {S : List Slot} {σ σ' : Sem.St}
    (h : ∀ s ∈ S, ∀ c, s.cell = some c → σ'.cells[c]? = σ.cells[c]?) : baseOf S σ' = baseOf S σ := by
  unfold baseOf
  congr 1
  apply List.map_congr_left
  intro s hs
  cases s with
  | named n d c => simp only [Slot.val]; rw [h _ hs c rfl]
  | hidden d v => rfl

theorem lookupEnv_cons_nil (env : Sem.Env) (n : String) : Sem.lookupEnv ([] :: env) n = Sem.lookupEnv env n := by
  unfold Sem.lookupEnv
  rw [List.findSome?_cons]
  rfl

theorem lookRel_cons_nil {env : Sem.Env} {S : List Slot} (h : LookRel env S) : LookRel ([] :: env) S :=
  fun n hn => by rw [lookupEnv_cons_nil]; exact h n hn

/-- the environment after the declaration of `n` in the innermost scope -/
def declEnv (env : Sem.Env) (n : String) (c : Nat) : Sem.Env :=
  match env with
  | scope :: rest => (scope ++ [(n, c)]) :: rest
  | [] => [[(n, c)]]

theorem lookupEnv_declEnv (env : Sem.Env) (n : String) (c : Nat) (n' : String) :
    Sem.lookupEnv (declEnv env n c) n' = if n' = n then some c else Sem.lookupEnv env n' := by
  unfold declEnv
  cases env with
  | nil =>
    unfold Sem.lookupEnv
    by_cases h : n' = n
    · subst h; simp
    · have : ¬ (n = n') := fun e => h e.symm
      simp [h, this]
  | cons scope rest =>
    unfold Sem.lookupEnv
    rw [List.findSome?_cons, List.findSome?_cons, List.reverse_append]
    by_cases h : n' = n
    · subst h; simp
    · have : ¬ (n = n') := fun e => h e.symm
      simp [h, this]

theorem lidx_append (L : LCtx) (n : String) (d : Int) (n' : String) :
    lidx (L ++ [(n, d)]) n' = if n' = n then some L.length else lidx L n' := by
  unfold lidx
  rw [List.length_append, List.length_singleton, List.range_succ, List.reverse_append]
  simp only [List.reverse_singleton, List.singleton_append, List.find?_cons]
  have ha : (L ++ [(n, d)]).getD L.length ("", 0) = (n, d) := by simp
  rw [ha]
  by_cases h : n' = n
  · subst h; simp
  · have hb : ((n, d).1 == n') = false := by
      simp only [beq_eq_false_iff_ne, ne_eq]; exact fun e => h e.symm
    rw [hb, if_neg h]
    refine find?_congr' fun i hi => ?_
    simp only [List.mem_reverse, List.mem_range] at hi
    simp [List.getD_eq_getElem?_getD, List.getElem?_append_left hi]

theorem lookRel_decl {env : Sem.Env} {S : List Slot} (h : LookRel env S) (n : String) (d : Int) (c : Nat) :
    LookRel (declEnv env n c) (S ++ [.named n d c]) := by
  intro n' hn'
  rw [lookupEnv_declEnv]
  have hctx : ctxOf (S ++ [.named n d c]) = ctxOf S ++ [(n, d)] := by simp [ctxOf, Slot.ctx]
  rw [hctx, lidx_append]
  have hlen : (ctxOf S).length = S.length := by simp [ctxOf]
  by_cases hnn : n' = n
  · rw [if_pos hnn, if_pos hnn, hlen]
    simp [Slot.cell]
  · rw [if_neg hnn, if_neg hnn, h n' hn']
    rcases hli : lidx (ctxOf S) n' with _ | j
    · rfl
    · have hj : j < S.length := by have := lidx_lt hli; omega
      simp only [Option.bind_some, List.getElem?_append_left hj]


theorem cell_mem_filterMap {S : List Slot} {s : Slot} {c : Nat} (hs : s ∈ S) (hc : s.cell = some c) :
    c ∈ S.filterMap Slot.cell := List.mem_filterMap.2 ⟨s, hs, hc⟩

theorem nodup_filterMap_inj {α β : Type} {f : α → Option β} : ∀ {l : List α}, (l.filterMap f).Nodup →
    ∀ {i j : Nat} {a b : α} {y : β}, l[i]? = some a → l[j]? = some b → f a = some y → f b = some y → i = j
  | [], _, i, j, a, b, y, hi, _, _, _ => by simp at hi
  | x :: l, hn, i, j, a, b, y, hi, hj, ha, hb => by
    cases i with
    | zero =>
      cases j with
      | zero => rfl
      | succ j =>
        simp only [List.getElem?_cons_zero, Option.some.injEq] at hi
        simp only [List.getElem?_cons_succ] at hj
        subst hi
        rw [List.filterMap_cons, ha, List.nodup_cons] at hn
        exact absurd (List.mem_filterMap.2 ⟨b, List.mem_of_getElem? hj, hb⟩) hn.1
    | succ i =>
      cases j with
      | zero =>
        simp only [List.getElem?_cons_zero, Option.some.injEq] at hj
        simp only [List.getElem?_cons_succ] at hi
        subst hj
        rw [List.filterMap_cons, hb, List.nodup_cons] at hn
        exact absurd (List.mem_filterMap.2 ⟨a, List.mem_of_getElem? hi, ha⟩) hn.1
      | succ j =>
        simp only [List.getElem?_cons_succ] at hi hj
        have hn' : (l.filterMap f).Nodup := by
          rw [List.filterMap_cons] at hn
          cases hx : f x with
          | none => rw [hx] at hn; exact hn
          | some z => rw [hx] at hn; exact (List.nodup_cons.1 hn).2
        rw [nodup_filterMap_inj hn' hi hj ha hb]

theorem nodup_cell_inj {S : List Slot} (h : (S.filterMap Slot.cell).Nodup) {i j : Nat} {n n' : String}
    {d d' : Int} {c : Nat} (hi : S[i]? = some (.named n d c)) (hj : S[j]? = some (.named n' d' c)) : i = j :=
  nodup_filterMap_inj h hi hj rfl rfl

/-- declaration of a new local: a new cell, a new slot on top of the stack -/
theorem SRel.decl {S : List Slot} {σ : Sem.St} (h : SRel S σ) (n : String) (d : Int) {x : Val} (hx : Scalar x) :
    SRel (S ++ [.named n d σ.cells.size]) (Sem.newCell σ x).1 ∧
    baseOf (S ++ [.named n d σ.cells.size]) (Sem.newCell σ x).1 = x :: baseOf S σ := by
  have hcells : (Sem.newCell σ x).1.cells = σ.cells.push x := rfl
  refine ⟨⟨?_, ?_, ?_, h.gscalar, ?_⟩, ?_⟩
  · intro s hs c hc
    rw [hcells, Array.size_push]
    rcases List.mem_append.1 hs with hs | hs
    · exact Nat.lt_succ_of_lt (h.lt s hs c hc)
    · simp only [List.mem_singleton] at hs; subst hs
      simp only [Slot.cell, Option.some.injEq] at hc; omega
  · rw [List.filterMap_append]
    simp only [List.filterMap_cons, Slot.cell, List.filterMap_nil]
    rw [List.nodup_append]
    refine ⟨h.inj, by simp, fun a ha b hb => ?_⟩
    simp only [List.mem_singleton] at hb; subst hb
    obtain ⟨s, hs, hc⟩ := List.mem_filterMap.1 ha
    have := h.lt s hs a hc
    omega
  · intro j v hj
    rw [hcells, Array.getElem?_push] at hj
    split at hj
    · cases hj; exact hx
    · exact h.scalar j v hj
  · intro d' v hm
    rcases List.mem_append.1 hm with hm | hm
    · exact h.hscalar d' v hm
    · simp at hm
  · rw [baseOf_append]
    have h1 : baseOf [Slot.named n d σ.cells.size] (Sem.newCell σ x).1 = [x] := by
      simp [baseOf, Slot.val, hcells]
    rw [h1, baseOf_congr (σ := σ)]
    · rfl
    · intro s hs c hc
      rw [hcells, Array.getElem?_push_lt (h.lt s hs c hc)]
      simp [h.lt s hs c hc]

/-- assignment to the local in slot `j` (cell `c`) -/
theorem SRel.assign {S : List Slot} {σ : Sem.St} (h : SRel S σ) {j c : Nat} {n : String} {d : Int}
    (hj : S[j]? = some (.named n d c)) {x : Val} (hx : Scalar x) :
    SRel S { σ with cells := σ.cells.set! c x } ∧
    baseOf S { σ with cells := σ.cells.set! c x } = ((baseOf S σ).reverse.set j x).reverse := by
  have hjl : j < S.length := by
    rcases Nat.lt_or_ge j S.length with h' | h'
    · exact h'
    · rw [List.getElem?_eq_none h'] at hj; cases hj
  have hmem : Slot.named n d c ∈ S := List.mem_of_getElem? hj
  refine ⟨⟨?_, h.inj, ?_, h.gscalar, h.hscalar⟩, ?_⟩
  · intro s hs c' hc'
    show c' < (σ.cells.set! c x).size
    simpa using h.lt s hs c' hc'
  · intro i v hi
    have hi' : (σ.cells.set! c x)[i]? = some v := hi
    simp only [Array.set!_eq_setIfInBounds, Array.getElem?_setIfInBounds] at hi'
    split at hi'
    · split at hi'
      · cases hi'; exact hx
      · cases hi'
    · exact h.scalar i v hi'
  · unfold baseOf
    rw [List.reverse_reverse]
    congr 1
    apply List.ext_getElem?
    intro i
    rw [List.getElem?_map, List.getElem?_set]
    by_cases hij : j = i
    · subst hij
      rw [if_pos rfl, hj]
      simp only [List.length_map, hjl, if_true, Option.map_some, Slot.val]
      have hc := h.lt _ hmem c rfl
      show some ((σ.cells.set! c x)[c]?.getD .nil) = _
      simp [hc]
    · rw [if_neg hij, List.getElem?_map]
      rcases hsi : S[i]? with _ | s
      · rfl
      · simp only [Option.map_some]
        congr 1
        cases s with
        | hidden d' v => rfl
        | named n' d' c' =>
          simp only [Slot.val]
          have hne : c' ≠ c := by
            intro e
            subst e
            -- two different positions with the same cell contradict `inj`
            have hi_lt : i < S.length := by
              rcases Nat.lt_or_ge i S.length with h' | h'
              · exact h'
              · rw [List.getElem?_eq_none h'] at hsi; cases hsi
            exact absurd (nodup_cell_inj h.inj hj hsi) hij
          show (σ.cells.set! c x)[c']?.getD .nil = σ.cells[c']?.getD .nil
          simp [Ne.symm hne]


theorem eval_scalarS {cx : Sem.Ctx} (hout : cx.outer = []) (env : Sem.Env) :
    ∀ (e : Card), isExpr e = true → ∀ (fuel : Nat) (σ σ' : Sem.St) (env' : Sem.Env) (v : Val),
      Sem.eval cx fuel env σ e = (σ', env', .ok v) →
      (∀ (i : Nat) (v : Val), σ.cells[i]? = some v → Scalar v) →
      (∀ (n : String) (v : Val), glookup σ.globals n = some v → Scalar v) → Scalar v
  | .scalarInt i => by
    intro _ fuel σ σ' env' v hev _ _
    cases fuel with
    | zero => rw [eval_zero] at hev; cases hev
    | succ f => rw [eval_scalarInt] at hev; cases hev; trivial
  | .scalarFloat b => by
    intro _ fuel σ σ' env' v hev _ _
    cases fuel with
    | zero => rw [eval_zero] at hev; cases hev
    | succ f => rw [eval_scalarFloat] at hev; cases hev; trivial
  | .scalarNil => by
    intro _ fuel σ σ' env' v hev _ _
    cases fuel with
    | zero => rw [eval_zero] at hev; cases hev
    | succ f => rw [eval_scalarNil] at hev; cases hev; trivial
  | .un .not c => by
    intro _ fuel σ σ' env' v hev _ _
    cases fuel with
    | zero => rw [eval_zero] at hev; cases hev
    | succ f =>
      rw [eval_not] at hev
      rcases hc : Sem.eval cx f env σ c with ⟨σ1, env1, r1⟩
      rw [hc] at hev
      cases r1 <;> simp only [Prod.mk.injEq, Sem.Res.ok.injEq] at hev <;> try (obtain ⟨_, _, h⟩ := hev; cases h)
      trivial
  | .bin k a b => by
    intro he fuel σ σ' env' v hev _ _
    simp only [isExpr, Bool.and_eq_true] at he
    cases fuel with
    | zero => rw [eval_zero] at hev; cases hev
    | succ f =>
      rw [eval_bin _ _ _ _ k he.1.1] at hev
      rcases hca : Sem.eval cx f env σ a with ⟨σ1, env1, r1⟩
      rw [hca] at hev
      cases r1 <;> simp only [Prod.mk.injEq] at hev <;> try (obtain ⟨_, _, h⟩ := hev; cases h)
      rcases hcb : Sem.eval cx f env1 σ1 b with ⟨σ2, env2, r2⟩
      rw [hcb] at hev
      cases r2 <;> simp only [Prod.mk.injEq, Sem.Res.ok.injEq] at hev <;> try (obtain ⟨_, _, h⟩ := hev; cases h)
      exact scalar_binVal _ _ _
  | .readVar n => by
    intro he fuel σ σ' env' v hev hcs hgs
    simp only [isExpr] at he
    cases fuel with
    | zero => rw [eval_zero] at hev; cases hev
    | succ f =>
      rw [eval_readVar, readVar_env hout he] at hev
      rcases hli : Sem.lookupEnv env n with _ | c
      · rw [hli] at hev
        simp only at hev
        rcases hl : glookup σ.globals n with _ | x
        · rw [hl] at hev; simp only [Prod.mk.injEq] at hev; obtain ⟨_, _, h⟩ := hev; cases h
        · rw [hl] at hev
          simp only [Prod.mk.injEq, Sem.Res.ok.injEq] at hev
          obtain ⟨_, _, rfl⟩ := hev
          exact hgs n x hl
      · rw [hli] at hev
        simp only [Prod.mk.injEq, Sem.Res.ok.injEq] at hev
        obtain ⟨_, _, rfl⟩ := hev
        rcases hc : σ.cells[c]? with _ | v
        · trivial
        · exact hcs c v hc
  | .un .ret _ | .un .len _ | .un .popTable _ | .tri _ _ _ _ | .createTable | .abort | .stringLiteral _
  | .comment _ | .function _ | .nativeFunction _ | .setVar _ _ | .setGlobalVar _ _ | .callNative _ _
  | .call _ _ | .repeat _ _ _ | .forEach _ _ _ _ _ | .composite _ _ | .dynamicCall _ _ | .array _
  | .closure _ _ => by
    intro he
    simp [isExpr] at he

theorem ecodesL_le {B : Array UInt8} {F : List (UInt32 × Nat)} {L : LCtx} :
    ∀ {es : List Card} {pc pc' : Nat}, ECodesL B F L es pc pc' → pc ≤ pc'
  | [], _, _, h => by simp only [ECodesL] at h; omega
  | e :: es, _, _, h => by
    simp only [ECodesL] at h
    obtain ⟨m, h1, h2⟩ := h
    have := ecodeL_lt h1; have := ecodesL_le h2; omega

theorem vcode_lt {B : Array UInt8} {F : List (UInt32 × Nat)} {J : Compiler.JumpTable} {L : LCtx} {e : Card} {pc pc' : Nat}
    (h : VCode B F J L e pc pc') : pc < pc' := by
  rcases h with h | h
  · exact ecodeL_lt h
  · cases e <;> simp only [CCode] at h
    obtain ⟨m, _, _, h1, _, _, _, _, _, rfl⟩ := h
    have := ecodesL_le h1; omega

mutual
theorem scodeS_le {B : Array UInt8} {F : List (UInt32 × Nat)} {J : Compiler.JumpTable} {ft : Feat} {d : Int} {L : LCtx} :
    ∀ {c : Card} {pc pc' : Nat}, isStmtS ft d L c = true → SCodeS B F J d L c pc pc' → pc ≤ pc'
  | .setGlobalVar _ e, _, _, _, h => by
    simp only [SCodeS] at h
    obtain ⟨m, id, h1, _, _, _, rfl⟩ := h
    have := vcode_lt h1; omega
  | .setVar _ e, _, _, _, h => by
    simp only [SCodeS] at h
    obtain ⟨m, i, _, h1, _, _, rfl⟩ := h
    have := vcode_lt h1; omega
  | .un .ret e, _, _, _, h => by
    simp only [SCodeS] at h
    obtain ⟨m, h1, _, rfl⟩ := h
    have := vcode_lt h1; omega
  | .bin .ifTrue c b, _, _, hs, h => by
    simp only [SCodeS] at h
    simp only [isStmtS, Bool.and_eq_true] at hs
    obtain ⟨m, h1, _, _, h2⟩ := h
    have := ecodeL_lt h1; have := scodeS_le hs.2 h2; omega
  | .bin .ifFalse c b, _, _, hs, h => by
    simp only [SCodeS] at h
    simp only [isStmtS, Bool.and_eq_true] at hs
    obtain ⟨m, h1, _, _, h2⟩ := h
    have := ecodeL_lt h1; have := scodeS_le hs.2 h2; omega
  | .bin .while c (.composite _ cs), _, _, hs, h => by
    simp only [SCodeS] at h
    simp only [isStmtS, Bool.and_eq_true] at hs
    obtain ⟨m1, m2, h1, _, _, h2, _, _, _, rfl⟩ := h
    have := ecodeL_lt h1; have := bcodes_le hs.2 h2; omega
  | .repeat i n (.composite _ cs), _, _, hs, h => by
    simp only [SCodeS] at h
    simp only [isStmtS, Bool.and_eq_true] at hs
    obtain ⟨m0, mb, m2, h1, _, _, _, _, _, _, _, _, hmb, h2, _, _, _, _, _, _, _, _, _, rfl⟩ := h
    have := ecodeL_lt h1; have := bcodes_le hs.2 h2
    have : m0 + 35 ≤ mb := by cases i <;> simp only at hmb <;> omega
    omega
  | .tri .ifElse c t e, _, _, hs, h => by
    simp only [SCodeS] at h
    simp only [isStmtS, Bool.and_eq_true] at hs
    obtain ⟨m1, m2, h1, _, _, h2, _, _, h3⟩ := h
    have := ecodeL_lt h1; have := scodeS_le hs.1.2 h2; have := scodeS_le hs.2 h3; omega
  | .composite _ cs, _, _, hs, h => by
    simp only [SCodeS] at h
    simp only [isStmtS] at hs
    exact scodesS_le hs h
  | .comment _, _, _, _, h => by simp only [SCodeS] at h; omega
  | .bin .while _ (.bin _ _ _), _, _, hs, _ | .bin .while _ (.un _ _), _, _, hs, _ | .bin .while _ (.tri _ _ _ _), _, _, hs, _
  | .bin .while _ .scalarNil, _, _, hs, _ | .bin .while _ .createTable, _, _, hs, _ | .bin .while _ .abort, _, _, hs, _
  | .bin .while _ (.scalarInt _), _, _, hs, _ | .bin .while _ (.scalarFloat _), _, _, hs, _
  | .bin .while _ (.stringLiteral _), _, _, hs, _ | .bin .while _ (.comment _), _, _, hs, _
  | .bin .while _ (.function _), _, _, hs, _ | .bin .while _ (.nativeFunction _), _, _, hs, _
  | .bin .while _ (.readVar _), _, _, hs, _ | .bin .while _ (.setVar _ _), _, _, hs, _
  | .bin .while _ (.setGlobalVar _ _), _, _, hs, _ | .bin .while _ (.callNative _ _), _, _, hs, _
  | .bin .while _ (.call _ _), _, _, hs, _ | .bin .while _ (.repeat _ _ _), _, _, hs, _
  | .bin .while _ (.forEach _ _ _ _ _), _, _, hs, _ | .bin .while _ (.dynamicCall _ _), _, _, hs, _
  | .bin .while _ (.array _), _, _, hs, _ | .bin .while _ (.closure _ _), _, _, hs, _
  | .bin .add _ _, _, _, hs, _ | .bin .sub _ _, _, _, hs, _ | .bin .mul _ _, _, _, hs, _ | .bin .div _ _, _, _, hs, _
  | .bin .less _ _, _, _, hs, _ | .bin .lessOrEq _ _, _, _, hs, _
  | .bin .equals _ _, _, _, hs, _ | .bin .notEquals _ _, _, _, hs, _ | .bin .and _ _, _, _, hs, _
  | .bin .or _ _, _, _, hs, _ | .bin .xor _ _, _, _, hs, _
  | .bin .getProperty _ _, _, _, hs, _ | .bin .get _ _, _, _, hs, _ | .bin .appendTable _ _, _, _, hs, _
  | .un .not _, _, _, hs, _ | .un .len _, _, _, hs, _ | .un .popTable _, _, _, hs, _
  | .tri .setProperty _ _ _, _, _, hs, _ | .scalarNil, _, _, hs, _ | .createTable, _, _, hs, _
  | .abort, _, _, hs, _ | .scalarInt _, _, _, hs, _ | .scalarFloat _, _, _, hs, _
  | .stringLiteral _, _, _, hs, _ | .function _, _, _, hs, _ | .nativeFunction _, _, _, hs, _
  | .readVar _, _, _, hs, _ | .callNative _ _, _, _, hs, _
  | .call _ _, _, _, hs, _ | .forEach _ _ _ _ _, _, _, hs, _
  | .repeat _ _ (.bin _ _ _), _, _, hs, _ | .repeat _ _ (.un _ _), _, _, hs, _ | .repeat _ _ (.tri _ _ _ _), _, _, hs, _
  | .repeat _ _ .scalarNil, _, _, hs, _ | .repeat _ _ .createTable, _, _, hs, _ | .repeat _ _ .abort, _, _, hs, _
  | .repeat _ _ (.scalarInt _), _, _, hs, _ | .repeat _ _ (.scalarFloat _), _, _, hs, _ | .repeat _ _ (.stringLiteral _), _, _, hs, _
  | .repeat _ _ (.comment _), _, _, hs, _ | .repeat _ _ (.function _), _, _, hs, _ | .repeat _ _ (.nativeFunction _), _, _, hs, _
  | .repeat _ _ (.readVar _), _, _, hs, _ | .repeat _ _ (.setVar _ _), _, _, hs, _ | .repeat _ _ (.setGlobalVar _ _), _, _, hs, _
  | .repeat _ _ (.callNative _ _), _, _, hs, _ | .repeat _ _ (.call _ _), _, _, hs, _ | .repeat _ _ (.repeat _ _ _), _, _, hs, _
  | .repeat _ _ (.forEach _ _ _ _ _), _, _, hs, _ | .repeat _ _ (.dynamicCall _ _), _, _, hs, _ | .repeat _ _ (.array _), _, _, hs, _
  | .repeat _ _ (.closure _ _), _, _, hs, _
 
  | .dynamicCall _ _, _, _, hs, _ | .array _, _, _, hs, _ | .closure _ _, _, _, hs, _ => by
    simp [isStmtS] at hs
theorem scodesS_le {B : Array UInt8} {F : List (UInt32 × Nat)} {J : Compiler.JumpTable} {ft : Feat} {d : Int} {L : LCtx} :
    ∀ {cs : List Card} {pc pc' : Nat}, isStmtsS ft d L cs = true → SCodesS B F J d L cs pc pc' → pc ≤ pc'
  | [], _, _, _, h => by simp only [SCodesS] at h; omega
  | c :: cs, _, _, hs, h => by
    simp only [SCodesS] at h
    simp only [isStmtsS, Bool.and_eq_true] at hs
    obtain ⟨m, h1, h2⟩ := h
    have := scodeS_le hs.1 h1; have := scodesS_le hs.2 h2; omega
theorem bcodes_le {B : Array UInt8} {F : List (UInt32 × Nat)} {J : Compiler.JumpTable} {ft : Feat} {d : Int} :
    ∀ {cs : List Card} {L : LCtx} {pc pc' : Nat}, isBlock ft d L cs = true → BCodes B F J d L cs pc pc' → pc ≤ pc'
  | [], _, _, _, _, h => by simp only [BCodes] at h; omega
  | c :: cs, L, _, _, hs, h => by
    simp only [BCodes] at h
    simp only [isBlock] at hs
    rcases hdecl : declOf L c with _ | ⟨n, e⟩
    · simp only [hdecl, Bool.and_eq_true] at hs h
      obtain ⟨m, h1, h2⟩ := h
      have := scodeS_le hs.1 h1; have := bcodes_le hs.2 h2; omega
    · simp only [hdecl, Bool.and_eq_true] at hs h
      obtain ⟨m, h1, _, _, h2⟩ := h
      have := vcode_lt h1; have := bcodes_le hs.2 h2; omega
end

/-- stack slots needed for the arguments of a call -/
def argsDepth : List Card → Nat
  | [] => 0
  | e :: es => max (edepth e) (1 + argsDepth es)

/-- stack slots needed for a static call in a value position: the arguments, the function value
    (the frame of the callee is accounted for separately, see `Side`) -/
def cdepth : Card → Nat
  | .call _ args => argsDepth args + 1
  | _ => 0

/-- stack slots needed for a value -/
def vdepth (e : Card) : Nat := max (edepth e) (cdepth e)

mutual
  /-- stack slots needed above the slots that exist when the card starts -/
  def sdepthS : Card → Nat
    | .setGlobalVar _ e => vdepth e
    | .setVar _ e => vdepth e
    | .un .ret e => vdepth e
    | .bin .while c (.composite _ cs) => max (edepth c) (bdepthS cs)
    | .repeat _ n (.composite _ cs) => max (edepth n) (4 + bdepthS cs)
    | .bin _ c b => max (edepth c) (sdepthS b)
    | .tri _ c t e => max (edepth c) (max (sdepthS t) (sdepthS e))
    | .composite _ cs => sdepthsS cs
    | _ => 0
  def sdepthsS : List Card → Nat
    | [] => 0
    | c :: cs => max (sdepthS c) (sdepthsS cs)
  /-- the same for the cards of a block: every `SetVar` may add a slot -/
  def bdepthS : List Card → Nat
    | [] => 0
    | .setVar _ e :: cs => max (vdepth e) (1 + bdepthS cs)
    | c :: cs => max (sdepthS c) (bdepthS cs)
end

/-! ## what is kept of the machine state while a function of the fragment runs

`fs` are the call frames below the current one, `rest` the part of the value stack below the
current frame, `k` the number of script-function calls the reference execution has made so far.
`C` bounds the number of calls of the whole reference execution and `W` the number of value-stack
slots a function of the program needs: there is room for `C - k` more frames, each `W` slots high. -/

/-- the bytes charged for the objects of the heap -/
def chargeSum (objs : List (Nat × Obj)) : Nat := objs.foldl (fun n p => n + Heap.chargeOf p.2) 0

structure Side (C W : Nat) (vs : VmState) (cap : Nat) (fs : List Frame) (rest : List Val) (k : Nat) : Prop where
  frames : ∃ cur, vs.frames = fs ++ [cur] ∧ cur.stackOffset = rest.length ∧ cur.closure = none
  noClos : ∀ f ∈ fs, f.closure = none
  acc : vs.mem.allocated = chargeSum vs.heap.objs
  hwf : ∀ p ∈ vs.heap.objs, p.1 < vs.heap.next
  guards : vs.guards = []
  ups : vs.openUpvalues = []
  restS : ∀ v ∈ rest, Scalar v
  fdepth : fs.length + 1 + (C - k) ≤ vs.frameCap
  sdepth : rest.length + (C - k + 1) * W < cap
  mem : 0 < C → Heap.objCharge ≤ vs.mem.limit

theorem Side.frameAt {C W : Nat} {vs : VmState} {cap : Nat} {fs : List Frame} {rest : List Val} {k : Nat}
    (h : Side C W vs cap fs rest k) : FrameAt vs rest.length := by
  obtain ⟨cur, h1, h2, _⟩ := h.frames
  exact ⟨cur, by rw [h1]; simp, h2⟩

theorem Side.room {C W : Nat} {vs : VmState} {cap : Nat} {fs : List Frame} {rest : List Val} {k : Nat}
    (h : Side C W vs cap fs rest k) : rest.length + W < cap := by
  have h1 := h.sdepth
  have h2 : W ≤ (C - k + 1) * W := Nat.le_mul_of_pos_left _ (by omega)
  omega

theorem SameRest.side {C W : Nat} {a b : VmState} {cap : Nat} {fs : List Frame} {rest : List Val} {k : Nat}
    (h : SameRest a b) (hs : Side C W a cap fs rest k) : Side C W b cap fs rest k := by
  unfold SameRest at h
  have e1 : b.frames = a.frames := by rw [h]
  have e2 : b.mem = a.mem := by rw [h]
  have e3 : b.heap = a.heap := by rw [h]
  have e4 : b.guards = a.guards := by rw [h]
  have e5 : b.openUpvalues = a.openUpvalues := by rw [h]
  have e6 : b.frameCap = a.frameCap := by rw [h]
  exact ⟨by rw [e1]; exact hs.frames, hs.noClos, by rw [e2, e3]; exact hs.acc, by rw [e3]; exact hs.hwf,
    by rw [e4]; exact hs.guards,
    by rw [e5]; exact hs.ups, hs.restS, by rw [e6]; exact hs.fdepth, hs.sdepth, by rw [e2]; exact hs.mem⟩

/-- what a piece of code of the fragment keeps: the host log, and `Side` (with the calls counted) -/
structure Pres (C W : Nat) (cap : Nat) (fs : List Frame) (rest : List Val) (k k' : Nat) (a b : VmState) : Prop where
  log : b.hostLog = a.hostLog
  side : Side C W a cap fs rest k → Side C W b cap fs rest k'

theorem SameRest.pres {C W : Nat} {a b : VmState} {cap : Nat} {fs : List Frame} {rest : List Val} {k : Nat}
    (h : SameRest a b) : Pres C W cap fs rest k k a b :=
  ⟨by unfold SameRest at h; rw [h], h.side⟩

theorem Pres.trans {C W : Nat} {a b c : VmState} {cap : Nat} {fs : List Frame} {rest : List Val} {k k' k'' : Nat}
    (h1 : Pres C W cap fs rest k k' a b) (h2 : Pres C W cap fs rest k' k'' b c) : Pres C W cap fs rest k k'' a c :=
  ⟨h2.log.trans h1.log, fun hs => h2.side (h1.side hs)⟩

theorem SameRest.transP {C W : Nat} {a b c : VmState} {cap : Nat} {fs : List Frame} {rest : List Val} {k k' : Nat}
    (h1 : SameRest a b) (h2 : Pres C W cap fs rest k k' b c) : Pres C W cap fs rest k k' a c := h1.pres.trans h2

theorem Pres.transS {C W : Nat} {a b c : VmState} {cap : Nat} {fs : List Frame} {rest : List Val} {k k' : Nat}
    (h1 : Pres C W cap fs rest k k' a b) (h2 : SameRest b c) : Pres C W cap fs rest k k' a c := h1.trans h2.pres

theorem Pres.refl {C W : Nat} (a : VmState) {cap : Nat} {fs : List Frame} {rest : List Val} {k : Nat} :
    Pres C W cap fs rest k k a a := ⟨rfl, id⟩


/-- `SemFrame`, and the cells that exist and are not cells of the slots `S` keep their value -/
structure SFrame (S : List Slot) (σ σ' : Sem.St) : Prop extends SemFrame σ σ' where
  size : σ.cells.size ≤ σ'.cells.size
  kept : ∀ c, c < σ.cells.size → (∀ s ∈ S, s.cell ≠ some c) → σ'.cells[c]? = σ.cells[c]?

theorem SFrame.refl (S : List Slot) (σ : Sem.St) : SFrame S σ σ :=
  ⟨SemFrame.refl σ, Nat.le_refl _, fun _ _ _ => rfl⟩

theorem SFrame.trans {S : List Slot} {a b c : Sem.St} (h1 : SFrame S a b) (h2 : SFrame S b c) : SFrame S a c :=
  ⟨h1.toSemFrame.trans h2.toSemFrame, Nat.le_trans h1.size h2.size, fun x hx hs => by
    rw [h2.kept x (Nat.lt_of_lt_of_le hx h1.size) hs, h1.kept x hx hs]⟩

/-- the second part may use more slots, whose cells are new -/
theorem SFrame.trans_ext {S T : List Slot} {a b c : Sem.St} (h1 : SFrame S a b) (h2 : SFrame (S ++ T) b c)
    (hT : ∀ s ∈ T, ∀ x, s.cell = some x → a.cells.size ≤ x) : SFrame S a c :=
  ⟨h1.toSemFrame.trans h2.toSemFrame, Nat.le_trans h1.size h2.size, fun x hx hs => by
    rw [h2.kept x (Nat.lt_of_lt_of_le hx h1.size) (fun s hm => by
      rcases List.mem_append.1 hm with hm | hm
      · exact hs s hm
      · intro e; have := hT s hm x e; omega), h1.kept x hx hs]⟩

/-- a step that does not touch the cells -/
theorem SFrame.of_cells {S : List Slot} {σ σ' : Sem.St} (h : SemFrame σ σ') (hc : σ'.cells = σ.cells) :
    SFrame S σ σ' := ⟨h, by rw [hc]; exact Nat.le_refl _, fun _ _ _ => by rw [hc]⟩

/-- a new cell -/
theorem SFrame.of_new (S : List Slot) (σ : Sem.St) (x : Val) : SFrame S σ (Sem.newCell σ x).1 :=
  ⟨SemFrame.of_eq rfl, by show σ.cells.size ≤ (σ.cells.push x).size; simp, fun c hc _ => by
    show (σ.cells.push x)[c]? = σ.cells[c]?
    rw [Array.getElem?_push_lt hc]; simp⟩

/-- an assignment to the cell of a slot -/
theorem SFrame.of_assign {S : List Slot} (σ : Sem.St) {s : Slot} {c : Nat} (hs : s ∈ S) (hc : s.cell = some c)
    (x : Val) : SFrame S σ { σ with cells := σ.cells.set! c x } :=
  ⟨SemFrame.of_eq rfl, by show σ.cells.size ≤ (σ.cells.set! c x).size; simp, fun c' _ hn => by
    show (σ.cells.set! c x)[c']? = σ.cells[c']?
    have hne : c ≠ c' := fun e => hn s hs (by rw [hc, e])
    simp [hne]⟩

section stmtsimS
variable (P : Prog) (F : List (UInt32 × Nat)) (J : Compiler.JumpTable) (N : String → Prop) (cx : Sem.Ctx) (ft : Feat) (C W : Nat)

/-- what the VM does for a piece of code `[pc, pc')`: from the slots `S` to the slots `S'` -/
def VmSimS (S : List Slot) (σ σ' : Sem.St) (S' : List Slot) (pc pc' : Nat) (depth : Nat) (lf : Bool) : Prop :=
  ∃ n, (lf = true → n ≤ pc' - pc) ∧
    ∀ (vs : VmState) (cap : Nat) (fs : List Frame) (rest : List Val), σ'.calls ≤ C →
      StackIs vs.stack cap (baseOf S σ ++ rest) → S.length + depth ≤ W →
      GRel F N σ.globals vs.globals → Side C W vs cap fs rest σ.calls →
      ∃ vs', Reach P n pc vs pc' vs' ∧ StackIs vs'.stack cap (baseOf S' σ' ++ rest) ∧
        Pres C W cap fs rest σ.calls σ'.calls vs vs' ∧ GRel F N σ'.globals vs'.globals

def CardSimS (f : Nat) (d : Int) (c : Card) (S : List Slot) (env : Sem.Env) : Prop :=
  isStmtS ft d (ctxOf S) c = true → LookRel env S → ∀ (σ σ' : Sem.St) (env' : Sem.Env) (pc pc' : Nat),
    Sem.exec cx f env σ c = (σ', env', .ok ()) → SCodeS P.bytecode F J d (ctxOf S) c pc pc' →
    pc' ≤ P.bytecode.size → (∀ n ∈ snames c, N n) → SRel S σ →
      env = env' ∧ SFrame S σ σ' ∧ SRel S σ' ∧ VmSimS P F N C W S σ σ' S pc pc' (sdepthS c) (loopFree c)

def CardsSimS (f : Nat) (d : Int) (cs : List Card) (S : List Slot) (env : Sem.Env) : Prop :=
  isStmtsS ft d (ctxOf S) cs = true → LookRel env S → ∀ (σ σ' : Sem.St) (env' : Sem.Env) (pc pc' : Nat),
    Sem.execListWith (Sem.exec cx f) env σ cs = (σ', env', .ok ()) → SCodesS P.bytecode F J d (ctxOf S) cs pc pc' →
    pc' ≤ P.bytecode.size → (∀ n ∈ snamess cs, N n) → SRel S σ →
      env = env' ∧ SFrame S σ σ' ∧ SRel S σ' ∧ VmSimS P F N C W S σ σ' S pc pc' (sdepthsS cs) (loopFrees cs)

/-- all statement cards, at every depth and for all slots -/
def StmtSimS (f : Nat) : Prop := ∀ (d : Int) (c : Card) (S : List Slot) (env : Sem.Env), CardSimS P F J N cx ft C W f d c S env

/-- the cards of a block: new slots `new` on top of `S` -/
def BlockSimS (f : Nat) (d : Int) (cs : List Card) (S : List Slot) (env : Sem.Env) : Prop :=
  isBlock ft d (ctxOf S) cs = true → LookRel env S → ∀ (σ σ' : Sem.St) (env' : Sem.Env) (pc pc' : Nat),
    Sem.execListWith (Sem.exec cx f) env σ cs = (σ', env', .ok ()) → BCodes P.bytecode F J d (ctxOf S) cs pc pc' →
    pc' ≤ P.bytecode.size → (∀ n ∈ snamess cs, N n) → SRel S σ →
      ∃ new, ctxOf (S ++ new) = blockCtx d (ctxOf S) cs ∧ LookRel env' (S ++ new) ∧ SFrame S σ σ' ∧
        (∀ s ∈ new, ∀ c, s.cell = some c → σ.cells.size ≤ c) ∧
        SRel (S ++ new) σ' ∧ VmSimS P F N C W S σ σ' (S ++ new) pc pc' (bdepthS cs) (loopFrees cs)

/-- what the VM does for the code of a value card -/
def ValSimS (f : Nat) (e : Card) (S : List Slot) (env : Sem.Env) : Prop :=
  isVal ft e = true → LookRel env S → ∀ (σ σ' : Sem.St) (env' : Sem.Env) (v : Val) (pc pc' : Nat),
    Sem.eval cx f env σ e = (σ', env', .ok v) → VCode P.bytecode F J (ctxOf S) e pc pc' →
    pc' ≤ P.bytecode.size → SRel S σ →
      env = env' ∧ SFrame S σ σ' ∧ SRel S σ' ∧ Scalar v ∧ ∃ n, (noCall e = true → n ≤ pc' - pc) ∧
        ∀ (vs : VmState) (cap : Nat) (fs : List Frame) (rest : List Val), σ'.calls ≤ C →
          StackIs vs.stack cap (baseOf S σ ++ rest) → S.length + vdepth e ≤ W →
          GRel F N σ.globals vs.globals → Side C W vs cap fs rest σ.calls →
          ∃ vs', Reach P n pc vs pc' vs' ∧ StackIs vs'.stack cap (v :: (baseOf S σ' ++ rest)) ∧
            Pres C W cap fs rest σ.calls σ'.calls vs vs' ∧ GRel F N σ'.globals vs'.globals

/-- the values of static calls, for all slots -/
def CallSimS (f : Nat) : Prop :=
  ∀ (g : String) (args : List Card) (S : List Slot) (env : Sem.Env), ValSimS P F J N cx ft C W f (.call g args) S env

variable {P F J N cx ft C W}

theorem stmts_simS {f : Nat} (ih : StmtSimS P F J N cx ft C W f) (d : Int) (S : List Slot) (env : Sem.Env) :
    ∀ cs, CardsSimS P F J N cx ft C W f d cs S env
  | [] => by
    intro _ henv σ σ' env' pc pc' hex hcode _ _ hlr
    simp only [Sem.execListWith, Prod.mk.injEq] at hex
    obtain ⟨rfl, rfl, _⟩ := hex
    simp only [SCodesS] at hcode
    subst hcode
    exact ⟨rfl, SFrame.refl _ _, hlr, 0, fun _ => Nat.zero_le _, fun vs cap fs rest _ hst _ hg _ =>
      ⟨vs, Reach.refl _ _, hst, Pres.refl _, hg⟩⟩
  | c :: cs => by
    intro hs henv σ σ' env' pc pc' hex hcode hsz hN hlr
    simp only [isStmtsS, Bool.and_eq_true] at hs
    simp only [SCodesS] at hcode
    obtain ⟨m, hc1, hc2⟩ := hcode
    simp only [snamess, List.mem_append] at hN
    have hle2 := scodesS_le hs.2 hc2
    have hle1 := scodeS_le hs.1 hc1
    simp only [Sem.execListWith] at hex
    rcases hc : Sem.exec cx f env σ c with ⟨σ1, env1, r1⟩
    rw [hc] at hex
    cases r1 with
    | ok u =>
      cases u
      simp only at hex
      obtain ⟨rfl, e1, hlr1, n1, hn1, hsim1⟩ :=
        ih d c S env hs.1 henv σ σ1 env1 pc m hc hc1 (by omega) (fun n hn => hN n (Or.inl hn)) hlr
      obtain ⟨rfl, e2, hlr2, n2, hn2, hsim2⟩ :=
        stmts_simS ih d S env cs hs.2 henv σ1 σ' env' m pc' hex hc2 hsz (fun n hn => hN n (Or.inr hn)) hlr1
      refine ⟨rfl, e1.trans e2, hlr2, n1 + n2, ?_, fun vs cap fs rest hcl hst hd hg hsd => ?_⟩
      · intro hl
        simp only [loopFrees, Bool.and_eq_true] at hl
        have := hn1 hl.1; have := hn2 hl.2; omega
      · simp only [sdepthsS] at hd
        obtain ⟨vs1, hr1, hst1, hsame1, hg1⟩ := hsim1 vs cap fs rest (Nat.le_trans e2.calls hcl) hst (by omega) hg hsd
        obtain ⟨vs2, hr2, hst2, hsame2, hg2⟩ := hsim2 vs1 cap fs rest hcl hst1 (by omega) hg1 (hsame1.side hsd)
        exact ⟨vs2, hr1.trans hr2 rfl, hst2, hsame1.trans hsame2, hg2⟩
    | outOfFuel | ret _ | exit | err _ | unspecified _ =>
      simp only [Prod.mk.injEq] at hex
      obtain ⟨_, _, h⟩ := hex
      cases h


variable (hout : cx.outer = []) (hFinj : FInj F) (hNinj : HInj N)
include hout hFinj hNinj

omit hout hFinj hNinj in
theorem ccode_expr {L : LCtx} {e : Card} (he : isExpr e = true) {pc pc' : Nat} :
    ¬ CCode P.bytecode F J L e pc pc' := by
  cases e <;> first | (simp [isExpr] at he; done) | (intro h; exact h)

omit hFinj hNinj in
/-- values: expressions do not change the state; calls are simulated by `hcall` -/
theorem val_simS (f : Nat) (hcall : CallSimS P F J N cx ft C W f) (e : Card) (S : List Slot) (env : Sem.Env) :
    ValSimS P F J N cx ft C W f e S env := by
  intro he henv σ σ' env' v pc pc' hev hcode hsz hlr
  rcases isVal_cases he with he' | ⟨g, args, rfl, _⟩
  · have hc1 : ECodeL P.bytecode F (ctxOf S) e pc pc' := hcode.resolve_right (ccode_expr he')
    have hsx := eval_scalarS hout env e he' f σ σ' env' v hev hlr.scalar hlr.gscalar
    obtain ⟨rfl, rfl, n1, hn1, hsim1⟩ := eval_simS hout S env henv e he' f σ σ' env' v pc pc' hev hc1 hsz
    refine ⟨rfl, SFrame.refl _ _, hlr, hsx, n1, fun _ => hn1, fun vs cap fs rest hcl hst hd hg hsd => ?_⟩
    unfold vdepth at hd
    obtain ⟨_, vs1, hr1, hst1, hsame1, hg1⟩ := hsim1 vs cap _ _ hst
      (by have := hsd.room; simp only [List.length_append, baseOf_length]; omega) hg hsd.frameAt hlr ⟨[], rest, rfl, rfl⟩
    exact ⟨vs1, hr1, hst1, hsame1.pres, by rw [hg1]; exact hg⟩
  · exact hcall g args S env he henv σ σ' env' v pc pc' hev hcode hsz hlr

theorem simS_setGlobal (f : Nat) (hcall : ∀ g, g ≤ f → CallSimS P F J N cx ft C W g) (d : Int) (S : List Slot) (env : Sem.Env)
    (n : String) (e : Card) :
    CardSimS P F J N cx ft C W (f + 1) d (.setGlobalVar n e) S env := by
  intro hs henv σ σ' env' pc pc' hex hcode hsz hN hlr
  simp only [isStmtS, Bool.and_eq_true, Bool.not_eq_true'] at hs
  obtain ⟨hne, he⟩ := hs
  rw [exec_setGlobal] at hex
  simp only [SCodeS] at hcode
  obtain ⟨m, id, hc1, hop, hid, hrd, rfl⟩ := hcode
  rcases hc : Sem.eval cx f env σ e with ⟨σ1, env1, r1⟩
  rw [hc] at hex
  cases r1 with
  | ok x =>
    simp only [hne, Bool.false_eq_true, if_false, Prod.mk.injEq, and_true] at hex
    obtain ⟨rfl, rfl⟩ := hex
    have hlt := vcode_lt hc1
    obtain ⟨rfl, e1, hlr1, hsx, n1, hn1, hsim1⟩ :=
      val_simS hout f (hcall f (Nat.le_refl _)) e S env he henv σ σ1 env1 x pc m hc hc1 (by omega) hlr
    refine ⟨rfl, e1.trans (SFrame.of_cells (SemFrame.of_eq rfl) rfl), ⟨hlr1.lt, hlr1.inj, hlr1.scalar, fun n' v hl => ?_, hlr1.hscalar⟩, n1 + 1,
      fun hl => by have := hn1 (by simpa [loopFree] using hl); omega,
      fun vs cap fs rest hcl hst hd hg hsd => ?_⟩
    · rw [glookup_gupd] at hl
      by_cases hnn : n' = n
      · rw [if_pos hnn] at hl; cases hl; exact hsx
      · rw [if_neg hnn] at hl; exact hlr1.gscalar n' v hl
    simp only [sdepthS] at hd
    obtain ⟨vs1, hr1, hst1, hsame1, hg1⟩ := hsim1 vs cap fs rest hcl hst hd hg hsd
    obtain ⟨vs2, hr2, hst2, hsame2, hg2⟩ := reach_setGlobal (P := P) (ip := m) (by omega) hop hrd hst1
    refine ⟨vs2, hr1.trans hr2 rfl, hst2, hsame1.transS hsame2, ?_⟩
    rw [hg2]
    exact hg1.set hFinj hNinj (hN n (by simp [snames])) hsx hid
  | outOfFuel | ret _ | exit | err _ | unspecified _ =>
    simp only [Prod.mk.injEq] at hex
    obtain ⟨_, _, h⟩ := hex
    cases h

omit hFinj hNinj in
theorem simS_ifTrue (f : Nat) (ih : StmtSimS P F J N cx ft C W f) (d : Int) (S : List Slot) (env : Sem.Env) (c b : Card) :
    CardSimS P F J N cx ft C W (f + 1) d (.bin .ifTrue c b) S env := by
  intro hs henv σ σ' env' pc pc' hex hcode hsz hN hlr
  simp only [isStmtS, Bool.and_eq_true] at hs
  obtain ⟨hec, hsb⟩ := hs
  rw [exec_ifTrue] at hex
  simp only [SCodeS] at hcode
  obtain ⟨m, hc1, hop, hrd, hc2⟩ := hcode
  have hlt := ecodeL_lt hc1
  have hle := scodeS_le hsb hc2
  rcases hc : Sem.eval cx f env σ c with ⟨σ1, env1, r1⟩
  rw [hc] at hex
  cases r1 with
  | ok x =>
    simp only at hex
    obtain ⟨rfl, rfl, n1, hn1, hsim1⟩ := eval_simS hout S env henv c hec f σ σ1 env1 x pc m hc hc1 (by omega)
    by_cases ht : Sem.truthy σ1 x = true
    · rw [if_pos ht] at hex
      obtain ⟨rfl, e2, hlr2, n3, hn3, hsim3⟩ :=
        ih d b S env hsb henv σ1 σ' env' (m + 5) pc' hex hc2 hsz (fun n hn => hN n (by simpa [snames] using hn)) hlr
      refine ⟨rfl, e2, hlr2, n1 + 1 + n3, ?_, fun vs cap fs rest hcl hst hd hg hsd => ?_⟩
      · intro hl
        have := hn3 (by simpa [loopFree] using hl)
        omega
      · simp only [sdepthS] at hd
        obtain ⟨hsx, vs1, hr1, hst1, hsame1, hg1⟩ := hsim1 vs cap _ _ hst (by have := hsd.room; simp only [List.length_append, baseOf_length]; omega) hg hsd.frameAt hlr ⟨[], rest, rfl, rfl⟩
        obtain ⟨vs2, hr2, hst2, hsame2, hg2⟩ := reach_gotoIfFalse (P := P) (ip := m) (by omega) hop hst1
        rw [truthy_eq hsx vs1.heap σ1, if_pos ht] at hr2
        obtain ⟨vs3, hr3, hst3, hsame3, hg3⟩ := hsim3 vs2 cap fs rest hcl hst2 (by omega) (by rw [hg2, hg1]; exact hg) ((hsame1.trans hsame2).side hsd)
        exact ⟨vs3, (hr1.trans hr2 rfl).trans hr3 rfl, hst3, (hsame1.trans hsame2).transP hsame3, hg3⟩
    · rw [if_neg ht] at hex
      simp only [Prod.mk.injEq, and_true] at hex
      obtain ⟨rfl, rfl⟩ := hex
      refine ⟨rfl, SFrame.refl _ _, hlr, n1 + 1, fun _ => by omega, fun vs cap fs rest hcl hst hd hg hsd => ?_⟩
      simp only [sdepthS] at hd
      obtain ⟨hsx, vs1, hr1, hst1, hsame1, hg1⟩ := hsim1 vs cap _ _ hst (by have := hsd.room; simp only [List.length_append, baseOf_length]; omega) hg hsd.frameAt hlr ⟨[], rest, rfl, rfl⟩
      obtain ⟨vs2, hr2, hst2, hsame2, hg2⟩ := reach_gotoIfFalse (P := P) (ip := m) (by omega) hop hst1
      rw [truthy_eq hsx vs1.heap σ1, if_neg ht, hrd] at hr2
      exact ⟨vs2, hr1.trans hr2 rfl, hst2, (hsame1.trans hsame2).pres, by rw [hg2, hg1]; exact hg⟩
  | outOfFuel | ret _ | exit | err _ | unspecified _ =>
    simp only [Prod.mk.injEq] at hex
    obtain ⟨_, _, h⟩ := hex
    cases h

omit hFinj hNinj in
theorem simS_ifFalse (f : Nat) (ih : StmtSimS P F J N cx ft C W f) (d : Int) (S : List Slot) (env : Sem.Env) (c b : Card) :
    CardSimS P F J N cx ft C W (f + 1) d (.bin .ifFalse c b) S env := by
  intro hs henv σ σ' env' pc pc' hex hcode hsz hN hlr
  simp only [isStmtS, Bool.and_eq_true] at hs
  obtain ⟨hec, hsb⟩ := hs
  rw [exec_ifFalse] at hex
  simp only [SCodeS] at hcode
  obtain ⟨m, hc1, hop, hrd, hc2⟩ := hcode
  have hlt := ecodeL_lt hc1
  have hle := scodeS_le hsb hc2
  rcases hc : Sem.eval cx f env σ c with ⟨σ1, env1, r1⟩
  rw [hc] at hex
  cases r1 with
  | ok x =>
    simp only at hex
    obtain ⟨rfl, rfl, n1, hn1, hsim1⟩ := eval_simS hout S env henv c hec f σ σ1 env1 x pc m hc hc1 (by omega)
    by_cases ht : Sem.truthy σ1 x = true
    · rw [if_pos ht] at hex
      simp only [Prod.mk.injEq, and_true] at hex
      obtain ⟨rfl, rfl⟩ := hex
      refine ⟨rfl, SFrame.refl _ _, hlr, n1 + 1, fun _ => by omega, fun vs cap fs rest hcl hst hd hg hsd => ?_⟩
      simp only [sdepthS] at hd
      obtain ⟨hsx, vs1, hr1, hst1, hsame1, hg1⟩ := hsim1 vs cap _ _ hst (by have := hsd.room; simp only [List.length_append, baseOf_length]; omega) hg hsd.frameAt hlr ⟨[], rest, rfl, rfl⟩
      obtain ⟨vs2, hr2, hst2, hsame2, hg2⟩ := reach_gotoIfTrue (P := P) (ip := m) (by omega) hop hst1
      rw [truthy_eq hsx vs1.heap σ1, if_pos ht, hrd] at hr2
      exact ⟨vs2, hr1.trans hr2 rfl, hst2, (hsame1.trans hsame2).pres, by rw [hg2, hg1]; exact hg⟩
    · rw [if_neg ht] at hex
      obtain ⟨rfl, e2, hlr2, n3, hn3, hsim3⟩ :=
        ih d b S env hsb henv σ1 σ' env' (m + 5) pc' hex hc2 hsz (fun n hn => hN n (by simpa [snames] using hn)) hlr
      refine ⟨rfl, e2, hlr2, n1 + 1 + n3, ?_, fun vs cap fs rest hcl hst hd hg hsd => ?_⟩
      · intro hl
        have := hn3 (by simpa [loopFree] using hl)
        omega
      · simp only [sdepthS] at hd
        obtain ⟨hsx, vs1, hr1, hst1, hsame1, hg1⟩ := hsim1 vs cap _ _ hst (by have := hsd.room; simp only [List.length_append, baseOf_length]; omega) hg hsd.frameAt hlr ⟨[], rest, rfl, rfl⟩
        obtain ⟨vs2, hr2, hst2, hsame2, hg2⟩ := reach_gotoIfTrue (P := P) (ip := m) (by omega) hop hst1
        rw [truthy_eq hsx vs1.heap σ1, if_neg ht] at hr2
        obtain ⟨vs3, hr3, hst3, hsame3, hg3⟩ := hsim3 vs2 cap fs rest hcl hst2 (by omega) (by rw [hg2, hg1]; exact hg) ((hsame1.trans hsame2).side hsd)
        exact ⟨vs3, (hr1.trans hr2 rfl).trans hr3 rfl, hst3, (hsame1.trans hsame2).transP hsame3, hg3⟩
  | outOfFuel | ret _ | exit | err _ | unspecified _ =>
    simp only [Prod.mk.injEq] at hex
    obtain ⟨_, _, h⟩ := hex
    cases h

omit hFinj hNinj in
theorem simS_ifElse (f : Nat) (ih : StmtSimS P F J N cx ft C W f) (d : Int) (S : List Slot) (env : Sem.Env) (c t e : Card) :
    CardSimS P F J N cx ft C W (f + 1) d (.tri .ifElse c t e) S env := by
  intro hs henv σ σ' env' pc pc' hex hcode hsz hN hlr
  simp only [isStmtS, Bool.and_eq_true] at hs
  obtain ⟨⟨hec, hst_⟩, hse⟩ := hs
  rw [exec_ifElse] at hex
  simp only [SCodeS] at hcode
  obtain ⟨m1, m2, hc1, hop1, hrd1, hc2, hop2, hrd2, hc3⟩ := hcode
  have hlt := ecodeL_lt hc1
  have hle2 := scodeS_le hst_ hc2
  have hle3 := scodeS_le hse hc3
  rcases hc : Sem.eval cx f env σ c with ⟨σ1, env1, r1⟩
  rw [hc] at hex
  cases r1 with
  | ok x =>
    simp only at hex
    obtain ⟨rfl, rfl, n1, hn1, hsim1⟩ := eval_simS hout S env henv c hec f σ σ1 env1 x pc m1 hc hc1 (by omega)
    by_cases ht : Sem.truthy σ1 x = true
    · rw [if_pos ht] at hex
      obtain ⟨rfl, e2, hlr2, n3, hn3, hsim3⟩ :=
        ih d t S env hst_ henv σ1 σ' env' (m1 + 5) m2 hex hc2 (by omega)
          (fun n hn => hN n (by simp only [snames, List.mem_append]; exact Or.inl hn)) hlr
      refine ⟨rfl, e2, hlr2, n1 + 1 + n3 + 1, ?_, fun vs cap fs rest hcl hst hd hg hsd => ?_⟩
      · intro hl
        simp only [loopFree, Bool.and_eq_true] at hl
        have := hn3 hl.1
        omega
      · simp only [sdepthS] at hd
        obtain ⟨hsx, vs1, hr1, hst1, hsame1, hg1⟩ := hsim1 vs cap _ _ hst (by have := hsd.room; simp only [List.length_append, baseOf_length]; omega) hg hsd.frameAt hlr ⟨[], rest, rfl, rfl⟩
        obtain ⟨vs2, hr2, hst2, hsame2, hg2⟩ := reach_gotoIfFalse (P := P) (ip := m1) (by omega) hop1 hst1
        rw [truthy_eq hsx vs1.heap σ1, if_pos ht] at hr2
        obtain ⟨vs3, hr3, hst3, hsame3, hg3⟩ := hsim3 vs2 cap fs rest hcl hst2 (by omega) (by rw [hg2, hg1]; exact hg) ((hsame1.trans hsame2).side hsd)
        obtain ⟨vs4, hr4, hst4, hsame4, hg4⟩ := reach_goto (P := P) (ip := m2) (vs := vs3) (by omega) hop2
        rw [hrd2] at hr4
        exact ⟨vs4, ((hr1.trans hr2 rfl).trans hr3 rfl).trans hr4 rfl, by rw [hst4]; exact hst3,
          ((hsame1.trans hsame2).transP hsame3).transS hsame4, by rw [hg4]; exact hg3⟩
    · rw [if_neg ht] at hex
      obtain ⟨rfl, e2, hlr2, n3, hn3, hsim3⟩ :=
        ih d e S env hse henv σ1 σ' env' (m2 + 5) pc' hex hc3 hsz
          (fun n hn => hN n (by simp only [snames, List.mem_append]; exact Or.inr hn)) hlr
      refine ⟨rfl, e2, hlr2, n1 + 1 + n3, ?_, fun vs cap fs rest hcl hst hd hg hsd => ?_⟩
      · intro hl
        simp only [loopFree, Bool.and_eq_true] at hl
        have := hn3 hl.2
        omega
      · simp only [sdepthS] at hd
        obtain ⟨hsx, vs1, hr1, hst1, hsame1, hg1⟩ := hsim1 vs cap _ _ hst (by have := hsd.room; simp only [List.length_append, baseOf_length]; omega) hg hsd.frameAt hlr ⟨[], rest, rfl, rfl⟩
        obtain ⟨vs2, hr2, hst2, hsame2, hg2⟩ := reach_gotoIfFalse (P := P) (ip := m1) (by omega) hop1 hst1
        rw [truthy_eq hsx vs1.heap σ1, if_neg ht, hrd1] at hr2
        obtain ⟨vs3, hr3, hst3, hsame3, hg3⟩ := hsim3 vs2 cap fs rest hcl hst2 (by omega) (by rw [hg2, hg1]; exact hg) ((hsame1.trans hsame2).side hsd)
        exact ⟨vs3, (hr1.trans hr2 rfl).trans hr3 rfl, hst3, (hsame1.trans hsame2).transP hsame3, hg3⟩
  | outOfFuel | ret _ | exit | err _ | unspecified _ =>
    simp only [Prod.mk.injEq] at hex
    obtain ⟨_, _, h⟩ := hex
    cases h


omit hFinj hNinj in
theorem simS_setVar (f : Nat) (hcall : ∀ g, g ≤ f → CallSimS P F J N cx ft C W g) (d : Int) (S : List Slot) (env : Sem.Env)
    (n : String) (e : Card) :
    CardSimS P F J N cx ft C W (f + 1) d (.setVar n e) S env := by
  intro hs henv σ σ' env' pc pc' hex hcode hsz hN hlr
  simp only [isStmtS, Bool.and_eq_true] at hs
  obtain ⟨⟨hn, hsome⟩, he⟩ := hs
  have hne : n.isEmpty = false := by
    simp only [simpleName, Bool.and_eq_true, Bool.not_eq_true'] at hn; exact hn.2
  rw [exec_setVar cx hout f _ σ e hn] at hex
  simp only [SCodeS] at hcode
  obtain ⟨m, i, hli, hc1, hop, hrd, rfl⟩ := hcode
  obtain ⟨dd, c, hsj⟩ := slot_of_lidx hli hne
  rcases hc : Sem.eval cx f env σ e with ⟨σ1, env1, r1⟩
  rw [hc] at hex
  cases r1 with
  | ok x =>
    have hlt := vcode_lt hc1
    obtain ⟨rfl, e1, hlr1, hsx0, n1, hn1, hsim1⟩ :=
      val_simS hout f (hcall f (Nat.le_refl _)) e S env he henv σ σ1 env1 x pc m hc hc1 (by omega) hlr
    simp only [henv n hne, hli, Option.bind_some, hsj, Slot.cell, Prod.mk.injEq, and_true] at hex
    obtain ⟨rfl, rfl⟩ := hex
    have hi : i < S.length := by have := lidx_lt hli; simpa [ctxOf] using this
    obtain ⟨hlr', hbase'⟩ := hlr1.assign hsj hsx0
    refine ⟨rfl, e1.trans (SFrame.of_assign _ (List.mem_of_getElem? hsj) rfl x), hlr', n1 + 1,
      fun hl => by have := hn1 (by simpa [loopFree] using hl); omega,
      fun vs cap fs rest hcl hst hd hg hsd => ?_⟩
    simp only [sdepthS] at hd
    obtain ⟨vs1, hr1, hst1, hsame1, hg1⟩ := hsim1 vs cap fs rest hcl hst hd hg hsd
    obtain ⟨vs2, hr2, hst2, hsame2, hg2⟩ := reach_setLocalAt_old (P := P) (ip := m) (by omega) hop hrd
      (hsame1.side hsd).frameAt hst1 (by simp only [List.length_append, baseOf_length]; omega)
    refine ⟨vs2, hr1.trans hr2 rfl, ?_, hsame1.transS hsame2, by rw [hg2]; exact hg1⟩
    rw [hbase', ← set_above]
    exact hst2
  | outOfFuel | ret _ | exit | err _ | unspecified _ =>
    simp only [Prod.mk.injEq] at hex
    obtain ⟨_, _, h⟩ := hex
    cases h

omit hout hFinj hNinj in
theorem reach_popsN {cap : Nat} : ∀ (top rest : List Val) (pc : Nat) (vs : VmState),
    (∀ j, j < top.length → P.bytecode.getD (pc + j) 0 = Compiler.op.pop) → pc + top.length ≤ P.bytecode.size →
    StackIs vs.stack cap (top ++ rest) →
    ∃ vs', Reach P top.length pc vs (pc + top.length) vs' ∧ StackIs vs'.stack cap rest ∧ SameRest vs vs' ∧
      vs'.globals = vs.globals
  | [], rest, pc, vs, _, _, hst => ⟨vs, Reach.refl _ _, hst, SameRest.refl _, rfl⟩
  | x :: l, rest, pc, vs, hpop, hsz, hst => by
    simp only [List.length_cons] at hpop hsz ⊢
    obtain ⟨vs1, hr1, hst1, hsame1, hg1⟩ := reach_pop (P := P) (ip := pc) (by omega)
      (by have := hpop 0 (by omega); simpa using this) hst
    obtain ⟨vs2, hr2, hst2, hsame2, hg2⟩ := reach_popsN l rest (pc + 1) vs1
      (fun j hj => by have := hpop (j + 1) (by omega); rw [← this]; congr 1; omega) (by omega) hst1
    refine ⟨vs2, ?_, hst2, hsame1.trans hsame2, hg2.trans hg1⟩
    have := hr1.trans hr2 (Nat.add_comm _ _)
    rw [show pc + (l.length + 1) = pc + 1 + l.length by omega]
    exact this

omit hout hFinj hNinj in
theorem bdepthS_ge (c : Card) (cs : List Card) : max (sdepthS c) (bdepthS cs) ≤ bdepthS (c :: cs) := by
  cases c <;> simp only [bdepthS, sdepthS] <;> omega

omit hFinj hNinj in
theorem block_simS {f : Nat} (ih : StmtSimS P F J N cx ft C W f)
    (hcall : ∀ g, g < f → CallSimS P F J N cx ft C W g) (d : Int) :
    ∀ (cs : List Card) (S : List Slot) (env : Sem.Env), BlockSimS P F J N cx ft C W f d cs S env
  | [], S, env => by
    intro _ henv σ σ' env' pc pc' hex hcode _ _ hlr
    simp only [Sem.execListWith, Prod.mk.injEq] at hex
    obtain ⟨rfl, rfl, _⟩ := hex
    simp only [BCodes] at hcode
    subst hcode
    refine ⟨[], by simp [blockCtx], by simpa using henv, SFrame.refl _ _, (fun s hs => by cases hs), by simpa using hlr, 0,
      fun _ => Nat.zero_le _, fun vs cap fs rest _ hst _ hg _ => ⟨vs, Reach.refl _ _, by simpa using hst, Pres.refl _, hg⟩⟩
  | c :: cs, S, env => by
    intro hs henv σ σ' env' pc pc' hex hcode hsz hN hlr
    simp only [isBlock] at hs
    simp only [BCodes] at hcode
    simp only [snamess, List.mem_append] at hN
    simp only [blockCtx]
    simp only [Sem.execListWith] at hex
    rcases hc : Sem.exec cx f env σ c with ⟨σ1, env1, r1⟩
    rw [hc] at hex
    cases r1 with
    | ok u =>
      cases u
      simp only at hex
      rcases hdecl : declOf (ctxOf S) c with _ | ⟨n, e⟩
      · simp only [hdecl, Bool.and_eq_true] at hs hcode ⊢
        obtain ⟨m, hc1, hc2⟩ := hcode
        have hle2 := bcodes_le hs.2 hc2
        obtain ⟨rfl, e1, hlr1, n1, hn1, hsim1⟩ :=
          ih d c S env hs.1 henv σ σ1 env1 pc m hc hc1 (by omega) (fun n hn => hN n (Or.inl hn)) hlr
        obtain ⟨new, hctx, hlook2, e2, hnc2, hlr2, n2, hn2, hsim2⟩ :=
          block_simS ih hcall d cs S env hs.2 henv σ1 σ' env' m pc' hex hc2 hsz (fun n hn => hN n (Or.inr hn)) hlr1
        refine ⟨new, hctx, hlook2, e1.trans e2, fun s hs c hc => Nat.le_trans e1.size (hnc2 s hs c hc), hlr2, n1 + n2, ?_,
          fun vs cap fs rest hcl hst hd hg hsd => ?_⟩
        · intro hl
          simp only [loopFrees, Bool.and_eq_true] at hl
          have hle1 := scodeS_le hs.1 hc1
          have := hn1 hl.1; have := hn2 hl.2; omega
        · have hge := bdepthS_ge c cs
          obtain ⟨vs1, hr1, hst1, hsame1, hg1⟩ := hsim1 vs cap fs rest (Nat.le_trans e2.calls hcl) hst (by omega) hg hsd
          obtain ⟨vs2, hr2, hst2, hsame2, hg2⟩ := hsim2 vs1 cap fs rest hcl hst1 (by omega) hg1 (hsame1.side hsd)
          exact ⟨vs2, hr1.trans hr2 rfl, hst2, hsame1.trans hsame2, hg2⟩
      · simp only [hdecl, Bool.and_eq_true] at hs hcode ⊢
        obtain ⟨rfl, hnone⟩ := declOf_some hdecl
        obtain ⟨m, hc1, hop, hrd, hc2⟩ := hcode
        have hle2 := bcodes_le hs.2 hc2
        have hlt := vcode_lt hc1
        have hne : n.isEmpty = false := by
          have := hs.1.1
          simp only [simpleName, Bool.and_eq_true, Bool.not_eq_true'] at this; exact this.2
        cases f with
        | zero => rw [exec_zero] at hc; simp only [Prod.mk.injEq] at hc; obtain ⟨_, _, h⟩ := hc; cases h
        | succ f' =>
          rw [exec_setVar cx hout f' _ σ e hs.1.1] at hc
          rcases hce : Sem.eval cx f' env σ e with ⟨σe, enve, re⟩
          rw [hce] at hc
          cases re with
          | ok x =>
            obtain ⟨rfl, ee, hlre, hsx0, n1, hn1, hsim1⟩ := val_simS hout f' (hcall f' (Nat.lt_succ_self _)) e S env hs.1.2 henv
              σ σe enve x pc m hce hc1 (by omega) hlr
            simp only [henv n hne, hnone, Option.bind_none] at hc
            have hc' : ((Sem.newCell σe x).1, declEnv env n (Sem.newCell σe x).2, Sem.Res.ok ()) =
                (σ1, env1, Sem.Res.ok ()) := by
              revert hc
              cases env <;> exact fun h => h
            simp only [Prod.mk.injEq, and_true] at hc'
            obtain ⟨rfl, rfl⟩ := hc'
            obtain ⟨hlr1, hbase1⟩ := hlre.decl n d hsx0
            have hlook1 := lookRel_decl henv n d σe.cells.size
            have hctx1 : ctxOf (S ++ [Slot.named n d σe.cells.size]) = ctxOf S ++ [(n, d)] := by
              simp [ctxOf, Slot.ctx]
            rw [← hctx1] at hs hc2
            obtain ⟨new, hctx, hlook2, e2, hnc2, hlr2, n2, hn2, hsim2⟩ :=
              block_simS ih hcall d cs (S ++ [Slot.named n d σe.cells.size]) _ hs.2 hlook1 _ σ' env' (m + 5) pc' hex hc2 hsz
                (fun n hn => hN n (Or.inr hn)) hlr1
            refine ⟨Slot.named n d σe.cells.size :: new, ?_, ?_, ?_, ?_, ?_, n1 + 1 + n2, ?_,
              fun vs cap fs rest hcl hst hd hg hsd => ?_⟩
            · rw [← hctx1, ← hctx]; simp
            · simpa using hlook2
            · exact (ee.trans (SFrame.of_new S σe x)).trans_ext (T := [Slot.named n d σe.cells.size]) e2
                (fun s hs c hc => by
                  simp only [List.mem_singleton] at hs; subst hs
                  simp only [Slot.cell, Option.some.injEq] at hc; rw [← hc]; exact ee.size)
            · intro s hs c hc
              rcases List.mem_cons.1 hs with rfl | hs
              · simp only [Slot.cell, Option.some.injEq] at hc; rw [← hc]; exact ee.size
              · have h1 := hnc2 s hs c hc
                have h2 : σe.cells.size ≤ (Sem.newCell σe x).1.cells.size := by
                  show σe.cells.size ≤ (σe.cells.push x).size; simp
                have h3 := ee.size
                omega
            · simpa using hlr2
            · intro hl
              simp only [loopFrees, Bool.and_eq_true] at hl
              have := hn1 (by simpa [loopFree] using hl.1)
              have := hn2 hl.2; omega
            · simp only [bdepthS] at hd
              have hroom := hsd.room
              have hvpos : 1 ≤ vdepth e := by unfold vdepth; have := edepth_pos e; omega
              obtain ⟨vs1, hr1, hst1, hsame1, hg1⟩ := hsim1 vs cap fs rest (Nat.le_trans e2.calls hcl) hst
                (by omega) hg hsd
              obtain ⟨vs2, hr2, hst2, hsame2, hg2⟩ := reach_setLocalAt_new (P := P) (ip := m) (by omega) hop hrd
                (by simp [ctxOf, baseOf_length]; omega) (hsame1.side hsd).frameAt hst1
                (by simp only [List.length_append, baseOf_length]; omega)
              have hst2' : StackIs vs2.stack cap (baseOf (S ++ [Slot.named n d σe.cells.size]) (Sem.newCell σe x).1 ++ rest) := by
                rw [hbase1]; exact hst2
              obtain ⟨vs3, hr3, hst3, hsame3, hg3⟩ := hsim2 vs2 cap fs rest hcl hst2'
                (by simp only [List.length_append, List.length_singleton]; omega)
                (by rw [hg2]; exact hg1) ((hsame1.transS hsame2).side hsd)
              refine ⟨vs3, (hr1.trans hr2 rfl).trans hr3 rfl, ?_, (hsame1.transS hsame2).trans hsame3, hg3⟩
              simpa using hst3
          | outOfFuel | ret _ | exit | err _ | unspecified _ =>
            simp only [Prod.mk.injEq] at hc
            obtain ⟨_, _, h⟩ := hc
            cases h
    | outOfFuel | ret _ | exit | err _ | unspecified _ =>
      simp only [Prod.mk.injEq] at hex
      obtain ⟨_, _, h⟩ := hex
      cases h

omit hFinj hNinj in
theorem simS_while (f : Nat) (ih : StmtSimS P F J N cx ft C W f) (ihb : ∀ g, g + 1 = f → StmtSimS P F J N cx ft C W g)
    (hcall : ∀ g, g ≤ f → CallSimS P F J N cx ft C W g) (d : Int) (S : List Slot) (env : Sem.Env) (c : Card) (ty : String) (cs : List Card) :
    CardSimS P F J N cx ft C W (f + 1) d (.bin .while c (.composite ty cs)) S env := by
  intro hs henv σ σ' env' pc pc' hex hcode hsz hN hlr
  have hs0 := hs
  have hcode0 := hcode
  simp only [isStmtS, Bool.and_eq_true] at hs
  obtain ⟨hec, hsb⟩ := hs
  rw [exec_while] at hex
  simp only [SCodeS] at hcode
  obtain ⟨m1, m2, hc1, hop1, hrd1, hc2, hpops, hop2, hrd2, hpc'⟩ := hcode
  have hlt := ecodeL_lt hc1
  have hle2 := bcodes_le hsb hc2
  rcases hc : Sem.eval cx f env σ c with ⟨σ1, env1, r1⟩
  rw [hc] at hex
  cases r1 with
  | ok x =>
    simp only at hex
    obtain ⟨rfl, rfl, n1, hn1, hsim1⟩ := eval_simS hout S env henv c hec f σ σ1 env1 x pc m1 hc hc1 (by omega)
    by_cases ht : Sem.truthy σ1 x = true
    · rw [if_pos ht] at hex
      rcases hb : Sem.exec cx f ([] :: env) σ1 (.composite ty cs) with ⟨σ2, env2, r2⟩
      rw [hb] at hex
      cases r2 with
      | ok u =>
        cases u
        simp only at hex
        cases f with
        | zero => rw [exec_zero] at hb; simp only [Prod.mk.injEq] at hb; obtain ⟨_, _, h⟩ := hb; cases h
        | succ g =>
          rw [exec_composite] at hb
          obtain ⟨new, hctx, _, e2, _, hlr2, n3, hn3, hsim3⟩ :=
            block_simS hout (ihb g rfl) (fun g' hg' => hcall g' (by omega)) (d + 1) cs S ([] :: env) hsb (lookRel_cons_nil henv) σ1 σ2 env2 (m1 + 5) m2 hb hc2
              (by omega) (fun n hn => hN n (by simpa [snames] using hn)) hlr
          have hk : (blockCtx (d + 1) (ctxOf S) cs).length - (ctxOf S).length = new.length := by
            rw [← hctx]; simp [ctxOf]
          rw [hk] at hpops hop2 hrd2 hpc'
          have hlr2' : SRel S σ2 := hlr2.pre
          obtain ⟨rfl, e5, hlr5, n5, hn5, hsim5⟩ :=
            ih d (.bin .while c (.composite ty cs)) S env hs0 henv σ2 σ' env' pc pc' hex hcode0 hsz hN hlr2'
          refine ⟨rfl, e2.trans e5, hlr5, n1 + 1 + n3 + new.length + 1 + n5, ?_, fun vs cap fs rest hcl hst hd hg hsd => ?_⟩
          · intro hl
            simp [loopFree] at hl
          · have hd0 := hd
            simp only [sdepthS] at hd
            obtain ⟨hsx, vs1, hr1, hst1, hsame1, hg1⟩ := hsim1 vs cap _ _ hst (by have := hsd.room; simp only [List.length_append, baseOf_length]; omega) hg hsd.frameAt hlr ⟨[], rest, rfl, rfl⟩
            obtain ⟨vs2, hr2, hst2, hsame2, hg2⟩ := reach_gotoIfFalse (P := P) (ip := m1) (by omega) hop1 hst1
            rw [truthy_eq hsx vs1.heap σ1, if_pos ht] at hr2
            obtain ⟨vs3, hr3, hst3, hsame3, hg3⟩ := hsim3 vs2 cap fs rest (Nat.le_trans e5.calls hcl) hst2 (by omega)
              (by rw [hg2, hg1]; exact hg) ((hsame1.trans hsame2).side hsd)
            rw [baseOf_append, List.append_assoc] at hst3
            obtain ⟨vs3', hr3', hst3', hsame3', hg3'⟩ := reach_popsN (P := P) (baseOf new σ2) (baseOf S σ2 ++ rest) m2 vs3
              (fun j hj => hpops j (by rw [baseOf_length] at hj; exact hj)) (by rw [baseOf_length]; omega) hst3
            rw [baseOf_length] at hr3'
            obtain ⟨vs4, hr4, hst4, hsame4, hg4⟩ := reach_goto (P := P) (ip := m2 + new.length) (vs := vs3') (by omega) hop2
            rw [hrd2] at hr4
            obtain ⟨vs5, hr5, hst5, hsame5, hg5⟩ := hsim5 vs4 cap fs rest hcl (by rw [hst4]; exact hst3') hd0
              (by rw [hg4, hg3']; exact hg3)
              (((((hsame1.trans hsame2).transP hsame3).transS hsame3').transS hsame4).side hsd)
            exact ⟨vs5, (((((hr1.trans hr2 rfl).trans hr3 rfl).trans hr3' rfl).trans hr4 rfl).trans hr5 rfl), hst5,
              ((((hsame1.trans hsame2).transP hsame3).transS hsame3').transS hsame4).trans hsame5, hg5⟩
      | outOfFuel | ret _ | exit | err _ | unspecified _ =>
        simp only [Prod.mk.injEq] at hex
        obtain ⟨_, _, h⟩ := hex
        cases h
    · rw [if_neg ht] at hex
      simp only [Prod.mk.injEq, and_true] at hex
      obtain ⟨rfl, rfl⟩ := hex
      refine ⟨rfl, SFrame.refl _ _, hlr, n1 + 1, ?_, fun vs cap fs rest hcl hst hd hg hsd => ?_⟩
      · intro hl
        simp [loopFree] at hl
      · simp only [sdepthS] at hd
        obtain ⟨hsx, vs1, hr1, hst1, hsame1, hg1⟩ := hsim1 vs cap _ _ hst (by have := hsd.room; simp only [List.length_append, baseOf_length]; omega) hg hsd.frameAt hlr ⟨[], rest, rfl, rfl⟩
        obtain ⟨vs2, hr2, hst2, hsame2, hg2⟩ := reach_gotoIfFalse (P := P) (ip := m1) (by omega) hop1 hst1
        rw [truthy_eq hsx vs1.heap σ1, if_neg ht, hrd1] at hr2
        exact ⟨vs2, hr1.trans hr2 rfl, hst2, (hsame1.trans hsame2).pres, by rw [hg2, hg1]; exact hg⟩
  | outOfFuel | ret _ | exit | err _ | unspecified _ =>
    simp only [Prod.mk.injEq] at hex
    obtain ⟨_, _, h⟩ := hex
    cases h

end stmtsimS

section execsim
variable {P : Prog} {F : List (UInt32 × Nat)} {J : Compiler.JumpTable} {N : String → Prop} {ft : Feat} {C W : Nat}
variable (hFinj : FInj F) (hNinj : HInj N)
include hFinj hNinj

/-- the contexts in which the functions of one program are evaluated: no enclosing scopes, the
    function table `fns` -/
def CxOk (fns : Array Sem.FnDef) (cx : Sem.Ctx) : Prop := cx.outer = [] ∧ cx.fns = fns

omit hFinj hNinj in
theorem stmtSimS_zero (cx : Sem.Ctx) : StmtSimS P F J N cx ft C W 0 := by
  intro d c S env _ _ σ σ' env' pc pc' hex
  rw [exec_zero] at hex
  simp only [Prod.mk.injEq] at hex
  obtain ⟨_, _, h⟩ := hex
  cases h

/-- one more unit of fuel: `hcall` is the simulation of static calls at lower fuel, `hrep` the case of
    `Repeat` -/
theorem stmtSimS_succ (cx : Sem.Ctx) (hout : cx.outer = []) (f : Nat)
    (ih : ∀ g, g ≤ f → StmtSimS P F J N cx ft C W g)
    (hcall : ∀ g, g ≤ f → CallSimS P F J N cx ft C W g)
    (hrep : ∀ (d : Int) (S : List Slot) (env : Sem.Env) (i : Option String) (n : Card) (ty : String) (cs : List Card),
      CardSimS P F J N cx ft C W (f + 1) d (.repeat i n (.composite ty cs)) S env) :
    StmtSimS P F J N cx ft C W (f + 1) := by
  have ihf := ih f (Nat.le_refl _)
  intro d c S env
  cases c with
  | setGlobalVar n e => exact simS_setGlobal hout hFinj hNinj f hcall d S env n e
  | setVar n e => exact simS_setVar hout f hcall d S env n e
  | comment t =>
    intro _ _ σ σ' env' pc pc' hex hcode _ _ hlr
    rw [exec_comment] at hex
    simp only [Prod.mk.injEq, and_true] at hex
    obtain ⟨rfl, rfl⟩ := hex
    simp only [SCodeS] at hcode
    subst hcode
    exact ⟨rfl, SFrame.refl _ _, hlr, 0, fun _ => Nat.zero_le _, fun vs cap fs rest _ hst _ hg _ =>
      ⟨vs, Reach.refl _ _, hst, Pres.refl _, hg⟩⟩
  | composite t cs =>
    intro hs henv σ σ' env' pc pc' hex hcode hsz hN hlr
    rw [exec_composite] at hex
    simp only [isStmtS] at hs
    simp only [SCodeS] at hcode
    simp only [snames] at hN
    have := stmts_simS ihf d S env cs hs henv σ σ' env' pc pc' hex hcode hsz hN hlr
    simpa only [loopFree, sdepthS] using this
  | tri k a b c =>
    cases k with
    | ifElse => exact simS_ifElse hout f ihf d S env a b c
    | setProperty => intro hs; simp [isStmtS] at hs
  | bin k a b =>
    cases k with
    | ifTrue => exact simS_ifTrue hout f ihf d S env a b
    | ifFalse => exact simS_ifFalse hout f ihf d S env a b
    | «while» =>
      cases b with
      | composite ty cs => exact simS_while hout f ihf (fun g hg => ih g (by omega)) hcall d S env a ty cs
      | _ => intro hs; simp [isStmtS] at hs
    | _ => intro hs; simp [isStmtS] at hs
  | «repeat» i n b =>
    cases b with
    | composite ty cs => exact hrep d S env i n ty cs
    | _ => intro hs; simp [isStmtS] at hs
  | un k e =>
    cases k with
    | ret =>
      -- a `Return` never ends with `ok`
      intro _ _ σ σ' env' pc pc' hex
      have : Sem.exec cx (f + 1) env σ (.un .ret e) =
          (match Sem.eval cx f env σ e with
            | (s, env, .ok x) => (s, env, .ret x)
            | (s, env, .ret v) => (s, env, .ret v)
            | (s, env, .exit) => (s, env, .exit)
            | (s, env, .err e) => (s, env, .err e)
            | (s, env, .unspecified w) => (s, env, .unspecified w)
            | (s, env, .outOfFuel) => (s, env, .outOfFuel)) := rfl
      rw [this] at hex
      rcases hc : Sem.eval cx f env σ e with ⟨σ1, env1, r1⟩
      rw [hc] at hex
      cases r1 <;> (simp only [Prod.mk.injEq] at hex; obtain ⟨_, _, h⟩ := hex; cases h)
    | _ => intro hs; simp [isStmtS] at hs
  | _ => intro hs; simp [isStmtS] at hs

/-- the simulation of statement cards with scoped locals, for all functions of the program; `hrepS`
    is the case of `Repeat` (proved in `C01R.lean`) and `hcallS` the case of static calls in value
    positions (proved in `C01C.lean`); both are vacuous for fragments without these cards -/
theorem exec_simS (fns : Array Sem.FnDef)
    (hrepS : ∀ (cx : Sem.Ctx), CxOk fns cx → ∀ (f : Nat), (∀ g, g + 1 = f → StmtSimS P F J N cx ft C W g) →
      (∀ g, g ≤ f → CallSimS P F J N cx ft C W g) →
      ∀ (d : Int) (S : List Slot) (env : Sem.Env) (i : Option String) (n : Card) (ty : String) (cs : List Card),
      CardSimS P F J N cx ft C W (f + 1) d (.repeat i n (.composite ty cs)) S env)
    (hcallS : ∀ (cx : Sem.Ctx), CxOk fns cx → ∀ (f : Nat),
      (∀ g, g < f → ∀ cx', CxOk fns cx' → StmtSimS P F J N cx' ft C W g) → CallSimS P F J N cx ft C W f) :
    ∀ (f g : Nat), g ≤ f → ∀ cx, CxOk fns cx → StmtSimS P F J N cx ft C W g := by
  intro f
  induction f with
  | zero =>
    intro g hg cx _
    obtain rfl : g = 0 := by omega
    exact stmtSimS_zero cx
  | succ f ih =>
    intro g hg cx hcx
    rcases Nat.lt_or_ge g (f + 1) with hlt | hge
    · exact ih g (by omega) cx hcx
    · obtain rfl : g = f + 1 := by omega
      have hcall : ∀ g, g ≤ f → CallSimS P F J N cx ft C W g := fun g hg =>
        hcallS cx hcx g (fun g' hg' cx' hcx' => ih g' (by omega) cx' hcx')
      exact stmtSimS_succ hFinj hNinj cx hcx.1 f (fun g hg => ih g hg cx hcx) hcall
        (hrepS cx hcx f (fun g hg => ih g (by omega) cx hcx) hcall)

end execsim


/-- without callable functions the values are the expressions -/
theorem isVal_expr {ft : Feat} (hfns : ft.fns = []) {e : Card} (h : isVal ft e = true) : isExpr e = true := by
  rcases isVal_cases h with h | ⟨g, args, rfl, hc⟩
  · exact h
  · simp [isCall, Feat.lookup, hfns] at hc

mutual
theorem isStmtS_B {ft : Feat} (hfns : ft.fns = []) (hret : ft.ret = false) (d : Int) (L : LCtx) : ∀ (c : Card), isStmtS ft d L c = true → isStmtB c = true
  | .setGlobalVar n e => fun h => by
    simp only [isStmtS, Bool.and_eq_true] at h
    simp only [isStmtB, Bool.and_eq_true]
    exact ⟨h.1, isVal_expr hfns h.2⟩
  | .setVar n e => fun h => by
    simp only [isStmtS, Bool.and_eq_true] at h
    simp only [isStmtB, Bool.and_eq_true]
    exact ⟨h.1.1, isVal_expr hfns h.2⟩
  | .bin .ifTrue c b => fun h => by
    simp only [isStmtS, isStmtB, Bool.and_eq_true] at h ⊢
    exact ⟨h.1, isStmtS_B hfns hret d L b h.2⟩
  | .bin .ifFalse c b => fun h => by
    simp only [isStmtS, isStmtB, Bool.and_eq_true] at h ⊢
    exact ⟨h.1, isStmtS_B hfns hret d L b h.2⟩
  | .bin .while c (.composite _ cs) => fun h => by
    simp only [isStmtS, isStmtB, Bool.and_eq_true] at h ⊢
    exact ⟨h.1, isBlock_B hfns hret (d + 1) cs L h.2⟩
  | .tri .ifElse c t e => fun h => by
    simp only [isStmtS, isStmtB, Bool.and_eq_true] at h ⊢
    exact ⟨⟨h.1.1, isStmtS_B hfns hret d L t h.1.2⟩, isStmtS_B hfns hret d L e h.2⟩
  | .composite _ cs => fun h => by
    simp only [isStmtS, isStmtB] at h ⊢
    exact isStmtsS_B hfns hret d L cs h
  | .comment _ => fun _ => rfl
  | .bin .while _ (.bin _ _ _) | .bin .while _ (.un _ _) | .bin .while _ (.tri _ _ _ _) | .bin .while _ .scalarNil
  | .bin .while _ .createTable | .bin .while _ .abort | .bin .while _ (.scalarInt _) | .bin .while _ (.scalarFloat _)
  | .bin .while _ (.stringLiteral _) | .bin .while _ (.comment _) | .bin .while _ (.function _)
  | .bin .while _ (.nativeFunction _) | .bin .while _ (.readVar _) | .bin .while _ (.setVar _ _)
  | .bin .while _ (.setGlobalVar _ _) | .bin .while _ (.callNative _ _) | .bin .while _ (.call _ _)
  | .bin .while _ (.repeat _ _ _) | .bin .while _ (.forEach _ _ _ _ _) | .bin .while _ (.dynamicCall _ _)
  | .bin .while _ (.array _) | .bin .while _ (.closure _ _)
  | .bin .add _ _ | .bin .sub _ _ | .bin .mul _ _ | .bin .div _ _ | .bin .less _ _ | .bin .lessOrEq _ _
  | .bin .equals _ _ | .bin .notEquals _ _ | .bin .and _ _ | .bin .or _ _ | .bin .xor _ _
  | .bin .getProperty _ _ | .bin .get _ _ | .bin .appendTable _ _
  | .un .not _ | .un .len _ | .un .popTable _ | .tri .setProperty _ _ _ | .scalarNil | .createTable | .abort | .scalarInt _ | .scalarFloat _
  | .stringLiteral _ | .function _ | .nativeFunction _ | .readVar _ | .callNative _ _
  | .call _ _ | .forEach _ _ _ _ _ | .dynamicCall _ _ | .array _ | .closure _ _
  | .repeat _ _ (.bin _ _ _) | .repeat _ _ (.un _ _) | .repeat _ _ (.tri _ _ _ _) | .repeat _ _ .scalarNil
  | .repeat _ _ .createTable | .repeat _ _ .abort | .repeat _ _ (.scalarInt _) | .repeat _ _ (.scalarFloat _)
  | .repeat _ _ (.stringLiteral _) | .repeat _ _ (.comment _) | .repeat _ _ (.function _) | .repeat _ _ (.nativeFunction _)
  | .repeat _ _ (.readVar _) | .repeat _ _ (.setVar _ _) | .repeat _ _ (.setGlobalVar _ _) | .repeat _ _ (.callNative _ _)
  | .repeat _ _ (.call _ _) | .repeat _ _ (.repeat _ _ _) | .repeat _ _ (.forEach _ _ _ _ _) | .repeat _ _ (.dynamicCall _ _)
  | .repeat _ _ (.array _) | .repeat _ _ (.closure _ _) => fun h => by
    simp [isStmtS] at h
  | .un .ret _ => fun h => by
    simp [isStmtS, hret] at h
  | .repeat _ n (.composite _ cs) => fun h => by
    simp only [isStmtS, Bool.and_eq_true] at h
    simp only [isStmtB, Bool.and_eq_true]
    exact ⟨h.1.1.2, isBlock_B hfns hret (d + 2) cs _ h.2⟩
theorem isStmtsS_B {ft : Feat} (hfns : ft.fns = []) (hret : ft.ret = false) (d : Int) (L : LCtx) : ∀ (cs : List Card), isStmtsS ft d L cs = true → isStmtsB cs = true
  | [] => fun _ => rfl
  | c :: cs => fun h => by
    simp only [isStmtsS, isStmtsB, Bool.and_eq_true] at h ⊢
    exact ⟨isStmtS_B hfns hret d L c h.1, isStmtsS_B hfns hret d L cs h.2⟩
theorem isBlock_B {ft : Feat} (hfns : ft.fns = []) (hret : ft.ret = false) (d : Int) : ∀ (cs : List Card) (L : LCtx), isBlock ft d L cs = true → isStmtsB cs = true
  | [], _ => fun _ => rfl
  | c :: cs, L => fun h => by
    simp only [isBlock] at h
    simp only [isStmtsB, Bool.and_eq_true]
    rcases hdecl : declOf L c with _ | ⟨n, e⟩
    · simp only [hdecl, Bool.and_eq_true] at h
      exact ⟨isStmtS_B hfns hret d L c h.1, isBlock_B hfns hret d cs L h.2⟩
    · simp only [hdecl, Bool.and_eq_true] at h
      obtain ⟨rfl, _⟩ := declOf_some hdecl
      refine ⟨?_, isBlock_B hfns hret d cs _ h.2⟩
      simp only [isStmtB, Bool.and_eq_true]
      exact ⟨h.1.1, isVal_expr hfns h.1.2⟩
end

theorem srel_empty : SRel [] ({} : Sem.St) :=
  ⟨fun s hs => (by cases hs), List.nodup_nil, fun i v h => (by simp at h), fun n v h => (by cases h),
    fun d v h => (by cases h)⟩

theorem lookRel_empty : LookRel [[]] [] := fun _ _ => rfl

/-- The core of the compile-correctness theorems for `main` with scoped locals. -/
theorem compile_correct_coreS (ft : Feat) (hrepX : RepXAll ft) (hfns : ft.fns = [])
    (hrepS : ∀ (P : Prog) (F : List (UInt32 × Nat)) (J : Compiler.JumpTable) (N : String → Prop) (cx : Sem.Ctx) (C W : Nat),
      cx.outer = [] → FInj F → HInj N →
      ∀ (f : Nat), (∀ g, g + 1 = f → StmtSimS P F J N cx ft C W g) → (∀ g, g ≤ f → CallSimS P F J N cx ft C W g) →
      ∀ (d : Int) (S : List Slot) (env : Sem.Env)
      (i : Option String) (n : Card) (ty : String) (cs : List Card),
      CardSimS P F J N cx ft C W (f + 1) d (.repeat i n (.composite ty cs)) S env)
    (m std : Module) (limit fuel : Nat) (cfg : Config) (p : Program) (f : Func)
    (hbenign : ∀ (cx : Sem.Ctx), cx.outer = [] → benign (Sem.execList cx fuel [[]] {} f.cards).2.2)
    (hnocalls : ∀ (cx : Sem.Ctx), cx.outer = [] → (Sem.execList cx fuel [[]] {} f.cards).1.calls = 0)
    (hmain : mainFn m = some f) (hargs : f.arguments = []) (hfrag : isBlock ft 1 [] f.cards = true)
    (hinj : HInj (· ∈ snamess f.cards))
    (hc : compile m std limit = .ok p)
    (hB : p.bytecode.size < 4294967296) (hV : p.varIds.length < 4294967296)
    (hstack : bdepthS f.cards < cfg.stackSize) (hcalls : 0 < cfg.callStackSize)
    (hsem : (Sem.run m std fuel).result = "ok") :
    ∃ n, (loopFrees f.cards = true → n + 2 ≤ p.bytecode.size + 1) ∧
      ∀ maxInstr, n + 2 ≤ maxInstr →
        (Vm.run (Prog.ofProgram p) maxInstr (VmState.fresh cfg)).2.isNone = true ∧
        (Vm.run (Prog.ofProgram p) maxInstr (VmState.fresh cfg)).1.hostLog = (Sem.run m std fuel).log ∧
        ∀ g ∈ snamess f.cards,
          vmGlobal p (Vm.run (Prog.ofProgram p) maxInstr (VmState.fresh cfg)).1 g =
            semGlobal (Sem.run m std fuel) g := by
  obtain ⟨i, nf, hi, hf, rfl⟩ := mainFn_some hmain
  obtain ⟨J, mainEnd, hcode, hpops, hexit, hend, hFinj⟩ := compile_mainS hrepX hfns hc hi hf hargs hfrag hB hV
  obtain ⟨cx, hout, hrun⟩ := sem_run_main (std := std) (fuel := fuel) hi hf
  rw [hrun] at hsem ⊢
  have hben : benign (Sem.execList cx fuel [[]] {} nf.2.cards).2.2 := hbenign cx hout
  have hok := render_ok hben hsem
  have hnc := hnocalls cx hout
  rcases hex : Sem.execList cx fuel [[]] {} nf.2.cards with ⟨σ', env', r⟩
  rw [hex] at hok hnc
  simp only at hnc
  simp only at hok
  subst hok
  have hnoCall : ∀ (cx : Sem.Ctx) (g : Nat), CallSimS (Prog.ofProgram p) p.varIds J (· ∈ snamess nf.2.cards) cx ft 0
      (bdepthS nf.2.cards) g := fun cx g h args S env he => by
    simp [isVal, isExpr, isCall, Feat.lookup, hfns] at he
  obtain ⟨new, hctx, _, hσ, _, hlr', n, hn, hsim⟩ := block_simS (P := Prog.ofProgram p) (F := p.varIds) (J := J)
    (N := (· ∈ snamess nf.2.cards)) (C := 0) (W := bdepthS nf.2.cards) hout
    (exec_simS hFinj hinj cx.fns (fun cx' hcx' => hrepS _ _ _ _ cx' 0 (bdepthS nf.2.cards) hcx'.1 hFinj hinj)
      (fun cx' _ g _ => hnoCall cx' g) fuel fuel (Nat.le_refl _) cx ⟨hout, rfl⟩) (fun g _ => hnoCall cx g) 1 nf.2.cards [] [[]]
    hfrag lookRel_empty {} σ' env' 0 mainEnd hex hcode
    (Nat.le_trans (Nat.le_add_right _ _) (Nat.le_of_lt hend)) (fun n hn => hn) srel_empty
  have hk : (baseOf ([] ++ new) σ').length = (blockCtx 1 [] nf.2.cards).length := by
    have hctx' : ctxOf ([] ++ new) = blockCtx 1 [] nf.2.cards := hctx
    rw [baseOf_length, ← hctx']; simp [ctxOf]
  refine ⟨n + (blockCtx 1 [] nf.2.cards).length, fun hl => by have := hn hl; omega, fun maxInstr hmax => ?_⟩
  obtain ⟨vsK, hr, hstK, hsameK, hgK⟩ := hsim (startState cfg maxInstr) cfg.stackSize [] [] (by rw [hnc]; exact Nat.le_refl _)
    (by rw [List.append_nil]; exact stackIs_new _) (by show 0 + _ ≤ _; omega) (grel_empty _ _)
    ⟨⟨_, rfl, rfl, rfl⟩, fun _ h => (by cases h), rfl, fun _ h => (by cases h), rfl, rfl, fun _ h => (by cases h),
      by show 0 + 1 + (0 - 0) ≤ cfg.callStackSize; omega, by show 0 + (0 - 0 + 1) * _ < _; omega,
      fun h => absurd h (Nat.lt_irrefl 0)⟩
  rw [List.append_nil] at hstK
  obtain ⟨vsP, hrP, hstP, hsameP, hgP⟩ := reach_pops (P := Prog.ofProgram p) (baseOf ([] ++ new) σ') mainEnd vsK
    (fun j hj => hpops j (by rw [← hk]; exact hj)) (by rw [hk]; exact Nat.le_of_lt hend) hstK
  rw [hk] at hrP
  rw [vm_run_of_reach hcalls (hr.trans hrP rfl) hexit hend hmax]
  have hlog : vsP.hostLog = [] := by
    have e : vsP.hostLog = vsK.hostLog := by unfold SameRest at hsameP; rw [hsameP]
    rw [e, hsameK.log]; rfl
  have hσlog : σ'.log = [] := by rw [hσ.toSemFrame.eq]
  refine ⟨rfl, ?_, fun g hg => ?_⟩
  · show vsP.hostLog = σ'.log
    rw [hlog, hσlog]
  · exact globals_agree (vs := { tick vsP with frames := (tick vsP).frames.take 0, guards := (VmState.fresh cfg).guards })
      (by show GRel _ _ _ vsP.globals; rw [hgP]; exact hgK) hFinj hinj hg


/-- **Fragment F3** = F2 plus scoped locals: the body of a `While` (a composite card) is a block of
    its own: `SetVar` of a name that is not yet a local, directly in the block, declares a local that
    lives for one iteration (the compiler pops it before jumping back; the reference semantics runs
    the body in a fresh scope). `If*` branches still may not declare. -/
def InF3 (m : Module) : Bool :=
  match mainFn m with
  | some f => f.arguments.isEmpty && isBlock {} 1 [] f.cards
  | none => false

theorem inF3_main {m : Module} (h : InF3 m = true) :
    ∃ f, mainFn m = some f ∧ f.arguments = [] ∧ isBlock {} 1 [] f.cards = true ∧ mainCards m = f.cards := by
  unfold InF3 at h
  unfold mainCards
  rcases hm : mainFn m with _ | f
  · rw [hm] at h; cases h
  · rw [hm] at h
    simp only [Bool.and_eq_true, List.isEmpty_iff] at h
    exact ⟨f, rfl, h.1, h.2, rfl⟩

/-- **C01 for fragment F3 (scoped locals, loops).** -/
theorem compile_correct_F3 (m std : Module) (limit fuel : Nat) (cfg : Config) (p : Program)
    (hfrag : InF3 m = true) (hnames : handlesDistinct (snamess (mainCards m)) = true)
    (hc : compile m std limit = .ok p)
    (hB : p.bytecode.size < 4294967296) (hV : p.varIds.length < 4294967296)
    (hstack : bdepthS (mainCards m) < cfg.stackSize) (hcalls : 0 < cfg.callStackSize)
    (hsem : (Sem.run m std fuel).result = "ok") :
    ∃ budget, ∀ maxInstr, budget ≤ maxInstr →
      Agree p (snamess (mainCards m)) (Vm.run (Prog.ofProgram p) maxInstr (VmState.fresh cfg))
        (Sem.run m std fuel) := by
  obtain ⟨f, hmain, hargs, hst, hcards⟩ := inF3_main hfrag
  rw [hcards] at hnames hstack ⊢
  obtain ⟨n, _, hall⟩ := compile_correct_coreS {} (repX_false rfl) rfl
    (fun P F J N cx C W _ _ _ f _ _ d S env i n ty cs hs => by simp [isStmtS] at hs)
    m std limit fuel cfg p f
    (fun cx hout => execList_benign _ (fun c hc env σ =>
      exec_benignB cx hout fuel c (isStmtsB_mem (isBlock_B (ft := {}) rfl rfl 1 f.cards [] hst) c hc) env σ) _ _)
    (fun cx hout => execList_calls _ (fun c hc env σ =>
      exec_callsB cx hout fuel c (isStmtsB_mem (isBlock_B (ft := {}) rfl rfl 1 f.cards [] hst) c hc) env σ) _ _)
    hmain hargs hst (hinj_of_handlesDistinct hnames) hc hB hV hstack hcalls hsem
  refine ⟨n + 2, fun maxInstr hmax => ?_⟩
  obtain ⟨h1, h2, h3⟩ := hall maxInstr hmax
  exact ⟨⟨h1, hsem⟩, h2, h3⟩

/-- on F3 the reference semantics never yields an error, a `Return` or an `Abort` -/
theorem sem_run_benign_F3 (m std : Module) (hfrag : InF3 m = true) (fuel : Nat) :
    ∃ x, Sem.run m std fuel = render x ∧ benign x.2.2 := by
  obtain ⟨fn, hmain, _, hst, _⟩ := inF3_main hfrag
  obtain ⟨i, nf, hi, hf, rfl⟩ := mainFn_some hmain
  obtain ⟨cx, hout, hrun⟩ := sem_run_main (std := std) (fuel := fuel) hi hf
  have hB' := isBlock_B (ft := {}) rfl rfl 1 nf.2.cards [] hst
  exact ⟨_, hrun, execList_benign _ (fun c hc env σ => exec_benignB cx hout fuel c (isStmtsB_mem hB' c hc) env σ) _ _⟩

/-- **Fuel independence on F3**. -/
theorem sem_run_fuel_mono_F3 (m std : Module) (hfrag : InF3 m = true) (f f' : Nat) (hle : f ≤ f')
    (h : (Sem.run m std f).result ≠ "unspecified:out of fuel") : Sem.run m std f' = Sem.run m std f := by
  obtain ⟨fn, hmain, _, hst, _⟩ := inF3_main hfrag
  obtain ⟨i, nf, hi, hf, rfl⟩ := mainFn_some hmain
  obtain ⟨cx, hout, hrun⟩ := sem_run_main' (std := std) hi hf
  rw [hrun f] at h
  rw [hrun f', hrun f]
  have hB' := isBlock_B (ft := {}) rfl rfl 1 nf.2.cards [] hst
  have hn : ¬ isOOF (Sem.execList cx f [[]] {} nf.2.cards).2.2 := by
    intro hoof
    rcases hx : Sem.execList cx f [[]] {} nf.2.cards with ⟨σ1, env1, r1⟩
    rw [hx] at h hoof
    cases r1 <;> first | exact hoof | exact h rfl
  have : Sem.execList cx f' [[]] {} nf.2.cards = Sem.execList cx f [[]] {} nf.2.cards :=
    execList_fuel_mono nf.2.cards
      (fun c hc env σ hnc => exec_fuel_monoB cx hout f c (isStmtsB_mem hB' c hc) env σ hnc f' hle) [[]] {} hn
  rw [this]

/-! ### an example: a local declared in the loop body (shown by evaluation) -/

/-- `i = 0; s = 0; while i < 3 { t = i * 2; s = s + t; i = i + 1 }; out = s`
    (`i`, `s` function-level locals, `t` a local of the loop body) -/
def exScoped : Module := Module.mk [] [("main", { arguments := [], cards := [
  .setVar "i" (.scalarInt 0),
  .setVar "a" (.scalarInt 0),
  .bin .while (.bin .less (.readVar "i") (.scalarInt 3)) (.composite "b" [
    .setVar "t" (.bin .mul (.readVar "i") (.scalarInt 2)),
    .setVar "a" (.bin .add (.readVar "a") (.readVar "t")),
    .setVar "i" (.bin .add (.readVar "i") (.scalarInt 1))]),
  .setGlobalVar "out" (.readVar "a")] })] []


theorem splitOn_t : ("t" : String).splitOn "." = ["t"] := by
  simp (config := {decide := true}) [String.splitOn, String.splitOnAux]

theorem simpleName_t : simpleName "t" = true := by
  unfold simpleName; rw [splitOn_t]; decide

theorem exScoped_inF3 : InF3 exScoped = true := by
  have hm : mainFn exScoped = some { arguments := [], cards := [
      .setVar "i" (.scalarInt 0),
      .setVar "a" (.scalarInt 0),
      .bin .while (.bin .less (.readVar "i") (.scalarInt 3)) (.composite "b" [
        .setVar "t" (.bin .mul (.readVar "i") (.scalarInt 2)),
        .setVar "a" (.bin .add (.readVar "a") (.readVar "t")),
        .setVar "i" (.bin .add (.readVar "i") (.scalarInt 1))]),
      .setGlobalVar "out" (.readVar "a")] } := by rfl
  have l1 : lidx [] "i" = none := by decide
  have l2 : lidx [("i", 1)] "a" = none := by decide
  have l3 : lidx [("i", 1), ("a", 1)] "t" = none := by decide
  have l4 : lidx [("i", 1), ("a", 1), ("t", 2)] "a" = some 1 := by decide
  have l5 : lidx [("i", 1), ("a", 1), ("t", 2)] "i" = some 0 := by decide
  unfold InF3
  rw [hm]
  simp [isBlock, declOf, isStmtS, isVal, isCall, isExpr, isValOp, simpleName_a, simpleName_i, simpleName_t,
    l1, l2, l3, l4, l5]

/- expected: "SEM: ok [(out, i6)] | VM: ok [i6]" -/
#eval showBoth exScoped

end Cao.C01
