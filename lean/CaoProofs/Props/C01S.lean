import CaoProofs.Props.C01L
import CaoProofs.Lemmas.SimScopes
/-!
# C01, continued: scoped locals (`While` bodies that declare locals, `Repeat`)

The value stack holds one *slot* per compile-time local: a named slot shows the cell of a local of
the reference semantics, a hidden slot (the counters of `Repeat`) holds a value of its own. The
cells of the reference semantics are never freed, so slots and cells are related by an injective
map instead of coinciding.
-/
namespace Cao.C01
open Cao Cao.Vm Cao.Sim Cao.Compiler

inductive Slot where
  | named (n : String) (d : Int) (c : Nat)
  | hidden (d : Int) (v : Val)

def Slot.ctx : Slot → String × Int
  | .named n d _ => (n, d)
  | .hidden d _ => ("", d)

def ctxOf (S : List Slot) : LCtx := S.map Slot.ctx

def Slot.val (σ : Sem.St) : Slot → Val
  | .named _ _ c => σ.cells[c]?.getD .nil
  | .hidden _ v => v

def Slot.cell : Slot → Option Nat
  | .named _ _ c => some c
  | .hidden _ _ => none

/-- the bottom of the value stack (top first) -/
def baseOf (S : List Slot) (σ : Sem.St) : List Val := (S.map (Slot.val σ)).reverse

structure SRel (S : List Slot) (σ : Sem.St) : Prop where
  lt : ∀ s ∈ S, ∀ c, s.cell = some c → c < σ.cells.size
  inj : (S.filterMap Slot.cell).Nodup
  scalar : ∀ (i : Nat) (v : Val), σ.cells[i]? = some v → Scalar v
  gscalar : ∀ (n : String) (v : Val), glookup σ.globals n = some v → Scalar v
  hscalar : ∀ d v, Slot.hidden d v ∈ S → Scalar v

/-- name lookup in the environment of the reference semantics finds the cell of the slot that the
    compiler resolves the name to -/
def LookRel (env : Sem.Env) (S : List Slot) : Prop :=
  ∀ n, n.isEmpty = false →
    Sem.lookupEnv env n = (lidx (ctxOf S) n).bind (fun j => (S[j]?).bind Slot.cell)

theorem slot_of_lidx {S : List Slot} {n : String} {j : Nat} (h : lidx (ctxOf S) n = some j)
    (hn : n.isEmpty = false) : ∃ d c, S[j]? = some (.named n d c) := by
  have hj := lidx_lt h
  have hp := List.find?_some h
  simp only [ctxOf, List.length_map] at hj
  simp only [ctxOf, List.getD_eq_getElem?_getD, List.getElem?_map, List.getElem?_eq_getElem hj, Option.map_some,
    Option.getD_some, beq_iff_eq] at hp
  rcases hs : S[j] with ⟨n', d, c⟩ | ⟨d, v⟩
  · rw [hs] at hp
    simp only [Slot.ctx] at hp
    subst hp
    exact ⟨d, c, by rw [List.getElem?_eq_getElem hj, hs]⟩
  · rw [hs] at hp
    simp only [Slot.ctx] at hp
    rw [← hp] at hn
    exact absurd hn (by decide)

theorem readVar_env {cx : Sem.Ctx} (hout : cx.outer = []) {n : String} (hn : simpleName n = true)
    (env : Sem.Env) (s : Sem.St) :
    Sem.readVar cx env s n = (s, env, match Sem.lookupEnv env n with
      | some c => .ok (s.cells[c]?.getD .nil)
      | none => match glookup s.globals n with
        | some x => .ok x
        | none => .unspecified "read of a global that was never written") := by
  simp only [simpleName, Bool.and_eq_true, decide_eq_true_eq, Bool.not_eq_true'] at hn
  obtain ⟨hsplit, hne⟩ := hn
  have hnone : Sem.lookupEnv [] n = none := rfl
  unfold Sem.readVar
  simp only [hsplit, List.filter_nil, hne, Bool.false_eq_true, if_false, hout, hnone, List.foldl_nil]
  rcases Sem.lookupEnv env n with _ | c
  · unfold glookup
    rcases hfind : List.find? (fun p => p.fst == n) s.globals with _ | ⟨a, b⟩ <;> simp only [hfind] <;> rfl
  · rfl

section simS
variable {P : Prog} {F : List (UInt32 × Nat)} {N : String → Prop} {cx : Sem.Ctx} (hout : cx.outer = [])
include hout

theorem eval_simS (S : List Slot) (env : Sem.Env) (henv : LookRel env S) :
    ∀ (e : Card), isExpr e = true → ∀ (fuel : Nat) (σ σ' : Sem.St) (env' : Sem.Env) (v : Val) (pc pc' : Nat),
      Sem.eval cx fuel env σ e = (σ', env', .ok v) → ECodeL P.bytecode F (ctxOf S) e pc pc' → pc' ≤ P.bytecode.size →
      σ' = σ ∧ env = env' ∧ ∃ n, n ≤ pc' - pc ∧
        ∀ (vs : VmState) (cap : Nat) (stk : List Val), StackIs vs.stack cap stk → stk.length + edepth e < cap →
          GRel F N σ.globals vs.globals → FrameOk vs → SRel S σ →
          (∃ temps, stk = temps ++ baseOf S σ) →
          Scalar v ∧ ∃ vs', Reach P n pc vs pc' vs' ∧ StackIs vs'.stack cap (v :: stk) ∧ SameRest vs vs' ∧
            vs'.globals = vs.globals
  | .scalarInt i => by
    intro _ fuel σ σ' env' v pc pc' hev hcode hsz
    cases fuel with
    | zero => rw [eval_zero] at hev; cases hev
    | succ f =>
      rw [eval_scalarInt] at hev
      simp only [Prod.mk.injEq, Sem.Res.ok.injEq] at hev
      obtain ⟨rfl, rfl, rfl⟩ := hev
      simp only [ECodeL] at hcode
      obtain ⟨h1, h2, rfl⟩ := hcode
      refine ⟨rfl, rfl, 1, by omega, fun vs cap stk hst hroom _ _ _ _ => ?_⟩
      simp only [edepth] at hroom
      obtain ⟨vs', hr, hs', hsame, hg⟩ := reach_push (P := P) (ip := pc) (ip' := pc + 9) (.int i) (by omega) hst hroom
        (fun re st' hp => by
          have := step_scalarInt (re := re) h1 (s := tick vs) (st' := st')
            (by rw [h2, Int64.toInt64_toUInt64]; exact hp)
          exact this)
      exact ⟨trivial, vs', hr, hs', hsame, hg⟩
  | .scalarFloat b => by
    intro _ fuel σ σ' env' v pc pc' hev hcode hsz
    cases fuel with
    | zero => rw [eval_zero] at hev; cases hev
    | succ f =>
      rw [eval_scalarFloat] at hev
      simp only [Prod.mk.injEq, Sem.Res.ok.injEq] at hev
      obtain ⟨rfl, rfl, rfl⟩ := hev
      simp only [ECodeL] at hcode
      obtain ⟨h1, h2, rfl⟩ := hcode
      refine ⟨rfl, rfl, 1, by omega, fun vs cap stk hst hroom _ _ _ _ => ?_⟩
      simp only [edepth] at hroom
      obtain ⟨vs', hr, hs', hsame, hg⟩ := reach_push (P := P) (ip := pc) (ip' := pc + 9) (.real b) (by omega) hst hroom
        (fun re st' hp => by
          have := step_scalarFloat (re := re) h1 (s := tick vs) (st' := st') (by rw [h2]; exact hp)
          exact this)
      exact ⟨trivial, vs', hr, hs', hsame, hg⟩
  | .scalarNil => by
    intro _ fuel σ σ' env' v pc pc' hev hcode hsz
    cases fuel with
    | zero => rw [eval_zero] at hev; cases hev
    | succ f =>
      rw [eval_scalarNil] at hev
      simp only [Prod.mk.injEq, Sem.Res.ok.injEq] at hev
      obtain ⟨rfl, rfl, rfl⟩ := hev
      simp only [ECodeL] at hcode
      obtain ⟨h1, rfl⟩ := hcode
      refine ⟨rfl, rfl, 1, by omega, fun vs cap stk hst hroom _ _ _ _ => ?_⟩
      simp only [edepth] at hroom
      obtain ⟨vs', hr, hs', hsame, hg⟩ := reach_push (P := P) (ip := pc) (ip' := pc + 1) .nil (by omega) hst hroom
        (fun re st' hp => step_scalarNil (re := re) h1 (s := tick vs) (st' := st') hp)
      exact ⟨trivial, vs', hr, hs', hsame, hg⟩
  | .un .not c => by
    intro he fuel σ σ' env' v pc pc' hev hcode hsz
    simp only [isExpr] at he
    cases fuel with
    | zero => rw [eval_zero] at hev; cases hev
    | succ f =>
      rw [eval_not] at hev
      simp only [ECodeL] at hcode
      obtain ⟨m, hc1, hop, rfl⟩ := hcode
      rcases hc : Sem.eval cx f env σ c with ⟨σ1, env1, r1⟩
      rw [hc] at hev
      cases r1 with
      | ok v1 =>
        simp only [Prod.mk.injEq, Sem.Res.ok.injEq] at hev
        obtain ⟨rfl, rfl, rfl⟩ := hev
        obtain ⟨rfl, rfl, n1, hn1, hsim1⟩ := eval_simS S env henv c he f σ σ1 env1 v1 pc m hc hc1 (by omega)
        have hlt := ecodeL_lt hc1
        refine ⟨rfl, rfl, n1 + 1, by omega, fun vs cap stk hst hroom hg hfr hlr hbase => ?_⟩
        simp only [edepth] at hroom
        obtain ⟨hs1, vs1, hr1, hst1, hsame1, hg1⟩ := hsim1 vs cap stk hst hroom hg hfr hlr hbase
        have hpos := edepth_pos c
        obtain ⟨vs2, hr2, hst2, hsame2, hg2⟩ := reach_not (P := P) (ip := m) (by omega) hop hst1 (by omega)
        rw [ownD_scalar hs1 vs1.heap σ1] at hst2
        exact ⟨trivial, vs2, hr1.trans hr2 rfl, hst2, hsame1.trans hsame2, hg2.trans hg1⟩
      | outOfFuel | ret _ | exit | err _ | unspecified _ =>
        simp only [Prod.mk.injEq] at hev
        obtain ⟨_, _, h⟩ := hev
        cases h
  | .bin k a b => by
    intro he fuel σ σ' env' v pc pc' hev hcode hsz
    simp only [isExpr, Bool.and_eq_true] at he
    obtain ⟨⟨hk, hea⟩, heb⟩ := he
    cases fuel with
    | zero => rw [eval_zero] at hev; cases hev
    | succ f =>
      rw [eval_bin _ _ _ _ k hk] at hev
      simp only [ECodeL] at hcode
      obtain ⟨m1, m2, hc1, hc2, hop, rfl⟩ := hcode
      have hlt1 := ecodeL_lt hc1
      have hlt2 := ecodeL_lt hc2
      rcases hca : Sem.eval cx f env σ a with ⟨σ1, env1, r1⟩
      rw [hca] at hev
      cases r1 with
      | ok va =>
        simp only at hev
        obtain ⟨rfl, rfl, n1, hn1, hsim1⟩ := eval_simS S env henv a hea f σ σ1 env1 va pc m1 hca hc1 (by omega)
        rcases hcb : Sem.eval cx f env σ1 b with ⟨σ2, env2, r2⟩
        rw [hcb] at hev
        cases r2 with
        | ok vb =>
          simp only [Prod.mk.injEq, Sem.Res.ok.injEq] at hev
          obtain ⟨rfl, rfl, rfl⟩ := hev
          obtain ⟨rfl, rfl, n2, hn2, hsim2⟩ := eval_simS S env henv b heb f σ1 σ2 env2 vb m1 m2 hcb hc2 (by omega)
          refine ⟨rfl, rfl, n1 + n2 + 1, by omega, fun vs cap stk hst hroom hg hfr hlr hbase => ?_⟩
          simp only [edepth] at hroom
          obtain ⟨hsa, vs1, hr1, hst1, hsame1, hg1⟩ := hsim1 vs cap stk hst (by omega) hg hfr hlr hbase
          obtain ⟨hsb, vs2, hr2, hst2, hsame2, hg2⟩ := hsim2 vs1 cap (va :: stk) hst1
            (by simp only [List.length_cons]; omega) (by rw [hg1]; exact hg) (hsame1.frameOk hfr) hlr
            (by obtain ⟨temps, ht⟩ := hbase; exact ⟨va :: temps, by rw [ht]; rfl⟩)
          obtain ⟨vs3, hr3, hst3, hsame3, hg3⟩ := reach_bin (P := P) (ip := m2) k hk (by omega) hop hst2 (by omega)
          rw [ownD_scalar hsa vs2.heap σ2, ownD_scalar hsb vs2.heap σ2] at hst3
          exact ⟨scalar_binVal _ _ _, vs3, (hr1.trans hr2 rfl).trans hr3 rfl, hst3,
            (hsame1.trans hsame2).trans hsame3, (hg3.trans hg2).trans hg1⟩
        | outOfFuel | ret _ | exit | err _ | unspecified _ =>
          simp only [Prod.mk.injEq] at hev
          obtain ⟨_, _, h⟩ := hev
          cases h
      | outOfFuel | ret _ | exit | err _ | unspecified _ =>
        simp only [Prod.mk.injEq] at hev
        obtain ⟨_, _, h⟩ := hev
        cases h
  | .readVar n => by
    intro he fuel σ σ' env' v pc pc' hev hcode hsz
    simp only [isExpr] at he
    have hne : n.isEmpty = false := by
      simp only [simpleName, Bool.and_eq_true, Bool.not_eq_true'] at he; exact he.2
    cases fuel with
    | zero => rw [eval_zero] at hev; cases hev
    | succ f =>
      rw [eval_readVar, readVar_env hout he, henv n hne] at hev
      simp only [ECodeL] at hcode
      rcases hli : lidx (ctxOf S) n with _ | i
      · rw [hli] at hev hcode
        simp only [Option.bind_none] at hev hcode
        obtain ⟨id, hid, hop, hrd, rfl⟩ := hcode
        rcases hl : glookup σ.globals n with _ | x
        · rw [hl] at hev
          simp only [Prod.mk.injEq] at hev
          obtain ⟨_, _, h⟩ := hev
          cases h
        · rw [hl] at hev
          simp only [Prod.mk.injEq, Sem.Res.ok.injEq] at hev
          obtain ⟨rfl, rfl, rfl⟩ := hev
          refine ⟨rfl, rfl, 1, by omega, fun vs cap stk hst hroom hg _ _ _ => ?_⟩
          simp only [edepth] at hroom
          obtain ⟨_, hsx, id', hid', hv⟩ := hg.sem_vm n x hl
          rw [hid] at hid'
          cases hid'
          obtain ⟨vs', hr, hs', hsame, hg'⟩ := reach_push (P := P) (ip := pc) (ip' := pc + 5) x (by omega) hst hroom
            (fun re st' hp => step_readGlobalVar (re := re) hop (s := tick vs) (st' := st') (v := x)
              (by rw [hrd]; exact hv) hp)
          exact ⟨hsx, vs', hr, hs', hsame, hg'⟩
      · obtain ⟨d, c, hsj⟩ := slot_of_lidx hli hne
        rw [hli] at hev hcode
        simp only [Option.bind_some, hsj, Slot.cell, Prod.mk.injEq, Sem.Res.ok.injEq] at hev hcode
        obtain ⟨rfl, rfl, rfl⟩ := hev
        obtain ⟨hop, hrd, rfl⟩ := hcode
        refine ⟨rfl, rfl, 1, by omega, fun vs cap stk hst hroom hg hfr hlr hbase => ?_⟩
        simp only [edepth] at hroom
        obtain ⟨temps, rfl⟩ := hbase
        have hi : i < S.length := by
          have := lidx_lt hli; simpa [ctxOf] using this
        have hlen : i < (temps ++ baseOf S σ).length := by
          simp only [List.length_append, baseOf, List.length_reverse, List.length_map]; omega
        obtain ⟨vs', hr, hs', hsame, hg'⟩ := reach_readLocal (P := P) (ip := pc) (by omega) hop hrd hfr hst hlen hroom
        have hval : (temps ++ baseOf S σ).reverse.getD i .nil = σ.cells[c]?.getD .nil := by
          rw [List.reverse_append, baseOf, List.reverse_reverse, List.getD_eq_getElem?_getD,
            List.getElem?_append_left (by rw [List.length_map]; exact hi), List.getElem?_map, hsj]
          rfl
        rw [hval] at hs'
        have hsc : Scalar (σ.cells[c]?.getD .nil) := by
          rcases hc : σ.cells[c]? with _ | v
          · trivial
          · exact hlr.scalar c v hc
        exact ⟨hsc, vs', hr, hs', hsame, hg'⟩
  | .un .ret _ | .un .len _ | .un .popTable _ | .tri _ _ _ _ | .createTable | .abort | .stringLiteral _
  | .comment _ | .function _ | .nativeFunction _ | .setVar _ _ | .setGlobalVar _ _ | .callNative _ _
  | .call _ _ | .repeat _ _ _ | .forEach _ _ _ _ _ | .composite _ _ | .dynamicCall _ _ | .array _
  | .closure _ _ => by
    intro he
    simp [isExpr] at he
end simS
theorem baseOf_append (S T : List Slot) (σ : Sem.St) : baseOf (S ++ T) σ = baseOf T σ ++ baseOf S σ := by
  simp [baseOf]

theorem baseOf_length (S : List Slot) (σ : Sem.St) : (baseOf S σ).length = S.length := by
  simp [baseOf]

theorem SRel.pre {S T : List Slot} {σ : Sem.St} (h : SRel (S ++ T) σ) : SRel S σ :=
  ⟨fun s hs c hc => h.lt s (List.mem_append_left _ hs) c hc,
   by have := h.inj; rw [List.filterMap_append] at this; exact (List.nodup_append.1 this).1,
   h.scalar, h.gscalar, fun d v hm => h.hscalar d v (List.mem_append_left _ hm)⟩

/-- slots keep their value when the store only grows or changes at cells they do not show -/
theorem baseOf_congr {S : List Slot} {σ σ' : Sem.St}
    (h : ∀ s ∈ S, ∀ c, s.cell = some c → σ'.cells[c]? = σ.cells[c]?) : baseOf S σ' = baseOf S σ := by
  unfold baseOf
  congr 1
  apply List.map_congr_left
  intro s hs
  cases s with
  | named n d c => simp only [Slot.val]; rw [h _ hs c rfl]
  | hidden d v => rfl

theorem lookupEnv_cons_nil (env : Sem.Env) (n : String) : Sem.lookupEnv ([] :: env) n = Sem.lookupEnv env n := by
  unfold Sem.lookupEnv
  rw [List.findSome?_cons]
  rfl

theorem lookRel_cons_nil {env : Sem.Env} {S : List Slot} (h : LookRel env S) : LookRel ([] :: env) S :=
  fun n hn => by rw [lookupEnv_cons_nil]; exact h n hn

/-- the environment after the declaration of `n` in the innermost scope -/
def declEnv (env : Sem.Env) (n : String) (c : Nat) : Sem.Env :=
  match env with
  | scope :: rest => (scope ++ [(n, c)]) :: rest
  | [] => [[(n, c)]]

theorem lookupEnv_declEnv (env : Sem.Env) (n : String) (c : Nat) (n' : String) :
    Sem.lookupEnv (declEnv env n c) n' = if n' = n then some c else Sem.lookupEnv env n' := by
  unfold declEnv
  cases env with
  | nil =>
    unfold Sem.lookupEnv
    by_cases h : n' = n
    · subst h; simp
    · have : ¬ (n = n') := fun e => h e.symm
      simp [h, this]
  | cons scope rest =>
    unfold Sem.lookupEnv
    rw [List.findSome?_cons, List.findSome?_cons, List.reverse_append]
    by_cases h : n' = n
    · subst h; simp
    · have : ¬ (n = n') := fun e => h e.symm
      simp [h, this]

theorem lidx_append (L : LCtx) (n : String) (d : Int) (n' : String) :
    lidx (L ++ [(n, d)]) n' = if n' = n then some L.length else lidx L n' := by
  unfold lidx
  rw [List.length_append, List.length_singleton, List.range_succ, List.reverse_append]
  simp only [List.reverse_singleton, List.singleton_append, List.find?_cons]
  have ha : (L ++ [(n, d)]).getD L.length ("", 0) = (n, d) := by simp
  rw [ha]
  by_cases h : n' = n
  · subst h; simp
  · have hb : ((n, d).1 == n') = false := by
      simp only [beq_eq_false_iff_ne, ne_eq]; exact fun e => h e.symm
    rw [hb, if_neg h]
    refine find?_congr' fun i hi => ?_
    simp only [List.mem_reverse, List.mem_range] at hi
    simp [List.getD_eq_getElem?_getD, List.getElem?_append_left hi]

theorem lookRel_decl {env : Sem.Env} {S : List Slot} (h : LookRel env S) (n : String) (d : Int) (c : Nat) :
    LookRel (declEnv env n c) (S ++ [.named n d c]) := by
  intro n' hn'
  rw [lookupEnv_declEnv]
  have hctx : ctxOf (S ++ [.named n d c]) = ctxOf S ++ [(n, d)] := by simp [ctxOf, Slot.ctx]
  rw [hctx, lidx_append]
  have hlen : (ctxOf S).length = S.length := by simp [ctxOf]
  by_cases hnn : n' = n
  · rw [if_pos hnn, if_pos hnn, hlen]
    simp [Slot.cell]
  · rw [if_neg hnn, if_neg hnn, h n' hn']
    rcases hli : lidx (ctxOf S) n' with _ | j
    · rfl
    · have hj : j < S.length := by have := lidx_lt hli; omega
      simp only [Option.bind_some, List.getElem?_append_left hj]


theorem cell_mem_filterMap {S : List Slot} {s : Slot} {c : Nat} (hs : s ∈ S) (hc : s.cell = some c) :
    c ∈ S.filterMap Slot.cell := List.mem_filterMap.2 ⟨s, hs, hc⟩

theorem nodup_filterMap_inj {α β : Type} {f : α → Option β} : ∀ {l : List α}, (l.filterMap f).Nodup →
    ∀ {i j : Nat} {a b : α} {y : β}, l[i]? = some a → l[j]? = some b → f a = some y → f b = some y → i = j
  | [], _, i, j, a, b, y, hi, _, _, _ => by simp at hi
  | x :: l, hn, i, j, a, b, y, hi, hj, ha, hb => by
    cases i with
    | zero =>
      cases j with
      | zero => rfl
      | succ j =>
        simp only [List.getElem?_cons_zero, Option.some.injEq] at hi
        simp only [List.getElem?_cons_succ] at hj
        subst hi
        rw [List.filterMap_cons, ha, List.nodup_cons] at hn
        exact absurd (List.mem_filterMap.2 ⟨b, List.mem_of_getElem? hj, hb⟩) hn.1
    | succ i =>
      cases j with
      | zero =>
        simp only [List.getElem?_cons_zero, Option.some.injEq] at hj
        simp only [List.getElem?_cons_succ] at hi
        subst hj
        rw [List.filterMap_cons, hb, List.nodup_cons] at hn
        exact absurd (List.mem_filterMap.2 ⟨a, List.mem_of_getElem? hi, ha⟩) hn.1
      | succ j =>
        simp only [List.getElem?_cons_succ] at hi hj
        have hn' : (l.filterMap f).Nodup := by
          rw [List.filterMap_cons] at hn
          cases hx : f x with
          | none => rw [hx] at hn; exact hn
          | some z => rw [hx] at hn; exact (List.nodup_cons.1 hn).2
        rw [nodup_filterMap_inj hn' hi hj ha hb]

theorem nodup_cell_inj {S : List Slot} (h : (S.filterMap Slot.cell).Nodup) {i j : Nat} {n n' : String}
    {d d' : Int} {c : Nat} (hi : S[i]? = some (.named n d c)) (hj : S[j]? = some (.named n' d' c)) : i = j :=
  nodup_filterMap_inj h hi hj rfl rfl

/-- declaration of a new local: a new cell, a new slot on top of the stack -/
theorem SRel.decl {S : List Slot} {σ : Sem.St} (h : SRel S σ) (n : String) (d : Int) {x : Val} (hx : Scalar x) :
    SRel (S ++ [.named n d σ.cells.size]) (Sem.newCell σ x).1 ∧
    baseOf (S ++ [.named n d σ.cells.size]) (Sem.newCell σ x).1 = x :: baseOf S σ := by
  have hcells : (Sem.newCell σ x).1.cells = σ.cells.push x := rfl
  refine ⟨⟨?_, ?_, ?_, h.gscalar, ?_⟩, ?_⟩
  · intro s hs c hc
    rw [hcells, Array.size_push]
    rcases List.mem_append.1 hs with hs | hs
    · exact Nat.lt_succ_of_lt (h.lt s hs c hc)
    · simp only [List.mem_singleton] at hs; subst hs
      simp only [Slot.cell, Option.some.injEq] at hc; omega
  · rw [List.filterMap_append]
    simp only [List.filterMap_cons, Slot.cell, List.filterMap_nil]
    rw [List.nodup_append]
    refine ⟨h.inj, by simp, fun a ha b hb => ?_⟩
    simp only [List.mem_singleton] at hb; subst hb
    obtain ⟨s, hs, hc⟩ := List.mem_filterMap.1 ha
    have := h.lt s hs a hc
    omega
  · intro j v hj
    rw [hcells, Array.getElem?_push] at hj
    split at hj
    · cases hj; exact hx
    · exact h.scalar j v hj
  · intro d' v hm
    rcases List.mem_append.1 hm with hm | hm
    · exact h.hscalar d' v hm
    · simp at hm
  · rw [baseOf_append]
    have h1 : baseOf [Slot.named n d σ.cells.size] (Sem.newCell σ x).1 = [x] := by
      simp [baseOf, Slot.val, hcells]
    rw [h1, baseOf_congr (σ := σ)]
    · rfl
    · intro s hs c hc
      rw [hcells, Array.getElem?_push_lt (h.lt s hs c hc)]
      simp [h.lt s hs c hc]

/-- assignment to the local in slot `j` (cell `c`) -/
theorem SRel.assign {S : List Slot} {σ : Sem.St} (h : SRel S σ) {j c : Nat} {n : String} {d : Int}
    (hj : S[j]? = some (.named n d c)) {x : Val} (hx : Scalar x) :
    SRel S { σ with cells := σ.cells.set! c x } ∧
    baseOf S { σ with cells := σ.cells.set! c x } = ((baseOf S σ).reverse.set j x).reverse := by
  have hjl : j < S.length := by
    rcases Nat.lt_or_ge j S.length with h' | h'
    · exact h'
    · rw [List.getElem?_eq_none h'] at hj; cases hj
  have hmem : Slot.named n d c ∈ S := List.mem_of_getElem? hj
  refine ⟨⟨?_, h.inj, ?_, h.gscalar, h.hscalar⟩, ?_⟩
  · intro s hs c' hc'
    show c' < (σ.cells.set! c x).size
    simpa using h.lt s hs c' hc'
  · intro i v hi
    have hi' : (σ.cells.set! c x)[i]? = some v := hi
    simp only [Array.set!_eq_setIfInBounds, Array.getElem?_setIfInBounds] at hi'
    split at hi'
    · split at hi'
      · cases hi'; exact hx
      · cases hi'
    · exact h.scalar i v hi'
  · unfold baseOf
    rw [List.reverse_reverse]
    congr 1
    apply List.ext_getElem?
    intro i
    rw [List.getElem?_map, List.getElem?_set]
    by_cases hij : j = i
    · subst hij
      rw [if_pos rfl, hj]
      simp only [List.length_map, hjl, if_true, Option.map_some, Slot.val]
      have hc := h.lt _ hmem c rfl
      show some ((σ.cells.set! c x)[c]?.getD .nil) = _
      simp [hc]
    · rw [if_neg hij, List.getElem?_map]
      rcases hsi : S[i]? with _ | s
      · rfl
      · simp only [Option.map_some]
        congr 1
        cases s with
        | hidden d' v => rfl
        | named n' d' c' =>
          simp only [Slot.val]
          have hne : c' ≠ c := by
            intro e
            subst e
            -- two different positions with the same cell contradict `inj`
            have hi_lt : i < S.length := by
              rcases Nat.lt_or_ge i S.length with h' | h'
              · exact h'
              · rw [List.getElem?_eq_none h'] at hsi; cases hsi
            exact absurd (nodup_cell_inj h.inj hj hsi) hij
          show (σ.cells.set! c x)[c']?.getD .nil = σ.cells[c']?.getD .nil
          simp [Ne.symm hne]


theorem eval_scalarS {cx : Sem.Ctx} (hout : cx.outer = []) (env : Sem.Env) :
    ∀ (e : Card), isExpr e = true → ∀ (fuel : Nat) (σ σ' : Sem.St) (env' : Sem.Env) (v : Val),
      Sem.eval cx fuel env σ e = (σ', env', .ok v) →
      (∀ (i : Nat) (v : Val), σ.cells[i]? = some v → Scalar v) →
      (∀ (n : String) (v : Val), glookup σ.globals n = some v → Scalar v) → Scalar v
  | .scalarInt i => by
    intro _ fuel σ σ' env' v hev _ _
    cases fuel with
    | zero => rw [eval_zero] at hev; cases hev
    | succ f => rw [eval_scalarInt] at hev; cases hev; trivial
  | .scalarFloat b => by
    intro _ fuel σ σ' env' v hev _ _
    cases fuel with
    | zero => rw [eval_zero] at hev; cases hev
    | succ f => rw [eval_scalarFloat] at hev; cases hev; trivial
  | .scalarNil => by
    intro _ fuel σ σ' env' v hev _ _
    cases fuel with
    | zero => rw [eval_zero] at hev; cases hev
    | succ f => rw [eval_scalarNil] at hev; cases hev; trivial
  | .un .not c => by
    intro _ fuel σ σ' env' v hev _ _
    cases fuel with
    | zero => rw [eval_zero] at hev; cases hev
    | succ f =>
      rw [eval_not] at hev
      rcases hc : Sem.eval cx f env σ c with ⟨σ1, env1, r1⟩
      rw [hc] at hev
      cases r1 <;> simp only [Prod.mk.injEq, Sem.Res.ok.injEq] at hev <;> try (obtain ⟨_, _, h⟩ := hev; cases h)
      trivial
  | .bin k a b => by
    intro he fuel σ σ' env' v hev _ _
    simp only [isExpr, Bool.and_eq_true] at he
    cases fuel with
    | zero => rw [eval_zero] at hev; cases hev
    | succ f =>
      rw [eval_bin _ _ _ _ k he.1.1] at hev
      rcases hca : Sem.eval cx f env σ a with ⟨σ1, env1, r1⟩
      rw [hca] at hev
      cases r1 <;> simp only [Prod.mk.injEq] at hev <;> try (obtain ⟨_, _, h⟩ := hev; cases h)
      rcases hcb : Sem.eval cx f env1 σ1 b with ⟨σ2, env2, r2⟩
      rw [hcb] at hev
      cases r2 <;> simp only [Prod.mk.injEq, Sem.Res.ok.injEq] at hev <;> try (obtain ⟨_, _, h⟩ := hev; cases h)
      exact scalar_binVal _ _ _
  | .readVar n => by
    intro he fuel σ σ' env' v hev hcs hgs
    simp only [isExpr] at he
    cases fuel with
    | zero => rw [eval_zero] at hev; cases hev
    | succ f =>
      rw [eval_readVar, readVar_env hout he] at hev
      rcases hli : Sem.lookupEnv env n with _ | c
      · rw [hli] at hev
        simp only at hev
        rcases hl : glookup σ.globals n with _ | x
        · rw [hl] at hev; simp only [Prod.mk.injEq] at hev; obtain ⟨_, _, h⟩ := hev; cases h
        · rw [hl] at hev
          simp only [Prod.mk.injEq, Sem.Res.ok.injEq] at hev
          obtain ⟨_, _, rfl⟩ := hev
          exact hgs n x hl
      · rw [hli] at hev
        simp only [Prod.mk.injEq, Sem.Res.ok.injEq] at hev
        obtain ⟨_, _, rfl⟩ := hev
        rcases hc : σ.cells[c]? with _ | v
        · trivial
        · exact hcs c v hc
  | .un .ret _ | .un .len _ | .un .popTable _ | .tri _ _ _ _ | .createTable | .abort | .stringLiteral _
  | .comment _ | .function _ | .nativeFunction _ | .setVar _ _ | .setGlobalVar _ _ | .callNative _ _
  | .call _ _ | .repeat _ _ _ | .forEach _ _ _ _ _ | .composite _ _ | .dynamicCall _ _ | .array _
  | .closure _ _ => by
    intro he
    simp [isExpr] at he

mutual
theorem scodeS_le {B : Array UInt8} {F : List (UInt32 × Nat)} {d : Int} {L : LCtx} :
    ∀ {c : Card} {pc pc' : Nat}, isStmtS d L c = true → SCodeS B F d L c pc pc' → pc ≤ pc'
  | .setGlobalVar _ e, _, _, _, h => by
    simp only [SCodeS] at h
    obtain ⟨m, id, h1, _, _, _, rfl⟩ := h
    have := ecodeL_lt h1; omega
  | .setVar _ e, _, _, _, h => by
    simp only [SCodeS] at h
    obtain ⟨m, i, _, h1, _, _, rfl⟩ := h
    have := ecodeL_lt h1; omega
  | .bin .ifTrue c b, _, _, hs, h => by
    simp only [SCodeS] at h
    simp only [isStmtS, Bool.and_eq_true] at hs
    obtain ⟨m, h1, _, _, h2⟩ := h
    have := ecodeL_lt h1; have := scodeS_le hs.2 h2; omega
  | .bin .ifFalse c b, _, _, hs, h => by
    simp only [SCodeS] at h
    simp only [isStmtS, Bool.and_eq_true] at hs
    obtain ⟨m, h1, _, _, h2⟩ := h
    have := ecodeL_lt h1; have := scodeS_le hs.2 h2; omega
  | .bin .while c (.composite _ cs), _, _, hs, h => by
    simp only [SCodeS] at h
    simp only [isStmtS, Bool.and_eq_true] at hs
    obtain ⟨m1, m2, h1, _, _, h2, _, _, _, rfl⟩ := h
    have := ecodeL_lt h1; have := bcodes_le hs.2 h2; omega
  | .tri .ifElse c t e, _, _, hs, h => by
    simp only [SCodeS] at h
    simp only [isStmtS, Bool.and_eq_true] at hs
    obtain ⟨m1, m2, h1, _, _, h2, _, _, h3⟩ := h
    have := ecodeL_lt h1; have := scodeS_le hs.1.2 h2; have := scodeS_le hs.2 h3; omega
  | .composite _ cs, _, _, hs, h => by
    simp only [SCodeS] at h
    simp only [isStmtS] at hs
    exact scodesS_le hs h
  | .comment _, _, _, _, h => by simp only [SCodeS] at h; omega
  | .bin .while _ (.bin _ _ _), _, _, hs, _ | .bin .while _ (.un _ _), _, _, hs, _ | .bin .while _ (.tri _ _ _ _), _, _, hs, _
  | .bin .while _ .scalarNil, _, _, hs, _ | .bin .while _ .createTable, _, _, hs, _ | .bin .while _ .abort, _, _, hs, _
  | .bin .while _ (.scalarInt _), _, _, hs, _ | .bin .while _ (.scalarFloat _), _, _, hs, _
  | .bin .while _ (.stringLiteral _), _, _, hs, _ | .bin .while _ (.comment _), _, _, hs, _
  | .bin .while _ (.function _), _, _, hs, _ | .bin .while _ (.nativeFunction _), _, _, hs, _
  | .bin .while _ (.readVar _), _, _, hs, _ | .bin .while _ (.setVar _ _), _, _, hs, _
  | .bin .while _ (.setGlobalVar _ _), _, _, hs, _ | .bin .while _ (.callNative _ _), _, _, hs, _
  | .bin .while _ (.call _ _), _, _, hs, _ | .bin .while _ (.repeat _ _ _), _, _, hs, _
  | .bin .while _ (.forEach _ _ _ _ _), _, _, hs, _ | .bin .while _ (.dynamicCall _ _), _, _, hs, _
  | .bin .while _ (.array _), _, _, hs, _ | .bin .while _ (.closure _ _), _, _, hs, _
  | .bin .add _ _, _, _, hs, _ | .bin .sub _ _, _, _, hs, _ | .bin .mul _ _, _, _, hs, _ | .bin .div _ _, _, _, hs, _
  | .bin .less _ _, _, _, hs, _ | .bin .lessOrEq _ _, _, _, hs, _
  | .bin .equals _ _, _, _, hs, _ | .bin .notEquals _ _, _, _, hs, _ | .bin .and _ _, _, _, hs, _
  | .bin .or _ _, _, _, hs, _ | .bin .xor _ _, _, _, hs, _
  | .bin .getProperty _ _, _, _, hs, _ | .bin .get _ _, _, _, hs, _ | .bin .appendTable _ _, _, _, hs, _
  | .un _ _, _, _, hs, _ | .tri .setProperty _ _ _, _, _, hs, _ | .scalarNil, _, _, hs, _ | .createTable, _, _, hs, _
  | .abort, _, _, hs, _ | .scalarInt _, _, _, hs, _ | .scalarFloat _, _, _, hs, _
  | .stringLiteral _, _, _, hs, _ | .function _, _, _, hs, _ | .nativeFunction _, _, _, hs, _
  | .readVar _, _, _, hs, _ | .callNative _ _, _, _, hs, _
  | .call _ _, _, _, hs, _ | .repeat _ _ _, _, _, hs, _ | .forEach _ _ _ _ _, _, _, hs, _
  | .dynamicCall _ _, _, _, hs, _ | .array _, _, _, hs, _ | .closure _ _, _, _, hs, _ => by
    simp [isStmtS] at hs
theorem scodesS_le {B : Array UInt8} {F : List (UInt32 × Nat)} {d : Int} {L : LCtx} :
    ∀ {cs : List Card} {pc pc' : Nat}, isStmtsS d L cs = true → SCodesS B F d L cs pc pc' → pc ≤ pc'
  | [], _, _, _, h => by simp only [SCodesS] at h; omega
  | c :: cs, _, _, hs, h => by
    simp only [SCodesS] at h
    simp only [isStmtsS, Bool.and_eq_true] at hs
    obtain ⟨m, h1, h2⟩ := h
    have := scodeS_le hs.1 h1; have := scodesS_le hs.2 h2; omega
theorem bcodes_le {B : Array UInt8} {F : List (UInt32 × Nat)} {d : Int} :
    ∀ {cs : List Card} {L : LCtx} {pc pc' : Nat}, isBlock d L cs = true → BCodes B F d L cs pc pc' → pc ≤ pc'
  | [], _, _, _, _, h => by simp only [BCodes] at h; omega
  | c :: cs, L, _, _, hs, h => by
    simp only [BCodes] at h
    simp only [isBlock] at hs
    rcases hdecl : declOf L c with _ | ⟨n, e⟩
    · simp only [hdecl, Bool.and_eq_true] at hs h
      obtain ⟨m, h1, h2⟩ := h
      have := scodeS_le hs.1 h1; have := bcodes_le hs.2 h2; omega
    · simp only [hdecl, Bool.and_eq_true] at hs h
      obtain ⟨m, h1, _, _, h2⟩ := h
      have := ecodeL_lt h1; have := bcodes_le hs.2 h2; omega
end

mutual
  /-- stack slots needed above the slots that exist when the card starts -/
  def sdepthS : Card → Nat
    | .setGlobalVar _ e => edepth e
    | .setVar _ e => edepth e
    | .bin .while c (.composite _ cs) => max (edepth c) (bdepthS cs)
    | .bin _ c b => max (edepth c) (sdepthS b)
    | .tri _ c t e => max (edepth c) (max (sdepthS t) (sdepthS e))
    | .composite _ cs => sdepthsS cs
    | _ => 0
  def sdepthsS : List Card → Nat
    | [] => 0
    | c :: cs => max (sdepthS c) (sdepthsS cs)
  /-- the same for the cards of a block: every `SetVar` may add a slot -/
  def bdepthS : List Card → Nat
    | [] => 0
    | .setVar _ e :: cs => max (edepth e) (1 + bdepthS cs)
    | c :: cs => max (sdepthS c) (bdepthS cs)
end

section stmtsimS
variable (P : Prog) (F : List (UInt32 × Nat)) (N : String → Prop) (cx : Sem.Ctx)

/-- what the VM does for a piece of code `[pc, pc')`: from the slots `S` to the slots `S'` -/
def VmSimS (S : List Slot) (σ σ' : Sem.St) (S' : List Slot) (pc pc' : Nat) (depth : Nat) (lf : Bool) : Prop :=
  ∃ n, (lf = true → n ≤ pc' - pc) ∧
    ∀ (vs : VmState) (cap : Nat), StackIs vs.stack cap (baseOf S σ) → S.length + depth < cap →
      GRel F N σ.globals vs.globals → FrameOk vs →
      ∃ vs', Reach P n pc vs pc' vs' ∧ StackIs vs'.stack cap (baseOf S' σ') ∧ SameRest vs vs' ∧
        GRel F N σ'.globals vs'.globals

def CardSimS (f : Nat) (d : Int) (c : Card) (S : List Slot) (env : Sem.Env) : Prop :=
  isStmtS d (ctxOf S) c = true → LookRel env S → ∀ (σ σ' : Sem.St) (env' : Sem.Env) (pc pc' : Nat),
    Sem.exec cx f env σ c = (σ', env', .ok ()) → SCodeS P.bytecode F d (ctxOf S) c pc pc' →
    pc' ≤ P.bytecode.size → (∀ n ∈ snames c, N n) → SRel S σ →
      env = env' ∧ SemFrame σ σ' ∧ SRel S σ' ∧ VmSimS P F N S σ σ' S pc pc' (sdepthS c) (loopFree c)

def CardsSimS (f : Nat) (d : Int) (cs : List Card) (S : List Slot) (env : Sem.Env) : Prop :=
  isStmtsS d (ctxOf S) cs = true → LookRel env S → ∀ (σ σ' : Sem.St) (env' : Sem.Env) (pc pc' : Nat),
    Sem.execListWith (Sem.exec cx f) env σ cs = (σ', env', .ok ()) → SCodesS P.bytecode F d (ctxOf S) cs pc pc' →
    pc' ≤ P.bytecode.size → (∀ n ∈ snamess cs, N n) → SRel S σ →
      env = env' ∧ SemFrame σ σ' ∧ SRel S σ' ∧ VmSimS P F N S σ σ' S pc pc' (sdepthsS cs) (loopFrees cs)

/-- all statement cards, at every depth and for all slots -/
def StmtSimS (f : Nat) : Prop := ∀ (d : Int) (c : Card) (S : List Slot) (env : Sem.Env), CardSimS P F N cx f d c S env

/-- the cards of a block: new slots `new` on top of `S` -/
def BlockSimS (f : Nat) (d : Int) (cs : List Card) (S : List Slot) (env : Sem.Env) : Prop :=
  isBlock d (ctxOf S) cs = true → LookRel env S → ∀ (σ σ' : Sem.St) (env' : Sem.Env) (pc pc' : Nat),
    Sem.execListWith (Sem.exec cx f) env σ cs = (σ', env', .ok ()) → BCodes P.bytecode F d (ctxOf S) cs pc pc' →
    pc' ≤ P.bytecode.size → (∀ n ∈ snamess cs, N n) → SRel S σ →
      ∃ new, ctxOf (S ++ new) = blockCtx d (ctxOf S) cs ∧ LookRel env' (S ++ new) ∧ SemFrame σ σ' ∧
        SRel (S ++ new) σ' ∧ VmSimS P F N S σ σ' (S ++ new) pc pc' (bdepthS cs) (loopFrees cs)

variable {P F N cx}

theorem stmts_simS {f : Nat} (ih : StmtSimS P F N cx f) (d : Int) (S : List Slot) (env : Sem.Env) :
    ∀ cs, CardsSimS P F N cx f d cs S env
  | [] => by
    intro _ henv σ σ' env' pc pc' hex hcode _ _ hlr
    simp only [Sem.execListWith, Prod.mk.injEq] at hex
    obtain ⟨rfl, rfl, _⟩ := hex
    simp only [SCodesS] at hcode
    subst hcode
    exact ⟨rfl, SemFrame.refl _, hlr, 0, fun _ => Nat.zero_le _, fun vs cap hst _ hg _ =>
      ⟨vs, Reach.refl _ _, hst, SameRest.refl _, hg⟩⟩
  | c :: cs => by
    intro hs henv σ σ' env' pc pc' hex hcode hsz hN hlr
    simp only [isStmtsS, Bool.and_eq_true] at hs
    simp only [SCodesS] at hcode
    obtain ⟨m, hc1, hc2⟩ := hcode
    simp only [snamess, List.mem_append] at hN
    have hle2 := scodesS_le hs.2 hc2
    have hle1 := scodeS_le hs.1 hc1
    simp only [Sem.execListWith] at hex
    rcases hc : Sem.exec cx f env σ c with ⟨σ1, env1, r1⟩
    rw [hc] at hex
    cases r1 with
    | ok u =>
      cases u
      simp only at hex
      obtain ⟨rfl, e1, hlr1, n1, hn1, hsim1⟩ :=
        ih d c S env hs.1 henv σ σ1 env1 pc m hc hc1 (by omega) (fun n hn => hN n (Or.inl hn)) hlr
      obtain ⟨rfl, e2, hlr2, n2, hn2, hsim2⟩ :=
        stmts_simS ih d S env cs hs.2 henv σ1 σ' env' m pc' hex hc2 hsz (fun n hn => hN n (Or.inr hn)) hlr1
      refine ⟨rfl, e1.trans e2, hlr2, n1 + n2, ?_, fun vs cap hst hd hg hfr => ?_⟩
      · intro hl
        simp only [loopFrees, Bool.and_eq_true] at hl
        have := hn1 hl.1; have := hn2 hl.2; omega
      · simp only [sdepthsS] at hd
        obtain ⟨vs1, hr1, hst1, hsame1, hg1⟩ := hsim1 vs cap hst (by omega) hg hfr
        obtain ⟨vs2, hr2, hst2, hsame2, hg2⟩ := hsim2 vs1 cap hst1 (by omega) hg1 (hsame1.frameOk hfr)
        exact ⟨vs2, hr1.trans hr2 rfl, hst2, hsame1.trans hsame2, hg2⟩
    | outOfFuel | ret _ | exit | err _ | unspecified _ =>
      simp only [Prod.mk.injEq] at hex
      obtain ⟨_, _, h⟩ := hex
      cases h


variable (hout : cx.outer = []) (hFinj : FInj F) (hNinj : HInj N)
include hout hFinj hNinj

theorem simS_setGlobal (f : Nat) (d : Int) (S : List Slot) (env : Sem.Env) (n : String) (e : Card) :
    CardSimS P F N cx (f + 1) d (.setGlobalVar n e) S env := by
  intro hs henv σ σ' env' pc pc' hex hcode hsz hN hlr
  simp only [isStmtS, Bool.and_eq_true, Bool.not_eq_true'] at hs
  obtain ⟨hne, he⟩ := hs
  rw [exec_setGlobal] at hex
  simp only [SCodeS] at hcode
  obtain ⟨m, id, hc1, hop, hid, hrd, rfl⟩ := hcode
  rcases hc : Sem.eval cx f env σ e with ⟨σ1, env1, r1⟩
  rw [hc] at hex
  cases r1 with
  | ok x =>
    simp only [hne, Bool.false_eq_true, if_false, Prod.mk.injEq, and_true] at hex
    obtain ⟨rfl, rfl⟩ := hex
    have hsx0 := eval_scalarS hout env e he f σ σ1 env1 x hc hlr.scalar hlr.gscalar
    obtain ⟨rfl, rfl, n1, hn1, hsim1⟩ := eval_simS hout S env henv e he f σ σ1 env1 x pc m hc hc1 (by omega)
    have hlt := ecodeL_lt hc1
    refine ⟨rfl, rfl, ⟨hlr.lt, hlr.inj, hlr.scalar, fun n' v hl => ?_, hlr.hscalar⟩, n1 + 1, fun _ => by omega,
      fun vs cap hst hd hg hfr => ?_⟩
    · rw [glookup_gupd] at hl
      by_cases hnn : n' = n
      · rw [if_pos hnn] at hl; cases hl; exact hsx0
      · rw [if_neg hnn] at hl; exact hlr.gscalar n' v hl
    simp only [sdepthS] at hd
    obtain ⟨hsx, vs1, hr1, hst1, hsame1, hg1⟩ := hsim1 vs cap _ hst (by simp only [baseOf_length]; omega) hg hfr hlr ⟨[], rfl⟩
    obtain ⟨vs2, hr2, hst2, hsame2, hg2⟩ := reach_setGlobal (P := P) (ip := m) (by omega) hop hrd hst1
    refine ⟨vs2, hr1.trans hr2 rfl, hst2, hsame1.trans hsame2, ?_⟩
    rw [hg2, hg1]
    exact hg.set hFinj hNinj (hN n (by simp [snames])) hsx hid
  | outOfFuel | ret _ | exit | err _ | unspecified _ =>
    simp only [Prod.mk.injEq] at hex
    obtain ⟨_, _, h⟩ := hex
    cases h

omit hFinj hNinj in
theorem simS_ifTrue (f : Nat) (ih : StmtSimS P F N cx f) (d : Int) (S : List Slot) (env : Sem.Env) (c b : Card) :
    CardSimS P F N cx (f + 1) d (.bin .ifTrue c b) S env := by
  intro hs henv σ σ' env' pc pc' hex hcode hsz hN hlr
  simp only [isStmtS, Bool.and_eq_true] at hs
  obtain ⟨hec, hsb⟩ := hs
  rw [exec_ifTrue] at hex
  simp only [SCodeS] at hcode
  obtain ⟨m, hc1, hop, hrd, hc2⟩ := hcode
  have hlt := ecodeL_lt hc1
  have hle := scodeS_le hsb hc2
  rcases hc : Sem.eval cx f env σ c with ⟨σ1, env1, r1⟩
  rw [hc] at hex
  cases r1 with
  | ok x =>
    simp only at hex
    obtain ⟨rfl, rfl, n1, hn1, hsim1⟩ := eval_simS hout S env henv c hec f σ σ1 env1 x pc m hc hc1 (by omega)
    by_cases ht : Sem.truthy σ1 x = true
    · rw [if_pos ht] at hex
      obtain ⟨rfl, e2, hlr2, n3, hn3, hsim3⟩ :=
        ih d b S env hsb henv σ1 σ' env' (m + 5) pc' hex hc2 hsz (fun n hn => hN n (by simpa [snames] using hn)) hlr
      refine ⟨rfl, e2, hlr2, n1 + 1 + n3, ?_, fun vs cap hst hd hg hfr => ?_⟩
      · intro hl
        have := hn3 (by simpa [loopFree] using hl)
        omega
      · simp only [sdepthS] at hd
        obtain ⟨hsx, vs1, hr1, hst1, hsame1, hg1⟩ := hsim1 vs cap _ hst (by simp only [baseOf_length]; omega) hg hfr hlr ⟨[], rfl⟩
        obtain ⟨vs2, hr2, hst2, hsame2, hg2⟩ := reach_gotoIfFalse (P := P) (ip := m) (by omega) hop hst1
        rw [truthy_eq hsx vs1.heap σ1, if_pos ht] at hr2
        obtain ⟨vs3, hr3, hst3, hsame3, hg3⟩ := hsim3 vs2 cap hst2 (by omega) (by rw [hg2, hg1]; exact hg) ((hsame1.trans hsame2).frameOk hfr)
        exact ⟨vs3, (hr1.trans hr2 rfl).trans hr3 rfl, hst3, (hsame1.trans hsame2).trans hsame3, hg3⟩
    · rw [if_neg ht] at hex
      simp only [Prod.mk.injEq, and_true] at hex
      obtain ⟨rfl, rfl⟩ := hex
      refine ⟨rfl, SemFrame.refl _, hlr, n1 + 1, fun _ => by omega, fun vs cap hst hd hg hfr => ?_⟩
      simp only [sdepthS] at hd
      obtain ⟨hsx, vs1, hr1, hst1, hsame1, hg1⟩ := hsim1 vs cap _ hst (by simp only [baseOf_length]; omega) hg hfr hlr ⟨[], rfl⟩
      obtain ⟨vs2, hr2, hst2, hsame2, hg2⟩ := reach_gotoIfFalse (P := P) (ip := m) (by omega) hop hst1
      rw [truthy_eq hsx vs1.heap σ1, if_neg ht, hrd] at hr2
      exact ⟨vs2, hr1.trans hr2 rfl, hst2, hsame1.trans hsame2, by rw [hg2, hg1]; exact hg⟩
  | outOfFuel | ret _ | exit | err _ | unspecified _ =>
    simp only [Prod.mk.injEq] at hex
    obtain ⟨_, _, h⟩ := hex
    cases h

omit hFinj hNinj in
theorem simS_ifFalse (f : Nat) (ih : StmtSimS P F N cx f) (d : Int) (S : List Slot) (env : Sem.Env) (c b : Card) :
    CardSimS P F N cx (f + 1) d (.bin .ifFalse c b) S env := by
  intro hs henv σ σ' env' pc pc' hex hcode hsz hN hlr
  simp only [isStmtS, Bool.and_eq_true] at hs
  obtain ⟨hec, hsb⟩ := hs
  rw [exec_ifFalse] at hex
  simp only [SCodeS] at hcode
  obtain ⟨m, hc1, hop, hrd, hc2⟩ := hcode
  have hlt := ecodeL_lt hc1
  have hle := scodeS_le hsb hc2
  rcases hc : Sem.eval cx f env σ c with ⟨σ1, env1, r1⟩
  rw [hc] at hex
  cases r1 with
  | ok x =>
    simp only at hex
    obtain ⟨rfl, rfl, n1, hn1, hsim1⟩ := eval_simS hout S env henv c hec f σ σ1 env1 x pc m hc hc1 (by omega)
    by_cases ht : Sem.truthy σ1 x = true
    · rw [if_pos ht] at hex
      simp only [Prod.mk.injEq, and_true] at hex
      obtain ⟨rfl, rfl⟩ := hex
      refine ⟨rfl, SemFrame.refl _, hlr, n1 + 1, fun _ => by omega, fun vs cap hst hd hg hfr => ?_⟩
      simp only [sdepthS] at hd
      obtain ⟨hsx, vs1, hr1, hst1, hsame1, hg1⟩ := hsim1 vs cap _ hst (by simp only [baseOf_length]; omega) hg hfr hlr ⟨[], rfl⟩
      obtain ⟨vs2, hr2, hst2, hsame2, hg2⟩ := reach_gotoIfTrue (P := P) (ip := m) (by omega) hop hst1
      rw [truthy_eq hsx vs1.heap σ1, if_pos ht, hrd] at hr2
      exact ⟨vs2, hr1.trans hr2 rfl, hst2, hsame1.trans hsame2, by rw [hg2, hg1]; exact hg⟩
    · rw [if_neg ht] at hex
      obtain ⟨rfl, e2, hlr2, n3, hn3, hsim3⟩ :=
        ih d b S env hsb henv σ1 σ' env' (m + 5) pc' hex hc2 hsz (fun n hn => hN n (by simpa [snames] using hn)) hlr
      refine ⟨rfl, e2, hlr2, n1 + 1 + n3, ?_, fun vs cap hst hd hg hfr => ?_⟩
      · intro hl
        have := hn3 (by simpa [loopFree] using hl)
        omega
      · simp only [sdepthS] at hd
        obtain ⟨hsx, vs1, hr1, hst1, hsame1, hg1⟩ := hsim1 vs cap _ hst (by simp only [baseOf_length]; omega) hg hfr hlr ⟨[], rfl⟩
        obtain ⟨vs2, hr2, hst2, hsame2, hg2⟩ := reach_gotoIfTrue (P := P) (ip := m) (by omega) hop hst1
        rw [truthy_eq hsx vs1.heap σ1, if_neg ht] at hr2
        obtain ⟨vs3, hr3, hst3, hsame3, hg3⟩ := hsim3 vs2 cap hst2 (by omega) (by rw [hg2, hg1]; exact hg) ((hsame1.trans hsame2).frameOk hfr)
        exact ⟨vs3, (hr1.trans hr2 rfl).trans hr3 rfl, hst3, (hsame1.trans hsame2).trans hsame3, hg3⟩
  | outOfFuel | ret _ | exit | err _ | unspecified _ =>
    simp only [Prod.mk.injEq] at hex
    obtain ⟨_, _, h⟩ := hex
    cases h

omit hFinj hNinj in
theorem simS_ifElse (f : Nat) (ih : StmtSimS P F N cx f) (d : Int) (S : List Slot) (env : Sem.Env) (c t e : Card) :
    CardSimS P F N cx (f + 1) d (.tri .ifElse c t e) S env := by
  intro hs henv σ σ' env' pc pc' hex hcode hsz hN hlr
  simp only [isStmtS, Bool.and_eq_true] at hs
  obtain ⟨⟨hec, hst_⟩, hse⟩ := hs
  rw [exec_ifElse] at hex
  simp only [SCodeS] at hcode
  obtain ⟨m1, m2, hc1, hop1, hrd1, hc2, hop2, hrd2, hc3⟩ := hcode
  have hlt := ecodeL_lt hc1
  have hle2 := scodeS_le hst_ hc2
  have hle3 := scodeS_le hse hc3
  rcases hc : Sem.eval cx f env σ c with ⟨σ1, env1, r1⟩
  rw [hc] at hex
  cases r1 with
  | ok x =>
    simp only at hex
    obtain ⟨rfl, rfl, n1, hn1, hsim1⟩ := eval_simS hout S env henv c hec f σ σ1 env1 x pc m1 hc hc1 (by omega)
    by_cases ht : Sem.truthy σ1 x = true
    · rw [if_pos ht] at hex
      obtain ⟨rfl, e2, hlr2, n3, hn3, hsim3⟩ :=
        ih d t S env hst_ henv σ1 σ' env' (m1 + 5) m2 hex hc2 (by omega)
          (fun n hn => hN n (by simp only [snames, List.mem_append]; exact Or.inl hn)) hlr
      refine ⟨rfl, e2, hlr2, n1 + 1 + n3 + 1, ?_, fun vs cap hst hd hg hfr => ?_⟩
      · intro hl
        simp only [loopFree, Bool.and_eq_true] at hl
        have := hn3 hl.1
        omega
      · simp only [sdepthS] at hd
        obtain ⟨hsx, vs1, hr1, hst1, hsame1, hg1⟩ := hsim1 vs cap _ hst (by simp only [baseOf_length]; omega) hg hfr hlr ⟨[], rfl⟩
        obtain ⟨vs2, hr2, hst2, hsame2, hg2⟩ := reach_gotoIfFalse (P := P) (ip := m1) (by omega) hop1 hst1
        rw [truthy_eq hsx vs1.heap σ1, if_pos ht] at hr2
        obtain ⟨vs3, hr3, hst3, hsame3, hg3⟩ := hsim3 vs2 cap hst2 (by omega) (by rw [hg2, hg1]; exact hg) ((hsame1.trans hsame2).frameOk hfr)
        obtain ⟨vs4, hr4, hst4, hsame4, hg4⟩ := reach_goto (P := P) (ip := m2) (vs := vs3) (by omega) hop2
        rw [hrd2] at hr4
        exact ⟨vs4, ((hr1.trans hr2 rfl).trans hr3 rfl).trans hr4 rfl, by rw [hst4]; exact hst3,
          ((hsame1.trans hsame2).trans hsame3).trans hsame4, by rw [hg4]; exact hg3⟩
    · rw [if_neg ht] at hex
      obtain ⟨rfl, e2, hlr2, n3, hn3, hsim3⟩ :=
        ih d e S env hse henv σ1 σ' env' (m2 + 5) pc' hex hc3 hsz
          (fun n hn => hN n (by simp only [snames, List.mem_append]; exact Or.inr hn)) hlr
      refine ⟨rfl, e2, hlr2, n1 + 1 + n3, ?_, fun vs cap hst hd hg hfr => ?_⟩
      · intro hl
        simp only [loopFree, Bool.and_eq_true] at hl
        have := hn3 hl.2
        omega
      · simp only [sdepthS] at hd
        obtain ⟨hsx, vs1, hr1, hst1, hsame1, hg1⟩ := hsim1 vs cap _ hst (by simp only [baseOf_length]; omega) hg hfr hlr ⟨[], rfl⟩
        obtain ⟨vs2, hr2, hst2, hsame2, hg2⟩ := reach_gotoIfFalse (P := P) (ip := m1) (by omega) hop1 hst1
        rw [truthy_eq hsx vs1.heap σ1, if_neg ht, hrd1] at hr2
        obtain ⟨vs3, hr3, hst3, hsame3, hg3⟩ := hsim3 vs2 cap hst2 (by omega) (by rw [hg2, hg1]; exact hg) ((hsame1.trans hsame2).frameOk hfr)
        exact ⟨vs3, (hr1.trans hr2 rfl).trans hr3 rfl, hst3, (hsame1.trans hsame2).trans hsame3, hg3⟩
  | outOfFuel | ret _ | exit | err _ | unspecified _ =>
    simp only [Prod.mk.injEq] at hex
    obtain ⟨_, _, h⟩ := hex
    cases h


omit hFinj hNinj in
theorem simS_setVar (f : Nat) (d : Int) (S : List Slot) (env : Sem.Env) (n : String) (e : Card) :
    CardSimS P F N cx (f + 1) d (.setVar n e) S env := by
  intro hs henv σ σ' env' pc pc' hex hcode hsz hN hlr
  simp only [isStmtS, Bool.and_eq_true] at hs
  obtain ⟨⟨hn, hsome⟩, he⟩ := hs
  have hne : n.isEmpty = false := by
    simp only [simpleName, Bool.and_eq_true, Bool.not_eq_true'] at hn; exact hn.2
  rw [exec_setVar cx hout f _ σ e hn] at hex
  simp only [SCodeS] at hcode
  obtain ⟨m, i, hli, hc1, hop, hrd, rfl⟩ := hcode
  obtain ⟨dd, c, hsj⟩ := slot_of_lidx hli hne
  rcases hc : Sem.eval cx f env σ e with ⟨σ1, env1, r1⟩
  rw [hc] at hex
  cases r1 with
  | ok x =>
    have hsx0 := eval_scalarS hout env e he f σ σ1 env1 x hc hlr.scalar hlr.gscalar
    obtain ⟨rfl, rfl, n1, hn1, hsim1⟩ := eval_simS hout S env henv e he f σ σ1 env1 x pc m hc hc1 (by omega)
    simp only [henv n hne, hli, Option.bind_some, hsj, Slot.cell, Prod.mk.injEq, and_true] at hex
    obtain ⟨rfl, rfl⟩ := hex
    have hlt := ecodeL_lt hc1
    have hi : i < S.length := by have := lidx_lt hli; simpa [ctxOf] using this
    obtain ⟨hlr', hbase'⟩ := hlr.assign hsj hsx0
    refine ⟨rfl, rfl, hlr', n1 + 1, fun _ => by omega, fun vs cap hst hd hg hfr => ?_⟩
    simp only [sdepthS] at hd
    obtain ⟨hsx, vs1, hr1, hst1, hsame1, hg1⟩ := hsim1 vs cap _ hst (by simp only [baseOf_length]; omega) hg hfr hlr ⟨[], rfl⟩
    obtain ⟨vs2, hr2, hst2, hsame2, hg2⟩ := reach_setLocal_old (P := P) (ip := m) (by omega) hop hrd
      (hsame1.frameOk hfr) hst1 (by rw [baseOf_length]; exact hi)
    refine ⟨vs2, hr1.trans hr2 rfl, ?_, hsame1.trans hsame2, by rw [hg2, hg1]; exact hg⟩
    rw [hbase']
    exact hst2
  | outOfFuel | ret _ | exit | err _ | unspecified _ =>
    simp only [Prod.mk.injEq] at hex
    obtain ⟨_, _, h⟩ := hex
    cases h

omit hout hFinj hNinj in
theorem reach_popsN {cap : Nat} : ∀ (top rest : List Val) (pc : Nat) (vs : VmState),
    (∀ j, j < top.length → P.bytecode.getD (pc + j) 0 = Compiler.op.pop) → pc + top.length ≤ P.bytecode.size →
    StackIs vs.stack cap (top ++ rest) →
    ∃ vs', Reach P top.length pc vs (pc + top.length) vs' ∧ StackIs vs'.stack cap rest ∧ SameRest vs vs' ∧
      vs'.globals = vs.globals
  | [], rest, pc, vs, _, _, hst => ⟨vs, Reach.refl _ _, hst, SameRest.refl _, rfl⟩
  | x :: l, rest, pc, vs, hpop, hsz, hst => by
    simp only [List.length_cons] at hpop hsz ⊢
    obtain ⟨vs1, hr1, hst1, hsame1, hg1⟩ := reach_pop (P := P) (ip := pc) (by omega)
      (by have := hpop 0 (by omega); simpa using this) hst
    obtain ⟨vs2, hr2, hst2, hsame2, hg2⟩ := reach_popsN l rest (pc + 1) vs1
      (fun j hj => by have := hpop (j + 1) (by omega); rw [← this]; congr 1; omega) (by omega) hst1
    refine ⟨vs2, ?_, hst2, hsame1.trans hsame2, hg2.trans hg1⟩
    have := hr1.trans hr2 (Nat.add_comm _ _)
    rw [show pc + (l.length + 1) = pc + 1 + l.length by omega]
    exact this

omit hout hFinj hNinj in
theorem bdepthS_ge (c : Card) (cs : List Card) : max (sdepthS c) (bdepthS cs) ≤ bdepthS (c :: cs) := by
  cases c <;> simp only [bdepthS, sdepthS] <;> omega

omit hFinj hNinj in
theorem block_simS {f : Nat} (ih : StmtSimS P F N cx f) (d : Int) :
    ∀ (cs : List Card) (S : List Slot) (env : Sem.Env), BlockSimS P F N cx f d cs S env
  | [], S, env => by
    intro _ henv σ σ' env' pc pc' hex hcode _ _ hlr
    simp only [Sem.execListWith, Prod.mk.injEq] at hex
    obtain ⟨rfl, rfl, _⟩ := hex
    simp only [BCodes] at hcode
    subst hcode
    refine ⟨[], by simp [blockCtx], by simpa using henv, SemFrame.refl _, by simpa using hlr, 0,
      fun _ => Nat.zero_le _, fun vs cap hst _ hg _ => ⟨vs, Reach.refl _ _, by simpa using hst, SameRest.refl _, hg⟩⟩
  | c :: cs, S, env => by
    intro hs henv σ σ' env' pc pc' hex hcode hsz hN hlr
    simp only [isBlock] at hs
    simp only [BCodes] at hcode
    simp only [snamess, List.mem_append] at hN
    simp only [blockCtx]
    simp only [Sem.execListWith] at hex
    rcases hc : Sem.exec cx f env σ c with ⟨σ1, env1, r1⟩
    rw [hc] at hex
    cases r1 with
    | ok u =>
      cases u
      simp only at hex
      rcases hdecl : declOf (ctxOf S) c with _ | ⟨n, e⟩
      · simp only [hdecl, Bool.and_eq_true] at hs hcode ⊢
        obtain ⟨m, hc1, hc2⟩ := hcode
        have hle2 := bcodes_le hs.2 hc2
        obtain ⟨rfl, e1, hlr1, n1, hn1, hsim1⟩ :=
          ih d c S env hs.1 henv σ σ1 env1 pc m hc hc1 (by omega) (fun n hn => hN n (Or.inl hn)) hlr
        obtain ⟨new, hctx, hlook2, e2, hlr2, n2, hn2, hsim2⟩ :=
          block_simS ih d cs S env hs.2 henv σ1 σ' env' m pc' hex hc2 hsz (fun n hn => hN n (Or.inr hn)) hlr1
        refine ⟨new, hctx, hlook2, e1.trans e2, hlr2, n1 + n2, ?_, fun vs cap hst hd hg hfr => ?_⟩
        · intro hl
          simp only [loopFrees, Bool.and_eq_true] at hl
          have hle1 := scodeS_le hs.1 hc1
          have := hn1 hl.1; have := hn2 hl.2; omega
        · have hge := bdepthS_ge c cs
          obtain ⟨vs1, hr1, hst1, hsame1, hg1⟩ := hsim1 vs cap hst (by omega) hg hfr
          obtain ⟨vs2, hr2, hst2, hsame2, hg2⟩ := hsim2 vs1 cap hst1 (by omega) hg1 (hsame1.frameOk hfr)
          exact ⟨vs2, hr1.trans hr2 rfl, hst2, hsame1.trans hsame2, hg2⟩
      · simp only [hdecl, Bool.and_eq_true] at hs hcode ⊢
        obtain ⟨rfl, hnone⟩ := declOf_some hdecl
        obtain ⟨m, hc1, hop, hrd, hc2⟩ := hcode
        have hle2 := bcodes_le hs.2 hc2
        have hlt := ecodeL_lt hc1
        have hne : n.isEmpty = false := by
          have := hs.1.1
          simp only [simpleName, Bool.and_eq_true, Bool.not_eq_true'] at this; exact this.2
        cases f with
        | zero => rw [exec_zero] at hc; simp only [Prod.mk.injEq] at hc; obtain ⟨_, _, h⟩ := hc; cases h
        | succ f' =>
          rw [exec_setVar cx hout f' _ σ e hs.1.1] at hc
          rcases hce : Sem.eval cx f' env σ e with ⟨σe, enve, re⟩
          rw [hce] at hc
          cases re with
          | ok x =>
            have hsx0 := eval_scalarS hout env e hs.1.2 f' σ σe enve x hce hlr.scalar hlr.gscalar
            obtain ⟨rfl, rfl, n1, hn1, hsim1⟩ := eval_simS (P := P) (F := F) (N := N) hout S env henv e hs.1.2 f'
              σ σe enve x pc m hce hc1 (by omega)
            simp only [henv n hne, hnone, Option.bind_none] at hc
            have hc' : ((Sem.newCell σe x).1, declEnv env n (Sem.newCell σe x).2, Sem.Res.ok ()) =
                (σ1, env1, Sem.Res.ok ()) := by
              revert hc
              cases env <;> exact fun h => h
            simp only [Prod.mk.injEq, and_true] at hc'
            obtain ⟨rfl, rfl⟩ := hc'
            obtain ⟨hlr1, hbase1⟩ := hlr.decl n d hsx0
            have hlook1 := lookRel_decl henv n d σe.cells.size
            have hctx1 : ctxOf (S ++ [Slot.named n d σe.cells.size]) = ctxOf S ++ [(n, d)] := by
              simp [ctxOf, Slot.ctx]
            rw [← hctx1] at hs hc2
            obtain ⟨new, hctx, hlook2, e2, hlr2, n2, hn2, hsim2⟩ :=
              block_simS ih d cs (S ++ [Slot.named n d σe.cells.size]) _ hs.2 hlook1 _ σ' env' (m + 5) pc' hex hc2 hsz
                (fun n hn => hN n (Or.inr hn)) hlr1
            refine ⟨Slot.named n d σe.cells.size :: new, ?_, ?_, ?_, ?_, n1 + 1 + n2, ?_,
              fun vs cap hst hd hg hfr => ?_⟩
            · rw [← hctx1, ← hctx]; simp
            · simpa using hlook2
            · exact SemFrame.trans (show SemFrame σe (Sem.newCell σe x).1 from rfl) e2
            · simpa using hlr2
            · intro hl
              simp only [loopFrees, Bool.and_eq_true] at hl
              have := hn2 hl.2; omega
            · simp only [bdepthS] at hd
              have hpos := edepth_pos e
              obtain ⟨hsx, vs1, hr1, hst1, hsame1, hg1⟩ := hsim1 vs cap _ hst
                (by simp only [baseOf_length]; omega) hg hfr hlr ⟨[], rfl⟩
              obtain ⟨vs2, hr2, hst2, hsame2, hg2⟩ := reach_setLocal_new (P := P) (ip := m) (by omega) hop
                (by rw [baseOf_length, hrd]; simp [ctxOf]) (hsame1.frameOk hfr) hst1
                (by simp only [baseOf_length]; omega)
              rw [← hbase1] at hst2
              obtain ⟨vs3, hr3, hst3, hsame3, hg3⟩ := hsim2 vs2 cap hst2
                (by simp only [List.length_append, List.length_singleton]; omega)
                (by rw [hg2, hg1]; exact hg) ((hsame1.trans hsame2).frameOk hfr)
              refine ⟨vs3, (hr1.trans hr2 rfl).trans hr3 rfl, ?_, (hsame1.trans hsame2).trans hsame3, hg3⟩
              simpa using hst3
          | outOfFuel | ret _ | exit | err _ | unspecified _ =>
            simp only [Prod.mk.injEq] at hc
            obtain ⟨_, _, h⟩ := hc
            cases h
    | outOfFuel | ret _ | exit | err _ | unspecified _ =>
      simp only [Prod.mk.injEq] at hex
      obtain ⟨_, _, h⟩ := hex
      cases h

omit hFinj hNinj in
theorem simS_while (f : Nat) (ih : StmtSimS P F N cx f) (ihb : ∀ g, g + 1 = f → StmtSimS P F N cx g)
    (d : Int) (S : List Slot) (env : Sem.Env) (c : Card) (ty : String) (cs : List Card) :
    CardSimS P F N cx (f + 1) d (.bin .while c (.composite ty cs)) S env := by
  intro hs henv σ σ' env' pc pc' hex hcode hsz hN hlr
  have hs0 := hs
  have hcode0 := hcode
  simp only [isStmtS, Bool.and_eq_true] at hs
  obtain ⟨hec, hsb⟩ := hs
  rw [exec_while] at hex
  simp only [SCodeS] at hcode
  obtain ⟨m1, m2, hc1, hop1, hrd1, hc2, hpops, hop2, hrd2, hpc'⟩ := hcode
  have hlt := ecodeL_lt hc1
  have hle2 := bcodes_le hsb hc2
  rcases hc : Sem.eval cx f env σ c with ⟨σ1, env1, r1⟩
  rw [hc] at hex
  cases r1 with
  | ok x =>
    simp only at hex
    obtain ⟨rfl, rfl, n1, hn1, hsim1⟩ := eval_simS hout S env henv c hec f σ σ1 env1 x pc m1 hc hc1 (by omega)
    by_cases ht : Sem.truthy σ1 x = true
    · rw [if_pos ht] at hex
      rcases hb : Sem.exec cx f ([] :: env) σ1 (.composite ty cs) with ⟨σ2, env2, r2⟩
      rw [hb] at hex
      cases r2 with
      | ok u =>
        cases u
        simp only at hex
        cases f with
        | zero => rw [exec_zero] at hb; simp only [Prod.mk.injEq] at hb; obtain ⟨_, _, h⟩ := hb; cases h
        | succ g =>
          rw [exec_composite] at hb
          obtain ⟨new, hctx, _, e2, hlr2, n3, hn3, hsim3⟩ :=
            block_simS hout (ihb g rfl) (d + 1) cs S ([] :: env) hsb (lookRel_cons_nil henv) σ1 σ2 env2 (m1 + 5) m2 hb hc2
              (by omega) (fun n hn => hN n (by simpa [snames] using hn)) hlr
          have hk : (blockCtx (d + 1) (ctxOf S) cs).length - (ctxOf S).length = new.length := by
            rw [← hctx]; simp [ctxOf]
          rw [hk] at hpops hop2 hrd2 hpc'
          have hlr2' : SRel S σ2 := hlr2.pre
          obtain ⟨rfl, e5, hlr5, n5, hn5, hsim5⟩ :=
            ih d (.bin .while c (.composite ty cs)) S env hs0 henv σ2 σ' env' pc pc' hex hcode0 hsz hN hlr2'
          refine ⟨rfl, e2.trans e5, hlr5, n1 + 1 + n3 + new.length + 1 + n5, ?_, fun vs cap hst hd hg hfr => ?_⟩
          · intro hl
            simp [loopFree] at hl
          · have hd0 := hd
            simp only [sdepthS] at hd
            obtain ⟨hsx, vs1, hr1, hst1, hsame1, hg1⟩ := hsim1 vs cap _ hst (by simp only [baseOf_length]; omega) hg hfr hlr ⟨[], rfl⟩
            obtain ⟨vs2, hr2, hst2, hsame2, hg2⟩ := reach_gotoIfFalse (P := P) (ip := m1) (by omega) hop1 hst1
            rw [truthy_eq hsx vs1.heap σ1, if_pos ht] at hr2
            obtain ⟨vs3, hr3, hst3, hsame3, hg3⟩ := hsim3 vs2 cap hst2 (by omega) (by rw [hg2, hg1]; exact hg)
              ((hsame1.trans hsame2).frameOk hfr)
            rw [baseOf_append] at hst3
            obtain ⟨vs3', hr3', hst3', hsame3', hg3'⟩ := reach_popsN (P := P) (baseOf new σ2) (baseOf S σ2) m2 vs3
              (fun j hj => hpops j (by rw [baseOf_length] at hj; exact hj)) (by rw [baseOf_length]; omega) hst3
            rw [baseOf_length] at hr3'
            obtain ⟨vs4, hr4, hst4, hsame4, hg4⟩ := reach_goto (P := P) (ip := m2 + new.length) (vs := vs3') (by omega) hop2
            rw [hrd2] at hr4
            obtain ⟨vs5, hr5, hst5, hsame5, hg5⟩ := hsim5 vs4 cap (by rw [hst4]; exact hst3') hd0
              (by rw [hg4, hg3']; exact hg3)
              (((((hsame1.trans hsame2).trans hsame3).trans hsame3').trans hsame4).frameOk hfr)
            exact ⟨vs5, (((((hr1.trans hr2 rfl).trans hr3 rfl).trans hr3' rfl).trans hr4 rfl).trans hr5 rfl), hst5,
              ((((hsame1.trans hsame2).trans hsame3).trans hsame3').trans hsame4).trans hsame5, hg5⟩
      | outOfFuel | ret _ | exit | err _ | unspecified _ =>
        simp only [Prod.mk.injEq] at hex
        obtain ⟨_, _, h⟩ := hex
        cases h
    · rw [if_neg ht] at hex
      simp only [Prod.mk.injEq, and_true] at hex
      obtain ⟨rfl, rfl⟩ := hex
      refine ⟨rfl, SemFrame.refl _, hlr, n1 + 1, ?_, fun vs cap hst hd hg hfr => ?_⟩
      · intro hl
        simp [loopFree] at hl
      · simp only [sdepthS] at hd
        obtain ⟨hsx, vs1, hr1, hst1, hsame1, hg1⟩ := hsim1 vs cap _ hst (by simp only [baseOf_length]; omega) hg hfr hlr ⟨[], rfl⟩
        obtain ⟨vs2, hr2, hst2, hsame2, hg2⟩ := reach_gotoIfFalse (P := P) (ip := m1) (by omega) hop1 hst1
        rw [truthy_eq hsx vs1.heap σ1, if_neg ht, hrd1] at hr2
        exact ⟨vs2, hr1.trans hr2 rfl, hst2, hsame1.trans hsame2, by rw [hg2, hg1]; exact hg⟩
  | outOfFuel | ret _ | exit | err _ | unspecified _ =>
    simp only [Prod.mk.injEq] at hex
    obtain ⟨_, _, h⟩ := hex
    cases h

/-- the simulation of statement cards with scoped locals -/
theorem exec_simS : ∀ (f g : Nat), g ≤ f → StmtSimS P F N cx g := by
  intro f
  induction f with
  | zero =>
    intro g hg d c S env _ _ σ σ' env' pc pc' hex
    obtain rfl : g = 0 := by omega
    rw [exec_zero] at hex
    simp only [Prod.mk.injEq] at hex
    obtain ⟨_, _, h⟩ := hex
    cases h
  | succ f ih =>
    intro g hg
    rcases Nat.lt_or_ge g (f + 1) with hlt | hge
    · exact ih g (by omega)
    · obtain rfl : g = f + 1 := by omega
      have ihf := ih f (Nat.le_refl _)
      intro d c S env
      cases c with
      | setGlobalVar n e => exact simS_setGlobal hout hFinj hNinj f d S env n e
      | setVar n e => exact simS_setVar hout f d S env n e
      | comment t =>
        intro _ _ σ σ' env' pc pc' hex hcode _ _ hlr
        rw [exec_comment] at hex
        simp only [Prod.mk.injEq, and_true] at hex
        obtain ⟨rfl, rfl⟩ := hex
        simp only [SCodeS] at hcode
        subst hcode
        exact ⟨rfl, SemFrame.refl _, hlr, 0, fun _ => Nat.zero_le _, fun vs cap hst _ hg _ =>
          ⟨vs, Reach.refl _ _, hst, SameRest.refl _, hg⟩⟩
      | composite t cs =>
        intro hs henv σ σ' env' pc pc' hex hcode hsz hN hlr
        rw [exec_composite] at hex
        simp only [isStmtS] at hs
        simp only [SCodeS] at hcode
        simp only [snames] at hN
        have := stmts_simS ihf d S env cs hs henv σ σ' env' pc pc' hex hcode hsz hN hlr
        simpa only [loopFree, sdepthS] using this
      | tri k a b c =>
        cases k with
        | ifElse => exact simS_ifElse hout f ihf d S env a b c
        | setProperty => intro hs; simp [isStmtS] at hs
      | bin k a b =>
        cases k with
        | ifTrue => exact simS_ifTrue hout f ihf d S env a b
        | ifFalse => exact simS_ifFalse hout f ihf d S env a b
        | «while» =>
          cases b with
          | composite ty cs => exact simS_while hout f ihf (fun g hg => ih g (by omega)) d S env a ty cs
          | _ => intro hs; simp [isStmtS] at hs
        | _ => intro hs; simp [isStmtS] at hs
      | _ => intro hs; simp [isStmtS] at hs

end stmtsimS

mutual
theorem isStmtS_B (d : Int) (L : LCtx) : ∀ (c : Card), isStmtS d L c = true → isStmtB c = true
  | .setGlobalVar n e => fun h => by simpa only [isStmtS, isStmtB] using h
  | .setVar n e => fun h => by
    simp only [isStmtS, Bool.and_eq_true] at h
    simp only [isStmtB, Bool.and_eq_true]
    exact ⟨h.1.1, h.2⟩
  | .bin .ifTrue c b => fun h => by
    simp only [isStmtS, isStmtB, Bool.and_eq_true] at h ⊢
    exact ⟨h.1, isStmtS_B d L b h.2⟩
  | .bin .ifFalse c b => fun h => by
    simp only [isStmtS, isStmtB, Bool.and_eq_true] at h ⊢
    exact ⟨h.1, isStmtS_B d L b h.2⟩
  | .bin .while c (.composite _ cs) => fun h => by
    simp only [isStmtS, isStmtB, Bool.and_eq_true] at h ⊢
    exact ⟨h.1, isBlock_B (d + 1) cs L h.2⟩
  | .tri .ifElse c t e => fun h => by
    simp only [isStmtS, isStmtB, Bool.and_eq_true] at h ⊢
    exact ⟨⟨h.1.1, isStmtS_B d L t h.1.2⟩, isStmtS_B d L e h.2⟩
  | .composite _ cs => fun h => by
    simp only [isStmtS, isStmtB] at h ⊢
    exact isStmtsS_B d L cs h
  | .comment _ => fun _ => rfl
  | .bin .while _ (.bin _ _ _) | .bin .while _ (.un _ _) | .bin .while _ (.tri _ _ _ _) | .bin .while _ .scalarNil
  | .bin .while _ .createTable | .bin .while _ .abort | .bin .while _ (.scalarInt _) | .bin .while _ (.scalarFloat _)
  | .bin .while _ (.stringLiteral _) | .bin .while _ (.comment _) | .bin .while _ (.function _)
  | .bin .while _ (.nativeFunction _) | .bin .while _ (.readVar _) | .bin .while _ (.setVar _ _)
  | .bin .while _ (.setGlobalVar _ _) | .bin .while _ (.callNative _ _) | .bin .while _ (.call _ _)
  | .bin .while _ (.repeat _ _ _) | .bin .while _ (.forEach _ _ _ _ _) | .bin .while _ (.dynamicCall _ _)
  | .bin .while _ (.array _) | .bin .while _ (.closure _ _)
  | .bin .add _ _ | .bin .sub _ _ | .bin .mul _ _ | .bin .div _ _ | .bin .less _ _ | .bin .lessOrEq _ _
  | .bin .equals _ _ | .bin .notEquals _ _ | .bin .and _ _ | .bin .or _ _ | .bin .xor _ _
  | .bin .getProperty _ _ | .bin .get _ _ | .bin .appendTable _ _
  | .un _ _ | .tri .setProperty _ _ _ | .scalarNil | .createTable | .abort | .scalarInt _ | .scalarFloat _
  | .stringLiteral _ | .function _ | .nativeFunction _ | .readVar _ | .callNative _ _
  | .call _ _ | .repeat _ _ _ | .forEach _ _ _ _ _ | .dynamicCall _ _ | .array _ | .closure _ _ => fun h => by
    simp [isStmtS] at h
theorem isStmtsS_B (d : Int) (L : LCtx) : ∀ (cs : List Card), isStmtsS d L cs = true → isStmtsB cs = true
  | [] => fun _ => rfl
  | c :: cs => fun h => by
    simp only [isStmtsS, isStmtsB, Bool.and_eq_true] at h ⊢
    exact ⟨isStmtS_B d L c h.1, isStmtsS_B d L cs h.2⟩
theorem isBlock_B (d : Int) : ∀ (cs : List Card) (L : LCtx), isBlock d L cs = true → isStmtsB cs = true
  | [], _ => fun _ => rfl
  | c :: cs, L => fun h => by
    simp only [isBlock] at h
    simp only [isStmtsB, Bool.and_eq_true]
    rcases hdecl : declOf L c with _ | ⟨n, e⟩
    · simp only [hdecl, Bool.and_eq_true] at h
      exact ⟨isStmtS_B d L c h.1, isBlock_B d cs L h.2⟩
    · simp only [hdecl, Bool.and_eq_true] at h
      obtain ⟨rfl, _⟩ := declOf_some hdecl
      refine ⟨?_, isBlock_B d cs _ h.2⟩
      simp only [isStmtB, Bool.and_eq_true]
      exact h.1
end

theorem srel_empty : SRel [] ({} : Sem.St) :=
  ⟨fun s hs => (by cases hs), List.nodup_nil, fun i v h => (by simp at h), fun n v h => (by cases h),
    fun d v h => (by cases h)⟩

theorem lookRel_empty : LookRel [[]] [] := fun _ _ => rfl

/-- The core of the compile-correctness theorems for `main` with scoped locals. -/
theorem compile_correct_coreS (m std : Module) (limit fuel : Nat) (cfg : Config) (p : Program) (f : Func)
    (hmain : mainFn m = some f) (hargs : f.arguments = []) (hfrag : isBlock 1 [] f.cards = true)
    (hinj : HInj (· ∈ snamess f.cards))
    (hc : compile m std limit = .ok p)
    (hB : p.bytecode.size < 4294967296) (hV : p.varIds.length < 4294967296)
    (hstack : bdepthS f.cards < cfg.stackSize) (hcalls : 0 < cfg.callStackSize)
    (hsem : (Sem.run m std fuel).result = "ok") :
    ∃ n, (loopFrees f.cards = true → n + 2 ≤ p.bytecode.size + 1) ∧
      ∀ maxInstr, n + 2 ≤ maxInstr →
        (Vm.run (Prog.ofProgram p) maxInstr (VmState.fresh cfg)).2.isNone = true ∧
        (Vm.run (Prog.ofProgram p) maxInstr (VmState.fresh cfg)).1.hostLog = (Sem.run m std fuel).log ∧
        ∀ g ∈ snamess f.cards,
          vmGlobal p (Vm.run (Prog.ofProgram p) maxInstr (VmState.fresh cfg)).1 g =
            semGlobal (Sem.run m std fuel) g := by
  obtain ⟨i, nf, hi, hf, rfl⟩ := mainFn_some hmain
  obtain ⟨mainEnd, hcode, hpops, hexit, hend, hFinj⟩ := compile_mainS hc hi hf hargs hfrag hB hV
  obtain ⟨cx, hout, hrun⟩ := sem_run_main (std := std) (fuel := fuel) hi hf
  rw [hrun] at hsem ⊢
  have hB' := isBlock_B 1 nf.2.cards [] hfrag
  have hben : benign (Sem.execList cx fuel [[]] {} nf.2.cards).2.2 :=
    execList_benign _ (fun c hc env σ => exec_benignB cx hout fuel c (isStmtsB_mem hB' c hc) env σ) _ _
  have hok := render_ok hben hsem
  rcases hex : Sem.execList cx fuel [[]] {} nf.2.cards with ⟨σ', env', r⟩
  rw [hex] at hok
  simp only at hok
  subst hok
  obtain ⟨new, hctx, _, hσ, hlr', n, hn, hsim⟩ := block_simS (P := Prog.ofProgram p) (F := p.varIds)
    (N := (· ∈ snamess nf.2.cards)) hout (exec_simS hout hFinj hinj fuel fuel (Nat.le_refl _)) 1 nf.2.cards [] [[]]
    hfrag lookRel_empty {} σ' env' 0 mainEnd hex hcode
    (Nat.le_trans (Nat.le_add_right _ _) (Nat.le_of_lt hend)) (fun n hn => hn) srel_empty
  have hk : (baseOf ([] ++ new) σ').length = (blockCtx 1 [] nf.2.cards).length := by
    have hctx' : ctxOf ([] ++ new) = blockCtx 1 [] nf.2.cards := hctx
    rw [baseOf_length, ← hctx']; simp [ctxOf]
  refine ⟨n + (blockCtx 1 [] nf.2.cards).length, fun hl => by have := hn hl; omega, fun maxInstr hmax => ?_⟩
  obtain ⟨vsK, hr, hstK, hsameK, hgK⟩ := hsim (startState cfg maxInstr) cfg.stackSize
    (stackIs_new _) (by show 0 + _ < _; omega) (grel_empty _ _) (frameOk_start _ _)
  obtain ⟨vsP, hrP, hstP, hsameP, hgP⟩ := reach_pops (P := Prog.ofProgram p) (baseOf ([] ++ new) σ') mainEnd vsK
    (fun j hj => hpops j (by rw [← hk]; exact hj)) (by rw [hk]; exact Nat.le_of_lt hend) hstK
  rw [hk] at hrP
  rw [vm_run_of_reach hcalls (hr.trans hrP rfl) hexit hend hmax]
  have hsame := hsameK.trans hsameP
  have hlog : vsP.hostLog = [] := by rw [hsame]; rfl
  have hσlog : σ'.log = [] := by rw [hσ]
  refine ⟨rfl, ?_, fun g hg => ?_⟩
  · show vsP.hostLog = σ'.log
    rw [hlog, hσlog]
  · exact globals_agree (vs := { tick vsP with frames := (tick vsP).frames.take 0, guards := (VmState.fresh cfg).guards })
      (by show GRel _ _ _ vsP.globals; rw [hgP]; exact hgK) hFinj hinj hg


/-- **Fragment F3** = F2 plus scoped locals: the body of a `While` (a composite card) is a block of
    its own: `SetVar` of a name that is not yet a local, directly in the block, declares a local that
    lives for one iteration (the compiler pops it before jumping back; the reference semantics runs
    the body in a fresh scope). `If*` branches still may not declare. -/
def InF3 (m : Module) : Bool :=
  match mainFn m with
  | some f => f.arguments.isEmpty && isBlock 1 [] f.cards
  | none => false

theorem inF3_main {m : Module} (h : InF3 m = true) :
    ∃ f, mainFn m = some f ∧ f.arguments = [] ∧ isBlock 1 [] f.cards = true ∧ mainCards m = f.cards := by
  unfold InF3 at h
  unfold mainCards
  rcases hm : mainFn m with _ | f
  · rw [hm] at h; cases h
  · rw [hm] at h
    simp only [Bool.and_eq_true, List.isEmpty_iff] at h
    exact ⟨f, rfl, h.1, h.2, rfl⟩

/-- **C01 for fragment F3 (scoped locals, loops).** -/
theorem compile_correct_F3 (m std : Module) (limit fuel : Nat) (cfg : Config) (p : Program)
    (hfrag : InF3 m = true) (hnames : handlesDistinct (snamess (mainCards m)) = true)
    (hc : compile m std limit = .ok p)
    (hB : p.bytecode.size < 4294967296) (hV : p.varIds.length < 4294967296)
    (hstack : bdepthS (mainCards m) < cfg.stackSize) (hcalls : 0 < cfg.callStackSize)
    (hsem : (Sem.run m std fuel).result = "ok") :
    ∃ budget, ∀ maxInstr, budget ≤ maxInstr →
      Agree p (snamess (mainCards m)) (Vm.run (Prog.ofProgram p) maxInstr (VmState.fresh cfg))
        (Sem.run m std fuel) := by
  obtain ⟨f, hmain, hargs, hst, hcards⟩ := inF3_main hfrag
  rw [hcards] at hnames hstack ⊢
  obtain ⟨n, _, hall⟩ := compile_correct_coreS m std limit fuel cfg p f hmain hargs hst
    (hinj_of_handlesDistinct hnames) hc hB hV hstack hcalls hsem
  refine ⟨n + 2, fun maxInstr hmax => ?_⟩
  obtain ⟨h1, h2, h3⟩ := hall maxInstr hmax
  exact ⟨⟨h1, hsem⟩, h2, h3⟩

/-- on F3 the reference semantics never yields an error, a `Return` or an `Abort` -/
theorem sem_run_benign_F3 (m std : Module) (hfrag : InF3 m = true) (fuel : Nat) :
    ∃ x, Sem.run m std fuel = render x ∧ benign x.2.2 := by
  obtain ⟨fn, hmain, _, hst, _⟩ := inF3_main hfrag
  obtain ⟨i, nf, hi, hf, rfl⟩ := mainFn_some hmain
  obtain ⟨cx, hout, hrun⟩ := sem_run_main (std := std) (fuel := fuel) hi hf
  have hB' := isBlock_B 1 nf.2.cards [] hst
  exact ⟨_, hrun, execList_benign _ (fun c hc env σ => exec_benignB cx hout fuel c (isStmtsB_mem hB' c hc) env σ) _ _⟩

/-- **Fuel independence on F3**. -/
theorem sem_run_fuel_mono_F3 (m std : Module) (hfrag : InF3 m = true) (f f' : Nat) (hle : f ≤ f')
    (h : (Sem.run m std f).result ≠ "unspecified:out of fuel") : Sem.run m std f' = Sem.run m std f := by
  obtain ⟨fn, hmain, _, hst, _⟩ := inF3_main hfrag
  obtain ⟨i, nf, hi, hf, rfl⟩ := mainFn_some hmain
  obtain ⟨cx, hout, hrun⟩ := sem_run_main' (std := std) hi hf
  rw [hrun f] at h
  rw [hrun f', hrun f]
  have hB' := isBlock_B 1 nf.2.cards [] hst
  have hn : ¬ isOOF (Sem.execList cx f [[]] {} nf.2.cards).2.2 := by
    intro hoof
    rcases hx : Sem.execList cx f [[]] {} nf.2.cards with ⟨σ1, env1, r1⟩
    rw [hx] at h hoof
    cases r1 <;> first | exact hoof | exact h rfl
  have : Sem.execList cx f' [[]] {} nf.2.cards = Sem.execList cx f [[]] {} nf.2.cards :=
    execList_fuel_mono nf.2.cards
      (fun c hc env σ hnc => exec_fuel_monoB cx hout f c (isStmtsB_mem hB' c hc) env σ hnc f' hle) [[]] {} hn
  rw [this]

/-! ### an example: a local declared in the loop body (shown by evaluation) -/

/-- `i = 0; s = 0; while i < 3 { t = i * 2; s = s + t; i = i + 1 }; out = s`
    (`i`, `s` function-level locals, `t` a local of the loop body) -/
def exScoped : Module := Module.mk [] [("main", { arguments := [], cards := [
  .setVar "i" (.scalarInt 0),
  .setVar "a" (.scalarInt 0),
  .bin .while (.bin .less (.readVar "i") (.scalarInt 3)) (.composite "b" [
    .setVar "t" (.bin .mul (.readVar "i") (.scalarInt 2)),
    .setVar "a" (.bin .add (.readVar "a") (.readVar "t")),
    .setVar "i" (.bin .add (.readVar "i") (.scalarInt 1))]),
  .setGlobalVar "out" (.readVar "a")] })] []


theorem splitOn_t : ("t" : String).splitOn "." = ["t"] := by
  simp (config := {decide := true}) [String.splitOn, String.splitOnAux]

theorem simpleName_t : simpleName "t" = true := by
  unfold simpleName; rw [splitOn_t]; decide

theorem exScoped_inF3 : InF3 exScoped = true := by
  have hm : mainFn exScoped = some { arguments := [], cards := [
      .setVar "i" (.scalarInt 0),
      .setVar "a" (.scalarInt 0),
      .bin .while (.bin .less (.readVar "i") (.scalarInt 3)) (.composite "b" [
        .setVar "t" (.bin .mul (.readVar "i") (.scalarInt 2)),
        .setVar "a" (.bin .add (.readVar "a") (.readVar "t")),
        .setVar "i" (.bin .add (.readVar "i") (.scalarInt 1))]),
      .setGlobalVar "out" (.readVar "a")] } := by rfl
  have l1 : lidx [] "i" = none := by decide
  have l2 : lidx [("i", 1)] "a" = none := by decide
  have l3 : lidx [("i", 1), ("a", 1)] "t" = none := by decide
  have l4 : lidx [("i", 1), ("a", 1), ("t", 2)] "a" = some 1 := by decide
  have l5 : lidx [("i", 1), ("a", 1), ("t", 2)] "i" = some 0 := by decide
  unfold InF3
  rw [hm]
  simp [isBlock, declOf, isStmtS, isExpr, isValOp, simpleName_a, simpleName_i, simpleName_t,
    l1, l2, l3, l4, l5]

/- expected: "SEM: ok [(out, i6)] | VM: ok [i6]" -/
#eval showBoth exScoped

end Cao.C01
