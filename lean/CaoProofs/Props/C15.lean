import CaoProofs.Lemmas.TraceLemmas
import CaoModel.Vm
/-!
# C15 — error traces point at source cards

Property: *When a run fails, the first entry of the error's trace resolves, in the source module it
was compiled from, to the card whose instruction raised the error, and the following entries are
the call cards of the active call chain from innermost to outermost, each carrying the namespace of
the function it belongs to. When compilation fails because of a specific card, the error's location
resolves to that card.*

The compiler side is proved for **all** cards / modules over the total compiler model
(`CaoModel/Compiler.lean`); helper lemmas (a Hoare-style triple `Tr` with one lemma per primitive
and combinator of `process_card` and one mutual induction) live in
`CaoProofs/Lemmas/TraceLemmas.lean`.

Vocabulary
* `ownOps d` — the opcodes the arm of `process_card` for `d` emits (via `push_instruction`) while
  the position is the index of `d` itself; `childOps par i` — those it emits while the position is
  the index of its child `i`.  **Finding**: `While`, `IfTrue`, `IfFalse` and `IfElse` emit their
  conditional / backward jumps *after* `push_sub(1)`, so these `Goto*` instructions are labelled with
  the index of the *body* child (child 1), not with the index of the loop / conditional card.  The
  statement "the opcode at a trace key is one of `ownOps` of the resolved card" is therefore false
  (`naive_owner_false`); the corrected statement adds the `childOps` of the parent.
* `withStd m std` — the module the compiler works on (`std` appended to the submodules);
  `Module.descend` — navigation along the namespace of a trace entry.
* `CardEntry` / `EpilogueEntry` — the two kinds of trace entries of a compiled program.
  **Finding**: the implicit instructions `Exit` (after `main` and at the end of the program) and
  `ScalarNil; Return` (end of every other function) are also given trace entries; they carry an
  index list of length `≤ 1` (`[#cards of main]` for the `Exit` after `main`, the index of the last
  top-level card — or `[]` for a function without cards — for the others) that does **not** designate
  "their" card and in general no card at all (`naive_resolves_false`).
-/
namespace Cao.C15
open Cao Cao.Compiler

/-! ## 1. every trace entry / error location of `processCard c` is the path of a real sub-card -/

/-- the precondition of the triples holds in any state when only the entries added from now on
are considered -/
theorem pre_any (s : CState) : Pre s.trace.length none [] s.curIndices s :=
  ⟨rfl, (fun _ h => nomatch h), Nat.le_refl _, by simp, by simp⟩

/-- **(1)** Running `processCard c` from *any* state: position, namespace and function are
restored, and every new trace entry carries the namespace and function of the state and the index
list `s.curIndices ++ suf` of a real sub-card `c.getPath suf = some d`. -/
theorem processCard_trace_paths {c : Card} {s s' : CState}
    (h : (processCard c).run s = .ok ((), s')) :
    s'.curIndices = s.curIndices ∧ s'.ns = s.ns ∧ s'.curFunction = s.curFunction ∧
    ∃ t, s'.trace = s.trace ++ t ∧ ∀ e ∈ t, e.2.ns = s.ns ∧ e.2.function = s.curFunction ∧
      ∃ suf d, e.2.indices = s.curIndices ++ suf ∧ c.getPath suf = some d := by
  obtain ⟨r, hq⟩ := (processCard_tr c s.trace.length s.curIndices none []).ok s () s' h (pre_any s)
  obtain ⟨t, ht, hall⟩ := r.rel.trace
  refine ⟨hq, r.ns, r.fn, t, ht, fun e he => ?_⟩
  obtain ⟨_, _, o, _, h1, h2, suf, d, h3, h4, _⟩ := hall e he
  exact ⟨h1, h2, suf, d, h3, h4⟩

/-- **(1, errors)** A (non-panic) error raised by `processCard c` always has a location, which
carries the namespace and function of the state and the index list of a real sub-card of `c`. -/
theorem processCard_error_path {c : Card} {s : CState} {k : CErrKind} {loc : Option Trace}
    (h : (processCard c).run s = .error (.err k loc)) :
    ∃ t, loc = some t ∧ t.ns = s.ns ∧ t.function = s.curFunction ∧
    ∃ suf d, t.indices = s.curIndices ++ suf ∧ c.getPath suf = some d :=
  (processCard_tr c s.trace.length s.curIndices none []).err s k loc h (pre_any s)

/-! ## 2. the instruction at a trace key belongs to the designated card -/

/-- **(2)** Every new trace entry `(pos, t)` of `processCard c` is keyed by a position of the new
part of the bytecode, and the byte at `pos` **in the final bytecode** is an opcode emitted for the
sub-card `d` that `t` designates: one of `ownOps d`, or one of the opcodes the parent of `d` emits
under the index of `d` (`childOps`). Later writes are appends or patches of jump operands, which are
never trace keys. -/
theorem processCard_trace_owner {c : Card} {s s' : CState}
    (h : (processCard c).run s = .ok ((), s')) :
    ∃ t, s'.trace = s.trace ++ t ∧ ∀ e ∈ t,
      s.bytecode.size ≤ e.1 ∧ e.1 < s'.bytecode.size ∧
      ∃ suf d o, e.2.indices = s.curIndices ++ suf ∧ c.getPath suf = some d ∧
        s'.bytecode[e.1]? = some o ∧
        (o ∈ ownOps d ∨
          ∃ pre i par, suf = pre ++ [i] ∧ c.getPath pre = some par ∧ o ∈ childOps par i) := by
  obtain ⟨r, _⟩ := (processCard_tr c s.trace.length s.curIndices none []).ok s () s' h (pre_any s)
  obtain ⟨t, ht, hall⟩ := r.rel.trace
  refine ⟨t, ht, fun e he => ?_⟩
  obtain ⟨x1, x2, o, x3, _, _, suf, d, h3, h4, hat⟩ := hall e he
  refine ⟨x1, x2, suf, d, o, h3, h4, x3, ?_⟩
  rcases hat with ⟨d', h5, h6⟩ | h5
  · rw [h4] at h5; cases h5; exact .inl h6
  · exact .inr h5

/-- the old trace entries still label the same bytes: `processCard` never writes to a position that
is the key of a trace entry it added (stated for the entries added since `n0`) -/
theorem processCard_keeps_labels {c : Card} {s s' : CState}
    (h : (processCard c).run s = .ok ((), s')) (n0 : Nat) (hn : n0 ≤ s.trace.length)
    (hk : ∀ e ∈ s.trace.drop n0, e.1 < s.bytecode.size) :
    ∀ e ∈ s.trace.drop n0, s'.bytecode[e.1]? = s.bytecode[e.1]? :=
  ((processCard_tr c n0 s.curIndices none []).ok s () s' h
    ⟨rfl, (fun _ h => nomatch h), hn, hk, by simp⟩).1.rel.keep

/-- what `processCard` leaves in the trace table and in the bytecode, for a concrete card -/
def traceAndCode (c : Card) : Option (List (Nat × List Nat) × List UInt8) :=
  match (processCard c).run {} with
  | .ok (_, s) => some (s.trace.map (fun e => (e.1, e.2.indices)), s.bytecode.toList)
  | .error _ => none

/-- `While(nil, nil)`: the `GotoIfFalse` (30) at position 1 and the `Goto` (28) at position 7 are
labelled `[1]`, the index of the body -/
theorem while_example :
    traceAndCode (.bin .while .scalarNil .scalarNil) =
      some ([(0, [0]), (1, [1]), (6, [1]), (7, [1])], [7, 30, 12, 0, 0, 0, 7, 28, 0, 0, 0, 0]) := by
  decide +kernel

/-- the uncorrected statement of (2) is false: the `GotoIfFalse` of a `While` is labelled with the
index of the body card, which does not own it -/
theorem naive_owner_false :
    ¬ ∀ (c : Card) (s s' : CState), (processCard c).run s = .ok ((), s') →
      ∀ e ∈ s'.trace.drop s.trace.length, ∃ suf d o, e.2.indices = s.curIndices ++ suf ∧
        c.getPath suf = some d ∧ s'.bytecode[e.1]? = some o ∧ o ∈ ownOps d := by
  intro hall
  have hw := while_example
  unfold traceAndCode at hw
  cases hr : (processCard (.bin .while .scalarNil .scalarNil)).run {} with
  | error e => rw [hr] at hw; cases hw
  | ok r =>
    obtain ⟨⟨⟩, s'⟩ := r
    rw [hr] at hw
    simp only [Option.some.injEq, Prod.mk.injEq] at hw
    obtain ⟨ht, hb⟩ := hw
    -- the second entry
    have h2 : ∃ e ∈ s'.trace, e.1 = 1 ∧ e.2.indices = [1] := by
      have : (1, [1]) ∈ s'.trace.map (fun e => (e.1, e.2.indices)) := by rw [ht]; simp
      obtain ⟨e, he, heq⟩ := List.mem_map.1 this
      simp only [Prod.mk.injEq] at heq
      exact ⟨e, he, heq.1, heq.2⟩
    obtain ⟨e, he, he1, he2⟩ := h2
    obtain ⟨suf, d, o, h3, h4, h5, h6⟩ := hall _ _ _ hr e (by simpa using he)
    simp only [List.nil_append] at h3
    rw [he2] at h3
    subst h3
    simp only [Card.getPath, Card.getChild, Option.some.injEq] at h4
    subst h4
    have hbyte : s'.bytecode[1]? = some 30 := by
      rw [← Array.getElem?_toList, hb]; rfl
    rw [he1, hbyte] at h5
    cases h5
    revert h6
    decide

/-! ## 3. the trace table of a compiled program resolves in the source module -/

/-- a trace entry that designates the card `d` of the source, `o` being an opcode emitted for `d` -/
def CardEntry (m' : Module) (t : Trace) (o : UInt8) : Prop :=
  ∃ sub d, m'.descend t.ns = some sub ∧
    sub.getCard { function := t.function, indices := t.indices } = .ok d ∧
    (o ∈ ownOps d ∨ ∃ pre j par, t.indices = pre ++ [j] ∧
      sub.getCard { function := t.function, indices := pre } = .ok par ∧ o ∈ childOps par j)

/-- a trace entry of an implicit `Exit` / `ScalarNil; Return`: it designates an existing function
and carries the index list `[#cards]` (one past the last card: never a card) or the position after
the loop over the cards (`lastIdx [] 0 cards`, i.e. `[#cards - 1]`, the last card — which did not
emit that instruction — or `[]` when the function has no card) -/
def EpilogueEntry (m' : Module) (t : Trace) (o : UInt8) : Prop :=
  ∃ sub name fn, m'.descend t.ns = some sub ∧ sub.functions[t.function]? = some (name, fn) ∧
    EpiloguePos fn.cards t.indices ∧ o ∈ epilogueOps

/-- an error location that designates a card of the source -/
def CardLoc (m' : Module) (t : Trace) : Prop :=
  ∃ sub d, m'.descend t.ns = some sub ∧
    sub.getCard { function := t.function, indices := t.indices } = .ok d

theorem getCard_of {sub : Module} {k i : Nat} {name : String} {fn : Func} {c d : Card} {suf : List Nat}
    (hfun : sub.functions[k]? = some (name, fn)) (hc : fn.cards[i]? = some c)
    (hd : c.getPath suf = some d) : sub.getCard { function := k, indices := i :: suf } = .ok d := by
  simp [Module.getCard, hfun, hc, hd]

theorem unitOp_entry {m' : Module} {fs : List FunctionIr} (hfs : ∀ f ∈ fs, FnAt m' f) {t : Trace}
    {o : UInt8} (h : UnitOp fs t o) : CardEntry m' t o ∨ EpilogueEntry m' t o := by
  obtain ⟨f, hf, h1, h2, h3⟩ := h
  obtain ⟨sub, hdesc, name, fn, hfun, hcards⟩ := hfs f hf
  rw [← h1] at hdesc
  rw [← h2] at hfun
  rcases h3 with ⟨i, suf, c, d, hl, hc, hd, hat⟩ | ⟨hlen, ho⟩
  · left
    rw [← hcards] at hc
    refine ⟨sub, d, hdesc, by rw [hl]; exact getCard_of hfun hc hd, ?_⟩
    rcases hat with ⟨d', h5, h6⟩ | ⟨pre, j, par, h5, h6, h7⟩
    · rw [hd] at h5; cases h5; exact .inl h6
    · exact .inr ⟨i :: pre, j, par, by rw [hl, h5]; rfl, getCard_of hfun hc h6, h7⟩
  · exact .inr ⟨sub, name, fn, hdesc, hfun, by rw [hcards]; exact hlen, ho⟩

theorem unitLoc_entry {m' : Module} {fs : List FunctionIr} (hfs : ∀ f ∈ fs, FnAt m' f) {t : Trace}
    {k : CErrKind} (h : UnitLoc fs k t) :
    CardLoc m' t ∨ (∃ sub name fn, m'.descend t.ns = some sub ∧
      sub.functions[t.function]? = some (name, fn) ∧ HeaderPos t.indices ∧
      (k = .emptyVariable ∨ k = .tooManyLocals)) := by
  obtain ⟨f, hf, h1, h2, h3⟩ := h
  obtain ⟨sub, hdesc, name, fn, hfun, hcards⟩ := hfs f hf
  rw [← h1] at hdesc
  rw [← h2] at hfun
  rcases h3 with ⟨i, suf, c, d, hl, hc, hd⟩ | ⟨hlen, hk⟩
  · rw [← hcards] at hc
    exact .inl ⟨sub, d, hdesc, by rw [hl]; exact getCard_of hfun hc hd⟩
  · exact .inr ⟨sub, name, fn, hdesc, hfun, hlen, by simpa using hk⟩

theorem safe_init : Safe 0 [] ({} : CState) := ⟨Nat.le_refl _, by simp, by simp⟩

/-- **(3)** Every entry `(pos, t)` of the trace table of a compiled program labels a byte of the
final bytecode and either designates a card `d` of the source module (navigating `t.ns` from
`withStd m std` and fetching `⟨t.function, t.indices⟩` with `Module.getCard`), the byte being an
opcode emitted for `d`, or is one of the implicit epilogue instructions (`Exit`, `ScalarNil`,
`Return`) of an existing function, labelled `[#cards]` or with the index of the function's last
top-level card (`EpiloguePos`). -/
theorem compile_trace_resolves {m std : Module} {limit : Nat} {p : Program}
    (h : compile m std limit = .ok p) :
    ∀ e ∈ p.trace, ∃ o, p.bytecode[e.1]? = some o ∧
      (CardEntry (withStd m std) e.2 o ∨ EpilogueEntry (withStd m std) e.2 o) := by
  unfold compile at h
  split at h
  · cases h
  · rename_i unit hunit
    split at h
    · cases h
    · rename_i s hs
      simp only [Except.ok.injEq] at h
      subst h
      intro e he
      have he' := resolveLog_subset _ e he
      obtain ⟨r, _⟩ := (compileUnit_seg unit).ok {} () s hs safe_init ⟨rfl, rfl, rfl⟩
      obtain ⟨t, ht, hall⟩ := r.trace
      simp only [List.nil_append] at ht
      rw [ht] at he'
      obtain ⟨_, _, o, h1, h2⟩ := hall e he'
      exact ⟨o, h1, unitOp_entry (intoIrStream_spec hunit) h2⟩

/-- entries with an index list of length `≥ 2` always designate a card -/
theorem compile_trace_resolves_deep {m std : Module} {limit : Nat} {p : Program}
    (h : compile m std limit = .ok p) (e : Nat × Trace) (he : e ∈ p.trace)
    (hd : 2 ≤ e.2.indices.length) :
    ∃ o, p.bytecode[e.1]? = some o ∧ CardEntry (withStd m std) e.2 o := by
  obtain ⟨o, h1, h2 | ⟨_, _, _, _, _, h3, _⟩⟩ := compile_trace_resolves h e he
  · exact ⟨o, h1, h2⟩
  · have := h3.length_le; omega

/-- entries that label an opcode other than `Exit`, `ScalarNil`, `Return` always designate a card -/
theorem compile_trace_resolves_op {m std : Module} {limit : Nat} {p : Program}
    (h : compile m std limit = .ok p) (e : Nat × Trace) (he : e ∈ p.trace) (o : UInt8)
    (ho : p.bytecode[e.1]? = some o) (hne : o ∉ epilogueOps) : CardEntry (withStd m std) e.2 o := by
  obtain ⟨o', h1, h2 | ⟨_, _, _, _, _, _, h3⟩⟩ := compile_trace_resolves h e he
  · rw [ho] at h1; cases h1; exact h2
  · rw [ho] at h1; cases h1; exact absurd h3 hne

/-! ### non-vacuity, and the counter-example to the unqualified statement -/

/-- `main` = `Not(Len(nil))` -/
def exModule : Module := Module.mk [] [("main", ⟨[], [.un .not (.un .len .scalarNil)]⟩)] []
def exStd : Module := Module.mk [] [] []

def traceOf (m std : Module) : Option (List (Nat × Trace) × List UInt8) :=
  match compile m std with
  | .ok p => some (p.trace, p.bytecode.toList)
  | .error _ => none

/-- the compiled program: `ScalarNil Len Not Exit Exit`, the first entry has the depth-3 path
`[0, 0, 0]` -/
theorem exModule_trace : traceOf exModule exStd = some
    ([(0, ⟨[], 0, [0, 0, 0]⟩), (1, ⟨[], 0, [0, 0]⟩), (2, ⟨[], 0, [0]⟩), (3, ⟨[], 0, [1]⟩),
      (4, ⟨[], 0, [1]⟩)],
     [7, 34, 27, 10, 10]) := by
  decide +kernel

/-- … and that first entry resolves to the innermost card `nil`, the second to `Len(nil)` -/
example : ((withStd exModule exStd).descend []).map
    (fun sub => sub.getCard { function := 0, indices := [0, 0, 0] }) = some (.ok .scalarNil) := rfl
example : ((withStd exModule exStd).descend []).map
    (fun sub => (sub.getCard { function := 0, indices := [0, 0] }).toOption.map Card.toTok) =
    some (some "len(nil)") := by decide +kernel

/-- … while the entries of the two implicit `Exit`s, labelled `[1]`, do not resolve -/
example : ((withStd exModule exStd).descend []).map
    (fun sub => sub.getCard { function := 0, indices := [1] }) = some (.error .cardNotFound) := rfl

/-- the unqualified statement "every trace entry resolves to a card" is false -/
theorem naive_resolves_false :
    ¬ ∀ (m std : Module) (limit : Nat) (p : Program), compile m std limit = .ok p →
      ∀ e ∈ p.trace, ∃ sub d, (withStd m std).descend e.2.ns = some sub ∧
        sub.getCard { function := e.2.function, indices := e.2.indices } = .ok d := by
  intro hall
  have ht := exModule_trace
  unfold traceOf at ht
  cases hc : compile exModule exStd with
  | error e => rw [hc] at ht; cases ht
  | ok p =>
    rw [hc] at ht
    simp only [Option.some.injEq, Prod.mk.injEq] at ht
    obtain ⟨sub, d, h1, h2⟩ := hall _ _ _ p hc (3, ⟨[], 0, [1]⟩) (by rw [ht.1]; simp)
    simp only [Module.descend, Option.some.injEq] at h1
    subst h1
    revert h2
    simp [Module.getCard, withStd, exModule, Module.functions]

/-! ## 4. the location of a compilation error -/

/-- **(4)** A compilation error (other than a model `panic`) always has a location `t`, which
either designates a card of the source (this is the case for every error raised inside
`processCard`, see `processCard_error_path`: its index list extends the position of a top-level
card by the path of a real sub-card), or is the
dummy location of an error that is not about a card (`intoIrStream` failed, or `DuplicateName` /
`EmptyProgram` raised before the first function is entered), or is a `EmptyVariable` /
`TooManyLocals` error raised while binding the *arguments* of an existing function, located at
`[0]` (`main`) or `[]` (any other function). -/
theorem compile_error_resolves {m std : Module} {limit : Nat} {k : CErrKind} {loc : Option Trace}
    (h : compile m std limit = .error (.err k loc)) :
    ∃ t, loc = some t ∧
    (CardLoc (withStd m std) t ∨
    (t = { ns := [], function := 0, indices := [] } ∧
      (intoIrStream m std limit = .error k ∨ k = .emptyProgram ∨ k = .duplicateName)) ∨
    (∃ sub name fn, (withStd m std).descend t.ns = some sub ∧
      sub.functions[t.function]? = some (name, fn) ∧ HeaderPos t.indices ∧
      (k = .emptyVariable ∨ k = .tooManyLocals))) := by
  unfold compile at h
  split at h
  · rename_i k' hk
    simp only [Except.error.injEq, CErr.err.injEq] at h
    obtain ⟨rfl, rfl⟩ := h
    exact ⟨_, rfl, .inr (.inl ⟨rfl, .inl hk⟩)⟩
  · rename_i unit hunit
    split at h
    · rename_i e he
      simp only [Except.error.injEq] at h
      subst h
      obtain ⟨t, rfl, ht⟩ := (compileUnit_seg unit).err {} k loc he safe_init ⟨rfl, rfl, rfl⟩
      refine ⟨t, rfl, ?_⟩
      rcases ht with ⟨h1, h2⟩ | h1
      · exact .inr (.inl ⟨h1, .inr h2⟩)
      · rcases unitLoc_entry (intoIrStream_spec hunit) h1 with h2 | h2
        · exact .inl h2
        · exact .inr (.inr h2)
    · cases h

/-- an error located at an index list of length `≥ 2` always designates a card -/
theorem compile_error_resolves_deep {m std : Module} {limit : Nat} {k : CErrKind} {t : Trace}
    (h : compile m std limit = .error (.err k (some t))) (hd : 2 ≤ t.indices.length) :
    CardLoc (withStd m std) t := by
  obtain ⟨t', ht, hc⟩ := compile_error_resolves h
  cases ht
  rcases hc with h1 | ⟨rfl, _⟩ | ⟨_, _, _, _, _, h3, _⟩
  · exact h1
  · simp at hd
  · have := h3.length_le; omega

/-- non-vacuity: `main` = `Not(SetGlobalVar("", nil))` fails with `EmptyVariable` located at `[0, 0]` -/
def exBad : Module := Module.mk [] [("main", ⟨[], [.un .not (.setGlobalVar "" .scalarNil)]⟩)] []

def errOf (m std : Module) : Option (CErrKind × Trace) :=
  match compile m std with
  | .error (.err k (some t)) => some (k, t)
  | _ => none

theorem exBad_error : errOf exBad exStd = some (.emptyVariable, ⟨[], 0, [0, 0]⟩) := by decide +kernel

example : ((withStd exBad exStd).descend []).map
    (fun sub => sub.getCard { function := 0, indices := [0, 0] }) =
    some (.ok (.setGlobalVar "" .scalarNil)) := rfl

/-! ## 5. the shape of the run-time error trace -/

/-- the trace entry keyed by bytecode position `a` -/
def lookup (p : Vm.Prog) (a : Nat) : Option Trace := (p.trace.find? (fun t => t.1 == a)).map (·.2)

/-- **(5)** `errTrace` is the trace entry keyed by the failing instruction pointer (if there is
one), followed by the entries keyed by the recorded call-site pointers of the active frames,
innermost (= last pushed) first; frames whose call site has no entry are skipped. -/
theorem errTrace_shape (p : Vm.Prog) (e : Vm.RunErr) :
    Vm.errTrace p e = (lookup p e.at_).toList ++ e.frames.reverse.filterMap (fun f => lookup p f.src) :=
  rfl

/-- when the failing instruction has a trace entry, it is the head, and the tail is exactly the
list of call-site entries -/
theorem errTrace_cons (p : Vm.Prog) (e : Vm.RunErr) (t : Trace) (h : lookup p e.at_ = some t) :
    Vm.errTrace p e = t :: e.frames.reverse.filterMap (fun f => lookup p f.src) := by
  rw [errTrace_shape, h]; rfl

/-- when moreover every active frame's call site has a trace entry, the tail has one entry per
frame, in reverse frame order -/
theorem errTrace_all (p : Vm.Prog) (e : Vm.RunErr) (t : Trace) (ts : List Trace)
    (h : lookup p e.at_ = some t) (hs : e.frames.reverse.map (fun f => lookup p f.src) = ts.map some) :
    Vm.errTrace p e = t :: ts := by
  rw [errTrace_cons p e t h]
  congr 1
  generalize e.frames.reverse = l at hs
  induction l generalizing ts with
  | nil => cases ts <;> simp_all
  | cons f l ih =>
    cases ts with
    | nil => simp at hs
    | cons t' ts =>
      simp only [List.map_cons, List.cons.injEq] at hs
      simp [hs.1, ih ts hs.2]

theorem lookup_mem {p : Vm.Prog} {a : Nat} {t : Trace} (h : lookup p a = some t) : (a, t) ∈ p.trace := by
  unfold lookup at h
  cases hf : p.trace.find? (fun t => t.1 == a) with
  | none => rw [hf] at h; cases h
  | some x =>
    rw [hf] at h
    simp only [Option.map_some, Option.some.injEq] at h
    have h1 := List.find?_some hf
    have h2 := List.mem_of_find?_eq_some hf
    simp only [beq_iff_eq] at h1
    obtain ⟨x1, x2⟩ := x
    simp only at h h1
    subst h h1
    exact h2

/-- every entry of the error trace is an entry of the program's trace table, keyed by the failing
instruction pointer or by the call site of an active frame -/
theorem errTrace_mem (p : Vm.Prog) (e : Vm.RunErr) (t : Trace) (h : t ∈ Vm.errTrace p e) :
    (e.at_, t) ∈ p.trace ∨ ∃ f ∈ e.frames, (f.src, t) ∈ p.trace := by
  rw [errTrace_shape] at h
  rcases List.mem_append.1 h with h | h
  · left
    cases hl : lookup p e.at_ with
    | none => rw [hl] at h; simp at h
    | some t' =>
      rw [hl] at h
      simp only [Option.toList_some, List.mem_singleton] at h
      subst h
      exact lookup_mem hl
  · right
    obtain ⟨f, hf, hl⟩ := List.mem_filterMap.1 h
    exact ⟨f, List.mem_reverse.1 hf, lookup_mem hl⟩

/-- **(3)+(5)** For a program compiled from `m`: every entry of a run-time error trace is keyed by
a position `pos` (the failing instruction pointer or the call site of an active frame) whose byte
is an opcode emitted for the source card the entry designates — or is one of the implicit
epilogue instructions. -/
theorem errTrace_resolves {m std : Module} {limit : Nat} {prog : Program}
    (h : compile m std limit = .ok prog) (e : Vm.RunErr) (t : Trace)
    (ht : t ∈ Vm.errTrace (Vm.Prog.ofProgram prog) e) :
    ∃ pos o, (pos = e.at_ ∨ ∃ f ∈ e.frames, pos = f.src) ∧ prog.bytecode[pos]? = some o ∧
      (CardEntry (withStd m std) t o ∨ EpilogueEntry (withStd m std) t o) := by
  rcases errTrace_mem _ e t ht with h1 | ⟨f, hf, h1⟩
  · obtain ⟨o, h2, h3⟩ := compile_trace_resolves h _ h1
    exact ⟨e.at_, o, .inl rfl, h2, h3⟩
  · obtain ⟨o, h2, h3⟩ := compile_trace_resolves h _ h1
    exact ⟨f.src, o, .inr ⟨f, hf, rfl⟩, h2, h3⟩

/-! ## 6. call sites are call cards -/

/-- a `Call` or `DynamicCall` card -/
def IsCallCard : Card → Prop
  | .call _ _ => True
  | .dynamicCall _ _ => True
  | _ => False

/-- `CallFunction` is emitted only by the `Call` and `DynamicCall` arms … -/
theorem ownOps_callFunction (d : Card) (h : op.callFunction ∈ ownOps d) : IsCallCard d := by
  cases d with
  | call => trivial
  | dynamicCall => trivial
  | un k _ => cases k <;> (simp only [ownOps] at h; exact absurd h (by decide))
  | bin k _ _ => cases k <;> (simp only [ownOps] at h; exact absurd h (by decide))
  | tri k _ _ _ => cases k <;> (simp only [ownOps] at h; exact absurd h (by decide))
  | _ => simp only [ownOps] at h; exact absurd h (by decide)

/-- … and never under the index of a child -/
theorem childOps_callFunction (par : Card) (j : Nat) : op.callFunction ∉ childOps par j := by
  unfold childOps
  split
  · rename_i k _ _; cases k <;> decide
  · rename_i k _ _ _; cases k <;> decide
  · simp

/-- **(6)** In a compiled program, a trace entry whose key holds the opcode `CallFunction` designates
a `Call` or `DynamicCall` card of the source (standard-library wrappers are ordinary functions of
the submodule `std` of `withStd m std`). -/
theorem call_site_is_call_card {m std : Module} {limit : Nat} {p : Program}
    (h : compile m std limit = .ok p) (e : Nat × Trace) (he : e ∈ p.trace)
    (ho : p.bytecode[e.1]? = some op.callFunction) :
    ∃ sub d, (withStd m std).descend e.2.ns = some sub ∧
      sub.getCard { function := e.2.function, indices := e.2.indices } = .ok d ∧ IsCallCard d := by
  obtain ⟨sub, d, h1, h2, h3⟩ := compile_trace_resolves_op h e he _ ho (by decide)
  refine ⟨sub, d, h1, h2, ?_⟩
  rcases h3 with h3 | ⟨_, j, par, _, _, h4⟩
  · exact ownOps_callFunction d h3
  · exact absurd h4 (childOps_callFunction par j)

/-- the same inside `processCard` -/
theorem processCard_call_site {c : Card} {s s' : CState} (h : (processCard c).run s = .ok ((), s'))
    (e : Nat × Trace) (he : e ∈ s'.trace.drop s.trace.length)
    (ho : s'.bytecode[e.1]? = some op.callFunction) :
    ∃ suf d, e.2.indices = s.curIndices ++ suf ∧ c.getPath suf = some d ∧ IsCallCard d := by
  obtain ⟨t, ht, hall⟩ := processCard_trace_owner h
  rw [ht, List.drop_left] at he
  obtain ⟨_, _, suf, d, o, h1, h2, h3, h4⟩ := hall e he
  rw [ho] at h3
  cases h3
  refine ⟨suf, d, h1, h2, ?_⟩
  rcases h4 with h4 | ⟨_, j, par, _, _, h5⟩
  · exact ownOps_callFunction d h4
  · exact absurd h5 (childOps_callFunction par j)

end Cao.C15
