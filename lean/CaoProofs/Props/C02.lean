import CaoProofs.Lemmas.GcLemmas
/-!
# C02 — garbage collection never invalidates a value the program can still use

`Reach h rs a`: the address `a` can be reached from the root addresses `rs` by following
`Heap.children` edges of objects that are allocated in `h`.

* `markLoop_sound`: the worklist marking of `CaoModel/Vm.lean` computes exactly `Reach`, for the
  fuel that `reachable` passes (`fuel_adequate`: no extra hypothesis is needed — duplicated roots,
  dangling addresses and even duplicated heap addresses are all covered by the bound);
* `gc_preserves_reachable`, `gc_frees_only_unreachable`, `gc_exact`, `gc_roots_unchanged`,
  `gc_idempotent`, `gc_no_dangling`;
* `allocBytes_obs` / `allocBytes_schedule_independent`: one allocation, whatever the schedule,
  changes the observable state only by freeing unreachable objects and by the counters.
-/
namespace Cao.C02
open Cao Cao.Vm Cao.Gc

/-! ## 1. reachability -/

/-- `a` is reachable from the roots `rs`: reflexive-transitive closure of the "is a child of an
    allocated object" relation, started at `rs` -/
inductive Reach (h : Heap) (rs : List Nat) : Nat → Prop
  | root {a : Nat} : a ∈ rs → Reach h rs a
  | step {a b : Nat} {o : Obj} :
      Reach h rs a → h.get a = some o → Val.obj b ∈ Heap.children o → Reach h rs b

theorem Reach.kid {h : Heap} {rs : List Nat} {a b : Nat} (ha : Reach h rs a)
    (hb : b ∈ kidsOf h a) : Reach h rs b := by
  obtain ⟨o, ho, hc⟩ := mem_kidsOf.mp hb
  exact Reach.step ha ho hc

/-- reachability is monotone in the root set (roots may be replaced by anything that reaches them) -/
theorem Reach.mono {h : Heap} {rs rs' : List Nat} (hrs : ∀ r ∈ rs, Reach h rs' r) {a : Nat}
    (ha : Reach h rs a) : Reach h rs' a := by
  induction ha with
  | root hr => exact hrs _ hr
  | step _ ho hc ih => exact Reach.step ih ho hc

/-- a set that contains the roots and is closed under children contains everything reachable -/
theorem Reach.subset_closed {h : Heap} {rs : List Nat} {S : Nat → Prop}
    (hroot : ∀ r ∈ rs, S r) (hclosed : ∀ a, S a → ∀ b ∈ kidsOf h a, S b) {a : Nat}
    (ha : Reach h rs a) : S a := by
  induction ha with
  | root hr => exact hroot _ hr
  | step _ ho hc ih => exact hclosed _ ih _ (mem_kidsOf.mpr ⟨_, ho, hc⟩)

/-! ## 2. the mark loop -/

/-- exactness needs no fuel: whatever gets marked was marked before or is reachable from the
    work list -/
theorem markLoop_exact (h : Heap) : ∀ (fuel : Nat) (work marked : List Nat) (x : Nat),
    x ∈ markLoop h fuel work marked → x ∈ marked ∨ Reach h work x := by
  intro fuel
  induction fuel with
  | zero => intro work marked x hx; rw [markLoop_zero] at hx; exact Or.inl hx
  | succ f ih =>
    intro work marked x hx
    cases work with
    | nil => rw [markLoop_nil] at hx; exact Or.inl hx
    | cons a work =>
      rw [markLoop_cons] at hx
      split at hx
      · rcases ih _ _ _ hx with h1 | h1
        · exact Or.inl h1
        · exact Or.inr (h1.mono (fun r hr => Reach.root (List.mem_cons_of_mem _ hr)))
      · rcases ih _ _ _ hx with h1 | h1
        · rcases List.mem_cons.mp h1 with rfl | h1
          · exact Or.inr (Reach.root List.mem_cons_self)
          · exact Or.inl h1
        · refine Or.inr (h1.mono ?_)
          intro r hr
          rcases List.mem_append.mp hr with hr | hr
          · exact Reach.kid (Reach.root List.mem_cons_self) hr
          · exact Reach.root (List.mem_cons_of_mem _ hr)

/-- the potential that bounds the number of iterations: the child references of the objects whose
    address is not marked yet (all list entries are counted, so duplicated addresses only make the
    bound larger) -/
def pot (l : List (Nat × Obj)) (marked : List Nat) : Nat :=
  (l.map (fun p => if p.1 ∈ marked then 0 else (Heap.children p.2).length)).sum

theorem pot_nil_marked (l : List (Nat × Obj)) :
    pot l [] = (l.map (fun p => (Heap.children p.2).length)).sum := by
  simp [pot]

theorem pot_cons (p : Nat × Obj) (l : List (Nat × Obj)) (marked : List Nat) :
    pot (p :: l) marked = (if p.1 ∈ marked then 0 else (Heap.children p.2).length) + pot l marked := by
  simp only [pot, List.map_cons, List.sum_cons]

theorem pot_cons_le (l : List (Nat × Obj)) (a : Nat) (marked : List Nat) :
    pot l (a :: marked) ≤ pot l marked := by
  induction l with
  | nil => simp [pot]
  | cons p l ih =>
    rw [pot_cons, pot_cons]
    have : (if p.1 ∈ a :: marked then 0 else (Heap.children p.2).length)
        ≤ (if p.1 ∈ marked then 0 else (Heap.children p.2).length) := by
      by_cases h1 : p.1 ∈ marked
      · rw [if_pos (List.mem_cons_of_mem _ h1)]; exact Nat.zero_le _
      · rw [if_neg h1]; split
        · exact Nat.zero_le _
        · exact Nat.le_refl _
    omega

/-- marking a new address pays for pushing its children -/
theorem pot_mark (l : List (Nat × Obj)) (a : Nat) (marked : List Nat) (ha : a ∉ marked) :
    pot l (a :: marked) +
      (match (l.find? (fun q : Nat × Obj => q.1 == a)).map (fun q : Nat × Obj => q.2) with
        | some o => addrs (Heap.children o)
        | none => []).length ≤ pot l marked := by
  induction l with
  | nil => simp [pot]
  | cons p l ih =>
    rw [pot_cons, pot_cons]
    by_cases hp : (p.1 == a) = true
    · have hpa : p.1 = a := by simpa using hp
      have h3 := pot_cons_le l a marked
      have h4 := length_addrs_le (Heap.children p.2)
      rw [if_pos (hpa ▸ List.mem_cons_self), if_neg (hpa ▸ ha)]
      simp only [List.find?_cons, hp, Option.map_some]
      omega
    · have hpa : ¬ p.1 = a := by simpa using hp
      have hc : (p.1 ∈ a :: marked) = (p.1 ∈ marked) := by
        simp [hpa]
      have hf : (p :: l).find? (fun q : Nat × Obj => q.1 == a)
          = l.find? (fun q : Nat × Obj => q.1 == a) := by
        simp [hpa]
      rw [hf]
      simp only [hc]
      omega

theorem pot_mark_heap (h : Heap) (a : Nat) (marked : List Nat) (ha : a ∉ marked) :
    pot h.objs (a :: marked) + (kidsOf h a).length ≤ pot h.objs marked := by
  have := pot_mark h.objs a marked ha
  unfold kidsOf Heap.get
  exact this

/-- the worklist invariant: the children of a marked address are marked or still queued -/
def WInv (h : Heap) (work marked : List Nat) : Prop :=
  ∀ x ∈ marked, ∀ k ∈ kidsOf h x, k ∈ marked ∨ k ∈ work

/-- with `work.length + pot` fuel the loop does not stop early: its result contains the marked
    set and the work list and is closed under children -/
theorem markLoop_closed (h : Heap) : ∀ (fuel : Nat) (work marked : List Nat),
    work.length + pot h.objs marked ≤ fuel → WInv h work marked →
    (∀ x ∈ marked, x ∈ markLoop h fuel work marked) ∧
    (∀ x ∈ work, x ∈ markLoop h fuel work marked) ∧
    (∀ x ∈ markLoop h fuel work marked, ∀ k ∈ kidsOf h x, k ∈ markLoop h fuel work marked) := by
  intro fuel
  induction fuel with
  | zero =>
    intro work marked hf hinv
    have hw : work = [] := by
      cases work with
      | nil => rfl
      | cons a w => simp at hf
    subst hw
    rw [markLoop_zero]
    refine ⟨fun _ hx => hx, fun _ hx => (by cases hx), ?_⟩
    intro x hx k hk
    rcases hinv x hx k hk with h1 | h1
    · exact h1
    · cases h1
  | succ f ih =>
    intro work marked hf hinv
    cases work with
    | nil =>
      rw [markLoop_nil]
      refine ⟨fun _ hx => hx, fun _ hx => (by cases hx), ?_⟩
      intro x hx k hk
      rcases hinv x hx k hk with h1 | h1
      · exact h1
      · cases h1
    | cons a work =>
      rw [markLoop_cons]
      by_cases hm : marked.contains a = true
      · rw [if_pos hm]
        have ham : a ∈ marked := by simpa using hm
        have hinv' : WInv h work marked := by
          intro x hx k hk
          rcases hinv x hx k hk with h1 | h1
          · exact Or.inl h1
          · rcases List.mem_cons.mp h1 with rfl | h1
            · exact Or.inl ham
            · exact Or.inr h1
        have hf' : work.length + pot h.objs marked ≤ f := by
          simp only [List.length_cons] at hf; omega
        obtain ⟨g1, g2, g3⟩ := ih work marked hf' hinv'
        refine ⟨g1, ?_, g3⟩
        intro x hx
        rcases List.mem_cons.mp hx with rfl | hx
        · exact g1 _ ham
        · exact g2 _ hx
      · rw [if_neg hm]
        have hm' : a ∉ marked := by simpa using hm
        have hinv' : WInv h (kidsOf h a ++ work) (a :: marked) := by
          intro x hx k hk
          rcases List.mem_cons.mp hx with rfl | hx
          · exact Or.inr (List.mem_append_left _ hk)
          · rcases hinv x hx k hk with h1 | h1
            · exact Or.inl (List.mem_cons_of_mem _ h1)
            · rcases List.mem_cons.mp h1 with rfl | h1
              · exact Or.inl List.mem_cons_self
              · exact Or.inr (List.mem_append_right _ h1)
        have hf' : (kidsOf h a ++ work).length + pot h.objs (a :: marked) ≤ f := by
          have := pot_mark_heap h a marked hm'
          simp only [List.length_cons, List.length_append] at hf ⊢; omega
        obtain ⟨g1, g2, g3⟩ := ih _ _ hf' hinv'
        refine ⟨fun x hx => g1 x (List.mem_cons_of_mem _ hx), ?_, g3⟩
        intro x hx
        rcases List.mem_cons.mp hx with rfl | hx
        · exact g1 _ List.mem_cons_self
        · exact g2 _ (List.mem_append_right _ hx)

/-- **soundness and exactness of the mark loop**, for any fuel of at least
    `work.length + pot h.objs marked`: the result is exactly the marked set plus what is
    reachable from the work list (and, by `markLoop_closed`, it is closed under children) -/
theorem markLoop_sound (h : Heap) (fuel : Nat) (work marked : List Nat)
    (hf : work.length + pot h.objs marked ≤ fuel) (hinv : WInv h work marked) (x : Nat) :
    x ∈ markLoop h fuel work marked ↔ x ∈ marked ∨ Reach h work x := by
  obtain ⟨g1, g2, g3⟩ := markLoop_closed h fuel work marked hf hinv
  constructor
  · exact markLoop_exact h fuel work marked x
  · rintro (h1 | h1)
    · exact g1 _ h1
    · exact Reach.subset_closed (S := fun y => y ∈ markLoop h fuel work marked) g2 g3 h1

/-- the fuel passed by `reachable` is adequate — unconditionally: each iteration either drops a
    work item or marks a new address and pushes at most as many items as that object has child
    references; duplicated roots are paid for by `rs.length`, dangling addresses have no
    children, and a duplicated heap address only makes `edgeCount` larger -/
theorem fuel_adequate (h : Heap) (rs : List Nat) :
    rs.length + pot h.objs [] ≤ rs.length + edgeCount h + h.objs.length + 1 := by
  have : edgeCount h = pot h.objs [] := by
    rw [pot_nil_marked, edgeCount, foldl_add_eq_sum]; simp
  omega

/-- `reachable s` is exactly the set of addresses reachable from the roots -/
theorem mem_reachable (s : VmState) (a : Nat) :
    a ∈ reachable s ↔ Reach s.heap (rootAddrs s) a := by
  rw [reachable_eq, markLoop_sound s.heap _ _ [] (fuel_adequate s.heap (rootAddrs s))
    (fun _ hx => by cases hx)]
  constructor
  · rintro (h1 | h1)
    · cases h1
    · exact h1
  · intro h1; exact Or.inr h1

/-! ## 3. the collector keeps exactly the reachable objects -/

theorem gc_heap_objs (s : VmState) :
    (gc s).heap.objs = s.heap.objs.filter (fun p => (reachable s).contains p.1) := by
  simp [gc, List.partition_eq_filter_filter]

theorem gc_heap_next (s : VmState) : (gc s).heap.next = s.heap.next := rfl

theorem gc_allocated (s : VmState) :
    (gc s).mem.allocated = s.mem.allocated -
      ((s.heap.objs.filter (fun p => !(reachable s).contains p.1)).map
        (fun p => Heap.chargeOf p.2)).sum := by
  simp only [gc, List.partition_eq_filter_filter, foldl_add_eq_sum, Nat.zero_add]
  rfl

/-- `gc` does not touch the roots (nor anything but the heap, the byte counter and a ghost counter) -/
theorem gc_roots_unchanged (s : VmState) :
    (gc s).stack = s.stack ∧ (gc s).globals = s.globals ∧ (gc s).frames = s.frames ∧
    (gc s).openUpvalues = s.openUpvalues ∧ (gc s).guards = s.guards ∧
    (gc s).mem.limit = s.mem.limit ∧ (gc s).mem.nextGc = s.mem.nextGc ∧
    (gc s).heap.next = s.heap.next ∧ roots (gc s) = roots s :=
  ⟨rfl, rfl, rfl, rfl, rfl, rfl, rfl, rfl, rfl⟩

theorem rootAddrs_gc (s : VmState) : rootAddrs (gc s) = rootAddrs s := rfl

/-- the heap after a collection, address by address -/
theorem gc_get (s : VmState) (a : Nat) :
    (gc s).heap.get a = if a ∈ reachable s then s.heap.get a else none := by
  unfold Heap.get
  rw [gc_heap_objs]
  split
  · rename_i ha
    rw [find?_filter_of_imp]
    intro x _ hx
    have : x.1 = a := by simpa using hx
    simpa [this] using ha
  · rename_i ha
    have : (s.heap.objs.filter (fun p => (reachable s).contains p.1)).find?
        (fun q => q.1 == a) = none := by
      rw [List.find?_eq_none]
      intro x hx hxa
      have h1 : x.1 = a := by simpa using hxa
      have h2 := (List.mem_filter.mp hx).2
      rw [h1] at h2
      exact ha (by simpa using h2)
    rw [this]; rfl

/-- **a reachable object survives the collection unchanged** -/
theorem gc_preserves_reachable (s : VmState) (a : Nat)
    (h : Reach s.heap (rootAddrs s) a) : (gc s).heap.get a = s.heap.get a := by
  rw [gc_get, if_pos ((mem_reachable s a).mpr h)]

/-- **whatever the collection frees was unreachable** -/
theorem gc_frees_only_unreachable (s : VmState) (a : Nat) (o : Obj)
    (hpre : s.heap.get a = some o) (hpost : (gc s).heap.get a = none) :
    ¬ Reach s.heap (rootAddrs s) a := by
  intro h
  rw [gc_preserves_reachable s a h, hpre] at hpost
  cases hpost

/-- **after the collection the allocated objects are exactly the reachable ones** (list level:
    the surviving entries are the entries whose address is reachable, in the same order) -/
theorem gc_exact (s : VmState) (p : Nat × Obj) :
    p ∈ (gc s).heap.objs ↔ p ∈ s.heap.objs ∧ Reach s.heap (rootAddrs s) p.1 := by
  rw [gc_heap_objs, List.mem_filter, ← mem_reachable]
  simp

/-- address level version of `gc_exact` -/
theorem gc_exact_get (s : VmState) (a : Nat) (o : Obj) :
    (gc s).heap.get a = some o ↔ s.heap.get a = some o ∧ Reach s.heap (rootAddrs s) a := by
  rw [gc_get, ← mem_reachable]
  split
  · rename_i h; simp [h]
  · rename_i h; simp [h]

/-- everything unreachable is gone -/
theorem gc_frees_unreachable (s : VmState) (a : Nat)
    (h : ¬ Reach s.heap (rootAddrs s) a) : (gc s).heap.get a = none := by
  rw [gc_get, if_neg (fun hm => h ((mem_reachable s a).mp hm))]

/-- two heaps that agree on everything reachable in the first have the same reachable set -/
theorem Reach.transfer {h h' : Heap} {rs : List Nat}
    (hag : ∀ a, Reach h rs a → h'.get a = h.get a) {a : Nat} (ha : Reach h rs a) :
    Reach h' rs a := by
  induction ha with
  | root hr => exact Reach.root hr
  | step hr ho hc ih => exact Reach.step ih (by rw [hag _ hr]; exact ho) hc

theorem reach_gc_iff (s : VmState) (a : Nat) :
    Reach (gc s).heap (rootAddrs (gc s)) a ↔ Reach s.heap (rootAddrs s) a := by
  rw [rootAddrs_gc]
  constructor
  · intro h
    induction h with
    | root hr => exact Reach.root hr
    | step _ ho hc ih => exact Reach.step ih ((gc_exact_get s _ _).mp ho).1 hc
  · intro h
    exact Reach.transfer (fun a ha => gc_preserves_reachable s a ha) h

/-! ## 4. idempotence -/

/-- a second collection right after the first frees nothing -/
theorem gc_idempotent (s : VmState) :
    (gc (gc s)).heap = (gc s).heap ∧ (gc (gc s)).mem = (gc s).mem := by
  have hall : ∀ p ∈ (gc s).heap.objs, (reachable (gc s)).contains p.1 = true := by
    intro p hp
    have := ((gc_exact s p).mp hp).2
    have := (mem_reachable (gc s) p.1).mpr ((reach_gc_iff s p.1).mpr this)
    simpa using this
  have hobjs : (gc (gc s)).heap.objs = (gc s).heap.objs := by
    rw [gc_heap_objs (gc s)]
    exact List.filter_eq_self.mpr hall
  have hdead : (gc s).heap.objs.filter (fun p => !(reachable (gc s)).contains p.1) = [] := by
    rw [List.filter_eq_nil_iff]
    intro p hp
    have := hall p hp
    simp only [List.contains_eq_mem, decide_eq_true_eq] at this
    simp [this]
  constructor
  · show ({ (gc s).heap with objs := (gc (gc s)).heap.objs } : Heap) = (gc s).heap
    rw [hobjs]
  · have h1 := gc_allocated (gc s)
    rw [hdead] at h1
    have h2 : (gc (gc s)).mem = { (gc s).mem with allocated := (gc (gc s)).mem.allocated } := rfl
    rw [h2, h1]
    simp

/-! ## 5. no dangling references -/

def Present (h : Heap) (a : Nat) : Prop := ∃ o, h.get a = some o

/-- every root address and every child of an allocated object is allocated -/
def NoDangling (s : VmState) : Prop :=
  (∀ a ∈ rootAddrs s, Present s.heap a) ∧
  (∀ a o b, s.heap.get a = some o → Val.obj b ∈ Heap.children o → Present s.heap b)

/-- in a heap without dangling references, everything reachable is allocated -/
theorem reach_present {s : VmState} (hnd : NoDangling s) {a : Nat}
    (h : Reach s.heap (rootAddrs s) a) : Present s.heap a := by
  cases h with
  | root hr => exact hnd.1 _ hr
  | step _ ho hc => exact hnd.2 _ _ _ ho hc

/-- **the collection creates no dangling reference** -/
theorem gc_no_dangling (s : VmState) (hnd : NoDangling s) : NoDangling (gc s) := by
  constructor
  · intro a ha
    have hr : Reach s.heap (rootAddrs s) a := Reach.root ha
    obtain ⟨o, ho⟩ := reach_present hnd hr
    exact ⟨o, by rw [gc_preserves_reachable s a hr]; exact ho⟩
  · intro a o b ho hc
    obtain ⟨ho', hr⟩ := (gc_exact_get s a o).mp ho
    have hb : Reach s.heap (rootAddrs s) b := Reach.step hr ho' hc
    obtain ⟨o', ho'⟩ := reach_present hnd hb
    exact ⟨o', by rw [gc_preserves_reachable s b hb]; exact ho'⟩

/-- consequently: every value the program can still get hold of (a root, or a component of a
    reachable object) denotes the same allocated object after the collection -/
theorem gc_usable_values_valid (s : VmState) (hnd : NoDangling s) (a : Nat)
    (h : Reach s.heap (rootAddrs s) a) :
    ∃ o, s.heap.get a = some o ∧ (gc s).heap.get a = some o := by
  obtain ⟨o, ho⟩ := reach_present hnd h
  exact ⟨o, ho, by rw [gc_preserves_reachable s a h]; exact ho⟩

/-! ## 6. one allocation is observationally independent of the collection schedule -/

/-- two states are observationally equal when their roots are identical and their heaps are
    identical on everything reachable from those roots (they may differ in unreachable objects,
    in the allocator counters, in the schedule and in ghost counters); the next fresh address is
    part of the observation because it becomes the value of the next object -/
structure ObsEq (s t : VmState) : Prop where
  stack : t.stack = s.stack
  globals : t.globals = s.globals
  frames : t.frames = s.frames
  openUpvalues : t.openUpvalues = s.openUpvalues
  guards : t.guards = s.guards
  next : t.heap.next = s.heap.next
  fwd : ∀ a, Reach s.heap (rootAddrs s) a → t.heap.get a = s.heap.get a
  bwd : ∀ a, Reach t.heap (rootAddrs t) a → s.heap.get a = t.heap.get a

theorem ObsEq.rootAddrs_eq {s t : VmState} (h : ObsEq s t) : rootAddrs t = rootAddrs s := by
  unfold rootAddrs roots
  rw [h.stack, h.globals, h.frames, h.openUpvalues, h.guards]

theorem ObsEq.refl (s : VmState) : ObsEq s s :=
  ⟨rfl, rfl, rfl, rfl, rfl, rfl, fun _ _ => rfl, fun _ _ => rfl⟩

theorem ObsEq.symm {s t : VmState} (h : ObsEq s t) : ObsEq t s :=
  ⟨h.stack.symm, h.globals.symm, h.frames.symm, h.openUpvalues.symm, h.guards.symm, h.next.symm,
   h.bwd, h.fwd⟩

/-- observationally equal states have the same reachable addresses -/
theorem ObsEq.reach_iff {s t : VmState} (h : ObsEq s t) (a : Nat) :
    Reach t.heap (rootAddrs t) a ↔ Reach s.heap (rootAddrs s) a := by
  constructor
  · intro ha
    have := Reach.transfer h.bwd ha
    rwa [h.rootAddrs_eq] at this
  · intro ha
    have := Reach.transfer h.fwd ha
    rwa [← h.rootAddrs_eq] at this

theorem ObsEq.trans {s t u : VmState} (h1 : ObsEq s t) (h2 : ObsEq t u) : ObsEq s u where
  stack := h2.stack.trans h1.stack
  globals := h2.globals.trans h1.globals
  frames := h2.frames.trans h1.frames
  openUpvalues := h2.openUpvalues.trans h1.openUpvalues
  guards := h2.guards.trans h1.guards
  next := h2.next.trans h1.next
  fwd := fun a ha => (h2.fwd a ((h1.reach_iff a).mpr ha)).trans (h1.fwd a ha)
  bwd := fun a ha => (h1.bwd a ((h2.reach_iff a).mp ha)).trans (h2.bwd a ha)

/-- changing only counters / schedule / ghost fields is unobservable -/
theorem obsEq_of_same {s t : VmState} (h1 : t.stack = s.stack) (h2 : t.globals = s.globals)
    (h3 : t.frames = s.frames) (h4 : t.openUpvalues = s.openUpvalues) (h5 : t.guards = s.guards)
    (h6 : t.heap = s.heap) : ObsEq s t :=
  ⟨h1, h2, h3, h4, h5, by rw [h6], fun _ _ => by rw [h6], fun _ _ => by rw [h6]⟩

/-- a collection is unobservable -/
theorem obsEq_gc (s : VmState) : ObsEq s (gc s) where
  stack := rfl
  globals := rfl
  frames := rfl
  openUpvalues := rfl
  guards := rfl
  next := rfl
  fwd := fun a ha => gc_preserves_reachable s a ha
  bwd := fun a ha => (gc_preserves_reachable s a ((reach_gc_iff s a).mp ha)).symm

theorem obsEq_collect (s : VmState) : ObsEq s (collect s) :=
  (obsEq_gc s).trans (obsEq_of_same rfl rfl rfl rfl rfl rfl)

theorem obsEq_allocCollected (c : Nat) (s : VmState) : ObsEq s (allocCollected c s) := by
  have h0 : ObsEq s (allocCharged c s) := obsEq_of_same rfl rfl rfl rfl rfl rfl
  unfold allocCollected
  split
  · exact h0.trans (obsEq_collect _)
  · exact h0

/-- **whatever the schedule bit, the threshold and the outcome, `allocBytes` changes the
    observable state in no way**: stack, globals, frames, open upvalues, guards and the next
    address are identical, and every object reachable from the roots is identical -/
theorem allocBytes_obs (c : Nat) (s : VmState) : ObsEq s ((allocBytes c).run.run s).2 := by
  rw [allocBytes_run]
  unfold allocPure
  have h := obsEq_allocCollected c s
  dsimp only
  split
  · exact h.trans (obsEq_of_same rfl rfl rfl rfl rfl rfl)
  · exact h

/-- the result of `allocBytes` compared with the result of the run in which no collection
    happens (`allocCharged`: only the charge is added): same observable state; and the heap is
    either untouched or the collected heap -/
theorem allocBytes_vs_no_collection (c : Nat) (s : VmState) :
    ObsEq (allocCharged c s) ((allocBytes c).run.run s).2 ∧
    (((allocBytes c).run.run s).2.heap = s.heap ∨
     ((allocBytes c).run.run s).2.heap = (gc s).heap) := by
  refine ⟨(ObsEq.symm (obsEq_of_same rfl rfl rfl rfl rfl rfl : ObsEq s (allocCharged c s))).trans
    (allocBytes_obs c s), ?_⟩
  rw [allocBytes_run]
  unfold allocPure allocCollected
  dsimp only
  split <;> split <;> first | exact Or.inr rfl | exact Or.inl rfl

/-- **schedule independence of one allocation**: from observationally equal states (in
    particular: from the same state under two different schedules), two allocations — of any
    sizes, collecting or not, succeeding or not — end in observationally equal states -/
theorem allocBytes_schedule_independent (c₁ c₂ : Nat) (s₁ s₂ : VmState) (h : ObsEq s₁ s₂) :
    ObsEq ((allocBytes c₁).run.run s₁).2 ((allocBytes c₂).run.run s₂).2 :=
  ((allocBytes_obs c₁ s₁).symm.trans h).trans (allocBytes_obs c₂ s₂)

theorem allocBytes_any_schedule (c : Nat) (s : VmState) (sch₁ sch₂ : Sched) (i₁ i₂ : Nat) :
    ObsEq ((allocBytes c).run.run { s with sched := sch₁, allocIndex := i₁ }).2
          ((allocBytes c).run.run { s with sched := sch₂, allocIndex := i₂ }).2 :=
  allocBytes_schedule_independent c c _ _ (obsEq_of_same rfl rfl rfl rfl rfl rfl)

/-- the same for the object constructors: a new object gets the same address and the same
    contents under both schedules (when both succeed) -/
theorem withObject_obs (o : Obj) (s₁ s₂ : VmState) (h : ObsEq s₁ s₂) :
    (withObject o s₂).heap.next = (withObject o s₁).heap.next ∧
    (withObject o s₂).guards = (withObject o s₁).guards ∧
    (withObject o s₂).stack = (withObject o s₁).stack := by
  simp only [withObject, h.next, h.guards, h.stack, and_self]

/-- Not proved here: schedule independence of *whole runs*. Statement: for every program `p`,
    budget `n` and state `s`, and any two schedules, `run p n {s with sched := sch₁}` and
    `run p n {s with sched := sch₂}` end with the same outcome (error kind and position), the
    same host log and `ObsEq` final states, provided `Ledger`-style accounting holds (so that
    out-of-memory is decided by the live size, see `C05.alloc_outcome_iff`) and heap addresses
    are unique. It needs a simulation argument showing that every instruction of `step` maps
    `ObsEq` states to `ObsEq` states (each instruction only reads the heap through roots); the
    allocation case of that argument is `allocBytes_schedule_independent`. The `gc` engine of the
    driver tests this statement on generated programs. -/
def schedule_independence_Full : Prop :=
  ∀ (p : Prog) (n : Nat) (s : VmState) (sch₁ sch₂ : Sched),
    s.mem.allocated = (s.heap.objs.map (fun q => Heap.chargeOf q.2)).sum →
    (s.heap.objs.map (fun q => q.1)).Nodup → (∀ q ∈ s.heap.objs, q.1 < s.heap.next) →
    ObsEq (run p n { s with sched := sch₁ }).1 (run p n { s with sched := sch₂ }).1 ∧
    ((run p n { s with sched := sch₁ }).2.map (fun e => (e.kind.name, e.at_))) =
      ((run p n { s with sched := sch₂ }).2.map (fun e => (e.kind.name, e.at_))) ∧
    (run p n { s with sched := sch₁ }).1.hostLog = (run p n { s with sched := sch₂ }).1.hostLog

/-! ## 7. non-vacuity -/

/-- objects 1 and 2 form a cycle, 3 is shared by both, 4 is garbage (and points into the live
    part), 5 is kept alive only by a guard; the only other root is the global `obj 1` -/
def demo : VmState :=
  { stack := VStack.new 4, frameCap := 4, mem := { allocated := 1000, nextGc := 2000, limit := 4000 },
    globals := [.int 7, .obj 1],
    guards := [5],
    heap := { objs := [(1, .table 8 [(.int 0, .obj 2), (.int 1, .obj 3)]),
                       (2, .table 8 [(.obj 3, .obj 1)]),
                       (3, .str [104, 105]),
                       (4, .table 8 [(.int 0, .obj 1)]),
                       (5, .closure 0 0 [])],
              next := 6 } }

example : reachable demo = [5, 3, 2, 1] := by decide
example : (gc demo).heap.objs.map (·.1) = [1, 2, 3, 5] := by decide
example : ((gc demo).heap.get 4).isNone = true ∧ ((gc demo).heap.get 3).isSome = true := by decide
example : (gc demo).mem.allocated = 1000 - Heap.chargeOf (.table 8 []) := by decide
example : Reach demo.heap (rootAddrs demo) 3 :=
  Reach.step (a := 1) (o := .table 8 [(.int 0, .obj 2), (.int 1, .obj 3)])
    (Reach.root (by decide)) rfl (by decide)
example : ¬ Reach demo.heap (rootAddrs demo) 4 :=
  fun h => absurd ((mem_reachable demo 4).mpr h) (by decide)

end Cao.C02
