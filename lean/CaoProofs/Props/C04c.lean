import CaoProofs.Props.C04
import CaoProofs.Props.C10b
import CaoProofs.Lemmas.CaptureStatic
import CaoProofs.Lemmas.CaptureExec
import CaoProofs.Lemmas.CaptureCheck
import CaoProofs.Lemmas.CaptureCompiled
/-!
# C04c — the capture assertions of `RegisterUpvalue` in runs of COMPILED programs

## 1. The former counterexample (K9) no longer reaches the capture assertions

`abortInCallback`: `main` binds a local `x` and a closure `f`; `f` passes the function `h` to the host
function `papply` (which calls it back through `run_function`), then creates a closure that captures
`x` — a non-local capture (`RegisterUpvalue 0 0`), since `x` is an upvalue of `f`.  `h` is `abort`.

`Exit` inside the callback makes the nested dispatch loop return normally.  BEFORE the repair of
`run_function`, it then popped only one of the two frames it had pushed, so `h`'s frame — with no
closure — stayed on the call stack and `f` continued under it; the non-local capture then found no
closure in the running frame: `panic "closure not found for capture"` (K9, a consequence of K6).
`run_function` now pops the call stack back to its entry depth however the callee ended, `f`
continues under its own frame, the capture succeeds and the run ends normally
(`abort_in_callback_no_longer_panics`).  The statement "compiled programs never reach the capture
assertions" (`compiled_run_no_capture_panic_Full`) is therefore no longer refuted; it is proved for every
program that passes the executable checker `capStaticB` (§3, `run_no_capture_panic`), which this program
does (`ac_capStatic`), and for ALL compiled programs under the no-collision hypotheses on closure and
function-pointer handles (§5, `compiled_capStatic`, `compiled_run_no_capture_panic`).

The program is compiled, accepted by the checker (`Bytecode.WF`), satisfies all hypotheses of
`C10b.compile_wf`, and is run from a fresh machine.
-/
namespace Cao.C04c
open Cao Cao.Compiler Cao.Bytecode Cao.Vm Cao.C10 Cao.C10b

/-! `String.splitOn` does not reduce in the kernel: the compilation is evaluated on a `splitOn`-free
twin, as in `Props/C10b.lean`. -/

theorem splitOn_f : ("f" : String).splitOn "." = ["f"] := by
  simp (config := {decide := true}) [String.splitOn, String.splitOnAux]
theorem splitOn_h : ("h" : String).splitOn "." = ["h"] := by
  simp (config := {decide := true}) [String.splitOn, String.splitOnAux]

def acMain : List Card :=
  [.setVar "x" (.scalarInt 1),
   .setVar "f" (.closure [] [.callNative "papply" [.function "h"], .closure [] [.readVar "x"]]),
   .dynamicCall [] (.readVar "f")]

/-- the counterexample module -/
def abortInCallback : Module :=
  Module.mk [] [("main", ⟨[], acMain⟩), ("h", ⟨[], [.abort]⟩)] []

def acMainIr : FunctionIr :=
  { functionIndex := 0, name := "main", arguments := [], cards := acMain, ns := [], imports := [],
    handle := Hash.handleFromU64 (UInt64.ofNat 0) }
def acHIr : FunctionIr :=
  { functionIndex := 1, name := "h", arguments := [], cards := [.abort], ns := [], imports := [],
    handle := Hash.handleFromU64 (UInt64.ofNat 1) }

theorem ac_ir : intoIrStream abortInCallback stdE Gen.recursionLimit = .ok #[acMainIr, acHIr] := by rfl

def readFT : {A : CM Unit // readVarCard "f" = A} := ⟨_, by unfold readVarCard; rw [splitOn_f]⟩
def setFT : {A : CM Unit // setVarTarget "f" = A} := ⟨_, by unfold setVarTarget; rw [splitOn_f]⟩
def jumpHT : {A : CM Unit // encodeJump "h" = A} :=
  ⟨_, by unfold encodeJump resolveFunction; rw [splitOn_h]⟩

def acMainT : {A : CM Unit // processFunctionCards 0 acMain = A} :=
  ⟨_, by
    simp only [acMain, processFunctionCards, processCard, compileSubexprFrom, setVarCode,
      readXT.2, setXT.2, readFT.2, setFT.2, jumpHT.2]
    rfl⟩

def acUnitT : {A : CM Unit // compileUnit #[acMainIr, acHIr] = A} :=
  ⟨_, by
    have h0 : (#[acMainIr, acHIr])[0]! = acMainIr := rfl
    have hc : acMainIr.cards = acMain := rfl
    simp only [compileUnit, h0, processFunction, hc, acMainT.2]; rfl⟩

theorem ac_compile : compile abortInCallback stdE = finish (acUnitT.1.run {}) := by
  rw [← acUnitT.2]
  unfold compile
  rw [ac_ir]
  rfl

theorem ac_labelLog : labelLog abortInCallback stdE Gen.recursionLimit = labelsOf (acUnitT.1.run {}) := by
  rw [← acUnitT.2]
  unfold labelLog
  rw [ac_ir]
  rfl

/-- does the run of a compiled module from a fresh machine end without an error, with an empty call
    stack, after 21 dispatched instructions? -/
def endsNormally (r : Except CErr Program) : Bool :=
  match r with
  | .error _ => false
  | .ok p =>
    match run (Prog.ofProgram p) 10000 (VmState.fresh {}) with
    | (s', none) => s'.frames.length == 0 && s'.dispatches == 21
    | (_, some _) => false

theorem ac_ends_check : endsNormally (compile abortInCallback stdE) = true := by
  rw [ac_compile]
  decide +kernel

/-- executable form of the hypotheses of `C10b.compile_wf` for a module whose entry function has
handle `mainH`: small, no function pointer to the entry function, label handles pairwise different -/
def hypsCheck (mainH : UInt32) (r : Except CErr Program) (log : List (UInt32 × Nat)) : Bool :=
  match r with
  | .error _ => false
  | .ok p =>
    decide (p.bytecode.size < 2 ^ 31) && decide (p.data.size < 2 ^ 32) &&
    (match decodeAll p.bytecode (p.bytecode.size + 1) 0 [] with
     | .ok l => l.all (fun x => x.2 != op.functionPointer || UInt32.ofNat (Bytecode.rdU32 p.bytecode (x.1 + 1)) != mainH)
     | .error _ => false) &&
    decide ((log.map (·.1)).Pairwise (· ≠ ·))

theorem ac_hypsCheck : hypsCheck acMainIr.handle (compile abortInCallback stdE)
    (labelLog abortInCallback stdE Gen.recursionLimit) = true := by
  rw [ac_compile, ac_labelLog]
  decide +kernel

/-- the hypotheses of `C10b.compile_wf` hold for the counterexample, hence it is well-formed -/
theorem ac_hyps : ∃ p, compile abortInCallback stdE = .ok p ∧ p.bytecode.size < 2 ^ 31 ∧
    p.data.size < 2 ^ 32 ∧ NoEntryRef abortInCallback stdE Gen.recursionLimit p ∧
    ClosureHandlesDistinct abortInCallback stdE Gen.recursionLimit p ∧ Bytecode.WF p := by
  have h := ac_hypsCheck
  unfold hypsCheck at h
  split at h
  · cases h
  · rename_i p hp
    simp only [Bool.and_eq_true, decide_eq_true_eq] at h
    obtain ⟨⟨⟨h1, h2⟩, h3⟩, h4⟩ := h
    have hentry : NoEntryRef abortInCallback stdE Gen.recursionLimit p := by
      intro unit hu pos hi
      rw [ac_ir] at hu
      simp only [Except.ok.injEq] at hu
      subst hu
      obtain ⟨l, hl, hmem, _⟩ := compile_decodes hp
      rw [hl] at h3
      have := List.all_eq_true.1 h3 _ ((hmem _ _).2 hi)
      simp only [bne_self_eq_false, Bool.false_or, bne_iff_ne, ne_eq] at this
      exact this
    have hd := LabelHandlesDistinct.closure (functional_of_pairwise _ h4) p
    exact ⟨p, hp, h1, h2, hentry, hd, compile_wf hp h1 h2 hentry hd⟩

/-- **`abort_in_callback_no_longer_panics`** (was `abort_in_callback_reaches_capture_panic`, K9): the
same compiled program, which satisfies every hypothesis of `C10b.compile_wf` (so it is `Bytecode.WF`),
in the same run from a fresh machine, no longer reports `panic "closure not found for capture"`: the
run reports NO error at all, and ends with an empty call stack after 21 dispatched instructions.  The
`abort` (`Exit`) inside the function that the host function calls back ends only that callee;
`run_function` pops the call stack back to its entry depth, and the caller's next non-local capture
runs under the caller's own frame. -/
theorem abort_in_callback_no_longer_panics :
    ∃ p, compile abortInCallback stdE = .ok p ∧ Bytecode.WF p ∧
      NoEntryRef abortInCallback stdE Gen.recursionLimit p ∧
      ClosureHandlesDistinct abortInCallback stdE Gen.recursionLimit p ∧
      (run (Prog.ofProgram p) 10000 (VmState.fresh {})).2 = none ∧
      (run (Prog.ofProgram p) 10000 (VmState.fresh {})).1.frames = [] ∧
      (run (Prog.ofProgram p) 10000 (VmState.fresh {})).1.dispatches = 21 := by
  obtain ⟨p, hp, _, _, h3, h4, h5⟩ := ac_hyps
  refine ⟨p, hp, h5, h3, h4, ?_⟩
  have h := ac_ends_check
  rw [hp] at h
  unfold endsNormally at h
  dsimp only at h
  split at h
  · next s' heq =>
    rw [heq]
    simp only [Bool.and_eq_true, beq_iff_eq, List.length_eq_zero_iff] at h
    exact ⟨rfl, h.1, h.2⟩
  · cases h


/-! ## 2. Stage 1: static facts about compiled programs -/

/-- **(a) the tails of closure expressions**: in a compiled program every `CopyLast` and every
`RegisterUpvalue` instruction belongs to the tail of a closure expression: there is a `Closure`
instruction at `c` and a pair index `k` such that the instruction is the `CopyLast` at `c + 9 + 4 k` or
the `RegisterUpvalue` at `c + 9 + 4 k + 1`, directly after that `CopyLast` (so a `RegisterUpvalue` is
always reached by falling through its `CopyLast`, which follows the `Closure` instruction or the previous
pair) -/
theorem compile_tail_structure {m std : Module} {limit : Nat} {p : Program}
    (h : compile m std limit = .ok p) {x : Nat} {o : UInt8} (hi : IsInstr p x o)
    (ho : o = op.copyLast ∨ o = op.registerUpvalue) :
    ∃ c k, IsInstr p c op.closure ∧ c + 9 + 4 * k < p.bytecode.size ∧
      ((x = c + 9 + 4 * k ∧ o = op.copyLast) ∨
       (x = c + 9 + 4 * k + 1 ∧ o = op.registerUpvalue ∧ p.bytecode.getD (x - 1) 0 = op.copyLast)) := by
  obtain ⟨unit, s, _, hrun, hbc, _, _⟩ := compile_run h
  have T := compileUnit_level hrun
  rw [← hbc] at T
  obtain ⟨h1, h2, h3⟩ := hi
  obtain ⟨c, k, _, hc1, hc2, hc3, hor⟩ := T.tail_instr x h1 h2 (by rw [← h3]; exact ho)
  refine ⟨c, k, ⟨hc1, by omega, hc2.symm⟩, hc3, ?_⟩
  rcases hor with ⟨e1, e2⟩ | ⟨e1, e2, e3, _⟩
  · exact .inl ⟨e1, by rw [h3, e2]⟩
  · exact .inr ⟨e1, by rw [h3, e2], e3⟩

/-- **the label of a region is its start**: the handle of a `Closure` instruction at `c` is mapped by
the label table to the position right behind a 5-byte instruction that starts before `c` (the skip
`Goto` of the closure expression), provided the closure handles do not collide -/
theorem compile_closure_label {m std : Module} {limit : Nat} {p : Program}
    (h : compile m std limit = .ok p) (hd : ClosureHandlesDistinct m std limit p) {c : Nat}
    (hi : IsInstr p c op.closure) :
    ∃ a e, a + 5 ≤ c ∧ p.labels.find? (fun l => l.1 == UInt32.ofNat (Bytecode.rdU32 p.bytecode (c + 1))) = some e ∧
      e.2 = a + 5 := by
  obtain ⟨unit, s, _, hrun, hbc, hlab, hlog⟩ := compile_run h
  have T := compileUnit_level hrun
  rw [← hbc] at T
  obtain ⟨a, _, h2, h3⟩ := T.closure_label c hi.1 hi.2.1 hi.2.2.symm
  rw [← hlog] at h3
  obtain ⟨e, he, hes⟩ := find_label h3 (fun l2 hl2 e2 => hd c hi _ h3 l2 hl2 rfl e2)
  rw [hlog, ← hlab] at he
  exact ⟨a, e, h2, he, hes⟩

/-- **(b)** is `C10b.compile_upvalues_checked`: a non-local `RegisterUpvalue j` of a compiled program
lies in a closure region whose count is above `j` -/
theorem compile_nonlocal_in_region {m std : Module} {limit : Nat} {p : Program}
    (h : compile m std limit = .ok p) (hd : ClosureHandlesDistinct m std limit p) : UpvaluesChecked p :=
  compile_upvalues_checked h hd

/-! ## 3. Stages A–C: programs with the static facts `CapStatic` never reach the capture assertions

`Lemmas/CaptureRun.lean` … `Lemmas/CaptureExec.lean` contain the dynamic proof:

* the invariant `InvX`: every `fn` object enters code of level 0 (`FnSafe`), every closure object is
  `Complete` (its handle enters code whose level is at most its number of upvalues), the obligations
  `(closure of a frame, level it continues at)` hold and are rooted in the call stack; one closure — under
  construction, on top of the stack — may be exempt;
* **stage A** `Cao.Vm.st_step` (one lemma per opcode, `st_op_*`; `st_regUp`, `st_copyLast_tail` for the
  instructions behind a `Closure`): one instruction keeps the invariant and raises only `NoCap` errors;
* **stage B** `Cao.Vm.exec_capture` (induction on the fuel, both tasks of `exec`),
  `Cao.Vm.run_no_capture_panic_of`, `Cao.Vm.run_keeps_inv`;
* **stage C** `capStaticB` (`Lemmas/CapCheckDef.lean`, model imports only, so that it can be linked into
  the differential driver): an executable checker of `CapStatic`; `capStaticB_sound`
  (`Lemmas/CaptureCheck.lean`).

`CapStatic` no longer has the field `noExit` (and no parameter `Cal`): `run_function` pops the call stack
back to its entry depth, an `Exit` in a callee just ends the callee.  Two fields were added:
`lastLvl` (the final `Exit`, the return address `run_function` gives its callee, has level 0) and
`entryLvl` (`lvl 0 = 0`).  `StepQ.ret`/`st_step` need the obligations below the running frame to be rooted
below it (`RootedIn W0 fs0`): the statement `st_step_Full` of the previous version was not provable
without it (an obligation rooted only in the frame that returns would be lost). -/

/-- **stage B, for a fresh machine** -/
theorem run_no_capture_panic_fresh {p : Prog} {G : Nat → Prop} {lvl cnt : Nat → Nat}
    (hs : CapStatic p G lvl cnt) (hc : Cfi p G) (h0 : G 0) (n : Nat) (c : Config) (e : RunErr)
    (h : (run p n (VmState.fresh c)).2 = some e) : NoCap e.kind :=
  run_no_capture_panic_of hs hc h0 n _ (invX_fresh c) (fun f hf => by cases hf) e h

/-- **stage B, for a cleared machine** -/
theorem run_no_capture_panic_clear {p : Prog} {G : Nat → Prop} {lvl cnt : Nat → Nat}
    (hs : CapStatic p G lvl cnt) (hc : Cfi p G) (h0 : G 0) (n : Nat) (s : VmState) (e : RunErr)
    (h : (run p n (clear s)).2 = some e) : NoCap e.kind :=
  run_no_capture_panic_of hs hc h0 n _ (invX_clear s) (fun f hf => by cases hf) e h

/-- **`run_no_capture_panic`** (stages B + C): a well-formed program that passes the executable checker
`capStaticB`, run with any budget from a fresh machine, never reports an error whose root cause is one of
the two capture assertions of `RegisterUpvalue` -/
theorem run_no_capture_panic {p : Program} (hwf : Bytecode.WF p) (hcs : capStaticB p = true) (n : Nat)
    (c : Config) (e : RunErr) (h : (run (Prog.ofProgram p) n (VmState.fresh c)).2 = some e) :
    rootCause e.kind ≠ .panic "closure not found for capture" ∧
    rootCause e.kind ≠ .panic "upvalue index out of bounds" :=
  run_no_capture_panic_fresh (capStaticB_sound_at hcs) (C04.wf_cfi hwf).1 (C04.wf_cfi hwf).2 n c e h

/-- the same from a cleared machine -/
theorem run_no_capture_panic_cleared {p : Program} (hwf : Bytecode.WF p) (hcs : capStaticB p = true) (n : Nat)
    (s : VmState) (e : RunErr) (h : (run (Prog.ofProgram p) n (clear s)).2 = some e) :
    rootCause e.kind ≠ .panic "closure not found for capture" ∧
    rootCause e.kind ≠ .panic "upvalue index out of bounds" :=
  run_no_capture_panic_clear (capStaticB_sound_at hcs) (C04.wf_cfi hwf).1 (C04.wf_cfi hwf).2 n s e h

/-- **combined with `C04.run_no_panic_partial`**: for a well-formed program that passes `capStaticB`, run
from a fresh machine, the only panic that can be the root cause of a reported error is the model's own
fuel, `"gas exhausted"`, and only below a host function (the reported error itself is not that panic) -/
theorem run_only_gas_panic {p : Program} (hwf : Bytecode.WF p) (hcs : capStaticB p = true) (n : Nat)
    (c : Config) (e : RunErr) (h : (run (Prog.ofProgram p) n (VmState.fresh c)).2 = some e) :
    (∀ w, rootCause e.kind = .panic w → w = "gas exhausted") ∧ e.kind ≠ .panic "gas exhausted" := by
  have h1 := C04.run_no_panic_partial hwf n (VmState.fresh c) (C04.goodFrames_fresh p c) e h
  have h2 := run_no_capture_panic hwf hcs n c e h
  refine ⟨fun w hw => ?_, h1.2⟩
  have hm := h1.1 w hw
  simp only [C04.residualPanics, List.mem_cons, List.mem_nil_iff, or_false] at hm
  rcases hm with hm | hm | hm
  · exact hm
  · exact absurd (hm ▸ hw) h2.1
  · exact absurd (hm ▸ hw) h2.2

/-- **a reused machine**: after a run from a fresh machine that ended without an error, a second run (any
budget) of the same program on the same machine — heap, globals and value stack as the first run left
them — reports no capture assertion either (`Cao.Vm.run_keeps_inv`: an error-free run re-establishes
the invariant) -/
theorem run_twice_no_capture_panic {p : Program} (hwf : Bytecode.WF p) (hcs : capStaticB p = true)
    (n m : Nat) (c : Config) (hok : (run (Prog.ofProgram p) n (VmState.fresh c)).2 = none) (e : RunErr)
    (h : (run (Prog.ofProgram p) m (run (Prog.ofProgram p) n (VmState.fresh c)).1).2 = some e) :
    rootCause e.kind ≠ .panic "closure not found for capture" ∧
    rootCause e.kind ≠ .panic "upvalue index out of bounds" := by
  have hs := capStaticB_sound_at hcs
  have hc := (C04.wf_cfi hwf).1
  have h0 := (C04.wf_cfi hwf).2
  have hfr1 : (run (Prog.ofProgram p) n (VmState.fresh c)).1.frames = [] :=
    C17.run_frames_nil _ n _ rfl
  have hK1 := run_keeps_inv hs hc h0 n (VmState.fresh c) rfl (invX_fresh c) hok
  refine run_no_capture_panic_of hs hc h0 m _ ?_ ?_ e h
  · rw [hfr1]; exact hK1
  · rw [hfr1]; intro f hf; cases hf

/-! ### the checker on examples -/

/-- the checker on the result of a compilation -/
def okCap (r : Except CErr Program) : Bool :=
  match r with
  | .ok p => capStaticB p
  | .error _ => false

/-- the two-level closure of `Props/C10b.lean` passes the checker -/
theorem twoLevel_capStatic : okCap (compile twoLevel stdE) = true := by
  rw [compile_twin]
  decide +kernel

/-- so does `abortInCallback` -/
theorem ac_capStatic : okCap (compile abortInCallback stdE) = true := by
  rw [ac_compile]
  decide +kernel

/-- the well-formed program of `Props/C04.lean` that jumps into a closure body (and panics) is rejected -/
example : capStaticB C04.jumpIntoClosure = false := by decide +kernel

/-- non-vacuity, end to end: no run of the compiled `abortInCallback`, with any budget and configuration,
reports a capture assertion -/
theorem abortInCallback_no_capture_panic : ∃ p, compile abortInCallback stdE = .ok p ∧
    ∀ (n : Nat) (c : Config) (e : RunErr), (run (Prog.ofProgram p) n (VmState.fresh c)).2 = some e →
      rootCause e.kind ≠ .panic "closure not found for capture" ∧
      rootCause e.kind ≠ .panic "upvalue index out of bounds" := by
  obtain ⟨p, hp, _, _, _, _, hwf⟩ := ac_hyps
  have h := ac_capStatic
  rw [hp] at h
  exact ⟨p, hp, fun n c e he => run_no_capture_panic hwf h n c e he⟩

/-! ## 4. Stage D: all compiled programs — the state BEFORE §5 (kept for the record; §5 proves it)

For compiled programs, `CaptureStatic.lean`/§2 prove the fields `reg` (from `compile_nonlocal_in_region`),
`closLabel` (`compile_closure_label` + the count of the region) and `pairs` (`compile_tail_structure`) of
`CapStatic` in the form of facts about the level derivation `UpT`.  NOT proved for compiled programs:
`seq`, `jump` (jumps, fall-through and call returns respect closure regions — the level derivation `UpT`
says nothing about jump targets), `fnLabel` (function labels lie outside of every closure region),
`lastLvl`, `entryLvl`, and the identification of the level function of `UpT` with `lvlOf (regionsOf p)`.
The differential harness can decide `capStaticB` on the bytes of the real compiler instead
(`Lemmas/CapCheckDef.lean` imports only the models).  Evaluated (`#eval`, not part of the build): the closure
`K = closure [a] { z = a; closure { x; z; closure { x; z } }; x }` placed in each of 33 one-hole card
contexts (operands, conditions and bodies of `if`/`ifElse`/`while`/`repeat`/`forEach`, call arguments,
callee position, arrays, composite cards, closure bodies, `return`) and in all 33 × 33 compositions of two
contexts: 1122 compiled programs, all well-formed, all accepted; also with the standard library linked.

Plan for the missing compiler pass (per-card Hoare triple in the style of `WfUpvalues.Up`, the jump at the
head of a block is back-patched as in `UR.patch`): for the code `[a, b)` a card emits, every jump in it has
its target in `[a, b]`, at a boundary between the blocks of the card; then `lvlOf_congr` / `lvlOf_outside`
(`Lemmas/CaptureCheck.lean`) reduce the fields `seq`, `jump`, `fnLabel`, `lastLvl`, `entryLvl` of the checker
to "both ends of a control-flow edge lie in the same closure regions". -/

/-- the statement for all compiled programs under the hypotheses of `C10b.compile_wf` only — OPEN in this
form; §5 proves it under one more no-collision hypothesis (`PointerHandlesDistinct`,
`compiled_run_no_capture_panic`) -/
def compiled_run_no_capture_panic_Full : Prop :=
  ∀ (m std : Module) (limit : Nat) (p : Program), compile m std limit = .ok p →
    p.bytecode.size < 2 ^ 31 → p.data.size < 2 ^ 32 → NoEntryRef m std limit p →
    ClosureHandlesDistinct m std limit p →
    ∀ (n : Nat) (c : Config) (e : RunErr), (run (Prog.ofProgram p) n (VmState.fresh c)).2 = some e →
      rootCause e.kind ≠ .panic "closure not found for capture" ∧
      rootCause e.kind ≠ .panic "upvalue index out of bounds"

/-- **compiled programs that pass the checker**: under the hypotheses of `C10b.compile_wf`, a compiled
program accepted by `capStaticB`, run from a fresh machine: the only panic that can be the root cause of a
reported error is `"gas exhausted"` below a host function -/
theorem compiled_run_only_gas_panic {m std : Module} {limit : Nat} {p : Program}
    (hp : compile m std limit = .ok p) (h1 : p.bytecode.size < 2 ^ 31) (h2 : p.data.size < 2 ^ 32)
    (h3 : NoEntryRef m std limit p) (h4 : ClosureHandlesDistinct m std limit p) (hcs : capStaticB p = true)
    (n : Nat) (c : Config) (e : RunErr) (h : (run (Prog.ofProgram p) n (VmState.fresh c)).2 = some e) :
    (∀ w, rootCause e.kind = .panic w → w = "gas exhausted") ∧ e.kind ≠ .panic "gas exhausted" :=
  run_only_gas_panic (compile_wf hp h1 h2 h3 h4) hcs n c e h

/-- every compiled program passes the checker, under the hypotheses of `C10b.compile_wf` only — OPEN in this
form (`compiled_capStatic` in §5 needs `PointerHandlesDistinct` in addition: a `FunctionPointer` whose 32-bit
handle collides with a later card label inside a closure body would resolve into that body) -/
def compiled_capStatic_Full : Prop :=
  ∀ (m std : Module) (limit : Nat) (p : Program), compile m std limit = .ok p →
    p.bytecode.size < 2 ^ 31 → p.data.size < 2 ^ 32 → NoEntryRef m std limit p →
    ClosureHandlesDistinct m std limit p → capStaticB p = true

theorem compiled_run_no_capture_panic_of_capStatic (h : compiled_capStatic_Full) :
    compiled_run_no_capture_panic_Full :=
  fun m std limit p hp h1 h2 h3 h4 n c e he =>
    run_no_capture_panic (compile_wf hp h1 h2 h3 h4) (h m std limit p hp h1 h2 h3 h4) n c e he

/-! ## 5. Stage D: every compiled program passes the checker

`Lemmas/CaptureJumps.lean` threads a second Hoare triple (`J k K m`, in the style of `Wf.Tr`) through
`processCard`: the code `[n0, n1)` a block emits is a segment `JSeg bc L T n0 n1 Bs` — `Bs` lists the
closure blocks `(a, c)` in it (skip-`Goto` at `a` with operand `c`, `Return` at `c - 1`, `Closure` at `c`
whose handle is labelled `a + 5`), every `Closure` instruction belongs to a listed block, and every jump
has its target in `T` (known positions of the frozen prefix, or `[n0, n1]`) and lies in the body of a listed
block iff its target does (`JSeg.append`, `JSeg.closure`; back-patching: `hole_block_patch`, `ifElseCode_j`,
`closureCode_j`).  `compileUnit_jspec`: the whole bytecode is such a segment from 0, and the label of
every non-entry function lies outside of all bodies.  `Lemmas/CaptureCompiled.lean` (`capStaticB_of_seg`)
evaluates the checker on such a program: its regions are exactly the bodies (`Fit`), fall-through
(`seq_resp`) and jumps keep the bodies, the level at the start of a body is the number of pairs of its
`Closure` instruction (`lvl_body_start`, from the nesting the skip-`Goto`s enforce: `skip_resp`), the `reg`
field is the checker's `checkUp` clause (`C10b.compile_upvalues_checked`, `reg_ok`). -/

/-- **no-collision hypothesis for function pointers** (the analogue of `ClosureHandlesDistinct`): the handle
of a `FunctionPointer` instruction is not the handle of a label at another position — all entries of the
label log with that handle agree on the position.  Weaker than `C08c.FunctionHandlesDistinct` (only the
functions that are referred to matter) and implied by `C10b.LabelHandlesDistinct`. -/
def PointerHandlesDistinct (m std : Module) (limit : Nat) (p : Program) : Prop :=
  ∀ x, IsInstr p x op.functionPointer → ∀ l1 ∈ labelLog m std limit, ∀ l2 ∈ labelLog m std limit,
    l1.1 = UInt32.ofNat (Bytecode.rdU32 p.bytecode (x + 1)) → l2.1 = l1.1 → l2.2 = l1.2

theorem LabelHandlesDistinct.pointer {m std : Module} {limit : Nat} (h : LabelHandlesDistinct m std limit)
    (p : Program) : PointerHandlesDistinct m std limit p :=
  fun _ _ l1 h1 l2 h2 _ e => h l1 h1 l2 h2 e

/-- **(b) `compiled_seq_jump`**: the whole bytecode of a compiled program is a segment whose jumps respect
the closure blocks — with the blocks `Bs` of the compilation: every `Closure` instruction is the end of a
block; a jump lies in the body `[a + 5, c)` of a block iff its target does (`JSeg.jmp`), the targets are
`≤ size`; and **(c)** the label of every non-entry function lies in no body -/
theorem compiled_seq_jump {m std : Module} {limit : Nat} {p : Program} (hp : compile m std limit = .ok p) :
    ∃ unit Bs, intoIrStream m std limit = .ok unit ∧
      JSeg p.bytecode (labelLog m std limit) (fun t => t ≤ p.bytecode.size) 0 p.bytecode.size Bs ∧
      ∀ f ∈ unit.toList.drop 1, ∃ q, (f.handle, q) ∈ labelLog m std limit ∧ ∀ B ∈ Bs, ¬ InBody B q := by
  obtain ⟨unit, s, hu, hrun, hbc, _, hlog⟩ := compile_run hp
  obtain ⟨Bs, G, fl⟩ := compileUnit_jspec hrun
  rw [← hbc] at G
  rw [← hlog] at G fl
  exact ⟨unit, Bs, hu, G, fl⟩

/-- **(d) `compiled_capStatic`**: every compiled program passes the executable checker `capStaticB`, under
the hypotheses of `C10b.compile_wf` and the no-collision hypothesis for function pointers -/
theorem compiled_capStatic {m std : Module} {limit : Nat} {p : Program} (hp : compile m std limit = .ok p)
    (h1 : p.bytecode.size < 2 ^ 31) (h3 : NoEntryRef m std limit p)
    (h4 : ClosureHandlesDistinct m std limit p) (h5 : PointerHandlesDistinct m std limit p) :
    capStaticB p = true := by
  obtain ⟨unit, Bs, hu, G, fl⟩ := compiled_seq_jump hp
  obtain ⟨_, _, _, _, _, hlab, hlog⟩ := compile_run hp
  obtain ⟨l, hdec, _, _⟩ := compile_decodes hp
  refine capStaticB_of_seg (log := labelLog m std limit) (by rw [hlog]; exact hlab) (by omega) G hdec h4
    (compile_upvalues_checked hp h4) ?_
  intro x hi e he B hB
  obtain ⟨unit', hu', ⟨f, hf, hfh⟩, _⟩ := compile_function_pointers hp hi
  rw [hu] at hu'
  cases hu'
  have hne := h3 unit hu x hi
  rw [← hfh] at hne
  have hd : f ∈ unit.toList.drop 1 := by
    obtain ⟨l⟩ := unit
    cases l with
    | nil => cases hf
    | cons y ys =>
      simp only [List.drop_succ_cons, List.drop_zero]
      rcases List.mem_cons.1 hf with rfl | hf'
      · exact absurd (by rfl) hne
      · exact hf'
  obtain ⟨q, q1, q2⟩ := fl f hd
  rw [hfh] at q1
  obtain ⟨e', he', hes⟩ := find_label q1 (fun l2 hl2 e2 => h5 x hi _ q1 l2 hl2 rfl e2)
  rw [hlab, ← hlog, he'] at he
  cases he
  rw [hes]
  exact q2 B hB

/-- all static facts at once, for the level function of the checker: in particular the fields `seq` and
`jump` (fall-through and every `Goto`/`GotoIfTrue`/`GotoIfFalse` keep the level), `fnLabel`, `lastLvl`,
`entryLvl` of `CapStatic` hold for every compiled program -/
theorem compiled_CapStatic {m std : Module} {limit : Nat} {p : Program} (hp : compile m std limit = .ok p)
    (h1 : p.bytecode.size < 2 ^ 31) (h3 : NoEntryRef m std limit p)
    (h4 : ClosureHandlesDistinct m std limit p) (h5 : PointerHandlesDistinct m std limit p) :
    CapStatic (Prog.ofProgram p) (C04.Start p) (lvlOf (regionsOf p)) (cntOf p.bytecode) :=
  capStaticB_sound_at (compiled_capStatic hp h1 h3 h4 h5)

/-- **`compiled_run_no_capture_panic`**: a compiled program, run with any budget from a fresh machine,
never reports an error whose root cause is one of the two capture assertions of `RegisterUpvalue` — no
`capStaticB` hypothesis -/
theorem compiled_run_no_capture_panic {m std : Module} {limit : Nat} {p : Program}
    (hp : compile m std limit = .ok p) (h1 : p.bytecode.size < 2 ^ 31) (h2 : p.data.size < 2 ^ 32)
    (h3 : NoEntryRef m std limit p) (h4 : ClosureHandlesDistinct m std limit p)
    (h5 : PointerHandlesDistinct m std limit p)
    (n : Nat) (c : Config) (e : RunErr) (h : (run (Prog.ofProgram p) n (VmState.fresh c)).2 = some e) :
    rootCause e.kind ≠ .panic "closure not found for capture" ∧
    rootCause e.kind ≠ .panic "upvalue index out of bounds" :=
  run_no_capture_panic (compile_wf hp h1 h2 h3 h4) (compiled_capStatic hp h1 h3 h4 h5) n c e h

/-- the same from a cleared machine -/
theorem compiled_run_no_capture_panic_cleared {m std : Module} {limit : Nat} {p : Program}
    (hp : compile m std limit = .ok p) (h1 : p.bytecode.size < 2 ^ 31) (h2 : p.data.size < 2 ^ 32)
    (h3 : NoEntryRef m std limit p) (h4 : ClosureHandlesDistinct m std limit p)
    (h5 : PointerHandlesDistinct m std limit p)
    (n : Nat) (s : VmState) (e : RunErr) (h : (run (Prog.ofProgram p) n (clear s)).2 = some e) :
    rootCause e.kind ≠ .panic "closure not found for capture" ∧
    rootCause e.kind ≠ .panic "upvalue index out of bounds" :=
  run_no_capture_panic_cleared (compile_wf hp h1 h2 h3 h4) (compiled_capStatic hp h1 h3 h4 h5) n s e h

/-- **`compiled_run_only_gas_panic'`**: for a compiled program run from a fresh machine, the only panic that
can be the root cause of a reported error is the model's own fuel, `"gas exhausted"`, below a host
function — no `capStaticB` hypothesis -/
theorem compiled_run_only_gas_panic' {m std : Module} {limit : Nat} {p : Program}
    (hp : compile m std limit = .ok p) (h1 : p.bytecode.size < 2 ^ 31) (h2 : p.data.size < 2 ^ 32)
    (h3 : NoEntryRef m std limit p) (h4 : ClosureHandlesDistinct m std limit p)
    (h5 : PointerHandlesDistinct m std limit p)
    (n : Nat) (c : Config) (e : RunErr) (h : (run (Prog.ofProgram p) n (VmState.fresh c)).2 = some e) :
    (∀ w, rootCause e.kind = .panic w → w = "gas exhausted") ∧ e.kind ≠ .panic "gas exhausted" :=
  run_only_gas_panic (compile_wf hp h1 h2 h3 h4) (compiled_capStatic hp h1 h3 h4 h5) n c e h

/-- a reused machine -/
theorem compiled_run_twice_no_capture_panic {m std : Module} {limit : Nat} {p : Program}
    (hp : compile m std limit = .ok p) (h1 : p.bytecode.size < 2 ^ 31) (h2 : p.data.size < 2 ^ 32)
    (h3 : NoEntryRef m std limit p) (h4 : ClosureHandlesDistinct m std limit p)
    (h5 : PointerHandlesDistinct m std limit p)
    (n k : Nat) (c : Config) (hok : (run (Prog.ofProgram p) n (VmState.fresh c)).2 = none) (e : RunErr)
    (h : (run (Prog.ofProgram p) k (run (Prog.ofProgram p) n (VmState.fresh c)).1).2 = some e) :
    rootCause e.kind ≠ .panic "closure not found for capture" ∧
    rootCause e.kind ≠ .panic "upvalue index out of bounds" :=
  run_twice_no_capture_panic (compile_wf hp h1 h2 h3 h4) (compiled_capStatic hp h1 h3 h4 h5) n k c hok e h

/-- the hypothesis-free forms of §4 follow from `PointerHandlesDistinct` for all compiled programs — the
only thing that remains open is whether that hypothesis can be dropped (like `ClosureHandlesDistinct`, it
excludes a collision of 32-bit hashes, which the model cannot exclude) -/
theorem compiled_capStatic_Full_of_pointers
    (h : ∀ (m std : Module) (limit : Nat) (p : Program), compile m std limit = .ok p →
      PointerHandlesDistinct m std limit p) : compiled_capStatic_Full :=
  fun m std limit p hp h1 _ h3 h4 => compiled_capStatic hp h1 h3 h4 (h m std limit p hp)

/-! ### non-vacuity -/

/-- the hypotheses of `compiled_run_no_capture_panic` hold for `abortInCallback` (which contains a function
pointer to `h`, two closures, one nested with a non-local capture) -/
theorem ac_all_hyps : ∃ p, compile abortInCallback stdE = .ok p ∧ p.bytecode.size < 2 ^ 31 ∧
    p.data.size < 2 ^ 32 ∧ NoEntryRef abortInCallback stdE Gen.recursionLimit p ∧
    ClosureHandlesDistinct abortInCallback stdE Gen.recursionLimit p ∧
    PointerHandlesDistinct abortInCallback stdE Gen.recursionLimit p := by
  obtain ⟨p, hp, a1, a2, a3, a4, _⟩ := ac_hyps
  refine ⟨p, hp, a1, a2, a3, a4, ?_⟩
  have h := ac_hypsCheck
  unfold hypsCheck at h
  rw [hp] at h
  simp only [Bool.and_eq_true, decide_eq_true_eq] at h
  exact LabelHandlesDistinct.pointer (functional_of_pairwise _ h.2) p

/-- the theorem and the evaluation of the checker agree on it -/
example : ∃ p, compile abortInCallback stdE = .ok p ∧ capStaticB p = true := by
  obtain ⟨p, hp, a1, _, a3, a4, a5⟩ := ac_all_hyps
  exact ⟨p, hp, compiled_capStatic hp a1 a3 a4 a5⟩

/-- end to end, from the theorem: no run of the compiled `abortInCallback` reports a capture assertion -/
example : ∃ p, compile abortInCallback stdE = .ok p ∧
    ∀ (n : Nat) (c : Config) (e : RunErr), (run (Prog.ofProgram p) n (VmState.fresh c)).2 = some e →
      rootCause e.kind ≠ .panic "closure not found for capture" ∧
      rootCause e.kind ≠ .panic "upvalue index out of bounds" := by
  obtain ⟨p, hp, a1, a2, a3, a4, a5⟩ := ac_all_hyps
  exact ⟨p, hp, fun n c e he => compiled_run_no_capture_panic hp a1 a2 a3 a4 a5 n c e he⟩

/-- a concrete segment: `Goto 8; ScalarNil; Return; Closure h 0` with the label `(h, 5)` is one closure
block `(0, 7)` -/
example : JSeg #[op.goto, 7, 0, 0, 0, op.scalarNil, op.ret, op.closure, 1, 0, 0, 0, 0, 0, 0, 0] [(1, 5)]
    (fun t => t ≤ 16) 0 16 [(0, 7)] :=
  JSeg.closure (c' := 5) (Tb := fun _ => False) (by decide) (by decide) (JSeg.nil _ _ _ _) (fun _ h => h.elim)
    (by decide) (by decide) (by decide) (by decide) (.nil _) (fun x hx hlt => by have := hx.le; omega)
    (by decide) (fun _ h => h.elim)

end Cao.C04c
