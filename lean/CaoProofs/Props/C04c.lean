import CaoProofs.Props.C04
import CaoProofs.Props.C10b
import CaoProofs.Lemmas.CaptureStatic
import CaoProofs.Lemmas.CaptureRun
/-!
# C04c — the capture assertions of `RegisterUpvalue` in runs of COMPILED programs

## 1. The former counterexample (K9) no longer reaches the capture assertions

`abortInCallback`: `main` binds a local `x` and a closure `f`; `f` passes the function `h` to the host
function `papply` (which calls it back through `run_function`), then creates a closure that captures
`x` — a non-local capture (`RegisterUpvalue 0 0`), since `x` is an upvalue of `f`.  `h` is `abort`.

`Exit` inside the callback makes the nested dispatch loop return normally.  BEFORE the repair of
`run_function`, it then popped only one of the two frames it had pushed, so `h`'s frame — with no
closure — stayed on the call stack and `f` continued under it; the non-local capture then found no
closure in the running frame: `panic "closure not found for capture"` (K9, a consequence of K6).
`run_function` now pops the call stack back to its entry depth however the callee ended, `f`
continues under its own frame, the capture succeeds and the run ends normally
(`abort_in_callback_no_longer_panics`).  The statement "compiled programs never reach the capture
assertions" (`compiled_run_no_capture_panic_Full`) is therefore no longer refuted; it is open.

The program is compiled, accepted by the checker (`Bytecode.WF`), satisfies all hypotheses of
`C10b.compile_wf`, and is run from a fresh machine.
-/
namespace Cao.C04c
open Cao Cao.Compiler Cao.Bytecode Cao.Vm Cao.C10 Cao.C10b

/-! `String.splitOn` does not reduce in the kernel: the compilation is evaluated on a `splitOn`-free
twin, as in `Props/C10b.lean`. -/

theorem splitOn_f : ("f" : String).splitOn "." = ["f"] := by
  simp (config := {decide := true}) [String.splitOn, String.splitOnAux]
theorem splitOn_h : ("h" : String).splitOn "." = ["h"] := by
  simp (config := {decide := true}) [String.splitOn, String.splitOnAux]

def acMain : List Card :=
  [.setVar "x" (.scalarInt 1),
   .setVar "f" (.closure [] [.callNative "papply" [.function "h"], .closure [] [.readVar "x"]]),
   .dynamicCall [] (.readVar "f")]

/-- the counterexample module -/
def abortInCallback : Module :=
  Module.mk [] [("main", ⟨[], acMain⟩), ("h", ⟨[], [.abort]⟩)] []

def acMainIr : FunctionIr :=
  { functionIndex := 0, name := "main", arguments := [], cards := acMain, ns := [], imports := [],
    handle := Hash.handleFromU64 (UInt64.ofNat 0) }
def acHIr : FunctionIr :=
  { functionIndex := 1, name := "h", arguments := [], cards := [.abort], ns := [], imports := [],
    handle := Hash.handleFromU64 (UInt64.ofNat 1) }

theorem ac_ir : intoIrStream abortInCallback stdE Gen.recursionLimit = .ok #[acMainIr, acHIr] := by rfl

def readFT : {A : CM Unit // readVarCard "f" = A} := ⟨_, by unfold readVarCard; rw [splitOn_f]⟩
def setFT : {A : CM Unit // setVarTarget "f" = A} := ⟨_, by unfold setVarTarget; rw [splitOn_f]⟩
def jumpHT : {A : CM Unit // encodeJump "h" = A} :=
  ⟨_, by unfold encodeJump resolveFunction; rw [splitOn_h]⟩

def acMainT : {A : CM Unit // processFunctionCards 0 acMain = A} :=
  ⟨_, by
    simp only [acMain, processFunctionCards, processCard, compileSubexprFrom, setVarCode,
      readXT.2, setXT.2, readFT.2, setFT.2, jumpHT.2]
    rfl⟩

def acUnitT : {A : CM Unit // compileUnit #[acMainIr, acHIr] = A} :=
  ⟨_, by
    have h0 : (#[acMainIr, acHIr])[0]! = acMainIr := rfl
    have hc : acMainIr.cards = acMain := rfl
    simp only [compileUnit, h0, processFunction, hc, acMainT.2]; rfl⟩

theorem ac_compile : compile abortInCallback stdE = finish (acUnitT.1.run {}) := by
  rw [← acUnitT.2]
  unfold compile
  rw [ac_ir]
  rfl

theorem ac_labelLog : labelLog abortInCallback stdE Gen.recursionLimit = labelsOf (acUnitT.1.run {}) := by
  rw [← acUnitT.2]
  unfold labelLog
  rw [ac_ir]
  rfl

/-- does the run of a compiled module from a fresh machine end without an error, with an empty call
    stack, after 21 dispatched instructions? -/
def endsNormally (r : Except CErr Program) : Bool :=
  match r with
  | .error _ => false
  | .ok p =>
    match run (Prog.ofProgram p) 10000 (VmState.fresh {}) with
    | (s', none) => s'.frames.length == 0 && s'.dispatches == 21
    | (_, some _) => false

theorem ac_ends_check : endsNormally (compile abortInCallback stdE) = true := by
  rw [ac_compile]
  decide +kernel

/-- executable form of the hypotheses of `C10b.compile_wf` for a module whose entry function has
handle `mainH`: small, no function pointer to the entry function, label handles pairwise different -/
def hypsCheck (mainH : UInt32) (r : Except CErr Program) (log : List (UInt32 × Nat)) : Bool :=
  match r with
  | .error _ => false
  | .ok p =>
    decide (p.bytecode.size < 2 ^ 31) && decide (p.data.size < 2 ^ 32) &&
    (match decodeAll p.bytecode (p.bytecode.size + 1) 0 [] with
     | .ok l => l.all (fun x => x.2 != op.functionPointer || UInt32.ofNat (Bytecode.rdU32 p.bytecode (x.1 + 1)) != mainH)
     | .error _ => false) &&
    decide ((log.map (·.1)).Pairwise (· ≠ ·))

theorem ac_hypsCheck : hypsCheck acMainIr.handle (compile abortInCallback stdE)
    (labelLog abortInCallback stdE Gen.recursionLimit) = true := by
  rw [ac_compile, ac_labelLog]
  decide +kernel

/-- the hypotheses of `C10b.compile_wf` hold for the counterexample, hence it is well-formed -/
theorem ac_hyps : ∃ p, compile abortInCallback stdE = .ok p ∧ p.bytecode.size < 2 ^ 31 ∧
    p.data.size < 2 ^ 32 ∧ NoEntryRef abortInCallback stdE Gen.recursionLimit p ∧
    ClosureHandlesDistinct abortInCallback stdE Gen.recursionLimit p ∧ Bytecode.WF p := by
  have h := ac_hypsCheck
  unfold hypsCheck at h
  split at h
  · cases h
  · rename_i p hp
    simp only [Bool.and_eq_true, decide_eq_true_eq] at h
    obtain ⟨⟨⟨h1, h2⟩, h3⟩, h4⟩ := h
    have hentry : NoEntryRef abortInCallback stdE Gen.recursionLimit p := by
      intro unit hu pos hi
      rw [ac_ir] at hu
      simp only [Except.ok.injEq] at hu
      subst hu
      obtain ⟨l, hl, hmem, _⟩ := compile_decodes hp
      rw [hl] at h3
      have := List.all_eq_true.1 h3 _ ((hmem _ _).2 hi)
      simp only [bne_self_eq_false, Bool.false_or, bne_iff_ne, ne_eq] at this
      exact this
    have hd := LabelHandlesDistinct.closure (functional_of_pairwise _ h4) p
    exact ⟨p, hp, h1, h2, hentry, hd, compile_wf hp h1 h2 hentry hd⟩

/-- **`abort_in_callback_no_longer_panics`** (was `abort_in_callback_reaches_capture_panic`, K9): the
same compiled program, which satisfies every hypothesis of `C10b.compile_wf` (so it is `Bytecode.WF`),
in the same run from a fresh machine, no longer reports `panic "closure not found for capture"`: the
run reports NO error at all, and ends with an empty call stack after 21 dispatched instructions.  The
`abort` (`Exit`) inside the function that the host function calls back ends only that callee;
`run_function` pops the call stack back to its entry depth, and the caller's next non-local capture
runs under the caller's own frame. -/
theorem abort_in_callback_no_longer_panics :
    ∃ p, compile abortInCallback stdE = .ok p ∧ Bytecode.WF p ∧
      NoEntryRef abortInCallback stdE Gen.recursionLimit p ∧
      ClosureHandlesDistinct abortInCallback stdE Gen.recursionLimit p ∧
      (run (Prog.ofProgram p) 10000 (VmState.fresh {})).2 = none ∧
      (run (Prog.ofProgram p) 10000 (VmState.fresh {})).1.frames = [] ∧
      (run (Prog.ofProgram p) 10000 (VmState.fresh {})).1.dispatches = 21 := by
  obtain ⟨p, hp, _, _, h3, h4, h5⟩ := ac_hyps
  refine ⟨p, hp, h5, h3, h4, ?_⟩
  have h := ac_ends_check
  rw [hp] at h
  unfold endsNormally at h
  dsimp only at h
  split at h
  · next s' heq =>
    rw [heq]
    simp only [Bool.and_eq_true, beq_iff_eq, List.length_eq_zero_iff] at h
    exact ⟨rfl, h.1, h.2⟩
  · cases h

/-- the statement of stage 3 without a hypothesis on `Exit` — OPEN: it was refuted by
`abortInCallback` before the repair of `run_function`
(`not_compiled_run_no_capture_panic_Full`, removed); that witness now runs without error
(`abort_in_callback_no_longer_panics`), and no other counterexample is known.  NOT proved: it needs
`st_step_Full` (see §3). -/
def compiled_run_no_capture_panic_Full : Prop :=
  ∀ (m std : Module) (limit : Nat) (p : Program), compile m std limit = .ok p →
    p.bytecode.size < 2 ^ 31 → p.data.size < 2 ^ 32 → NoEntryRef m std limit p →
    ClosureHandlesDistinct m std limit p →
    ∀ (n : Nat) (c : Config) (e : RunErr), (run (Prog.ofProgram p) n (VmState.fresh c)).2 = some e →
      rootCause e.kind ≠ .panic "closure not found for capture" ∧
      rootCause e.kind ≠ .panic "upvalue index out of bounds"


/-! ## 2. Stage 1: static facts about compiled programs -/

/-- **(a) the tails of closure expressions**: in a compiled program every `CopyLast` and every
`RegisterUpvalue` instruction belongs to the tail of a closure expression: there is a `Closure`
instruction at `c` and a pair index `k` such that the instruction is the `CopyLast` at `c + 9 + 4 k` or
the `RegisterUpvalue` at `c + 9 + 4 k + 1`, directly after that `CopyLast` (so a `RegisterUpvalue` is
always reached by falling through its `CopyLast`, which follows the `Closure` instruction or the previous
pair) -/
theorem compile_tail_structure {m std : Module} {limit : Nat} {p : Program}
    (h : compile m std limit = .ok p) {x : Nat} {o : UInt8} (hi : IsInstr p x o)
    (ho : o = op.copyLast ∨ o = op.registerUpvalue) :
    ∃ c k, IsInstr p c op.closure ∧ c + 9 + 4 * k < p.bytecode.size ∧
      ((x = c + 9 + 4 * k ∧ o = op.copyLast) ∨
       (x = c + 9 + 4 * k + 1 ∧ o = op.registerUpvalue ∧ p.bytecode.getD (x - 1) 0 = op.copyLast)) := by
  obtain ⟨unit, s, _, hrun, hbc, _, _⟩ := compile_run h
  have T := compileUnit_level hrun
  rw [← hbc] at T
  obtain ⟨h1, h2, h3⟩ := hi
  obtain ⟨c, k, _, hc1, hc2, hc3, hor⟩ := T.tail_instr x h1 h2 (by rw [← h3]; exact ho)
  refine ⟨c, k, ⟨hc1, by omega, hc2.symm⟩, hc3, ?_⟩
  rcases hor with ⟨e1, e2⟩ | ⟨e1, e2, e3, _⟩
  · exact .inl ⟨e1, by rw [h3, e2]⟩
  · exact .inr ⟨e1, by rw [h3, e2], e3⟩

/-- **the label of a region is its start**: the handle of a `Closure` instruction at `c` is mapped by
the label table to the position right behind a 5-byte instruction that starts before `c` (the skip
`Goto` of the closure expression), provided the closure handles do not collide -/
theorem compile_closure_label {m std : Module} {limit : Nat} {p : Program}
    (h : compile m std limit = .ok p) (hd : ClosureHandlesDistinct m std limit p) {c : Nat}
    (hi : IsInstr p c op.closure) :
    ∃ a e, a + 5 ≤ c ∧ p.labels.find? (fun l => l.1 == UInt32.ofNat (Bytecode.rdU32 p.bytecode (c + 1))) = some e ∧
      e.2 = a + 5 := by
  obtain ⟨unit, s, _, hrun, hbc, hlab, hlog⟩ := compile_run h
  have T := compileUnit_level hrun
  rw [← hbc] at T
  obtain ⟨a, _, h2, h3⟩ := T.closure_label c hi.1 hi.2.1 hi.2.2.symm
  rw [← hlog] at h3
  obtain ⟨e, he, hes⟩ := find_label h3 (fun l2 hl2 e2 => hd c hi _ h3 l2 hl2 rfl e2)
  rw [hlog, ← hlab] at he
  exact ⟨a, e, h2, he, hes⟩

/-- **(b)** is `C10b.compile_upvalues_checked`: a non-local `RegisterUpvalue j` of a compiled program
lies in a closure region whose count is above `j` -/
theorem compile_nonlocal_in_region {m std : Module} {limit : Nat} {p : Program}
    (h : compile m std limit = .ok p) (hd : ClosureHandlesDistinct m std limit p) : UpvaluesChecked p :=
  compile_upvalues_checked h hd

/-! ## 3. Stages 2 and 3: what is proved, what is missing

`Lemmas/CaptureRun.lean` contains the dynamic half as far as it is proved:

* the Hoare triple `St` over whole machine states with an error postcondition and its automation
  `st_auto`;
* the invariant `InvX`: every `fn` object enters callee code of level 0 (`FnSafe`), every closure object
  is `Complete` (its handle enters callee code whose level is at most its number of upvalues), the
  obligations `(closure of a frame, level it continues at)` hold and are rooted in the call stack;
  one closure — under construction, on top of the stack — may be exempt;
* `Harmless`: how the heap may evolve without disturbing the invariant (collections keep the closures of
  the call stack; no `fn`/closure object appears or changes), proved for the allocator
  (`harmless_allocPure`), `newObject`, tables, upvalue objects and every primitive (`hpres_*`);
* `st_callNativeBody`, `st_callNative`: every host function keeps the invariant if the callback does;
* `CapStatic`: the static facts the induction over `step`/`exec` needs (levels are kept by fall-through
  and jumps, non-local indices are below the level, closure/function handles enter callee code of the
  right level, no `Exit` in callee code), and `StepQ`, the outcome of one instruction.

**Missing** (`st_step_Full`): the pass over the 37 branches of `step` (the automation times out on the
whole function), the two tail instructions, and the fuel induction (`exec_cfi` skeleton).
Before the repair of `run_function`, `abortInCallback` showed that `CapStatic.noExit` (no `abort` in a
function or closure body that a host function may call back) was necessary.  Now that `run_function`
restores the call stack whatever the callee did (`C18.run_function_frames`,
`NoPanicExec.CallSpec`), the hypothesis is probably no longer needed; it is kept because the
invariant framework of `Lemmas/CaptureRun.lean` was built with it. -/

/-- stage 3 as it can hold: for a program with the static facts `CapStatic` (region-respecting control
flow, non-colliding handles, no `Exit` in callee code) — NOT proved -/
def run_no_capture_panic_Full : Prop :=
  ∀ (p : Prog) (G : Nat → Prop) (lvl cnt : Nat → Nat) (Cal : Nat → Prop), Cfi p G → G 0 → lvl 0 = 0 →
    CapStatic p G lvl cnt Cal → ∀ (n : Nat) (c : Config) (e : RunErr),
      (run p n (VmState.fresh c)).2 = some e → NoCap e.kind

end Cao.C04c
