import CaoProofs.Props.C08c
import CaoProofs.Props.C04c
/-!
# C08d — closure dispatch of compiled programs, complete (C08c `closure_dispatch_Full'`, C06 `closure_dispatch_Full`)

`C08c.compiled_closure_dispatch` proved, for every `Closure` instruction at `q` of a compiled program, that
the label table maps its handle to the entry `e` of a body `[e, q)` that sits behind a `Goto` at `e - 5` —
everything of `C06.closure_dispatch_Full` except the operand of that `Goto` (`rdU32 (e - 4) = q`: the
skip-`Goto` of the closure expression jumps to *its own* `Closure` instruction).  The level structure `UpT`
of `C10b` ignores jump operands; the segment structure `JSeg` of `Lemmas/CaptureJumps.lean` does not: a block
`(a, c)` of `C04c.compiled_seq_jump` has `rdU32 bc (a + 1) = c % 2 ^ 32` (`BlkOK.tgt`), every `Closure`
instruction is the `c` of a block (`JSeg.clos`), and the label `(handle, a + 5)` is in the log (`BlkOK.lab`).

* `compiled_closure_dispatch_full` — the complete statement, for `p.bytecode.size < 2 ^ 32`
  (so that `c % 2 ^ 32 = c`; the instance `< 2 ^ 31`, the hypothesis of `C10b.compile_wf`, is
  `compiled_closure_dispatch_full'`), under `C10b.ClosureHandlesDistinct`.
* `closure_dispatch_Full'_sized` : `C08c.closure_dispatch_Full'` with the size hypothesis added — proved.
* `closure_dispatch_Full_sized` : the exact statement of `C06.closure_dispatch_Full` with the one additional
  hypothesis `sfin.bytecode.size < 2 ^ 32` — proved (`closure_dispatch_sized`).  How the hypotheses compare:
  - `C06`'s `(sfin.labels.map (·.1)).Nodup` implies `ClosureHandlesDistinct` (`distinct_of_nodup`), which is
    weaker (it only constrains the handles of `Closure` instructions; `Nodup` fails for every program with a
    `Repeat` card);
  - `C06`'s "`q` is a trace key holding the opcode `Closure`" implies `C10.IsInstr p q op.closure`
    (trace keys are instruction starts, `Wf.Inv.trace`);
  - `C06`'s statement has NO bound on the size of the bytecode.  Without one the last clause is not provable
    and presumably false in the model: `patchI32` writes `UInt32.ofNat size`, i.e. the target modulo `2 ^ 32`, so
    for a `Closure` instruction at an address `q ≥ 2 ^ 32` the operand read back is `q % 2 ^ 32 ≠ q`.  (No
    concrete witness: it needs a 4 GiB program.  The Rust compiler has the same wrap-around: `as i32`.)
    `closure_dispatch_Full_of_small` states the relation: `C06.closure_dispatch_Full` holds for all
    compilations whose bytecode is smaller than `2 ^ 32` bytes.
-/
namespace Cao.C08d
open Cao Cao.Compiler Cao.Bytecode Cao.C10 Cao.C10b
set_option linter.unusedVariables false

/-- **`compiled_closure_dispatch_full`** (C06 `closure_dispatch_Full` / C08c `closure_dispatch_Full'`, for
    every compiled program smaller than 4 GiB, under the no-collision hypothesis of `C10b`): every `Closure`
    instruction at `q` of a compiled program belongs to a closure expression
    `Goto q; ⟨body⟩ …; Return; Closure h arity; …`: the label table maps the handle operand `h` of the
    instruction to an address `e` with `5 ≤ e ≤ q`, at `e - 5` there is a `Goto` **whose operand is `q`**,
    `e - 5` and `e` are instruction starts, the instruction in front of `q` is a `Return` (at `q - 1`, an
    instruction start), and `[e, q)` is a level of the upvalue structure `UpT`. -/
theorem compiled_closure_dispatch_full {m std : Module} {limit : Nat} {p : Program}
    (h : compile m std limit = .ok p) (hsz : p.bytecode.size < 2 ^ 32)
    (hd : ClosureHandlesDistinct m std limit p) (q : Nat) (hq : IsInstr p q op.closure) :
    ∃ e, p.labels.find? (fun l => l.1 == UInt32.ofNat (rdU32 p.bytecode (q + 1))) =
          some (UInt32.ofNat (rdU32 p.bytecode (q + 1)), e) ∧
      5 ≤ e ∧ e ≤ q ∧ p.bytecode.getD (e - 5) 0 = op.goto ∧ rdU32 p.bytecode (e - 4) = q ∧
      IsStartPos p (e - 5) ∧ IsStartPos p e ∧
      p.bytecode.getD (q - 1) 0 = op.ret ∧ IsStartPos p (q - 1) ∧ e + 1 ≤ q ∧
      ∃ nUp, UpT p.bytecode (labelLog m std limit) nUp e q := by
  obtain ⟨e, he, g1, g2, g3, g4, g5, g6⟩ := C08c.compiled_closure_dispatch h hd q hq
  obtain ⟨unit, Bs, _, G, _⟩ := C04c.compiled_seq_jump h
  obtain ⟨_, _, _, _, _, hlab, hlog⟩ := compile_run h
  obtain ⟨hst, hlt, hop⟩ := hq
  obtain ⟨B, hB, hBq⟩ := G.clos q hst hlt hop.symm
  have ok := G.blk B hB
  -- the entry `e` the label table designates is the entry `B.1 + 5` of the block that ends at `q`
  have hmem : (UInt32.ofNat (rdU32 p.bytecode (q + 1)), e) ∈ labelLog m std limit := by
    have := List.mem_of_find?_eq_some he
    rw [hlab, ← hlog] at this
    exact resolveLog_subset _ _ this
  have hlabB : (UInt32.ofNat (rdU32 p.bytecode (q + 1)), B.1 + 5) ∈ labelLog m std limit := by
    have := ok.lab
    rw [hBq] at this
    exact this
  have hee : e = B.1 + 5 := hd q ⟨hst, hlt, hop⟩ _ hlabB _ hmem rfl rfl
  have hlen := ok.len
  have htgt := ok.tgt
  rw [hBq] at hlen htgt
  have hret := ok.ret
  have htr := ok.tr
  rw [hBq] at hret htr
  refine ⟨e, he, g1, g2, g3, ?_, g4, g5, hret, ⟨htr, by omega⟩, by omega, g6⟩
  have h4 : e - 4 = B.1 + 1 := by omega
  rw [h4, htgt]
  exact Nat.mod_eq_of_lt (by omega)

/-- the instance for the size bound of `C10b.compile_wf` -/
theorem compiled_closure_dispatch_full' {m std : Module} {limit : Nat} {p : Program}
    (h : compile m std limit = .ok p) (hsz : p.bytecode.size < 2 ^ 31)
    (hd : ClosureHandlesDistinct m std limit p) (q : Nat) (hq : IsInstr p q op.closure) :
    ∃ e, p.labels.find? (fun l => l.1 == UInt32.ofNat (rdU32 p.bytecode (q + 1))) =
          some (UInt32.ofNat (rdU32 p.bytecode (q + 1)), e) ∧
      5 ≤ e ∧ e ≤ q ∧ p.bytecode.getD (e - 5) 0 = op.goto ∧ rdU32 p.bytecode (e - 4) = q ∧
      IsStartPos p (e - 5) ∧ IsStartPos p e := by
  obtain ⟨e, a1, a2, a3, a4, a5, a6, a7, _⟩ :=
    compiled_closure_dispatch_full h (Nat.lt_trans hsz (by decide)) hd q hq
  exact ⟨e, a1, a2, a3, a4, a5, a6, a7⟩

/-- … in the vocabulary of C04 and for the interpreter's view of the program: what `CallFunction` on the
    closure object created at `q` looks up (`C06.closure_object`: the object carries the handle operand) is
    the entry of the body the `Goto q` in front of it skips -/
theorem compiled_closure_dispatch_full_vm {m std : Module} {limit : Nat} {p : Program}
    (h : compile m std limit = .ok p) (hsz : p.bytecode.size < 2 ^ 32)
    (hd : ClosureHandlesDistinct m std limit p)
    (q : Nat) (hq : C04.Start p q) (hop : p.bytecode.getD q 0 = op.closure) :
    ∃ e, (Vm.Prog.ofProgram p).labels.find?
          (fun l => l.1 == UInt32.ofNat (Vm.rdU32 (Vm.Prog.ofProgram p).bytecode (q + 1))) =
          some (UInt32.ofNat (Vm.rdU32 (Vm.Prog.ofProgram p).bytecode (q + 1)), e) ∧
      5 ≤ e ∧ e ≤ q ∧ p.bytecode.getD (e - 5) 0 = op.goto ∧
      Vm.rdU32 (Vm.Prog.ofProgram p).bytecode (e - 4) = q ∧ C04.Start p (e - 5) ∧ C04.Start p e := by
  obtain ⟨h1, h2⟩ := (C08c.start_iff h q).1 hq
  obtain ⟨e, he, g1, g2, g3, g4, g5, g6, _⟩ := compiled_closure_dispatch_full h hsz hd q ⟨h1, h2, hop.symm⟩
  exact ⟨e, he, g1, g2, g3, g4, (C08c.start_iff h _).2 g5, (C08c.start_iff h _).2 g6⟩

/-! ## the open statements -/

/-- `C08c.closure_dispatch_Full'` with the size hypothesis it lacks -/
def closure_dispatch_Full'_sized : Prop :=
  ∀ (m std : Module) (limit : Nat) (p : Program), compile m std limit = .ok p → p.bytecode.size < 2 ^ 32 →
    ClosureHandlesDistinct m std limit p → ∀ q, IsInstr p q op.closure →
      ∃ e, p.labels.find? (fun l => l.1 == UInt32.ofNat (rdU32 p.bytecode (q + 1))) =
            some (UInt32.ofNat (rdU32 p.bytecode (q + 1)), e) ∧
        5 ≤ e ∧ p.bytecode.getD (e - 5) 0 = op.goto ∧ rdU32 p.bytecode (e - 4) = q

theorem closure_dispatch_sized' : closure_dispatch_Full'_sized := fun m std limit p h hsz hd q hq => by
  obtain ⟨e, a1, a2, _, a4, a5, _⟩ := compiled_closure_dispatch_full h hsz hd q hq
  exact ⟨e, a1, a2, a4, a5⟩

/-- `C08c.closure_dispatch_Full'` is this statement for programs of any size: it follows for all
    compilations that stay below 4 GiB -/
theorem closure_dispatch_Full'_of_small
    (hsmall : ∀ (m std : Module) (limit : Nat) (p : Program), compile m std limit = .ok p →
      p.bytecode.size < 2 ^ 32) : C08c.closure_dispatch_Full' :=
  fun m std limit p h hd q hq => closure_dispatch_sized' m std limit p h (hsmall m std limit p h) hd q hq

/-- a `Nodup` label log (the hypothesis of `C06.closure_dispatch_Full`) has no colliding closure handle -/
theorem distinct_of_nodup {m std : Module} {limit : Nat} (p : Program)
    (h : ((labelLog m std limit).map (·.1)).Nodup) : ClosureHandlesDistinct m std limit p :=
  fun _ _ l1 h1 l2 h2 _ e => functional_of_pairwise _ h l1 h1 l2 h2 e

/-- the exact statement of `C06.closure_dispatch_Full`, plus the hypothesis `sfin.bytecode.size < 2 ^ 32` -/
def closure_dispatch_Full_sized : Prop :=
  ∀ (m std : Module) (limit : Nat) (unit : Array FunctionIr) (sfin : CState),
    intoIrStream m std limit = .ok unit → (compileUnit unit).run {} = .ok ((), sfin) →
    sfin.bytecode.size < 2 ^ 32 →
    (sfin.labels.map (·.1)).Nodup →
    ∀ q, (∃ t, (q, t) ∈ sfin.trace) → sfin.bytecode[q]? = some op.closure →
      ∃ e, (resolveLog sfin.labels).find? (fun l => l.1 == UInt32.ofNat (rdU32 sfin.bytecode (q + 1)))
          = some (UInt32.ofNat (rdU32 sfin.bytecode (q + 1)), e) ∧
        5 ≤ e ∧ sfin.bytecode[e - 5]? = some op.goto ∧ rdU32 sfin.bytecode (e - 4) = q

/-- **`C06.closure_dispatch_Full` for every compilation below 4 GiB** -/
theorem closure_dispatch_sized : closure_dispatch_Full_sized := by
  intro m std limit unit sfin hu hrun hsz hnd q ⟨t, ht⟩ hop
  -- the program `compile` returns for this run
  have hp : compile m std limit =
      .ok { bytecode := sfin.bytecode, data := sfin.data, labels := resolveLog sfin.labels,
            varIds := sfin.varIds, varNames := sfin.varNames, trace := resolveLog sfin.trace } := by
    unfold compile
    rw [hu]
    dsimp only
    rw [hrun]
  have hlog : labelLog m std limit = sfin.labels := by
    unfold labelLog
    rw [hu]
    dsimp only
    rw [hrun]
  have hstart := (Compiler.Wf.compileUnit_spec hrun).inv.trace (q, t) ht
  have hget : sfin.bytecode.getD q 0 = op.closure := by
    rw [Array.getD_eq_getD_getElem?, hop]; rfl
  obtain ⟨e, a1, a2, _, a4, a5, a6, _⟩ :=
    compiled_closure_dispatch_full hp hsz (distinct_of_nodup _ (by rw [hlog]; exact hnd)) q
      ⟨hstart.1, hstart.2, hget.symm⟩
  refine ⟨e, a1, a2, ?_, a5⟩
  have hlt : e - 5 < sfin.bytecode.size := a6.2
  have a4' : sfin.bytecode.getD (e - 5) 0 = op.goto := a4
  rw [Array.getD_eq_getD_getElem?, Array.getElem?_eq_getElem hlt] at a4'
  rw [Array.getElem?_eq_getElem hlt]
  exact congrArg some a4'

/-- how `C06.closure_dispatch_Full` relates: it is `closure_dispatch_Full_sized` without the size bound;
    it holds as soon as no successful compilation produces 4 GiB of bytecode -/
theorem closure_dispatch_Full_of_small
    (hsmall : ∀ (m std : Module) (limit : Nat) (unit : Array FunctionIr) (sfin : CState),
      intoIrStream m std limit = .ok unit → (compileUnit unit).run {} = .ok ((), sfin) →
      sfin.bytecode.size < 2 ^ 32) : C06.closure_dispatch_Full :=
  fun m std limit unit sfin hu hrun hnd q hq hop =>
    closure_dispatch_sized m std limit unit sfin hu hrun (hsmall m std limit unit sfin hu hrun) hnd q hq hop

/-! ## non-vacuity -/

/-- the two `Closure` instructions (at 31 and 46) of the two-level closure of `C10b`: the hypotheses hold
    (`C08c.twoLevel_dispatch`; the program has 60-odd bytes), and the conclusion: each skip-`Goto` targets
    its own `Closure` instruction -/
example : ∃ p e1 e2, compile twoLevel stdE = .ok p ∧
    p.labels.find? (fun l => l.1 == UInt32.ofNat (rdU32 p.bytecode 32)) =
      some (UInt32.ofNat (rdU32 p.bytecode 32), e1) ∧ 5 ≤ e1 ∧ rdU32 p.bytecode (e1 - 4) = 31 ∧
    p.labels.find? (fun l => l.1 == UInt32.ofNat (rdU32 p.bytecode 47)) =
      some (UInt32.ofNat (rdU32 p.bytecode 47), e2) ∧ 5 ≤ e2 ∧ rdU32 p.bytecode (e2 - 4) = 46 := by
  obtain ⟨p, hc, hd, h31, h46⟩ := C08c.twoLevel_dispatch
  obtain ⟨p', hc', hsz, _⟩ := hypsOK_sound twoLevel_hyps
  have hc'' : compile twoLevel stdE = .ok p' := hc'
  rw [hc] at hc''
  cases hc''
  obtain ⟨e1, a1, a2, _, _, a5, _⟩ := compiled_closure_dispatch_full' hc hsz hd 31 h31
  obtain ⟨e2, b1, b2, _, _, b5, _⟩ := compiled_closure_dispatch_full' hc hsz hd 46 h46
  exact ⟨p, e1, e2, hc, a1, a2, a5, b1, b2, b5⟩

end Cao.C08d
