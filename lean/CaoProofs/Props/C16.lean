import CaoProofs.Lemmas.CardLemmas
/-!
# C16 — card indices, walking and editing a module

Property: *Every card of a module has exactly one index; visiting all cards reports each card
once together with an index that, when looked up, returns that same card, and child
enumeration, child count and child lookup agree for every card kind. Insert, remove, replace
and swap change exactly the addressed card(s): remove undoes insert at the same index,
replacing back restores the module, swapping twice is the identity, swapping a card with its
own ancestor or using an invalid index fails and leaves the module unchanged.*

The model (`CaoModel/CardOps.lean`) mirrors the patched `card.rs` / `module.rs` kind by kind and
is tied to the Rust crate by the `mod` correspondence engine. The theorems below hold for
**every** module, index and card. Helper lemmas live in `CaoProofs/Lemmas/CardLemmas.lean`.

Vocabulary: `MDisj a b` — the two indices address disjoint subtrees (different functions, or
neither sub-index path is a prefix of the other); `Module.isListSlot m idx` — the addressed slot
is an element position of a `Vec<Card>` (top-level card of a function; child of
Composite/Closure/Array/Call/CallNative; argument of DynamicCall) as opposed to a fixed field.
-/
namespace Cao.C16
open Cao Cao.Card Cao.Module

/-! ## 1. child count, child enumeration and child lookup agree (all 23 constructor shapes) -/

theorem numChildren_children (c : Card) : c.numChildren = c.children.length :=
  Card.numChildren_eq c

theorem children_getChild (c : Card) (i : Nat) : c.children[i]? = c.getChild i :=
  (Card.getChild_eq c i).symm

/-- `get_child(i)` is `Some` exactly for `i < num_children()` -/
theorem getChild_isSome_iff (c : Card) (i : Nat) : (c.getChild i).isSome ↔ i < c.numChildren := by
  rw [Card.getChild_eq, Card.numChildren_eq]
  simp

/-! ## 2. walking: every card is reported exactly once, with an index that fetches it -/

/-- soundness: every reported `(index, card)` satisfies `get_card(index) = Ok(card)` -/
theorem walk_getCard (m : Module) : ∀ p ∈ m.walk, m.getCard p.1 = .ok p.2 := by
  intro p hp
  exact (Module.mem_walk_iff m p.1 p.2).1 hp

/-- completeness: every index at which `get_card` succeeds is reported, with that card -/
theorem walk_complete (m : Module) (idx : CardIndex) (c : Card) (h : m.getCard idx = .ok c) :
    (idx, c) ∈ m.walk :=
  (Module.mem_walk_iff m idx c).2 h

/-- no index is reported twice -/
theorem walk_nodup (m : Module) : (m.walk.map (·.1)).Nodup := Module.nodup_walk m

/-- the reported indices are exactly the valid ones -/
theorem mem_walk_indices_iff (m : Module) (idx : CardIndex) :
    idx ∈ m.walk.map (·.1) ↔ ∃ c, m.getCard idx = .ok c := by
  rw [List.mem_map]
  constructor
  · rintro ⟨⟨i, c⟩, hm, rfl⟩
    exact ⟨c, walk_getCard m _ hm⟩
  · rintro ⟨c, h⟩
    exact ⟨(idx, c), walk_complete m idx c h, rfl⟩

/-- every valid index occurs exactly once in the walk -/
theorem walk_exactly_once (m : Module) (idx : CardIndex) (c : Card) (h : m.getCard idx = .ok c) :
    (m.walk.map (·.1)).count idx = 1 := by
  rw [(walk_nodup m).count, if_pos ((mem_walk_indices_iff m idx).2 ⟨c, h⟩)]

/-- a card occurrence has one index: two reported entries with the same index are the same entry
(and carry the same card) -/
theorem walk_index_unique (m : Module) (i j : Nat) (hi : i < m.walk.length) (hj : j < m.walk.length)
    (h : (m.walk[i]).1 = (m.walk[j]).1) : i = j := by
  have hn := walk_nodup m
  have hi' : i < (m.walk.map (·.1)).length := by simpa using hi
  have hj' : j < (m.walk.map (·.1)).length := by simpa using hj
  exact (List.getElem_inj (h₀ := hi') (h₁ := hj') hn).1 (by simpa using h)

/-! ## 4. replace -/

theorem replace_get (m m' : Module) (idx : CardIndex) (c old : Card)
    (h : m.replaceCard idx c = .ok (m', old)) :
    m.getCard idx = .ok old ∧ m'.getCard idx = .ok c := by
  unfold replaceCard at h
  cases hg : m.getCard idx with
  | error e => rw [hg] at h; cases h
  | ok o =>
    rw [hg] at h
    cases h
    exact ⟨rfl, getCard_setCard_same m idx c _ hg⟩

/-- replacing back restores the module (and hands back the card that was put in) -/
theorem replace_replace (m m' : Module) (idx : CardIndex) (c old : Card)
    (h : m.replaceCard idx c = .ok (m', old)) : m'.replaceCard idx old = .ok (m, c) := by
  have hg := (replace_get m m' idx c old h).1
  rw [replaceCard_ok m idx c old hg] at h
  cases h
  rw [replaceCard_ok _ idx old c (getCard_setCard_same m idx c old hg),
    setCard_setCard_same, setCard_getCard m idx old hg]

/-- `replace_card` succeeds exactly where `get_card` does, with the same error otherwise -/
theorem replace_error_iff (m : Module) (idx : CardIndex) (c : Card) (e : CardFetchError) :
    m.replaceCard idx c = .error e ↔ m.getCard idx = .error e := by
  unfold replaceCard
  cases m.getCard idx <;> simp

/-- replace changes nothing outside the addressed subtree -/
theorem replace_frame (m m' : Module) (idx q : CardIndex) (c old : Card)
    (h : m.replaceCard idx c = .ok (m', old)) (hd : MDisj idx q) : m'.getCard q = m.getCard q := by
  have hg := (replace_get m m' idx c old h).1
  rw [replaceCard_ok m idx c old hg] at h
  cases h
  exact getCard_setCard_disj m idx q c hd

/-! ## 3. insert / remove -/

/-- after a successful insert the addressed index holds the inserted card — for list slots
(the old occupant and its right siblings shifted) and for fixed slots (the old occupant is
overwritten: insert *replaces*) alike -/
theorem insert_get (m m' : Module) (idx : CardIndex) (c : Card)
    (h : m.insertCard idx c = .ok m') : m'.getCard idx = .ok c := by
  cases hi : idx.indices with
  | nil =>
    unfold insertCard at h
    cases hf : m.functions[idx.function]? with
    | none => simp [hf] at h
    | some nf => simp [hf, hi] at h
  | cons i r =>
    cases r with
    | nil =>
      rw [insertCard_top m idx c i hi] at h
      cases hc : m.cardsOf idx.function with
      | none => simp [hc] at h
      | some cs =>
        simp only [hc] at h
        split at h
        · cases h
        · rename_i hlen
          cases h
          rw [getCard_ok_iff]
          refine ⟨cs.insertIdx i c, by simp [cardsOf_setFn, hc], ?_⟩
          rw [hi]
          have hle : i ≤ cs.length := by omega
          simp [getL, List.getElem?_insertIdx_self, hle, getPath]
    | cons j rest =>
      rw [insertCard_nested m idx c i j rest hi] at h
      cases hp : m.getCard idx.parent with
      | error e => simp [hp] at h
      | ok p =>
        simp only [hp] at h
        cases hins : p.insertChild (idx.indices.getLast?.getD 0) c with
        | error e => simp [hins] at h
        | ok p' =>
          simp only [hins, Except.ok.injEq] at h
          subst h
          have h1 := getCard_setCard_same m idx.parent p' p hp
          have h2 := getCard_append _ idx.parent.function idx.parent.indices
            [idx.indices.getLast?.getD 0] p' h1
          rw [← idx_eq_parent_append idx i j rest hi] at h2
          rw [h2]
          simp only [getPath, Card.getChild_insertChild p p' _ c hins]
          rfl

/-- **remove undoes insert** at the same index, for every list slot -/
theorem remove_insert (m m' : Module) (idx : CardIndex) (c : Card)
    (h : m.insertCard idx c = .ok m') (hl : m.isListSlot idx = true) :
    m'.removeCard idx = .ok (m, c) := by
  cases hi : idx.indices with
  | nil => simp [Module.isListSlot, hi] at hl
  | cons i r =>
    cases r with
    | nil =>
      rw [insertCard_top m idx c i hi] at h
      rw [removeCard_top m' idx i hi]
      cases hc : m.cardsOf idx.function with
      | none => simp [hc] at h
      | some cs =>
        simp only [hc] at h
        split at h
        · cases h
        · rename_i hlen
          cases h
          have hle : i ≤ cs.length := by omega
          simp only [cardsOf_setFn, if_pos, hc, Option.map_some, List.getElem?_insertIdx_self, hle,
            List.eraseIdx_insertIdx_self, setFn_setFn, setFn_cardsOf m _ cs hc]
    | cons j rest =>
      rw [insertCard_nested m idx c i j rest hi] at h
      rw [removeCard_nested m' idx i j rest hi]
      cases hp : m.getCard idx.parent with
      | error e => simp [hp] at h
      | ok p =>
        simp only [hp] at h
        have hl' : p.isListSlot (idx.indices.getLast?.getD 0) = true := by
          simp only [Module.isListSlot, hi, hp] at hl
          rw [hi]; exact hl
        cases hins : p.insertChild (idx.indices.getLast?.getD 0) c with
        | error e => simp [hins] at h
        | ok p' =>
          simp only [hins, Except.ok.injEq] at h
          subst h
          rw [getCard_setCard_same m idx.parent p' p hp]
          simp only [Card.removeChild_insertChild p p' _ c hins hl']
          rw [setCard_setCard_same, setCard_getCard m idx.parent p hp]

/-- for fixed slots insert **replaces**: it is `replace_card` with the old card dropped -/
theorem insert_fixed_replaces (m m' : Module) (idx : CardIndex) (c : Card)
    (h : m.insertCard idx c = .ok m') (hl : m.isListSlot idx = false) :
    ∃ old, m.replaceCard idx c = .ok (m', old) :=
  Module.insertCard_fixed m m' idx c h hl

/-- `remove_card` hands out exactly the addressed card -/
theorem remove_returns_addressed (m m' : Module) (idx : CardIndex) (r : Card)
    (h : m.removeCard idx = .ok (m', r)) : m.getCard idx = .ok r := by
  rw [← Module.removeCard_fst_snd, h]; rfl

/-- `remove_card` fails exactly where `get_card` does, with the same error -/
theorem remove_error_iff (m : Module) (idx : CardIndex) (e : CardFetchError) :
    m.removeCard idx = .error e ↔ m.getCard idx = .error e := by
  rw [← Module.removeCard_fst_snd]
  cases m.removeCard idx with
  | error e' => simp [Except.map]
  | ok r => simp [Except.map]

/-- a nested remove changes nothing outside the subtree of the parent card -/
theorem remove_frame (m m' : Module) (idx q : CardIndex) (r : Card)
    (h : m.removeCard idx = .ok (m', r)) (hlen : 2 ≤ idx.indices.length)
    (hd : MDisj idx.parent q) : m'.getCard q = m.getCard q := by
  cases hi : idx.indices with
  | nil => simp [hi] at hlen
  | cons i r' =>
    cases r' with
    | nil => simp [hi] at hlen
    | cons j rest =>
      rw [removeCard_nested m idx i j rest hi] at h
      cases hp : m.getCard idx.parent with
      | error e => simp [hp] at h
      | ok p =>
        simp only [hp] at h
        cases hrem : p.removeChild (idx.indices.getLast?.getD 0) with
        | none => simp [hrem] at h
        | some pr =>
          obtain ⟨p', r''⟩ := pr
          simp only [hrem, Except.ok.injEq, Prod.mk.injEq] at h
          obtain ⟨h1, _⟩ := h
          subst h1
          exact getCard_setCard_disj m idx.parent q p' hd

/-- a nested insert changes nothing outside the subtree of the parent card -/
theorem insert_frame (m m' : Module) (idx q : CardIndex) (c : Card)
    (h : m.insertCard idx c = .ok m') (hlen : 2 ≤ idx.indices.length) (hd : MDisj idx.parent q) :
    m'.getCard q = m.getCard q := by
  cases hi : idx.indices with
  | nil => simp [hi] at hlen
  | cons i r =>
    cases r with
    | nil => simp [hi] at hlen
    | cons j rest =>
      rw [insertCard_nested m idx c i j rest hi] at h
      cases hp : m.getCard idx.parent with
      | error e => simp [hp] at h
      | ok p =>
        simp only [hp] at h
        cases hins : p.insertChild (idx.indices.getLast?.getD 0) c with
        | error e => simp [hins] at h
        | ok p' =>
          simp only [hins, Except.ok.injEq] at h
          subst h
          exact getCard_setCard_disj m idx.parent q p' hd

/-- a top-level insert changes no other function -/
theorem insert_frame_top (m m' : Module) (idx q : CardIndex) (c : Card)
    (h : m.insertCard idx c = .ok m') (hlen : idx.indices.length = 1)
    (hq : idx.function ≠ q.function) : m'.getCard q = m.getCard q := by
  cases hi : idx.indices with
  | nil => simp [hi] at hlen
  | cons i r =>
    cases r with
    | cons j rest => simp [hi] at hlen
    | nil =>
      rw [insertCard_top m idx c i hi] at h
      cases hc : m.cardsOf idx.function with
      | none => simp [hc] at h
      | some cs =>
        simp only [hc] at h
        split at h
        · cases h
        · cases h
          rw [getCard_eq, getCard_eq, cardsOf_setFn, if_neg hq]

/-! ## 5. swap -/

/-- swapping a (valid) card with itself is a no-op -/
theorem swap_self (m : Module) (a : CardIndex) (c : Card) (h : m.getCard a = .ok c) :
    m.swapCards a a = .ok m := by
  unfold swapCards
  rw [swapCardsSt_self, h]

theorem swap_self_invalid (m : Module) (a : CardIndex) (e : CardFetchError)
    (h : m.getCard a = .error e) : m.swapCardsSt a a = (m, .error (.fetchError e)) := by
  rw [swapCardsSt_self, h]

/-- **every failing `swap_cards` leaves the module unchanged** (the restore step restores, and
the three `unwrap()`s never fire) -/
theorem swap_error_unchanged (m : Module) (a b : CardIndex) (e : SwapError)
    (h : (m.swapCardsSt a b).2 = .error e) : (m.swapCardsSt a b).1 = m := by
  by_cases hab : a = b
  · subst hab
    rw [swapCardsSt_self]
    cases m.getCard a <;> rfl
  · obtain ⟨_, hne, hord⟩ := swap_select a b hab
    rw [swapCardsSt_ne m a b hab] at h ⊢
    rcases swapCore_cases m _ _ hne hord with ⟨_, _, hs⟩ | ⟨_, _, _, hs⟩ | ⟨_, _, _, _, _, hs⟩ |
      ⟨_, _, _, _, _, hs⟩
    · rw [hs]
    · rw [hs]
    · rw [hs]
    · rw [hs] at h; cases h

/-- characterisation of success: either `a = b` is valid and nothing changes, or `a` and `b` are
both valid and address disjoint subtrees, and the result is `m` with the two cards exchanged -/
theorem swap_ok_char (m m' : Module) (a b : CardIndex) (h : m.swapCards a b = .ok m') :
    (a = b ∧ m' = m ∧ ∃ c, m.getCard a = .ok c) ∨
    (MDisj a b ∧ ∃ A B, m.getCard a = .ok A ∧ m.getCard b = .ok B ∧
      m' = (m.setCard a B).setCard b A) := by
  unfold swapCards at h
  by_cases hab : a = b
  · subst hab
    rw [swapCardsSt_self] at h
    cases hg : m.getCard a with
    | error e => rw [hg] at h; cases h
    | ok c =>
      rw [hg] at h
      simp only [Except.ok.injEq] at h
      exact Or.inl ⟨rfl, h.symm, c, rfl⟩
  · right
    obtain ⟨hsel, hne, hord⟩ := swap_select a b hab
    rw [swapCardsSt_ne m a b hab] at h
    generalize (if a < b then b else a) = lhs at *
    generalize (if a < b then a else b) = rhs at *
    rcases swapCore_cases m _ _ hne hord with ⟨_, _, hs⟩ | ⟨_, _, _, hs⟩ | ⟨_, _, _, _, _, hs⟩ |
      ⟨L, R, hr, hd, hl, hs⟩
    · rw [hs] at h; cases h
    · rw [hs] at h; cases h
    · rw [hs] at h; cases h
    · rw [hs] at h
      simp only [Except.ok.injEq] at h
      rcases hsel with ⟨h1, h2⟩ | ⟨h1, h2⟩
      · subst h1 h2
        exact ⟨hd.symm, R, L, hr, hl, h.symm⟩
      · subst h1 h2
        refine ⟨hd, L, R, hl, hr, ?_⟩
        rw [← h, setCard_comm _ _ _ _ _ hd]

/-- conversely, two valid indices addressing disjoint subtrees can always be swapped -/
theorem swap_ok_of_disj (m : Module) (a b : CardIndex) (A B : Card) (hd : MDisj a b)
    (ha : m.getCard a = .ok A) (hb : m.getCard b = .ok B) :
    m.swapCards a b = .ok ((m.setCard a B).setCard b A) := by
  have hab : a ≠ b := hd.ne
  obtain ⟨hsel, _, _⟩ := swap_select a b hab
  unfold swapCards
  rw [swapCardsSt_ne m a b hab]
  generalize (if a < b then b else a) = lhs at *
  generalize (if a < b then a else b) = rhs at *
  rcases hsel with ⟨h1, h2⟩ | ⟨h1, h2⟩
  · rw [h1, h2, swapCore_disj m b a B A hd.symm hb ha]
  · rw [h1, h2, swapCore_disj m a b A B hd ha hb, setCard_comm _ _ _ _ _ hd.symm]

/-- after a successful swap the two indices hold each other's former cards -/
theorem swap_get (m m' : Module) (a b : CardIndex) (h : m.swapCards a b = .ok m') :
    m'.getCard a = m.getCard b ∧ m'.getCard b = m.getCard a := by
  rcases swap_ok_char m m' a b h with ⟨rfl, rfl, _⟩ | ⟨hd, A, B, ha, hb, rfl⟩
  · exact ⟨rfl, rfl⟩
  · constructor
    · rw [getCard_setCard_disj _ _ _ _ hd.symm, getCard_setCard_same m a B A ha, hb]
    · have : (m.setCard a B).getCard b = .ok B := by rw [getCard_setCard_disj _ _ _ _ hd, hb]
      rw [getCard_setCard_same _ b A B this, ha]

/-- a successful swap changes nothing outside the two addressed subtrees -/
theorem swap_frame (m m' : Module) (a b q : CardIndex) (h : m.swapCards a b = .ok m')
    (hqa : MDisj a q) (hqb : MDisj b q) : m'.getCard q = m.getCard q := by
  rcases swap_ok_char m m' a b h with ⟨rfl, rfl, _⟩ | ⟨_, A, B, _, _, rfl⟩
  · rfl
  · rw [getCard_setCard_disj _ _ _ _ hqb, getCard_setCard_disj _ _ _ _ hqa]

/-- **swapping twice is the identity** -/
theorem swap_swap (m m' : Module) (a b : CardIndex) (h : m.swapCards a b = .ok m') :
    m'.swapCards a b = .ok m := by
  rcases swap_ok_char m m' a b h with ⟨rfl, rfl, c, hc⟩ | ⟨hd, A, B, ha, hb, rfl⟩
  · exact swap_self m' a c hc
  · obtain ⟨h1, h2⟩ := swap_get m _ a b h
    rw [hb] at h1; rw [ha] at h2
    rw [swap_ok_of_disj _ a b B A hd h1 h2]
    congr 1
    rw [setCard_comm (m.setCard a B) b a A A hd.symm, setCard_setCard_same,
      setCard_setCard_same, setCard_getCard m a A ha,
      setCard_getCard m b B hb]

/-- swapping also works with the arguments exchanged, with the same result -/
theorem swap_symm (m m' : Module) (a b : CardIndex) (h : m.swapCards a b = .ok m') :
    m.swapCards b a = .ok m' := by
  rcases swap_ok_char m m' a b h with ⟨rfl, _, _⟩ | ⟨hd, A, B, ha, hb, rfl⟩
  · exact h
  · rw [swap_ok_of_disj m b a B A hd.symm hb ha, setCard_comm _ _ _ _ _ hd.symm]

/-- **swapping a card with its own (proper) ancestor fails**, in either argument order — and by
`swap_error_unchanged` the module is left as it was -/
theorem swap_ancestor_fails (m : Module) (a b : CardIndex) (hf : a.function = b.function)
    (hp : a.indices <+: b.indices) (hne : a ≠ b) :
    (∃ e, m.swapCards a b = .error e) ∧ (∃ e, m.swapCards b a = .error e) := by
  have hnd : ¬ MDisj a b := (not_mdisj_iff a b).2 ⟨hf, Or.inl hp⟩
  constructor
  · cases hs : m.swapCards a b with
    | error e => exact ⟨e, rfl⟩
    | ok m' =>
      rcases swap_ok_char m m' a b hs with ⟨h, _, _⟩ | ⟨hd, _⟩
      · exact absurd h hne
      · exact absurd hd hnd
  · cases hs : m.swapCards b a with
    | error e => exact ⟨e, rfl⟩
    | ok m' =>
      rcases swap_ok_char m m' b a hs with ⟨h, _, _⟩ | ⟨hd, _⟩
      · exact absurd h.symm hne
      · exact absurd hd.symm hnd

/-- swapping with an invalid index fails (either argument, either order) -/
theorem swap_invalid_fails (m : Module) (a b : CardIndex) (e : CardFetchError)
    (h : m.getCard a = .error e ∨ m.getCard b = .error e) : ∃ e', m.swapCards a b = .error e' := by
  cases hs : m.swapCards a b with
  | error e' => exact ⟨e', rfl⟩
  | ok m' =>
    rcases swap_ok_char m m' a b hs with ⟨rfl, _, c, hc⟩ | ⟨_, A, B, ha, hb, _⟩
    · rcases h with h | h <;> rw [hc] at h <;> cases h
    · rcases h with h | h
      · rw [ha] at h; cases h
      · rw [hb] at h; cases h

/-! ## 6. non-vacuity: a concrete module -/

/-- `main = [1 + 2, (dyncall f [5, [nil, table]]), repeat 3 {composite [abort]}]`, `g = [nil]` -/
def ex : Module :=
  .mk [] [("main", ⟨[], [.bin .add (.scalarInt 1) (.scalarInt 2),
                        .dynamicCall [.scalarInt 5, .array [.scalarNil, .createTable]] (.function "f"),
                        .repeat none (.scalarInt 3) (.composite "x" [.abort])]⟩),
          ("g", ⟨["a"], [.scalarNil]⟩)] []

example : ex.walk.map (·.1) =
    [⟨0,[0]⟩, ⟨0,[0,0]⟩, ⟨0,[0,1]⟩, ⟨0,[1]⟩, ⟨0,[1,0]⟩, ⟨0,[1,1]⟩, ⟨0,[1,2]⟩, ⟨0,[1,2,0]⟩, ⟨0,[1,2,1]⟩,
     ⟨0,[2]⟩, ⟨0,[2,0]⟩, ⟨0,[2,1]⟩, ⟨0,[2,1,0]⟩, ⟨1,[0]⟩] := by decide

example : ex.getCard ⟨0, [1, 2, 1]⟩ = .ok .createTable := rfl
example : ex.getCard ⟨0, [1, 0]⟩ = .ok (.function "f") := rfl
example : ex.getCard ⟨0, []⟩ = .error .invalidIndex := rfl
example : ex.getCard ⟨2, [0]⟩ = .error .functionNotFound := rfl
example : ex.getCard ⟨0, [0, 0, 0]⟩ = .error .cardNotFound := rfl

/-- list slot: insert then remove -/
example : ∃ m', ex.insertCard ⟨0, [1, 1]⟩ .abort = .ok m' ∧ ex.isListSlot ⟨0, [1, 1]⟩ = true ∧
    m'.getCard ⟨0, [1, 1]⟩ = .ok .abort ∧ m'.getCard ⟨0, [1, 2]⟩ = .ok (.scalarInt 5) ∧
    m'.removeCard ⟨0, [1, 1]⟩ = .ok (ex, .abort) :=
  ⟨_, rfl, rfl, rfl, rfl, rfl⟩

/-- fixed slot: insert overwrites (`DynamicCall.function`), remove leaves a placeholder -/
example : ∃ m', ex.insertCard ⟨0, [1, 0]⟩ .abort = .ok m' ∧ ex.isListSlot ⟨0, [1, 0]⟩ = false ∧
    m'.getCard ⟨0, [1, 0]⟩ = .ok .abort ∧ m'.getCard ⟨0, [1, 1]⟩ = .ok (.scalarInt 5) ∧
    (m'.removeCard ⟨0, [1, 0]⟩).map (·.2) = .ok .abort :=
  ⟨_, rfl, rfl, rfl, rfl, rfl⟩

example : (ex.removeCard ⟨0, [2, 0]⟩).map (fun r => (r.1.getCard ⟨0, [2, 0]⟩, r.2)) =
    .ok (.ok (.scalarInt 0), .scalarInt 3) := rfl

example : ∃ m', ex.swapCards ⟨0, [0, 1]⟩ ⟨1, [0]⟩ = .ok m' ∧
    m'.getCard ⟨0, [0, 1]⟩ = .ok .scalarNil ∧ m'.getCard ⟨1, [0]⟩ = .ok (.scalarInt 2) ∧
    m'.swapCards ⟨0, [0, 1]⟩ ⟨1, [0]⟩ = .ok ex :=
  ⟨_, rfl, rfl, rfl, rfl⟩

example : ex.swapCardsSt ⟨0, [1]⟩ ⟨0, [1, 2, 0]⟩ = (ex, .error .invalidSwap) := rfl
example : ex.swapCardsSt ⟨0, [1, 2, 0]⟩ ⟨0, [1]⟩ = (ex, .error .invalidSwap) := rfl
example : ex.swapCardsSt ⟨0, [0]⟩ ⟨0, [7]⟩ = (ex, .error .invalidSwap) := rfl
example : ex.swapCardsSt ⟨0, [7]⟩ ⟨0, [8]⟩ = (ex, .error (.fetchError .cardNotFound)) := rfl
example : ex.swapCards ⟨0, [2]⟩ ⟨0, [2]⟩ = .ok ex := rfl

end Cao.C16
