import CaoProofs.Lemmas.CaptureRun
import CaoProofs.Lemmas.CapCheckDef
import CaoProofs.Props.C04
/-!
# Soundness of the executable checker `capStaticB` (`Lemmas/CapCheckDef.lean`) for `CapStatic` (C04c, stage C)

`capStaticB p` computes the closure regions of the bytecode the way `Bytecode.wfReason` does (the body of
the closure whose `Closure` instruction is at `c` is `[label of its handle, c)`; its level is the number of
`CopyLast; RegisterUpvalue` pairs behind the instruction), takes as the level of a position the level of
the innermost region around it, and then simply evaluates every field of `CapStatic` at every
instruction start.  Soundness (`capStaticB_sound`) therefore does not depend on how the regions were found.
-/
namespace Cao.C04c
open Cao Cao.Compiler Cao.Bytecode Cao.Vm Cao.C04
set_option linter.unusedVariables false

theorem capInstrs_eq (p : Program) : capInstrs p = instrs p := rfl

theorem capStaticB_sound_at {p : Program} (h : capStaticB p = true) :
    CapStatic (Prog.ofProgram p) (Start p) (lvlOf (regionsOf p)) (cntOf p.bytecode) := by
  have hin : capInstrs p = instrs p := rfl
  unfold capStaticB at h
  rw [hin] at h
  simp only [Bool.and_eq_true, beq_iff_eq, List.all_eq_true] at h
  obtain ⟨⟨hall, hlast⟩, h0⟩ := h
  have hat : ∀ src, Start p src → chkInstr p (lvlOf (regionsOf p)) (cntOf p.bytecode) src = true := by
    intro src hs
    unfold Start at hs
    obtain ⟨x, hx, rfl⟩ := List.mem_map.1 hs
    exact hall x hx
  refine ⟨fun src sp hs hsp hx hg hr => ?_, fun src hs hj => ?_, fun src hs ho hz => ?_, fun c hs ho => ?_,
    fun c k hs ho hk => ?_, fun x hs ho => ?_, hlast, h0⟩
  · have := hat src hs
    unfold chkInstr at this
    simp only [Bool.and_eq_true] at this
    have h1 := this.1.1.1.1
    change p.bytecode.getD src 0 ≠ _ at hx
    change p.bytecode.getD src 0 ≠ _ at hg
    change p.bytecode.getD src 0 ≠ _ at hr
    change Gen.spanOf (p.bytecode.getD src 0) = _ at hsp
    simp only [Bool.or_eq_true, beq_iff_eq, hx, hg, hr, false_or, hsp] at h1
    exact h1
  · have := hat src hs
    unfold chkInstr at this
    simp only [Bool.and_eq_true] at this
    have h1 := this.1.1.1.2
    change (p.bytecode.getD src 0 = _ ∨ p.bytecode.getD src 0 = _ ∨ p.bytecode.getD src 0 = _) at hj
    have hj' : (p.bytecode.getD src 0 == op.goto || p.bytecode.getD src 0 == op.gotoIfTrue ||
        p.bytecode.getD src 0 == op.gotoIfFalse) = true := by
      rcases hj with hj | hj | hj <;> simp [hj]
    simp only [hj', Bool.not_true, Bool.false_or, beq_iff_eq] at h1
    exact h1
  · have := hat src hs
    unfold chkInstr at this
    simp only [Bool.and_eq_true] at this
    have h1 := this.1.1.2
    change p.bytecode.getD src 0 = _ at ho
    change p.bytecode.getD (src + 2) 0 = 0 at hz
    simp only [ho, hz, beq_self_eq_true, Bool.and_self, Bool.not_true, Bool.false_or, decide_eq_true_eq] at h1
    exact h1
  · have := hat c hs
    unfold chkInstr at this
    simp only [Bool.and_eq_true] at this
    have h1 := this.1.2
    change p.bytecode.getD c 0 = _ at ho
    simp only [ho, beq_self_eq_true, Bool.not_true, Bool.false_or, Bool.and_eq_true] at h1
    intro e he
    change p.labels.find? (fun l => l.1 == UInt32.ofNat (Vm.rdU32 p.bytecode (c + 1))) = some e at he
    have h2 := h1.1
    rw [he] at h2
    simpa using h2
  · have := hat c hs
    unfold chkInstr at this
    simp only [Bool.and_eq_true] at this
    have h1 := this.1.2
    change p.bytecode.getD c 0 = _ at ho
    simp only [ho, beq_self_eq_true, Bool.not_true, Bool.false_or, Bool.and_eq_true, List.all_eq_true,
      List.mem_range, beq_iff_eq] at h1
    exact h1.2 k hk
  · have := hat x hs
    unfold chkInstr at this
    simp only [Bool.and_eq_true] at this
    have h1 := this.2
    change p.bytecode.getD x 0 = _ at ho
    simp only [ho, beq_self_eq_true, Bool.not_true, Bool.false_or] at h1
    intro e he
    change p.labels.find? (fun l => l.1 == UInt32.ofNat (Vm.rdU32 p.bytecode (x + 1))) = some e at he
    rw [he] at h1
    simpa using h1

/-- **soundness of the checker** -/
theorem capStaticB_sound {p : Program} (h : capStaticB p = true) :
    ∃ lvl cnt, CapStatic (Prog.ofProgram p) (Start p) lvl cnt :=
  ⟨_, _, capStaticB_sound_at h⟩

/-! ## towards stage D: the level function only depends on which regions a position lies in

To prove `capStaticB p = true` for a compiled program it suffices to show that the two ends of every
control-flow edge (fall-through, jump) lie in the same closure regions, and that function labels, the entry
point and the final `Exit` lie in none. -/

/-- `pos` lies in the region `r` -/
def inRegion (r : Nat × Nat × Nat) (pos : Nat) : Bool := decide (r.1 ≤ pos) && decide (pos < r.2.1)

theorem lvlOf_congr {rs : List (Nat × Nat × Nat)} {x y : Nat}
    (h : ∀ r ∈ rs, inRegion r x = inRegion r y) : lvlOf rs x = lvlOf rs y := by
  unfold lvlOf
  have : rs.filter (fun r => decide (r.1 ≤ x) && decide (x < r.2.1)) =
      rs.filter (fun r => decide (r.1 ≤ y) && decide (y < r.2.1)) :=
    List.filter_congr (fun r hr => h r hr)
  rw [this]

theorem lvlOf_outside {rs : List (Nat × Nat × Nat)} {x : Nat} (h : ∀ r ∈ rs, inRegion r x = false) :
    lvlOf rs x = 0 := by
  unfold lvlOf
  have : rs.filter (fun r => decide (r.1 ≤ x) && decide (x < r.2.1)) = [] :=
    List.filter_eq_nil_iff.2 (fun r hr => by have := h r hr; unfold inRegion at this; simp [this])
  rw [this]
  rfl

/-- in the shape asked for: some set of instruction starts, some level and count functions -/
theorem capStaticB_sound' {p : Program} (h : capStaticB p = true) :
    ∃ G lvl cnt, CapStatic (Prog.ofProgram p) G lvl cnt :=
  ⟨_, _, _, capStaticB_sound_at h⟩

end Cao.C04c
