import CaoProofs.Lemmas.SchedNatDefs
/-!
# Schedule independence: the host functions

Two runs of `callNativeBody` / `callNative` from related states, with related callbacks.
-/
namespace Cao.SchedFull
open Cao Cao.Vm Cao.Gc Cao.C02 Cao.C05 Cao.RunInv Cao.Native
set_option linter.unusedVariables false
set_option linter.unusedSectionVars false

/-- the post-condition of a host function body: same result, denoting the same value -/
abbrev QNat (c : Cfg) : Val → Val → VmState → VmState → Prop := fun a b s' t' => b = a ∧ VRes c a s' t'

section plain
variable {c : Cfg} {K : Nat → Prop} {s t : VmState}

theorem isTable_eq (h : Core c K s t) {v : Val} (hv : VK K v) : isTable t.heap v = isTable s.heap v := by
  unfold isTable
  cases v with
  | obj a => dsimp only; rw [h.agree a (hv a rfl)]
  | nil => rfl
  | int _ => rfl
  | real _ => rfl

/-- finishing a host function -/
theorem w2_ret (h : Agree c K s t) {v : Val} (hv : VK K v) : W2 c (pure v) (pure v) (QNat c) s t :=
  w2_pure ⟨rfl, K, h, hv⟩

/-- a callback, with the run equation of the left machine -/
theorem w2_reenter {re₁ re₂ : Reenter} {Q : Val → Val → VmState → VmState → Prop}
    (hre : ReSim c re₁ re₂) (h : Agree c K s t) {f : Val} (hf : VK K f)
    (hq : ∀ r s' t', (re₁ f).go s = (.ok r, s') → VRes c r s' t' → Q r r s' t') :
    W2 c (re₁ f) (re₂ f) Q s t := by
  have := hre f K s t h hf
  unfold W2 at this ⊢
  rcases h1 : (re₁ f).go s with ⟨r1, s'⟩
  rcases h2 : (re₂ f).go t with ⟨r2, t'⟩
  rw [h1, h2] at this
  cases r1 <;> cases r2
  · exact this
  · exact this.elim
  · exact this.elim
  · obtain ⟨rfl, hv⟩ := this
    exact hq _ _ _ h1 hv

theorem sim_log (re₁ re₂ : Reenter) (h : Agree c K s t) :
    W2 c (callNativeBody re₁ "log") (callNativeBody re₂ "log") (QNat c) s t := by
  unfold callNativeBody
  refine w2_get' ?_
  w2h
  refine w2_bind (w2_peek 0 h fun v _ hv => ?_)
  rw [h.ownD_eq hv]
  refine w2_bind (w2_modify ?_)
  exact w2_ret (h.log _) VK.nil

theorem sim_sum2 (re₁ re₂ : Reenter) (h : Agree c K s t) :
    W2 c (callNativeBody re₁ "sum2") (callNativeBody re₂ "sum2") (QNat c) s t := by
  unfold callNativeBody
  refine w2_get' ?_
  w2h
  refine w2_bind (w2_peek 0 h fun b _ hb => ?_)
  refine w2_bind (w2_peek 1 h fun a _ ha => ?_)
  rw [h.toI64_eq ha, h.toI64_eq hb]
  refine w2_bind (w2_modify ?_)
  exact w2_ret (h.log _) VK.int

theorem sim_fail (re₁ re₂ : Reenter) (h : Agree c K s t) :
    W2 c (callNativeBody re₁ "fail") (callNativeBody re₂ "fail") (QNat c) s t := by
  unfold callNativeBody
  refine w2_get' ?_
  w2h
  exact w2_throwE h.rel

theorem sim_three (re₁ re₂ : Reenter) (h : Agree c K s t) :
    W2 c (callNativeBody re₁ "three") (callNativeBody re₂ "three") (QNat c) s t := by
  unfold callNativeBody
  refine w2_get' ?_
  w2h
  refine w2_bind (w2_initString _ h fun sc s1 t1 _ h1 => ?_)
  refine w2_bind (w2_dropGuard' _ h1 fun s2 t2 _ h => ?_)
  refine w2_get' ?_
  w2h
  refine w2_bind (w2_peek 0 h fun z _ hz => ?_)
  refine w2_bind (w2_peek 1 h fun y _ hy => ?_)
  refine w2_bind (w2_peek 2 h fun x _ hx => ?_)
  rw [h.ownD_eq hx, h.ownD_eq hy, h.ownD_eq hz]
  refine w2_bind (w2_modify ?_)
  exact w2_ret (h.log _) hx

theorem sim_four (re₁ re₂ : Reenter) (h : Agree c K s t) :
    W2 c (callNativeBody re₁ "four") (callNativeBody re₂ "four") (QNat c) s t := by
  unfold callNativeBody
  refine w2_get' ?_
  w2h
  refine w2_bind (w2_initString _ h fun sc s1 t1 _ h1 => ?_)
  refine w2_bind (w2_dropGuard' _ h1 fun s2 t2 _ h => ?_)
  refine w2_get' ?_
  w2h
  refine w2_bind (w2_peek 0 h fun w _ hw => ?_)
  refine w2_bind (w2_peek 1 h fun z _ hz => ?_)
  refine w2_bind (w2_peek 2 h fun y _ hy => ?_)
  refine w2_bind (w2_peek 3 h fun x _ hx => ?_)
  rw [h.ownD_eq hx, h.ownD_eq hy, h.ownD_eq hz, h.ownD_eq hw]
  refine w2_bind (w2_modify ?_)
  exact w2_ret (h.log _) hw

theorem sim_strlen (re₁ re₂ : Reenter) (h : Agree c K s t) :
    W2 c (callNativeBody re₁ "strlen") (callNativeBody re₂ "strlen") (QNat c) s t := by
  unfold callNativeBody
  refine w2_get' ?_
  w2h
  refine w2_bind (w2_peek 0 h fun v _ hv => ?_)
  cases v with
  | obj a =>
    dsimp only
    rw [h.agree a (hv a rfl)]
    cases hg : s.heap.get a with
    | none => exact w2_throwE h.rel
    | some o =>
      cases o with
      | str b => exact w2_ret h VK.int
      | table _ _ => exact w2_throwE h.rel
      | fn _ _ => exact w2_throwE h.rel
      | native _ => exact w2_throwE h.rel
      | closure _ _ _ => exact w2_throwE h.rel
      | upvalue _ => exact w2_throwE h.rel
  | nil => exact w2_throwE h.rel
  | int _ => exact w2_throwE h.rel
  | real _ => exact w2_throwE h.rel

theorem sim_callback (re₁ re₂ : Reenter) (hre : ReSim c re₁ re₂) (h : Agree c K s t) :
    W2 c (callNativeBody re₁ "callback") (callNativeBody re₂ "callback") (QNat c) s t := by
  unfold callNativeBody
  refine w2_get' ?_
  w2h
  refine w2_bind (w2_peek 0 h fun x _ hx => ?_)
  refine w2_bind (w2_peek 1 h fun f _ hf => ?_)
  refine w2_bind (w2_push' _ h hx fun s1 t1 _ hA1 => ?_)
  refine w2_bind (w2_mono (hre f K s1 t1 hA1 hf) fun r r' s2 t2 hq => ?_)
  obtain ⟨rfl, K2, hA2, hr⟩ := hq
  refine w2_get' ?_
  w2h
  rw [hA2.ownD_eq hr]
  refine w2_bind (w2_modify ?_)
  exact w2_ret (hA2.log _) hr

theorem sim_papply (re₁ re₂ : Reenter) (hre : ReSim c re₁ re₂) (h : Agree c K s t) :
    W2 c (callNativeBody re₁ "papply") (callNativeBody re₂ "papply") (QNat c) s t := by
  unfold callNativeBody
  refine w2_get' ?_
  w2h
  refine w2_bind (w2_pop' h fun f s1 t1 _ _ hf hA1 => ?_)
  refine w2_bind (w2_mono (hre f K s1 t1 hA1 hf) fun r r' s2 t2 hq => ?_)
  obtain ⟨rfl, K2, hA2, hr⟩ := hq
  refine w2_get' ?_
  w2h
  rw [hA2.ownD_eq hr]
  refine w2_bind (w2_modify ?_)
  exact w2_ret (hA2.log _) hr

theorem sim_mktable (re₁ re₂ : Reenter) (h : Agree c K s t) :
    W2 c (callNativeBody re₁ "mktable") (callNativeBody re₂ "mktable") (QNat c) s t := by
  unfold callNativeBody
  refine w2_get' ?_
  w2h
  have hR := h.toR
  refine w2_bind (w2_peek 0 hR fun v _ hv => ?_)
  have g0 : Grown s s := Grown.refl s h.invL.fresh
  refine w2_bind (w2_initTable hR fun row s1 t1 go1 hA1 => ?_)
  obtain ⟨g1, hrow1, hgd1, hpriv, keep1⟩ := grown_initTable g0 go1
  refine w2_bind (w2_initString _ hA1 fun ks s2 t2 go2 hA2 => ?_)
  obtain ⟨g2, _, hgd2, _, keep2⟩ := grown_initString g1 go2
  have hr2 : R s2 row := SchedSim.reach_guard' (by rw [hgd2, hgd1]; simp)
  refine w2_bind (w2_tableInsert row (.obj ks) v hA2 hr2
    (VK.obj (SchedSim.reach_guard' (by rw [hgd2]; simp))) (vk_grown g2 hv) fun s3 t3 go3 hA3 => ?_)
  have hgd3 := tableInsert_guards go3
  have hr3 : R s3 row := SchedSim.reach_guard' (by rw [hgd3, hgd2, hgd1]; simp)
  refine w2_bind (w2_dropGuard' _ hA3 fun s4 t4 _ hA4 => ?_)
  refine w2_bind (w2_dropGuard' _ hA4 fun s5 t5 _ hA5 => ?_)
  exact w2_ret hA5 (VK.obj hr3)

theorem sim_toArray (re₁ re₂ : Reenter) (h : Agree c K s t) :
    W2 c (callNativeBody re₁ "__to_array") (callNativeBody re₂ "__to_array") (QNat c) s t := by
  unfold callNativeBody
  refine w2_get' ?_
  w2h
  have hR := h.toR
  refine w2_bind (w2_peek 0 hR fun it hit hv => ?_)
  rw [isTable_eq hR.toCore hv]
  cases hs : isTable s.heap it with
  | none => exact w2_ret hR hv
  | some es =>
    obtain ⟨a, cap, rfl, hg⟩ := isTable_some hs
    have hes : ∀ e ∈ es, VK (R s) e.1 ∧ VK (R s) e.2 := fun e he => hR.vk_entry (hv a rfl) hg he
    have g0 : Grown s s := Grown.refl s h.invL.fresh
    w2h
    refine w2_bind (w2_initTable hR fun out s1 t1 go1 hA1 => ?_)
    obtain ⟨g1, hout1, hgd1, hpriv, keep1⟩ := grown_initTable g0 go1
    w2h
    refine w2_bind (w2_mono (w2_forIn (fun (i : Nat) s' t' => Grown s s' ∧ Agree c (R s') s' t' ∧
        out ∈ s'.guards ∧ ∃ cap es', s'.heap.get out = some (.table cap es')) es _ _ ?_ 0 s1 t1
        ⟨g1, hA1, by rw [hgd1]; simp, _, _, hout1⟩) fun i i' s2 t2 hq => ?_)
    · intro x hx i s' t' ⟨g, hA, hgd, cap', es', hout⟩
      obtain ⟨k, v⟩ := x
      w2h
      have hr : R s' out := SchedSim.reach_guard' hgd
      refine w2_bind (w2_tableInsert out _ v hA hr VK.int (vk_grown g (hes _ hx).2) fun s'' t'' go hA' => ?_)
      obtain ⟨g', ⟨cap'', hout'⟩, hgd', _, _⟩ := g.tableInsert hpriv hout hr go
      exact w2_pure ⟨rfl, g', hA', by rw [hgd']; exact hgd, _, _, hout'⟩
    · obtain ⟨rfl, g2, hA2, hgd2, _⟩ := hq
      refine w2_bind (w2_dropGuard' _ hA2 fun s3 t3 _ hA3 => ?_)
      exact w2_ret hA3 (VK.obj (SchedSim.reach_guard' hgd2))

theorem sim_unknown (re₁ re₂ : Reenter) (name : String) (hn : name ∉ nativeNames) (h : Agree c K s t) :
    W2 c (callNativeBody re₁ name) (callNativeBody re₂ name) (QNat c) s t := by
  unfold callNativeBody
  refine w2_get' ?_
  split <;> first | (exfalso; apply hn; simp [nativeNames]; done) | skip
  exact w2_throwE h.rel

/-- the host functions that do not iterate over a table -/
theorem body_sim_plain (re₁ re₂ : Reenter) (hre : ReSim c re₁ re₂) (name : String)
    (hplain : name ∉ iterNames) (h : Agree c K s t) :
    W2 c (callNativeBody re₁ name) (callNativeBody re₂ name) (QNat c) s t := by
  by_cases hn : name ∈ nativeNames
  · simp only [nativeNames, iterNames, List.mem_cons, List.not_mem_nil, or_false, not_or] at hn hplain
    rcases hn with rfl | rfl | rfl | rfl | rfl | rfl | rfl | rfl | rfl | rfl | rfl | rfl | rfl
    · exact absurd rfl hplain.1
    · exact absurd rfl hplain.2.1
    · exact absurd rfl hplain.2.2
    · exact sim_toArray re₁ re₂ h
    · exact sim_log re₁ re₂ h
    · exact sim_sum2 re₁ re₂ h
    · exact sim_fail re₁ re₂ h
    · exact sim_callback re₁ re₂ hre h
    · exact sim_strlen re₁ re₂ h
    · exact sim_three re₁ re₂ h
    · exact sim_four re₁ re₂ h
    · exact sim_mktable re₁ re₂ h
    · exact sim_papply re₁ re₂ hre h
  · exact sim_unknown re₁ re₂ name hn h

theorem sim_nativeConv (name : String) (h : Agree c K s t) :
    W2 c (nativeConv name) (nativeConv name) (fun _ _ s' t' => Agree c K s' t') s t := by
  by_cases hn : name = "strlen"
  · subst hn
    unfold nativeConv
    w2h
    refine w2_bind (w2_peek 0 h fun v _ hv => ?_)
    cases v with
    | obj a =>
      dsimp only
      refine w2_get' ?_
      rw [h.agree a (hv a rfl)]
      cases hg : s.heap.get a with
      | none => exact w2_throwE h.rel
      | some o =>
        cases o with
        | str b => exact w2_pure h
        | table _ _ => exact w2_throwE h.rel
        | fn _ _ => exact w2_throwE h.rel
        | native _ => exact w2_throwE h.rel
        | closure _ _ _ => exact w2_throwE h.rel
        | upvalue _ => exact w2_throwE h.rel
    | nil => exact w2_throwE h.rel
    | int _ => exact w2_throwE h.rel
    | real _ => exact w2_throwE h.rel
  · unfold nativeConv
    split
    · exact absurd rfl hn
    · exact w2_pure h

/-- `callNative` from the simulation of the body -/
theorem natSim_of_body (re₁ re₂ : Reenter) (hd : UInt32)
    (hbody : ∀ name, name ∈ nativeNames → (hName name == hd) = true → ∀ (K : Nat → Prop) (s t : VmState),
      Agree c K s t → W2 c (callNativeBody re₁ name) (callNativeBody re₂ name) (QNat c) s t) :
    NatSimAt c re₁ re₂ hd := by
  intro K s t h
  unfold callNative
  cases hf : nativeNames.find? (fun n => hName n == hd) with
  | none => exact w2_throwE h.rel
  | some name =>
    have hmem := List.mem_of_find?_eq_some hf
    have hnm := List.find?_some hf
    dsimp only
    refine w2_bind (w2_mono (w2_tryCatch (sim_nativeConv name h) fun e s' t' hr => w2_throwE hr)
      fun _ _ s1 t1 hA1 => ?_)
    refine w2_bind (w2_mono (w2_tryCatch (hbody name hmem hnm K s1 t1 hA1) fun e s' t' hr => ?_)
      fun r r' s2 t2 hq => ?_)
    · obtain ⟨K', hA'⟩ := hr
      refine w2_bind (w2_popN' _ hA' fun s'' t'' _ hA'' => ?_)
      exact w2_throwE hA''.rel
    · obtain ⟨rfl, K2, hA2, hr⟩ := hq
      refine w2_bind (w2_popN' _ hA2 fun s3 t3 _ hA3 => ?_)
      exact w2_push' _ hA3 hr fun s4 t4 _ hA4 => hA4.rel

theorem mem_iter_isIter {name : String} {hd : UInt32} (hn : name ∈ iterNames) (he : (hName name == hd) = true) :
    isIter hd = true := by
  unfold isIter
  exact List.any_eq_true.mpr ⟨name, hn, he⟩

theorem natSim_plain (re₁ re₂ : Reenter) (hre : ReSim c re₁ re₂) (hd : UInt32) (hplain : isIter hd = false) :
    NatSimAt c re₁ re₂ hd :=
  natSim_of_body re₁ re₂ hd fun name _ he K s t h =>
    body_sim_plain re₁ re₂ hre name (fun hn => by rw [mem_iter_isIter hn he] at hplain; cases hplain) h

end plain

/-!
# the iterating host functions (`__sort`, `__min`, `__max`)

The entries of the table are a snapshot taken when the host function starts; `IterPost` says
that the callbacks leave the table (which stays on the value stack) with at least these entries,
so that the snapshot values stay reachable.
-/

/-! ## the value stack -/

theorem contents_length_of_le {st : VStack Val} (h : st.count ≤ st.data.length) :
    st.contents.length = st.count := by
  unfold VStack.contents
  rw [List.length_take]
  omega

/-- two stacks with the same live part look the same from the top -/
theorem peekLast_congr {a b : VStack Val} (hc : a.contents = b.contents) (ha : a.count ≤ a.data.length)
    (hb : b.count ≤ b.data.length) (n : Nat) : a.peekLast n = b.peekLast n := by
  have hcnt : a.count = b.count := by
    rw [← contents_length_of_le ha, ← contents_length_of_le hb, hc]
  unfold VStack.peekLast
  rw [hcnt]
  split
  · next hn =>
    have e : ∀ (st : VStack Val) (i : Nat), i < st.count → st.data[i]? = st.contents[i]? := by
      intro st i hi
      unfold VStack.contents
      rw [List.getElem?_take, if_pos hi]
    rw [List.getD_eq_getElem?_getD, List.getD_eq_getElem?_getD, e a _ (by omega), e b _ (by omega), hc]
  · rfl

theorem contents_push (cnt : Nat) (d : List Val) (v : Val) (h : cnt < d.length) :
    (⟨cnt + 1, d.set cnt v⟩ : VStack Val).contents = (⟨cnt, d⟩ : VStack Val).contents ++ [v] := by
  unfold VStack.contents
  dsimp only
  apply List.ext_getElem?
  intro i
  rw [List.getElem?_take, List.getElem?_set, List.getElem?_append, List.length_take, List.getElem?_take]
  have hm : min cnt d.length = cnt := by omega
  rw [hm]
  by_cases h1 : i < cnt
  · rw [if_pos (by omega), if_neg (by omega), if_pos h1, if_pos h1]
  · by_cases h2 : i = cnt
    · subst h2
      simp [h]
    · rw [if_neg (by omega), if_neg h1]
      have : i - cnt ≠ 0 := by omega
      cases hh : i - cnt with
      | zero => exact absurd hh this
      | succ m => simp

section prims
variable {c : Cfg} {K : Nat → Prop} {s t : VmState}

/-- `push`, with the fact that there was room -/
theorem w2_pushC {Q : Unit → Unit → VmState → VmState → Prop} (v : Val) (h : Agree c K s t) (hv : VK K v)
    (hq : ∀ s' t', s.stack.count + 1 < s.stack.data.length →
      s' = { s with stack := ⟨s.stack.count + 1, s.stack.data.set s.stack.count v⟩ } →
      Agree c K s' t' → Q () () s' t') : W2 c (push v) (push v) Q s t := by
  by_cases hc : s.stack.count + 1 < s.stack.data.length
  · refine w2_push' v h hv fun s' t' e hA => hq s' t' hc ?_ hA
    rw [e]
    unfold VStack.push
    rw [if_pos hc]
  · have e1 := SchedSim.go_push v s
    have e2 := SchedSim.go_push v t
    rw [h.stack.count, h.stack.cap] at e2
    rw [if_neg hc] at e1 e2
    exact w2_of_go_err e1 e2 h.rel

end prims

/-! ## the iteration invariant -/

/-- what an iterating host function relies on between two callbacks: the live stack is `L` (it
    contains the iterable `a` one below the top and the key function), and the table `a` has at
    least the entries `es` of the snapshot -/
structure IterI (L : List Val) (a : Nat) (es : List (Val × Val)) (s : VmState) : Prop where
  cont : s.stack.contents = L
  peek : s.stack.count + 1 < s.stack.data.length → s.stack.peekLast 1 = .obj a
  tab : ∃ cap' es', s.heap.get a = some (.table cap' es') ∧ ∀ e ∈ es, e ∈ es'

theorem IterI.of_eq {L : List Val} {a : Nat} {es : List (Val × Val)} {s s' : VmState} (h : IterI L a es s)
    (hst : s'.stack = s.stack) (hh : s'.heap = s.heap) : IterI L a es s' :=
  ⟨by rw [hst]; exact h.cont, by rw [hst]; exact h.peek, by rw [hh]; exact h.tab⟩

theorem IterI.reach {L : List Val} {a : Nat} {es : List (Val × Val)} {s : VmState} (h : IterI L a es s)
    (haL : Val.obj a ∈ L) : R s a :=
  Reach.root (mem_rootAddrs_stack (by rw [h.cont]; exact haL))

theorem IterI.vk_stack {L : List Val} {a : Nat} {es : List (Val × Val)} {s : VmState} (h : IterI L a es s)
    {f : Val} (hf : ∀ b, f = .obj b → Val.obj b ∈ L) : VK (R s) f :=
  fun b e => Reach.root (mem_rootAddrs_stack (by rw [h.cont]; exact hf b e))

/-- the snapshot values are children of the table, which is on the stack -/
theorem IterI.vk {L : List Val} {a : Nat} {es : List (Val × Val)} {s : VmState} (h : IterI L a es s)
    (haL : Val.obj a ∈ L) {e : Val × Val} (he : e ∈ es) : VK (R s) e.1 ∧ VK (R s) e.2 := by
  obtain ⟨cap', es', hg, hsub⟩ := h.tab
  have hr := h.reach haL
  have hm := hsub e he
  exact ⟨fun b eb => Reach.step hr hg (List.mem_flatMap.mpr ⟨e, hm, by simp [eb]⟩),
         fun b eb => Reach.step hr hg (List.mem_flatMap.mpr ⟨e, hm, by simp [eb]⟩)⟩

/-- one callback: the call site is `s` plus the value and the key -/
theorem IterI.step {L : List Val} {a : Nat} {es : List (Val × Val)} {s x' : VmState} {k v : Val}
    (h : IterI L a es s) (hc1 : s.stack.count + 1 < s.stack.data.length)
    (hc2 : s.stack.count + 1 + 1 < s.stack.data.length)
    (hok : IterOk { s with stack := ⟨s.stack.count + 1 + 1, (s.stack.data.set s.stack.count v).set (s.stack.count + 1) k⟩ } x') :
    IterI L a es x' := by
  obtain ⟨hg, hcont, htab⟩ := hok
  dsimp only at hg hcont htab
  have hcont' : x'.stack.contents = s.stack.contents := by
    rw [hcont, contents_push _ _ _ (by rw [List.length_set]; omega), contents_push _ _ _ (by omega)]
    simp
  refine ⟨by rw [hcont', h.cont], fun hx => ?_, ?_⟩
  · rw [peekLast_congr hcont' (by omega) (by omega), h.peek hc1]
  · obtain ⟨cap', es', hget, hsub⟩ := h.tab
    have hp : (⟨s.stack.count + 1 + 1, (s.stack.data.set s.stack.count v).set (s.stack.count + 1) k⟩ : VStack Val).peekLast 3
        = .obj a := by
      rw [peekLast_succ_push, peekLast_succ_push]
      exact h.peek hc1
    obtain ⟨cap'', es'', hget', hsub'⟩ := htab a cap' es' hp hget
    exact ⟨cap'', es'', hget', fun e he => hsub' e (hsub e he)⟩

section call
variable {c : Cfg} {K : Nat → Prop} {s t : VmState}

/-- **one round trip of an iterating host function**: push the value, push the key, call back -/
theorem w2_iterCall {β : Type} {re₁ re₂ : Reenter} (hre : ReSim c re₁ re₂) (hpost : IterPost re₁)
    {L : List Val} {a : Nat} {es : List (Val × Val)} {keyFn : Val} (haL : Val.obj a ∈ L)
    (hfL : ∀ b, keyFn = .obj b → Val.obj b ∈ L) (h : Agree c K s t) (hI : IterI L a es s)
    {k v : Val} (hkv : (k, v) ∈ es) {f₁ f₂ : Val → M β} {Q : β → β → VmState → VmState → Prop}
    (hq : ∀ r s' t' K', Agree c K' s' t' → VK K' r → IterI L a es s' → s'.guards = s.guards →
      W2 c (f₁ r) (f₂ r) Q s' t') :
    W2 c (push v >>= fun _ => push k >>= fun _ => re₁ keyFn >>= f₁)
      (push v >>= fun _ => push k >>= fun _ => re₂ keyFn >>= f₂) Q s t := by
  have hR := h.toR
  obtain ⟨hk, hv⟩ := hI.vk haL hkv
  refine w2_bind (w2_pushC v hR hv fun s1 t1 hc1 e1 hA1 => ?_)
  subst e1
  refine w2_bind (w2_pushC k hA1 hk fun x tx hc2 e2 hA2 => ?_)
  dsimp only at hc2 e2
  rw [List.length_set] at hc2
  subst e2
  refine w2_bind (w2_reenter hre hA2 (hI.vk_stack hfL) fun r x' tx' hgo hres => ?_)
  obtain ⟨K', hA', hr⟩ := hres
  have hok := hpost keyFn _ r x' hgo
  exact hq r x' tx' K' hA' hr (hI.step hc1 hc2 hok) hok.1

end call
/-! ## `__sort` -/
theorem mergeSort_congr {α : Type} {l : List α} {r r' : α → α → Bool}
    (h : ∀ a ∈ l, ∀ b ∈ l, r a b = r' a b) : l.mergeSort r = l.mergeSort r' := by
  have := List.map_mergeSort (f := id) (r := r) (s := r') (l := l) (by simpa using h)
  simpa using this

section sort
variable {c : Cfg} {K : Nat → Prop} {s t : VmState}

theorem sim_sort (re₁ re₂ : Reenter) (hre : ReSim c re₁ re₂) (hpost : IterPost re₁) (h : Agree c K s t) :
    W2 c (callNativeBody re₁ "__sort") (callNativeBody re₂ "__sort") (QNat c) s t := by
  unfold callNativeBody
  refine w2_get' ?_
  w2h
  have hR := h.toR
  refine w2_bind (w2_peek 0 hR fun keyFn hkf hvf => ?_)
  refine w2_bind (w2_peek 1 hR fun it hit hv => ?_)
  rw [isTable_eq hR.toCore hv]
  cases hs : isTable s.heap it with
  | none => exact w2_ret hR hv
  | some es =>
    obtain ⟨a, cap, rfl, hg⟩ := isTable_some hs
    have haL : Val.obj a ∈ s.stack.contents := peekLast_mem hit.symm
    have hfL : ∀ b, keyFn = .obj b → Val.obj b ∈ s.stack.contents := fun b e => peekLast_mem (by rw [← hkf, e])
    have hI0 : IterI s.stack.contents a es s := ⟨rfl, fun _ => hit.symm, cap, es, hg, fun e he => he⟩
    w2h
    refine w2_bind (w2_guardRows es hR (fun e he => hI0.vk haL he) fun hA0 => ?_)
    have hI0' := hI0.of_eq (s' := { s with guards := rowGuards es ++ s.guards }) rfl rfl
    refine w2_bind (w2_mono (w2_forIn (fun (keyed : List (Val × Val × Val)) s' t' => ∃ K', Agree c K' s' t' ∧
        IterI s.stack.contents a es s' ∧
        ∀ x ∈ keyed, (∀ b, x.1 = .obj b → b ∈ s'.guards) ∧ (x.2.1, x.2.2) ∈ es) es _ _ ?_ [] _ _
        ⟨_, hA0, hI0', fun x hx => by cases hx⟩) fun keyed' keyed s1 t1 hq => ?_)
    · intro x hx keyed s' t' ⟨K', hA, hI, hkeyed⟩
      obtain ⟨k, v⟩ := x
      w2h
      refine w2_iterCall hre hpost haL hfL hA hI hx fun r s2 t2 K2 hA2 hr hI2 hgd2 => ?_
      refine w2_bind (w2_modify ?_)
      refine w2_pure ⟨rfl, K2, ?_, hI2.of_eq rfl rfl, ?_⟩
      · have := hA2.guards_change (guardOf r ++ s2.guards) (fun y hy => by
          rcases List.mem_append.mp hy with hy | hy
          · cases r <;> simp [guardOf] at hy
            subst hy; exact hr _ rfl
          · exact hA2.k_guard hy)
        rw [hA2.guards]
        exact this
      · intro y hy
        rcases List.mem_append.mp hy with hy | hy
        · obtain ⟨h1, h2⟩ := hkeyed y hy
          exact ⟨fun b e => List.mem_append_right _ (by rw [hgd2]; exact h1 b e), h2⟩
        · simp only [List.mem_singleton] at hy
          subst hy
          exact ⟨fun b e => List.mem_append_left _ (by dsimp only at e; subst e; simp), hx⟩
    · obtain ⟨rfl, K1, hA1, hI1, hkeyed⟩ := hq
      dsimp only
      refine w2_get' ?_
      w2h
      have hkeys : ∀ x ∈ keyed, VK K1 x.1 := fun x hx b e => hA1.k_guard ((hkeyed x hx).1 b e)
      generalize hS : keyed.mergeSort _ = sorted
      generalize hT : keyed.mergeSort _ = sortedT
      have eST : sortedT = sorted := by
        rw [← hS, ← hT]
        refine mergeSort_congr (fun x hx y hy => ?_)
        rw [hA1.ownD_eq (hkeys x hx), hA1.ownD_eq (hkeys y hy)]
      subst eST
      have hsorted : ∀ x ∈ sortedT, (x.2.1, x.2.2) ∈ es := fun x hx =>
        (hkeyed x (List.mem_mergeSort.mp (by rw [hS]; exact hx))).2
      clear hS hT
      have g1 : Grown s1 s1 := Grown.refl s1 hA1.invL.fresh
      refine w2_bind (w2_initTable hA1 fun out s2 t2 go2 hA2 => ?_)
      obtain ⟨g2, hout2, hgd2, hpriv, keep2⟩ := grown_initTable g1 go2
      refine w2_bind (w2_mono (w2_forIn (fun (_ : PUnit) s' t' => Grown s1 s' ∧ Agree c (R s') s' t' ∧
          out ∈ s'.guards ∧ ∃ cap es', s'.heap.get out = some (.table cap es')) sortedT _ _ ?_ ⟨⟩ s2 t2
          ⟨g2, hA2, by rw [hgd2]; simp, _, _, hout2⟩) fun _ _ s3 t3 hq3 => ?_)
      · intro x hx _ s' t' ⟨g, hA, hgd, cap', es', hout⟩
        obtain ⟨key, k, v⟩ := x
        w2h
        have hr : R s' out := SchedSim.reach_guard' hgd
        have hkv := hI1.vk haL (hsorted _ hx)
        refine w2_bind (w2_tableInsert out k v hA hr (vk_grown g hkv.1) (vk_grown g hkv.2) fun s'' t'' go hA' => ?_)
        obtain ⟨g', ⟨cap'', hout'⟩, hgd', _, _⟩ := g.tableInsert hpriv hout hr go
        exact w2_pure ⟨rfl, g', hA', by rw [hgd']; exact hgd, _, _, hout'⟩
      · obtain ⟨_, g3, hA3, hgd3, _⟩ := hq3
        have hro : R s3 out := SchedSim.reach_guard' hgd3
        refine w2_bind (w2_mono (w2_forIn (fun (_ : PUnit) s' t' => Agree c (R s3) s' t') keyed _ _ ?_ ⟨⟩ s3 t3 hA3)
          fun _ _ s4 t4 hq4 => ?_)
        · intro x hx _ s' t' hA
          obtain ⟨key, k, v⟩ := x
          w2h
          cases key with
          | obj b =>
            dsimp only
            refine w2_bind (w2_dropGuard' _ hA fun s'' t'' _ hA' => ?_)
            exact w2_pure ⟨rfl, hA'⟩
          | nil => exact w2_pure ⟨rfl, hA⟩
          | int _ => exact w2_pure ⟨rfl, hA⟩
          | real _ => exact w2_pure ⟨rfl, hA⟩
        · obtain ⟨_, hA4⟩ := hq4
          refine w2_bind (w2_unguardRows es hA4 fun hA4' => ?_)
          refine w2_bind (w2_dropGuard' _ hA4' fun s5 t5 _ hA5 => ?_)
          exact w2_ret hA5 (VK.obj hro)

end sort

/-! ## `__min`, `__max` -/
/-- the common body of `__min` and `__max` -/
def mmBody (reenter : Reenter) (isMin : Bool) (h : Heap) : M Val := do
    let keyFn ← peek 0
    let iterable ← peek 1
    match isTable h iterable with
    | none => return iterable
    | some es =>
      match es with
      | [] => return .nil
      | (k0, v0) :: rest => do
        guardRows es
        push v0; push k0
        let mut best ← reenter keyFn
        guardVal best
        let mut idx := 0
        let mut j := 1
        for (k, v) in rest do
          push v; push k
          let key ← reenter keyFn
          let h := (← get).heap
          let better := if isMin then OVal.vlt hostF64 (ownD h key) (ownD h best)
                        else OVal.vlt hostF64 (ownD h best) (ownD h key)
          if better then
            idx := j
            unguardVal best
            best := key
            guardVal best
          j := j + 1
        let (k, v) := es.getD idx (.nil, .nil)
        let row ← initTable
        let ks ← initString "key".toUTF8.toList
        tableInsert row (.obj ks) k
        dropGuard ks
        let vs ← initString "value".toUTF8.toList
        tableInsert row (.obj vs) v
        dropGuard vs
        dropGuard row
        unguardVal best
        unguardRows es
        return .obj row

section mm
variable {c : Cfg} {K : Nat → Prop} {s t : VmState}

theorem mm_sim (re₁ re₂ : Reenter) (hre : ReSim c re₁ re₂) (hpost : IterPost re₁) (isMin : Bool)
    (h : Agree c K s t) : W2 c (mmBody re₁ isMin s.heap) (mmBody re₂ isMin t.heap) (QNat c) s t := by
  unfold mmBody
  have hR := h.toR
  refine w2_bind (w2_peek 0 hR fun keyFn hkf hvf => ?_)
  refine w2_bind (w2_peek 1 hR fun it hit hv => ?_)
  rw [isTable_eq hR.toCore hv]
  cases hs : isTable s.heap it with
  | none => exact w2_ret hR hv
  | some es =>
    obtain ⟨a, cap, rfl, hg⟩ := isTable_some hs
    have haL : Val.obj a ∈ s.stack.contents := peekLast_mem hit.symm
    have hfL : ∀ b, keyFn = .obj b → Val.obj b ∈ s.stack.contents := fun b e => peekLast_mem (by rw [← hkf, e])
    have hI0 : IterI s.stack.contents a es s := ⟨rfl, fun _ => hit.symm, cap, es, hg, fun e he => he⟩
    cases es with
    | nil => exact w2_ret hR VK.nil
    | cons e0 rest =>
      obtain ⟨k0, v0⟩ := e0
      dsimp only
      refine w2_bind (w2_guardRows _ hR (fun e he => hI0.vk haL he) fun hA0 => ?_)
      have hI0' := hI0.of_eq (s' := { s with guards := rowGuards ((k0, v0) :: rest) ++ s.guards }) rfl rfl
      refine w2_iterCall hre hpost haL hfL hA0 hI0' List.mem_cons_self fun best s1 t1 K1 hA1 hbest hI1 hgd1 => ?_
      refine w2_bind (w2_guardVal best hA1 hbest fun hA2 => ?_)
      have hI2 := hI1.of_eq (s' := { s1 with guards := guardOf best ++ s1.guards }) rfl rfl
      have hgb2 : ∀ b, best = .obj b → b ∈ ({ s1 with guards := guardOf best ++ s1.guards } : VmState).guards :=
        fun b e => by subst e; simp [guardOf]
      generalize ({ s1 with guards := guardOf best ++ s1.guards } : VmState) = s2 at hA2 hI2 hgb2 ⊢
      generalize ({ t1 with guards := guardOf best ++ s1.guards } : VmState) = t2 at hA2 ⊢
      refine w2_bind (w2_mono (w2_forIn (fun (st : Val × Nat × Nat) s' t' => ∃ K', Agree c K' s' t' ∧
          IterI s.stack.contents a ((k0, v0) :: rest) s' ∧ ∀ b, st.1 = .obj b → b ∈ s'.guards) rest _ _ ?_
          (best, 0, 1) s2 t2 ⟨K1, hA2, hI2, hgb2⟩) fun st' st s3 t3 hq => ?_)
      · intro x hx st s' t' ⟨K', hA, hI, hgb⟩
        obtain ⟨k, v⟩ := x
        obtain ⟨bst, idx, j⟩ := st
        dsimp only at hgb ⊢
        refine w2_iterCall hre hpost haL hfL hA hI (List.mem_cons_of_mem _ hx) fun key s4 t4 K4 hA4 hkey hI4 hgd4 => ?_
        refine w2_get' ?_
        have hbst : VK K4 bst := fun b e => hA4.k_guard (by rw [hgd4]; exact hgb b e)
        rw [hA4.ownD_eq hkey, hA4.ownD_eq hbst]
        generalize (if isMin = true then OVal.vlt hostF64 (ownD s4.heap key) (ownD s4.heap bst)
          else OVal.vlt hostF64 (ownD s4.heap bst) (ownD s4.heap key)) = better
        cases better with
        | true =>
          rw [if_pos rfl]
          refine w2_bind (w2_unguardVal bst hA4 fun hA5 => ?_)
          refine w2_bind (w2_guardVal key hA5 hkey fun hA6 => ?_)
          exact w2_pure ⟨rfl, K4, hA6, hI4.of_eq rfl rfl, fun b e => by
            subst e; simp [guardOf]⟩
        | false =>
          rw [if_neg (by decide)]
          exact w2_pure ⟨rfl, K4, hA4, hI4, fun b e => by rw [hgd4]; exact hgb b e⟩
      · obtain ⟨rfl, K3, hA3, hI3, hgb3⟩ := hq
        obtain ⟨bst, idx, j⟩ := st
        dsimp only at hgb3 ⊢
        have hR3 := hA3.toR
        have hkv : VK (R s3) (((k0, v0) :: rest).getD idx (.nil, .nil)).1 ∧
            VK (R s3) (((k0, v0) :: rest).getD idx (.nil, .nil)).2 := by
          by_cases hlt : idx < ((k0, v0) :: rest).length
          · have hmem : ((k0, v0) :: rest).getD idx (.nil, .nil) ∈ ((k0, v0) :: rest) := by
              rw [List.getD_eq_getElem?_getD, List.getElem?_eq_getElem hlt]
              exact List.getElem_mem hlt
            exact hI3.vk haL hmem
          · rw [List.getD_eq_getElem?_getD, List.getElem?_eq_none (by omega)]
            exact ⟨VK.nil, VK.nil⟩
        rcases hgd : ((k0, v0) :: rest).getD idx (.nil, .nil) with ⟨k, v⟩
        rw [hgd] at hkv
        dsimp only at hkv ⊢
        have g0 : Grown s3 s3 := Grown.refl s3 hA3.invL.fresh
        refine w2_bind (w2_initTable hR3 fun row s4 t4 go4 hA4 => ?_)
        obtain ⟨g4, hrow4, hgd4, hpriv, keep4⟩ := grown_initTable g0 go4
        refine w2_bind (w2_initString _ hA4 fun ks s5 t5 go5 hA5 => ?_)
        obtain ⟨g5, _, hgd5, _, keep5⟩ := grown_initString g4 go5
        have hrow5 := keep5 row _ (SchedSim.reach_guard' (by rw [hgd4]; simp)) hrow4
        have hr5 : R s5 row := SchedSim.reach_guard' (by rw [hgd5, hgd4]; simp)
        refine w2_bind (w2_tableInsert row (.obj ks) k hA5 hr5
          (VK.obj (SchedSim.reach_guard' (by rw [hgd5]; simp))) (vk_grown g5 hkv.1) fun s6 t6 go6 hA6 => ?_)
        obtain ⟨g6, ⟨cap6, hrow6⟩, hgd6, _, _⟩ := g5.tableInsert hpriv hrow5 hr5 go6
        refine w2_bind (w2_dropGuard' _ hA6 fun s7 t7 e7 hA7 => ?_)
        have hgd7 : s7.guards = row :: s3.guards := by
          rw [e7]; show s6.guards.erase ks = _
          rw [hgd6, hgd5, hgd4, List.erase_cons_head]
        have g7 : Grown s3 s7 := by
          rw [e7]
          exact g6.dropGuard ks (fun g hg => by
            rw [hgd6, hgd5, hgd4, List.erase_cons_head]; exact List.mem_cons_of_mem _ hg)
        have hrow7 : s7.heap.get row = some (.table cap6 (tinsert s5.heap [] (.obj ks) k)) := by
          rw [e7]; exact hrow6
        have hr7 : R s7 row := SchedSim.reach_guard' (by rw [hgd7]; simp)
        refine w2_bind (w2_initString _ hA7 fun vs s8 t8 go8 hA8 => ?_)
        obtain ⟨g8, _, hgd8, _, keep8⟩ := grown_initString g7 go8
        have hr8 : R s8 row := SchedSim.reach_guard' (by rw [hgd8, hgd7]; simp)
        refine w2_bind (w2_tableInsert row (.obj vs) v hA8 hr8
          (VK.obj (SchedSim.reach_guard' (by rw [hgd8]; simp))) (vk_grown g8 hkv.2) fun s9 t9 go9 hA9 => ?_)
        have hgd9 := tableInsert_guards go9
        have hr9 : R s9 row := SchedSim.reach_guard' (by rw [hgd9, hgd8, hgd7]; simp)
        refine w2_bind (w2_dropGuard' _ hA9 fun s10 t10 _ hA10 => ?_)
        refine w2_bind (w2_dropGuard' _ hA10 fun s11 t11 _ hA11 => ?_)
        refine w2_bind (w2_unguardVal bst hA11 fun hA12 => ?_)
        refine w2_bind (w2_unguardRows _ hA12 fun hA13 => ?_)
        exact w2_ret hA13 (VK.obj hr9)

theorem sim_min (re₁ re₂ : Reenter) (hre : ReSim c re₁ re₂) (hpost : IterPost re₁) (h : Agree c K s t) :
    W2 c (callNativeBody re₁ "__min") (callNativeBody re₂ "__min") (QNat c) s t := by
  unfold callNativeBody
  refine w2_get' ?_
  w2h
  exact mm_sim re₁ re₂ hre hpost ("__min" == "__min") h

theorem sim_max (re₁ re₂ : Reenter) (hre : ReSim c re₁ re₂) (hpost : IterPost re₁) (h : Agree c K s t) :
    W2 c (callNativeBody re₁ "__max") (callNativeBody re₂ "__max") (QNat c) s t := by
  unfold callNativeBody
  refine w2_get' ?_
  w2h
  exact mm_sim re₁ re₂ hre hpost ("__max" == "__min") h

end mm

/-! ## all host functions -/

/-- **the body of a host function under two schedules**: same result (denoting the same value in
    both machines) or the same error; the callbacks of the iterating host functions are assumed
    to leave the iteration intact (`IterPost`) -/
theorem body_sim {c : Cfg} (re₁ re₂ : Reenter) (hre : ReSim c re₁ re₂) (name : String)
    (hiter : name ∈ iterNames → IterPost re₁ ∧ IterPost re₂) {K : Nat → Prop} {s t : VmState}
    (h : Agree c K s t) :
    W2 c (callNativeBody re₁ name) (callNativeBody re₂ name) (fun a b s' t' => b = a ∧ VRes c a s' t') s t := by
  by_cases hn : name ∈ iterNames
  · have hp := (hiter hn).1
    simp only [iterNames, List.mem_cons, List.not_mem_nil, or_false] at hn
    rcases hn with rfl | rfl | rfl
    · exact sim_min re₁ re₂ hre hp h
    · exact sim_max re₁ re₂ hre hp h
    · exact sim_sort re₁ re₂ hre hp h
  · exact body_sim_plain re₁ re₂ hre name hn h

/-- **a host function call under two schedules** -/
theorem natSim {c : Cfg} (re₁ re₂ : Reenter) (hre : ReSim c re₁ re₂) (hd : UInt32)
    (hiter : isIter hd = true → IterPost re₁ ∧ IterPost re₂) : NatSimAt c re₁ re₂ hd :=
  natSim_of_body re₁ re₂ hd fun name _ he K s t h =>
    body_sim re₁ re₂ hre name (fun hn => hiter (mem_iter_isIter hn he)) h

end Cao.SchedFull
