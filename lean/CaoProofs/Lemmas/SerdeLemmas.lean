import CaoProofs.Lemmas.SerdeTables
import CaoProofs.Lemmas.SerdeOwn
import CaoProofs.Lemmas.SerdeValue
import CaoProofs.Lemmas.SerdeProgram
import CaoProofs.Lemmas.SerdeTok
/-!
# Lemmas for C11 (serialization round trips) — umbrella module

Split into five files so that each builds quickly and in parallel (all in namespace `Cao.Serde`):

* `SerdeTables.lean` — `Serialize` / `Deserialize` of `HandleTable` and `CaoHashMap`
  (`htSerialize`, `htDeserialize`, `hmSerialize`, `hmDeserialize`, `hintCap`), the loop of
  `visit_map` on distinct keys (`htDe_loop`, `hmDe_loop`), `ht_deserialize_list`,
  `hm_deserialize_list`, `HTEquiv`, `HMEquiv`;
* `SerdeOwn.lean` — theory of `own` / `ownD` (`Owns`, fuel monotonicity, heap
  extension/preservation, **fuel adequacy** `own_adequate` / `Owns.ownD`);
* `SerdeValue.lean` — `insertValue` (model of `Vm::insert_value`), `Storable`, `KeepsR`, `Good`,
  the loop invariant `LoopInv`, `insertValue_correct`;
* `SerdeProgram.lean` — `ProgEq`, `step_congr`, `exec_congr`, `run_congr`, `errTrace_congr`,
  `CProgram`, `serializeProgram`, `deserializeProgram`, `CProgram.Equiv`, `Represents`;
* `SerdeTok.lean` — the token syntax of source cards / modules used by the differential driver
  (`Card.toTok` / `Parse.card` …): scanner lemmas, fuel adequacy, `card_tok_roundtrip`,
  `module_tok_roundtrip`.
-/
