import CaoProofs.Lemmas.SchedRel
/-!
# Schedule independence, all instructions: the allocation layer and the primitives

* `allocPure_core`: one allocation under two schedules — same outcome (it is decided by the live
  size), and afterwards the two heaps agree on what is reachable *then*;
* `w2_initTable`, `w2_initString`, `w2_initSimple`, `w2_tableInsert`: the allocating operations;
  their post-condition hands out the run equation of the left machine, so that the unary frame
  lemmas of `Lemmas/NativeLemmas.lean` (`Grown`) apply;
* the two-run rules for the stack, frame, table and upvalue primitives.
-/
namespace Cao.SchedFull
open Cao Cao.Vm Cao.Gc Cao.C02 Cao.C05 Cao.RunInv Cao.Native
set_option linter.unusedVariables false
set_option linter.unusedSectionVars false

section alloc
variable {c : Cfg} {K : Nat → Prop} {s t : VmState}

/-- related states have the same live size -/
theorem Core.liveCharge_eq (h : Core c K s t) : liveCharge t = liveCharge s := by
  obtain ⟨e1, m1⟩ := C05.liveCharge_eq s
  obtain ⟨e2, m2⟩ := C05.liveCharge_eq t
  rw [e1, e2]
  apply List.Perm.sum_nat
  apply List.Perm.map
  rw [List.perm_ext_iff_of_nodup
    (List.Nodup.sublist List.filter_sublist (SchedSim.nodup_of_map _ _ h.uniqR))
    (List.Nodup.sublist List.filter_sublist (SchedSim.nodup_of_map _ _ h.uniqL))]
  intro p
  rw [m2, m1]
  constructor
  · rintro ⟨hp, hr⟩
    obtain ⟨hr', hk⟩ := h.reachL hr
    have := SchedSim.get_of_mem h.uniqR hp
    rw [h.agree p.1 hk] at this
    exact ⟨SchedSim.mem_of_get this, hr'⟩
  · rintro ⟨hp, hr⟩
    have := SchedSim.get_of_mem h.uniqL hp
    rw [← h.agree p.1 (h.reachK hr)] at this
    exact ⟨SchedSim.mem_of_get this, h.reachR hr⟩

/-- the state after an allocation, seen from before: same roots, same reachable objects -/
theorem allocPure_obs (ch : Nat) (s : VmState) : ObsEq s (allocPure ch s).2 := by
  have := allocBytes_obs ch s
  rwa [allocBytes_run] at this

/-- **one allocation, two schedules**: same outcome, and the heaps agree on what is reachable -/
theorem allocPure_core (ch p : Nat) (h : Core c K s t) (l₁ : LedgerP s p) (l₂ : LedgerP t p) :
    (allocPure ch t).1 = (allocPure ch s).1 ∧
    Core c (R (allocPure ch s).2) (allocPure ch s).2 (allocPure ch t).2 := by
  constructor
  · rw [SchedSim.allocPure_fst ch s p l₁, SchedSim.allocPure_fst ch t p l₂, h.liveCharge_eq, h.limit]
  · have o1 := allocPure_obs ch s
    have o2 := allocPure_obs ch t
    have k1 := SchedSim.allocPure_keep ch s
    have k2 := SchedSim.allocPure_keep ch t
    exact
      { stack := by rw [o1.stack, o2.stack]; exact h.stack
        globals := by rw [o1.globals, o2.globals]; exact h.globals
        frames := by rw [o1.frames, o2.frames]; exact h.frames
        openUpvalues := by rw [o1.openUpvalues, o2.openUpvalues]; exact h.openUpvalues
        guards := by rw [o1.guards, o2.guards]; exact h.guards
        next := by rw [o1.next, o2.next]; exact h.next
        limit := by rw [SchedSim.allocPure_limit, SchedSim.allocPure_limit, h.limit]
        remaining := by rw [k2.1, k1.1, h.remaining]
        dispatches := by rw [k2.2.1, k1.2.1, h.dispatches]
        hostLog := by rw [SchedSim.allocPure_hostLog, SchedSim.allocPure_hostLog]; exact h.hostLog
        frameCap := by rw [k2.2.2, k1.2.2, h.frameCap]
        uniqL := (SchedSim.allocPure_unique ch s h.uniqL h.freshL).1
        uniqR := (SchedSim.allocPure_unique ch t h.uniqR h.freshR).1
        freshL := (SchedSim.allocPure_unique ch s h.uniqL h.freshL).2
        freshR := (SchedSim.allocPure_unique ch t h.uniqR h.freshR).2
        rootsK := fun a ha => Reach.root ha
        closed := fun a o b ha ho hc => Reach.step ha ho hc
        agree := by
          intro a ha
          have ha0 : R s a := (o1.reach_iff a).mp ha
          rw [o1.fwd a ha0, o2.fwd a (h.reachR ha0)]
          exact h.agree a (h.reachK ha0) }

theorem refund_core (ch : Nat) (h : Core c K s t) : Core c K (refund ch s) (refund ch t) :=
  { h with limit := h.limit }

theorem withObject_core (o : Obj) (hk : Heap.children o = []) (h : Core c K s t) :
    Core c (fun a => a = s.heap.next ∨ K a) (withObject o s) (withObject o t) :=
  { stack := h.stack, globals := h.globals, frames := h.frames, openUpvalues := h.openUpvalues
    guards := by show t.heap.next :: t.guards = s.heap.next :: s.guards; rw [h.next, h.guards]
    next := by show t.heap.next + 1 = s.heap.next + 1; rw [h.next]
    limit := h.limit, remaining := h.remaining, dispatches := h.dispatches, hostLog := h.hostLog
    frameCap := h.frameCap
    uniqL := (withObject_unique o s h.uniqL h.freshL).1
    uniqR := (withObject_unique o t h.uniqR h.freshR).1
    freshL := (withObject_unique o s h.uniqL h.freshL).2
    freshR := (withObject_unique o t h.uniqR h.freshR).2
    rootsK := by
      intro a ha
      rcases (SchedSim.rootAddrs_withObject o s a).mp ha with h1 | h1
      · exact Or.inl h1
      · exact Or.inr (h.rootsK a h1)
    closed := by
      intro a o' b ha ho hc
      by_cases hn : a = s.heap.next
      · subst hn
        rw [SchedSim.withObject_get_next o s h.freshL] at ho
        cases ho
        rw [hk] at hc; cases hc
      · rw [SchedSim.withObject_get_ne o s a hn] at ho
        rcases ha with ha | ha
        · exact absurd ha hn
        · exact Or.inr (h.closed a o' b ha ho hc)
    agree := by
      intro a ha
      by_cases hn : a = s.heap.next
      · subst hn
        rw [SchedSim.withObject_get_next o s h.freshL, ← h.next, SchedSim.withObject_get_next o t h.freshR]
      · rw [SchedSim.withObject_get_ne o s a hn, SchedSim.withObject_get_ne o t a (by rw [h.next]; exact hn)]
        rcases ha with ha | ha
        · exact absurd ha hn
        · exact h.agree a ha }

theorem alloc2Pure_core (c1 c2 : Nat) (o : Obj) (hk : Heap.children o = []) (h : Agree c K s t) :
    (alloc2Pure c1 c2 o t).1 = (alloc2Pure c1 c2 o s).1 ∧
    ∃ K', Core c K' (alloc2Pure c1 c2 o s).2 (alloc2Pure c1 c2 o t).2 := by
  unfold alloc2Pure
  obtain ⟨e1, k1⟩ := allocPure_core c1 0 h.toCore h.invL.ledger h.invR.ledger
  have ls := SchedSim.allocPure_ok_ledgerP c1 s 0 h.invL.ledger
  have lt := SchedSim.allocPure_ok_ledgerP c1 t 0 h.invR.ledger
  rcases h1 : allocPure c1 s with ⟨r1, s1⟩
  rcases h1' : allocPure c1 t with ⟨r1', t1⟩
  simp only [h1, h1'] at e1 k1 ls lt
  subst e1
  cases r1' with
  | error e => exact ⟨rfl, _, k1⟩
  | ok u =>
    have l1 := ls u rfl
    have l1' := lt u rfl
    dsimp only
    obtain ⟨e2, k2⟩ := allocPure_core c2 (0 + c1) k1 l1 l1'
    rcases h2 : allocPure c2 s1 with ⟨r2, s2⟩
    rcases h2' : allocPure c2 t1 with ⟨r2', t2⟩
    simp only [h2, h2'] at e2 k2
    subst e2
    cases r2' with
    | error e => exact ⟨rfl, _, refund_core c1 k2⟩
    | ok u =>
      refine ⟨?_, _, withObject_core o hk k2⟩
      show Except.ok t2.heap.next = Except.ok s2.heap.next
      rw [k2.next]

theorem alloc1Pure_core (c1 : Nat) (o : Obj) (hk : Heap.children o = []) (h : Agree c K s t) :
    (alloc1Pure c1 o t).1 = (alloc1Pure c1 o s).1 ∧
    ∃ K', Core c K' (alloc1Pure c1 o s).2 (alloc1Pure c1 o t).2 := by
  unfold alloc1Pure
  obtain ⟨e1, k1⟩ := allocPure_core c1 0 h.toCore h.invL.ledger h.invR.ledger
  rcases h1 : allocPure c1 s with ⟨r1, s1⟩
  rcases h1' : allocPure c1 t with ⟨r1', t1⟩
  simp only [h1, h1'] at e1 k1
  subst e1
  cases r1' with
  | error e => exact ⟨rfl, _, k1⟩
  | ok u =>
    refine ⟨?_, _, withObject_core o hk k1⟩
    show Except.ok t1.heap.next = Except.ok s1.heap.next
    rw [k1.next]

/-- an allocating constructor whose pure form respects `Core` and which keeps the invariant -/
theorem w2_allocating {Q : Nat → Nat → VmState → VmState → Prop} (m : M Nat) (h : Agree c K s t)
    (hcore : (m.go t).1 = (m.go s).1 ∧ ∃ K', Core c K' (m.go s).2 (m.go t).2)
    (hinv : ∀ s, C05.Inv s → C05.Inv (m.go s).2)
    (hq : ∀ a s' t', m.go s = (.ok a, s') → Agree c (R s') s' t' → Q a a s' t') : W2 c m m Q s t := by
  obtain ⟨e, K', hc⟩ := hcore
  have i1 := hinv s h.invL
  have i2 := hinv t h.invR
  unfold W2
  rcases h1 : m.go s with ⟨r1, s'⟩
  rcases h2 : m.go t with ⟨r2, t'⟩
  rw [h1, h2] at e hc
  rw [h1] at i1
  rw [h2] at i2
  dsimp only at e hc i1 i2
  subst e
  have hA : Agree c (R s') s' t' := Agree.toR { hc with invL := i1, invR := i2 }
  cases r2 with
  | error e => exact ⟨rfl, hA.rel⟩
  | ok a => exact hq a s' t' h1 hA

theorem w2_initTable {Q : Nat → Nat → VmState → VmState → Prop} (h : Agree c K s t)
    (hq : ∀ a s' t', initTable.go s = (.ok a, s') → Agree c (R s') s' t' → Q a a s' t') :
    W2 c initTable initTable Q s t := by
  refine w2_allocating initTable h ?_ (fun s hs => initTable_inv s hs) hq
  rw [show initTable.go s = _ from initTable_run s, show initTable.go t = _ from initTable_run t]
  exact alloc2Pure_core _ _ _ rfl h

theorem w2_initString {Q : Nat → Nat → VmState → VmState → Prop} (b : List UInt8) (h : Agree c K s t)
    (hq : ∀ a s' t', (initString b).go s = (.ok a, s') → Agree c (R s') s' t' → Q a a s' t') :
    W2 c (initString b) (initString b) Q s t := by
  refine w2_allocating (initString b) h ?_ (fun s hs => initString_inv b s hs) hq
  rw [show (initString b).go s = _ from initString_run b s,
    show (initString b).go t = _ from initString_run b t]
  exact alloc2Pure_core _ _ _ rfl h

theorem w2_initSimple {Q : Nat → Nat → VmState → VmState → Prop} (o : Obj) (hk : Heap.children o = [])
    (ho : Heap.chargeOf o = Heap.objCharge) (h : Agree c K s t)
    (hq : ∀ a s' t', (initSimple o).go s = (.ok a, s') → Agree c (R s') s' t' → Q a a s' t') :
    W2 c (initSimple o) (initSimple o) Q s t := by
  refine w2_allocating (initSimple o) h ?_ (fun s hs => initSimple_inv o s ho hs) hq
  rw [show (initSimple o).go s = _ from initSimple_run o s,
    show (initSimple o).go t = _ from initSimple_run o t]
  exact alloc1Pure_core _ _ hk h

/-- the new object is guarded, hence reachable -/
theorem initSimple_reach {o : Obj} {s s' : VmState} {a : Nat} (h : (initSimple o).go s = (.ok a, s')) :
    R s' a := SchedSim.reach_guard' (SchedSim.initSimple_ok_guard h)
theorem initTable_reach {s s' : VmState} {a : Nat} (h : initTable.go s = (.ok a, s')) : R s' a :=
  SchedSim.reach_guard' (SchedSim.initTable_ok_guard h)
theorem initString_reach {b : List UInt8} {s s' : VmState} {a : Nat}
    (h : (initString b).go s = (.ok a, s')) : R s' a :=
  SchedSim.reach_guard' (SchedSim.initString_ok_guard h)

/-! ## `tableInsert` -/

theorem map_overwrite_kids {h : Heap} {es : List (Val × Val)} {ck : OVal} {v : Val} {b : Nat}
    (hb : Val.obj b ∈ Heap.children (.table 0 (es.map (fun e => if decide (ownD h e.1 = ck) then (e.1, v) else e)))) :
    Val.obj b = v ∨ Val.obj b ∈ Heap.children (.table 0 es) := by
  simp only [Heap.children, List.mem_flatMap, List.mem_map] at hb ⊢
  obtain ⟨e', ⟨e, he, rfl⟩, hbe⟩ := hb
  split at hbe
  · simp only [List.mem_cons, List.not_mem_nil, or_false] at hbe
    rcases hbe with hbe | hbe
    · exact Or.inr ⟨e, he, by simp [hbe]⟩
    · exact Or.inl hbe
  · exact Or.inr ⟨e, he, hbe⟩

theorem append_kids {es : List (Val × Val)} {k v : Val} {b : Nat}
    (hb : Val.obj b ∈ Heap.children (.table 0 (es ++ [(k, v)]))) :
    Val.obj b = k ∨ Val.obj b = v ∨ Val.obj b ∈ Heap.children (.table 0 es) := by
  simp only [Heap.children, List.flatMap_append, List.mem_append, List.mem_flatMap] at hb ⊢
  rcases hb with hb | ⟨e, he, hbe⟩
  · exact Or.inr (Or.inr hb)
  · simp only [List.mem_cons, List.not_mem_nil, or_false] at he
    subst he
    simp only [List.mem_cons, List.not_mem_nil, or_false] at hbe
    rcases hbe with hbe | hbe
    · exact Or.inl hbe
    · exact Or.inr (Or.inl hbe)

/-- **`tableInsert` into a reachable table, of a reachable key and value** (the insertion may
    allocate, and the allocation may collect): same outcome, and afterwards the heaps agree on
    what is reachable then -/
theorem tableInsertPure_core (a : Nat) (k v : Val) (h : Agree c K s t) (ha : R s a)
    (hk : VK (R s) k) (hv : VK (R s) v) :
    (tableInsertPure a k v t).1 = (tableInsertPure a k v s).1 ∧
    ∃ K', Core c K' (tableInsertPure a k v s).2 (tableInsertPure a k v t).2 := by
  have hR := h.toCore.toR
  unfold tableInsertPure
  rw [hR.agree a ha]
  cases hg : s.heap.get a with
  | none => exact ⟨rfl, _, h.toCore⟩
  | some o =>
    cases o with
    | table cap es =>
      dsimp only
      have hes : ∀ e ∈ es, VK (R s) e.1 ∧ VK (R s) e.2 := fun e he => hR.vk_entry ha hg he
      rw [hR.ownD_eq hk, hR.findEntry_eq (fun e he => (hes e he).1)]
      have hkids : ∀ b, Val.obj b ∈ Heap.children (.table 0 es) → R s b :=
        fun b hb => hR.closed a _ b ha hg hb
      split
      · refine ⟨rfl, R s, ?_⟩
        have e : (es.map (fun e => if decide (ownD t.heap e.1 = ownD s.heap k) then (e.1, v) else e)) =
            (es.map (fun e => if decide (ownD s.heap e.1 = ownD s.heap k) then (e.1, v) else e)) := by
          apply List.map_congr_left
          intro e he
          rw [hR.ownD_eq (hes e he).1]
        rw [e]
        exact hR.set a _ ha (fun b hb => by
          rcases map_overwrite_kids hb with h1 | h1
          · exact hv b h1.symm
          · exact hkids b h1)
      · split
        · obtain ⟨e1, k1⟩ := allocPure_core (Heap.tableCharge (HMap.growCap cap)) 0 hR h.invL.ledger h.invR.ledger
          have o1 := allocPure_obs (Heap.tableCharge (HMap.growCap cap)) s
          rcases h1 : allocPure (Heap.tableCharge (HMap.growCap cap)) s with ⟨r1, s1⟩
          rcases h1' : allocPure (Heap.tableCharge (HMap.growCap cap)) t with ⟨r1', t1⟩
          simp only [h1, h1'] at e1 k1 o1
          subst e1
          cases r1' with
          | error e => exact ⟨rfl, _, k1⟩
          | ok u =>
            refine ⟨rfl, R s1, ?_⟩
            have mono : ∀ b, R s b → R s1 b := fun b hb => (o1.reach_iff b).mpr hb
            exact (refund_core (Heap.tableCharge cap) k1).set a _ (mono a ha) (fun b hb => by
              rcases append_kids hb with h1 | h1 | h1
              · exact mono b (hk b h1.symm)
              · exact mono b (hv b h1.symm)
              · exact mono b (hkids b h1))
        · refine ⟨rfl, R s, ?_⟩
          exact hR.set a _ ha (fun b hb => by
            rcases append_kids hb with h1 | h1 | h1
            · exact hk b h1.symm
            · exact hv b h1.symm
            · exact hkids b h1)
    | str _ => exact ⟨rfl, _, h.toCore⟩
    | fn _ _ => exact ⟨rfl, _, h.toCore⟩
    | native _ => exact ⟨rfl, _, h.toCore⟩
    | closure _ _ _ => exact ⟨rfl, _, h.toCore⟩
    | upvalue _ => exact ⟨rfl, _, h.toCore⟩

theorem w2_tableInsert {Q : Unit → Unit → VmState → VmState → Prop} (a : Nat) (k v : Val)
    (h : Agree c K s t) (ha : R s a) (hk : VK (R s) k) (hv : VK (R s) v)
    (hq : ∀ s' t', (tableInsert a k v).go s = (.ok (), s') → Agree c (R s') s' t' → Q () () s' t') :
    W2 c (tableInsert a k v) (tableInsert a k v) Q s t := by
  have hcore := tableInsertPure_core a k v h ha hk hv
  rw [← show (tableInsert a k v).go s = _ from tableInsert_run a k v s,
    ← show (tableInsert a k v).go t = _ from tableInsert_run a k v t] at hcore
  obtain ⟨e, K', hc⟩ := hcore
  have i1 := tableInsert_inv a k v s h.invL ha
  have i2 := tableInsert_inv a k v t h.invR (h.toCore.reachR ha)
  change C05.Inv ((tableInsert a k v).go s).2 at i1
  change C05.Inv ((tableInsert a k v).go t).2 at i2
  unfold W2
  rcases h1 : (tableInsert a k v).go s with ⟨r1, s'⟩
  rcases h2 : (tableInsert a k v).go t with ⟨r2, t'⟩
  rw [h1, h2] at e hc
  rw [h1] at i1
  rw [h2] at i2
  dsimp only at e hc i1 i2
  subst e
  have hA : Agree c (R s') s' t' := Agree.toR { hc with invL := i1, invR := i2 }
  cases r2 with
  | error e => exact ⟨rfl, hA.rel⟩
  | ok a => exact hq s' t' h1 hA

end alloc

/-! ## the stack and frame primitives -/

section prims
variable {c : Cfg} {K : Nat → Prop} {s t : VmState}

theorem w2_peek {Q : Val → Val → VmState → VmState → Prop} (n : Nat) (h : Agree c K s t)
    (hq : ∀ v, v = s.stack.peekLast n → VK K v → Q v v s t) : W2 c (peek n) (peek n) Q s t := by
  refine w2_of_go (a := s.stack.peekLast n) (b := t.stack.peekLast n) rfl rfl ?_
  rw [h.stack.peekLast]
  exact hq _ rfl (h.vk_peek n)

theorem w2_pop {Q : Val → Val → VmState → VmState → Prop} (h : Agree c K s t)
    (hq : ∀ v, v = s.stack.pop.2 → VK K v →
      Agree c K { s with stack := s.stack.pop.1 } { t with stack := t.stack.pop.1 } →
      Q v v { s with stack := s.stack.pop.1 } { t with stack := t.stack.pop.1 }) :
    W2 c pop pop Q s t := by
  refine w2_of_go (RunInv.go_pop s) (RunInv.go_pop t) ?_
  rw [h.stack.1.pop.2]
  exact hq _ rfl h.vk_pop (h.stack_change (h.stack.map (fun x => x.pop.1) h.stack.1.pop.1)
    (fun v hv => h.vk_stack (SchedSim.mem_pop_contents hv)))

theorem w2_push {Q : Unit → Unit → VmState → VmState → Prop} (v : Val) (h : Agree c K s t) (hv : VK K v)
    (hq : Agree c K { s with stack := (s.stack.push v).1 } { t with stack := (t.stack.push v).1 } →
      Q () () { s with stack := (s.stack.push v).1 } { t with stack := (t.stack.push v).1 }) :
    W2 c (push v) (push v) Q s t := by
  have e1 := SchedSim.go_push v s
  have e2 := SchedSim.go_push v t
  rw [h.stack.count, h.stack.cap] at e2
  split at e1
  · next hc =>
    rw [if_pos hc] at e2
    refine w2_of_go e1 e2 (hq (h.stack_change (h.stack.map (fun x => (x.push v).1) (h.stack.1.push v).1)
      (fun w hw => ?_)))
    rcases SchedSim.mem_push_contents hw with rfl | hw
    · exact hv
    · exact h.vk_stack hw
  · next hc =>
    rw [if_neg hc] at e2
    exact w2_of_go_err e1 e2 h.rel

theorem w2_popN {Q : PUnit → PUnit → VmState → VmState → Prop} (n : Nat) (h : Agree c K s t)
    (hq : Agree c K { s with stack := (s.stack.popN n).1 } { t with stack := (t.stack.popN n).1 } →
      Q ⟨⟩ ⟨⟩ { s with stack := (s.stack.popN n).1 } { t with stack := (t.stack.popN n).1 }) :
    W2 c (popN n) (popN n) Q s t :=
  w2_modify (hq (h.stack_change (h.stack.map (fun x => (x.popN n).1) (h.stack.1.popN n))
    (fun v hv => h.vk_stack (mem_popN_contents hv))))

theorem Agree.guards_change (h : Agree c K s t) (g : List Nat) (hg : ∀ a ∈ g, K a) :
    Agree c K { s with guards := g } { t with guards := g } :=
  h.reroot rfl rfl rfl rfl h.stack h.globals h.frames h.openUpvalues rfl h.remaining
    h.dispatches h.hostLog h.frameCap
    (rootsK_of (fun v hv => h.vk_stack hv) (fun v hv => h.vk_global hv) (fun f hf a ha => h.k_frame hf ha)
      (fun a ha => h.k_upv ha) hg)

theorem w2_dropGuard {Q : PUnit → PUnit → VmState → VmState → Prop} (a : Nat) (h : Agree c K s t)
    (hq : Agree c K { s with guards := s.guards.erase a } { t with guards := s.guards.erase a } →
      Q ⟨⟩ ⟨⟩ { s with guards := s.guards.erase a } { t with guards := s.guards.erase a }) :
    W2 c (dropGuard a) (dropGuard a) Q s t := by
  have e2 : (dropGuard a).go t = (.ok ⟨⟩, { t with guards := s.guards.erase a }) := by
    rw [← h.guards]; rfl
  exact w2_of_go (a := ⟨⟩) (s' := { s with guards := s.guards.erase a }) rfl e2
    (hq (h.guards_change _ (fun x hx => h.k_guard (List.mem_of_mem_erase hx))))

theorem w2_guardVal {Q : PUnit → PUnit → VmState → VmState → Prop} (v : Val) (h : Agree c K s t)
    (hv : VK K v)
    (hq : Agree c K { s with guards := guardOf v ++ s.guards } { t with guards := guardOf v ++ s.guards } →
      Q ⟨⟩ ⟨⟩ { s with guards := guardOf v ++ s.guards } { t with guards := guardOf v ++ s.guards }) :
    W2 c (guardVal v) (guardVal v) Q s t := by
  have e2 : (guardVal v).go t = (.ok ⟨⟩, { t with guards := guardOf v ++ s.guards }) := by
    rw [go_guardVal, h.guards]
  refine w2_of_go (go_guardVal v s) e2 (hq (h.guards_change _ (fun x hx => ?_)))
  rcases List.mem_append.mp hx with hx | hx
  · cases v <;> simp [guardOf] at hx
    subst hx; exact hv _ rfl
  · exact h.k_guard hx

theorem w2_unguardVal {Q : PUnit → PUnit → VmState → VmState → Prop} (v : Val) (h : Agree c K s t)
    (hq : Agree c K { s with guards := unguard v s.guards } { t with guards := unguard v s.guards } →
      Q ⟨⟩ ⟨⟩ { s with guards := unguard v s.guards } { t with guards := unguard v s.guards }) :
    W2 c (unguardVal v) (unguardVal v) Q s t := by
  have e2 : (unguardVal v).go t = (.ok ⟨⟩, { t with guards := unguard v s.guards }) := by
    rw [go_unguardVal, h.guards]
  refine w2_of_go (go_unguardVal v s) e2 (hq (h.guards_change _ (fun x hx => ?_)))
  cases v with
  | obj a => exact h.k_guard (List.mem_of_mem_erase hx)
  | nil => exact h.k_guard hx
  | int _ => exact h.k_guard hx
  | real _ => exact h.k_guard hx

theorem w2_guardRows {Q : PUnit → PUnit → VmState → VmState → Prop} (es : List (Val × Val))
    (h : Agree c K s t) (hv : ∀ e ∈ es, VK K e.1 ∧ VK K e.2)
    (hq : Agree c K { s with guards := rowGuards es ++ s.guards } { t with guards := rowGuards es ++ s.guards } →
      Q ⟨⟩ ⟨⟩ { s with guards := rowGuards es ++ s.guards } { t with guards := rowGuards es ++ s.guards }) :
    W2 c (guardRows es) (guardRows es) Q s t := by
  have e2 : (guardRows es).go t = (.ok ⟨⟩, { t with guards := rowGuards es ++ s.guards }) := by
    rw [go_guardRows, h.guards]
  refine w2_of_go (go_guardRows es s) e2 (hq (h.guards_change _ (fun x hx => ?_)))
  rcases List.mem_append.mp hx with hx | hx
  · obtain ⟨e, he, h1 | h1⟩ := mem_rowGuards hx
    · exact (hv e he).1 _ h1
    · exact (hv e he).2 _ h1
  · exact h.k_guard hx

theorem w2_unguardRows {Q : PUnit → PUnit → VmState → VmState → Prop} (es : List (Val × Val))
    (h : Agree c K s t)
    (hq : Agree c K { s with guards := unrow es s.guards } { t with guards := unrow es s.guards } →
      Q ⟨⟩ ⟨⟩ { s with guards := unrow es s.guards } { t with guards := unrow es s.guards }) :
    W2 c (unguardRows es) (unguardRows es) Q s t := by
  have e2 : (unguardRows es).go t = (.ok ⟨⟩, { t with guards := unrow es s.guards }) := by
    rw [go_unguardRows, h.guards]
  exact w2_of_go (go_unguardRows es s) e2
    (hq (h.guards_change _ (fun x hx => h.k_guard (mem_of_mem_unrow es hx))))

/-- `getTable` on a `K`-value: the same table (its entries are `K`-values) or the same error -/
theorem w2_getTable {Q : (Nat × Nat × List (Val × Val)) → (Nat × Nat × List (Val × Val)) →
      VmState → VmState → Prop} (v : Val) (h : Agree c K s t) (hv : VK K v)
    (hq : ∀ a cap es, v = .obj a → K a → s.heap.get a = some (.table cap es) →
      (∀ e ∈ es, VK K e.1 ∧ VK K e.2) → Q (a, cap, es) (a, cap, es) s t) :
    W2 c (getTable v) (getTable v) Q s t := by
  cases v with
  | obj a =>
    have ha : K a := hv a rfl
    have e1 : (getTable (.obj a)).go s = _ := getTable_run a s
    have e2 : (getTable (.obj a)).go t = _ := getTable_run a t
    rw [h.agree a ha] at e2
    cases hg : s.heap.get a with
    | none =>
      rw [hg] at e1 e2
      exact w2_of_go_err e1 e2 h.rel
    | some o =>
      rw [hg] at e1 e2
      cases o with
      | table cap es =>
        exact w2_of_go e1 e2 (hq a cap es rfl ha hg (fun e he => h.vk_entry ha hg he))
      | str _ => exact w2_of_go_err e1 e2 h.rel
      | fn _ _ => exact w2_of_go_err e1 e2 h.rel
      | native _ => exact w2_of_go_err e1 e2 h.rel
      | closure _ _ _ => exact w2_of_go_err e1 e2 h.rel
      | upvalue _ => exact w2_of_go_err e1 e2 h.rel
  | nil => exact w2_of_go_err rfl rfl h.rel
  | int _ => exact w2_of_go_err rfl rfl h.rel
  | real _ => exact w2_of_go_err rfl rfl h.rel

theorem go_curFrame (s : VmState) :
    curFrame.go s = match s.frames.getLast? with
      | some f => (.ok f, s)
      | none => (.error (.panic "call stack is empty"), s) := by
  unfold curFrame
  rw [go_bind]
  simp only [go_get]
  cases s.frames.getLast? <;> rfl

theorem w2_curFrame {Q : Frame → Frame → VmState → VmState → Prop} (h : Agree c K s t)
    (hq : ∀ f, s.frames.getLast? = some f → f ∈ s.frames → Q f f s t) : W2 c curFrame curFrame Q s t := by
  have e1 := go_curFrame s
  have e2 := go_curFrame t
  rw [h.frames] at e2
  cases hf : s.frames.getLast? with
  | none => rw [hf] at e1 e2; exact w2_of_go_err e1 e2 h.rel
  | some f => rw [hf] at e1 e2; exact w2_of_go e1 e2 (hq f hf (List.mem_of_getLast? hf))

theorem go_writeLocal (off hd : Nat) (v : Val) (s : VmState) :
    (writeLocal off hd v).go s = match (s.stack.set (off + hd) v).2 with
      | .ok _ => (.ok ⟨⟩, { s with stack := (s.stack.set (off + hd) v).1 })
      | .error _ => (.error .varNotFound, s) := by
  unfold writeLocal
  rw [go_bind]
  simp only [go_get]
  rcases s.stack.set (off + hd) v with ⟨st, r⟩
  cases r <;> rfl

theorem w2_writeLocal {Q : PUnit → PUnit → VmState → VmState → Prop} (off hd : Nat) (v : Val)
    (h : Agree c K s t) (hv : VK K v)
    (hq : Agree c K { s with stack := (s.stack.set (off + hd) v).1 } { t with stack := (t.stack.set (off + hd) v).1 } →
      Q ⟨⟩ ⟨⟩ { s with stack := (s.stack.set (off + hd) v).1 } { t with stack := (t.stack.set (off + hd) v).1 }) :
    W2 c (writeLocal off hd v) (writeLocal off hd v) Q s t := by
  have e1 := go_writeLocal off hd v s
  have e2 := go_writeLocal off hd v t
  rw [(h.stack.1.set (off + hd) v).2] at e2
  cases hr : (s.stack.set (off + hd) v).2 with
  | error e => rw [hr] at e1 e2; exact w2_of_go_err e1 e2 h.rel
  | ok x =>
    rw [hr] at e1 e2
    refine w2_of_go e1 e2 (hq (h.stack_change (h.stack.map (fun x => (x.set (off + hd) v).1)
      (h.stack.1.set (off + hd) v).1) (fun w hw => ?_)))
    rcases mem_set_contents hw with rfl | hw
    · exact hv
    · exact h.vk_stack hw

theorem w2_readLocal {Q : Val → Val → VmState → VmState → Prop} (off hd : Nat) (h : Agree c K s t)
    (hq : ∀ v, VK K v → Q v v s t) : W2 c (readLocal off hd) (readLocal off hd) Q s t := by
  refine w2_of_go (a := s.stack.get (off + hd)) (b := t.stack.get (off + hd)) rfl rfl ?_
  rw [h.stack.1.get]
  exact hq _ (h.vk_get _)

theorem w2_tableGet {Q : Val → Val → VmState → VmState → Prop} (es : List (Val × Val)) (k : Val)
    (h : Agree c K s t) (hes : ∀ e ∈ es, VK K e.1 ∧ VK K e.2) (hk : VK K k)
    (hq : ∀ v, VK K v → Q v v s t) : W2 c (tableGet es k) (tableGet es k) Q s t := by
  refine w2_of_go (a := ((findEntry s.heap es (ownD s.heap k)).map (·.2)).getD .nil)
    (b := ((findEntry t.heap es (ownD t.heap k)).map (·.2)).getD .nil) rfl rfl ?_
  rw [h.ownD_eq hk, h.findEntry_eq (fun e he => (hes e he).1)]
  refine hq _ ?_
  unfold findEntry
  cases hf : es.find? (fun e => decide (ownD s.heap e.1 = ownD s.heap k)) with
  | none => exact VK.nil
  | some e => exact (hes e (List.mem_of_find?_eq_some hf)).2

/-- appending to the host log -/
theorem Agree.log (h : Agree c K s t) (x : String) :
    Agree c K { s with hostLog := s.hostLog ++ [x] } { t with hostLog := t.hostLog ++ [x] } :=
  h.reroot rfl rfl rfl rfl h.stack h.globals h.frames h.openUpvalues h.guards h.remaining
    h.dispatches (by show s.hostLog ++ [x] = c.pre ++ (t.hostLog ++ [x]); rw [h.hostLog, List.append_assoc])
    h.frameCap h.rootsK

end prims

end Cao.SchedFull
