import CaoProofs.Lemmas.SchedPrim
/-!
# Schedule independence, all instructions: stack, scalar, jump, variable and arithmetic instructions

The code of each instruction (as in `step`), and its two-run simulation.
-/
namespace Cao.SchedFull
open Cao Cao.Vm Cao.Gc Cao.C02 Cao.C05 Cao.RunInv Cao.Native
set_option linter.unusedVariables false
set_option linter.unusedSectionVars false

/-- the post-condition of an instruction -/
abbrev QStep (c : Cfg) : Ctl → Ctl → VmState → VmState → Prop := fun a b s' t' => b = a ∧ Rel c s' t'

/-! ## the rules with abstract post-states -/
section abs
variable {c : Cfg} {K : Nat → Prop} {s t : VmState}

theorem w2_pop' {Q : Val → Val → VmState → VmState → Prop} (h : Agree c K s t)
    (hq : ∀ v s' t', s' = { s with stack := s.stack.pop.1 } → v = s.stack.pop.2 → VK K v →
      Agree c K s' t' → Q v v s' t') : W2 c pop pop Q s t :=
  w2_pop h (fun v hv hk hA => hq v _ _ rfl hv hk hA)

theorem w2_push' {Q : Unit → Unit → VmState → VmState → Prop} (v : Val) (h : Agree c K s t) (hv : VK K v)
    (hq : ∀ s' t', s' = { s with stack := (s.stack.push v).1 } → Agree c K s' t' → Q () () s' t') :
    W2 c (push v) (push v) Q s t :=
  w2_push v h hv (fun hA => hq _ _ rfl hA)

theorem w2_popN' {Q : PUnit → PUnit → VmState → VmState → Prop} (n : Nat) (h : Agree c K s t)
    (hq : ∀ s' t', s' = { s with stack := (s.stack.popN n).1 } → Agree c K s' t' → Q ⟨⟩ ⟨⟩ s' t') :
    W2 c (popN n) (popN n) Q s t :=
  w2_popN n h (fun hA => hq _ _ rfl hA)

theorem w2_dropGuard' {Q : PUnit → PUnit → VmState → VmState → Prop} (a : Nat) (h : Agree c K s t)
    (hq : ∀ s' t', s' = { s with guards := s.guards.erase a } → Agree c K s' t' → Q ⟨⟩ ⟨⟩ s' t') :
    W2 c (dropGuard a) (dropGuard a) Q s t :=
  w2_dropGuard a h (fun hA => hq _ _ rfl hA)

theorem w2_writeLocal' {Q : PUnit → PUnit → VmState → VmState → Prop} (off hd : Nat) (v : Val)
    (h : Agree c K s t) (hv : VK K v)
    (hq : ∀ s' t', s' = { s with stack := (s.stack.set (off + hd) v).1 } → Agree c K s' t' → Q ⟨⟩ ⟨⟩ s' t') :
    W2 c (writeLocal off hd v) (writeLocal off hd v) Q s t :=
  w2_writeLocal off hd v h hv (fun hA => hq _ _ rfl hA)

/-- reading the state: only what the relation fixes may be used afterwards -/
theorem w2_get' {α : Type} {f g : VmState → M α} {Q : α → α → VmState → VmState → Prop}
    (h : W2 c (f s) (g t) Q s t) : W2 c (get >>= f) (get >>= g) Q s t :=
  w2_bind (w2_get h)

/-- finishing an instruction -/
theorem w2_done (h : Agree c K s t) (ctl : Ctl) : W2 c (pure ctl) (pure ctl) (QStep c) s t :=
  w2_pure ⟨rfl, h.rel⟩

end abs

/-! ## the code -/

def cPushV (v : Val) (ip : Nat) : M Ctl := do push v; return { ip }
def cCopyLast (ip : Nat) : M Ctl := do push (← get).stack.last; return { ip }
def cExit (ip : Nat) : M Ctl := return { ip, exit := true }
def cGoto (ip : Nat) : M Ctl := return { ip }
def cPop (ip : Nat) : M Ctl := do let _ ← pop; return { ip }
def cSwapLast (ip : Nat) : M Ctl := do
  let b ← pop
  let a ← pop
  push b; push a
  return { ip }
def cGotoIf (yes no : Nat) : M Ctl := do
  let c ← pop
  let h := (← get).heap
  return { ip := if OVal.asBool hostF64 (ownD h c) then yes else no }
def cNot (ip : Nat) : M Ctl := do
  let v ← pop
  let h := (← get).heap
  push (boolVal (!(OVal.asBool hostF64 (ownD h v))))
  return { ip }
def cBin (f : OVal → OVal → Val) (ip : Nat) : M Ctl := do
  let b ← pop
  let a ← pop
  let h := (← get).heap
  push (f (ownD h a) (ownD h b))
  return { ip }
def cClearStack (ip : Nat) : M Ctl := do
  let off := (← curFrame).stackOffset
  modify fun s => { s with stack := (s.stack.clearUntil off).1 }
  return { ip }
def cSetLocalVar (handle ip : Nat) : M Ctl := do
  let off := (← curFrame).stackOffset
  let s ← get
  let (st, v) := s.stack.popWOffset off
  set { s with stack := st }
  writeLocal off handle v
  return { ip }
def cReadLocalVar (handle ip : Nat) : M Ctl := do
  let off := (← curFrame).stackOffset
  push (← readLocal off handle)
  return { ip }
def cSetGlobalVar (id ip : Nat) : M Ctl := do
  let v ← pop
  modify fun s =>
    let g := if s.globals.length ≤ id then s.globals ++ List.replicate (id + 1 - s.globals.length) .nil else s.globals
    { s with globals := g.set id v }
  return { ip }
def cReadGlobalVar (id ip : Nat) : M Ctl := do
  match (← get).globals[id]? with
  | some v => push v
  | none => throwE .varNotFound
  return { ip }
def cLen (ip : Nat) : M Ctl := do
  let v ← pop
  let h := (← get).heap
  let n : Nat := match v with
    | .nil => 0
    | .int _ | .real _ => 1
    | .obj a => match h.get a with
      | some (.table _ es) => es.length
      | some (.str b) => b.length
      | _ => 0
  push (.int (Int64.ofNat n))
  return { ip }

/-! ## their simulation -/
section ops
variable {c : Cfg} {K : Nat → Prop} {s t : VmState}

theorem sim_pushV (v : Val) (hv : ∀ K, VK K v) (ip : Nat) (h : Agree c K s t) :
    W2 c (cPushV v ip) (cPushV v ip) (QStep c) s t := by
  unfold cPushV
  refine w2_bind (w2_push' v h (hv K) fun s1 t1 _ hA => ?_)
  exact w2_done hA _

theorem sim_copyLast (ip : Nat) (h : Agree c K s t) :
    W2 c (cCopyLast ip) (cCopyLast ip) (QStep c) s t := by
  unfold cCopyLast
  refine w2_get' ?_
  rw [h.stack.1.last]
  refine w2_bind (w2_push' _ h h.vk_last fun s1 t1 _ hA => ?_)
  exact w2_done hA _

theorem sim_exit (ip : Nat) (h : Agree c K s t) : W2 c (cExit ip) (cExit ip) (QStep c) s t :=
  w2_done h _

theorem sim_goto (ip : Nat) (h : Agree c K s t) : W2 c (cGoto ip) (cGoto ip) (QStep c) s t :=
  w2_done h _

theorem sim_pop (ip : Nat) (h : Agree c K s t) : W2 c (cPop ip) (cPop ip) (QStep c) s t := by
  unfold cPop
  refine w2_bind (w2_pop' h fun v s1 t1 _ _ hv hA => ?_)
  exact w2_done hA _

theorem sim_swapLast (ip : Nat) (h : Agree c K s t) :
    W2 c (cSwapLast ip) (cSwapLast ip) (QStep c) s t := by
  unfold cSwapLast
  refine w2_bind (w2_pop' h fun b s1 t1 _ _ hb hA1 => ?_)
  refine w2_bind (w2_pop' hA1 fun a s2 t2 _ _ ha hA2 => ?_)
  refine w2_bind (w2_push' _ hA2 hb fun s3 t3 _ hA3 => ?_)
  refine w2_bind (w2_push' _ hA3 ha fun s4 t4 _ hA4 => ?_)
  exact w2_done hA4 _

theorem sim_gotoIf (yes no : Nat) (h : Agree c K s t) :
    W2 c (cGotoIf yes no) (cGotoIf yes no) (QStep c) s t := by
  unfold cGotoIf
  refine w2_bind (w2_pop' h fun v s1 t1 _ _ hv hA => ?_)
  refine w2_get' ?_
  w2h
  rw [hA.ownD_eq hv]
  exact w2_done hA _

theorem sim_not (ip : Nat) (h : Agree c K s t) : W2 c (cNot ip) (cNot ip) (QStep c) s t := by
  unfold cNot
  refine w2_bind (w2_pop' h fun v s1 t1 _ _ hv hA => ?_)
  refine w2_get' ?_
  w2h
  rw [hA.ownD_eq hv]
  refine w2_bind (w2_push' _ hA VK.boolVal fun s2 t2 _ hA2 => ?_)
  exact w2_done hA2 _

theorem sim_bin (f : OVal → OVal → Val) (hf : ∀ x y K, VK K (f x y)) (ip : Nat) (h : Agree c K s t) :
    W2 c (cBin f ip) (cBin f ip) (QStep c) s t := by
  unfold cBin
  refine w2_bind (w2_pop' h fun b s1 t1 _ _ hb hA1 => ?_)
  refine w2_bind (w2_pop' hA1 fun a s2 t2 _ _ ha hA2 => ?_)
  refine w2_get' ?_
  w2h
  rw [hA2.ownD_eq ha, hA2.ownD_eq hb]
  refine w2_bind (w2_push' _ hA2 (hf _ _ K) fun s3 t3 _ hA3 => ?_)
  exact w2_done hA3 _

/-- `ClearStack` does not move the stack pointer above the height: the frame starts below it -/
theorem sim_clearStack (ip : Nat) (h : Agree c K s t)
    (hok : ∀ f, s.frames.getLast? = some f → f.stackOffset ≤ s.stack.count) :
    W2 c (cClearStack ip) (cClearStack ip) (QStep c) s t := by
  unfold cClearStack
  refine w2_bind (w2_curFrame h fun f hf _ => ?_)
  w2h
  refine w2_bind (w2_modify ?_)
  have hle := hok f hf
  have hA := h.stack_change (h.stack.map (fun x => (x.clearUntil f.stackOffset).1)
      (h.stack.1.clearUntil hle).1) (fun v hv => h.vk_stack (mem_clearUntil_contents hle hv))
  exact w2_done hA _

theorem sim_setLocalVar (handle ip : Nat) (h : Agree c K s t) :
    W2 c (cSetLocalVar handle ip) (cSetLocalVar handle ip) (QStep c) s t := by
  unfold cSetLocalVar
  refine w2_bind (w2_curFrame h fun f hf _ => ?_)
  w2h
  refine w2_get' ?_
  have e := (h.stack.1.popWOffset f.stackOffset).2
  have hv : VK K (s.stack.popWOffset f.stackOffset).2 := by
    unfold VStack.popWOffset
    split
    · exact VK.nil
    · exact h.vk_pop
  have hA := h.stack_change (h.stack.map (fun x => (x.popWOffset f.stackOffset).1)
      (h.stack.1.popWOffset f.stackOffset).1) (fun v hv => h.vk_stack (mem_popWOffset_contents hv))
  rcases hs : s.stack.popWOffset f.stackOffset with ⟨st, v⟩
  rcases ht : t.stack.popWOffset f.stackOffset with ⟨st', v'⟩
  rw [hs, ht] at e hA
  rw [hs] at hv
  dsimp only at e hv hA ⊢
  subst e
  refine w2_bind (w2_set ?_)
  refine w2_bind (w2_writeLocal' _ _ _ hA hv fun s2 t2 _ hA2 => ?_)
  exact w2_done hA2 _

theorem sim_readLocalVar (handle ip : Nat) (h : Agree c K s t) :
    W2 c (cReadLocalVar handle ip) (cReadLocalVar handle ip) (QStep c) s t := by
  unfold cReadLocalVar
  refine w2_bind (w2_curFrame h fun f hf _ => ?_)
  w2h
  refine w2_bind (w2_readLocal _ _ h fun v hv => ?_)
  refine w2_bind (w2_push' _ h hv fun s2 t2 _ hA2 => ?_)
  exact w2_done hA2 _

theorem mem_set_of {l : List Val} {i : Nat} {v w : Val} (h : w ∈ l.set i v) : w = v ∨ w ∈ l := by
  rcases List.mem_iff_getElem?.mp h with ⟨j, hj⟩
  rw [List.getElem?_set] at hj
  split at hj
  · split at hj
    · left; simpa using hj.symm
    · cases hj
  · exact Or.inr (List.mem_iff_getElem?.mpr ⟨j, hj⟩)

theorem sim_setGlobalVar (id ip : Nat) (h : Agree c K s t) :
    W2 c (cSetGlobalVar id ip) (cSetGlobalVar id ip) (QStep c) s t := by
  unfold cSetGlobalVar
  refine w2_bind (w2_pop' h fun v s1 t1 _ _ hv hA => ?_)
  refine w2_bind (w2_modify ?_)
  dsimp only
  refine w2_done (K := K) ?_ _
  refine hA.reroot rfl rfl rfl rfl hA.stack (by show (List.set _ _ _) = (List.set _ _ _); rw [hA.globals]) hA.frames hA.openUpvalues hA.guards
    hA.remaining hA.dispatches hA.hostLog hA.frameCap ?_
  refine rootsK_of (fun w hw => hA.vk_stack hw) (fun w hw => ?_) (fun f hf a ha => hA.k_frame hf ha)
    (fun a ha => hA.k_upv ha) (fun a ha => hA.k_guard ha)
  rcases mem_set_of hw with rfl | hw
  · exact hv
  · split at hw
    · rcases List.mem_append.mp hw with hw | hw
      · exact hA.vk_global hw
      · rw [List.eq_of_mem_replicate hw]; exact VK.nil
    · exact hA.vk_global hw

theorem sim_readGlobalVar (id ip : Nat) (h : Agree c K s t) :
    W2 c (cReadGlobalVar id ip) (cReadGlobalVar id ip) (QStep c) s t := by
  unfold cReadGlobalVar
  refine w2_get' ?_
  rw [h.globals]
  cases hg : s.globals[id]? with
  | none => exact w2_throwE_bind h.rel
  | some v =>
    dsimp only
    refine w2_bind (w2_push' _ h (h.vk_global (List.mem_of_getElem? hg)) fun s2 t2 _ hA2 => ?_)
    exact w2_done hA2 _

theorem sim_len (ip : Nat) (h : Agree c K s t) : W2 c (cLen ip) (cLen ip) (QStep c) s t := by
  unfold cLen
  refine w2_bind (w2_pop' h fun v s1 t1 _ _ hv hA => ?_)
  refine w2_get' ?_
  w2h
  cases v with
  | obj a =>
    dsimp only
    rw [hA.agree a (hv a rfl)]
    refine w2_bind (w2_push' _ hA VK.int fun s2 t2 _ hA2 => ?_)
    exact w2_done hA2 _
  | nil =>
    refine w2_bind (w2_push' _ hA VK.int fun s2 t2 _ hA2 => ?_)
    exact w2_done hA2 _
  | int _ =>
    refine w2_bind (w2_push' _ hA VK.int fun s2 t2 _ hA2 => ?_)
    exact w2_done hA2 _
  | real _ =>
    refine w2_bind (w2_push' _ hA VK.int fun s2 t2 _ hA2 => ?_)
    exact w2_done hA2 _

end ops

end Cao.SchedFull
