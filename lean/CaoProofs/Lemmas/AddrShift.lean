import CaoProofs.Lemmas.VmFrame
/-!
# Equivariance of the interpreter under a uniform shift of all heap addresses

`shiftS δ s` adds `δ` to every heap address that occurs anywhere in the machine state `s`
(values on the stack — also in the stale slots above `count` —, globals, closure addresses in
frames, keys of the heap, addresses inside objects, `heap.next`, guards, open upvalues). The
interpreter never looks at the numeric value of an address (it only compares addresses and takes
`heap.next`), so every computation commutes with the renaming — for all states, without any
well-formedness side condition.

This file:
* the renaming: `shiftV`, `shiftE`, `shiftLoc`, `shiftObj`, `shiftHeap`, `shiftFrame`, `shiftStack`,
  `shiftS`, `shiftErr`, `shiftTask`, `mapRes`;
* its action on the pure operations of the model: `get_shiftHeap`, `set_shiftHeap`, `children_shiftObj`,
  `chargeOf_shiftObj`, `own_shift` / `ownD_shiftA` (deep values contain no addresses), `findEntry_shift`,
  `tableAppendKey_shift`, `isTable_shift`, `upvalueSlot_shift`, the value stack (`push_shiftStack` …),
  the collector (`markLoop_shift`, `roots_shift`, `reachable_shift`, `gc_shiftA`);
* the relational logic `SimA δ g m₁ m₂` (`m₂` on the renamed machine does what `m₁` does, results
  mapped by `g`) with its rules (`sima_bind`, `sima_get_bind`, `sima_ite`, `sima_forIn`, `sima_forIn_sh`,
  `sima_forIn_mergeSort`, `sima_tryCatch`, `sima_orElse`, `sima_liftRun`, …) and the tactic `sima_auto`
  (`sima_step`, `sima_head`, `sima_split`, `sima_norm`, `sima_prim`);
* one lemma per primitive computation of `CaoModel/Vm.lean` (`sima_push` … `sima_tableInsert`,
  `sima_closeUpvalues`, `sima_nativeConv`, `sima_callScript`);
* the statements `ReSimA`, `StepSimA`, `CallNativeSimA`, `NatSimA` proved in `AddrShiftStep.lean` /
  `AddrShiftNat.lean`, and `callNativeSimA_of_nat`.

The lifting to `exec` / `run` and the main theorems are in `AddrShiftRun.lean`.
-/
namespace Cao.Vm
open Cao
set_option linter.unusedSectionVars false
set_option linter.unusedVariables false

/-! ## the renaming -/

def shiftV (δ : Nat) : Val → Val
  | .nil => .nil
  | .int i => .int i
  | .real b => .real b
  | .obj a => .obj (a + δ)

def shiftE (δ : Nat) (e : Val × Val) : Val × Val := (shiftV δ e.1, shiftV δ e.2)

def shiftLoc (δ : Nat) : UpLoc → UpLoc
  | .stack i => .stack i
  | .closed v => .closed (shiftV δ v)

def shiftObj (δ : Nat) : Obj → Obj
  | .table cap es => .table cap (es.map (shiftE δ))
  | .str b => .str b
  | .fn h ar => .fn h ar
  | .native h => .native h
  | .closure h ar ups => .closure h ar (ups.map (· + δ))
  | .upvalue l => .upvalue (shiftLoc δ l)

def shiftP (δ : Nat) (p : Nat × Obj) : Nat × Obj := (p.1 + δ, shiftObj δ p.2)

def shiftHeap (δ : Nat) (h : Heap) : Heap :=
  { objs := h.objs.map (shiftP δ), next := h.next + δ }

def shiftFrame (δ : Nat) (f : Frame) : Frame :=
  { f with closure := f.closure.map (· + δ) }

def shiftStack (δ : Nat) (st : VStack Val) : VStack Val :=
  { count := st.count, data := st.data.map (shiftV δ) }

def shiftS (δ : Nat) (s : VmState) : VmState :=
  { s with stack := shiftStack δ s.stack,
           frames := s.frames.map (shiftFrame δ),
           globals := s.globals.map (shiftV δ),
           heap := shiftHeap δ s.heap,
           guards := s.guards.map (· + δ),
           openUpvalues := s.openUpvalues.map (· + δ) }

def shiftErr (δ : Nat) (e : RunErr) : RunErr := { e with frames := e.frames.map (shiftFrame δ) }

def shiftTask (δ : Nat) : Task → Task
  | .loop ip => .loop ip
  | .call f => .call (shiftV δ f)

/-- the renaming on the result of `exec` -/
def mapRes (δ : Nat) : Except RunErr (Option Val) → Except RunErr (Option Val)
  | .ok v => .ok (v.map (shiftV δ))
  | .error e => .error (shiftErr δ e)

section basic
variable (δ : Nat)

@[simp] theorem shiftV_nil : shiftV δ .nil = .nil := rfl
@[simp] theorem shiftV_int (i : Int64) : shiftV δ (.int i) = .int i := rfl
@[simp] theorem shiftV_real (b : UInt64) : shiftV δ (.real b) = .real b := rfl
@[simp] theorem shiftV_obj (a : Nat) : shiftV δ (.obj a) = .obj (a + δ) := rfl
@[simp] theorem shiftV_default : shiftV δ default = default := rfl
@[simp] theorem shiftV_boolVal (b : Bool) : shiftV δ (boolVal b) = boolVal b := rfl
@[simp] theorem shiftE_mk (k v : Val) : shiftE δ (k, v) = (shiftV δ k, shiftV δ v) := rfl
@[simp] theorem shiftE_fst (e : Val × Val) : (shiftE δ e).1 = shiftV δ e.1 := rfl
@[simp] theorem shiftE_snd (e : Val × Val) : (shiftE δ e).2 = shiftV δ e.2 := rfl
@[simp] theorem shiftLoc_stack (i : Nat) : shiftLoc δ (.stack i) = .stack i := rfl
@[simp] theorem shiftLoc_closed (v : Val) : shiftLoc δ (.closed v) = .closed (shiftV δ v) := rfl
@[simp] theorem shiftObj_table (cap : Nat) (es : List (Val × Val)) :
    shiftObj δ (.table cap es) = .table cap (es.map (shiftE δ)) := rfl
@[simp] theorem shiftObj_str (b : List UInt8) : shiftObj δ (.str b) = .str b := rfl
@[simp] theorem shiftObj_fn (h ar : UInt32) : shiftObj δ (.fn h ar) = .fn h ar := rfl
@[simp] theorem shiftObj_native (h : UInt32) : shiftObj δ (.native h) = .native h := rfl
@[simp] theorem shiftObj_closure (h ar : UInt32) (ups : List Nat) :
    shiftObj δ (.closure h ar ups) = .closure h ar (ups.map (· + δ)) := rfl
@[simp] theorem shiftObj_upvalue (l : UpLoc) : shiftObj δ (.upvalue l) = .upvalue (shiftLoc δ l) := rfl
@[simp] theorem shiftP_mk (a : Nat) (o : Obj) : shiftP δ (a, o) = (a + δ, shiftObj δ o) := rfl
@[simp] theorem shiftP_fst (p : Nat × Obj) : (shiftP δ p).1 = p.1 + δ := rfl
@[simp] theorem shiftP_snd (p : Nat × Obj) : (shiftP δ p).2 = shiftObj δ p.2 := rfl
@[simp] theorem shiftHeap_objs (h : Heap) : (shiftHeap δ h).objs = h.objs.map (shiftP δ) := rfl
@[simp] theorem shiftHeap_next (h : Heap) : (shiftHeap δ h).next = h.next + δ := rfl
@[simp] theorem shiftFrame_src (f : Frame) : (shiftFrame δ f).src = f.src := rfl
@[simp] theorem shiftFrame_dst (f : Frame) : (shiftFrame δ f).dst = f.dst := rfl
@[simp] theorem shiftFrame_stackOffset (f : Frame) : (shiftFrame δ f).stackOffset = f.stackOffset := rfl
@[simp] theorem shiftFrame_closure (f : Frame) : (shiftFrame δ f).closure = f.closure.map (· + δ) := rfl
@[simp] theorem shiftFrame_mk (a b c : Nat) (cl : Option Nat) :
    shiftFrame δ ⟨a, b, c, cl⟩ = ⟨a, b, c, cl.map (· + δ)⟩ := rfl
@[simp] theorem shiftStack_count (st : VStack Val) : (shiftStack δ st).count = st.count := rfl
@[simp] theorem shiftStack_data (st : VStack Val) : (shiftStack δ st).data = st.data.map (shiftV δ) := rfl

variable (s : VmState)
@[simp] theorem shiftS_stack : (shiftS δ s).stack = shiftStack δ s.stack := rfl
@[simp] theorem shiftS_frames : (shiftS δ s).frames = s.frames.map (shiftFrame δ) := rfl
@[simp] theorem shiftS_frameCap : (shiftS δ s).frameCap = s.frameCap := rfl
@[simp] theorem shiftS_globals : (shiftS δ s).globals = s.globals.map (shiftV δ) := rfl
@[simp] theorem shiftS_heap : (shiftS δ s).heap = shiftHeap δ s.heap := rfl
@[simp] theorem shiftS_mem : (shiftS δ s).mem = s.mem := rfl
@[simp] theorem shiftS_guards : (shiftS δ s).guards = s.guards.map (· + δ) := rfl
@[simp] theorem shiftS_openUpvalues : (shiftS δ s).openUpvalues = s.openUpvalues.map (· + δ) := rfl
@[simp] theorem shiftS_remaining : (shiftS δ s).remaining = s.remaining := rfl
@[simp] theorem shiftS_hostLog : (shiftS δ s).hostLog = s.hostLog := rfl
@[simp] theorem shiftS_dispatches : (shiftS δ s).dispatches = s.dispatches := rfl
@[simp] theorem shiftS_gcRuns : (shiftS δ s).gcRuns = s.gcRuns := rfl
@[simp] theorem shiftS_sched : (shiftS δ s).sched = s.sched := rfl
@[simp] theorem shiftS_allocIndex : (shiftS δ s).allocIndex = s.allocIndex := rfl
@[simp] theorem shiftS_forcedGcs : (shiftS δ s).forcedGcs = s.forcedGcs := rfl

theorem shiftV_inj {a b : Val} (h : shiftV δ a = shiftV δ b) : a = b := by
  cases a <;> cases b <;> simp [shiftV] at h <;> simp [h]

@[simp] theorem add_beq_add (x a : Nat) : (x + δ == a + δ) = (x == a) := by
  rw [Bool.eq_iff_iff]; simp

end basic

/-! ## lists under an injective map -/

theorem contains_map_add (δ : Nat) (l : List Nat) (a : Nat) :
    (l.map (· + δ)).contains (a + δ) = l.contains a := by
  induction l with
  | nil => rfl
  | cons x xs ih =>
    simp only [List.map_cons, List.contains_cons, ih]
    congr 1
    rw [Bool.eq_iff_iff]; simp

theorem erase_map_add (δ : Nat) (l : List Nat) (a : Nat) :
    (l.map (· + δ)).erase (a + δ) = (l.erase a).map (· + δ) := by
  induction l with
  | nil => rfl
  | cons x xs ih =>
    simp only [List.map_cons, List.erase_cons, add_beq_add]
    split
    · rfl
    · rw [List.map_cons, ih]

theorem getD_map_shiftV (δ : Nat) (l : List Val) (i : Nat) :
    (l.map (shiftV δ)).getD i .nil = shiftV δ (l.getD i .nil) := by
  simp only [List.getD_eq_getElem?_getD, List.getElem?_map]
  cases l[i]? <;> rfl

theorem getD_map_shiftV' (δ : Nat) (l : List Val) (i : Nat) :
    (l.map (shiftV δ)).getD i default = shiftV δ (l.getD i default) := getD_map_shiftV δ l i

theorem getD_map_shiftE (δ : Nat) (l : List (Val × Val)) (i : Nat) :
    (l.map (shiftE δ)).getD i (.nil, .nil) = shiftE δ (l.getD i (.nil, .nil)) := by
  simp only [List.getD_eq_getElem?_getD, List.getElem?_map]
  cases l[i]? <;> rfl

theorem getD_cons_map_shiftE (δ : Nat) (k v : Val) (l : List (Val × Val)) (i : Nat) :
    ((shiftV δ k, shiftV δ v) :: l.map (shiftE δ)).getD i (.nil, .nil) =
      shiftE δ (((k, v) :: l).getD i (.nil, .nil)) := by
  rw [← getD_map_shiftE]; rfl

theorem set_map_shiftV (δ : Nat) (l : List Val) (i : Nat) (v : Val) :
    (l.map (shiftV δ)).set i (shiftV δ v) = (l.set i v).map (shiftV δ) := by
  rw [List.map_set]

/-! ## the heap -/

theorem get_shiftHeap (δ : Nat) (h : Heap) (a : Nat) :
    (shiftHeap δ h).get (a + δ) = (h.get a).map (shiftObj δ) := by
  unfold Heap.get
  simp only [shiftHeap_objs, List.find?_map, Option.map_map]
  have : ((fun x : Nat × Obj => x.1 == a + δ) ∘ shiftP δ) = (fun x => x.1 == a) := by
    funext x; simp
  rw [this]
  rfl

theorem set_shiftHeap (δ : Nat) (h : Heap) (a : Nat) (o : Obj) :
    (shiftHeap δ h).set (a + δ) (shiftObj δ o) = shiftHeap δ (h.set a o) := by
  unfold Heap.set shiftHeap
  simp only [List.map_map]
  congr 1
  apply List.map_congr_left
  intro p _
  simp only [Function.comp, shiftP_fst, add_beq_add]
  split <;> rfl

theorem set_shiftHeap_upv (δ : Nat) (h : Heap) (a : Nat) (v : Val) :
    (shiftHeap δ h).set (a + δ) (.upvalue (.closed (shiftV δ v))) =
      shiftHeap δ (h.set a (.upvalue (.closed v))) := set_shiftHeap δ h a (.upvalue (.closed v))
theorem set_shiftHeap_table (δ : Nat) (h : Heap) (a cap : Nat) (es : List (Val × Val)) :
    (shiftHeap δ h).set (a + δ) (.table cap (es.map (shiftE δ))) =
      shiftHeap δ (h.set a (.table cap es)) := set_shiftHeap δ h a (.table cap es)
theorem set_shiftHeap_closure (δ : Nat) (h : Heap) (a : Nat) (hd ar : UInt32) (ups : List Nat) :
    (shiftHeap δ h).set (a + δ) (.closure hd ar (ups.map (· + δ))) =
      shiftHeap δ (h.set a (.closure hd ar ups)) := set_shiftHeap δ h a (.closure hd ar ups)

theorem children_shiftObj (δ : Nat) (o : Obj) :
    Heap.children (shiftObj δ o) = (Heap.children o).map (shiftV δ) := by
  cases o with
  | table cap es =>
    simp only [shiftObj_table, Heap.children]
    induction es with
    | nil => rfl
    | cons e es ih => simp [List.flatMap_cons, ih]
  | closure h ar ups =>
    simp only [shiftObj_closure, Heap.children, List.map_map]
    rfl
  | upvalue l => cases l <;> rfl
  | _ => rfl

theorem chargeOf_shiftObj (δ : Nat) (o : Obj) : Heap.chargeOf (shiftObj δ o) = Heap.chargeOf o := by
  cases o <;> rfl

/-! ## deep values contain no addresses -/

theorem own_shift (δ : Nat) (h : Heap) : ∀ (fuel : Nat) (v : Val),
    own (shiftHeap δ h) fuel (shiftV δ v) = own h fuel v := by
  intro fuel
  induction fuel with
  | zero => intro v; cases v <;> rfl
  | succ fuel ih =>
    intro v
    cases v with
    | obj a =>
      simp only [shiftV_obj, own, get_shiftHeap]
      cases h.get a with
      | none => rfl
      | some o =>
        cases o with
        | table cap es =>
          simp only [Option.map_some, shiftObj_table]
          congr 1
          induction es with
          | nil => rfl
          | cons e es ihes =>
            simp only [List.map_cons, List.mapM_cons, shiftE_fst, shiftE_snd, ih, ihes]
        | _ => rfl
    | _ => rfl

/-- **theorem 3**: the deep value of a value is invariant under the renaming -/
theorem ownD_shiftA (δ : Nat) (h : Heap) (v : Val) : ownD (shiftHeap δ h) (shiftV δ v) = ownD h v := by
  unfold ownD ownFuel
  simp only [shiftHeap_objs, List.length_map, own_shift]

theorem toI64_shift (δ : Nat) (h : Heap) (v : Val) : toI64 (shiftHeap δ h) (shiftV δ v) = toI64 h v := by
  unfold toI64; rw [ownD_shiftA]

theorem findEntry_shift (δ : Nat) (h : Heap) (es : List (Val × Val)) (k : OVal) :
    findEntry (shiftHeap δ h) (es.map (shiftE δ)) k = (findEntry h es k).map (shiftE δ) := by
  unfold findEntry
  rw [List.find?_map]
  congr 2
  funext e
  simp only [Function.comp, shiftE_fst, ownD_shiftA]

theorem tableAppendKey_go_shift (δ : Nat) (h : Heap) (es : List (Val × Val)) :
    ∀ fuel i, tableAppendKey.go (shiftHeap δ h) (es.map (shiftE δ)) fuel i = tableAppendKey.go h es fuel i := by
  intro fuel
  induction fuel with
  | zero => intro i; rfl
  | succ f ih =>
    intro i
    simp only [tableAppendKey.go, findEntry_shift, Option.isSome_map, ih]

theorem tableAppendKey_shift (δ : Nat) (h : Heap) (es : List (Val × Val)) :
    tableAppendKey (shiftHeap δ h) (es.map (shiftE δ)) = tableAppendKey h es := by
  unfold tableAppendKey
  simp only [List.length_map, tableAppendKey_go_shift]

theorem isTable_shift (δ : Nat) (h : Heap) (v : Val) :
    isTable (shiftHeap δ h) (shiftV δ v) = (isTable h v).map (List.map (shiftE δ)) := by
  cases v with
  | obj a =>
    simp only [shiftV_obj, isTable, get_shiftHeap]
    cases h.get a with
    | none => rfl
    | some o => cases o <;> rfl
  | _ => rfl

theorem shiftV_ite (δ : Nat) (c : Prop) [Decidable c] (a b : Val) :
    shiftV δ (if c then a else b) = if c then shiftV δ a else shiftV δ b := by
  split <;> rfl

theorem upvalueSlot_shift (δ : Nat) (h : Heap) (a : Nat) :
    upvalueSlot (shiftHeap δ h) (a + δ) = upvalueSlot h a := by
  unfold upvalueSlot
  rw [get_shiftHeap]
  cases h.get a with
  | none => rfl
  | some o =>
    cases o with
    | upvalue l => cases l <;> rfl
    | _ => rfl

theorem find?_upvalueSlot_shift (δ : Nat) (h : Heap) (l : List Nat) (slot : Nat) :
    (l.map (· + δ)).find? (fun a => upvalueSlot (shiftHeap δ h) a == some slot) =
      (l.find? (fun a => upvalueSlot h a == some slot)).map (· + δ) := by
  rw [List.find?_map]
  congr 2
  funext a
  simp only [Function.comp, upvalueSlot_shift]

/-! ## the value stack -/

section stack
variable (δ : Nat) (st : VStack Val)

theorem set_map_default (l : List Val) (i : Nat) :
    (l.map (shiftV δ)).set i default = (l.set i default).map (shiftV δ) := by
  rw [List.map_set]; rfl

theorem push_shiftStack (v : Val) :
    (shiftStack δ st).push (shiftV δ v) = (shiftStack δ (st.push v).1, (st.push v).2) := by
  unfold VStack.push
  simp only [shiftStack_count, shiftStack_data, List.length_map]
  split
  · simp only [shiftStack, List.map_set]
  · rfl

theorem pop_shiftStack : (shiftStack δ st).pop = (shiftStack δ st.pop.1, shiftV δ st.pop.2) := by
  unfold VStack.pop
  simp only [shiftStack_count, shiftStack_data]
  by_cases h : st.count = 0
  · simp only [h, if_true]; rfl
  · simp only [h, if_false, shiftStack, set_map_default, getD_map_shiftV']

theorem popN_shiftStack (n : Nat) : ((shiftStack δ st).popN n).1 = shiftStack δ (st.popN n).1 := rfl

theorem popWOffset_shiftStack (off : Nat) :
    (shiftStack δ st).popWOffset off = (shiftStack δ (st.popWOffset off).1, shiftV δ (st.popWOffset off).2) := by
  unfold VStack.popWOffset
  simp only [shiftStack_count]
  by_cases h : st.count ≤ off
  · simp only [h, if_true]; rfl
  · simp only [h, if_false]; exact pop_shiftStack δ st

theorem set_shiftStack (i : Nat) (v : Val) :
    (shiftStack δ st).set i (shiftV δ v) =
      (shiftStack δ (st.set i v).1, Except.map (shiftV δ) (st.set i v).2) := by
  unfold VStack.set
  simp only [shiftStack_count, shiftStack_data]
  by_cases h1 : i > st.count
  · simp only [h1, if_true]; rfl
  · simp only [h1, if_false]
    by_cases h2 : i = st.count
    · simp only [h2, if_true]
      rw [push_shiftStack]
      rcases st.push v with ⟨st', (e | u)⟩ <;> rfl
    · simp only [h2, if_false, shiftStack, List.map_set, getD_map_shiftV']
      rfl

theorem get_shiftStack (i : Nat) : (shiftStack δ st).get i = shiftV δ (st.get i) := by
  unfold VStack.get
  simp only [shiftStack_count, shiftStack_data, getD_map_shiftV']
  split <;> rfl

theorem last_shiftStack : (shiftStack δ st).last = shiftV δ st.last := by
  unfold VStack.last
  simp only [shiftStack_count, shiftStack_data, getD_map_shiftV']
  split <;> rfl

theorem peekLast_shiftStack (n : Nat) : (shiftStack δ st).peekLast n = shiftV δ (st.peekLast n) := by
  unfold VStack.peekLast
  simp only [shiftStack_count, shiftStack_data, getD_map_shiftV']
  split <;> rfl

theorem clearUntil_shiftStack (i : Nat) :
    (shiftStack δ st).clearUntil i = (shiftStack δ (st.clearUntil i).1, shiftV δ (st.clearUntil i).2) := by
  unfold VStack.clearUntil
  simp only [last_shiftStack]
  rfl

theorem contents_shiftStack : (shiftStack δ st).contents = st.contents.map (shiftV δ) := by
  unfold VStack.contents
  simp only [shiftStack_count, shiftStack_data, List.map_take]

theorem clear_shiftStack : (shiftStack δ st).clear = shiftStack δ st.clear := by
  unfold VStack.clear
  simp only [shiftStack, set_map_default]

end stack

/-! ## the collector -/

theorem addrs_map_shiftV (δ : Nat) (p : Val → Option Nat)
    (hp : ∀ v, p (shiftV δ v) = (p v).map (· + δ)) (vs : List Val) :
    (vs.map (shiftV δ)).filterMap p = (vs.filterMap p).map (· + δ) := by
  induction vs with
  | nil => rfl
  | cons v vs ih =>
    simp only [List.map_cons, List.filterMap_cons, hp]
    cases p v <;> simp [ih]

theorem markLoop_shift (δ : Nat) (h : Heap) : ∀ (fuel : Nat) (work marked : List Nat),
    markLoop (shiftHeap δ h) fuel (work.map (· + δ)) (marked.map (· + δ)) =
      (markLoop h fuel work marked).map (· + δ) := by
  intro fuel
  induction fuel with
  | zero => intro w m; simp [markLoop]
  | succ f ih =>
    intro w m
    cases w with
    | nil => simp [markLoop]
    | cons a w =>
      simp only [List.map_cons, markLoop, contains_map_add, get_shiftHeap]
      split
      · exact ih w m
      · cases h.get a with
        | none =>
          simp only [Option.map_none, List.nil_append]
          exact ih w (a :: m)
        | some o =>
          simp only [Option.map_some, children_shiftObj]
          rw [addrs_map_shiftV δ _ (by intro v; cases v <;> rfl), ← List.map_append]
          exact ih _ (a :: m)

theorem closures_shift (δ : Nat) (fs : List Frame) :
    (fs.map (shiftFrame δ)).filterMap (·.closure) = (fs.filterMap (·.closure)).map (· + δ) := by
  induction fs with
  | nil => rfl
  | cons f fs ih =>
    simp only [List.map_cons, List.filterMap_cons, shiftFrame_closure]
    cases f.closure <;> simp [ih]

theorem roots_shift (δ : Nat) (s : VmState) : roots (shiftS δ s) = (roots s).map (shiftV δ) := by
  unfold roots
  simp only [shiftS_stack, shiftS_globals, shiftS_frames, shiftS_openUpvalues, shiftS_guards,
    contents_shiftStack, List.map_append, List.map_map, closures_shift]
  rfl

theorem edges_shift (δ : Nat) (l : List (Nat × Obj)) (n : Nat) :
    (l.map (shiftP δ)).foldl (fun n p => n + (Heap.children p.2).length) n =
      l.foldl (fun n p => n + (Heap.children p.2).length) n := by
  induction l generalizing n with
  | nil => rfl
  | cons p l ih => simp only [List.map_cons, List.foldl_cons, shiftP_snd, children_shiftObj, List.length_map, ih]

theorem reachable_shift (δ : Nat) (s : VmState) :
    reachable (shiftS δ s) = (reachable s).map (· + δ) := by
  unfold reachable
  simp only [roots_shift, shiftS_heap, shiftHeap_objs, edges_shift, List.length_map]
  rw [addrs_map_shiftV δ _ (by intro v; cases v <;> rfl), List.length_map]
  exact markLoop_shift δ s.heap _ _ []

theorem charge_shift (δ : Nat) (l : List (Nat × Obj)) (n : Nat) :
    (l.map (shiftP δ)).foldl (fun n p => n + Heap.chargeOf p.2) n =
      l.foldl (fun n p => n + Heap.chargeOf p.2) n := by
  induction l generalizing n with
  | nil => rfl
  | cons p l ih => simp only [List.map_cons, List.foldl_cons, shiftP_snd, chargeOf_shiftObj, ih]

/-- **the collector is equivariant** -/
theorem gc_shiftA (δ : Nat) (s : VmState) : gc (shiftS δ s) = shiftS δ (gc s) := by
  unfold gc
  simp only [List.partition_eq_filter_filter, reachable_shift, shiftS_heap, shiftHeap_objs,
    List.filter_map, charge_shift, shiftS_mem, shiftS_gcRuns]
  have h1 : ((fun p : Nat × Obj => ((reachable s).map (· + δ)).contains p.1) ∘ shiftP δ) =
      (fun p => (reachable s).contains p.1) := by
    funext p; simp only [Function.comp, shiftP_fst, contains_map_add]
  have h2 : ((not ∘ fun p : Nat × Obj => ((reachable s).map (· + δ)).contains p.1) ∘ shiftP δ) =
      (not ∘ fun p => (reachable s).contains p.1) := by
    funext p; simp only [Function.comp, shiftP_fst, contains_map_add]
  rw [h1, h2]
  rfl

/-! ## the relational logic -/

/-- `m₂`, run on the renamed machine, does what `m₁` does on the original one: the final state is
    the renamed final state and the result is mapped by `g` (errors carry no addresses) -/
structure SimA {α : Type} (δ : Nat) (g : α → α) (m₁ m₂ : M α) : Prop where
  sim : ∀ s, m₂.go (shiftS δ s) = (Except.map g (m₁.go s).1, shiftS δ (m₁.go s).2)

/-- the renaming on the state of a `for` loop -/
def stepMap {σ : Type} (g : σ → σ) : ForInStep σ → ForInStep σ
  | .done b => .done (g b)
  | .yield b => .yield (g b)

/-- the renaming on the result of `getTable` -/
def shiftT (δ : Nat) (x : Nat × Nat × List (Val × Val)) : Nat × Nat × List (Val × Val) :=
  (x.1 + δ, x.2.1, x.2.2.map (shiftE δ))

@[simp] theorem shiftT_mk (δ a cap : Nat) (es : List (Val × Val)) :
    shiftT δ (a, cap, es) = (a + δ, cap, es.map (shiftE δ)) := rfl
@[simp] theorem shiftT_fst (δ : Nat) (x : Nat × Nat × List (Val × Val)) : (shiftT δ x).1 = x.1 + δ := rfl
@[simp] theorem shiftT_snd_fst (δ : Nat) (x : Nat × Nat × List (Val × Val)) : (shiftT δ x).2.1 = x.2.1 := rfl
@[simp] theorem shiftT_snd_snd (δ : Nat) (x : Nat × Nat × List (Val × Val)) :
    (shiftT δ x).2.2 = x.2.2.map (shiftE δ) := rfl

section logic
variable {δ : Nat} {α β : Type}

theorem sima_pure (g : α → α) (a : α) : SimA δ g (pure a : M α) (pure (g a)) := ⟨fun _ => rfl⟩
theorem sima_pure_id (a : α) : SimA δ id (pure a : M α) (pure a) := ⟨fun _ => rfl⟩
theorem sima_pure_of {g : α → α} {a b : α} (h : b = g a) : SimA δ g (pure a : M α) (pure b) := by
  subst h; exact sima_pure g a
theorem sima_throwE (g : α → α) (e : ErrKind) : SimA δ g (throwE e : M α) (throwE e) := ⟨fun _ => rfl⟩
theorem sima_throw (g : α → α) (e : ErrKind) : SimA δ g (throw e : M α) (throw e) := ⟨fun _ => rfl⟩
theorem sima_get : SimA δ (shiftS δ) (get : M VmState) get := ⟨fun _ => rfl⟩
theorem sima_set {x₁ x₂ : VmState} (h : x₂ = shiftS δ x₁) : SimA δ id (set x₁ : M PUnit) (set x₂) :=
  ⟨fun _ => by subst h; rfl⟩
theorem sima_modify {f₁ f₂ : VmState → VmState} (h : ∀ s, f₂ (shiftS δ s) = shiftS δ (f₁ s)) :
    SimA δ id (modify f₁ : M PUnit) (modify f₂) :=
  ⟨fun s => by simp only [go_modify, h]; rfl⟩

theorem sima_bind {g : α → α} {g' : β → β} {m₁ m₂ : M α} {f₁ f₂ : α → M β} (hm : SimA δ g m₁ m₂)
    (hf : ∀ a, SimA δ g' (f₁ a) (f₂ (g a))) : SimA δ g' (m₁ >>= f₁) (m₂ >>= f₂) := by
  constructor
  intro s
  rw [go_bind, go_bind, hm.sim s]
  rcases m₁.go s with ⟨r, s'⟩
  cases r with
  | error e => rfl
  | ok a => exact (hf a).sim s'

/-- `let s ← get; …`: the right continuation receives the renamed state -/
theorem sima_get_bind {g' : β → β} {f₁ f₂ : VmState → M β} (hf : ∀ s, SimA δ g' (f₁ s) (f₂ (shiftS δ s))) :
    SimA δ g' (get >>= f₁) (get >>= f₂) := sima_bind sima_get hf

theorem sima_ite {g : α → α} {c : Prop} {i₁ i₂ : Decidable c} {a₁ a₂ b₁ b₂ : M α} (ha : SimA δ g a₁ a₂)
    (hb : SimA δ g b₁ b₂) : SimA δ g (@ite _ c i₁ a₁ b₁) (@ite _ c i₂ a₂ b₂) := by
  by_cases h : c
  · rw [if_pos h, if_pos h]; exact ha
  · rw [if_neg h, if_neg h]; exact hb

theorem sima_ite' {g : α → α} {c₁ c₂ : Prop} {i₁ : Decidable c₁} {i₂ : Decidable c₂} {a₁ a₂ b₁ b₂ : M α}
    (hc : c₁ ↔ c₂) (ha : SimA δ g a₁ a₂) (hb : SimA δ g b₁ b₂) :
    SimA δ g (@ite _ c₁ i₁ a₁ b₁) (@ite _ c₂ i₂ a₂ b₂) := by
  by_cases h : c₁
  · rw [if_pos h, if_pos (hc.1 h)]; exact ha
  · rw [if_neg h, if_neg (fun h' => h (hc.2 h'))]; exact hb

theorem sima_forIn {γ σ : Type} (gx : γ → γ) (gσ : σ → σ) (l : List γ) (init : σ)
    (f₁ f₂ : γ → σ → M (ForInStep σ))
    (hf : ∀ x b, SimA δ (stepMap gσ) (f₁ x b) (f₂ (gx x) (gσ b))) :
    SimA δ gσ (forIn l init f₁) (forIn (l.map gx) (gσ init) f₂) := by
  induction l generalizing init with
  | nil => rw [List.map_nil, List.forIn_nil, List.forIn_nil]; exact sima_pure _ _
  | cons x xs ih =>
    rw [List.map_cons, List.forIn_cons, List.forIn_cons]
    refine sima_bind (hf x init) (fun r => ?_)
    cases r with
    | done b => exact sima_pure _ _
    | yield b => exact ih b

theorem sima_forIn_id {γ σ : Type} (gx : γ → γ) (l : List γ) (init : σ)
    (f₁ f₂ : γ → σ → M (ForInStep σ)) (hf : ∀ x b, SimA δ id (f₁ x b) (f₂ (gx x) b)) :
    SimA δ id (forIn l init f₁) (forIn (l.map gx) init f₂) :=
  sima_forIn gx id l init f₁ f₂ (fun x b => by
    have h := hf x b
    have e : (id : ForInStep σ → ForInStep σ) = stepMap id := funext (fun r => by cases r <;> rfl)
    rw [e] at h
    exact h)

/-- type-directed renaming of the state of a `for` loop (counters are left alone, values are renamed) -/
class ShiftState (σ : Type) where
  sh : Nat → σ → σ

instance : ShiftState Nat := ⟨fun _ n => n⟩
instance : ShiftState PUnit := ⟨fun _ u => u⟩
instance : ShiftState Val := ⟨shiftV⟩
instance {α β : Type} [ShiftState α] [ShiftState β] : ShiftState (α × β) :=
  ⟨fun δ p => (ShiftState.sh δ p.1, ShiftState.sh δ p.2)⟩
instance {α β : Type} [ShiftState α] [ShiftState β] : ShiftState (MProd α β) :=
  ⟨fun δ p => ⟨ShiftState.sh δ p.1, ShiftState.sh δ p.2⟩⟩
instance {α : Type} [ShiftState α] : ShiftState (List α) := ⟨fun δ l => l.map (ShiftState.sh δ)⟩

@[simp] theorem sh_nat (d n : Nat) : ShiftState.sh d n = n := rfl
@[simp] theorem sh_punit (d : Nat) (u : PUnit) : ShiftState.sh d u = u := rfl
@[simp] theorem sh_val (d : Nat) (v : Val) : ShiftState.sh d v = shiftV d v := rfl
@[simp] theorem sh_prod {α β : Type} [ShiftState α] [ShiftState β] (d : Nat) (a : α) (b : β) :
    ShiftState.sh d (a, b) = (ShiftState.sh d a, ShiftState.sh d b) := rfl
@[simp] theorem sh_prod_fst {α β : Type} [ShiftState α] [ShiftState β] (d : Nat) (p : α × β) :
    (ShiftState.sh d p).1 = ShiftState.sh d p.1 := rfl
@[simp] theorem sh_prod_snd {α β : Type} [ShiftState α] [ShiftState β] (d : Nat) (p : α × β) :
    (ShiftState.sh d p).2 = ShiftState.sh d p.2 := rfl
@[simp] theorem sh_mprod {α β : Type} [ShiftState α] [ShiftState β] (d : Nat) (a : α) (b : β) :
    ShiftState.sh d (⟨a, b⟩ : MProd α β) = ⟨ShiftState.sh d a, ShiftState.sh d b⟩ := rfl
@[simp] theorem sh_mprod_fst {α β : Type} [ShiftState α] [ShiftState β] (d : Nat) (p : MProd α β) :
    (ShiftState.sh d p).1 = ShiftState.sh d p.1 := rfl
@[simp] theorem sh_mprod_snd {α β : Type} [ShiftState α] [ShiftState β] (d : Nat) (p : MProd α β) :
    (ShiftState.sh d p).2 = ShiftState.sh d p.2 := rfl
@[simp] theorem sh_list {α : Type} [ShiftState α] (d : Nat) (l : List α) :
    ShiftState.sh d l = l.map (ShiftState.sh d) := rfl

/-- `for` loops whose state is renamed according to its type -/
theorem sima_forIn_sh {γ σ : Type} [ShiftState σ] (gx : γ → γ) (l : List γ) (init init' : σ)
    (f₁ f₂ : γ → σ → M (ForInStep σ)) (hi : init' = ShiftState.sh δ init)
    (hf : ∀ x b, SimA δ (stepMap (ShiftState.sh δ)) (f₁ x b) (f₂ (gx x) (ShiftState.sh δ b))) :
    SimA δ (ShiftState.sh δ) (forIn l init f₁) (forIn (l.map gx) init' f₂) := by
  subst hi
  exact sima_forIn gx (ShiftState.sh δ) l init f₁ f₂ hf

/-- a loop over a sorted list whose comparator does not look at addresses -/
theorem sima_forIn_mergeSort {γ σ : Type} [ShiftState σ] (gx : γ → γ) (l : List γ) (c₁ c₂ : γ → γ → Bool)
    (init init' : σ) (f₁ f₂ : γ → σ → M (ForInStep σ)) (hc : ∀ a b, c₁ a b = c₂ (gx a) (gx b))
    (hi : init' = ShiftState.sh δ init)
    (hf : ∀ x b, SimA δ (stepMap (ShiftState.sh δ)) (f₁ x b) (f₂ (gx x) (ShiftState.sh δ b))) :
    SimA δ (ShiftState.sh δ) (forIn (l.mergeSort c₁) init f₁) (forIn ((l.map gx).mergeSort c₂) init' f₂) := by
  rw [← List.map_mergeSort (fun a _ b _ => hc a b)]
  exact sima_forIn_sh gx _ init init' f₁ f₂ hi hf

@[simp] theorem stepMap_yield {σ : Type} (g : σ → σ) (b : σ) : stepMap g (.yield b) = .yield (g b) := rfl
@[simp] theorem stepMap_done {σ : Type} (g : σ → σ) (b : σ) : stepMap g (.done b) = .done (g b) := rfl

theorem sima_tryCatch {g : α → α} {m₁ m₂ : M α} {h₁ h₂ : ErrKind → M α} (hm : SimA δ g m₁ m₂)
    (hh : ∀ e, SimA δ g (h₁ e) (h₂ e)) : SimA δ g (tryCatch m₁ h₁) (tryCatch m₂ h₂) := by
  constructor
  intro s
  rw [go_tryCatch, go_tryCatch, hm.sim s]
  rcases m₁.go s with ⟨r, s'⟩
  cases r with
  | ok a => rfl
  | error e => exact (hh e).sim s'

theorem sima_orElse {g : α → α} {m₁ m₂ : M α} {h₁ h₂ : Unit → M α} (hm : SimA δ g m₁ m₂)
    (hh : SimA δ g (h₁ ()) (h₂ ())) : SimA δ g (HOrElse.hOrElse m₁ h₁) (HOrElse.hOrElse m₂ h₂) :=
  sima_tryCatch (h₁ := fun _ => h₁ ()) (h₂ := fun _ => h₂ ()) hm (fun _ => hh)

theorem liftRun_go (f : VmState → VmState × Except RunErr (Option Val)) (s : VmState) :
    (liftRun f).go s = match f s with
      | (s', .ok (some v)) => (.ok v, s')
      | (s', .ok none) => (.ok .nil, s')
      | (s', .error e) => (.error e.kind, s') := rfl

/-- a nested run of the interpreter, seen as a computation -/
theorem sima_liftRun {r₁ r₂ : VmState → VmState × Except RunErr (Option Val)}
    (h : ∀ s, r₂ (shiftS δ s) = (shiftS δ (r₁ s).1, mapRes δ (r₁ s).2)) :
    SimA δ (shiftV δ) (liftRun r₁) (liftRun r₂) := by
  constructor
  intro s
  rw [liftRun_go, liftRun_go, h s]
  rcases r₁ s with ⟨s', (e | (_ | v))⟩ <;> rfl

/-- two result maps that agree everywhere are interchangeable -/
theorem SimA.congr_map {g g' : α → α} {m₁ m₂ : M α} (h : SimA δ g m₁ m₂) (hg : ∀ a, g a = g' a) :
    SimA δ g' m₁ m₂ := by
  have : g = g' := funext hg
  subst this; exact h

end logic

/-! ## automation -/

open Lean Elab Tactic Meta in
/-- like `sim_head`, for `SimA` goals: weak head normal form of both computations -/
def simaHeadCore : TacticM Unit := withMainContext do
  let g ← getMainGoal
  let t ← instantiateMVars (← g.getType)
  let fn := t.getAppFn
  let args := t.getAppArgs
  unless fn.isConstOf ``SimA && args.size == 5 do
    throwError "sima_head: not a SimA goal"
  let m₁ := args[3]!
  let m₂ := args[4]!
  let m₁' ← whnfCore m₁
  let m₂' ← whnfCore m₂
  if m₁' == m₁ && m₂' == m₂ then throwError "sima_head: no progress"
  replaceMainGoal [← g.change (mkAppN fn ((args.set! 3 m₁').set! 4 m₂'))]

elab "sima_head" : tactic => simaHeadCore

open Lean Elab Tactic Meta in
/-- the major premise that keeps a stuck `match` / `casesOn` / recursor application from reducing -/
partial def simaStuck (e : Expr) : MetaM (Option Expr) := do
  let e ← whnfCore e
  let fn := e.getAppFn
  let args := e.getAppArgs
  match fn with
  | .const n lvls =>
    if (← getMatcherInfo? n).isSome then
      let ci ← getConstInfo n
      let v ← instantiateValueLevelParams ci lvls
      simaStuck (v.beta args)
    else
      match (← getEnv).find? n with
      | some (.recInfo rv) =>
        let idx := rv.getMajorIdx
        if h : idx < args.size then
          let major ← whnfCore args[idx]
          match ← simaStuck major with
          | some b => return some b
          | none => return some major
        else return none
      | _ =>
        let sparse := match n with
          | .str _ x => x.startsWith "_sparseCasesOn"
          | _ => false
        if sparse || (← isAuxDef n) then
          let ci ← getConstInfo n
          unless ci.hasValue do return none
          let v ← instantiateValueLevelParams ci lvls
          simaStuck (v.beta args)
        else return none
  | _ => return none

open Lean Elab Tactic Meta in
/-- strip projections: `x.2.1 ↦ x` -/
partial def simaBase (e : Expr) : MetaM Expr := do
  match e with
  | .proj _ _ b => simaBase b
  | .mdata _ b => simaBase b
  | _ =>
    if let .const n _ := e.getAppFn then
      if let some info ← getProjectionFnInfo? n then
        if e.getAppNumArgs == info.numParams + 1 then
          return ← simaBase e.appArg!
    return e

open Lean Elab Tactic Meta in
/-- the left computation is a stuck `match`: case split on what blocks it (after generalising it
    everywhere in the goal when it is not a variable) -/
def simaSplitCore : TacticM Unit := withMainContext do
  let g ← getMainGoal
  let t ← instantiateMVars (← g.getType)
  let fn := t.getAppFn
  let args := t.getAppArgs
  unless fn.isConstOf ``SimA && args.size == 5 do
    throwError "sima_split: not a SimA goal"
  let m₁ := args[3]!
  let .const n _ := m₁.getAppFn | throwError "sima_split: the head is not a `match`"
  let some _ ← getMatcherInfo? n | throwError "sima_split: the head is not a `match`"
  let some b ← withReducible (simaStuck m₁) | throwError "sima_split: nothing to split"
  let b ← simaBase b
  if b.isFVar then
    let subgoals ← g.cases b.fvarId!
    replaceMainGoal (subgoals.toList.map (·.mvarId))
  else
    let (xs, g') ← g.generalize #[{ expr := b }]
    let subgoals ← g'.cases xs[0]!
    replaceMainGoal (subgoals.toList.map (·.mvarId))

elab "sima_split" : tactic => simaSplitCore

open Lean Elab Tactic Meta in
/-- succeeds iff the result map of the `SimA` goal is known -/
elab "sima_gknown" : tactic => withMainContext do
  let g ← getMainGoal
  let t ← instantiateMVars (← g.getType)
  let args := t.getAppArgs
  unless t.getAppFn.isConstOf ``SimA && args.size == 5 do
    throwError "sima_gknown: not a SimA goal"
  if args[2]!.hasExprMVar then throwError "sima_gknown: the result map is not known yet"

open Lean Elab Tactic Meta in
/-- `intro` on goals `∀ a, SimA …` only -/
elab "sima_intro" : tactic => withMainContext do
  let g ← getMainGoal
  let t ← instantiateMVars (← g.getType)
  unless t.isForall && t.bindingBody!.getAppFn.isConstOf ``SimA do
    throwError "sima_intro: not a goal `∀ a, SimA …`"
  let (_, g') ← g.intro1
  replaceMainGoal [g']

open Lean Elab Tactic Meta in
/-- succeeds iff the left computation of the `SimA` goal is an application of the given constant -/
elab "sima_headis " n:ident : tactic => withMainContext do
  let g ← getMainGoal
  let t ← instantiateMVars (← g.getType)
  let args := t.getAppArgs
  unless t.getAppFn.isConstOf ``SimA && args.size == 5 do
    throwError "sima_headis: not a SimA goal"
  let nm ← resolveGlobalConstNoOverload n
  unless args[3]!.getAppFn.isConstOf nm do throwError "sima_headis: different head"

/-- closes goals `SimA δ _ prim prim'` for the primitives; extended by `macro_rules` below -/
syntax "sima_prim" : tactic

/-- rewrite the renaming inwards -/
macro "sima_norm" : tactic => `(tactic| (
  try dsimp only [id, sh_nat, sh_punit, sh_val, sh_prod, sh_prod_fst, sh_prod_snd, sh_mprod, sh_mprod_fst,
    sh_mprod_snd, sh_list, stepMap_yield, stepMap_done, shiftV_nil, shiftV_int, shiftV_real, shiftV_obj,
    shiftV_default, shiftV_boolVal, shiftE_mk, shiftE_fst, shiftE_snd, shiftLoc_stack, shiftLoc_closed,
    shiftObj_table, shiftObj_str, shiftObj_fn, shiftObj_native, shiftObj_closure, shiftObj_upvalue,
    shiftT_mk, shiftT_fst, shiftT_snd_fst, shiftT_snd_snd, shiftHeap_next, shiftFrame_src, shiftFrame_dst,
    shiftFrame_stackOffset, shiftFrame_closure,
    shiftStack_count, shiftS_stack, shiftS_frames, shiftS_frameCap, shiftS_globals, shiftS_heap,
    shiftS_mem, shiftS_guards, shiftS_openUpvalues, shiftS_remaining, shiftS_hostLog, shiftS_dispatches,
    shiftS_gcRuns, shiftS_sched, shiftS_allocIndex, shiftS_forcedGcs]
  try simp only [id, sh_nat, sh_punit, sh_val, sh_prod, sh_prod_fst, sh_prod_snd, sh_mprod, sh_mprod_fst,
    sh_mprod_snd, sh_list, stepMap_yield, stepMap_done, shiftV_nil, shiftV_int, shiftV_real, shiftV_obj,
    shiftV_default, shiftV_boolVal, shiftE_mk, shiftE_fst, shiftE_snd, shiftLoc_stack, shiftLoc_closed,
    shiftObj_table, shiftObj_str, shiftObj_fn, shiftObj_native, shiftObj_closure, shiftObj_upvalue,
    shiftT_mk, shiftT_fst, shiftT_snd_fst, shiftT_snd_snd, shiftHeap_next, shiftFrame_src, shiftFrame_dst,
    shiftFrame_stackOffset, shiftFrame_closure,
    shiftStack_count, shiftS_stack, shiftS_frames, shiftS_frameCap, shiftS_globals, shiftS_heap,
    shiftS_mem, shiftS_guards, shiftS_openUpvalues, shiftS_remaining, shiftS_hostLog, shiftS_dispatches,
    shiftS_gcRuns, shiftS_sched, shiftS_allocIndex, shiftS_forcedGcs, gc_shiftA,
    get_shiftHeap, ownD_shiftA, toI64_shift, findEntry_shift, tableAppendKey_shift, isTable_shift,
    upvalueSlot_shift, push_shiftStack, pop_shiftStack, popWOffset_shiftStack, set_shiftStack,
    get_shiftStack, last_shiftStack, peekLast_shiftStack, clearUntil_shiftStack, shiftStack_data,
    getD_map_shiftV, getD_map_shiftV', getD_map_shiftE, getD_cons_map_shiftE, erase_map_add, set_map_shiftV, set_shiftHeap_upv,
    find?_upvalueSlot_shift,
    set_shiftHeap_table, set_shiftHeap_closure,
    Option.map_some, Option.map_none, Option.isSome_map, List.map_cons, List.map_nil, List.length_map,
    List.isEmpty_map, List.getLast?_map, List.getElem?_map]))

/-- the side goals of `set` / `modify` -/
macro "sima_side" : tactic => `(tactic| first
  | rfl
  | (sima_norm; rfl)
  | (simp only [← List.map_dropLast]; rfl))

/-- the side goals `v' = shiftV δ v` of the `_of` forms of the primitives -/
macro "sima_vside" : tactic => `(tactic| first
  | rfl
  | (simp only [shiftV_ite, shiftE_fst, shiftE_snd, shiftV_nil]; done)
  | (repeat' (first | rfl | split); done))

/-- the side goals `o' = shiftObj δ o` -/
macro "sima_oside" : tactic => `(tactic| first
  | rfl
  | (simp only [shiftObj_table, shiftObj_closure, shiftObj_upvalue, shiftLoc_closed, List.map_dropLast,
      List.map_append, List.map_cons, List.map_nil, shiftE_mk]; done))

macro "sima_step" : tactic => `(tactic| first
  | with_reducible assumption
  | with_reducible exact sima_pure_id _
  | with_reducible exact sima_pure _ _
  | with_reducible exact sima_throwE _ _
  | with_reducible exact sima_throw _ _
  | (sima_gknown; (with_reducible apply sima_pure_of); sima_side)
  | with_reducible exact sima_throwE id _
  | with_reducible exact sima_throw id _
  | with_reducible exact (‹∀ f : Val, SimA _ _ ((_ : Val → M Val) f) ((_ : Val → M Val) (shiftV _ f))›) _
  | sima_prim
  | ((with_reducible apply sima_set); sima_side)
  | ((with_reducible apply sima_modify); intro _; sima_side)
  | ((with_reducible apply sima_get_bind); intro _; sima_norm)
  | with_reducible apply sima_bind
  | with_reducible apply sima_tryCatch
  | with_reducible apply sima_orElse
  | ((with_reducible apply sima_forIn_sh); (rfl); intro _ _; sima_norm)
  | (sima_intro; sima_norm)
  | with_reducible apply sima_ite
  | (sima_headis ite; apply sima_ite)
  | sima_head
  | (sima_split <;> sima_norm))

macro "sima_auto" : tactic => `(tactic| repeat' sima_step)

/-! ## the primitives -/

section prims
variable {δ : Nat}

theorem sima_push (v : Val) : SimA δ id (push v) (push (shiftV δ v)) := by
  unfold push; sima_auto
theorem sima_pop : SimA δ (shiftV δ) pop pop := by unfold pop; sima_auto
theorem sima_peek (n : Nat) : SimA δ (shiftV δ) (peek n) (peek n) := by unfold peek; sima_auto
theorem sima_popN (n : Nat) : SimA δ id (popN n) (popN n) := by unfold popN; sima_auto
theorem sima_curFrame : SimA δ (shiftFrame δ) curFrame curFrame := by unfold curFrame; sima_auto
theorem sima_writeLocal (a b : Nat) (v : Val) : SimA δ id (writeLocal a b v) (writeLocal a b (shiftV δ v)) := by
  unfold writeLocal; sima_auto
theorem sima_readLocal (a b : Nat) : SimA δ (shiftV δ) (readLocal a b) (readLocal a b) := by
  unfold readLocal; sima_auto
theorem sima_keyOf (v : Val) : SimA δ id (keyOf v) (keyOf (shiftV δ v)) := by unfold keyOf; sima_auto
theorem sima_getTable (v : Val) : SimA δ (shiftT δ) (getTable v) (getTable (shiftV δ v)) := by
  unfold getTable; sima_auto
theorem sima_tableGet (es : List (Val × Val)) (k : Val) :
    SimA δ (shiftV δ) (tableGet es k) (tableGet (es.map (shiftE δ)) (shiftV δ k)) := by
  unfold tableGet; sima_auto
  apply sima_pure_of
  cases findEntry _ es _ <;> rfl
theorem sima_deallocBytes (c : Nat) : SimA δ id (deallocBytes c) (deallocBytes c) := by
  unfold deallocBytes; sima_auto
theorem sima_newObject (o : Obj) : SimA δ (· + δ) (newObject o) (newObject (shiftObj δ o)) := by
  unfold newObject
  refine sima_get_bind (fun s => sima_bind (g := id) (sima_set ?_) (fun _ => sima_pure _ _))
  simp only [shiftS, shiftHeap, List.map_append, List.map_cons, List.map_nil, shiftP_mk, Nat.add_right_comm]
theorem sima_dropGuard (a : Nat) : SimA δ id (dropGuard a) (dropGuard (a + δ)) := by
  unfold dropGuard; sima_auto
theorem sima_readUpvalueLoc (a : Nat) : SimA δ (shiftV δ) (readUpvalueLoc a) (readUpvalueLoc (a + δ)) := by
  unfold readUpvalueLoc; sima_auto
theorem sima_writeUpvalueLoc (a : Nat) (v : Val) :
    SimA δ id (writeUpvalueLoc a v) (writeUpvalueLoc (a + δ) (shiftV δ v)) := by
  unfold writeUpvalueLoc; sima_auto
theorem sima_guardVal (v : Val) : SimA δ id (guardVal v) (guardVal (shiftV δ v)) := by
  unfold guardVal; sima_auto
theorem sima_unguardVal (v : Val) : SimA δ id (unguardVal v) (unguardVal (shiftV δ v)) := by
  cases v
  case obj a => exact sima_dropGuard a
  all_goals exact sima_pure_id _
theorem sima_allocBytes (c : Nat) : SimA δ id (allocBytes c) (allocBytes c) := by
  unfold allocBytes
  sima_auto

macro_rules | `(tactic| sima_prim) => `(tactic| first
  | (sima_headis push; exact sima_push _) | (sima_headis pop; exact sima_pop)
  | (sima_headis peek; exact sima_peek _) | (sima_headis popN; exact sima_popN _)
  | (sima_headis curFrame; exact sima_curFrame)
  | (sima_headis writeLocal; exact sima_writeLocal _ _ _) | (sima_headis readLocal; exact sima_readLocal _ _)
  | (sima_headis keyOf; exact sima_keyOf _) | (sima_headis getTable; exact sima_getTable _)
  | (sima_headis tableGet; exact sima_tableGet _ _) | (sima_headis deallocBytes; exact sima_deallocBytes _)
  | (sima_headis newObject; exact sima_newObject _) | (sima_headis dropGuard; exact sima_dropGuard _)
  | (sima_headis readUpvalueLoc; exact sima_readUpvalueLoc _)
  | (sima_headis writeUpvalueLoc; exact sima_writeUpvalueLoc _ _)
  | (sima_headis guardVal; exact sima_guardVal _)
  | (sima_headis unguardVal; exact sima_unguardVal _) | (sima_headis allocBytes; exact sima_allocBytes _))

theorem sima_guardRows (es : List (Val × Val)) :
    SimA δ id (guardRows es) (guardRows (es.map (shiftE δ))) := by
  unfold guardRows; sima_auto
theorem sima_unguardRows (es : List (Val × Val)) :
    SimA δ id (unguardRows es) (unguardRows (es.map (shiftE δ))) := by
  unfold unguardRows; sima_auto
theorem sima_guardRows_of {es es' : List (Val × Val)} (h : es' = es.map (shiftE δ)) :
    SimA δ id (guardRows es) (guardRows es') := by
  subst h; exact sima_guardRows es
theorem sima_unguardRows_of {es es' : List (Val × Val)} (h : es' = es.map (shiftE δ)) :
    SimA δ id (unguardRows es) (unguardRows es') := by
  subst h; exact sima_unguardRows es

macro_rules | `(tactic| sima_prim) => `(tactic| first
  | (sima_headis guardRows; apply sima_guardRows_of; first | rfl | (simp only [List.map_cons, shiftE_mk]; done))
  | (sima_headis unguardRows; apply sima_unguardRows_of; first | rfl | (simp only [List.map_cons, shiftE_mk]; done)))

theorem sima_initTable : SimA δ (· + δ) initTable initTable := by
  unfold initTable; sima_auto
theorem sima_initString (b : List UInt8) : SimA δ (· + δ) (initString b) (initString b) := by
  unfold initString; sima_auto
theorem sima_initSimple (o : Obj) : SimA δ (· + δ) (initSimple o) (initSimple (shiftObj δ o)) := by
  unfold initSimple; sima_auto

theorem shiftS_setHeap (s : VmState) (a : Nat) (o o' : Obj) (h : o' = shiftObj δ o) :
    { shiftS δ s with heap := (shiftS δ s).heap.set (a + δ) o' } =
      shiftS δ { s with heap := s.heap.set a o } := by
  subst h
  simp only [shiftS, set_shiftHeap]

theorem sima_setHeap (a : Nat) (o o' : Obj) (h : o' = shiftObj δ o) :
    SimA δ id (modify fun s => { s with heap := s.heap.set a o })
      (modify fun s => { s with heap := s.heap.set (a + δ) o' }) :=
  sima_modify (fun s => shiftS_setHeap s a o o' h)

theorem sima_tableInsert (a : Nat) (k v : Val) :
    SimA δ id (tableInsert a k v) (tableInsert (a + δ) (shiftV δ k) (shiftV δ v)) := by
  unfold tableInsert
  sima_auto
  · apply sima_setHeap
    simp only [shiftObj_table, List.map_map]
    congr 1
    apply List.map_congr_left
    intro e _
    simp only [Function.comp, shiftE_fst, ownD_shiftA]
    split <;> rfl
  · apply sima_setHeap
    simp only [shiftObj_table, List.map_append, List.map_cons, List.map_nil, shiftE_mk]
  · apply sima_setHeap
    simp only [shiftObj_table, List.map_append, List.map_cons, List.map_nil, shiftE_mk]

theorem setGlobal_shift (i : Nat) (v : Val) (g : List Val) :
    (if (g.map (shiftV δ)).length ≤ i then
        g.map (shiftV δ) ++ List.replicate (i + 1 - (g.map (shiftV δ)).length) .nil
      else g.map (shiftV δ)).set i (shiftV δ v) =
      ((if g.length ≤ i then g ++ List.replicate (i + 1 - g.length) .nil else g).set i v).map (shiftV δ) := by
  simp only [List.length_map]
  split <;> simp [List.map_set, List.map_append, List.map_replicate]

theorem sima_setGlobal (i : Nat) (v : Val) :
    SimA δ id
      (modify fun s =>
        let g := if s.globals.length ≤ i then s.globals ++ List.replicate (i + 1 - s.globals.length) .nil else s.globals
        { s with globals := g.set i v })
      (modify fun s =>
        let g := if s.globals.length ≤ i then s.globals ++ List.replicate (i + 1 - s.globals.length) .nil else s.globals
        { s with globals := g.set i (shiftV δ v) }) := by
  apply sima_modify
  intro s
  show ({ shiftS δ s with globals :=
    (if (s.globals.map (shiftV δ)).length ≤ i then
        s.globals.map (shiftV δ) ++ List.replicate (i + 1 - (s.globals.map (shiftV δ)).length) .nil
      else s.globals.map (shiftV δ)).set i (shiftV δ v) } : VmState) = _
  rw [setGlobal_shift]
  rfl

theorem sima_push_of {v v' : Val} (h : v' = shiftV δ v) : SimA δ id (push v) (push v') := by
  subst h; exact sima_push v
theorem sima_writeLocal_of {a b : Nat} {v v' : Val} (h : v' = shiftV δ v) :
    SimA δ id (writeLocal a b v) (writeLocal a b v') := by
  subst h; exact sima_writeLocal a b v
theorem sima_tableInsert_of {a : Nat} {k k' v v' : Val} (hk : k' = shiftV δ k) (hv : v' = shiftV δ v) :
    SimA δ id (tableInsert a k v) (tableInsert (a + δ) k' v') := by
  subst hk; subst hv; exact sima_tableInsert a k v

end prims


section prims2
variable {δ : Nat}

theorem closeUpvalues_go_shiftA (top : Nat) (s : VmState) : ∀ (l : List Nat) (h : Heap),
    closeUpvalues.go top (shiftS δ s) (l.map (· + δ)) (shiftHeap δ h) =
      ((closeUpvalues.go top s l h).1.map (· + δ), shiftHeap δ (closeUpvalues.go top s l h).2) := by
  intro l
  induction l with
  | nil => intro h; rfl
  | cons a rest ih =>
    intro h
    simp only [List.map_cons]
    unfold closeUpvalues.go
    simp only [upvalueSlot_shift]
    cases upvalueSlot h a with
    | none => rfl
    | some i =>
      simp only
      by_cases hi : i < top
      · simp only [hi, if_true, List.map_cons]
      · simp only [hi, if_false, shiftS_stack, shiftStack_data, getD_map_shiftV, set_shiftHeap_upv]
        exact ih _

theorem sima_closeUpvalues (t : Nat) : SimA δ id (closeUpvalues t) (closeUpvalues t) := by
  unfold closeUpvalues
  refine sima_get_bind (fun s => ?_)
  simp only [shiftS_openUpvalues, shiftS_heap, closeUpvalues_go_shiftA]
  exact sima_set rfl

theorem sima_nativeConv (name : String) : SimA δ id (nativeConv name) (nativeConv name) := by
  unfold nativeConv; split <;> sima_auto

theorem sima_callScript (p : Prog) (src ip : Nat) (l : UInt32) (ar : Nat) (c : Option Nat) :
    SimA δ id (step.callScript p src ip l ar c) (step.callScript p src ip l ar (c.map (· + δ))) := by
  unfold step.callScript
  sima_auto
  all_goals (
    apply sima_set
    simp only [shiftS, List.map_append, List.map_dropLast, List.map_cons, List.map_nil, shiftFrame_mk]
    generalize List.getLast? _ = x
    cases x <;> rfl)

macro_rules | `(tactic| sima_prim) => `(tactic| first
  | (sima_headis initTable; exact sima_initTable) | (sima_headis initString; exact sima_initString _)
  | (sima_headis initSimple; exact sima_initSimple _) | (sima_headis tableInsert; exact sima_tableInsert _ _ _)
  | (sima_headis closeUpvalues; exact sima_closeUpvalues _) | (sima_headis nativeConv; exact sima_nativeConv _)
  | (sima_headis step.callScript; exact sima_callScript _ _ _ _ _ _)
  | (sima_headis push; apply sima_push_of; sima_vside)
  | (sima_headis writeLocal; apply sima_writeLocal_of; sima_vside)
  | (sima_headis tableInsert; apply sima_tableInsert_of <;> sima_vside)
  | (sima_headis modify; apply sima_setHeap; sima_oside)
  | (sima_headis modify; exact sima_setGlobal _ _))

end prims2

/-! ## what remains: natives, `callNative`, `step` (stated here, proved in the next files) -/

/-- the re-entry callbacks of the two runs correspond -/
def ReSimA (δ : Nat) (re₁ re₂ : Reenter) : Prop := ∀ f, SimA δ (shiftV δ) (re₁ f) (re₂ (shiftV δ f))

/-- one instruction commutes with the renaming (as soon as the callback does) -/
def StepSimA (p : Prog) (δ : Nat) : Prop :=
  ∀ re₁ re₂ : Reenter, ReSimA δ re₁ re₂ → ∀ src, SimA δ id (step p re₁ src) (step p re₂ src)

/-- a native call commutes with the renaming (as soon as the callback does) -/
def CallNativeSimA (δ : Nat) : Prop :=
  ∀ re₁ re₂ : Reenter, ReSimA δ re₁ re₂ → ∀ h, SimA δ id (callNative re₁ h) (callNative re₂ h)

/-- the body of every registered host function commutes with the renaming -/
def NatSimA (δ : Nat) : Prop :=
  ∀ re₁ re₂ : Reenter, ReSimA δ re₁ re₂ → ∀ name,
    SimA δ (shiftV δ) (callNativeBody re₁ name) (callNativeBody re₂ name)

/-- `call_native` is equivariant as soon as the host functions are -/
theorem callNativeSimA_of_nat {δ : Nat} (hnat : NatSimA δ) : CallNativeSimA δ := by
  intro re₁ re₂ hre h
  unfold callNative
  split
  · exact sima_throwE _ _
  · next name _ =>
    have hb := hnat re₁ re₂ hre name
    sima_auto

--INSERT--
end Cao.Vm
