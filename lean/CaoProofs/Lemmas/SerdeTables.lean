import CaoProofs.Props.C12
import CaoProofs.Props.C13
/-!
# Serialization of the two open-addressing tables (`handle_table/serde_impl.rs`,
# `hash_map/serde_impl.rs`)

Both `Serialize` impls emit the map of `(key, value)` entries in iteration order (`toList`), both
`Visitor::visit_map` impls do

```
let mut cap = map.size_hint().unwrap_or(128);
if !cap.is_power_of_two() { cap = cap.next_power_of_two(); }
let mut res = with_capacity(cap).expect("oom");
while let Some((k, v)) = map.next_entry()? { res.insert(k, v).expect("oom"); }
```

The text/binary formats are trusted: what a format hands to `visit_map` is the entry sequence that
was written, plus a size hint that depends on the format (`Some(len)` for bincode/CBOR, `None` for
JSON/YAML). The functions below take the requested capacity as a parameter, and the theorems hold
for *every* requested capacity.

`expect("oom")`: a refused allocation is reported as `allocErr` here (a panic in the Rust, where
the allocator is the system allocator), an `insert` that rejects the key (the null handle) as
`panic`.
-/
namespace Cao.Serde
open Cao

/-- the capacity `visit_map` asks for, from the size hint of the format -/
def hintCap (hint : Option Nat) : Nat := (hint.getD 128).nextPowerOfTwo

/-! ## allocation oracles without a failure -/

theorem next_noFail {al : Alloc} (h : al.failAt = none) :
    al.next.1 = true ∧ al.next.2.failAt = none := by
  simp [Alloc.next, h]

theorem next_failAt (al : Alloc) : al.next.2.failAt = al.failAt := rfl

theorem allocStorage_noFail {al : Alloc} (h : al.failAt = none) :
    (HTable.allocStorage al).1 = true ∧ (HTable.allocStorage al).2.failAt = none := by
  simp [HTable.allocStorage, Alloc.next, h]

theorem allocStorage_failAt (al : Alloc) : (HTable.allocStorage al).2.failAt = al.failAt := by
  by_cases h : al.failAt = some al.n <;> simp [HTable.allocStorage, Alloc.next, h]

/-! ## `HandleTable` -/
section HT
variable {V : Type}

/-- `Serialize for HandleTable`: the entries in iteration order -/
def htSerialize (t : HTable V) : List (UInt32 × V) := t.toList

/-- one `res.insert(k, v).expect("oom")` -/
def htDeStep (acc : Alloc × Res (HTable V)) (kv : UInt32 × V) : Alloc × Res (HTable V) :=
  match acc with
  | (al, .ok c) =>
    match c.insert kv.1 kv.2 al with
    | (c', al, .ok (.ok _)) => (al, .ok c')
    | (_, al, .ok (.error .alloc)) => (al, .allocErr)
    | (_, al, .ok (.error .invalidHandle)) => (al, .panic "insert: invalid handle")
    | (_, al, .allocErr) => (al, .allocErr)
    | (_, al, .panic w) => (al, .panic w)
  | other => other

/-- `Visitor::visit_map` with requested capacity `c` -/
def htDeserialize (c : Nat) (es : List (UInt32 × V)) (al : Alloc) : Alloc × Res (HTable V) :=
  match (HTable.withCapacity c al : Alloc × Res (HTable V)) with
  | (al, .ok fresh) => es.foldl htDeStep (al, .ok fresh)
  | (al, .allocErr) => (al, .allocErr)
  | (al, .panic w) => (al, .panic w)

/-- two handle tables are the same finite map -/
structure HTEquiv (t t' : HTable V) : Prop where
  get : ∀ k, t'.get k = t.get k
  len : t'.count = t.count
  perm : t'.toList.Perm t.toList

theorem htDeStep_err (xs : List (UInt32 × V)) (al : Alloc) :
    xs.foldl htDeStep (al, (.allocErr : Res (HTable V))) = (al, .allocErr) := by
  induction xs with
  | nil => rfl
  | cons x xs ih => simp only [List.foldl_cons, htDeStep]; exact ih

theorem ht_insertRaw_cases (t : HTable V) (k : UInt32) (v : V) :
    (∃ t' old, t.insertRaw k v = .ok (t', old)) ∨ ∃ w, t.insertRaw k v = .panic w := by
  unfold HTable.insertRaw
  split
  · exact Or.inl ⟨_, _, rfl⟩
  · exact Or.inr ⟨_, rfl⟩

theorem ht_grow_cases (t : HTable V) (al : Alloc) :
    ((HTable.allocStorage al).1 = false ∧ t.grow al = ((HTable.allocStorage al).2, .allocErr)) ∨
    ((HTable.allocStorage al).1 = true ∧
      ((∃ t', t.grow al = ((HTable.allocStorage al).2, .ok t')) ∨
       ∃ w, t.grow al = ((HTable.allocStorage al).2, .panic w))) := by
  unfold HTable.grow HTable.adjustCapacity
  rcases HTable.allocStorage al with ⟨ok, al1⟩
  cases ok with
  | false => exact Or.inl ⟨rfl, rfl⟩
  | true =>
    refine Or.inr ⟨rfl, ?_⟩
    simp only [Bool.not_true, Bool.false_eq_true, if_false]
    cases OA.rehash t.cap t.slots (max (HTable.padPot (max t.cap 2 * 3 / 2)) 4)
      (HTable.home (max (HTable.padPot (max t.cap 2 * 3 / 2)) 4)) with
    | some s => exact Or.inl ⟨_, rfl⟩
    | none => exact Or.inr ⟨_, rfl⟩

/-- the shapes `insert` of a non-null handle can return, and the oracle it hands back -/
theorem ht_insert_shape (t : HTable V) {k : UInt32} (hk : k ≠ 0) (v : V) (al : Alloc) :
    ((∃ old, (t.insert k v al).2.2 = .ok (.ok old)) ∨
     ((t.insert k v al).2.2 = .ok (.error .alloc) ∧ (HTable.allocStorage al).1 = false) ∨
     (∃ w, (t.insert k v al).2.2 = .panic w)) ∧
    (t.insert k v al).2.1.failAt = al.failAt := by
  have hsa := allocStorage_failAt al
  unfold HTable.insert
  simp only [hk, if_false]
  by_cases hg : HTable.needsGrow (t.count + 1) t.cap = true
  · simp only [hg, if_true]
    rcases ht_grow_cases t al with ⟨h1, h2⟩ | ⟨h1, ⟨t', h2⟩ | ⟨w, h2⟩⟩
    · rw [h2]; exact ⟨Or.inr (Or.inl ⟨rfl, h1⟩), hsa⟩
    · rw [h2]
      rcases ht_insertRaw_cases t' k v with ⟨t'', old, h⟩ | ⟨w, h⟩
      · simp only [h]; exact ⟨Or.inl ⟨_, rfl⟩, hsa⟩
      · simp only [h]; exact ⟨Or.inr (Or.inr ⟨_, rfl⟩), hsa⟩
    · rw [h2]; exact ⟨Or.inr (Or.inr ⟨_, rfl⟩), hsa⟩
  · simp only [hg, Bool.false_eq_true, if_false]
    rcases ht_insertRaw_cases t k v with ⟨t'', old, h⟩ | ⟨w, h⟩
    · simp only [h]; exact ⟨Or.inl ⟨_, rfl⟩, by first | rfl | trivial⟩
    · simp only [h]; exact ⟨Or.inr (Or.inr ⟨_, rfl⟩), by first | rfl | trivial⟩

theorem ht_insert_failAt (t : HTable V) (k : UInt32) (v : V) (al : Alloc) :
    (t.insert k v al).2.1.failAt = al.failAt := by
  by_cases hk : k = 0
  · subst hk; simp [HTable.insert]
  · exact (ht_insert_shape t hk v al).2

/-- the loop of `visit_map` on distinct non-null handles, from any table satisfying the
    invariant that holds none of them -/
theorem htDe_loop :
    ∀ (xs : List (UInt32 × V)) (c : HTable V) (al : Alloc), C13.HTInv c →
      (xs.map Prod.fst).Nodup → (∀ kv ∈ xs, kv.1 ≠ 0) → (∀ kv ∈ xs, c.get kv.1 = none) →
      ∃ al' r, xs.foldl htDeStep (al, .ok c) = (al', r) ∧ al'.failAt = al.failAt ∧
        ((r = .allocErr ∧ al.failAt ≠ none) ∨
         ∃ c', r = .ok c' ∧ C13.HTInv c' ∧
           ∀ k, c'.get k = match AL.lookup xs k with
                          | some v => some v
                          | none => c.get k) := by
  intro xs
  induction xs with
  | nil =>
    intro c al hI _ _ _
    exact ⟨al, _, rfl, rfl, Or.inr ⟨c, rfl, hI, fun k => rfl⟩⟩
  | cons kv xs ih =>
    intro c al hI hnd hnz hfresh
    obtain ⟨k, v⟩ := kv
    simp only [List.map_cons, List.nodup_cons] at hnd
    have hk0 : k ≠ 0 := hnz (k, v) (by simp)
    have hinv := (C13.ht_inv_preserved hI).1 k v al
    have hfa := ht_insert_failAt c k v al
    rcases hins : c.insert k v al with ⟨c1, al1, r1⟩
    rw [hins] at hinv hfa
    simp only at hinv hfa
    rcases (ht_insert_shape c hk0 v al).1 with ⟨old, h⟩ | ⟨h, hal⟩ | ⟨w, h⟩
    · rw [hins] at h
      simp only at h
      subst h
      have hget : c1.get k = some v := by
        have := (C13.ht_get_after hI k).1 v al ⟨old, by rw [hins]⟩
        rw [hins] at this; exact this
      have hframe : ∀ k', k' ≠ k → c1.get k' = c.get k' := by
        intro k' hne
        have := (C13.ht_frame hI hne).1 v al
        rw [hins] at this; exact this
      have hne : ∀ y ∈ xs, y.1 ≠ k := by
        intro y hy e
        exact hnd.1 (List.mem_map.mpr ⟨y, hy, e⟩)
      obtain ⟨al', r, hf, hfa', hr⟩ := ih c1 al1 hinv.1 hnd.2
        (fun y hy => hnz y (List.mem_cons_of_mem _ hy))
        (fun y hy => by rw [hframe _ (hne y hy)]; exact hfresh y (List.mem_cons_of_mem _ hy))
      refine ⟨al', r, ?_, by rw [hfa', hfa], ?_⟩
      · simp only [List.foldl_cons, htDeStep, hins]; exact hf
      · rcases hr with ⟨h1, h2⟩ | ⟨c', h1, h2, h3⟩
        · exact Or.inl ⟨h1, by rw [← hfa]; exact h2⟩
        · refine Or.inr ⟨c', h1, h2, ?_⟩
          intro k'
          rw [h3 k', AL.lookup_cons]
          by_cases hkk : k = k'
          · subst hkk
            have : AL.lookup xs k = none := by
              rw [AL.lookup_eq_none]
              intro hm
              obtain ⟨y, hy, e⟩ := List.mem_map.mp hm
              exact hne y hy e
            simp [this, hget]
          · simp only [hkk, if_false]
            cases AL.lookup xs k' with
            | some w => rfl
            | none => exact hframe k' (fun e => hkk e.symm)
    · rw [hins] at h
      simp only at h
      subst h
      refine ⟨al1, .allocErr, ?_, hfa, Or.inl ⟨rfl, ?_⟩⟩
      · simp only [List.foldl_cons, htDeStep, hins]; exact htDeStep_err xs al1
      · intro hnone
        rw [(allocStorage_noFail hnone).1] at hal; cases hal
    · rw [hins] at h
      simp only at h
      subst h
      exact absurd hinv.2 (by simp [C13.NoPanic])

/-- **deserializing any sequence of distinct non-null handles**: for every requested capacity
    (0 and 1 included) and every allocation oracle the result is never a panic; it is `allocErr`
    only if the oracle injects a failure; otherwise it is a table satisfying the invariant that
    maps exactly the given handles to the given values. -/
theorem ht_deserialize_list (c : Nat) (xs : List (UInt32 × V)) (al : Alloc)
    (hnd : (xs.map Prod.fst).Nodup) (hnz : ∀ kv ∈ xs, kv.1 ≠ 0) :
    ∃ al' r, htDeserialize c xs al = (al', r) ∧ al'.failAt = al.failAt ∧
      ((r = .allocErr ∧ al.failAt ≠ none) ∨
       ∃ t', r = .ok t' ∧ C13.HTInv t' ∧ (∀ k, t'.get k = AL.lookup xs k) ∧
         t'.count = xs.length ∧ t'.toList.Perm xs) := by
  unfold htDeserialize
  have hwi := C13.ht_withCapacity_inv (V := V) c al
  have hwf : (HTable.withCapacity c al : Alloc × Res (HTable V)).1.failAt = al.failAt := by
    unfold HTable.withCapacity
    have := allocStorage_failAt al
    rcases hst : HTable.allocStorage al with ⟨ok, al1⟩
    rw [hst] at this
    cases ok <;> simpa using this
  have hwe : (HTable.withCapacity c al : Alloc × Res (HTable V)).2 = .allocErr →
      al.failAt ≠ none := by
    intro h hnone
    unfold HTable.withCapacity at h
    have := (allocStorage_noFail hnone).1
    rcases hst : HTable.allocStorage al with ⟨ok, al1⟩
    rw [hst] at this h
    simp only at this
    subst this
    simp at h
  rcases hw : (HTable.withCapacity c al : Alloc × Res (HTable V)) with ⟨al0, r0⟩
  rw [hw] at hwi hwf hwe
  simp only at hwi hwf hwe
  cases r0 with
  | panic w => exact absurd hwi (by simp [C13.OkInv])
  | allocErr => exact ⟨al0, .allocErr, rfl, hwf, Or.inl ⟨rfl, hwe rfl⟩⟩
  | ok t0 =>
    simp only [C13.OkInv] at hwi
    have hempty : ∀ k, t0.get k = none := by
      intro k
      unfold HTable.withCapacity at hw
      rcases hst : HTable.allocStorage al with ⟨ok, al1⟩
      rw [hst] at hw
      cases ok with
      | false => simp at hw
      | true =>
        simp only [if_true, Prod.mk.injEq, Res.ok.injEq] at hw
        obtain ⟨_, rfl⟩ := hw
        have habs : OA.Abs (HTable.padPot (max c 2)) (OA.empty : OA.Slots UInt32 V) (fun _ => none) :=
          OA.empty_abs _
        exact OA.get_spec hwi.2.1 habs k
    obtain ⟨al', r, hf, hfa, hr⟩ := htDe_loop xs t0 al0 hwi hnd hnz (fun kv _ => hempty kv.1)
    refine ⟨al', r, hf, by rw [hfa, hwf], ?_⟩
    rcases hr with ⟨h1, h2⟩ | ⟨t', h1, h2, h3⟩
    · exact Or.inl ⟨h1, by rw [← hwf]; exact h2⟩
    · have hget : ∀ k, t'.get k = AL.lookup xs k := by
        intro k
        rw [h3 k, hempty k]
        cases AL.lookup xs k <;> rfl
      have hperm : (t'.toList).Perm xs := by
        apply AL.perm_of_lookup_eq (AL.WF_toList h2.2.1) hnd
        intro k
        have := OA.Abs_unique (AL.abs_toList h2.2.1) (OA.Abs_get h2.2.1)
        exact (congrFun this k).trans (hget k)
      refine Or.inr ⟨t', h1, h2, hget, ?_, hperm⟩
      rw [h2.2.2.1]
      exact hperm.length_eq

/-- the iteration list of a table satisfying the invariant: distinct non-null handles, and it
    represents the table's map -/
theorem ht_toList_facts {t : HTable V} (hI : C13.HTInv t) :
    (t.toList.map Prod.fst).Nodup ∧ (∀ kv ∈ t.toList, kv.1 ≠ 0) ∧
    (∀ k, AL.lookup t.toList k = t.get k) ∧ t.toList.length = t.count := by
  refine ⟨OA.toList_keys_nodup hI.2.1.distinct, ?_, ?_, ?_⟩
  · rintro ⟨k, v⟩ hkv h0
    simp only at h0; subst h0
    exact hI.2.2.2.2 v (OA.mem_toList.mp hkv)
  · intro k
    exact congrFun (OA.Abs_unique (AL.abs_toList hI.2.1) (OA.Abs_get hI.2.1)) k
  · rw [hI.2.2.1]; rfl

end HT

/-! ## `CaoHashMap` -/
section HM
variable {K V : Type} [DecidableEq K]

/-- `Serialize for CaoHashMap` -/
def hmSerialize (m : HMap K V) : List (K × V) := m.toList

/-- one `res.insert(k, v).expect("oom")` -/
def hmDeStep (hashOf : K → UInt64) (acc : Alloc × Res (HMap K V)) (kv : K × V) :
    Alloc × Res (HMap K V) :=
  match acc with
  | (al, .ok c) =>
    match c.insert hashOf kv.1 kv.2 al with
    | (c', al, .ok _) => (al, .ok c')
    | (_, al, .allocErr) => (al, .allocErr)
    | (_, al, .panic w) => (al, .panic w)
  | other => other

/-- `Visitor::visit_map` with requested capacity `c` -/
def hmDeserialize (hashOf : K → UInt64) (c : Nat) (es : List (K × V)) (al : Alloc) :
    Alloc × Res (HMap K V) :=
  match (HMap.withCapacity c al : Alloc × Res (HMap K V)) with
  | (al, .ok fresh) => es.foldl (hmDeStep hashOf) (al, .ok fresh)
  | (al, .allocErr) => (al, .allocErr)
  | (al, .panic w) => (al, .panic w)

/-- two hash maps are the same finite map -/
structure HMEquiv (hashOf : K → UInt64) (m m' : HMap K V) : Prop where
  get : ∀ k, m'.get hashOf k = m.get hashOf k
  len : m'.count = m.count
  perm : m'.toList.Perm m.toList

theorem hmDeStep_err (hashOf : K → UInt64) (xs : List (K × V)) (al : Alloc) :
    xs.foldl (hmDeStep hashOf) (al, (.allocErr : Res (HMap K V))) = (al, .allocErr) := by
  induction xs with
  | nil => rfl
  | cons x xs ih => simp only [List.foldl_cons, hmDeStep]; exact ih

theorem hm_grow_cases (hashOf : K → UInt64) (m : HMap K V) (al : Alloc) :
    (al.next.1 = false ∧ m.grow hashOf al = (al.next.2, .allocErr)) ∨
    (al.next.1 = true ∧
      ((∃ m', m.grow hashOf al = (al.next.2, .ok m')) ∨
       ∃ w, m.grow hashOf al = (al.next.2, .panic w))) := by
  unfold HMap.grow HMap.adjustCapacity
  rcases al.next with ⟨ok, al1⟩
  cases ok with
  | false => exact Or.inl ⟨rfl, rfl⟩
  | true =>
    refine Or.inr ⟨rfl, ?_⟩
    simp only [Bool.not_true, Bool.false_eq_true, if_false]
    cases OA.rehash m.cap m.slots (HMap.growCap m.cap) (HMap.home hashOf (HMap.growCap m.cap)) with
    | some s => exact Or.inl ⟨_, rfl⟩
    | none => exact Or.inr ⟨_, rfl⟩

/-- the oracle `insert` hands back; an `allocErr` needs a failing oracle -/
theorem hm_insert_shape (hashOf : K → UInt64) (m : HMap K V) (k : K) (v : V) (al : Alloc) :
    (m.insert hashOf k v al).2.1.failAt = al.failAt ∧
    ((m.insert hashOf k v al).2.2 = .allocErr → al.failAt ≠ none) := by
  unfold HMap.insert
  cases OA.find m.cap (HMap.home hashOf m.cap) m.slots k with
  | none => exact ⟨rfl, fun h => by cases h⟩
  | some i =>
    simp only
    cases m.slots i with
    | some old => exact ⟨rfl, fun h => by cases h⟩
    | none =>
      simp only
      by_cases hg : HMap.needsGrow (m.count + 1) m.cap = true
      · simp only [hg, if_true]
        rcases hm_grow_cases hashOf m al with ⟨h1, h2⟩ | ⟨h1, ⟨m', h2⟩ | ⟨w, h2⟩⟩
        · rw [h2]
          refine ⟨rfl, fun _ hnone => ?_⟩
          rw [(next_noFail hnone).1] at h1; cases h1
        · rw [h2]
          simp only
          cases OA.put m'.cap (HMap.home hashOf m'.cap) m'.slots k v with
          | some sp => exact ⟨rfl, fun h => by cases h⟩
          | none => exact ⟨rfl, fun h => by cases h⟩
        · rw [h2]; exact ⟨rfl, fun h => by cases h⟩
      · simp only [hg, Bool.false_eq_true, if_false]
        exact ⟨by first | rfl | trivial, fun h => by cases h⟩

theorem hm_insert_failAt (hashOf : K → UInt64) (m : HMap K V) (k : K) (v : V) (al : Alloc) :
    (m.insert hashOf k v al).2.1.failAt = al.failAt := (hm_insert_shape hashOf m k v al).1

theorem hm_insert_allocErr (hashOf : K → UInt64) (m : HMap K V) (k : K) (v : V) (al : Alloc)
    (h : (m.insert hashOf k v al).2.2 = .allocErr) : al.failAt ≠ none :=
  (hm_insert_shape hashOf m k v al).2 h

/-- the loop of `visit_map` on distinct keys, from any map satisfying the invariant that holds
    none of them -/
theorem hmDe_loop (hashOf : K → UInt64) :
    ∀ (xs : List (K × V)) (c : HMap K V) (al : Alloc), C12.HInv hashOf c →
      (xs.map Prod.fst).Nodup → (∀ kv ∈ xs, c.get hashOf kv.1 = none) →
      ∃ al' r, xs.foldl (hmDeStep hashOf) (al, .ok c) = (al', r) ∧ al'.failAt = al.failAt ∧
        ((r = .allocErr ∧ al.failAt ≠ none) ∨
         ∃ c', r = .ok c' ∧ C12.HInv hashOf c' ∧
           ∀ k, c'.get hashOf k = match AL.lookup xs k with
                                  | some v => some v
                                  | none => c.get hashOf k) := by
  intro xs
  induction xs with
  | nil =>
    intro c al hI _ _
    exact ⟨al, _, rfl, rfl, Or.inr ⟨c, rfl, hI, fun k => rfl⟩⟩
  | cons kv xs ih =>
    intro c al hI hnd hfresh
    obtain ⟨k, v⟩ := kv
    simp only [List.map_cons, List.nodup_cons] at hnd
    have hinv := (C12.hm_inv_preserved hI).1 k v al
    have hfa := hm_insert_failAt hashOf c k v al
    have hae := hm_insert_allocErr hashOf c k v al
    have hga := (C12.hm_get_after hI k).1 v al
    have hfr : ∀ k', k' ≠ k → (c.insert hashOf k v al).1.get hashOf k' = c.get hashOf k' :=
      fun k' hne => (C12.hm_frame hI hne).1 v al
    rcases hins : c.insert hashOf k v al with ⟨c1, al1, r1⟩
    rw [hins] at hinv hfa hae hga hfr
    simp only at hinv hfa hae hga hfr
    cases r1 with
    | panic w => exact absurd hinv.2 (by simp [C12.NoPanic])
    | allocErr =>
      refine ⟨al1, .allocErr, ?_, hfa, Or.inl ⟨rfl, hae rfl⟩⟩
      simp only [List.foldl_cons, hmDeStep, hins]; exact hmDeStep_err hashOf xs al1
    | ok old =>
      have hget : c1.get hashOf k = some v := hga (by simp)
      have hne : ∀ y ∈ xs, y.1 ≠ k := by
        intro y hy e
        exact hnd.1 (List.mem_map.mpr ⟨y, hy, e⟩)
      obtain ⟨al', r, hf, hfa', hr⟩ := ih c1 al1 hinv.1 hnd.2
        (fun y hy => by rw [hfr _ (hne y hy)]; exact hfresh y (List.mem_cons_of_mem _ hy))
      refine ⟨al', r, ?_, by rw [hfa', hfa], ?_⟩
      · simp only [List.foldl_cons, hmDeStep, hins]; exact hf
      · rcases hr with ⟨h1, h2⟩ | ⟨c', h1, h2, h3⟩
        · exact Or.inl ⟨h1, by rw [← hfa]; exact h2⟩
        · refine Or.inr ⟨c', h1, h2, ?_⟩
          intro k'
          rw [h3 k', AL.lookup_cons]
          by_cases hkk : k = k'
          · subst hkk
            have : AL.lookup xs k = none := by
              rw [AL.lookup_eq_none]
              intro hm
              obtain ⟨y, hy, e⟩ := List.mem_map.mp hm
              exact hne y hy e
            simp [this, hget]
          · simp only [hkk, if_false]
            cases AL.lookup xs k' with
            | some w => rfl
            | none => exact hfr k' (fun e => hkk e.symm)

/-- **deserializing any sequence of distinct keys** into a `CaoHashMap`, for every requested
    capacity and every allocation oracle -/
theorem hm_deserialize_list (hashOf : K → UInt64) (c : Nat) (xs : List (K × V)) (al : Alloc)
    (hnd : (xs.map Prod.fst).Nodup) :
    ∃ al' r, hmDeserialize hashOf c xs al = (al', r) ∧ al'.failAt = al.failAt ∧
      ((r = .allocErr ∧ al.failAt ≠ none) ∨
       ∃ m', r = .ok m' ∧ C12.HInv hashOf m' ∧ (∀ k, m'.get hashOf k = AL.lookup xs k) ∧
         m'.count = xs.length ∧ m'.toList.Perm xs) := by
  unfold hmDeserialize
  have hwi := C12.hm_withCapacity_inv (V := V) hashOf c al
  unfold HMap.withCapacity at hwi ⊢
  rcases hn : al.next with ⟨ok, al0⟩
  have hfa0 : al0.failAt = al.failAt := by rw [← next_failAt al, hn]
  rw [hn] at hwi
  cases ok with
  | false =>
    refine ⟨al0, .allocErr, by simp, hfa0, Or.inl ⟨rfl, ?_⟩⟩
    intro hnone
    have := (next_noFail hnone).1
    rw [hn] at this; cases this
  | true =>
    simp only [if_true, C12.OkInv] at hwi ⊢
    have hempty : ∀ k, ({ cap := max c 1, slots := OA.empty, count := 0 } : HMap K V).get hashOf k
        = none := by
      intro k
      have habs : OA.Abs (max c 1) (OA.empty : OA.Slots K V) (fun _ => none) := OA.empty_abs _
      exact OA.get_spec hwi.2.1 habs k
    obtain ⟨al', r, hf, hfa, hr⟩ := hmDe_loop hashOf xs _ al0 hwi hnd (fun kv _ => hempty kv.1)
    refine ⟨al', r, hf, by rw [hfa, hfa0], ?_⟩
    rcases hr with ⟨h1, h2⟩ | ⟨m', h1, h2, h3⟩
    · exact Or.inl ⟨h1, by rw [← hfa0]; exact h2⟩
    · have hget : ∀ k, m'.get hashOf k = AL.lookup xs k := by
        intro k
        rw [h3 k, hempty k]
        cases AL.lookup xs k <;> rfl
      have hperm : (m'.toList).Perm xs := by
        apply AL.perm_of_lookup_eq (AL.WF_toList h2.2.1) hnd
        intro k
        have := OA.Abs_unique (AL.abs_toList h2.2.1) (OA.Abs_get h2.2.1)
        exact (congrFun this k).trans (hget k)
      refine Or.inr ⟨m', h1, h2, hget, ?_, hperm⟩
      rw [h2.2.2.1]
      exact hperm.length_eq

theorem hm_toList_facts {hashOf : K → UInt64} {m : HMap K V} (hI : C12.HInv hashOf m) :
    (m.toList.map Prod.fst).Nodup ∧ (∀ k, AL.lookup m.toList k = m.get hashOf k) ∧
    m.toList.length = m.count := by
  refine ⟨OA.toList_keys_nodup hI.2.1.distinct, ?_, ?_⟩
  · intro k
    exact congrFun (OA.Abs_unique (AL.abs_toList hI.2.1) (OA.Abs_get hI.2.1)) k
  · rw [hI.2.2.1]; rfl

end HM

end Cao.Serde
