import CaoProofs.Lemmas.SimLemmas
import CaoProofs.Lemmas.ResolveLemmas
/-! # locals of `main` (compile side) -/
namespace Cao.Sim
open Cao Cao.Vm

/-- the compile-time locals of `main`: names with the scope depth of their declaration -/
abbrev LCtx := List (String × Int)

/-- slot of the local `n`: the last declaration with that name (`resolve_var`) -/
def lidx (L : LCtx) (n : String) : Option Nat :=
  (List.range L.length).reverse.find? (fun i => (L.getD i ("", 0)).1 == n)

theorem lidx_lt {L : LCtx} {n : String} {i : Nat} (h : lidx L n = some i) : i < L.length := by
  have := List.mem_of_find?_eq_some h
  simpa using this

section code
variable (B : Array UInt8) (F : List (UInt32 × Nat))

/-- code of an expression card when the locals `L` are in scope -/
def ECodeL (L : LCtx) : Card → Nat → Nat → Prop
  | .scalarInt i, pc, pc' => B.getD pc 0 = Compiler.op.scalarInt ∧ rdU64 B (pc + 1) = i.toUInt64 ∧ pc' = pc + 9
  | .scalarFloat b, pc, pc' => B.getD pc 0 = Compiler.op.scalarFloat ∧ rdU64 B (pc + 1) = b ∧ pc' = pc + 9
  | .scalarNil, pc, pc' => B.getD pc 0 = Compiler.op.scalarNil ∧ pc' = pc + 1
  | .un .not c, pc, pc' => ∃ m, ECodeL L c pc m ∧ B.getD m 0 = Compiler.op.not ∧ pc' = m + 1
  | .bin k a b, pc, pc' => ∃ m1 m2, ECodeL L a pc m1 ∧ ECodeL L b m1 m2 ∧ B.getD m2 0 = Compiler.binOp k ∧ pc' = m2 + 1
  | .readVar n, pc, pc' =>
    match lidx L n with
    | some i => B.getD pc 0 = Compiler.op.readLocalVar ∧ rdU32 B (pc + 1) = i ∧ pc' = pc + 5
    | none => ∃ id, gidOf F n = some id ∧ B.getD pc 0 = Compiler.op.readGlobalVar ∧
        rdU32 B (pc + 1) = id ∧ pc' = pc + 5
  | _, _, _ => False

mutual
  /-- statements that declare no local: besides those of `isStmt`, assignments to declared locals -/
  def isStmtL (L : LCtx) : Card → Bool
    | .setGlobalVar n e => !n.isEmpty && isExpr e
    | .setVar n e => simpleName n && (lidx L n).isSome && isExpr e
    | .bin .ifTrue c b => isExpr c && isStmtL L b
    | .bin .ifFalse c b => isExpr c && isStmtL L b
    | .bin .while c b => isExpr c && isStmtL L b
    | .tri .ifElse c t e => isExpr c && isStmtL L t && isStmtL L e
    | .composite _ cs => isStmtsL L cs
    | .comment _ => true
    | _ => false
  def isStmtsL (L : LCtx) : List Card → Bool
    | [] => true
    | c :: cs => isStmtL L c && isStmtsL L cs
end

mutual
  /-- code of a statement that declares no local -/
  def SCodeL (L : LCtx) : Card → Nat → Nat → Prop
    | .setGlobalVar n e, pc, pc' => ∃ m id, ECodeL B F L e pc m ∧ B.getD m 0 = Compiler.op.setGlobalVar ∧
        gidOf F n = some id ∧ rdU32 B (m + 1) = id ∧ pc' = m + 5
    | .setVar n e, pc, pc' => ∃ m i, lidx L n = some i ∧ ECodeL B F L e pc m ∧
        B.getD m 0 = Compiler.op.setLocalVar ∧ rdU32 B (m + 1) = i ∧ pc' = m + 5
    | .bin .ifTrue c b, pc, pc' => ∃ m, ECodeL B F L c pc m ∧ B.getD m 0 = Compiler.op.gotoIfFalse ∧
        rdU32 B (m + 1) = pc' ∧ SCodeL L b (m + 5) pc'
    | .bin .ifFalse c b, pc, pc' => ∃ m, ECodeL B F L c pc m ∧ B.getD m 0 = Compiler.op.gotoIfTrue ∧
        rdU32 B (m + 1) = pc' ∧ SCodeL L b (m + 5) pc'
    | .bin .while c b, pc, pc' => ∃ m1 m2, ECodeL B F L c pc m1 ∧ B.getD m1 0 = Compiler.op.gotoIfFalse ∧
        rdU32 B (m1 + 1) = pc' ∧ SCodeL L b (m1 + 5) m2 ∧ B.getD m2 0 = Compiler.op.goto ∧
        rdU32 B (m2 + 1) = pc ∧ pc' = m2 + 5
    | .tri .ifElse c t e, pc, pc' => ∃ m1 m2, ECodeL B F L c pc m1 ∧ B.getD m1 0 = Compiler.op.gotoIfFalse ∧
        rdU32 B (m1 + 1) = m2 + 5 ∧ SCodeL L t (m1 + 5) m2 ∧ B.getD m2 0 = Compiler.op.goto ∧
        rdU32 B (m2 + 1) = pc' ∧ SCodeL L e (m2 + 5) pc'
    | .composite _ cs, pc, pc' => SCodesL L cs pc pc'
    | .comment _, pc, pc' => pc' = pc
    | _, _, _ => False
  def SCodesL (L : LCtx) : List Card → Nat → Nat → Prop
    | [], pc, pc' => pc' = pc
    | c :: cs, pc, pc' => ∃ m, SCodeL L c pc m ∧ SCodesL L cs m pc'
end

/-- a top-level statement of a function body is a declaration `SetVar n e` of a new local -/
def declOf (L : LCtx) : Card → Option (String × Card)
  | .setVar n e => if (lidx L n).isNone then some (n, e) else none
  | _ => none

/-- the cards of a function body at depth `d`: declarations of new locals and statements -/
def isTops (d : Int) : LCtx → List Card → Bool
  | _, [] => true
  | L, c :: cs =>
    match declOf L c with
    | some (n, e) => simpleName n && isExpr e && isTops d (L ++ [(n, d)]) cs
    | none => isStmtL L c && isTops d L cs

/-- the locals in scope after the cards -/
def topsCtx (d : Int) : LCtx → List Card → LCtx
  | L, [] => L
  | L, c :: cs =>
    match declOf L c with
    | some (n, _) => topsCtx d (L ++ [(n, d)]) cs
    | none => topsCtx d L cs

/-- code of the cards of a function body -/
def TCodes (d : Int) : LCtx → List Card → Nat → Nat → Prop
  | _, [], pc, pc' => pc' = pc
  | L, c :: cs, pc, pc' =>
    match declOf L c with
    | some (n, e) => ∃ m, ECodeL B F L e pc m ∧ B.getD m 0 = Compiler.op.setLocalVar ∧
        rdU32 B (m + 1) = L.length ∧ TCodes d (L ++ [(n, d)]) cs (m + 5) pc'
    | none => ∃ m, SCodeL B F L c pc m ∧ TCodes d L cs m pc'
end code
end Cao.Sim


namespace Cao.Compiler
open Cao Cao.Sim

def mkLoc (p : String × Int) : Local := { name := p.1, depth := p.2, captured := false }

/-- `main` is being compiled (no enclosing function) with the locals `L` in scope -/
structure LInv (s : CState) (L : LCtx) : Prop where
  fid : s.functionId = 0
  locals : s.locals = [L.map mkLoc]
  depth : ∀ p ∈ L, p.2 ≤ curDepth s
  len : L.length ≤ 255

theorem LInv.of_ql {s s' : CState} {L : LCtx} (h : LInv s L) (q : QL s s') : LInv s' L :=
  ⟨q.fid.trans h.fid, q.locals.trans h.locals, fun p hp => by
    unfold curDepth; rw [q.depth]; exact h.depth p hp, h.len⟩

theorem LInv.locals_ne {s : CState} {L : LCtx} (h : LInv s L) : s.locals ≠ [] := by
  rw [h.locals]; exact List.cons_ne_nil _ _

theorem resolveVar_L {n : String} {s : CState} {L : LCtx} (hn : n.isEmpty = false) (hl : LInv s L) :
    resolveVar n s = .ok (match lidx L n with | some i => Variable.local_ i | none => Variable.global, s) := by
  have hfun : (fun i => ((L.map mkLoc).getD i ⟨"", 0, false⟩).name == n) =
      fun i => (L.getD i ("", 0)).1 == n := by
    funext i
    simp only [List.getD_eq_getElem?_getD, List.getElem?_map]
    rcases L[i]? with _ | p <;> rfl
  unfold resolveVar validateVarName
  simp only [hn, Bool.false_eq_true, if_false, bind, StateT.bind, Except.bind, pure, StateT.pure, Except.pure, get,
    getThe, MonadStateOf.get, StateT.get, hl.fid, hl.locals, List.getD_cons_zero, List.length_map, hfun]
  unfold lidx
  rcases List.find? (fun i => (L.getD i ("", 0)).1 == n) (List.range L.length).reverse with _ | i
  · simp [resolveUpvalue, pure, StateT.pure, Except.pure]
  · rfl

theorem ecodeL_of_processCard (B : Array UInt8) (F : List (UInt32 × Nat))
    (hF : ∀ p ∈ F, p.2 < 4294967296) (L : LCtx) (hL : L.length < 4294967296) :
    ∀ (e : Card), isExpr e = true → ∀ (s s' : CState), processCard e s = .ok ((), s') → LInv s L →
      AgreeFrom B s' s.bytecode.size → (∃ t, F = s'.varIds ++ t) →
      QL s s' ∧ ECodeL B F L e s.bytecode.size s'.bytecode.size
  | .scalarInt i => by
    intro _ s s' h hl hag _
    simp only [processCard] at h
    obtain ⟨_, s0, h0, h1⟩ := bind_ok.1 h
    obtain ⟨b0, l0, v0⟩ := cardLabel_ok' h0
    unfold scalarIntCode at h1
    obtain ⟨_, s1, h2, h3⟩ := bind_ok.1 h1
    obtain ⟨b1, l1, v1⟩ := pushInstr_ok h2
    obtain ⟨b2, l2, v2⟩ := emitBytes_ok h3
    obtain ⟨a1, a2, a3⟩ := agree_instr (a := s.bytecode) (by rw [b2, b1, b0]) hag
    refine ⟨(l0.trans l1).trans l2, ?_⟩
    simp only [ECodeL]
    refine ⟨a1, ?_, ?_⟩
    · exact Sim.rdU64_eq _ _ _ (fun j hj => a2 j (by rw [le64_length]; exact hj))
    · rw [a3, le64_length]
  | .scalarFloat b => by
    intro _ s s' h hl hag _
    simp only [processCard] at h
    obtain ⟨_, s0, h0, h1⟩ := bind_ok.1 h
    obtain ⟨b0, l0, v0⟩ := cardLabel_ok' h0
    obtain ⟨_, s1, h2, h3⟩ := bind_ok.1 h1
    obtain ⟨b1, l1, v1⟩ := pushInstr_ok h2
    obtain ⟨b2, l2, v2⟩ := emitBytes_ok h3
    obtain ⟨a1, a2, a3⟩ := agree_instr (a := s.bytecode) (by rw [b2, b1, b0]) hag
    refine ⟨(l0.trans l1).trans l2, ?_⟩
    simp only [ECodeL]
    refine ⟨a1, ?_, ?_⟩
    · exact Sim.rdU64_eq _ _ _ (fun j hj => a2 j (by rw [le64_length]; exact hj))
    · rw [a3, le64_length]
  | .scalarNil => by
    intro _ s s' h hl hag _
    simp only [processCard] at h
    obtain ⟨_, s0, h0, h1⟩ := bind_ok.1 h
    obtain ⟨b0, l0, v0⟩ := cardLabel_ok' h0
    obtain ⟨b1, l1, v1⟩ := pushInstr_ok h1
    obtain ⟨a1, a3⟩ := agree_op (a := s.bytecode) (by rw [b1, b0]) hag (Nat.le_refl _)
    exact ⟨l0.trans l1, by simp only [ECodeL]; exact ⟨a1, a3⟩⟩
  | .un .not c => by
    intro he s s' h hl hag hv
    simp only [isExpr] at he
    simp only [processCard] at h
    obtain ⟨_, s0, h0, h1⟩ := bind_ok.1 h
    obtain ⟨b0, l0, v0⟩ := cardLabel_ok' h0
    unfold unCode at h1
    obtain ⟨_, s1', h2, h3⟩ := bind_ok.1 h1
    obtain ⟨sa, s1, h4, ba, la, va, b1, l1, v1⟩ := withSub_ok' h2
    obtain ⟨b3, l3, v3⟩ := pushInstr_ok h3
    have esz : sa.bytecode.size = s.bytecode.size := by rw [ba, b0]
    have hsz := processCard_size_le h4
    have hk : Keep s.bytecode.size s1.bytecode.size s1 s' := Keep.of_push (by rw [b3, b1])
    obtain ⟨ql1, hc⟩ := ecodeL_of_processCard B F hF L hL c he sa s1 h4 (hl.of_ql (l0.trans la))
      (by rw [esz]; exact hag.back hk (Nat.le_refl _)) (by rw [← v1.ids, ← v3.ids]; exact hv)
    obtain ⟨a1, a3⟩ := agree_op (a := s1.bytecode) (by rw [b3, b1]) hag (by omega)
    refine ⟨(((l0.trans la).trans ql1).trans l1).trans l3, ?_⟩
    simp only [ECodeL]
    rw [esz] at hc
    exact ⟨_, hc, a1, a3⟩
  | .bin k a b => by
    intro he s s' h hl hag hv
    simp only [isExpr, Bool.and_eq_true] at he
    obtain ⟨⟨hk, hea⟩, heb⟩ := he
    simp only [processCard] at h
    obtain ⟨_, s0, h0, h1⟩ := bind_ok.1 h
    obtain ⟨b0, l0, v0⟩ := cardLabel_ok' h0
    rw [binCode_valop k hk] at h1
    obtain ⟨_, s1', h2, h3⟩ := bind_ok.1 h1
    obtain ⟨sa, s1, h4, ba, la, va, b1, l1, v1⟩ := withSub_ok' h2
    obtain ⟨_, s2', h5, h6⟩ := bind_ok.1 h3
    obtain ⟨sb, s2, h7, bb, lb, vb, b2, l2, v2⟩ := withSub_ok' h5
    obtain ⟨b3, l3, v3⟩ := pushInstr_ok h6
    have esa : sa.bytecode.size = s.bytecode.size := by rw [ba, b0]
    have esb : sb.bytecode.size = s1.bytecode.size := by rw [bb, b1]
    have hsz1 := processCard_size_le h4
    have hext2 := ((processCard_mono (k := sb.bytecode.size) b).run _ _ _ h7 (Nat.le_refl _)).1
    have hk2 : Keep s.bytecode.size s2.bytecode.size s2 s' := Keep.of_push (by rw [b3, b2])
    have hkb : Keep s.bytecode.size s1.bytecode.size s1 s2 :=
      ⟨by rw [← esb]; exact hext2.size_le, fun i _ hi => by
        rw [hext2.pref i (by rw [esb]; exact hi), bb, b1]⟩
    have hk1 : Keep s.bytecode.size s1.bytecode.size s1 s' :=
      hkb.trans (hk2.weaken (Nat.le_refl _) hkb.size_le)
    have hv2 := (processCard_vr b).run _ _ _ h7
    obtain ⟨ql1, hca⟩ := ecodeL_of_processCard B F hF L hL a hea sa s1 h4 (hl.of_ql (l0.trans la))
      (by rw [esa]; exact hag.back hk1 (Nat.le_refl _))
      (by
        have : ∃ t, F = s2.varIds ++ t := by rw [← v2.ids, ← v3.ids]; exact hv
        obtain ⟨t, ht⟩ := vpre_back this hv2
        exact ⟨t, by rw [ht, vb.ids, v1.ids]⟩)
    have qlb : QL s sb := (((l0.trans la).trans ql1).trans l1).trans lb
    obtain ⟨ql2, hcb⟩ := ecodeL_of_processCard B F hF L hL b heb sb s2 h7 (hl.of_ql qlb)
      (by rw [esb]; exact hag.back (hk2.weaken (by omega) (Nat.le_refl _)) (by omega))
      (by rw [← v2.ids, ← v3.ids]; exact hv)
    obtain ⟨a1, a3⟩ := agree_op (a := s2.bytecode) (by rw [b3, b2]) hag (by have := hkb.size_le; omega)
    refine ⟨((qlb.trans ql2).trans l2).trans l3, ?_⟩
    simp only [ECodeL]
    rw [esa] at hca
    rw [esb] at hcb
    exact ⟨_, _, hca, hcb, a1, a3⟩
  | .readVar n => by
    intro he s s' h hl hag hv
    simp only [isExpr, simpleName, Bool.and_eq_true, decide_eq_true_eq, Bool.not_eq_true'] at he
    obtain ⟨hsplit, hne⟩ := he
    simp only [processCard] at h
    obtain ⟨_, s0, h0, h1⟩ := bind_ok.1 h
    obtain ⟨b0, l0, v0⟩ := cardLabel_ok' h0
    unfold readVarCard at h1
    simp only [hsplit] at h1
    obtain ⟨var, s0', h2, h3⟩ := bind_ok.1 h1
    rw [resolveVar_L hne (hl.of_ql l0)] at h2
    simp only [Except.ok.injEq, Prod.mk.injEq] at h2
    obtain ⟨rfl, rfl⟩ := h2
    simp only [readProps] at h3
    rcases hli : lidx L n with _ | i
    · simp only [hli] at h3
      obtain ⟨id, s1, h4, h5⟩ := bind_ok.1 h3
      obtain ⟨b1, l1, d1, hd, hfind⟩ := globalId_ok' h4
      obtain ⟨_, s2, h6, h7⟩ := bind_ok.1 h5
      obtain ⟨b2, l2, v2⟩ := pushInstr_ok h6
      obtain ⟨_, s3, h8, h9⟩ := bind_ok.1 h7
      obtain ⟨b3, l3, v3⟩ := emitBytes_ok h8
      simp only [pure_run, Except.ok.injEq, Prod.mk.injEq, true_and] at h9
      subst h9
      obtain ⟨a1, a2, a3⟩ := agree_instr (a := s.bytecode) (by rw [b3, b2, b1, b0]) hag
      refine ⟨((l0.trans l1).trans l2).trans l3, ?_⟩
      have hgid : gidOf F n = some id := by
        obtain ⟨t, ht⟩ := hv
        unfold gidOf
        rw [ht, v3.ids, v2.ids, find?_append_of_some hfind]
        rfl
      have hlt : id < 4294967296 := by
        unfold gidOf at hgid
        rcases hf : List.find? (fun p => p.fst == Vm.hName n) F with _ | ⟨x⟩
        · rw [hf] at hgid; cases hgid
        · rw [hf] at hgid
          simp only [Option.map_some, Option.some.injEq] at hgid
          have := hF x (List.mem_of_find?_eq_some hf)
          omega
      simp only [ECodeL, hli]
      refine ⟨id, hgid, a1, ?_, ?_⟩
      · exact rdU32_patched hlt (fun j hj => a2 j (by rw [le32_length]; exact hj))
      · rw [a3, le32_length]
    · simp only [hli] at h3
      unfold readLocalVar at h3
      obtain ⟨_, s1, h4, h5⟩ := bind_ok.1 h3
      obtain ⟨_, s2, h6, h7⟩ := bind_ok.1 h4
      obtain ⟨b2, l2, v2⟩ := pushInstr_ok h6
      obtain ⟨b3, l3, v3⟩ := emitBytes_ok h7
      simp only [pure_run, Except.ok.injEq, Prod.mk.injEq, true_and] at h5
      subst h5
      obtain ⟨a1, a2, a3⟩ := agree_instr (a := s.bytecode) (by rw [b3, b2, b0]) hag
      refine ⟨(l0.trans l2).trans l3, ?_⟩
      simp only [ECodeL, hli]
      refine ⟨a1, ?_, ?_⟩
      · exact rdU32_patched (by have := lidx_lt hli; omega) (fun j hj => a2 j (by rw [le32_length]; exact hj))
      · rw [a3, le32_length]
  | .un .ret _ | .un .len _ | .un .popTable _ | .tri _ _ _ _ | .createTable | .abort | .stringLiteral _
  | .comment _ | .function _ | .nativeFunction _ | .setVar _ _ | .setGlobalVar _ _ | .callNative _ _
  | .call _ _ | .repeat _ _ _ | .forEach _ _ _ _ _ | .composite _ _ | .dynamicCall _ _ | .array _
  | .closure _ _ => by
    intro he
    simp [isExpr] at he


theorem dropWhile_none {α : Type} {p : α → Bool} : ∀ {l : List α}, (∀ x ∈ l, p x = false) → l.dropWhile p = l
  | [], _ => rfl
  | x :: l, h => by rw [List.dropWhile_cons, h x (List.mem_cons_self ..)]; rfl

theorem dropWhile_all {α : Type} {p : α → Bool} : ∀ {l : List α}, (∀ x ∈ l, p x = true) → l.dropWhile p = []
  | [], _ => rfl
  | x :: l, h => by
    rw [List.dropWhile_cons, h x (List.mem_cons_self ..)]
    exact dropWhile_all fun y hy => h y (List.mem_cons_of_mem _ hy)

theorem curDepth_depthUp (l : List Int) : l.getLast?.getD 0 ≤ (depthUp l).getLast?.getD 0 := by
  unfold depthUp
  cases h : l.reverse with
  | nil => simp at h; simp [h]
  | cons d r =>
    have hl : l = (d :: r).reverse := by rw [← h, List.reverse_reverse]
    rw [hl]
    simp; omega

theorem scopeBegin_ok' {s s' : CState} {a : Unit} (h : scopeBegin s = .ok (a, s')) :
    s'.bytecode = s.bytecode ∧ s'.locals = s.locals ∧ s'.functionId = s.functionId ∧ QV s s' ∧
    s'.scopeDepth = depthUp s.scopeDepth := by
  unfold scopeBegin at h
  simp only [modify_run, Except.ok.injEq, Prod.mk.injEq, true_and] at h
  subst h
  exact ⟨rfl, rfl, rfl, ⟨rfl, rfl, rfl⟩, rfl⟩

/-- `scopeEnd` when the scope that ends declared nothing -/
theorem scopeEnd_keep {s s' : CState} {a : Unit} {L : LCtx} (hfid : s.functionId = 0)
    (hloc : s.locals = [L.map mkLoc]) (hd : ∀ p ∈ L, p.2 ≤ (depthDown s.scopeDepth).getLast?.getD 0)
    (h : scopeEnd s = .ok (a, s')) :
    s'.bytecode = s.bytecode ∧ QV s s' ∧ s'.locals = s.locals ∧ s'.functionId = 0 ∧
    s'.scopeDepth = depthDown s.scopeDepth := by
  unfold scopeEnd at h
  obtain ⟨_, s1, h1, h⟩ := bind_ok.1 h
  simp only [modify_run, Except.ok.injEq, Prod.mk.injEq, true_and] at h1
  obtain ⟨s2, s2', hg, h⟩ := bind_ok.1 h
  simp only [get_run, Except.ok.injEq, Prod.mk.injEq] at hg
  obtain ⟨rfl, rfl⟩ := hg
  have e1d : s1.scopeDepth = depthDown s.scopeDepth := by rw [← h1]; rfl
  have e1f : s1.functionId = 0 := by rw [← h1]; exact hfid
  have e1l : s1.locals = [L.map mkLoc] := by rw [← h1]; exact hloc
  have hls : s1.locals.getD s1.functionId [] = L.map mkLoc := by rw [e1f, e1l]; rfl
  have hkeep : ((L.map mkLoc).reverse.dropWhile (fun l => decide (l.depth > curDepth s1))).reverse = L.map mkLoc := by
    rw [dropWhile_none, List.reverse_reverse]
    intro x hx
    simp only [List.mem_reverse, List.mem_map] at hx
    obtain ⟨p, hp, rfl⟩ := hx
    have := hd p hp
    simp only [decide_eq_false_iff_not, mkLoc, curDepth, e1d]
    omega
  simp only [hls, hkeep, List.drop_length, List.reverse_nil, List.map_nil] at h
  obtain ⟨_, s3, h3, h4⟩ := bind_ok.1 h
  simp only [modify_run, Except.ok.injEq, Prod.mk.injEq, true_and] at h3
  obtain ⟨b4, l4, v4⟩ := emitBytes_ok h4
  have e3l : s3.locals = [L.map mkLoc] := by
    rw [← h3]; show s1.locals.set s1.functionId (L.map mkLoc) = _; rw [e1f, e1l]; rfl
  refine ⟨?_, ?_, ?_, ?_, ?_⟩
  · rw [b4, ← h3, ← h1]; simp
  · exact ⟨by rw [v4.ids, ← h3, ← h1], by rw [v4.next, ← h3, ← h1], by rw [v4.data, ← h3, ← h1]⟩
  · rw [l4.locals, e3l, hloc]
  · rw [l4.fid, ← h3]; exact e1f
  · rw [l4.depth, ← h3]; exact e1d


theorem writeLocalVar_ok {i : Nat} {s s' : CState} {a : Unit} (h : writeLocalVar i s = .ok (a, s')) :
    s'.bytecode = s.bytecode.push op.setLocalVar ++ (le32 (UInt32.ofNat i)).toArray ∧ QL s s' ∧ QV s s' := by
  unfold writeLocalVar at h
  obtain ⟨_, s1, h1, h2⟩ := bind_ok.1 h
  obtain ⟨b1, l1, v1⟩ := pushInstr_ok h1
  obtain ⟨b2, l2, v2⟩ := emitBytes_ok h2
  exact ⟨by rw [b2, b1], l1.trans l2, v1.trans v2⟩

theorem addLocal_ok {n : String} {s s' : CState} {i : Nat} {L : LCtx} (hl : LInv s L)
    (h : addLocal n s = .ok (i, s')) :
    i = L.length ∧ s'.bytecode = s.bytecode ∧ QV s s' ∧ s'.scopeDepth = s.scopeDepth ∧
    LInv s' (L ++ [(n, curDepth s)]) := by
  unfold addLocal validateVarName at h
  obtain ⟨_, s0, h0, h⟩ := bind_ok.1 h
  split at h0
  · simp at h0
  · simp only [pure_run, Except.ok.injEq, Prod.mk.injEq, true_and] at h0
    subst h0
    unfold addLocalUnchecked at h
    obtain ⟨s1, s1', hg, h⟩ := bind_ok.1 h
    simp only [get_run, Except.ok.injEq, Prod.mk.injEq] at hg
    obtain ⟨rfl, rfl⟩ := hg
    have hls : s.locals.getLast?.getD [] = L.map mkLoc := by rw [hl.locals]; rfl
    simp only [hls, List.length_map] at h
    split at h
    · obtain ⟨_, _, h3, _⟩ := bind_ok.1 h
      simp at h3
    · rename_i hlen
      obtain ⟨_, s2, h2, h3⟩ := bind_ok.1 h
      simp only [modify_run, Except.ok.injEq, Prod.mk.injEq, true_and] at h2
      simp only [pure_run, Except.ok.injEq, Prod.mk.injEq] at h3
      obtain ⟨rfl, rfl⟩ := h3
      subst h2
      refine ⟨rfl, rfl, ⟨rfl, rfl, rfl⟩, rfl, ⟨hl.fid, ?_, ?_, ?_⟩⟩
      · show s.locals.dropLast ++ [L.map mkLoc ++ [_]] = _
        rw [hl.locals]
        simp [mkLoc]
      · intro p hp
        rcases List.mem_append.1 hp with hp | hp
        · exact hl.depth p hp
        · simp only [List.mem_singleton] at hp
          subst hp
          exact Int.le_refl _
      · simp only [List.length_append, List.length_singleton]; omega


/-- compiling an expression of the fragment leaves the scoping bookkeeping alone -/
theorem expr_ql (L : LCtx) : ∀ (e : Card), isExpr e = true → ∀ (s s' : CState),
    processCard e s = .ok ((), s') → LInv s L → QL s s'
  | .scalarInt i => by
    intro _ s s' h hl
    simp only [processCard] at h
    obtain ⟨_, s0, h0, h1⟩ := bind_ok.1 h
    obtain ⟨b0, l0, v0⟩ := cardLabel_ok' h0
    unfold scalarIntCode at h1
    obtain ⟨_, s1, h2, h3⟩ := bind_ok.1 h1
    exact (l0.trans (pushInstr_ok h2).2.1).trans (emitBytes_ok h3).2.1
  | .scalarFloat b => by
    intro _ s s' h hl
    simp only [processCard] at h
    obtain ⟨_, s0, h0, h1⟩ := bind_ok.1 h
    obtain ⟨b0, l0, v0⟩ := cardLabel_ok' h0
    obtain ⟨_, s1, h2, h3⟩ := bind_ok.1 h1
    exact (l0.trans (pushInstr_ok h2).2.1).trans (emitBytes_ok h3).2.1
  | .scalarNil => by
    intro _ s s' h hl
    simp only [processCard] at h
    obtain ⟨_, s0, h0, h1⟩ := bind_ok.1 h
    exact (cardLabel_ok' h0).2.1.trans (pushInstr_ok h1).2.1
  | .un .not c => by
    intro he s s' h hl
    simp only [isExpr] at he
    simp only [processCard] at h
    obtain ⟨_, s0, h0, h1⟩ := bind_ok.1 h
    obtain ⟨b0, l0, v0⟩ := cardLabel_ok' h0
    unfold unCode at h1
    obtain ⟨_, s1', h2, h3⟩ := bind_ok.1 h1
    obtain ⟨sa, s1, h4, ba, la, va, b1, l1, v1⟩ := withSub_ok' h2
    have q := expr_ql L c he sa s1 h4 (hl.of_ql (l0.trans la))
    exact (((l0.trans la).trans q).trans l1).trans (pushInstr_ok h3).2.1
  | .bin k a b => by
    intro he s s' h hl
    simp only [isExpr, Bool.and_eq_true] at he
    obtain ⟨⟨hk, hea⟩, heb⟩ := he
    simp only [processCard] at h
    obtain ⟨_, s0, h0, h1⟩ := bind_ok.1 h
    obtain ⟨b0, l0, v0⟩ := cardLabel_ok' h0
    rw [binCode_valop k hk] at h1
    obtain ⟨_, s1', h2, h3⟩ := bind_ok.1 h1
    obtain ⟨sa, s1, h4, ba, la, va, b1, l1, v1⟩ := withSub_ok' h2
    obtain ⟨_, s2', h5, h6⟩ := bind_ok.1 h3
    obtain ⟨sb, s2, h7, bb, lb, vb, b2, l2, v2⟩ := withSub_ok' h5
    have q1 := expr_ql L a hea sa s1 h4 (hl.of_ql (l0.trans la))
    have qb : QL s sb := (((l0.trans la).trans q1).trans l1).trans lb
    have q2 := expr_ql L b heb sb s2 h7 (hl.of_ql qb)
    exact ((qb.trans q2).trans l2).trans (pushInstr_ok h6).2.1
  | .readVar n => by
    intro he s s' h hl
    simp only [isExpr, simpleName, Bool.and_eq_true, decide_eq_true_eq, Bool.not_eq_true'] at he
    obtain ⟨hsplit, hne⟩ := he
    simp only [processCard] at h
    obtain ⟨_, s0, h0, h1⟩ := bind_ok.1 h
    obtain ⟨b0, l0, v0⟩ := cardLabel_ok' h0
    unfold readVarCard at h1
    simp only [hsplit] at h1
    obtain ⟨var, s0', h2, h3⟩ := bind_ok.1 h1
    rw [resolveVar_L hne (hl.of_ql l0)] at h2
    simp only [Except.ok.injEq, Prod.mk.injEq] at h2
    obtain ⟨rfl, rfl⟩ := h2
    simp only [readProps] at h3
    rcases hli : lidx L n with _ | i
    · simp only [hli] at h3
      obtain ⟨id, s1, h4, h5⟩ := bind_ok.1 h3
      obtain ⟨b1, l1, d1, hd, hfind⟩ := globalId_ok' h4
      obtain ⟨_, s2, h6, h7⟩ := bind_ok.1 h5
      obtain ⟨_, s3, h8, h9⟩ := bind_ok.1 h7
      simp only [pure_run, Except.ok.injEq, Prod.mk.injEq, true_and] at h9
      subst h9
      exact ((l0.trans l1).trans (pushInstr_ok h6).2.1).trans (emitBytes_ok h8).2.1
    · simp only [hli] at h3
      unfold readLocalVar at h3
      obtain ⟨_, s1, h4, h5⟩ := bind_ok.1 h3
      obtain ⟨_, s2, h6, h7⟩ := bind_ok.1 h4
      simp only [pure_run, Except.ok.injEq, Prod.mk.injEq, true_and] at h5
      subst h5
      exact (l0.trans (pushInstr_ok h6).2.1).trans (emitBytes_ok h7).2.1
  | .un .ret _ | .un .len _ | .un .popTable _ | .tri _ _ _ _ | .createTable | .abort | .stringLiteral _
  | .comment _ | .function _ | .nativeFunction _ | .setVar _ _ | .setGlobalVar _ _ | .callNative _ _
  | .call _ _ | .repeat _ _ _ | .forEach _ _ _ _ _ | .composite _ _ | .dynamicCall _ _ | .array _
  | .closure _ _ => by
    intro he
    simp [isExpr] at he

section
variable (B : Array UInt8) (F : List (UInt32 × Nat)) (hB : B.size < 4294967296)
  (hF : ∀ p ∈ F, p.2 < 4294967296)
include hB hF
set_option linter.unusedSectionVars false

/-- the code of `SetVar n e` for a simple name: the value, then `SetLocalVar` of the slot of `n`
    (a new slot when `n` is not yet a local) -/
theorem setVar_specV {L : LCtx} {n : String} {e : Card} {s s' : CState} (PV : Nat → Nat → Prop)
    (hql : ∀ (sa s1 : CState), processCard e sa = .ok ((), s1) → LInv sa L → QL sa s1)
    (hval : ∀ (sa s1 : CState), processCard e sa = .ok ((), s1) → LInv sa L → sa.jumpTable = s.jumpTable →
      AgreeFrom B s1 sa.bytecode.size → (∃ t, F = s1.varIds ++ t) → PV sa.bytecode.size s1.bytecode.size)
    (hn : simpleName n = true)
    (h : processCard (.setVar n e) s = .ok ((), s')) (hl : LInv s L)
    (hag : AgreeFrom B s' s.bytecode.size) (hv : ∃ t, F = s'.varIds ++ t) :
    ∃ m, PV s.bytecode.size m ∧ B.getD m 0 = op.setLocalVar ∧ s'.bytecode.size = m + 5 ∧
      s'.scopeDepth = s.scopeDepth ∧
      match lidx L n with
      | some i => Vm.rdU32 B (m + 1) = i ∧ LInv s' L
      | none => Vm.rdU32 B (m + 1) = L.length ∧ LInv s' (L ++ [(n, curDepth s)]) := by
  simp only [simpleName, Bool.and_eq_true, decide_eq_true_eq, Bool.not_eq_true'] at hn
  obtain ⟨hsplit, hne⟩ := hn
  simp only [processCard] at h
  obtain ⟨_, s0, h0, h1⟩ := bind_ok.1 h
  obtain ⟨b0, l0, v0⟩ := cardLabel_ok' h0
  unfold setVarCode at h1
  obtain ⟨_, s1', h2, h3⟩ := bind_ok.1 h1
  obtain ⟨sa, s1, h4, ba, la, va, b1, l1, v1⟩ := withSub_ok' h2
  have esa : sa.bytecode.size = s.bytecode.size := by rw [ba, b0]
  have hsz1 := processCard_size_le h4
  unfold setVarTarget at h3
  simp only [hsplit] at h3
  obtain ⟨var, s2, h5, h6⟩ := bind_ok.1 h3
  have hla : LInv sa L := hl.of_ql (l0.trans la)
  -- the value is compiled first
  have key : ∀ (s3 : CState) (i : Nat), writeLocalVar i s3 = .ok ((), s') → s3.bytecode = s1.bytecode →
      s3.varIds = s1.varIds → i < 4294967296 →
      QL sa s1 ∧ PV s.bytecode.size s1.bytecode.size ∧ B.getD s1.bytecode.size 0 = op.setLocalVar ∧
      Vm.rdU32 B (s1.bytecode.size + 1) = i ∧ s'.bytecode.size = s1.bytecode.size + 5 ∧ QL s3 s' := by
    intro s3 i hw hb3 hv3 hi
    obtain ⟨bw, lw, vw⟩ := writeLocalVar_ok hw
    have hb' : s'.bytecode = s1.bytecode.push op.setLocalVar ++ (le32 (UInt32.ofNat i)).toArray := by rw [bw, hb3]
    have ql1 := hql sa s1 h4 hla
    have hce := hval sa s1 h4 hla (by rw [la.jt, l0.jt])
      (by
        rw [esa]
        refine hag.sub (Nat.le_refl _) (by rw [hb']; simp) fun i _ hi => ?_
        rw [hb', Array.getElem?_append_left (by simp; omega), Array.getElem?_push_lt hi]; simp)
      (vpre_eq (vpre_eq hv vw.ids) hv3)
    obtain ⟨a1, a2, a3⟩ := agree_instr (a := s1.bytecode) hb' (hag.weaken (by omega))
    rw [esa] at hce
    exact ⟨ql1, hce, a1, rdU32_patched hi (fun j hj => a2 j (by rw [le32_length]; exact hj)),
      by rw [a3, le32_length], lw⟩
  have hl1' : ∀ (ql1 : QL sa s1), LInv s1' L := fun ql1 => (hla.of_ql ql1).of_ql l1
  -- `resolveVar` does not change the state: it only looks at the locals, which the value left alone
  have hext : QL sa s1 := hql sa s1 h4 hla
  rw [resolveVar_L hne (hl1' hext)] at h5
  simp only [Except.ok.injEq, Prod.mk.injEq] at h5
  obtain ⟨rfl, rfl⟩ := h5
  rcases hli : lidx L n with _ | i
  · simp only [hli] at h6 ⊢
    obtain ⟨j, s3, h7, h8⟩ := bind_ok.1 h6
    obtain ⟨rfl, b3, v3, d3, hl3⟩ := addLocal_ok (hl1' hext) h7
    obtain ⟨ql1, k1, k2, k3, k4, k5⟩ := key s3 L.length h8 (by rw [b3, b1]) (by rw [v3.ids, v1.ids])
      (by have := hl.len; omega)
    refine ⟨s1.bytecode.size, k1, k2, k4, ?_, k3, ?_⟩
    · rw [k5.depth, d3, l1.depth, ql1.depth, la.depth, l0.depth]
    · have hcd : curDepth s1' = curDepth s := by
        unfold curDepth; rw [l1.depth, ql1.depth, la.depth, l0.depth]
      rw [hcd] at hl3
      exact hl3.of_ql k5
  · simp only [hli] at h6 ⊢
    obtain ⟨ql1, k1, k2, k3, k4, k5⟩ := key s1' i h6 b1 v1.ids (by have := lidx_lt hli; have := hl.len; omega)
    refine ⟨s1.bytecode.size, k1, k2, k4, ?_, k3, (hl1' ql1).of_ql k5⟩
    rw [k5.depth, l1.depth, ql1.depth, la.depth, l0.depth]
theorem setVar_spec {L : LCtx} {n : String} {e : Card} {s s' : CState}
    (hn : simpleName n = true) (he : isExpr e = true)
    (h : processCard (.setVar n e) s = .ok ((), s')) (hl : LInv s L)
    (hag : AgreeFrom B s' s.bytecode.size) (hv : ∃ t, F = s'.varIds ++ t) :
    ∃ m, ECodeL B F L e s.bytecode.size m ∧ B.getD m 0 = op.setLocalVar ∧ s'.bytecode.size = m + 5 ∧
      s'.scopeDepth = s.scopeDepth ∧
      match lidx L n with
      | some i => Vm.rdU32 B (m + 1) = i ∧ LInv s' L
      | none => Vm.rdU32 B (m + 1) = L.length ∧ LInv s' (L ++ [(n, curDepth s)]) :=
  setVar_specV B F hB hF (ECodeL B F L e) (fun sa s1 h4 hla => expr_ql L e he sa s1 h4 hla)
    (fun sa s1 h4 hla _ hag1 hv1 =>
      (ecodeL_of_processCard B F hF L (by have := hl.len; omega) e he sa s1 h4 hla hag1 hv1).2) hn h hl hag hv

/-! ## the control-flow arms with locals in scope -/

theorem ifCodeL_spec {L : LCtx} {sd : List Int} {J : JumpTable} {skip : UInt8} {c b : Card} (PB : Nat → Nat → Prop)
    (ihb : ∀ s s', processCard b s = .ok ((), s') → LInv s L → s.scopeDepth = sd → s.jumpTable = J →
      AgreeFrom B s' s.bytecode.size →
      (∃ t, F = s'.varIds ++ t) → LInv s' L ∧ PB s.bytecode.size s'.bytecode.size)
    (hc : isExpr c = true) {s0 s' : CState}
    (h : ifCode skip (processCard c) (processCard b) s0 = .ok ((), s')) (hl : LInv s0 L)
    (hsd0 : s0.scopeDepth = sd) (hj0 : s0.jumpTable = J)
    (hag : AgreeFrom B s' s0.bytecode.size) (hv : ∃ t, F = s'.varIds ++ t) :
    LInv s' L ∧ ∃ m, ECodeL B F L c s0.bytecode.size m ∧ B.getD m 0 = skip ∧
      Vm.rdU32 B (m + 1) = s'.bytecode.size ∧ PB (m + 5) s'.bytecode.size := by
  unfold ifCode at h
  obtain ⟨_, s1', h2, h⟩ := bind_ok.1 h
  obtain ⟨sa, s1, h4, ba, la, va, b1, l1, v1⟩ := withSub_ok' h2
  obtain ⟨_, s1'', h5, h⟩ := bind_ok.1 h
  obtain ⟨b2, l2, v2⟩ := pushSub_ok h5
  obtain ⟨_, s5, h6, h7⟩ := bind_ok.1 h
  obtain ⟨b7, l7, v7⟩ := popSub_ok h7
  obtain ⟨s3, s4, h8, e3, l3, v3, e5, l5, v5, hge, g1, g2, g3, g4⟩ :=
    encodeIfThen_ok (fun k => processCard_mono (k := k) b) h6
  have em : s1''.bytecode.size = s1.bytecode.size := by rw [b2, b1]
  rw [em] at e3 hge g1 g2 g3 g4
  have hsz1 := processCard_size_le h4
  have esa : sa.bytecode.size = s0.bytecode.size := by rw [ba]
  have esz' : s'.bytecode.size = s4.bytecode.size := by rw [b7, e5]
  have hvr := (processCard_vr b).run _ _ _ h8
  have hv4 : ∃ t, F = s4.varIds ++ t := vpre_eq (vpre_eq hv v7.ids) v5.ids
  obtain ⟨ql1, hcc⟩ := ecodeL_of_processCard B F hF L (by have := hl.len; omega) c hc sa s1 h4 (hl.of_ql la)
    (by
      rw [ba]
      refine hag.sub (Nat.le_refl _) (by omega) fun i _ hi => ?_
      rw [b7, g4 i hi, b2, b1])
    (by
      obtain ⟨t, ht⟩ := vpre_back hv4 hvr
      exact ⟨t, by rw [ht, v3.ids, v2.ids, v1.ids]⟩)
  have hl1 : LInv s1 L := (hl.of_ql la).of_ql ql1
  obtain ⟨hl4, hcb⟩ := ihb s3 s4 h8 (hl1.of_ql ((l1.trans l2).trans l3))
    (by rw [l3.depth, l2.depth, l1.depth, ql1.depth, la.depth]; exact hsd0)
    (by rw [l3.jt, l2.jt, l1.jt, ql1.jt, la.jt]; exact hj0)
    (by
      rw [e3]
      refine hag.sub (by omega) (by omega) fun i hi _ => ?_
      rw [b7, g3 i hi])
    hv4
  have hlt : s4.bytecode.size < 4294967296 := by have := hag.size_le; omega
  refine ⟨hl4.of_ql (l5.trans l7), s1.bytecode.size, by rw [ba] at hcc; exact hcc, ?_, ?_, ?_⟩
  · rw [hag.getD (by omega) (by omega), b7]; exact g1
  · rw [hag.rdU32 (by omega) (by omega), b7, e5]
    exact rdU32_patched hlt g2
  · rw [e3] at hcb; rw [esz']; exact hcb


theorem whileCodeL_spec {L : LCtx} {c b : Card} (PB : Nat → Nat → Prop)
    (ihb : ∀ s s', processCard b s = .ok ((), s') → LInv s L → AgreeFrom B s' s.bytecode.size →
      (∃ t, F = s'.varIds ++ t) → LInv s' L ∧ PB s.bytecode.size s'.bytecode.size)
    (hc : isExpr c = true) {s0 s' : CState}
    (h : whileCode (processCard c) (processCard b) s0 = .ok ((), s')) (hl : LInv s0 L)
    (hag : AgreeFrom B s' s0.bytecode.size) (hv : ∃ t, F = s'.varIds ++ t) :
    LInv s' L ∧ ∃ m1 m2, ECodeL B F L c s0.bytecode.size m1 ∧ B.getD m1 0 = op.gotoIfFalse ∧
      Vm.rdU32 B (m1 + 1) = s'.bytecode.size ∧ PB (m1 + 5) m2 ∧ B.getD m2 0 = op.goto ∧
      Vm.rdU32 B (m2 + 1) = s0.bytecode.size ∧ s'.bytecode.size = m2 + 5 := by
  unfold whileCode at h
  obtain ⟨s0', s0'', hg, h⟩ := bind_ok.1 h
  simp only [get_run, Except.ok.injEq, Prod.mk.injEq] at hg
  obtain ⟨rfl, rfl⟩ := hg
  obtain ⟨_, s1', h2, h⟩ := bind_ok.1 h
  obtain ⟨sa, s1, h4, ba, la, va, b1, l1, v1⟩ := withSub_ok' h2
  obtain ⟨_, s1'', h5, h⟩ := bind_ok.1 h
  obtain ⟨b2, l2, v2⟩ := pushSub_ok h5
  obtain ⟨_, s5, h6, h7⟩ := bind_ok.1 h
  obtain ⟨b7, l7, v7⟩ := popSub_ok h7
  obtain ⟨s3, s4, h8, e3, l3, v3, e5, l5, v5, hge, g1, g2, g3, g4⟩ :=
    encodeIfThen_ok (fun k => by have := processCard_mono (k := k) b; mono) h6
  obtain ⟨_, s3b, h8b, h⟩ := bind_ok.1 h8
  obtain ⟨bsb, lsb, fsb, vsb, dsb⟩ := scopeBegin_ok' h8b
  obtain ⟨_, s6, h9, h⟩ := bind_ok.1 h
  obtain ⟨_, s6e, h9e, h⟩ := bind_ok.1 h
  obtain ⟨_, s7, h10, h11⟩ := bind_ok.1 h
  obtain ⟨b10, l10, v10⟩ := pushInstr_ok h10
  obtain ⟨b11, l11, v11⟩ := emitBytes_ok h11
  have em : s1''.bytecode.size = s1.bytecode.size := by rw [b2, b1]
  rw [em] at e3 hge g1 g2 g3 g4
  have e3b : s3b.bytecode.size = s1.bytecode.size + 5 := by rw [bsb, e3]
  have hsz1 := processCard_size_le h4
  have hsz6 := processCard_size_le h9
  have esa : sa.bytecode.size = s0.bytecode.size := by rw [ba]
  have esz' : s'.bytecode.size = s4.bytecode.size := by rw [b7, e5]
  have hb4e : s4.bytecode = s6e.bytecode.push op.goto ++ (le32 (UInt32.ofNat s0.bytecode.size)).toArray := by
    rw [b11, b10]
  have hext6 := ((scopeEnd_mono (k := s6.bytecode.size)).run _ _ _ h9e (Nat.le_refl _)).1
  have hsz6e := hext6.size_le
  have e4e : s4.bytecode.size = s6e.bytecode.size + 5 := by rw [hb4e]; simp [le32_length]
  have hvr := (processCard_vr b).run _ _ _ h9
  have hv4 : ∃ t, F = s4.varIds ++ t := vpre_eq (vpre_eq hv v7.ids) v5.ids
  have hv6e : ∃ t, F = s6e.varIds ++ t := vpre_eq (vpre_eq hv4 v11.ids) v10.ids
  obtain ⟨ql1, hcc⟩ := ecodeL_of_processCard B F hF L (by have := hl.len; omega) c hc sa s1 h4 (hl.of_ql la)
    (by
      rw [ba]
      refine hag.sub (Nat.le_refl _) (by omega) fun i _ hi => ?_
      rw [b7, g4 i hi, b2, b1])
    (by
      obtain ⟨t, ht⟩ := vpre_back (vpre_back hv6e (scopeEnd_vr.run _ _ _ h9e)) hvr
      exact ⟨t, by rw [ht, vsb.ids, v3.ids, v2.ids, v1.ids]⟩)
  have hl1 : LInv s1 L := (hl.of_ql la).of_ql ql1
  have hv6 : ∃ t, F = s6.varIds ++ t := vpre_back hv6e (scopeEnd_vr.run _ _ _ h9e)
  have h46 : ∀ i, i < s6.bytecode.size → s4.bytecode[i]? = s6.bytecode[i]? := fun i hi => by
    rw [hb4e, Array.getElem?_append_left (by simp; omega), ← hext6.pref i hi,
      Array.getElem?_push_lt (by omega)]
    simp
  have hl3 : LInv s3 L := hl1.of_ql ((l1.trans l2).trans l3)
  have hl3b : LInv s3b L :=
    ⟨fsb.trans hl3.fid, lsb.trans hl3.locals, fun p hp => by
      unfold curDepth; rw [dsb]
      exact Int.le_trans (hl3.depth p hp) (curDepth_depthUp _), hl3.len⟩
  obtain ⟨hl6, hcb⟩ := ihb s3b s6 h9 hl3b
    (by
      rw [e3b]
      refine hag.sub (by omega) (by omega) fun i hi hi' => ?_
      rw [b7, g3 i hi, h46 i hi'])
    hv6
  have hbal := processCard_balanced (c := b) (s := s3b) (s' := s6) h9 hl3b.locals_ne
  have hd6 : depthDown s6.scopeDepth = s3.scopeDepth := by
    rw [hbal.scopeDepth, dsb, depthDown_depthUp]
  obtain ⟨b6e, _, l6e, f6e, d6e⟩ := scopeEnd_keep hl6.fid hl6.locals
    (fun p hp => by rw [hd6]; exact hl3.depth p hp) h9e
  have hl6e : LInv s6e L :=
    ⟨f6e, l6e.trans hl6.locals, fun p hp => by
      unfold curDepth; rw [d6e, hd6]; exact hl3.depth p hp, hl3.len⟩
  have hb4 : s4.bytecode = s6.bytecode.push op.goto ++ (le32 (UInt32.ofNat s0.bytecode.size)).toArray := by
    rw [hb4e, b6e]
  have e4 : s4.bytecode.size = s6.bytecode.size + 5 := by rw [hb4]; simp [le32_length]
  have hlt : s4.bytecode.size < 4294967296 := by have := hag.size_le; omega
  have hag4 : AgreeFrom B s4 (s1.bytecode.size + 5) :=
    hag.sub (by omega) (by omega) fun i hi _ => by rw [b7, g3 i hi]
  obtain ⟨a1, a2, a3⟩ := agree_instr (a := s6.bytecode) hb4 (hag4.weaken (by omega))
  refine ⟨hl6e.of_ql (((l10.trans l11).trans l5).trans l7), s1.bytecode.size, s6.bytecode.size,
    by rw [ba] at hcc; exact hcc, ?_, ?_, ?_, a1, ?_, by omega⟩
  · rw [hag.getD (by omega) (by omega), b7]; exact g1
  · rw [hag.rdU32 (by omega) (by omega), b7, e5]
    exact rdU32_patched hlt g2
  · rw [e3b] at hcb; exact hcb
  · exact rdU32_patched (by have := hag.size_le; omega) (fun j hj => a2 j (by rw [le32_length]; exact hj))


theorem ifElseCodeL_spec {L : LCtx} {sd : List Int} {J : JumpTable} {c t e : Card} (PT PE : Nat → Nat → Prop)
    (iht : ∀ s s', processCard t s = .ok ((), s') → LInv s L → s.scopeDepth = sd → s.jumpTable = J →
      AgreeFrom B s' s.bytecode.size →
      (∃ t, F = s'.varIds ++ t) → LInv s' L ∧ PT s.bytecode.size s'.bytecode.size)
    (ihe : ∀ s s', processCard e s = .ok ((), s') → LInv s L → s.scopeDepth = sd → s.jumpTable = J →
      AgreeFrom B s' s.bytecode.size →
      (∃ t, F = s'.varIds ++ t) → LInv s' L ∧ PE s.bytecode.size s'.bytecode.size)
    (hc : isExpr c = true) {s0 s' : CState}
    (h : ifElseCode (processCard c) (processCard t) (processCard e) s0 = .ok ((), s')) (hl : LInv s0 L)
    (hsd0 : s0.scopeDepth = sd) (hj0 : s0.jumpTable = J)
    (hag : AgreeFrom B s' s0.bytecode.size) (hv : ∃ t, F = s'.varIds ++ t) :
    LInv s' L ∧ ∃ m1 m2, ECodeL B F L c s0.bytecode.size m1 ∧ B.getD m1 0 = op.gotoIfFalse ∧
      Vm.rdU32 B (m1 + 1) = m2 + 5 ∧ PT (m1 + 5) m2 ∧ B.getD m2 0 = op.goto ∧
      Vm.rdU32 B (m2 + 1) = s'.bytecode.size ∧ PE (m2 + 5) s'.bytecode.size := by
  unfold ifElseCode at h
  obtain ⟨_, s1', h2, h⟩ := bind_ok.1 h
  obtain ⟨sa, s1, h4, ba, la, va, b1, l1, v1⟩ := withSub_ok' h2
  obtain ⟨_, s1'', h5, h⟩ := bind_ok.1 h
  obtain ⟨b2, l2, v2⟩ := pushSub_ok h5
  obtain ⟨idxRef, s5, h6, h⟩ := bind_ok.1 h
  obtain ⟨_, s5', h7, h⟩ := bind_ok.1 h
  obtain ⟨b7, l7, v7⟩ := popSub_ok h7
  obtain ⟨_, s8', h12, h⟩ := bind_ok.1 h
  obtain ⟨sc, s8, h13, bc, lc, vc, b8, l8, v8⟩ := withSub_ok' h12
  obtain ⟨s9, s9', hg, h14⟩ := bind_ok.1 h
  simp only [get_run, Except.ok.injEq, Prod.mk.injEq] at hg
  obtain ⟨rfl, rfl⟩ := hg
  obtain ⟨s3, s4, h8, e3, l3, v3, e5, l5, v5, hge, g1, g2, g3, g4⟩ :=
    encodeIfThenRet_ok (fun k => by have := processCard_mono (k := k) t; mono) h6
  obtain ⟨_, s6, h9, h⟩ := bind_ok.1 h8
  obtain ⟨_, s7, h10, h⟩ := bind_ok.1 h
  obtain ⟨b10, l10, v10⟩ := pushInstr_ok h10
  obtain ⟨s7', s7'', hg, h⟩ := bind_ok.1 h
  simp only [get_run, Except.ok.injEq, Prod.mk.injEq] at hg
  obtain ⟨rfl, rfl⟩ := hg
  obtain ⟨_, s4', h11, h⟩ := bind_ok.1 h
  simp only [pure_run, Except.ok.injEq, Prod.mk.injEq] at h
  obtain ⟨hidx, hs4⟩ := h
  have hs4' := hs4.symm
  subst hs4'
  subst hidx
  obtain ⟨b11, l11, v11⟩ := emitBytes_ok h11
  have em : s1''.bytecode.size = s1.bytecode.size := by rw [b2, b1]
  rw [em] at e3 hge g1 g2 g3 g4
  have hsz1 := processCard_size_le h4
  have hsz6 := processCard_size_le h9
  have hsz8 := processCard_size_le h13
  have esa : sa.bytecode.size = s0.bytecode.size := by rw [ba]
  have e7 : s7.bytecode.size = s6.bytecode.size + 1 := by rw [b10]; simp
  have hb4 : s4.bytecode = s6.bytecode.push op.goto ++ (le32 (UInt32.ofNat 0xEEF)).toArray := by
    rw [b11, b10]
  have e4 : s4.bytecode.size = s6.bytecode.size + 5 := by rw [hb4]; simp [le32_length]
  have esc : sc.bytecode.size = s6.bytecode.size + 5 := by rw [bc, b7, e5, e4]
  have e8' : s8'.bytecode.size = s8.bytecode.size := by rw [b8]
  obtain ⟨p1, p2, p3, p4, p5⟩ := patchI32_ok h14 (by omega)
  have hext8 := ((processCard_mono (k := sc.bytecode.size) e).run _ _ _ h13 (Nat.le_refl _)).1
  -- bytes of the final state outside the second placeholder are those of `s8`
  have f8 : ∀ i, (i < s6.bytecode.size + 1 ∨ s6.bytecode.size + 5 ≤ i) → s'.bytecode[i]? = s8.bytecode[i]? :=
    fun i hi => by rw [p2 i (by omega), b8]
  -- below the else branch, `s8` still has the bytes of `s5`
  have f5 : ∀ i, i < s6.bytecode.size + 5 → s8.bytecode[i]? = s5.bytecode[i]? := fun i hi => by
    rw [hext8.pref i (by omega), bc, b7]
  have h46 : ∀ i, i < s6.bytecode.size → s4.bytecode[i]? = s6.bytecode[i]? := fun i hi => by
    rw [hb4, Array.getElem?_append_left (by simp; omega), Array.getElem?_push_lt hi]; simp
  have hvr6 := (processCard_vr t).run _ _ _ h9
  have hvr8 := (processCard_vr e).run _ _ _ h13
  have hv8 : ∃ t, F = s8.varIds ++ t := vpre_eq (vpre_eq hv p5.ids) v8.ids
  have hv6 : ∃ t, F = s6.varIds ++ t := by
    obtain ⟨t, ht⟩ := vpre_back hv8 hvr8
    exact ⟨t, by rw [ht, vc.ids, v7.ids, v5.ids, v11.ids, v10.ids]⟩
  obtain ⟨ql1, hcc⟩ := ecodeL_of_processCard B F hF L (by have := hl.len; omega) c hc sa s1 h4 (hl.of_ql la)
    (by
      rw [ba]
      refine hag.sub (Nat.le_refl _) (by omega) fun i _ hi => ?_
      rw [f8 i (by omega), f5 i (by omega), g4 i hi, b2, b1])
    (by
      obtain ⟨t, ht⟩ := vpre_back hv6 hvr6
      exact ⟨t, by rw [ht, v3.ids, v2.ids, v1.ids]⟩)
  have hl1 : LInv s1 L := (hl.of_ql la).of_ql ql1
  have hsd3 : s3.scopeDepth = sd := by rw [l3.depth, l2.depth, l1.depth, ql1.depth, la.depth]; exact hsd0
  have hj3 : s3.jumpTable = J := by rw [l3.jt, l2.jt, l1.jt, ql1.jt, la.jt]; exact hj0
  obtain ⟨hl6, hct⟩ := iht s3 s6 h9 (hl1.of_ql ((l1.trans l2).trans l3)) hsd3 hj3
    (by
      rw [e3]
      refine hag.sub (by omega) (by omega) fun i hi hi' => ?_
      rw [f8 i (by omega), f5 i (by omega), g3 i hi, h46 i hi'])
    hv6
  have hbal6 := processCard_balanced (c := t) (s := s3) (s' := s6) h9
    (hl1.of_ql ((l1.trans l2).trans l3)).locals_ne
  obtain ⟨hl8, hce⟩ := ihe sc s8 h13 (hl6.of_ql ((((l10.trans l11).trans l5).trans l7).trans lc))
    (by rw [lc.depth, l7.depth, l5.depth, l11.depth, l10.depth, hbal6.scopeDepth]; exact hsd3)
    (by rw [lc.jt, l7.jt, l5.jt, l11.jt, l10.jt, (kp_run (processCard_kp t) h9).jt]; exact hj3)
    (by
      rw [esc]
      refine hag.sub (by omega) (by omega) fun i hi _ => ?_
      rw [f8 i (by omega)])
    hv8
  have hlt : s8.bytecode.size < 4294967296 := by have := hag.size_le; omega
  have hag8 : ∀ i, s0.bytecode.size ≤ i → i < s6.bytecode.size + 1 → B.getD i 0 = s5.bytecode.getD i 0 :=
    fun i h1 h2 => by
      rw [hag.getD h1 (by omega)]
      exact getD_congr (by rw [f8 i (by omega), f5 i (by omega)])
  refine ⟨hl8.of_ql (l8.trans p4), s1.bytecode.size, s6.bytecode.size,
    by rw [ba] at hcc; exact hcc, ?_, ?_, by rw [e3] at hct; exact hct, ?_, ?_, ?_⟩
  · rw [hag8 _ (by omega) (by omega)]; exact g1
  · have : Vm.rdU32 B (s1.bytecode.size + 1) = Vm.rdU32 s5.bytecode (s1.bytecode.size + 1) := by
      rw [hag.rdU32 (by omega) (by omega)]
      exact rdU32_congr fun j hj => by rw [f8 _ (by omega), f5 _ (by omega)]
    rw [this, rdU32_patched (by omega) g2, e4]
  · rw [hag8 _ (by omega) (by omega)]
    rw [getD_congr (g3 _ (by omega)), hb4]
    exact getD_push_append_left _ _ _
  · rw [hag.rdU32 (by omega) (by omega), p1, e8']
    exact rdU32_patched hlt (by rw [e7, e8'] at p3; exact p3)
  · rw [esc] at hce; rw [p1, e8']; exact hce


set_option linter.unusedSectionVars false in
mutual
theorem scodeL_of_processCard (L : LCtx) :
    ∀ (c : Card), isStmtL L c = true → ∀ (s s' : CState), processCard c s = .ok ((), s') → LInv s L →
      AgreeFrom B s' s.bytecode.size → (∃ t, F = s'.varIds ++ t) →
      LInv s' L ∧ SCodeL B F L c s.bytecode.size s'.bytecode.size
  | .comment _ => by
    intro _ s s' h hl hag hv
    simp only [processCard] at h
    obtain ⟨_, s0, h0, h1⟩ := bind_ok.1 h
    obtain ⟨b0, l0, v0⟩ := cardLabel_ok' h0
    simp only [pure_run, Except.ok.injEq, Prod.mk.injEq, true_and] at h1
    subst h1
    exact ⟨hl.of_ql l0, by simp only [SCodeL]; rw [b0]⟩
  | .composite _ cs => by
    intro hc s s' h hl hag hv
    simp only [isStmtL] at hc
    simp only [processCard] at h
    obtain ⟨_, s0, h0, h1⟩ := bind_ok.1 h
    obtain ⟨b0, l0, v0⟩ := cardLabel_ok' h0
    have := scodesL_of_compileSubexprFrom L cs hc 0 s0 s' h1 (hl.of_ql l0) (by rw [b0]; exact hag) hv
    rw [b0] at this
    exact ⟨this.1, by simp only [SCodeL]; exact this.2⟩
  | .setGlobalVar n e => by
    intro hc s s' h hl hag hv
    simp only [isStmtL, Bool.and_eq_true, Bool.not_eq_true'] at hc
    obtain ⟨hne, he⟩ := hc
    simp only [processCard] at h
    obtain ⟨_, s0, h0, h1⟩ := bind_ok.1 h
    obtain ⟨b0, l0, v0⟩ := cardLabel_ok' h0
    unfold setGlobalVarCode at h1
    obtain ⟨_, s1', h2, h1⟩ := bind_ok.1 h1
    obtain ⟨sa, s1, h4, ba, la, va, b1, l1, v1⟩ := withSub_ok' h2
    obtain ⟨_, s2, h5, h1⟩ := bind_ok.1 h1
    obtain ⟨b2, l2, v2⟩ := pushInstr_ok h5
    rw [if_neg (by simp [hne])] at h1
    obtain ⟨id, s3, h7, h8⟩ := bind_ok.1 h1
    obtain ⟨b3, l3, d3, hd, hfind⟩ := globalId_ok' h7
    obtain ⟨b4, l4, v4⟩ := emitBytes_ok h8
    have esa : sa.bytecode.size = s.bytecode.size := by rw [ba, b0]
    have hsz1 := processCard_size_le h4
    have hb' : s'.bytecode = s1.bytecode.push op.setGlobalVar ++ (le32 (UInt32.ofNat id)).toArray := by
      rw [b4, b3, b2, b1]
    have hvr := (globalId_vr n).run _ _ _ h7
    obtain ⟨ql1, hce⟩ := ecodeL_of_processCard B F hF L (by have := hl.len; omega) e he sa s1 h4 (hl.of_ql (l0.trans la))
      (by
        rw [esa]
        refine hag.sub (Nat.le_refl _) (by rw [hb']; simp) fun i _ hi => ?_
        rw [hb', Array.getElem?_append_left (by simp; omega), Array.getElem?_push_lt hi]; simp)
      (by
        obtain ⟨t, ht⟩ := vpre_back (vpre_eq hv v4.ids) hvr
        exact ⟨t, by rw [ht, v2.ids, v1.ids]⟩)
    obtain ⟨a1, a2, a3⟩ := agree_instr (a := s1.bytecode) hb' (hag.weaken (by omega))
    have hgid : gidOf F n = some id := by
      obtain ⟨t, ht⟩ := hv
      unfold gidOf
      rw [ht, v4.ids, find?_append_of_some hfind]
      rfl
    have hlt : id < 4294967296 := by
      unfold gidOf at hgid
      rcases hf : List.find? (fun p => p.fst == Vm.hName n) F with _ | ⟨x⟩
      · rw [hf] at hgid; cases hgid
      · rw [hf] at hgid
        simp only [Option.map_some, Option.some.injEq] at hgid
        have := hF x (List.mem_of_find?_eq_some hf)
        omega
    have hl1 : LInv s1 L := (hl.of_ql (l0.trans la)).of_ql ql1
    refine ⟨hl1.of_ql (((l1.trans l2).trans l3).trans l4), ?_⟩
    simp only [SCodeL]
    rw [esa] at hce
    refine ⟨_, id, hce, a1, hgid, ?_, ?_⟩
    · exact rdU32_patched hlt (fun j hj => a2 j (by rw [le32_length]; exact hj))
    · rw [a3, le32_length]
  | .setVar n e => by
    intro hc s s' h hl hag hv
    simp only [isStmtL, Bool.and_eq_true] at hc
    obtain ⟨⟨hn, hsome⟩, he⟩ := hc
    obtain ⟨m, k1, k2, k3, k4, k5⟩ := setVar_spec B F hB hF hn he h hl hag hv
    rcases hli : lidx L n with _ | i
    · rw [hli] at hsome; cases hsome
    · rw [hli] at k5
      exact ⟨k5.2, by simp only [SCodeL]; exact ⟨m, i, hli, k1, k2, k5.1, k3⟩⟩
  | .bin .ifTrue c b => by
    intro hc s s' h hl hag hv
    simp only [isStmtL, Bool.and_eq_true] at hc
    simp only [processCard] at h
    obtain ⟨_, s0, h0, h1⟩ := bind_ok.1 h
    obtain ⟨b0, l0, v0⟩ := cardLabel_ok' h0
    have := ifCodeL_spec B F hB hF (SCodeL B F L b) (fun s s' h hl _ _ => scodeL_of_processCard L b hc.2 s s' h hl) hc.1
      (show ifCode op.gotoIfFalse (processCard c) (processCard b) s0 = .ok ((), s') from h1)
      (hl.of_ql l0) rfl rfl (by rw [b0]; exact hag) hv
    rw [b0] at this
    obtain ⟨hl', m, q1, q2, q3, q4⟩ := this
    exact ⟨hl', by simp only [SCodeL]; exact ⟨m, q1, q2, q3, q4⟩⟩
  | .bin .ifFalse c b => by
    intro hc s s' h hl hag hv
    simp only [isStmtL, Bool.and_eq_true] at hc
    simp only [processCard] at h
    obtain ⟨_, s0, h0, h1⟩ := bind_ok.1 h
    obtain ⟨b0, l0, v0⟩ := cardLabel_ok' h0
    have := ifCodeL_spec B F hB hF (SCodeL B F L b) (fun s s' h hl _ _ => scodeL_of_processCard L b hc.2 s s' h hl) hc.1
      (show ifCode op.gotoIfTrue (processCard c) (processCard b) s0 = .ok ((), s') from h1)
      (hl.of_ql l0) rfl rfl (by rw [b0]; exact hag) hv
    rw [b0] at this
    obtain ⟨hl', m, q1, q2, q3, q4⟩ := this
    exact ⟨hl', by simp only [SCodeL]; exact ⟨m, q1, q2, q3, q4⟩⟩
  | .bin .while c b => by
    intro hc s s' h hl hag hv
    simp only [isStmtL, Bool.and_eq_true] at hc
    simp only [processCard] at h
    obtain ⟨_, s0, h0, h1⟩ := bind_ok.1 h
    obtain ⟨b0, l0, v0⟩ := cardLabel_ok' h0
    have := whileCodeL_spec B F hB hF (SCodeL B F L b) (fun s s' => scodeL_of_processCard L b hc.2 s s') hc.1
      (show whileCode (processCard c) (processCard b) s0 = .ok ((), s') from h1)
      (hl.of_ql l0) (by rw [b0]; exact hag) hv
    rw [b0] at this
    obtain ⟨hl', m1, m2, q1, q2, q3, q4, q5, q6, q7⟩ := this
    exact ⟨hl', by simp only [SCodeL]; exact ⟨m1, m2, q1, q2, q3, q4, q5, q6, q7⟩⟩
  | .tri .ifElse c t e => by
    intro hc s s' h hl hag hv
    simp only [isStmtL, Bool.and_eq_true] at hc
    simp only [processCard] at h
    obtain ⟨_, s0, h0, h1⟩ := bind_ok.1 h
    obtain ⟨b0, l0, v0⟩ := cardLabel_ok' h0
    have := ifElseCodeL_spec B F hB hF (SCodeL B F L t) (SCodeL B F L e)
      (fun s s' h hl _ _ => scodeL_of_processCard L t hc.1.2 s s' h hl) (fun s s' h hl _ _ => scodeL_of_processCard L e hc.2 s s' h hl) hc.1.1
      (show ifElseCode (processCard c) (processCard t) (processCard e) s0 = .ok ((), s') from h1)
      (hl.of_ql l0) rfl rfl (by rw [b0]; exact hag) hv
    rw [b0] at this
    obtain ⟨hl', m1, m2, q1, q2, q3, q4, q5, q6, q7⟩ := this
    exact ⟨hl', by simp only [SCodeL]; exact ⟨m1, m2, q1, q2, q3, q4, q5, q6, q7⟩⟩
  | .bin .add _ _ | .bin .sub _ _ | .bin .mul _ _ | .bin .div _ _ | .bin .less _ _ | .bin .lessOrEq _ _
  | .bin .equals _ _ | .bin .notEquals _ _ | .bin .and _ _ | .bin .or _ _ | .bin .xor _ _
  | .bin .getProperty _ _ | .bin .get _ _ | .bin .appendTable _ _
  | .un _ _ | .tri .setProperty _ _ _ | .scalarNil | .createTable | .abort | .scalarInt _ | .scalarFloat _
  | .stringLiteral _ | .function _ | .nativeFunction _ | .readVar _ | .callNative _ _
  | .call _ _ | .repeat _ _ _ | .forEach _ _ _ _ _ | .dynamicCall _ _ | .array _ | .closure _ _ => by
    intro hc
    simp [isStmtL] at hc

theorem scodesL_of_compileSubexprFrom (L : LCtx) :
    ∀ (cs : List Card), isStmtsL L cs = true → ∀ (i : Nat) (s s' : CState),
      compileSubexprFrom i cs s = .ok ((), s') → LInv s L →
      AgreeFrom B s' s.bytecode.size → (∃ t, F = s'.varIds ++ t) →
      LInv s' L ∧ SCodesL B F L cs s.bytecode.size s'.bytecode.size
  | [] => by
    intro _ i s s' h hl _ _
    simp only [compileSubexprFrom, pure_run, Except.ok.injEq, Prod.mk.injEq, true_and] at h
    subst h
    exact ⟨hl, by simp only [SCodesL]⟩
  | c :: cs => by
    intro hc i s s' h hl hag hv
    simp only [isStmtsL, Bool.and_eq_true] at hc
    simp only [compileSubexprFrom] at h
    obtain ⟨_, s1', h2, h3⟩ := bind_ok.1 h
    obtain ⟨sa, s1, h4, ba, la, va, b1, l1, v1⟩ := withSub_ok' h2
    have esa : sa.bytecode.size = s.bytecode.size := by rw [ba]
    have hsz1 := processCard_size_le h4
    have hext := ((compileSubexprFrom_mono (k := s1'.bytecode.size) (i + 1) cs).run _ _ _ h3 (Nat.le_refl _)).1
    have hvr := (compileSubexprFrom_vr (i + 1) cs).run _ _ _ h3
    obtain ⟨hl1, hcc⟩ := scodeL_of_processCard L c hc.1 sa s1 h4 (hl.of_ql la)
      (by
        rw [esa]
        refine hag.sub (Nat.le_refl _) (by rw [← b1]; exact hext.size_le) fun i _ hi => ?_
        rw [hext.pref i (by rw [b1]; exact hi), b1])
      (by
        obtain ⟨t, ht⟩ := vpre_back hv hvr
        exact ⟨t, by rw [ht, v1.ids]⟩)
    obtain ⟨hl2, hcs⟩ := scodesL_of_compileSubexprFrom L cs hc.2 (i + 1) s1' s' h3 (hl1.of_ql l1)
      (by rw [b1]; exact hag.weaken (by omega)) hv
    refine ⟨hl2, ?_⟩
    simp only [SCodesL]
    rw [esa] at hcc
    rw [b1] at hcs
    exact ⟨_, hcc, hcs⟩
end
end
theorem declOf_some {L : LCtx} {c : Card} {n : String} {e : Card} (h : declOf L c = some (n, e)) :
    c = .setVar n e ∧ lidx L n = none := by
  cases c <;> simp only [declOf] at h <;> try cases h
  rename_i n' e'
  split at h
  · rename_i hn
    simp only [Option.some.injEq, Prod.mk.injEq] at h
    obtain ⟨rfl, rfl⟩ := h
    exact ⟨rfl, by simpa using hn⟩
  · cases h

theorem scopeEnd_pops {s s' : CState} {a : Unit} {L : LCtx} (hfid : s.functionId = 0)
    (hloc : s.locals = [L.map mkLoc]) (hd : ∀ p ∈ L, (depthDown s.scopeDepth).getLast?.getD 0 < p.2)
    (h : scopeEnd s = .ok (a, s')) :
    s'.bytecode = s.bytecode ++ (List.replicate L.length op.pop).toArray ∧ QV s s' := by
  unfold scopeEnd at h
  obtain ⟨_, s1, h1, h⟩ := bind_ok.1 h
  simp only [modify_run, Except.ok.injEq, Prod.mk.injEq, true_and] at h1
  obtain ⟨s2, s2', hg, h⟩ := bind_ok.1 h
  simp only [get_run, Except.ok.injEq, Prod.mk.injEq] at hg
  obtain ⟨rfl, rfl⟩ := hg
  have e1d : s1.scopeDepth = depthDown s.scopeDepth := by rw [← h1]; rfl
  have e1f : s1.functionId = 0 := by rw [← h1]; exact hfid
  have e1l : s1.locals = [L.map mkLoc] := by rw [← h1]; exact hloc
  have hls : s1.locals.getD s1.functionId [] = L.map mkLoc := by rw [e1f, e1l]; rfl
  have hkeep : ((L.map mkLoc).reverse.dropWhile (fun l => decide (l.depth > curDepth s1))).reverse = [] := by
    rw [dropWhile_all, List.reverse_nil]
    intro x hx
    simp only [List.mem_reverse, List.mem_map] at hx
    obtain ⟨p, hp, rfl⟩ := hx
    have := hd p hp
    simp only [decide_eq_true_eq, mkLoc, curDepth, e1d]
    omega
  have hbytes : List.map (fun (l : Local) => if l.captured = true then op.closeUpvalue else op.pop)
      (L.map mkLoc).reverse = List.replicate L.length op.pop := by
    rw [List.eq_replicate_iff]
    refine ⟨by simp, fun b hb => ?_⟩
    simp only [List.mem_map, List.mem_reverse] at hb
    obtain ⟨l, ⟨p, _, rfl⟩, rfl⟩ := hb
    rfl
  simp only [hls, hkeep, List.length_nil, List.drop_zero, hbytes] at h
  obtain ⟨_, s3, h3, h4⟩ := bind_ok.1 h
  simp only [modify_run, Except.ok.injEq, Prod.mk.injEq, true_and] at h3
  obtain ⟨b4, l4, v4⟩ := emitBytes_ok h4
  refine ⟨?_, ?_⟩
  · rw [b4, ← h3, ← h1]
  · exact ⟨by rw [v4.ids, ← h3, ← h1], by rw [v4.next, ← h3, ← h1], by rw [v4.data, ← h3, ← h1]⟩

section
variable (B : Array UInt8) (F : List (UInt32 × Nat)) (hB : B.size < 4294967296)
  (hF : ∀ p ∈ F, p.2 < 4294967296)
include hB hF

theorem tcodes_of_processFunctionCards (d : Int) :
    ∀ (cs : List Card) (L : LCtx), isTops d L cs = true → ∀ (i : Nat) (s s' : CState),
      processFunctionCards i cs s = .ok ((), s') → LInv s L → curDepth s = d →
      AgreeFrom B s' s.bytecode.size → (∃ t, F = s'.varIds ++ t) →
      LInv s' (topsCtx d L cs) ∧ s'.scopeDepth = s.scopeDepth ∧ TCodes B F d L cs s.bytecode.size s'.bytecode.size
  | [], L => by
    intro _ i s s' h hl hd _ _
    simp only [processFunctionCards, pure_run, Except.ok.injEq, Prod.mk.injEq, true_and] at h
    subst h
    exact ⟨hl, rfl, by simp only [TCodes]⟩
  | c :: cs, L => by
    intro hc i s s' h hl hd hag hv
    simp only [processFunctionCards] at h
    obtain ⟨_, sa, h1, h⟩ := bind_ok.1 h
    obtain ⟨ba, la, va⟩ := popSub_ok h1
    obtain ⟨_, sb, h2, h⟩ := bind_ok.1 h
    obtain ⟨bb, lb, vb⟩ := pushSub_ok h2
    obtain ⟨_, s1, h4, h3⟩ := bind_ok.1 h
    have esb : sb.bytecode.size = s.bytecode.size := by rw [bb, ba]
    have hlb : LInv sb L := hl.of_ql (la.trans lb)
    have hdb : curDepth sb = d := by unfold curDepth at hd ⊢; rw [lb.depth, la.depth]; exact hd
    have hsz1 := processCard_size_le h4
    have hext := ((processFunctionCards_mono (k := s1.bytecode.size) (i + 1) cs).run _ _ _ h3 (Nat.le_refl _)).1
    have hvr := (processFunctionCards_vr (i + 1) cs).run _ _ _ h3
    have hag1 : AgreeFrom B s1 sb.bytecode.size := by
      rw [esb]
      exact hag.sub (Nat.le_refl _) hext.size_le fun i _ hi => hext.pref i hi
    have hbal := processCard_balanced (c := c) (s := sb) (s' := s1) h4 hlb.locals_ne
    have hd1 : curDepth s1 = d := by unfold curDepth at hdb ⊢; rw [hbal.scopeDepth]; exact hdb
    simp only [isTops] at hc
    simp only [topsCtx, TCodes]
    rcases hdecl : declOf L c with _ | ⟨n, e⟩
    · simp only [hdecl, Bool.and_eq_true] at hc ⊢
      obtain ⟨hl1, hcc⟩ := scodeL_of_processCard B F hB hF L c hc.1 sb s1 h4 hlb hag1 (vpre_back hv hvr)
      obtain ⟨hl2, hd2, hcs⟩ := tcodes_of_processFunctionCards d cs L hc.2 (i + 1) s1 s' h3 hl1 hd1
        (hag.weaken (by omega)) hv
      rw [esb] at hcc
      exact ⟨hl2, by rw [hd2, hbal.scopeDepth, lb.depth, la.depth], _, hcc, hcs⟩
    · simp only [hdecl, Bool.and_eq_true] at hc ⊢
      obtain ⟨rfl, hnone⟩ := declOf_some hdecl
      obtain ⟨m, k1, k2, k3, k4, k5⟩ := setVar_spec B F hB hF hc.1.1 hc.1.2 h4 hlb hag1 (vpre_back hv hvr)
      rw [hnone] at k5
      simp only at k5
      rw [hdb] at k5
      obtain ⟨hl2, hd2, hcs⟩ := tcodes_of_processFunctionCards d cs (L ++ [(n, d)]) hc.2 (i + 1) s1 s' h3 k5.2 hd1
        (hag.weaken (by omega)) hv
      rw [esb] at k1
      rw [k3] at hcs
      exact ⟨hl2, by rw [hd2, hbal.scopeDepth, lb.depth, la.depth], m, k1, k2, k5.1, hcs⟩

end

theorem compileUnit_mainL {unit : Array FunctionIr} {sf : CState} (h : compileUnit unit {} = .ok ((), sf))
    (hargs : unit[0]!.arguments = []) (hst : isTops 1 [] unit[0]!.cards = true)
    (hB : sf.bytecode.size < 4294967296) (hV : sf.varIds.length < 4294967296) :
    ∃ mainEnd, TCodes sf.bytecode sf.varIds 1 [] unit[0]!.cards 0 mainEnd ∧
      (∀ j, j < (topsCtx 1 [] unit[0]!.cards).length → sf.bytecode.getD (mainEnd + j) 0 = op.pop) ∧
      sf.bytecode.getD (mainEnd + (topsCtx 1 [] unit[0]!.cards).length) 0 = op.exit ∧
      mainEnd + (topsCtx 1 [] unit[0]!.cards).length < sf.bytecode.size ∧ VInv sf := by
  have hinv : VInv sf := ((compileUnit_vr unit).run _ _ _ h).inv ⟨rfl, fun p hp => (by cases hp), List.Pairwise.nil⟩
  have hF : ∀ p ∈ sf.varIds, p.2 < 4294967296 := fun p hp => by
    have := hinv.lt p hp; rw [hinv.len] at this; omega
  unfold compileUnit at h
  split at h
  · obtain ⟨_, _, h1, _⟩ := bind_ok.1 h
    simp at h1
  · obtain ⟨_, s1, h1, h⟩ := bind_ok.1 h
    have e1 := addFunctions_okS _ h1
    obtain ⟨_, s2, h2, h⟩ := bind_ok.1 h
    simp only [modify_run, Except.ok.injEq, Prod.mk.injEq, true_and] at h2
    obtain ⟨_, s3, h3, h⟩ := bind_ok.1 h
    unfold scopeBegin at h3
    simp only [modify_run, Except.ok.injEq, Prod.mk.injEq, true_and] at h3
    obtain ⟨_, s5, h5, h⟩ := bind_ok.1 h
    unfold processFunction at h5
    obtain ⟨_, s4, h4, h5⟩ := bind_ok.1 h5
    simp only [modify_run, Except.ok.injEq, Prod.mk.injEq, true_and] at h4
    rw [hargs] at h5
    simp only [List.reverse_nil, addLocals, pure_bind] at h5
    obtain ⟨_, s6, h6, h⟩ := bind_ok.1 h
    simp only [modify_run, Except.ok.injEq, Prod.mk.injEq, true_and] at h6
    obtain ⟨_, s7, h7, h⟩ := bind_ok.1 h
    obtain ⟨_, s8, h8, h⟩ := bind_ok.1 h
    obtain ⟨_, s9, h9, h⟩ := bind_ok.1 h
    obtain ⟨_, s10, h10, h11⟩ := bind_ok.1 h
    simp only [modify_run, Except.ok.injEq, Prod.mk.injEq, true_and] at h10
    -- the state in which the cards of `main` are compiled
    have hb4 : s4.bytecode = #[] := by rw [← h4, ← h3, ← h2, e1]
    have hsd4 : s4.scopeDepth = [1] := by rw [← h4, ← h3, ← h2, e1]; rfl
    have hl4 : LInv s4 [] := by
      refine ⟨?_, ?_, fun p hp => (by cases hp), by simp⟩
      · rw [← h4, ← h3, ← h2, e1]
      · rw [← h4, ← h3, ← h2, e1]; rfl
    -- what follows only appends
    have x6 : Ext s5.bytecode.size s5 s6 := Ext.of_eq (by rw [← h6]) (by rw [← h6])
    have x7 := ((scopeEnd_mono (k := s5.bytecode.size)).run _ _ _ h7 x6.size_le).1
    have x8 := ((processCard_mono (k := s7.bytecode.size) .abort).run _ _ _ h8 (Nat.le_refl _)).1
    have x9 := ((compileFunctions_mono (k := s8.bytecode.size) _).run _ _ _ h9 (Nat.le_refl _)).1
    have x10 : Ext s8.bytecode.size s9 s10 := Ext.of_eq (by rw [← h10]) (by rw [← h10])
    have x11 := ((pushInstr_mono (k := s8.bytecode.size) op.exit).run _ _ _ h11
      (Nat.le_trans x9.size_le x10.size_le)).1
    have x8f : Ext s8.bytecode.size s8 sf := (x9.trans x10).trans x11
    have x7f : Ext s7.bytecode.size s7 sf := x8.trans (x8f.weaken x8.size_le)
    have x5f : Ext s5.bytecode.size s5 sf := (x6.trans x7).trans (x7f.weaken (Nat.le_trans x6.size_le x7.size_le))
    have v6 : VExt s5 s6 := VExt.of_eq (by rw [← h6]) (by rw [← h6]) (by rw [← h6])
    have v10 : VExt s9 s10 := VExt.of_eq (by rw [← h10]) (by rw [← h10]) (by rw [← h10])
    have v5f : VExt s5 sf :=
      ((((v6.trans (scopeEnd_vr.run _ _ _ h7)).trans ((processCard_vr .abort).run _ _ _ h8)).trans
        ((compileFunctions_vr _).run _ _ _ h9)).trans v10).trans ((pushInstr_vr _).run _ _ _ h11)
    obtain ⟨t, ht⟩ := v5f.ids
    obtain ⟨hl5, hd5, hcs⟩ := tcodes_of_processFunctionCards sf.bytecode sf.varIds hB hF 1 _ [] hst 0 s4 s5 h5 hl4
      (by unfold curDepth; rw [hsd4]; rfl) ⟨x5f.size_le, fun i _ hi => x5f.pref i hi⟩ ⟨t, ht⟩
    rw [hb4] at hcs
    -- the `Pop`s of the locals and the `Exit` after the cards of `main`
    have hsd6 : s6.scopeDepth = [1] := by rw [← h6, hd5, hsd4]
    have hdepths : ∀ L cs, (∀ p ∈ L, p.2 = (1 : Int)) → ∀ p ∈ topsCtx 1 L cs, p.2 = (1 : Int) := by
      intro L cs
      induction cs generalizing L with
      | nil => intro hL; exact hL
      | cons c cs ih =>
        intro hL
        simp only [topsCtx]
        rcases declOf L c with _ | ⟨n, e⟩
        · exact ih L hL
        · refine ih _ fun p hp => ?_
          rcases List.mem_append.1 hp with hp | hp
          · exact hL p hp
          · simp only [List.mem_singleton] at hp; rw [hp]
    obtain ⟨b7, _⟩ := scopeEnd_pops (L := topsCtx 1 [] unit[0]!.cards) (s := s6)
      (by rw [← h6]; exact hl5.fid) (by rw [← h6]; exact hl5.locals)
      (fun p hp => by
        rw [hsd6, hdepths [] _ (fun p hp => by cases hp) p hp]
        decide) h7
    simp only [processCard] at h8
    obtain ⟨_, s7', h8a, h8b⟩ := bind_ok.1 h8
    obtain ⟨b8a, _, _⟩ := cardLabel_ok' h8a
    obtain ⟨b8b, _, _⟩ := pushInstr_ok h8b
    have e7 : s7.bytecode = s5.bytecode ++ (List.replicate (topsCtx 1 [] unit[0]!.cards).length op.pop).toArray := by
      rw [b7, ← h6]
    have hsz7 : s7.bytecode.size = s5.bytecode.size + (topsCtx 1 [] unit[0]!.cards).length := by
      rw [e7]; simp
    have e8 : s8.bytecode = s7.bytecode.push op.exit := by rw [b8b, b8a]
    have hsz8 : s8.bytecode.size = s7.bytecode.size + 1 := by rw [e8]; simp
    refine ⟨s5.bytecode.size, by simpa using hcs, fun j hj => ?_, ?_, by have := x8f.size_le; omega, hinv⟩
    · rw [getD_congr (x7f.pref (s5.bytecode.size + j) (by omega)), e7]
      simp [Array.getD_eq_getD_getElem?, hj]
    · rw [← hsz7, getD_congr (x8f.pref s7.bytecode.size (by omega)), e8]
      simp [Array.getD_eq_getD_getElem?]


/-- the layout of a compiled program whose `main` uses locals: the code of the cards of `main` from
    address 0, one `Pop` per local, then `Exit` -/
theorem compile_mainL {m std : Module} {limit : Nat} {p : Program} (h : compile m std limit = .ok p)
    {i : Nat} {nf : String × Func}
    (hi : m.functions.findIdx? (fun p => p.1 == "main") = some i) (hf : m.functions[i]? = some nf)
    (hargs : nf.2.arguments = []) (hst : isTops 1 [] nf.2.cards = true)
    (hB : p.bytecode.size < 4294967296) (hV : p.varIds.length < 4294967296) :
    ∃ mainEnd, TCodes p.bytecode p.varIds 1 [] nf.2.cards 0 mainEnd ∧
      (∀ j, j < (topsCtx 1 [] nf.2.cards).length → p.bytecode.getD (mainEnd + j) 0 = op.pop) ∧
      p.bytecode.getD (mainEnd + (topsCtx 1 [] nf.2.cards).length) 0 = op.exit ∧
      mainEnd + (topsCtx 1 [] nf.2.cards).length < p.bytecode.size ∧
      (∀ a b, a ∈ p.varIds → b ∈ p.varIds → a.2 = b.2 → a = b) := by
  unfold compile at h
  split at h
  · cases h
  · rename_i unit hunit
    split at h
    · cases h
    · rename_i s hs
      simp only [Except.ok.injEq] at h
      subst h
      obtain ⟨e1, e2⟩ := intoIrStream_main hunit hi hf
      obtain ⟨mainEnd, c1, c2, c3, c4, c5⟩ := compileUnit_mainL (unit := unit) (sf := s) hs (by rw [e1, hargs])
        (by rw [e2, hst]) hB hV
      rw [e2] at c1 c2 c3 c4
      exact ⟨mainEnd, c1, c2, c3, c4, pairwise_inj (f := fun (p : UInt32 × Nat) => p.2) c5.inj⟩

end Cao.Compiler

/-! ## the instructions for locals -/

namespace Cao.Sim
open Cao Cao.Vm

section steps
variable {P : Prog} {re : Reenter} {ip : Nat} {s : VmState}

theorem runM_bind_of_ok {α β : Type} {x : M α} {g : α → M β} {s s1 : VmState} {a : α}
    (h : runM x s = (.ok a, s1)) : runM (x >>= g) s = runM (g a) s1 := by
  rw [runM_bind, h]

theorem runM_curFrame {f : Frame} (h : s.frames.getLast? = some f) : runM curFrame s = (.ok f, s) := by
  unfold curFrame
  simp [h]

theorem runM_readLocal (off handle : Nat) :
    runM (readLocal off handle) s = (.ok (s.stack.get (off + handle)), s) := rfl

theorem step_readLocalVar {st' : VStack Val} {f : Frame}
    (h : P.bytecode.getD ip 0 = Compiler.op.readLocalVar) (hf : s.frames.getLast? = some f)
    (hp : s.stack.push (s.stack.get (f.stackOffset + rdU32 P.bytecode (ip + 1))) = (st', .ok ())) :
    runM (step P re ip) s = (.ok { ip := ip + 1 + 4 }, { s with stack := st' }) := by
  unfold runM
  step_unfold h
  rw [runM_bind, runM_curFrame hf]
  dsimp only
  rw [runM_bind, runM_readLocal]
  dsimp only
  rw [runM_bind, runM_push hp]
  rfl

theorem runM_writeLocal {off handle : Nat} {v old : Val} {st' : VStack Val}
    (h : s.stack.set (off + handle) v = (st', .ok old)) :
    runM (writeLocal off handle v) s = (.ok (), { s with stack := st' }) := by
  unfold writeLocal
  rw [runM_bind, runM_get]
  dsimp only
  simp only [h]
  exact runM_set _ _

theorem step_setLocalVar {st' : VStack Val} {f : Frame} {old : Val}
    (h : P.bytecode.getD ip 0 = Compiler.op.setLocalVar) (hf : s.frames.getLast? = some f)
    (hp : (s.stack.popWOffset f.stackOffset).1.set (f.stackOffset + rdU32 P.bytecode (ip + 1))
      (s.stack.popWOffset f.stackOffset).2 = (st', .ok old)) :
    runM (step P re ip) s = (.ok { ip := ip + 1 + 4 }, { s with stack := st' }) := by
  unfold runM
  step_unfold h
  rw [runM_bind, runM_curFrame hf]
  dsimp only
  rw [runM_bind, runM_get]
  dsimp only
  generalize hX : ({ s with stack := (s.stack.popWOffset f.stackOffset).1 } : VmState) = X
  have e : runM (set X : M Unit) s = (.ok (), X) := rfl
  rw [runM_bind]
  have e3 : ∀ (x : Except ErrKind Unit × VmState), x = (.ok (), X) → (match x with
    | (Except.ok a, s') => runM (do writeLocal f.stackOffset (rdU32 P.bytecode (ip + 1)) (s.stack.popWOffset f.stackOffset).snd; pure ({ ip := ip + 1 + 4 } : Ctl)) s'
    | (Except.error e, s') => (Except.error e, s')) = runM (do writeLocal f.stackOffset (rdU32 P.bytecode (ip + 1)) (s.stack.popWOffset f.stackOffset).snd; pure ({ ip := ip + 1 + 4 } : Ctl)) X := by
    intro x hx; rw [hx]
  refine (e3 _ e).trans ?_
  have hw := runM_writeLocal (s := X) (off := f.stackOffset) (handle := rdU32 P.bytecode (ip + 1)) (v := (s.stack.popWOffset f.stackOffset).snd) (st' := st') (old := old) (by rw [← hX]; exact hp)
  refine (runM_bind_of_ok hw).trans ?_
  subst hX
  rfl
end steps
theorem StackIs.get {st : VStack Val} {cap : Nat} {l : List Val} (h : StackIs st cap l) {i : Nat}
    (hi : i < l.length) : st.get i = l.reverse.getD i .nil := by
  obtain ⟨hc, _, hl⟩ := h
  unfold VStack.get
  rw [if_neg (by omega)]
  have h1 : (st.data.take st.count)[i]? = l.reverse[i]? := by rw [hl]
  rw [List.getElem?_take] at h1
  simp only [show i < st.count by omega, if_true] at h1
  simp only [List.getD_eq_getElem?_getD, h1]
  rfl

theorem take_set_lt {α : Type} (l : List α) (n i : Nat) (v : α) :
    (l.set i v).take n = (l.take n).set i v := by
  rw [List.take_set]

theorem StackIs.setAt {st : VStack Val} {cap : Nat} {l : List Val} (h : StackIs st cap l) {i : Nat} (v : Val)
    (hi : i < l.length) :
    ∃ old, st.set i v = ({ st with data := st.data.set i v }, .ok old) ∧
      StackIs { st with data := st.data.set i v } cap ((l.reverse.set i v).reverse) := by
  obtain ⟨hc, hcap, hl⟩ := h
  refine ⟨st.data.getD i default, ?_, ?_, ?_, ?_⟩
  · unfold VStack.set
    rw [if_neg (by omega), if_neg (by omega)]
  · simp [hc]
  · simpa using hcap
  · show (st.data.set i v).take st.count = _
    rw [List.reverse_reverse, take_set_lt, hl]

theorem StackIs.setTop {st : VStack Val} {cap : Nat} {l : List Val} (h : StackIs st cap l) (v : Val)
    (hroom : l.length + 1 < cap) :
    ∃ st', st.set l.length v = (st', .ok default) ∧ StackIs st' cap (v :: l) := by
  obtain ⟨st', hp, hst'⟩ := h.push v hroom
  refine ⟨st', ?_, hst'⟩
  unfold VStack.set
  rw [if_neg (by rw [h.count]; omega), if_pos h.count.symm, hp]

theorem StackIs.popW0 {st : VStack Val} {cap : Nat} {l : List Val} {v : Val} (h : StackIs st cap (v :: l)) :
    (st.popWOffset 0).2 = v ∧ StackIs (st.popWOffset 0).1 cap l := by
  unfold VStack.popWOffset
  rw [if_neg (by rw [h.count]; simp)]
  exact h.pop


end Cao.Sim
