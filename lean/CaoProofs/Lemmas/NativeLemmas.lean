import CaoProofs.Lemmas.VmFrame
import CaoProofs.Props.C02
import CaoProofs.Props.C05
/-!
# Lemmas for the native functions (C09, C18)

* success / failure inversion for `M` (`ok_bind`, `err_bind`, …) and the primitives of
  `CaoModel/Vm.lean` as equations on `M.go`;
* `Heap.get` after `withObject` / `Heap.set`;
* the value stack seen through its live slots: `Prefix`, `StackSame`;
* `Grown s₀ s`: `s` is `s₀` plus private objects and guards — everything reachable in `s₀` is
  untouched; closed under allocation (with collections), object creation, guard handling;
* success specifications of `initTable`, `initString`, `tableInsert`;
* `flat` values (everything but tables): their deep value only depends on their own object.
-/
namespace Cao.Native
open Cao Cao.Vm Cao.Gc Cao.C02 Cao.C05
set_option linter.unusedSectionVars false
set_option linter.unusedVariables false

/-! ## inversion of successful and failing runs -/
section inversion
variable {α β : Type}

theorem ok_bind {m : M α} {f : α → M β} {s s'' : VmState} {b : β}
    (h : (m >>= f).go s = (.ok b, s'')) :
    ∃ a s', m.go s = (.ok a, s') ∧ (f a).go s' = (.ok b, s'') := by
  rw [go_bind] at h
  rcases hm : m.go s with ⟨r, s'⟩
  rw [hm] at h
  cases r with
  | error e => simp at h
  | ok a => exact ⟨a, s', rfl, h⟩

theorem err_bind {m : M α} {f : α → M β} {s s'' : VmState} {e : ErrKind}
    (h : (m >>= f).go s = (.error e, s'')) :
    m.go s = (.error e, s'') ∨ ∃ a s', m.go s = (.ok a, s') ∧ (f a).go s' = (.error e, s'') := by
  rw [go_bind] at h
  rcases hm : m.go s with ⟨r, s'⟩
  rw [hm] at h
  cases r with
  | error e' => left; simpa using h
  | ok a => right; exact ⟨a, s', rfl, h⟩

theorem go_bind_ok {m : M α} {f : α → M β} {s s' : VmState} {a : α} (h : m.go s = (.ok a, s')) :
    (m >>= f).go s = (f a).go s' := by rw [go_bind, h]

theorem go_bind_err {m : M α} {f : α → M β} {s s' : VmState} {e : ErrKind}
    (h : m.go s = (.error e, s')) : (m >>= f).go s = (.error e, s') := by rw [go_bind, h]

theorem go_tryCatch_ok {m : M α} {h : ErrKind → M α} {s s' : VmState} {a : α}
    (hm : m.go s = (.ok a, s')) : (tryCatch m h).go s = (.ok a, s') := by rw [go_tryCatch, hm]

theorem go_tryCatch_err {m : M α} {h : ErrKind → M α} {s s' : VmState} {e : ErrKind}
    (hm : m.go s = (.error e, s')) : (tryCatch m h).go s = (h e).go s' := by rw [go_tryCatch, hm]

/-- `try m catch e => …; throw …` succeeds only when `m` does -/
theorem ok_tryCatch_throw {m : M α} {h : ErrKind → M α} {s s' : VmState} {a : α}
    (hh : ∀ e s₁, ∃ e' s₂, (h e).go s₁ = (.error e', s₂))
    (hok : (tryCatch m h).go s = (.ok a, s')) : m.go s = (.ok a, s') := by
  rcases hm : m.go s with ⟨r, s₁⟩
  cases r with
  | ok a' => rw [go_tryCatch_ok hm] at hok; exact hok
  | error e =>
    obtain ⟨e', s₂, h2⟩ := hh e s₁
    rw [go_tryCatch_err hm, h2] at hok; cases hok

end inversion

/-! ## the primitives as equations -/

@[simp] theorem go_peek (n : Nat) (s : VmState) : (peek n).go s = (.ok (s.stack.peekLast n), s) := rfl
@[simp] theorem go_popN (n : Nat) (s : VmState) :
    (popN n).go s = (.ok ⟨⟩, { s with stack := (s.stack.popN n).1 }) := rfl
@[simp] theorem go_dropGuard (a : Nat) (s : VmState) :
    (dropGuard a).go s = (.ok ⟨⟩, { s with guards := s.guards.erase a }) := rfl
@[simp] theorem go_pop (s : VmState) :
    pop.go s = (.ok s.stack.pop.2, { s with stack := s.stack.pop.1 }) := rfl

theorem go_push (v : Val) (s : VmState) :
    (push v).go s =
      if s.stack.count + 1 < s.stack.data.length then
        (.ok ⟨⟩, { s with stack := ⟨s.stack.count + 1, s.stack.data.set s.stack.count v⟩ })
      else (.error .stackoverflow, s) := by
  unfold push
  rw [go_bind]
  simp only [go_get]
  unfold VStack.push
  by_cases h : s.stack.count + 1 < s.stack.data.length
  · simp only [h, if_true]; rfl
  · simp only [h, if_false]; rfl

theorem push_ok {v : Val} {s s' : VmState} {u : PUnit} (h : (push v).go s = (.ok u, s')) :
    s.stack.count + 1 < s.stack.data.length ∧
    s' = { s with stack := ⟨s.stack.count + 1, s.stack.data.set s.stack.count v⟩ } := by
  rw [go_push] at h
  split at h
  · rename_i hc
    exact ⟨hc, by simpa using h.symm⟩
  · simp at h

theorem push_err {v : Val} {s s' : VmState} {e : ErrKind} (h : (push v).go s = (.error e, s')) :
    e = .stackoverflow ∧ s' = s := by
  rw [go_push] at h
  split at h
  · simp at h
  · simp only [Prod.mk.injEq, Except.error.injEq] at h
    exact ⟨h.1.symm, h.2.symm⟩

/-! ## the heap -/

theorem get_withObject_new (o : Obj) (s : VmState) (hf : FreshNext s.heap) :
    (withObject o s).heap.get s.heap.next = some o := by
  unfold withObject Heap.get
  simp only [List.find?_append]
  have : s.heap.objs.find? (fun p => p.1 == s.heap.next) = none := by
    rw [List.find?_eq_none]
    intro p hp hpe
    have := hf p hp
    have : p.1 = s.heap.next := by simpa using hpe
    omega
  simp [this]

theorem get_withObject_old (o : Obj) (s : VmState) (b : Nat) (hb : b ≠ s.heap.next) :
    (withObject o s).heap.get b = s.heap.get b := by
  unfold withObject Heap.get
  simp only [List.find?_append]
  cases h : s.heap.objs.find? (fun p => p.1 == b) with
  | some p => simp
  | none =>
    have : (s.heap.next == b) = false := by simpa using fun h => hb h.symm
    simp [this]

theorem get_lt_next {h : Heap} (hf : FreshNext h) {b : Nat} {o : Obj} (hg : h.get b = some o) :
    b < h.next := by
  unfold Heap.get at hg
  cases hfind : h.objs.find? (fun p => p.1 == b) with
  | none => rw [hfind] at hg; cases hg
  | some p =>
    have hm := List.mem_of_find?_eq_some hfind
    have hp := List.find?_some hfind
    have : p.1 = b := by simpa using hp
    rw [← this]; exact hf p hm

theorem get_next_none {h : Heap} (hf : FreshNext h) : h.get h.next = none := by
  cases hg : h.get h.next with
  | none => rfl
  | some o => exact absurd (get_lt_next hf hg) (Nat.lt_irrefl _)

theorem get_set_same {h : Heap} {a : Nat} {o₀ : Obj} (o : Obj) (hg : h.get a = some o₀) :
    (h.set a o).get a = some o := by
  unfold Heap.get Heap.set at *
  simp only
  generalize h.objs = l at hg
  induction l with
  | nil => simp at hg
  | cons p l ih =>
    simp only [List.map_cons, List.find?_cons] at hg ⊢
    by_cases hp : (p.1 == a) = true
    · simp [hp]
    · have hp' : (p.1 == a) = false := by simpa using hp
      simp only [hp'] at hg ⊢
      simp only [Bool.false_eq_true, if_false, hp']
      exact ih hg

theorem get_set_other {h : Heap} {a b : Nat} (o : Obj) (hb : b ≠ a) :
    (h.set a o).get b = h.get b := by
  unfold Heap.get Heap.set
  simp only
  generalize h.objs = l
  induction l with
  | nil => rfl
  | cons p l ih =>
    simp only [List.map_cons, List.find?_cons]
    by_cases hp : (p.1 == a) = true
    · have hpa : p.1 = a := by simpa using hp
      have h1 : (a == b) = false := by simpa using fun h => hb h.symm
      have h2 : (p.1 == b) = false := by rw [hpa]; exact h1
      simp only [hp, if_true, h1, h2]
      exact ih
    · simp only [hp, Bool.false_eq_true, if_false]
      cases hq : (p.1 == b) with
      | true => rfl
      | false => exact ih

theorem set_next (h : Heap) (a : Nat) (o : Obj) : (h.set a o).next = h.next := rfl

/-! ## the value stack through its live slots -/

/-- `st'` is `st` cut down to a smaller height: same capacity, same slots below the new height -/
structure Prefix (st' st : VStack Val) : Prop where
  le : st'.count ≤ st.count
  cap : st'.data.length = st.data.length
  slots : ∀ i, i < st'.count → st'.data[i]? = st.data[i]?

/-- same height, same capacity, same live slots (the stale slots above may differ) -/
structure StackSame (st st' : VStack Val) : Prop where
  count : st'.count = st.count
  cap : st'.data.length = st.data.length
  slots : ∀ i, i < st.count → st'.data[i]? = st.data[i]?

theorem StackSame.refl (st : VStack Val) : StackSame st st := ⟨rfl, rfl, fun _ _ => rfl⟩
theorem StackSame.trans {a b c : VStack Val} (h1 : StackSame a b) (h2 : StackSame b c) :
    StackSame a c :=
  ⟨h2.count.trans h1.count, h2.cap.trans h1.cap,
   fun i hi => (h2.slots i (by rw [h1.count]; exact hi)).trans (h1.slots i hi)⟩
theorem StackSame.symm {a b : VStack Val} (h : StackSame a b) : StackSame b a :=
  ⟨h.count.symm, h.cap.symm, fun i hi => (h.slots i (by rw [← h.count]; exact hi)).symm⟩
theorem StackSame.of_eq {a b : VStack Val} (h : b = a) : StackSame a b := h ▸ StackSame.refl a

theorem Prefix.refl (st : VStack Val) : Prefix st st := ⟨Nat.le_refl _, rfl, fun _ _ => rfl⟩
theorem Prefix.trans {a b c : VStack Val} (h1 : Prefix a b) (h2 : Prefix b c) : Prefix a c :=
  ⟨Nat.le_trans h1.le h2.le, h1.cap.trans h2.cap,
   fun i hi => (h1.slots i hi).trans (h2.slots i (Nat.lt_of_lt_of_le hi h1.le))⟩

/-- a successful push extends the stack -/
theorem Prefix.push (st : VStack Val) (v : Val) :
    Prefix st ⟨st.count + 1, st.data.set st.count v⟩ :=
  ⟨Nat.le_succ _, by simp, fun i hi => by
    simp only [List.getElem?_set]
    have : ¬ st.count = i := by omega
    simp [this]⟩

/-- cutting back to the original height gives the original stack -/
theorem StackSame.of_prefix {st₀ st st' : VStack Val} (h0 : Prefix st₀ st) (h1 : Prefix st' st)
    (hc : st'.count = st₀.count) : StackSame st₀ st' :=
  ⟨hc, h1.cap.trans h0.cap.symm,
   fun i hi => (h1.slots i (by rw [hc]; exact hi)).trans (h0.slots i hi).symm⟩

theorem StackSame.contents {a b : VStack Val} (h : StackSame a b) : b.contents = a.contents := by
  unfold VStack.contents
  apply List.ext_getElem?
  intro i
  simp only [List.getElem?_take, h.count]
  split
  · exact h.slots i ‹_›
  · rfl

theorem StackSame.peekLast {a b : VStack Val} (h : StackSame a b) (n : Nat) :
    b.peekLast n = a.peekLast n := by
  unfold VStack.peekLast
  rw [h.count]
  split
  · rename_i hn
    have := h.slots (a.count - n - 1) (by omega)
    simp only [List.getD_eq_getElem?_getD, this]
  · rfl

/-- an object on top of the stack is a live slot -/
theorem peekLast_mem_contents {st : VStack Val} {n a : Nat} (h : st.peekLast n = .obj a) :
    Val.obj a ∈ st.contents := by
  unfold VStack.peekLast at h
  split at h
  · rename_i hn
    rw [List.getD_eq_getElem?_getD] at h
    cases hg : st.data[st.count - n - 1]? with
    | none => rw [hg] at h; cases h
    | some v =>
      rw [hg] at h
      simp only [Option.getD_some] at h
      subst h
      unfold VStack.contents
      apply List.mem_iff_getElem?.mpr
      exact ⟨st.count - n - 1, by rw [List.getElem?_take, if_pos (by omega)]; exact hg⟩
  · cases h

theorem peekLast_push0 (c : Nat) (d : List Val) (v : Val) (h : c < d.length) :
    (⟨c + 1, d.set c v⟩ : VStack Val).peekLast 0 = v := by
  unfold VStack.peekLast
  simp only [Nat.zero_lt_succ, if_true, Nat.sub_zero, Nat.add_sub_cancel]
  rw [List.getD_eq_getElem?_getD, List.getElem?_set]
  simp [h]

theorem peekLast_succ_push (c : Nat) (d : List Val) (v : Val) (n : Nat) :
    (⟨c + 1, d.set c v⟩ : VStack Val).peekLast (n + 1) = (⟨c, d⟩ : VStack Val).peekLast n := by
  unfold VStack.peekLast
  simp only [Nat.add_lt_add_iff_right]
  split
  · rename_i hn
    rw [List.getD_eq_getElem?_getD, List.getD_eq_getElem?_getD, List.getElem?_set]
    have : ¬ c = c + 1 - (n + 1) - 1 := by omega
    simp only [this, if_false]
    congr 2; omega
  · rfl

/-! ## `Grown`: the machine plus private objects -/

theorem rootAddrs_congr {s s' : VmState} (h1 : s'.stack.contents = s.stack.contents)
    (h2 : s'.globals = s.globals) (h3 : s'.frames = s.frames)
    (h4 : s'.openUpvalues = s.openUpvalues) (h5 : s'.guards = s.guards) :
    rootAddrs s' = rootAddrs s := by
  unfold rootAddrs roots; rw [h1, h2, h3, h4, h5]

theorem rootAddrs_sub {s s' : VmState} (h1 : s'.stack.contents = s.stack.contents)
    (h2 : s'.globals = s.globals) (h3 : s'.frames = s.frames)
    (h4 : s'.openUpvalues = s.openUpvalues) (h5 : ∀ g ∈ s.guards, g ∈ s'.guards) :
    ∀ a ∈ rootAddrs s, a ∈ rootAddrs s' := by
  intro a ha
  rw [rootAddrs, mem_addrs] at ha ⊢
  unfold roots at ha ⊢
  rw [h1, h2, h3, h4]
  simp only [List.mem_append, List.mem_map] at ha ⊢
  rcases ha with ((((h | h) | h) | h) | ⟨g, hg, hge⟩)
  · exact Or.inl (Or.inl (Or.inl (Or.inl h)))
  · exact Or.inl (Or.inl (Or.inl (Or.inr h)))
  · exact Or.inl (Or.inl (Or.inr h))
  · exact Or.inl (Or.inr h)
  · exact Or.inr ⟨g, h5 g hg, hge⟩

theorem mem_rootAddrs_stack {s : VmState} {a : Nat} (h : Val.obj a ∈ s.stack.contents) :
    a ∈ rootAddrs s := by
  rw [rootAddrs, mem_addrs]; unfold roots
  simp only [List.mem_append]
  exact Or.inl (Or.inl (Or.inl (Or.inl h)))

theorem mem_rootAddrs_guard {s : VmState} {a : Nat} (h : a ∈ s.guards) : a ∈ rootAddrs s := by
  rw [rootAddrs, mem_addrs]; unfold roots
  simp only [List.mem_append, List.mem_map]
  exact Or.inr ⟨a, h, rfl⟩

/-- `Reach.transfer` only needs the allocated objects to agree -/
theorem reach_transfer {h h' : Heap} {rs : List Nat}
    (hag : ∀ a o, Reach h rs a → h.get a = some o → h'.get a = some o) {a : Nat}
    (ha : Reach h rs a) : Reach h' rs a := by
  induction ha with
  | root hr => exact Reach.root hr
  | step hr ho hc ih => exact Reach.step ih (hag _ _ hr ho) hc

/-- `s` is `s₀` with more guards and more objects: the live stack, the frames, the globals and
    the open upvalues are those of `s₀`, and every object reachable in `s₀` is unchanged -/
structure Grown (s₀ s : VmState) : Prop where
  stack : StackSame s₀.stack s.stack
  frames : s.frames = s₀.frames
  globals : s.globals = s₀.globals
  openUpvalues : s.openUpvalues = s₀.openUpvalues
  guards : ∀ g ∈ s₀.guards, g ∈ s.guards
  keep : ∀ b o, Reach s₀.heap (rootAddrs s₀) b → s₀.heap.get b = some o → s.heap.get b = some o
  next : s₀.heap.next ≤ s.heap.next
  fresh : FreshNext s.heap
  fresh₀ : FreshNext s₀.heap

theorem Grown.refl (s : VmState) (hf : FreshNext s.heap) : Grown s s :=
  ⟨StackSame.refl _, rfl, rfl, rfl, fun _ h => h, fun _ _ _ h => h, Nat.le_refl _, hf, hf⟩

/-- what was reachable stays reachable -/
theorem Grown.reach {s₀ s : VmState} (h : Grown s₀ s) {b : Nat}
    (hb : Reach s₀.heap (rootAddrs s₀) b) : Reach s.heap (rootAddrs s) b := by
  have h1 : Reach s.heap (rootAddrs s₀) b := reach_transfer (fun a o ha ho => h.keep a o ha ho) hb
  exact Reach.mono (fun r hr => Reach.root
    (rootAddrs_sub h.stack.contents h.globals h.frames h.openUpvalues h.guards r hr)) h1

/-- any change that keeps the roots (up to more guards), keeps every reachable object and keeps
    the heap well-formed -/
theorem Grown.step {s₀ s s' : VmState} (h : Grown s₀ s) (hst : StackSame s.stack s'.stack)
    (hfr : s'.frames = s.frames) (hgl : s'.globals = s.globals)
    (hup : s'.openUpvalues = s.openUpvalues)
    (hgu : ∀ g ∈ s₀.guards, g ∈ s'.guards)
    (hkeep : ∀ b o, Reach s.heap (rootAddrs s) b → s.heap.get b = some o → s'.heap.get b = some o)
    (hnext : s.heap.next ≤ s'.heap.next) (hfresh : FreshNext s'.heap) : Grown s₀ s' :=
  ⟨h.stack.trans hst, hfr.trans h.frames, hgl.trans h.globals, hup.trans h.openUpvalues, hgu,
   fun b o hb ho => hkeep b o (h.reach hb) (h.keep b o hb ho), Nat.le_trans h.next hnext, hfresh,
   h.fresh₀⟩

/-! ## allocation -/

theorem allocBytes_fresh (c : Nat) (s : VmState) (hf : FreshNext s.heap) :
    FreshNext ((allocBytes c).go s).2.heap := by
  rcases (allocBytes_vs_no_collection c s).2 with h | h
  · show FreshNext ((allocBytes c).run.run s).2.heap
    rw [h]; exact hf
  · show FreshNext ((allocBytes c).run.run s).2.heap
    rw [h]; exact gc_fresh s hf

theorem allocBytes_obs' (c : Nat) (s : VmState) : ObsEq s ((allocBytes c).go s).2 :=
  allocBytes_obs c s

/-- the observable effect of a run: same roots, same reachable objects, fresh address kept -/
structure Quiet (s s' : VmState) : Prop where
  obs : ObsEq s s'
  fresh : FreshNext s.heap → FreshNext s'.heap

theorem Quiet.refl (s : VmState) : Quiet s s := ⟨ObsEq.refl s, id⟩
theorem Quiet.trans {a b c : VmState} (h1 : Quiet a b) (h2 : Quiet b c) : Quiet a c :=
  ⟨h1.obs.trans h2.obs, fun h => h2.fresh (h1.fresh h)⟩

theorem allocBytes_quiet (c : Nat) (s : VmState) : Quiet s ((allocBytes c).go s).2 :=
  ⟨allocBytes_obs' c s, allocBytes_fresh c s⟩

theorem Grown.quiet {s₀ s s' : VmState} (h : Grown s₀ s) (q : Quiet s s') : Grown s₀ s' :=
  h.step (StackSame.of_eq q.obs.stack) q.obs.frames q.obs.globals q.obs.openUpvalues
    (fun g hg => by rw [q.obs.guards]; exact h.guards g hg)
    (fun b o hb ho => by rw [q.obs.fwd b hb]; exact ho) (Nat.le_of_eq q.obs.next.symm)
    (q.fresh h.fresh)

/-- a private object that is reachable survives a quiet step -/
theorem Quiet.get {s s' : VmState} (q : Quiet s s') {b : Nat}
    (hb : Reach s.heap (rootAddrs s) b) : s'.heap.get b = s.heap.get b := q.obs.fwd b hb

/-- `alloc2Pure` (the common shape of `initTable` and `initString`) on success -/
theorem alloc2Pure_ok {c1 c2 : Nat} {o : Obj} {s s' : VmState} {a : Nat}
    (h : alloc2Pure c1 c2 o s = (.ok a, s')) :
    ∃ s₂, Quiet s s₂ ∧ a = s.heap.next ∧ s' = withObject o s₂ := by
  unfold alloc2Pure at h
  have q1 := allocBytes_quiet c1 s
  rw [show (allocBytes c1).go s = allocPure c1 s from allocBytes_run c1 s] at q1
  rcases h1 : allocPure c1 s with ⟨r1, s1⟩
  rw [h1] at h q1
  cases r1 with
  | error e => simp at h
  | ok u =>
    dsimp only at h
    have q2 := allocBytes_quiet c2 s1
    rw [show (allocBytes c2).go s1 = allocPure c2 s1 from allocBytes_run c2 s1] at q2
    rcases h2 : allocPure c2 s1 with ⟨r2, s2⟩
    rw [h2] at h q2
    cases r2 with
    | error e => simp at h
    | ok u =>
      simp only [Prod.mk.injEq, Except.ok.injEq] at h
      have q := q1.trans q2
      exact ⟨s2, q, by rw [← h.1, q.obs.next], h.2.symm⟩

theorem initTable_ok {s s' : VmState} {a : Nat} (h : initTable.go s = (.ok a, s')) :
    ∃ s₂, Quiet s s₂ ∧ a = s.heap.next ∧ s' = withObject (.table Gen.tableInitCap []) s₂ := by
  rw [show initTable.go s = _ from initTable_run s] at h
  exact alloc2Pure_ok h

theorem initString_ok {b : List UInt8} {s s' : VmState} {a : Nat}
    (h : (initString b).go s = (.ok a, s')) :
    ∃ s₂, Quiet s s₂ ∧ a = s.heap.next ∧ s' = withObject (.str b) s₂ := by
  rw [show (initString b).go s = _ from initString_run b s] at h
  exact alloc2Pure_ok h

theorem withObject_fresh (o : Obj) (s : VmState) (hf : FreshNext s.heap) :
    FreshNext (withObject o s).heap := by
  intro p hp
  simp only [Gc.withObject, List.mem_append, List.mem_singleton] at hp ⊢
  rcases hp with hp | rfl
  · exact Nat.lt_succ_of_lt (hf p hp)
  · exact Nat.lt_succ_self _

/-- creating an object, seen from `s₀` -/
theorem Grown.withObject {s₀ s : VmState} (h : Grown s₀ s) (o : Obj) :
    Grown s₀ (withObject o s) := by
  refine ⟨h.stack, h.frames, h.globals, h.openUpvalues,
    fun g hg => List.mem_cons_of_mem _ (h.guards g hg), ?_, Nat.le_succ_of_le h.next,
    withObject_fresh o s h.fresh, h.fresh₀⟩
  intro b ob hb ho
  have h1 := h.keep b ob hb ho
  have hp : b ≠ s.heap.next := Nat.ne_of_lt (get_lt_next h.fresh h1)
  rw [get_withObject_old o s b hp]; exact h1


/-- objects of `s₀` are below its fresh address, hence different from every private object -/
theorem Grown.old_lt {s₀ s : VmState} (h : Grown s₀ s) {b : Nat} {o : Obj}
    (ho : s₀.heap.get b = some o) : b < s₀.heap.next := get_lt_next h.fresh₀ ho

/-- dropping a guard that `s₀` does not hold -/
theorem Grown.dropGuard {s₀ s : VmState} (h : Grown s₀ s) (a : Nat)
    (hg : ∀ g ∈ s₀.guards, g ∈ s.guards.erase a) :
    Grown s₀ { s with guards := s.guards.erase a } :=
  ⟨h.stack, h.frames, h.globals, h.openUpvalues, hg, h.keep, h.next, h.fresh, h.fresh₀⟩

/-- replacing the guard list by one that still contains the guards of `s₀` -/
theorem Grown.setGuards {s₀ s : VmState} (h : Grown s₀ s) (G : List Nat)
    (hg : ∀ g ∈ s₀.guards, g ∈ G) : Grown s₀ { s with guards := G } :=
  ⟨h.stack, h.frames, h.globals, h.openUpvalues, hg, h.keep, h.next, h.fresh, h.fresh₀⟩

/-- the guard a native holds on a value: only objects are guarded -/
def guardOf (v : Val) : List Nat := match v with | .obj a => [a] | _ => []

/-- releasing that guard -/
def unguard (v : Val) (g : List Nat) : List Nat := match v with | .obj a => g.erase a | _ => g

theorem unguard_guardOf (v : Val) (g : List Nat) : unguard v (guardOf v ++ g) = g := by
  cases v <;> simp [unguard, guardOf]

theorem go_guardVal (v : Val) (s : VmState) :
    (guardVal v).go s = (.ok ⟨⟩, { s with guards := guardOf v ++ s.guards }) := by
  cases v <;> rfl

theorem go_unguardVal (v : Val) (s : VmState) :
    (unguardVal v).go s = (.ok ⟨⟩, { s with guards := unguard v s.guards }) := by
  cases v <;> rfl

/-! ## `guardRows` / `unguardRows` -/

/-- the guards `guardRows es` adds, as they end up on the guard list (last row first) -/
def rowGuards : List (Val × Val) → List Nat
  | [] => []
  | e :: es => rowGuards es ++ (guardOf e.2 ++ guardOf e.1)

/-- what `unguardRows es` does to the guard list -/
def unrow : List (Val × Val) → List Nat → List Nat
  | [], g => g
  | e :: es, g => unrow es (unguard e.2 (unguard e.1 g))

theorem guardRows_cons (k v : Val) (es : List (Val × Val)) :
    guardRows ((k, v) :: es) = (guardVal k >>= fun _ => guardVal v >>= fun _ => guardRows es) := by
  unfold guardRows
  simp only [List.forIn_cons, bind_assoc, pure_bind]

theorem unguardRows_cons (k v : Val) (es : List (Val × Val)) :
    unguardRows ((k, v) :: es) = (unguardVal k >>= fun _ => unguardVal v >>= fun _ => unguardRows es) := by
  unfold unguardRows
  simp only [List.forIn_cons, bind_assoc, pure_bind]

theorem go_guardRows (es : List (Val × Val)) : ∀ s : VmState,
    (guardRows es).go s = (.ok ⟨⟩, { s with guards := rowGuards es ++ s.guards }) := by
  induction es with
  | nil => intro s; rfl
  | cons e es ih =>
    intro s
    obtain ⟨k, v⟩ := e
    rw [guardRows_cons, go_bind_ok (go_guardVal k s), go_bind_ok (go_guardVal v _), ih]
    simp only [rowGuards, List.append_assoc]

theorem go_unguardRows (es : List (Val × Val)) : ∀ s : VmState,
    (unguardRows es).go s = (.ok ⟨⟩, { s with guards := unrow es s.guards }) := by
  induction es with
  | nil => intro s; rfl
  | cons e es ih =>
    intro s
    obtain ⟨k, v⟩ := e
    rw [unguardRows_cons, go_bind_ok (go_unguardVal k s), go_bind_ok (go_unguardVal v _), ih]
    rfl

/-- the addresses `unguardRows es` releases, in order -/
def rowAddrs (es : List (Val × Val)) : List Nat := es.flatMap (fun e => guardOf e.1 ++ guardOf e.2)

theorem unguard_eq_foldl' (v : Val) (g : List Nat) : unguard v g = (guardOf v).foldl List.erase g := by
  cases v <;> rfl

theorem unrow_eq_foldl (es : List (Val × Val)) : ∀ g, unrow es g = (rowAddrs es).foldl List.erase g := by
  induction es with
  | nil => intro g; rfl
  | cons e es ih =>
    intro g
    simp only [unrow, rowAddrs, List.flatMap_cons, List.foldl_append, ih, unguard_eq_foldl']

theorem rowGuards_perm (es : List (Val × Val)) : (rowAddrs es).Perm (rowGuards es) := by
  induction es with
  | nil => exact List.Perm.refl _
  | cons e es ih =>
    simp only [rowAddrs, rowGuards, List.flatMap_cons]
    exact (List.Perm.append List.perm_append_comm ih).trans List.perm_append_comm

/-- erasing (in any order) exactly the elements that were put in front gives back the rest -/
theorem foldl_erase_front : ∀ (P' P R : List Nat), P'.Perm P → P'.foldl List.erase (P ++ R) = R := by
  intro P'
  induction P' with
  | nil => intro P R h; rw [List.nil_perm.mp h]; rfl
  | cons x xs ih =>
    intro P R h
    have hx : x ∈ P := h.subset List.mem_cons_self
    have h' : xs.Perm (P.erase x) := by
      have := h.erase x
      rwa [List.erase_cons_head] at this
    rw [List.foldl_cons, List.erase_append_left _ hx]
    exact ih _ _ h'

/-- **`unguardRows` undoes `guardRows`** exactly (not only up to permutation): every address it
    erases is first found among the ones `guardRows` put in front -/
theorem unrow_rowGuards (es : List (Val × Val)) (g : List Nat) : unrow es (rowGuards es ++ g) = g := by
  rw [unrow_eq_foldl]; exact foldl_erase_front _ _ _ (rowGuards_perm es)

theorem mem_of_mem_unguard {v : Val} {g : List Nat} {x : Nat} (h : x ∈ unguard v g) : x ∈ g := by
  cases v with
  | obj a => exact List.mem_of_mem_erase h
  | _ => exact h

theorem mem_of_mem_unrow (es : List (Val × Val)) : ∀ {g : List Nat} {x : Nat}, x ∈ unrow es g → x ∈ g := by
  induction es with
  | nil => intro g x h; exact h
  | cons e es ih => intro g x h; exact mem_of_mem_unguard (mem_of_mem_unguard (ih h))

theorem mem_rowGuards {es : List (Val × Val)} {x : Nat} (h : x ∈ rowGuards es) :
    ∃ e ∈ es, e.1 = .obj x ∨ e.2 = .obj x := by
  induction es with
  | nil => cases h
  | cons e es ih =>
    simp only [rowGuards, List.mem_append] at h
    rcases h with h | h | h
    · obtain ⟨e', he', h'⟩ := ih h
      exact ⟨e', List.mem_cons_of_mem _ he', h'⟩
    · refine ⟨e, List.mem_cons_self, Or.inr ?_⟩
      cases hv : e.2 <;> rw [hv] at h <;> simp [guardOf] at h
      rw [h]
    · refine ⟨e, List.mem_cons_self, Or.inl ?_⟩
      cases hv : e.1 <;> rw [hv] at h <;> simp [guardOf] at h
      rw [h]

theorem unguard_erase_comm (v : Val) (g : List Nat) (a : Nat) :
    unguard v (g.erase a) = (unguard v g).erase a := by
  cases v with
  | obj b => exact List.erase_comm a b
  | _ => rfl

theorem unrow_erase_comm (es : List (Val × Val)) : ∀ (g : List Nat) (a : Nat),
    unrow es (g.erase a) = (unrow es g).erase a := by
  induction es with
  | nil => intro g a; rfl
  | cons e es ih => intro g a; simp only [unrow, unguard_erase_comm, ih]

theorem Grown.trans {s₀ s₁ s₂ : VmState} (h1 : Grown s₀ s₁) (h2 : Grown s₁ s₂) : Grown s₀ s₂ :=
  h1.step h2.stack h2.frames h2.globals h2.openUpvalues (fun g hg => h2.guards g (h1.guards g hg))
    h2.keep h2.next h2.fresh

/-- the machine after `guardRows es`, seen from the machine before -/
theorem Grown.rows (s : VmState) (hf : FreshNext s.heap) (es : List (Val × Val)) :
    Grown s { s with guards := rowGuards es ++ s.guards } :=
  (Grown.refl s hf).setGuards _ (fun g hg => List.mem_append_right _ hg)

/-- a run between `guardRows es` and `unguardRows es` that is invisible from the state after
    `guardRows es` and leaks no guard is invisible from the state before, and leaks no guard -/
theorem Grown.unrow {s s₁ : VmState} {es : List (Val × Val)} (hf : FreshNext s.heap)
    (hG : Grown { s with guards := rowGuards es ++ s.guards } s₁)
    (hgu : s₁.guards = rowGuards es ++ s.guards) :
    Grown s { s₁ with guards := Native.unrow es s₁.guards } ∧ Native.unrow es s₁.guards = s.guards := by
  have e : Native.unrow es s₁.guards = s.guards := by rw [hgu, unrow_rowGuards]
  exact ⟨((Grown.rows s hf es).trans hG).setGuards _ (fun g hg => by rw [e]; exact hg), e⟩

/-! ## `tableInsert` on success -/

/-- the entry list after an insertion: overwrite the entry with an equal key, or append -/
def tinsert (h : Heap) (es : List (Val × Val)) (k v : Val) : List (Val × Val) :=
  if (findEntry h es (ownD h k)).isSome then
    es.map (fun e => if decide (ownD h e.1 = ownD h k) then (e.1, v) else e)
  else es ++ [(k, v)]

theorem tinsert_new {h : Heap} {es : List (Val × Val)} {k v : Val}
    (hk : ∀ e ∈ es, ownD h e.1 ≠ ownD h k) : tinsert h es k v = es ++ [(k, v)] := by
  unfold tinsert findEntry
  have : es.find? (fun e => decide (ownD h e.1 = ownD h k)) = none := by
    rw [List.find?_eq_none]
    intro e he; simpa using hk e he
  simp [this]

/-- the state after a successful `tableInsert`, relative to a quiet intermediate state -/
theorem tableInsert_ok {a : Nat} {k v : Val} {s s' : VmState} {cap : Nat} {es : List (Val × Val)}
    {u : PUnit} (hg : s.heap.get a = some (.table cap es))
    (hok : (tableInsert a k v).go s = (.ok u, s')) :
    ∃ s₁ cap', Quiet s s₁ ∧ s'.heap = s₁.heap.set a (.table cap' (tinsert s.heap es k v)) ∧
      s'.stack = s₁.stack ∧ s'.frames = s₁.frames ∧ s'.globals = s₁.globals ∧
      s'.openUpvalues = s₁.openUpvalues ∧ s'.guards = s₁.guards := by
  rw [show (tableInsert a k v).go s = _ from tableInsert_run a k v s] at hok
  unfold tableInsertPure at hok
  rw [hg] at hok
  dsimp only at hok
  unfold tinsert
  split at hok
  · rename_i hfe
    simp only [Prod.mk.injEq] at hok
    refine ⟨s, cap, Quiet.refl s, ?_⟩
    rw [if_pos hfe, ← hok.2]
    exact ⟨rfl, rfl, rfl, rfl, rfl, rfl⟩
  · rename_i hfe
    rw [if_neg hfe]
    split at hok
    · have q := allocBytes_quiet (Heap.tableCharge (HMap.growCap cap)) s
      rw [show (allocBytes (Heap.tableCharge (HMap.growCap cap))).go s = _ from
        allocBytes_run _ s] at q
      rcases h1 : allocPure (Heap.tableCharge (HMap.growCap cap)) s with ⟨r1, s1⟩
      rw [h1] at hok q
      cases r1 with
      | error e => simp at hok
      | ok u' =>
        simp only [Prod.mk.injEq] at hok
        refine ⟨s1, HMap.growCap cap, q, ?_⟩
        rw [← hok.2]
        exact ⟨rfl, rfl, rfl, rfl, rfl, rfl⟩
    · simp only [Prod.mk.injEq] at hok
      refine ⟨s, cap, Quiet.refl s, ?_⟩
      rw [← hok.2]
      exact ⟨rfl, rfl, rfl, rfl, rfl, rfl⟩

/-- `tableInsert` into a private, rooted table: the machine `s₀` does not notice, the table gets
    the new entry list, every other reachable object is unchanged -/
theorem Grown.tableInsert {s₀ s s' : VmState} {a : Nat} {k v : Val} {cap : Nat}
    {es : List (Val × Val)} {u : PUnit} (h : Grown s₀ s) (hpriv : s₀.heap.next ≤ a)
    (hg : s.heap.get a = some (.table cap es)) (hr : Reach s.heap (rootAddrs s) a)
    (hok : (Vm.tableInsert a k v).go s = (.ok u, s')) :
    Grown s₀ s' ∧ (∃ cap', s'.heap.get a = some (.table cap' (tinsert s.heap es k v))) ∧
    s'.guards = s.guards ∧
    (∀ b, b ≠ a → Reach s.heap (rootAddrs s) b → s'.heap.get b = s.heap.get b) ∧
    s'.heap.next = s.heap.next := by
  obtain ⟨s₁, cap', q, hheap, hst, hfr, hgl, hup, hgu⟩ := tableInsert_ok hg hok
  have hg1 : s₁.heap.get a = some (.table cap es) := by rw [q.get hr]; exact hg
  have h1 : Grown s₀ s₁ := h.quiet q
  refine ⟨?_, ⟨cap', by rw [hheap]; exact get_set_same _ hg1⟩, by rw [hgu, q.obs.guards], ?_⟩
  · refine ⟨h1.stack.trans (StackSame.of_eq hst), hfr.trans h1.frames, hgl.trans h1.globals,
      hup.trans h1.openUpvalues, fun g hg' => by rw [hgu]; exact h1.guards g hg', ?_,
      by rw [hheap]; exact h1.next, by rw [hheap]; exact set_fresh _ _ _ h1.fresh, h1.fresh₀⟩
    intro b o hb ho
    have hba : b ≠ a := Nat.ne_of_lt (Nat.lt_of_lt_of_le (h.old_lt ho) hpriv)
    rw [hheap, get_set_other _ hba]; exact h1.keep b o hb ho
  · refine ⟨?_, by rw [hheap]; exact q.obs.next⟩
    intro b hb hrb
    rw [hheap, get_set_other _ hb]; exact q.get hrb


/-! ## creating objects, seen from `s₀` -/

theorem Grown.alloc2 {s₀ s s' : VmState} {a : Nat} {o : Obj} (h : Grown s₀ s)
    (hq : ∃ s₂, Quiet s s₂ ∧ a = s.heap.next ∧ s' = Gc.withObject o s₂) :
    Grown s₀ s' ∧ s'.heap.get a = some o ∧ s'.guards = a :: s.guards ∧ s₀.heap.next ≤ a ∧
    s.heap.get a = none ∧
    (∀ b ob, Reach s.heap (rootAddrs s) b → s.heap.get b = some ob → s'.heap.get b = some ob) ∧
    s'.heap.next = a + 1 := by
  obtain ⟨s₂, q, ha, hs'⟩ := hq
  have h2 : Grown s₀ s₂ := h.quiet q
  have hn : s₂.heap.next = s.heap.next := q.obs.next
  subst hs'
  refine ⟨h2.withObject o, ?_, ?_, by rw [ha]; exact h.next, by rw [ha]; exact get_next_none h.fresh, ?_,
    by rw [ha, ← hn]; rfl⟩
  · rw [ha, ← hn]; exact get_withObject_new o s₂ h2.fresh
  · show s₂.heap.next :: s₂.guards = _
    rw [hn, ha, q.obs.guards]
  · intro b ob hb ho
    have h1 : s₂.heap.get b = some ob := by rw [q.get hb]; exact ho
    rw [get_withObject_old o s₂ b (Nat.ne_of_lt (get_lt_next h2.fresh h1))]; exact h1

/-! ## deep values of scalars and of flat objects -/

theorem ownD_int (h : Heap) (i : Int64) : ownD h (.int i) = .int i := by
  unfold ownD ownFuel; simp [own]
theorem ownD_nil (h : Heap) : ownD h .nil = .nil := by
  unfold ownD ownFuel; simp [own]
theorem ownD_real (h : Heap) (b : UInt64) : ownD h (.real b) = .real b := by
  unfold ownD ownFuel; simp [own]
theorem ownD_str {h : Heap} {a : Nat} {b : List UInt8} (hg : h.get a = some (.str b)) :
    ownD h (.obj a) = .str b := by
  unfold ownD ownFuel; simp [own, hg]

/-- everything but a table: the deep value is read off the object itself -/
def Flat (h : Heap) (v : Val) : Prop := ∀ a, v = .obj a → ∀ cap es, h.get a ≠ some (.table cap es)

theorem ownD_congr_flat {h h' : Heap} {v : Val} (hf : Flat h v)
    (hag : ∀ a, v = .obj a → h'.get a = h.get a) : ownD h' v = ownD h v := by
  cases v with
  | nil => rw [ownD_nil, ownD_nil]
  | int i => rw [ownD_int, ownD_int]
  | real b => rw [ownD_real, ownD_real]
  | obj a =>
    have h1 := hag a rfl
    have h2 := hf a rfl
    unfold ownD ownFuel
    simp only [own, h1]
    cases hg : h.get a with
    | none => rfl
    | some o =>
      cases o with
      | table cap es => exact absurd hg (h2 cap es)
      | _ => rfl

theorem int64_ofNat_inj {i j : Nat} (hi : i < 2 ^ 64) (hj : j < 2 ^ 64)
    (h : Int64.ofNat i = Int64.ofNat j) : i = j := by
  have := congrArg (fun x => x.toBitVec.toNat) h
  simp at this
  omega

/-! ## `for … in` loops: an invariant indexed by the number of iterations -/

theorem forIn_inv {γ σ : Type} (L : List γ) (I : Nat → σ → VmState → Prop)
    (f : γ → σ → M (ForInStep σ))
    (hstep : ∀ (i : Nat) (x : γ) (b : σ) (s : VmState) (r : ForInStep σ) (s' : VmState),
      L[i]? = some x → I i b s → (f x b).go s = (.ok r, s') → ∃ b', r = .yield b' ∧ I (i + 1) b' s') :
    ∀ (l : List γ) (i : Nat) (b : σ) (s : VmState) (b' : σ) (s' : VmState),
      L.drop i = l → i ≤ L.length → I i b s → (forIn l b f).go s = (.ok b', s') →
      I L.length b' s' := by
  intro l
  induction l with
  | nil =>
    intro i b s b' s' hd hi hI hok
    rw [List.forIn_nil] at hok
    simp only [go_pure, Prod.mk.injEq, Except.ok.injEq] at hok
    have : L.length ≤ i := List.drop_eq_nil_iff.mp hd
    have : i = L.length := by omega
    rw [← hok.1, ← hok.2, ← this]; exact hI
  | cons x xs ih =>
    intro i b s b' s' hd hi hI hok
    rw [List.forIn_cons] at hok
    obtain ⟨r, s₁, h1, h2⟩ := ok_bind hok
    have hlt : i < L.length := by
      rcases Nat.lt_or_ge i L.length with h | h
      · exact h
      · rw [List.drop_eq_nil_iff.mpr h] at hd; cases hd
    have hx : L[i]? = some x := by
      rw [List.drop_eq_getElem_cons hlt] at hd
      rw [List.getElem?_eq_getElem hlt]
      exact congrArg some (List.cons.inj hd).1
    have hd' : L.drop (i + 1) = xs := by
      rw [List.drop_eq_getElem_cons hlt] at hd
      exact (List.cons.inj hd).2
    obtain ⟨b₁, hr, hI'⟩ := hstep i x b s r s₁ hx hI h1
    subst hr
    exact ih (i + 1) b₁ s₁ b' s' hd' hlt hI' h2

/-- the loop over the whole list -/
theorem forIn_inv' {γ σ : Type} (L : List γ) (I : Nat → σ → VmState → Prop)
    (f : γ → σ → M (ForInStep σ)) {b b' : σ} {s s' : VmState}
    (hstep : ∀ (i : Nat) (x : γ) (b : σ) (s : VmState) (r : ForInStep σ) (s' : VmState),
      L[i]? = some x → I i b s → (f x b).go s = (.ok r, s') → ∃ b', r = .yield b' ∧ I (i + 1) b' s')
    (h0 : I 0 b s) (hok : (forIn L b f).go s = (.ok b', s')) : I L.length b' s' :=
  forIn_inv L I f hstep L 0 b s b' s' rfl (Nat.zero_le _) h0 hok


/-! ## recognising tables -/

theorem isTable_of_get {h : Heap} {a cap : Nat} {es : List (Val × Val)}
    (hg : h.get a = some (.table cap es)) : isTable h (.obj a) = some es := by
  simp [isTable, hg]

theorem isTable_some {h : Heap} {v : Val} {es : List (Val × Val)} (hs : isTable h v = some es) :
    ∃ a cap, v = .obj a ∧ h.get a = some (.table cap es) := by
  unfold isTable at hs
  cases v with
  | obj a =>
    simp only at hs
    cases hg : h.get a with
    | none => rw [hg] at hs; cases hs
    | some o =>
      rw [hg] at hs
      cases o with
      | table cap es' => simp only [Option.some.injEq] at hs; subst hs; exact ⟨a, cap, rfl, hg⟩
      | _ => cases hs
  | _ => cases hs

/-- a guarded object is a root -/
theorem reach_guard {s : VmState} {a : Nat} (h : a ∈ s.guards) : Reach s.heap (rootAddrs s) a :=
  Reach.root (mem_rootAddrs_guard h)

/-- an object on the stack is a root -/
theorem reach_peek {s : VmState} {n a : Nat} (h : s.stack.peekLast n = .obj a) :
    Reach s.heap (rootAddrs s) a :=
  Reach.root (mem_rootAddrs_stack (peekLast_mem_contents h))


/-- a change of the stale part of the stack and of fields the collector does not look at -/
theorem Grown.same_heap {s₀ s s' : VmState} (h : Grown s₀ s) (hst : StackSame s.stack s'.stack)
    (hheap : s'.heap = s.heap) (hgu : s'.guards = s.guards) (hfr : s'.frames = s.frames)
    (hgl : s'.globals = s.globals) (hup : s'.openUpvalues = s.openUpvalues) : Grown s₀ s' :=
  h.step hst hfr hgl hup (fun g hg => by rw [hgu]; exact h.guards g hg)
    (fun b o _ ho => by rw [hheap]; exact ho) (by rw [hheap]; exact Nat.le_refl _)
    (by rw [hheap]; exact h.fresh)

/-! ## well-behaved callbacks -/

/-- `reenter f` behaves like the pure binary function `φ` of the key and the value the native
    pushed (value first, key on top): when it succeeds, it has popped exactly those two slots,
    returns `φ key value`, and has changed neither the heap nor the roots. (Budget counters,
    the host log and the allocator's counters are unconstrained; failure is unconstrained.) -/
structure PureCallback (re : Reenter) (f : Val) (φ : Val → Val → Val) : Prop where
  ok : ∀ (s : VmState) (r : Val) (s' : VmState), 2 ≤ s.stack.count →
    s.stack.count < s.stack.data.length → (re f).go s = (.ok r, s') →
    r = φ (s.stack.peekLast 0) (s.stack.peekLast 1) ∧
    Prefix s'.stack s.stack ∧ s'.stack.count + 2 = s.stack.count ∧
    s'.heap = s.heap ∧ s'.guards = s.guards ∧ s'.frames = s.frames ∧ s'.globals = s.globals ∧
    s'.openUpvalues = s.openUpvalues

/-- the protocol of the natives: push the value, push the key, call back -/
def callKV (re : Reenter) (f : Val) (k v : Val) : M Val := do
  push v; push k
  re f

/-- one callback round trip, seen from `s₀` -/
theorem callKV_ok {re : Reenter} {f : Val} {φ : Val → Val → Val} (hcb : PureCallback re f φ)
    {k v r : Val} {t t' : VmState} (hok : (callKV re f k v).go t = (.ok r, t')) :
    r = φ k v ∧ StackSame t.stack t'.stack ∧ t'.heap = t.heap ∧ t'.guards = t.guards ∧
    t'.frames = t.frames ∧ t'.globals = t.globals ∧ t'.openUpvalues = t.openUpvalues := by
  unfold callKV at hok
  obtain ⟨_, t₁, h1, hok⟩ := ok_bind hok
  obtain ⟨_, t₂, h2, hok⟩ := ok_bind hok
  obtain ⟨hc1, rfl⟩ := push_ok h1
  obtain ⟨hc2, rfl⟩ := push_ok h2
  dsimp only at hc2 hok
  rw [List.length_set] at hc2
  obtain ⟨hr, hpre, hcnt, hheap, hgu, hfr, hgl, hup⟩ := hcb.ok _ r t' (by dsimp only; omega)
    (by dsimp only; rw [List.length_set, List.length_set]; omega) hok
  dsimp only at hr hpre hcnt hheap hgu hfr hgl hup
  refine ⟨?_, ?_, hheap, hgu, hfr, hgl, hup⟩
  · rw [hr, peekLast_push0 _ _ _ (by rw [List.length_set]; omega),
      peekLast_succ_push, peekLast_push0 _ _ _ (by omega)]
  · exact StackSame.of_prefix ((Prefix.push t.stack v).trans (Prefix.push _ k)) hpre (by omega)


/-! ## callbacks that may allocate -/

/-- the realistic contract of a callback: like `PureCallback`, but the heap may change by what an
    allocating (and collecting) computation does to it — every object reachable from the roots
    the callback *leaves behind* (the stack without the two arguments, the guards, frames,
    globals, open upvalues) is unchanged, fresh addresses only grow, the heap stays well-formed.
    The result is still the pure function `φ` of the key and the value. -/
structure GcCallback (re : Reenter) (f : Val) (φ : Val → Val → Val) : Prop where
  ok : ∀ (s : VmState) (r : Val) (s' : VmState), 2 ≤ s.stack.count →
    s.stack.count < s.stack.data.length → FreshNext s.heap → (re f).go s = (.ok r, s') →
    r = φ (s.stack.peekLast 0) (s.stack.peekLast 1) ∧
    Prefix s'.stack s.stack ∧ s'.stack.count + 2 = s.stack.count ∧
    s'.guards = s.guards ∧ s'.frames = s.frames ∧ s'.globals = s.globals ∧
    s'.openUpvalues = s.openUpvalues ∧
    (∀ b o, Reach s.heap (rootAddrs s') b → s.heap.get b = some o → s'.heap.get b = some o) ∧
    s.heap.next ≤ s'.heap.next ∧ FreshNext s'.heap

theorem PureCallback.gc {re : Reenter} {f : Val} {φ : Val → Val → Val}
    (h : PureCallback re f φ) : GcCallback re f φ :=
  ⟨fun s r s' hc hl hf hok => by
    obtain ⟨h1, h2, h3, h4, h5, h6, h7, h8⟩ := h.ok s r s' hc hl hok
    exact ⟨h1, h2, h3, h5, h6, h7, h8, fun b o _ ho => by rw [h4]; exact ho,
      by rw [h4]; exact Nat.le_refl _, by rw [h4]; exact hf⟩⟩

/-- one round trip of an allocating callback, seen from `s₀` -/
theorem Grown.callKV {s₀ t t' : VmState} {re : Reenter} {f : Val} {φ : Val → Val → Val}
    (hcb : GcCallback re f φ) {k v r : Val} (hG : Grown s₀ t)
    (hok : (callKV re f k v).go t = (.ok r, t')) :
    r = φ k v ∧ Grown s₀ t' ∧ t'.guards = t.guards ∧ t.heap.next ≤ t'.heap.next ∧
    (∀ b o, Reach t.heap (rootAddrs t) b → t.heap.get b = some o → t'.heap.get b = some o) := by
  unfold Native.callKV at hok
  obtain ⟨_, t₁, h1, hok⟩ := ok_bind hok
  obtain ⟨_, t₂, h2, hok⟩ := ok_bind hok
  obtain ⟨hc1, rfl⟩ := push_ok h1
  obtain ⟨hc2, rfl⟩ := push_ok h2
  dsimp only at hc2 hok
  rw [List.length_set] at hc2
  obtain ⟨hr, hpre, hcnt, hgu, hfr, hgl, hup, hkeep, hnext, hfresh⟩ := hcb.ok _ r t'
    (by dsimp only; omega) (by dsimp only; rw [List.length_set, List.length_set]; omega)
    (by exact hG.fresh) hok
  dsimp only at hr hpre hcnt hgu hfr hgl hup hkeep hnext
  have hst : StackSame t.stack t'.stack :=
    StackSame.of_prefix ((Prefix.push t.stack v).trans (Prefix.push _ k)) hpre (by omega)
  have hroots : rootAddrs t' = rootAddrs t := rootAddrs_congr hst.contents hgl hfr hup hgu
  rw [hroots] at hkeep
  refine ⟨?_, hG.step hst hfr hgl hup (fun g hg => by rw [hgu]; exact hG.guards g hg) hkeep hnext
    hfresh, hgu, hnext, hkeep⟩
  rw [hr, peekLast_push0 _ _ _ (by rw [List.length_set]; omega),
    peekLast_succ_push, peekLast_push0 _ _ _ (by omega)]

/-! ## a success-only frame logic: what a computation leaves alone *when it returns* -/

/-- every successful run of `m` relates the state before to the state after by `R` -/
structure PresOk {α : Type} (R : VmState → VmState → Prop) (m : M α) : Prop where
  ok : ∀ s a s', m.go s = (.ok a, s') → R s s'

section presok
variable {R : VmState → VmState → Prop} [StateOrder R] {α β : Type}

theorem presOk_pure (a : α) : PresOk R (pure a : M α) :=
  ⟨fun s a' s' h => by simp only [go_pure, Prod.mk.injEq] at h; rw [← h.2]; exact StateOrder.refl s⟩
theorem presOk_throwE (e : ErrKind) : PresOk R (throwE e : M α) := ⟨fun s a s' h => by simp at h⟩
theorem presOk_throw (e : ErrKind) : PresOk R (throw e : M α) := ⟨fun s a s' h => by simp at h⟩
theorem presOk_get : PresOk R (get : M VmState) :=
  ⟨fun s a s' h => by simp only [go_get, Prod.mk.injEq] at h; rw [← h.2]; exact StateOrder.refl s⟩
theorem presOk_modify {f : VmState → VmState} (h : ∀ s, R s (f s)) : PresOk R (modify f : M PUnit) :=
  ⟨fun s a s' hs => by simp only [go_modify, Prod.mk.injEq] at hs; rw [← hs.2]; exact h s⟩

theorem presOk_bind {m : M α} {f : α → M β} (hm : PresOk R m) (hf : ∀ a, PresOk R (f a)) :
    PresOk R (m >>= f) :=
  ⟨fun s b s'' h => by
    obtain ⟨a, s', h1, h2⟩ := ok_bind h
    exact StateOrder.trans (hm.ok s a s' h1) ((hf a).ok s' b s'' h2)⟩

theorem presOk_ite {c : Prop} [Decidable c] {a b : M α} (ha : PresOk R a) (hb : PresOk R b) :
    PresOk R (if c then a else b) := by split <;> assumption

theorem presOk_forIn {γ σ : Type} (l : List γ) (init : σ) (f : γ → σ → M (ForInStep σ))
    (hf : ∀ x b, PresOk R (f x b)) : PresOk R (forIn l init f) := by
  induction l generalizing init with
  | nil => rw [List.forIn_nil]; exact presOk_pure _
  | cons x xs ih =>
    rw [List.forIn_cons]
    refine presOk_bind (hf x init) (fun r => ?_)
    cases r with
    | done b => exact presOk_pure _
    | yield b => exact ih b

/-- from a frame for all outcomes -/
theorem PresOk.of_pres {m : M α} (h : Pres R m) : PresOk R m :=
  ⟨fun s a s' hs => by have := h.rel s; rw [hs] at this; exact this⟩

end presok

/-- the live stack and the call stack are as before -/
def Bal (s s' : VmState) : Prop := StackSame s.stack s'.stack ∧ s'.frames = s.frames

instance : StateOrder Bal where
  refl s := ⟨StackSame.refl _, rfl⟩
  trans h1 h2 := ⟨h1.1.trans h2.1, h2.2.trans h1.2⟩

theorem Bal.of_quiet {s s' : VmState} (q : Quiet s s') : Bal s s' :=
  ⟨StackSame.of_eq q.obs.stack, q.obs.frames⟩

theorem presOk_peek (n : Nat) : PresOk Bal (peek n) :=
  ⟨fun s a s' h => by simp only [go_peek, Prod.mk.injEq] at h; rw [← h.2]; exact StateOrder.refl s⟩
theorem presOk_dropGuard (a : Nat) : PresOk Bal (dropGuard a) :=
  ⟨fun s _ s' h => by
    simp only [go_dropGuard, Prod.mk.injEq] at h; rw [← h.2]; exact ⟨StackSame.refl _, rfl⟩⟩
theorem presOk_guardVal (v : Val) : PresOk Bal (guardVal v) :=
  ⟨fun s _ s' h => by
    rw [go_guardVal] at h
    simp only [Prod.mk.injEq] at h; rw [← h.2]; exact ⟨StackSame.refl _, rfl⟩⟩
theorem presOk_unguardVal (v : Val) : PresOk Bal (unguardVal v) :=
  ⟨fun s _ s' h => by
    rw [go_unguardVal] at h
    simp only [Prod.mk.injEq] at h; rw [← h.2]; exact ⟨StackSame.refl _, rfl⟩⟩
theorem presOk_guardRows (es : List (Val × Val)) : PresOk Bal (guardRows es) :=
  ⟨fun s _ s' h => by
    rw [go_guardRows] at h
    simp only [Prod.mk.injEq] at h; rw [← h.2]; exact ⟨StackSame.refl _, rfl⟩⟩
theorem presOk_unguardRows (es : List (Val × Val)) : PresOk Bal (unguardRows es) :=
  ⟨fun s _ s' h => by
    rw [go_unguardRows] at h
    simp only [Prod.mk.injEq] at h; rw [← h.2]; exact ⟨StackSame.refl _, rfl⟩⟩
theorem presOk_allocBytes (c : Nat) : PresOk Bal (allocBytes c) :=
  ⟨fun s a s' h => by
    have := allocBytes_quiet c s; rw [h] at this; exact Bal.of_quiet this⟩
theorem presOk_initTable : PresOk Bal initTable :=
  ⟨fun s a s' h => by
    obtain ⟨s₂, q, -, rfl⟩ := initTable_ok h
    exact ⟨StackSame.of_eq q.obs.stack, q.obs.frames⟩⟩
theorem presOk_initString (b : List UInt8) : PresOk Bal (initString b) :=
  ⟨fun s a s' h => by
    obtain ⟨s₂, q, -, rfl⟩ := initString_ok h
    exact ⟨StackSame.of_eq q.obs.stack, q.obs.frames⟩⟩
theorem presOk_tableInsert (a : Nat) (k v : Val) : PresOk Bal (tableInsert a k v) :=
  ⟨fun s u s' h => by
    cases hg : s.heap.get a with
    | none =>
      rw [show (tableInsert a k v).go s = _ from tableInsert_run a k v s] at h
      unfold tableInsertPure at h
      rw [hg] at h; simp at h
    | some o =>
      cases o with
      | table cap es =>
        obtain ⟨s₁, cap', q, -, hst, hfr, -⟩ := tableInsert_ok hg h
        exact ⟨StackSame.of_eq (hst.trans q.obs.stack), hfr.trans q.obs.frames⟩
      | _ =>
        rw [show (tableInsert a k v).go s = _ from tableInsert_run a k v s] at h
        unfold tableInsertPure at h
        rw [hg] at h; simp at h⟩

/-- the callback pops exactly the `n` arguments the native pushed for it, and restores the call
    stack (when it returns); when arguments were pushed (`0 < n`) the entry stack is known not to
    be over-full -/
def Balanced (re : Reenter) (f : Val) (n : Nat) : Prop :=
  ∀ s r s', n ≤ s.stack.count → (0 < n → s.stack.count < s.stack.data.length) →
    (re f).go s = (.ok r, s') →
    Prefix s'.stack s.stack ∧ s'.stack.count + n = s.stack.count ∧ s'.frames = s.frames

theorem PureCallback.balanced {re : Reenter} {f : Val} {φ : Val → Val → Val}
    (h : PureCallback re f φ) : Balanced re f 2 := fun s r s' hc hl hok => by
  obtain ⟨-, h1, h2, -, -, h3, -, -⟩ := h.ok s r s' hc (hl (by omega)) hok
  exact ⟨h1, h2, h3⟩

/-- push the value, push the key, call back: balanced as a whole -/
theorem presOk_callKV {re : Reenter} {f : Val} (hb : Balanced re f 2) (k v : Val) :
    PresOk Bal (callKV re f k v) :=
  ⟨fun t r t' hok => by
    unfold callKV at hok
    obtain ⟨_, t₁, h1, hok⟩ := ok_bind hok
    obtain ⟨_, t₂, h2, hok⟩ := ok_bind hok
    obtain ⟨hc1, rfl⟩ := push_ok h1
    obtain ⟨hc2, rfl⟩ := push_ok h2
    dsimp only at hc2 hok
    rw [List.length_set] at hc2
    obtain ⟨hpre, hcnt, hfr⟩ := hb _ r t' (by dsimp only; omega)
      (fun _ => by dsimp only; rw [List.length_set, List.length_set]; omega) hok
    dsimp only at hpre hcnt hfr
    exact ⟨StackSame.of_prefix ((Prefix.push t.stack v).trans (Prefix.push _ k)) hpre (by omega), hfr⟩⟩

/-- push one argument and call back -/
theorem presOk_call1 {re : Reenter} {f : Val} (hb : Balanced re f 1) (x : Val) :
    PresOk Bal (push x >>= fun _ => re f) :=
  ⟨fun t r t' hok => by
    obtain ⟨_, t₁, h1, hok⟩ := ok_bind hok
    obtain ⟨hc1, rfl⟩ := push_ok h1
    obtain ⟨hpre, hcnt, hfr⟩ := hb _ r t' (by dsimp only; omega)
      (fun _ => by dsimp only; rw [List.length_set]; omega) hok
    dsimp only at hpre hcnt hfr
    exact ⟨StackSame.of_prefix (Prefix.push t.stack x) hpre (by omega), hfr⟩⟩


/-- `pop`: the stack cut down by its top slot (nothing on an empty stack) -/
theorem pop_facts (st : VStack Val) :
    Prefix st.pop.1 st ∧ st.pop.1.count = st.count - 1 ∧ st.pop.2 = st.peekLast 0 := by
  unfold VStack.pop VStack.peekLast
  by_cases hc : st.count = 0
  · rw [if_pos hc, if_neg (by omega)]
    exact ⟨Prefix.refl st, by show st.count = st.count - 1; omega, rfl⟩
  · rw [if_neg hc, if_pos (by omega)]
    refine ⟨⟨by dsimp only; omega, by simp, fun i hi => ?_⟩, rfl, rfl⟩
    dsimp only at hi ⊢
    rw [List.getElem?_set]
    have : ¬ st.count - 1 = i := by omega
    simp only [this, if_false]

theorem Prefix.of_stackSame {a b : VStack Val} (h : StackSame a b) : Prefix b a :=
  ⟨Nat.le_of_eq h.count, h.cap, fun i hi => h.slots i (by rw [← h.count]; exact hi)⟩

end Cao.Native
