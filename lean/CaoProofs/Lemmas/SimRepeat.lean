import CaoProofs.Lemmas.SimScopes
/-!
# `Repeat` (compile side): the layout of the code emitted by `repeatCode`

```
  n ; SetLocal N ; ScalarInt 0 ; SetLocal C ;
begin:  ReadLocal C ; ReadLocal N ; Less ; GotoIfFalse end ;
        [ReadLocal C ; SetLocal X]   -- the loop variable, a per-iteration copy of the counter
        body ; Pop … ;               -- the loop variable and the locals of the body
        ScalarInt 1 ; ReadLocal C ; Add ; SetLocal C ; Goto begin
end:    Pop ; Pop
```
-/
namespace Cao.Compiler
open Cao Cao.Sim

theorem readLocalVar_ok {i : Nat} {s s' : CState} {a : Unit} (h : readLocalVar i s = .ok (a, s')) :
    s'.bytecode = s.bytecode.push op.readLocalVar ++ (le32 (UInt32.ofNat i)).toArray ∧ QL s s' ∧ QV s s' := by
  unfold readLocalVar at h
  obtain ⟨_, s1, h1, h2⟩ := bind_ok.1 h
  obtain ⟨b1, l1, v1⟩ := pushInstr_ok h1
  obtain ⟨b2, l2, v2⟩ := emitBytes_ok h2
  exact ⟨by rw [b2, b1], l1.trans l2, v1.trans v2⟩

theorem processScalarInt_ok {i : Int64} {s s' : CState} {a : Unit} (h : processScalarInt i s = .ok (a, s')) :
    s'.bytecode = s.bytecode.push op.scalarInt ++ (le64 i.toUInt64).toArray ∧ QL s s' ∧ QV s s' := by
  unfold processScalarInt scalarIntCode at h
  obtain ⟨_, s0, h0, h1⟩ := bind_ok.1 h
  obtain ⟨b0, l0, v0⟩ := cardLabel_ok' h0
  obtain ⟨_, s1, h2, h3⟩ := bind_ok.1 h1
  obtain ⟨b1, l1, v1⟩ := pushInstr_ok h2
  obtain ⟨b2, l2, v2⟩ := emitBytes_ok h3
  exact ⟨by rw [b2, b1, b0], (l0.trans l1).trans l2, (v0.trans v1).trans v2⟩

theorem addLocalUnchecked_ok {n : String} {s s' : CState} {i : Nat} {L : LCtx} (hl : LInv s L)
    (h : addLocalUnchecked n s = .ok (i, s')) :
    i = L.length ∧ s'.bytecode = s.bytecode ∧ QV s s' ∧ s'.scopeDepth = s.scopeDepth ∧
    LInv s' (L ++ [(n, curDepth s)]) := by
  unfold addLocalUnchecked at h
  obtain ⟨s1, s1', hg, h⟩ := bind_ok.1 h
  simp only [get_run, Except.ok.injEq, Prod.mk.injEq] at hg
  obtain ⟨rfl, rfl⟩ := hg
  have hls : s.locals.getLast?.getD [] = L.map mkLoc := by rw [hl.locals]; rfl
  simp only [hls, List.length_map] at h
  split at h
  · obtain ⟨_, _, h3, _⟩ := bind_ok.1 h
    simp at h3
  · rename_i hlen
    obtain ⟨_, s2, h2, h3⟩ := bind_ok.1 h
    simp only [modify_run, Except.ok.injEq, Prod.mk.injEq, true_and] at h2
    simp only [pure_run, Except.ok.injEq, Prod.mk.injEq] at h3
    obtain ⟨rfl, rfl⟩ := h3
    subst h2
    refine ⟨rfl, rfl, ⟨rfl, rfl, rfl⟩, rfl, ⟨hl.fid, ?_, ?_, ?_⟩⟩
    · show s.locals.dropLast ++ [L.map mkLoc ++ [_]] = _
      rw [hl.locals]
      simp [mkLoc]
    · intro p hp
      rcases List.mem_append.1 hp with hp | hp
      · exact hl.depth p hp
      · simp only [List.mem_singleton] at hp
        subst hp
        exact Int.le_refl _
    · simp only [List.length_append, List.length_singleton]; omega

/-- the bytes of `a` are still there in `b` -/
structure KeptP (a b : CState) : Prop where
  size_le : a.bytecode.size ≤ b.bytecode.size
  same : ∀ i, i < a.bytecode.size → b.bytecode[i]? = a.bytecode[i]?

theorem KeptP.refl (a : CState) : KeptP a a := ⟨Nat.le_refl _, fun _ _ => rfl⟩
theorem KeptP.trans {a b c : CState} (h1 : KeptP a b) (h2 : KeptP b c) : KeptP a c :=
  ⟨Nat.le_trans h1.size_le h2.size_le, fun i hi => by
    rw [h2.same i (Nat.lt_of_lt_of_le hi h1.size_le), h1.same i hi]⟩
theorem KeptP.of_ext {a b : CState} (h : Ext a.bytecode.size a b) : KeptP a b :=
  ⟨h.size_le, fun i hi => h.pref i hi⟩
theorem KeptP.of_eq {a b : CState} (h : b.bytecode = a.bytecode) : KeptP a b :=
  ⟨by rw [h]; exact Nat.le_refl _, fun _ _ => by rw [h]⟩
theorem KeptP.of_append {a b : CState} {bs : Array UInt8} (h : b.bytecode = a.bytecode ++ bs) : KeptP a b :=
  ⟨by rw [h]; simp, fun i hi => by rw [h, Array.getElem?_append_left hi]⟩
theorem KeptP.of_instr {a b : CState} {o : UInt8} {bs : List UInt8}
    (h : b.bytecode = a.bytecode.push o ++ bs.toArray) : KeptP a b :=
  ⟨by rw [h]; simp, fun i hi => by
    rw [h, Array.getElem?_append_left (by simp; omega), Array.getElem?_push_lt hi]; simp⟩

/-- what the final program has at an emitted instruction with a 32-bit operand -/
theorem instr32_at {B : Array UInt8} {s' sa sb : CState} {lo x : Nat} {o : UInt8} (hag : AgreeFrom B s' lo)
    (hb : sb.bytecode = sa.bytecode.push o ++ (le32 (UInt32.ofNat x)).toArray) (hk : KeptP sb s')
    (hlo : lo ≤ sa.bytecode.size) (hx : x < 4294967296) :
    B.getD sa.bytecode.size 0 = o ∧ Vm.rdU32 B (sa.bytecode.size + 1) = x ∧
    sb.bytecode.size = sa.bytecode.size + 5 := by
  have hag' : AgreeFrom B sb sa.bytecode.size :=
    hag.sub hlo hk.size_le fun i _ hi => hk.same i hi
  obtain ⟨a1, a2, a3⟩ := agree_instr (a := sa.bytecode) hb hag'
  exact ⟨a1, rdU32_patched hx (fun j hj => a2 j (by rw [le32_length]; exact hj)), by rw [a3, le32_length]⟩

theorem instr0_at {B : Array UInt8} {s' sa sb : CState} {lo : Nat} {o : UInt8} (hag : AgreeFrom B s' lo)
    (hb : sb.bytecode = sa.bytecode.push o) (hk : KeptP sb s') (hlo : lo ≤ sa.bytecode.size) :
    B.getD sa.bytecode.size 0 = o ∧ sb.bytecode.size = sa.bytecode.size + 1 := by
  have hag' : AgreeFrom B sb lo := hag.sub (Nat.le_refl _) hk.size_le fun i _ hi => hk.same i hi
  exact agree_op hb hag' hlo

theorem scalarInt_at {B : Array UInt8} {F : List (UInt32 × Nat)} {L : LCtx} {s' sa sb : CState} {lo : Nat} {x : Int64}
    (hag : AgreeFrom B s' lo)
    (hb : sb.bytecode = sa.bytecode.push op.scalarInt ++ (le64 x.toUInt64).toArray) (hk : KeptP sb s')
    (hlo : lo ≤ sa.bytecode.size) :
    ECodeL B F L (.scalarInt x) sa.bytecode.size (sa.bytecode.size + 9) ∧
    sb.bytecode.size = sa.bytecode.size + 9 := by
  have hag' : AgreeFrom B sb sa.bytecode.size :=
    hag.sub hlo hk.size_le fun i _ hi => hk.same i hi
  obtain ⟨a1, a2, a3⟩ := agree_instr (a := sa.bytecode) hb hag'
  refine ⟨?_, by rw [a3, le64_length]⟩
  simp only [ECodeL]
  exact ⟨a1, Sim.rdU64_eq _ _ _ (fun j hj => a2 j (by rw [le64_length]; exact hj)), trivial⟩

theorem KeptP.of_push {a b : CState} {o : UInt8} (h : b.bytecode = a.bytecode.push o) : KeptP a b :=
  ⟨by rw [h]; simp, fun i hi => by rw [h, Array.getElem?_push_lt hi]; simp⟩

theorem isRead_at {B : Array UInt8} {s' sa sb : CState} {lo x : Nat} (hag : AgreeFrom B s' lo)
    (hb : sb.bytecode = sa.bytecode.push op.readLocalVar ++ (le32 (UInt32.ofNat x)).toArray) (hk : KeptP sb s')
    (hlo : lo ≤ sa.bytecode.size) (hx : x < 4294967296) :
    IsRead B sa.bytecode.size x ∧ sb.bytecode.size = sa.bytecode.size + 5 := by
  obtain ⟨h1, h2, h3⟩ := instr32_at hag hb hk hlo hx
  exact ⟨⟨h1, h2⟩, h3⟩

theorem isSet_at {B : Array UInt8} {s' sa sb : CState} {lo x : Nat} (hag : AgreeFrom B s' lo)
    (hb : sb.bytecode = sa.bytecode.push op.setLocalVar ++ (le32 (UInt32.ofNat x)).toArray) (hk : KeptP sb s')
    (hlo : lo ≤ sa.bytecode.size) (hx : x < 4294967296) :
    IsSet B sa.bytecode.size x ∧ sb.bytecode.size = sa.bytecode.size + 5 := by
  obtain ⟨h1, h2, h3⟩ := instr32_at hag hb hk hlo hx
  exact ⟨⟨h1, h2⟩, h3⟩

theorem bindLoopVar_ok {B : Array UInt8} {i : Option String} {src lo : Nat} {s s' sE : CState} {a : Unit} {L : LCtx}
    (hl : LInv s L) (h : bindLoopVar i src s = .ok (a, s'))
    (hag : AgreeFrom B sE lo) (hk : KeptP s' sE) (hlo : lo ≤ s.bytecode.size) (hsrc : src < 4294967296) :
    QV s s' ∧ s'.scopeDepth = s.scopeDepth ∧ KeptP s s' ∧
    match (generalizing := false) i with
    | some v => LInv s' (L ++ [(v, curDepth s)]) ∧ IsRead B s.bytecode.size src ∧
        IsSet B (s.bytecode.size + 5) L.length ∧ s'.bytecode.size = s.bytecode.size + 10
    | none => LInv s' L ∧ s'.bytecode.size = s.bytecode.size := by
  cases i with
  | none =>
    simp only [bindLoopVar, pure_run, Except.ok.injEq, Prod.mk.injEq, true_and] at h
    subst h
    exact ⟨⟨rfl, rfl, rfl⟩, rfl, KeptP.refl _, hl, rfl⟩
  | some v =>
    simp only [bindLoopVar] at h
    obtain ⟨x, s1, h1, h⟩ := bind_ok.1 h
    obtain ⟨_, s2, h2, h3⟩ := bind_ok.1 h
    obtain ⟨rfl, b1, v1, d1, hl1⟩ := addLocal_ok hl h1
    obtain ⟨b2, l2, v2⟩ := readLocalVar_ok h2
    obtain ⟨b3, l3, v3⟩ := writeLocalVar_ok h3
    have k3 : KeptP s2 s' := KeptP.of_instr b3
    have k2 : KeptP s1 s2 := KeptP.of_instr b2
    have e1 : s1.bytecode.size = s.bytecode.size := by rw [b1]
    obtain ⟨r1, z1⟩ := isRead_at hag b2 (k3.trans hk) (by omega) hsrc
    obtain ⟨r2, z2⟩ := isSet_at hag b3 hk (by omega) (by have := hl.len; omega)
    rw [e1] at r1 z1
    rw [z1] at r2 z2
    refine ⟨(v1.trans v2).trans v3, by rw [l3.depth, l2.depth, d1],
      (KeptP.of_eq b1).trans (k2.trans k3), (hl1.of_ql l2).of_ql l3, r1, r2, by omega⟩


theorem bindLoopVar_rep {B : Array UInt8} {i : Option String} {lo m : Nat} {s s' sE : CState} {a : Unit} {L : LCtx}
    {d : Int} (hl : LInv s (L ++ [("", d + 1), ("", d + 1)])) (hd : curDepth s = d + 2)
    (hm : s.bytecode.size = m + 35) (h : bindLoopVar i (L.length + 1) s = .ok (a, s'))
    (hag : AgreeFrom B sE lo) (hk : KeptP s' sE) (hlo : lo ≤ s.bytecode.size) :
    QV s s' ∧ s'.scopeDepth = s.scopeDepth ∧ LInv s' (repCtx d L i) ∧ m + 35 ≤ s'.bytecode.size ∧
      (match (generalizing := false) i with
        | some _ => IsRead B (m + 35) (L.length + 1) ∧ IsSet B (m + 40) (L.length + 2) ∧
            s'.bytecode.size = m + 45
        | none => s'.bytecode.size = m + 35) := by
  have hlen := hl.len
  simp only [List.length_append, List.length_cons, List.length_nil] at hlen
  obtain ⟨vb, db, kb2, hmatch⟩ := bindLoopVar_ok hl h hag hk hlo (by omega : L.length + 1 < 4294967296)
  refine ⟨vb, db, ?_⟩
  cases i with
  | none => exact ⟨hmatch.1, by have := hmatch.2; omega, by have := hmatch.2; omega⟩
  | some v =>
    obtain ⟨q1, q2, q3, q4⟩ := hmatch
    rw [hd] at q1
    rw [hm] at q2 q3 q4
    simp only [List.length_append, List.length_cons, List.length_nil] at q3
    exact ⟨q1, by omega, q2, q3, by omega⟩

theorem blockCtx_rep (d : Int) (L : LCtx) (i : Option String) (cs : List Card) :
    ∃ L', blockCtx (d + 2) (repCtx d L i) cs = (L ++ [("", d + 1), ("", d + 1)]) ++ L' ∧
      (∀ p ∈ L', p.2 = d + 2) ∧
      (blockCtx (d + 2) (repCtx d L i) cs).length - (L.length + 2) = L'.length := by
  obtain ⟨new, hnew1, hnew2⟩ := blockCtx_ext (d + 2) cs (repCtx d L i)
  cases i with
  | none => exact ⟨new, hnew1, hnew2, by rw [hnew1]; simp [repCtx]; omega⟩
  | some v =>
    refine ⟨(v, d + 2) :: new, by rw [hnew1]; simp [repCtx], fun p hp => ?_, by rw [hnew1]; simp [repCtx]; omega⟩
    rcases List.mem_cons.1 hp with rfl | hp
    · rfl
    · exact hnew2 p hp

theorem repX_all (ft : Feat) : RepXAll ft := by
  intro B F J hB hF d L i n ty cs ihb hs s s' h hl hd hsd hj hag hv
  simp only [isStmtS, Bool.and_eq_true] at hs
  obtain ⟨⟨⟨_, hen⟩, hi⟩, hblk⟩ := hs
  simp only [processCard] at h
  obtain ⟨_, s0, h0, h⟩ := bind_ok.1 h
  obtain ⟨b0, l0, v0⟩ := cardLabel_ok' h0
  unfold repeatCode at h
  obtain ⟨_, s1', h1, h⟩ := bind_ok.1 h
  obtain ⟨sa, s1, h1e, ba, la, va, b1, l1, v1⟩ := withSub_ok' h1
  obtain ⟨_, s2, h2, h⟩ := bind_ok.1 h
  obtain ⟨b2, lc2, f2, v2, d2⟩ := scopeBegin_ok' h2
  obtain ⟨iN, s3, h3, h⟩ := bind_ok.1 h
  obtain ⟨iC, s4, h4, h⟩ := bind_ok.1 h
  obtain ⟨_, s5, h5, h⟩ := bind_ok.1 h
  obtain ⟨_, s6, h6, h⟩ := bind_ok.1 h
  obtain ⟨_, s7, h7, h⟩ := bind_ok.1 h
  obtain ⟨s7', s7'', hg, h⟩ := bind_ok.1 h
  simp only [get_run, Except.ok.injEq, Prod.mk.injEq] at hg
  obtain ⟨rfl, rfl⟩ := hg
  obtain ⟨_, s8, h8, h⟩ := bind_ok.1 h
  obtain ⟨_, s9, h9, h⟩ := bind_ok.1 h
  obtain ⟨_, s10, h10, h⟩ := bind_ok.1 h
  obtain ⟨_, s11, h11, h12⟩ := bind_ok.1 h
  -- locals and depths up to the loop head
  have hla : LInv sa L := hl.of_ql (l0.trans la)
  have ql1 := expr_ql L n hen sa s1 h1e hla
  have hl1' : LInv s1' L := (hla.of_ql ql1).of_ql l1
  have hsd1 : s1'.scopeDepth = s.scopeDepth := by rw [l1.depth, ql1.depth, la.depth, l0.depth]
  have hd2 : curDepth s2 = d + 1 := by
    unfold curDepth at hd ⊢; rw [d2, hsd1, curDepth_depthUp_succ _ hsd, hd]
  have hl2 : LInv s2 L :=
    ⟨f2.trans hl1'.fid, lc2.trans hl1'.locals, fun p hp => by
      have := hl.depth p hp; rw [hd] at this; rw [hd2]; omega, hl.len⟩
  obtain ⟨rfl, b3, v3, d3, hl3⟩ := addLocalUnchecked_ok hl2 h3
  rw [hd2] at hl3
  have hd3 : curDepth s3 = d + 1 := by unfold curDepth at hd2 ⊢; rw [d3]; exact hd2
  obtain ⟨rfl, b4, v4, d4, hl4⟩ := addLocalUnchecked_ok hl3 h4
  rw [hd3, List.append_assoc] at hl4
  simp only [List.length_append, List.length_singleton] at h5 h7 h8 h9 h11
  have hlen := hl4.len
  simp only [List.length_append, List.length_cons, List.length_nil] at hlen
  obtain ⟨b5, l5, v5⟩ := writeLocalVar_ok h5
  obtain ⟨b6, l6, v6⟩ := processScalarInt_ok h6
  obtain ⟨b7, l7, v7⟩ := writeLocalVar_ok h7
  obtain ⟨b8, l8, v8⟩ := readLocalVar_ok h8
  obtain ⟨b9, l9, v9⟩ := readLocalVar_ok h9
  obtain ⟨b10, l10, v10⟩ := pushInstr_ok h10
  obtain ⟨c0, cE, hblock, e3, lq3, vq3, e5, lq5, vq5, hge, g1, g2, g3, g4⟩ :=
    encodeIfThen_ok (fun k => by have := processCard_mono (k := k) (.composite ty cs); mono) h11
  -- the block
  obtain ⟨_, c1, hc1, hb⟩ := bind_ok.1 hblock
  obtain ⟨_, c2, hc2, hb⟩ := bind_ok.1 hb
  obtain ⟨_, c3, hc3, hb⟩ := bind_ok.1 hb
  obtain ⟨_, c4, hc4, hb⟩ := bind_ok.1 hb
  obtain ⟨_, c5, hc5, hb⟩ := bind_ok.1 hb
  obtain ⟨_, c6, hc6, hb⟩ := bind_ok.1 hb
  obtain ⟨_, c7, hc7, hb⟩ := bind_ok.1 hb
  obtain ⟨_, c8, hc8, hb⟩ := bind_ok.1 hb
  obtain ⟨_, c9, hc9, hc10⟩ := bind_ok.1 hb
  obtain ⟨bc1, lcc1, fc1, vc1, dc1⟩ := scopeBegin_ok' hc1
  obtain ⟨ca, c3i, hbody, bca, lca, vca, bc3, lc3, vc3⟩ := withSub_ok' hc3
  have hbody' : (cardLabel >>= fun _ => compileSubexprFrom 0 cs) ca = .ok ((), c3i) := hbody
  obtain ⟨_, cb, hcb, hbody⟩ := bind_ok.1 hbody'
  obtain ⟨bcb, lcb, vcb⟩ := cardLabel_ok' hcb
  obtain ⟨bc5, lc5, vc5⟩ := processScalarInt_ok hc5
  obtain ⟨bc6, lc6, vc6⟩ := readLocalVar_ok hc6
  obtain ⟨bc7, lc7, vc7⟩ := pushInstr_ok hc7
  obtain ⟨bc8, lc8, vc8⟩ := writeLocalVar_ok hc8
  obtain ⟨bc9, lc9, vc9⟩ := pushInstr_ok hc9
  obtain ⟨bc10, lc10, vc10⟩ := emitBytes_ok hc10
  -- what is kept of the emitted bytes
  have k12 : KeptP s11 s' :=
    KeptP.of_ext ((scopeEnd_mono (k := s11.bytecode.size)).run _ _ _ h12 (Nat.le_refl _)).1
  have k10 : KeptP s10 s' := KeptP.trans ⟨by omega, g4⟩ k12
  have k9 : KeptP s9 s' := (KeptP.of_push b10).trans k10
  have k8 : KeptP s8 s' := (KeptP.of_instr b9).trans k9
  have k7 : KeptP s7 s' := (KeptP.of_instr b8).trans k8
  have k6 : KeptP s6 s' := (KeptP.of_instr b7).trans k7
  have k5 : KeptP s5 s' := (KeptP.of_instr b6).trans k6
  have k4 : KeptP s4 s' := (KeptP.of_instr b5).trans k5
  have k1 : KeptP s1 s' := (KeptP.of_eq (b4.trans (b3.trans (b2.trans b1)))).trans k4
  have kE9 : KeptP c9 cE := KeptP.of_append bc10
  have kE8 : KeptP c8 cE := (KeptP.of_push bc9).trans kE9
  have kE7 : KeptP c7 cE := (KeptP.of_instr bc8).trans kE8
  have kE6 : KeptP c6 cE := (KeptP.of_push bc7).trans kE7
  have kE5 : KeptP c5 cE := (KeptP.of_instr bc6).trans kE6
  have kE4 : KeptP c4 cE := (KeptP.of_instr bc5).trans kE5
  have kE3 : KeptP c3 cE :=
    (KeptP.of_ext ((scopeEnd_mono (k := c3.bytecode.size)).run _ _ _ hc4 (Nat.le_refl _)).1).trans kE4
  have kE3i : KeptP c3i cE := (KeptP.of_eq bc3).trans kE3
  have kb : KeptP cb c3i :=
    KeptP.of_ext ((compileSubexprFrom_mono (k := cb.bytecode.size) 0 cs).run _ _ _ hbody (Nat.le_refl _)).1
  have kE2 : KeptP c2 cE := (KeptP.of_eq (bcb.trans bca)).trans (kb.trans kE3i)
  have esa : sa.bytecode.size = s.bytecode.size := by rw [ba, b0]
  have hsz1 := processCard_size_le h1e
  have z4 : s4.bytecode.size = s1.bytecode.size := by rw [b4, b3, b2, b1]
  have hszS := hag.size_le
  -- the instructions before the block
  obtain ⟨i5, z5⟩ := isSet_at hag b5 k5 (by omega) (by omega : L.length < 4294967296)
  obtain ⟨i6, z6⟩ := scalarInt_at (F := F) (L := L) hag b6 k6 (by omega)
  obtain ⟨i7, z7⟩ := isSet_at hag b7 k7 (by omega) (by omega : L.length + 1 < 4294967296)
  obtain ⟨i8, z8⟩ := isRead_at hag b8 k8 (by omega) (by omega : L.length + 1 < 4294967296)
  obtain ⟨i9, z9⟩ := isRead_at hag b9 k9 (by omega) (by omega : L.length < 4294967296)
  obtain ⟨i10, z10⟩ := instr0_at hag b10 k10 (by omega)
  have hagI : AgreeFrom B cE (s10.bytecode.size + 5) :=
    hag.sub (by omega) (by rw [← e5]; exact k12.size_le) fun i hi hi' => by
      rw [k12.same i (by omega), g3 i hi]
  have hag11 : AgreeFrom B s11 s.bytecode.size := hag.sub (Nat.le_refl _) k12.size_le fun i _ hi => k12.same i hi
  have ec1 : c1.bytecode.size = s1.bytecode.size + 35 := by rw [bc1]; omega
  -- depths
  have hsd10 : s10.scopeDepth = depthUp s.scopeDepth := by
    rw [l10.depth, l9.depth, l8.depth, l7.depth, l6.depth, l5.depth, d4, d3, d2, hsd1]
  have hl10 : LInv s10 (L ++ [("", d + 1), ("", d + 1)]) :=
    hl4.of_ql (l5.trans (l6.trans (l7.trans (l8.trans (l9.trans l10)))))
  have hlc0 : LInv c0 (L ++ [("", d + 1), ("", d + 1)]) := hl10.of_ql lq3
  have hsdc0 : c0.scopeDepth = depthUp s.scopeDepth := by rw [lq3.depth, hsd10]
  have hdc0 : c0.scopeDepth.getLast?.getD 0 = d + 1 := by
    unfold curDepth at hd; rw [hsdc0, curDepth_depthUp_succ _ hsd, hd]
  have hdc1 : curDepth c1 = d + 2 := by
    unfold curDepth; rw [dc1, curDepth_depthUp_succ _ (by rw [hsdc0]; exact depthUp_ne_nil hsd), hdc0]; omega
  have hlc1 : LInv c1 (L ++ [("", d + 1), ("", d + 1)]) :=
    ⟨fc1.trans hlc0.fid, lcc1.trans hlc0.locals, fun p hp => by
      have := hlc0.depth p hp; unfold curDepth at this; rw [hdc0] at this; rw [hdc1]; omega, hl4.len⟩
  obtain ⟨vb, db, hlc2, hge2, hcl⟩ := bindLoopVar_rep hlc1 hdc1 ec1 hc2 hagI kE2 (by omega)
  -- the body
  have hsdc2 : cb.scopeDepth = depthUp c0.scopeDepth := by rw [lcb.depth, lca.depth, db, dc1]
  have hvE : ∃ t, F = cE.varIds ++ t := vpre_eq (vpre_back hv (scopeEnd_vr.run _ _ _ h12)) vq5.ids
  have hvc3i : ∃ t, F = c3i.varIds ++ t :=
    vpre_eq (vpre_back (vpre_eq hvE (vc5.trans (vc6.trans (vc7.trans (vc8.trans (vc9.trans vc10))))).ids)
      (scopeEnd_vr.run _ _ _ hc4)) vc3.ids
  have hvs1 : ∃ t, F = s1.varIds ++ t :=
    vpre_eq (vpre_back hvc3i ((compileSubexprFrom_vr 0 cs).run _ _ _ hbody))
      (v1.trans (v2.trans (v3.trans (v4.trans (v5.trans (v6.trans (v7.trans (v8.trans (v9.trans (v10.trans
        (vq3.trans (vc1.trans (vb.trans (vca.trans vcb)))))))))))))).ids
  have ecb : cb.bytecode.size = c2.bytecode.size := by rw [bcb, bca]
  obtain ⟨hl3i, hbc⟩ := ihb (repCtx d L i) 0 cb c3i hblk hbody ((hlc2.of_ql lca).of_ql lcb)
    (by unfold curDepth at hdc1 ⊢; rw [lcb.depth, lca.depth, db]; exact hdc1)
    (by rw [hsdc2]; exact depthUp_ne_nil (by rw [hsdc0]; exact depthUp_ne_nil hsd))
    (by
      rw [lcb.jt, lca.jt, (kp_run (bindLoopVar_kp _ _) hc2).jt, (kp_run scopeBegin_kp hc1).jt, lq3.jt,
        l10.jt, l9.jt, l8.jt, l7.jt, l6.jt, l5.jt, (kp_run (addLocalUnchecked_kp _) h4).jt,
        (kp_run (addLocalUnchecked_kp _) h3).jt, (kp_run scopeBegin_kp h2).jt, l1.jt, ql1.jt, la.jt, l0.jt]
      exact hj)
    (hagI.sub (by omega) kE3i.size_le fun i _ hi => kE3i.same i hi) hvc3i
  rw [ecb] at hbc
  obtain ⟨L', hctx1, hctx2, hctx3⟩ := blockCtx_rep d L i cs
  have hbal := compileSubexprFrom_balanced (i := 0) (cs := cs) (s := cb) (s' := c3i) hbody
    ((hlc2.of_ql lca).of_ql lcb).locals_ne
  have hdd3 : depthDown c3.scopeDepth = c0.scopeDepth := by
    rw [lc3.depth, hbal.scopeDepth, hsdc2, depthDown_depthUp]
  have hl3 : LInv c3 ((L ++ [("", d + 1), ("", d + 1)]) ++ L') := by rw [← hctx1]; exact hl3i.of_ql lc3
  obtain ⟨bc4, vc4, loc4, fid4, dep4⟩ := scopeEnd_split (L := L ++ [("", d + 1), ("", d + 1)]) (L' := L')
    hl3.fid hl3.locals
    (fun p hp => by rw [hdd3]; exact hlc0.depth p hp)
    (fun p hp => by rw [hdd3, hdc0, hctx2 p hp]; omega) hc4
  have hlc4 : LInv c4 (L ++ [("", d + 1), ("", d + 1)]) :=
    ⟨fid4, loc4, fun p hp => by unfold curDepth; rw [dep4, hdd3]; exact hlc0.depth p hp, hl4.len⟩
  have hql4E : QL c4 cE := lc5.trans (lc6.trans (lc7.trans (lc8.trans (lc9.trans lc10))))
  have hl11 : LInv s11 (L ++ [("", d + 1), ("", d + 1)]) := (hlc4.of_ql hql4E).of_ql lq5
  have hdd11 : depthDown s11.scopeDepth = s.scopeDepth := by
    rw [lq5.depth, hql4E.depth, dep4, hdd3, hsdc0, depthDown_depthUp]
  obtain ⟨b12, v12, loc12, fid12, dep12⟩ := scopeEnd_split (L := L) (L' := [("", d + 1), ("", d + 1)])
    hl11.fid hl11.locals
    (fun p hp => by rw [hdd11]; exact hl.depth p hp)
    (fun p hp => by
      unfold curDepth at hd; rw [hdd11, hd]
      simp only [List.mem_cons, List.mem_nil_iff, or_false, or_self] at hp
      rw [hp]; show d < d + 1; omega) h12
  have hlS : LInv s' L :=
    ⟨fid12, loc12, fun p hp => by unfold curDepth; rw [dep12, hdd11]; exact hl.depth p hp, hl.len⟩
  -- the instructions after the body
  have ec3 : c3.bytecode.size = c3i.bytecode.size := by rw [bc3]
  have ec4 : c4.bytecode.size = c3i.bytecode.size + L'.length := by rw [bc4, ← ec3]; simp
  have hge3 := kb.size_le
  obtain ⟨j5, y5⟩ := scalarInt_at (F := F) (L := L) hagI bc5 kE5 (by omega)
  obtain ⟨j6, y6⟩ := isRead_at hagI bc6 kE6 (by omega) (by omega : L.length + 1 < 4294967296)
  obtain ⟨j7, y7⟩ := instr0_at hagI bc7 kE7 (by omega)
  obtain ⟨j8, y8⟩ := isSet_at hagI bc8 kE8 (by omega) (by omega : L.length + 1 < 4294967296)
  obtain ⟨j9, j10, y10⟩ := instr32_at (sa := c8) (sb := cE) (o := op.goto) (x := s7.bytecode.size) hagI
    (by rw [bc10, bc9]) (KeptP.refl _) (by omega) (by have := k7.size_le; omega)
  have hpops : ∀ j, j < L'.length → B.getD (c3i.bytecode.size + j) 0 = op.pop := fun j hj => by
    have hag4 : AgreeFrom B c4 (s10.bytecode.size + 5) :=
      hagI.sub (Nat.le_refl _) kE4.size_le fun i _ hi => kE4.same i hi
    rw [hag4.getD (by omega) (by omega), bc4, ← ec3]
    simp [Array.getD_eq_getD_getElem?, hj]
  have eS : s'.bytecode.size = s11.bytecode.size + 2 := by rw [b12]; simp
  have hpop2 : ∀ j, j < 2 → B.getD (s11.bytecode.size + j) 0 = op.pop := fun j hj => by
    rw [hag.getD (by have := k10.size_le; have := k12.size_le; omega) (by omega), b12]
    rcases (by omega : j = 0 ∨ j = 1) with rfl | rfl <;> simp [Array.getD_eq_getD_getElem?]
  obtain ⟨_, hcc⟩ := ecodeL_of_processCard B F hF L (by have := hl.len; omega) n hen sa s1 h1e hla
    (hag.sub (by omega) k1.size_le fun i _ hi => k1.same i hi) hvs1
  rw [esa] at hcc
  have hg8 : B.getD s10.bytecode.size 0 = op.gotoIfFalse := by
    rw [hag11.getD (by omega) (by omega)]; exact g1
  have hg9 : Vm.rdU32 B (s10.bytecode.size + 1) = cE.bytecode.size := by
    rw [hag11.rdU32 (by omega) (by omega)]
    exact rdU32_patched (by omega) g2
  have hp0 := hpop2 0 (by omega)
  have hp1 := hpop2 1 (by omega)
  refine ⟨hlS, ?_⟩
  simp only [SCodeS]
  rw [hctx3]
  refine ⟨s1.bytecode.size, c2.bytecode.size, c3i.bytecode.size, hcc, ?_, ?_, ?_, ?_, ?_, ?_, ?_, ?_, hcl, hbc, hpops,
    ?_, ?_, ?_, ?_, ?_, ?_, ?_, ?_, ?_⟩
  · rw [← z4]; exact i5
  · have e1 : s1.bytecode.size + 5 = s5.bytecode.size := by omega
    have e2 : s1.bytecode.size + 14 = s5.bytecode.size + 9 := by omega
    rw [e1, e2]; exact i6
  · have e : s1.bytecode.size + 14 = s6.bytecode.size := by omega
    rw [e]; exact i7
  · have e : s1.bytecode.size + 19 = s7.bytecode.size := by omega
    rw [e]; exact i8
  · have e : s1.bytecode.size + 24 = s8.bytecode.size := by omega
    rw [e]; exact i9
  · have e : s1.bytecode.size + 29 = s9.bytecode.size := by omega
    rw [e]; exact i10
  · have e : s1.bytecode.size + 30 = s10.bytecode.size := by omega
    rw [e]; exact hg8
  · have e : s1.bytecode.size + 31 = s10.bytecode.size + 1 := by omega
    rw [e, hg9]; omega
  · have e1 : c3i.bytecode.size + L'.length = c4.bytecode.size := by omega
    rw [e1]; exact j5
  · have e : c3i.bytecode.size + L'.length + 9 = c5.bytecode.size := by omega
    rw [e]; exact j6
  · have e : c3i.bytecode.size + L'.length + 14 = c6.bytecode.size := by omega
    rw [e]; exact j7
  · have e : c3i.bytecode.size + L'.length + 15 = c7.bytecode.size := by omega
    rw [e]; exact j8
  · have e : c3i.bytecode.size + L'.length + 20 = c8.bytecode.size := by omega
    rw [e]; exact j9
  · have e : c3i.bytecode.size + L'.length + 21 = c8.bytecode.size + 1 := by omega
    rw [e, j10]; omega
  · have e : s'.bytecode.size - 2 = s11.bytecode.size + 0 := by omega
    rw [e]; exact hp0
  · have e : s'.bytecode.size - 1 = s11.bytecode.size + 1 := by omega
    rw [e]; exact hp1
  · omega

end Cao.Compiler
