import CaoProofs.Lemmas.RunInv
/-!
# The address counter never decreases

`run_next_mono`: `heap.next` after a run is at least `heap.next` before (objects are only ever
created at `next`, the collector and `Heap.set` leave it alone). Used to show that every machine
the host can reach has `1 ≤ heap.next`.
-/
namespace Cao.RunInv
open Cao Cao.Vm Cao.Gc Cao.C02 Cao.C05
set_option linter.unusedSectionVars false
set_option linter.unusedVariables false

def NextMono (s s' : VmState) : Prop := s.heap.next ≤ s'.heap.next

theorem nextMono_intro {s s' : VmState} (h : s.heap.next ≤ s'.heap.next) : NextMono s s' := h

instance : MemFrame NextMono where
  refl _ := Nat.le_refl _
  trans h1 h2 := Nat.le_trans h1 h2
  of_same hh _ := by unfold NextMono; rw [hh]; exact Nat.le_refl _

macro_rules | `(tactic| pres_side) => `(tactic| first
  | exact nextMono_intro (Nat.le_refl _) | exact nextMono_intro (Nat.le_succ _))

theorem npres_deallocBytes (c : Nat) : Pres NextMono (deallocBytes c) := by
  unfold deallocBytes; pres_auto
theorem npres_newObject (o : Obj) : Pres NextMono (newObject o) := by unfold newObject; pres_auto
theorem closeGo_next (top : Nat) (s0 : VmState) : ∀ (l : List Nat) (h : Heap),
    (closeUpvalues.go top s0 l h).2.next = h.next := by
  intro l
  induction l with
  | nil => intro h; rfl
  | cons a rest ih =>
    intro h
    unfold closeUpvalues.go
    split
    · split
      · rfl
      · rw [ih]; rfl
    · rfl
theorem npres_closeUpvalues (t : Nat) : Pres NextMono (closeUpvalues t) := by
  unfold closeUpvalues
  refine pres_get_bind (fun s => ?_)
  refine presAt_set ?_
  show s.heap.next ≤ (closeUpvalues.go t s s.openUpvalues s.heap).2.next
  rw [closeGo_next]; exact Nat.le_refl _
theorem npres_writeUpvalueLoc (a : Nat) (v : Val) : Pres NextMono (writeUpvalueLoc a v) := by
  unfold writeUpvalueLoc; pres_auto
theorem npres_allocBytes (c : Nat) : Pres NextMono (allocBytes c) := by
  unfold allocBytes; pres_auto
macro_rules | `(tactic| pres_prim) => `(tactic| with_reducible first
  | exact npres_deallocBytes _ | exact npres_newObject _ | exact npres_closeUpvalues _
  | exact npres_writeUpvalueLoc _ _ | exact npres_allocBytes _)
theorem npres_initTable : Pres NextMono initTable := by unfold initTable; pres_auto
theorem npres_initString (b : List UInt8) : Pres NextMono (initString b) := by
  unfold initString; pres_auto
theorem npres_initSimple (o : Obj) : Pres NextMono (initSimple o) := by unfold initSimple; pres_auto
theorem npres_tableInsert (a : Nat) (k v : Val) : Pres NextMono (tableInsert a k v) := by
  unfold tableInsert; pres_auto
macro_rules | `(tactic| pres_prim) => `(tactic| with_reducible first
  | exact npres_initTable | exact npres_initString _ | exact npres_initSimple _
  | exact npres_tableInsert _ _ _)
theorem npres_callNativeBody (reenter : Reenter) (hre : ∀ f, Pres NextMono (reenter f))
    (name : String) : Pres NextMono (callNativeBody reenter name) := by
  unfold callNativeBody
  pres_auto
macro_rules
  | `(tactic| pres_prim) => `(tactic| with_reducible exact npres_callNativeBody _ (by assumption) _)
theorem npres_callNative (reenter : Reenter) (hre : ∀ f, Pres NextMono (reenter f)) (h : UInt32) :
    Pres NextMono (callNative reenter h) := by
  unfold callNative
  pres_auto
macro_rules
  | `(tactic| pres_prim) => `(tactic| with_reducible exact npres_callNative _ (by assumption) _)
theorem npres_step (p : Prog) (reenter : Reenter) (hre : ∀ f, Pres NextMono (reenter f))
    (src : Nat) : Pres NextMono (step p reenter src) := by
  unfold step
  pres_auto

/-- **no run lowers the address counter** -/
theorem run_next_mono (p : Prog) (n : Nat) (s : VmState) : s.heap.next ≤ (run p n s).1.heap.next :=
  run_mem (R := NextMono) p (npres_step p) (fun re hre h => npres_callNative re hre h) n s

end Cao.RunInv
