import CaoProofs.Lemmas.CaptureStep
/-!
# One instruction keeps the capture invariant: the plain opcodes (A)
-/
namespace Cao.Vm
set_option linter.unusedSectionVars false
set_option linter.unusedVariables false

variable {p : Prog} {G : Nat → Prop} {lvl cnt : Nat → Nat} {E : ErrKind → Prop} [ErrClass E]
  {re : Reenter} {W0 : List (Option Nat × Nat)} {fs0 : List Frame} {l : Frame} {src : Nat}

theorem st_op_initTable (hs : CapStatic p G lvl cnt) (hsrc : G src)
    (hre : ReSpecS re (InvX p lvl none (W0 ++ [(l.closure, lvl src)]) (fs0 ++ [l])) E)
    (hop : p.bytecode.getD src 0 = Compiler.op.initTable) :
    St (InvX p lvl none (W0 ++ [(l.closure, lvl src)]) (fs0 ++ [l])) (step p re src)
      (StepQ p lvl W0 fs0 l src) E := by
  st_op hop
  all_goals q_seq hs, hsrc, hop, 1

theorem st_op_getProperty (hs : CapStatic p G lvl cnt) (hsrc : G src)
    (hre : ReSpecS re (InvX p lvl none (W0 ++ [(l.closure, lvl src)]) (fs0 ++ [l])) E)
    (hop : p.bytecode.getD src 0 = Compiler.op.getProperty) :
    St (InvX p lvl none (W0 ++ [(l.closure, lvl src)]) (fs0 ++ [l])) (step p re src)
      (StepQ p lvl W0 fs0 l src) E := by
  st_op hop
  all_goals q_seq hs, hsrc, hop, 1

theorem st_op_setProperty (hs : CapStatic p G lvl cnt) (hsrc : G src)
    (hre : ReSpecS re (InvX p lvl none (W0 ++ [(l.closure, lvl src)]) (fs0 ++ [l])) E)
    (hop : p.bytecode.getD src 0 = Compiler.op.setProperty) :
    St (InvX p lvl none (W0 ++ [(l.closure, lvl src)]) (fs0 ++ [l])) (step p re src)
      (StepQ p lvl W0 fs0 l src) E := by
  st_op hop
  all_goals q_seq hs, hsrc, hop, 1

theorem st_op_beginForEach (hs : CapStatic p G lvl cnt) (hsrc : G src)
    (hre : ReSpecS re (InvX p lvl none (W0 ++ [(l.closure, lvl src)]) (fs0 ++ [l])) E)
    (hop : p.bytecode.getD src 0 = Compiler.op.beginForEach) :
    St (InvX p lvl none (W0 ++ [(l.closure, lvl src)]) (fs0 ++ [l])) (step p re src)
      (StepQ p lvl W0 fs0 l src) E := by
  st_op hop
  all_goals q_seq hs, hsrc, hop, 21

theorem st_op_forEach (hs : CapStatic p G lvl cnt) (hsrc : G src)
    (hre : ReSpecS re (InvX p lvl none (W0 ++ [(l.closure, lvl src)]) (fs0 ++ [l])) E)
    (hop : p.bytecode.getD src 0 = Compiler.op.forEach) :
    St (InvX p lvl none (W0 ++ [(l.closure, lvl src)]) (fs0 ++ [l])) (step p re src)
      (StepQ p lvl W0 fs0 l src) E := by
  st_op hop
  all_goals q_seq hs, hsrc, hop, 21

theorem st_op_swapLast (hs : CapStatic p G lvl cnt) (hsrc : G src)
    (hre : ReSpecS re (InvX p lvl none (W0 ++ [(l.closure, lvl src)]) (fs0 ++ [l])) E)
    (hop : p.bytecode.getD src 0 = Compiler.op.swapLast) :
    St (InvX p lvl none (W0 ++ [(l.closure, lvl src)]) (fs0 ++ [l])) (step p re src)
      (StepQ p lvl W0 fs0 l src) E := by
  st_op hop
  all_goals q_seq hs, hsrc, hop, 1

theorem st_op_scalarNil (hs : CapStatic p G lvl cnt) (hsrc : G src)
    (hre : ReSpecS re (InvX p lvl none (W0 ++ [(l.closure, lvl src)]) (fs0 ++ [l])) E)
    (hop : p.bytecode.getD src 0 = Compiler.op.scalarNil) :
    St (InvX p lvl none (W0 ++ [(l.closure, lvl src)]) (fs0 ++ [l])) (step p re src)
      (StepQ p lvl W0 fs0 l src) E := by
  st_op hop
  all_goals q_seq hs, hsrc, hop, 1

theorem st_op_clearStack (hs : CapStatic p G lvl cnt) (hsrc : G src)
    (hre : ReSpecS re (InvX p lvl none (W0 ++ [(l.closure, lvl src)]) (fs0 ++ [l])) E)
    (hop : p.bytecode.getD src 0 = Compiler.op.clearStack) :
    St (InvX p lvl none (W0 ++ [(l.closure, lvl src)]) (fs0 ++ [l])) (step p re src)
      (StepQ p lvl W0 fs0 l src) E := by
  st_op hop
  all_goals q_seq hs, hsrc, hop, 1

theorem st_op_setLocalVar (hs : CapStatic p G lvl cnt) (hsrc : G src)
    (hre : ReSpecS re (InvX p lvl none (W0 ++ [(l.closure, lvl src)]) (fs0 ++ [l])) E)
    (hop : p.bytecode.getD src 0 = Compiler.op.setLocalVar) :
    St (InvX p lvl none (W0 ++ [(l.closure, lvl src)]) (fs0 ++ [l])) (step p re src)
      (StepQ p lvl W0 fs0 l src) E := by
  st_op hop
  all_goals q_seq hs, hsrc, hop, 5

theorem st_op_readLocalVar (hs : CapStatic p G lvl cnt) (hsrc : G src)
    (hre : ReSpecS re (InvX p lvl none (W0 ++ [(l.closure, lvl src)]) (fs0 ++ [l])) E)
    (hop : p.bytecode.getD src 0 = Compiler.op.readLocalVar) :
    St (InvX p lvl none (W0 ++ [(l.closure, lvl src)]) (fs0 ++ [l])) (step p re src)
      (StepQ p lvl W0 fs0 l src) E := by
  st_op hop
  all_goals q_seq hs, hsrc, hop, 5

theorem st_op_setGlobalVar (hs : CapStatic p G lvl cnt) (hsrc : G src)
    (hre : ReSpecS re (InvX p lvl none (W0 ++ [(l.closure, lvl src)]) (fs0 ++ [l])) E)
    (hop : p.bytecode.getD src 0 = Compiler.op.setGlobalVar) :
    St (InvX p lvl none (W0 ++ [(l.closure, lvl src)]) (fs0 ++ [l])) (step p re src)
      (StepQ p lvl W0 fs0 l src) E := by
  st_op hop
  all_goals q_seq hs, hsrc, hop, 5

theorem st_op_readGlobalVar (hs : CapStatic p G lvl cnt) (hsrc : G src)
    (hre : ReSpecS re (InvX p lvl none (W0 ++ [(l.closure, lvl src)]) (fs0 ++ [l])) E)
    (hop : p.bytecode.getD src 0 = Compiler.op.readGlobalVar) :
    St (InvX p lvl none (W0 ++ [(l.closure, lvl src)]) (fs0 ++ [l])) (step p re src)
      (StepQ p lvl W0 fs0 l src) E := by
  st_op hop
  all_goals q_seq hs, hsrc, hop, 5

theorem st_op_pop (hs : CapStatic p G lvl cnt) (hsrc : G src)
    (hre : ReSpecS re (InvX p lvl none (W0 ++ [(l.closure, lvl src)]) (fs0 ++ [l])) E)
    (hop : p.bytecode.getD src 0 = Compiler.op.pop) :
    St (InvX p lvl none (W0 ++ [(l.closure, lvl src)]) (fs0 ++ [l])) (step p re src)
      (StepQ p lvl W0 fs0 l src) E := by
  st_op hop
  all_goals q_seq hs, hsrc, hop, 1

theorem st_op_copyLast (hs : CapStatic p G lvl cnt) (hsrc : G src)
    (hre : ReSpecS re (InvX p lvl none (W0 ++ [(l.closure, lvl src)]) (fs0 ++ [l])) E)
    (hop : p.bytecode.getD src 0 = Compiler.op.copyLast) :
    St (InvX p lvl none (W0 ++ [(l.closure, lvl src)]) (fs0 ++ [l])) (step p re src)
      (StepQ p lvl W0 fs0 l src) E := by
  st_op hop
  all_goals q_seq hs, hsrc, hop, 1

end Cao.Vm
